import Ivy.Mon.C03
/-!
# Proof of C03 over the L1 loop machine

`monitor_accepts`: every trace of the machine is accepted by the monitor `Ivy.Mon.C03`.
The proof generalises to an arbitrary start: a relation `R μ s` between monitor state and machine
state is preserved by internal steps and by input steps.
-/
set_option linter.unusedSimpArgs false
set_option linter.unusedVariables false

namespace Ivy.L1.ProofsC03
open Ivy.L1 Ivy.Mon Ivy.Mon.C03

/-! ## small list facts -/

theorem find?_filter_ne {α : Type} (l : List (Nat × α)) (f g : Nat) (h : g ≠ f) :
    (l.filter (fun p => p.1 != f)).find? (fun p => p.1 == g) = l.find? (fun p => p.1 == g) := by
  induction l with
  | nil => rfl
  | cons a t ih =>
    by_cases ha : a.1 = f
    · have : (f == g) = false := by simp; omega
      simp [ha, ih, this]
    · simp [List.find?_cons, ha, ih]

theorem find?_of_mem_nodup {α : Type} (l : List (Nat × α)) (p : Nat × α) (hm : p ∈ l)
    (hn : (l.map (·.1)).Nodup) : l.find? (fun q => q.1 == p.1) = some p := by
  induction l with
  | nil => cases hm
  | cons a t ih =>
    simp only [List.map_cons, List.nodup_cons] at hn
    rcases List.mem_cons.mp hm with rfl | hm
    · simp
    · have hne : a.1 ≠ p.1 := by
        intro he
        exact hn.1 (he ▸ List.mem_map_of_mem hm)
      simp [hne, ih hm hn.2]

/-! ## bands -/

def Bands.le (a b : Bands) : Prop :=
  (a.i = true → b.i = true) ∧ (a.o = true → b.o = true) ∧ (a.e = true → b.e = true)

theorem Bands.le_refl (a : Bands) : Bands.le a a := ⟨id, id, id⟩

theorem Bands.zero_le (b : Bands) : Bands.le {} b := by simp [Bands.le]

theorem Bands.union_le {a b c : Bands} (h1 : Bands.le a c) (h2 : Bands.le b c) :
    Bands.le (a.union b) c := by
  simp only [Bands.le, Bands.union, Bool.or_eq_true] at *
  grind

/-! ## the part of an `FdObj` that the dispatch logic reads -/

def coreEq (o o' : FdObj) : Prop :=
  o'.registered = o.registered ∧ o'.ready = o.ready ∧ o'.hin = o.hin ∧ o'.hout = o.hout ∧ o'.herr = o.herr

theorem coreEq.rfl' (o : FdObj) : coreEq o o := ⟨rfl, rfl, rfl, rfl, rfl⟩

theorem coreEq.trans {a b c : FdObj} (h1 : coreEq a b) (h2 : coreEq b c) : coreEq a c := by
  simp only [coreEq] at *
  grind

/-! ## descriptor primitives: frame facts -/

theorem epollNotify_frame (s : St) (f : FdId) :
    (epollNotify s f).stack = s.stack ∧ (epollNotify s f).handled = s.handled ∧
    (epollNotify s f).method = s.method ∧ (epollNotify s f).pc = s.pc ∧
    (epollNotify s f).fds = s.fds ∧ (epollNotify s f).kint = s.kint ∧ (epollNotify s f).pfds = s.pfds := by
  simp [epollNotify]

theorem epollFlushOne_frame (s : St) (f : FdId) :
    (epollFlushOne s f).stack = s.stack ∧ (epollFlushOne s f).handled = s.handled ∧
    (epollFlushOne s f).method = s.method ∧ (epollFlushOne s f).pc = s.pc ∧
    (epollFlushOne s f).pfds = s.pfds := by
  simp only [epollFlushOne]
  split <;> simp

theorem epollFlushOne_core (s : St) (f g : FdId) : coreEq (s.fds g) ((epollFlushOne s f).fds g) := by
  simp only [epollFlushOne]
  split
  · exact coreEq.rfl' _
  · simp only [upd]
    split
    · subst_vars; simp [coreEq]
    · exact coreEq.rfl' _

theorem pollNotify_frame (s : St) (f : FdId) :
    (pollNotify s f).stack = s.stack ∧ (pollNotify s f).handled = s.handled ∧
    (pollNotify s f).method = s.method ∧ (pollNotify s f).pc = s.pc ∧
    (pollNotify s f).kint = s.kint ∧ (pollNotify s f).notify = s.notify := by
  simp only [pollNotify]
  split
  · split <;> simp
  · split
    · split
      · split <;> simp
      · simp
    · simp

theorem pollNotify_core (s : St) (f g : FdId) : coreEq (s.fds g) ((pollNotify s f).fds g) := by
  simp only [pollNotify]
  split
  · split
    · simp only [upd]; split
      · subst_vars; simp [coreEq]
      · exact coreEq.rfl' _
    · exact coreEq.rfl' _
  · split
    · split
      · split
        · simp only [upd]; split
          · subst_vars; simp [coreEq]
          · split
            · subst_vars; simp [coreEq]
            · exact coreEq.rfl' _
        · exact coreEq.rfl' _
      · simp only [upd]; split
        · subst_vars; simp [coreEq]
        · exact coreEq.rfl' _
    · exact coreEq.rfl' _

theorem notifyFd_frame (s : St) (f : FdId) :
    (notifyFd s f).stack = s.stack ∧ (notifyFd s f).handled = s.handled ∧
    (notifyFd s f).method = s.method ∧ (notifyFd s f).pc = s.pc := by
  simp only [notifyFd]
  split
  · have := epollNotify_frame { s with fds := upd s.fds f { (s.fds f) with wanted := wantedOf (s.fds f) } } f
    simp_all
  · have := pollNotify_frame { s with fds := upd s.fds f { (s.fds f) with wanted := wantedOf (s.fds f) } } f
    simp_all

theorem notifyFd_core (s : St) (f g : FdId) : coreEq (s.fds g) ((notifyFd s f).fds g) := by
  have h0 : coreEq (s.fds g) (upd s.fds f { (s.fds f) with wanted := wantedOf (s.fds f) } g) := by
    simp only [upd]; split
    · subst_vars; simp [coreEq]
    · exact coreEq.rfl' _
  simp only [notifyFd]
  split
  · rw [(epollNotify_frame _ f).2.2.2.2.1]; exact h0
  · exact h0.trans (pollNotify_core _ f g)

/-! ## interest-set invariants: an unregistered user descriptor is not in the kernel's interest set -/

theorem Bands.isZero_iff (b : Bands) : b.isZero = true ↔ b = {} := by
  cases b with | mk i o e => cases i <;> cases o <;> cases e <;> simp [Bands.isZero]

/-- `x` is a descriptor exempt from the `unreg` clause (used half-way through `iv_fd_unregister`) -/
structure EpInvX (x : Option FdId) (s : St) : Prop where
  nodup : s.notify.Nodup
  unreg : ∀ f, f < 1000 → some f ≠ x → (s.fds f).registered = false → f ∉ s.notify ∧ (s.fds f).regBands = {}
  kz : ∀ f, f < 1000 → (s.fds f).regBands = {} → s.kint f = none

abbrev EpInv (s : St) : Prop := EpInvX none s

structure PoInv (s : St) : Prop where
  V : ∀ g i, (s.fds g).index = some i → ∃ b, s.pfds[i]? = some (g, b)
  W : ∀ f j b, f < 1000 → s.pfds[j]? = some (f, b) → (s.fds f).index = some j
  X : ∀ f, f < 1000 → (s.fds f).registered = false → (s.fds f).index = none

theorem epollNotify_EpInv (x : Option FdId) (s : St) (f : FdId) (h : EpInvX x s)
    (hz : f < 1000 → some f ≠ x → (s.fds f).registered = false → (s.fds f).wanted = {}) :
    EpInvX x (epollNotify s f) := by
  obtain ⟨h1, h2, h3⟩ := h
  have hnd : (s.notify.erase f).Nodup := h1.erase f
  have hnm : f ∉ s.notify.erase f := fun hm => ((h1.mem_erase_iff).mp hm).1 rfl
  refine ⟨?_, ?_, ?_⟩
  · simp only [epollNotify]
    split
    · exact List.nodup_append.mpr ⟨hnd, by simp, by intro a ha b hb; simp at hb; subst hb; intro he; subst he; exact hnm ha⟩
    · exact hnd
  · intro g hg hx hr
    simp only [epollNotify] at hr ⊢
    refine ⟨?_, (h2 g hg hx hr).2⟩
    have hg' := (h2 g hg hx hr)
    split
    · next hne =>
      intro hm
      rcases List.mem_append.mp hm with hm | hm
      · exact hg'.1 (List.mem_of_mem_erase hm)
      · have : g = f := by simpa using hm
        subst this
        simp [hz hg hx hr, hg'.2] at hne
    · intro hm; exact hg'.1 (List.mem_of_mem_erase hm)
  · intro g hg hr
    simp only [epollNotify] at hr ⊢
    exact h3 g hg hr

theorem epollFlushOne_EpInv (x : Option FdId) (s : St) (f : FdId) (h : EpInvX x s)
    (hz : f < 1000 → some f ≠ x → (s.fds f).registered = false → (s.fds f).wanted = {}) :
    EpInvX x (epollFlushOne s f) := by
  obtain ⟨h1, h2, h3⟩ := h
  have hnd : (s.notify.erase f).Nodup := h1.erase f
  have hnm : f ∉ s.notify.erase f := fun hm => ((h1.mem_erase_iff).mp hm).1 rfl
  simp only [epollFlushOne]
  split
  · refine ⟨hnd, ?_, h3⟩
    intro g hg hx hr
    exact ⟨fun hm => (h2 g hg hx hr).1 (List.mem_of_mem_erase hm), (h2 g hg hx hr).2⟩
  · refine ⟨hnd, ?_, ?_⟩
    · intro g hg hx hr
      simp only [upd] at hr ⊢
      split at hr
      · next he =>
        subst he
        simp only [if_true]
        exact ⟨hnm, hz hg hx hr⟩
      · next he =>
        simp only [he, if_false]
        exact ⟨fun hm => (h2 g hg hx hr).1 (List.mem_of_mem_erase hm), (h2 g hg hx hr).2⟩
    · intro g hg hr
      simp only [upd] at hr ⊢
      split at hr
      · next he =>
        subst he
        simp only [if_true]
        simp [(Bands.isZero_iff _).mpr hr]
      · next he =>
        simp only [he, if_false]
        exact h3 g hg hr

theorem epollFlushOne_registered (s : St) (f g : FdId) :
    ((epollFlushOne s f).fds g).registered = (s.fds g).registered := (epollFlushOne_core s f g).1

theorem flushAll_EpInv (l : List FdId) (s : St) (h : EpInv s)
    (hl : ∀ g ∈ l, g < 1000 → (s.fds g).registered = true) : EpInv (l.foldl epollFlushOne s) := by
  induction l generalizing s with
  | nil => exact h
  | cons a t ih =>
    simp only [List.foldl_cons]
    apply ih
    · apply epollFlushOne_EpInv _ _ _ h
      intro ha _ hr
      have := hl a (by simp) ha
      simp [this] at hr
    · intro g hg hlt
      rw [epollFlushOne_registered]
      exact hl g (by simp [hg]) hlt

theorem pollNotify_PoInv' (s : St) (f : FdId)
    (hV : ∀ g i, (s.fds g).index = some i → ∃ b, s.pfds[i]? = some (g, b))
    (hW : ∀ f j b, f < 1000 → s.pfds[j]? = some (f, b) → (s.fds f).index = some j)
    (hX : ∀ g, g ≠ f → g < 1000 → (s.fds g).registered = false → (s.fds g).index = none)
    (hz : f < 1000 → (s.fds f).registered = false → (s.fds f).wanted = {}) : PoInv (pollNotify s f) := by
  simp only [pollNotify]
  split
  · next hidx =>
    split
    · next hw =>
      -- append
      refine ⟨?_, ?_, ?_⟩
      · intro g i hi
        simp only [upd] at hi
        split at hi
        · next he => subst he; simp at hi; subst hi; exact ⟨(s.fds g).wanted, by simp⟩
        · obtain ⟨b, hb⟩ := hV g i hi
          obtain ⟨hlt, hget⟩ := List.getElem?_eq_some_iff.mp hb
          exact ⟨b, by simp [List.getElem?_append, hlt, hget]⟩
      · intro g j b hg hj
        simp only [upd]
        simp only [List.getElem?_append] at hj
        split at hj
        · have := hW g j b hg hj
          split
          · next he => subst he; rw [hidx] at this; cases this
          · exact this
        · have hj' : j - s.pfds.length = 0 := by
            rcases hjj : j - s.pfds.length with _ | n
            · rfl
            · rw [hjj] at hj; simp at hj
          rw [hj'] at hj
          simp at hj
          obtain ⟨rfl, _⟩ := hj
          simp
          omega
      · intro g hg hr
        simp only [upd] at hr ⊢
        split
        · next he =>
          subst he
          simp only [if_true] at hr
          have := hz hg hr
          simp [this, Bands.isZero] at hw
        · next he =>
          simp only [he, if_false] at hr
          exact hX g he hg hr
    · refine ⟨hV, hW, ?_⟩
      intro g hg hr
      by_cases he : g = f
      · subst he; exact hidx
      · exact hX g he hg hr
  · next i hidx =>
    obtain ⟨b0, hb0⟩ := hV f i hidx
    have hilt : i < s.pfds.length := (List.getElem?_eq_some_iff.mp hb0).1
    split
    · next hw =>
      split
      · next hne =>
        have hne' : i ≠ s.pfds.length - 1 := by simpa using hne
        split
        · next lf lb hlast =>
          -- swap with last, drop last
          have hlastlt : s.pfds.length - 1 < s.pfds.length := by omega
          refine ⟨?_, ?_, ?_⟩
          · intro g j hj
            simp only [upd] at hj
            split at hj
            · simp at hj
            · next hgf =>
              split at hj
              · next hgl =>
                subst hgl
                simp at hj
                subst hj
                exact ⟨lb, by simp [List.getElem?_dropLast, List.getElem?_set]; omega⟩
              · next hgl =>
                obtain ⟨b, hb⟩ := hV g j hj
                have hjlt : j < s.pfds.length := (List.getElem?_eq_some_iff.mp hb).1
                have hji : j ≠ i := by
                  intro he; subst he; rw [hb0] at hb; simp at hb; exact hgf hb.1.symm
                have hjl : j ≠ s.pfds.length - 1 := by
                  intro he; subst he; rw [hlast] at hb; simp at hb; exact hgl hb.1.symm
                refine ⟨b, ?_⟩
                simp only [List.getElem?_dropLast, List.length_set, List.getElem?_set]
                rw [if_pos (by omega), if_neg (by omega)]
                exact hb
          · intro g j b hg hj
            simp only [List.getElem?_dropLast, List.length_set, List.getElem?_set] at hj
            split at hj
            · next hjl =>
              split at hj
              · next hij =>
                subst hij
                simp at hj
                obtain ⟨rfl, rfl⟩ := hj
                simp only [upd]
                have hgl := hW lf _ _ hg hlast
                split
                · next he => subst he; rw [hidx] at hgl; simp at hgl; omega
                · simp
              · next hij =>
                have hgj := hW g j b hg hj
                simp only [upd]
                split
                · next he => subst he; rw [hidx] at hgj; simp at hgj; omega
                · split
                  · next he =>
                    subst he
                    have hgl := hW g _ _ hg hlast
                    rw [hgj] at hgl; simp at hgl; omega
                  · exact hgj
            · cases hj
          · intro g hg hr
            simp only [upd] at hr ⊢
            split
            · rfl
            · next hgf =>
              simp only [hgf, if_false] at hr
              split
              · next hgl =>
                subst hgl
                simp at hr
                have := hX g hgf hg hr
                rw [hW g _ _ hg hlast] at this
                cases this
              · next hgl =>
                simp only [hgl, if_false] at hr
                exact hX g hgf hg hr
        · next hnone =>
          have : s.pfds.length - 1 < s.pfds.length := by omega
          simp at hnone
          omega
      · next heq =>
        have heq' : i = s.pfds.length - 1 := by simpa using heq
        refine ⟨?_, ?_, ?_⟩
        · intro g j hj
          simp only [upd] at hj
          split at hj
          · simp at hj
          · next hgf =>
            obtain ⟨b, hb⟩ := hV g j hj
            have hjlt : j < s.pfds.length := (List.getElem?_eq_some_iff.mp hb).1
            have hji : j ≠ i := by
              intro he; subst he; rw [hb0] at hb; simp at hb; exact hgf hb.1.symm
            refine ⟨b, ?_⟩
            simp only [List.getElem?_dropLast]
            rw [if_pos (by omega)]
            exact hb
        · intro g j b hg hj
          simp only [List.getElem?_dropLast] at hj
          split at hj
          · next hjl =>
            have hgj := hW g j b hg hj
            simp only [upd]
            split
            · next he => subst he; rw [hidx] at hgj; simp at hgj; omega
            · exact hgj
          · cases hj
        · intro g hg hr
          simp only [upd] at hr ⊢
          split
          · rfl
          · next hgf =>
            simp only [hgf, if_false] at hr
            exact hX g hgf hg hr
    · next hw =>
      -- overwrite own slot
      refine ⟨?_, ?_, ?_⟩
      · intro g j hj
        obtain ⟨b, hb⟩ := hV g j hj
        have hjlt : j < s.pfds.length := (List.getElem?_eq_some_iff.mp hb).1
        simp only [List.getElem?_set]
        split
        · next hij =>
          subst hij
          rw [hb0] at hb; simp at hb
          exact ⟨(s.fds f).wanted, by simp [hjlt, hb.1]⟩
        · exact ⟨b, hb⟩
      · intro g j b hg hj
        simp only [List.getElem?_set] at hj
        split at hj
        · next hij =>
          subst hij
          simp [hilt] at hj
          obtain ⟨rfl, _⟩ := hj
          exact hidx
        · exact hW g j b hg hj
      · intro g hg hr
        by_cases he : g = f
        · subst he
          have := hz hg hr
          simp [this, Bands.isZero] at hw
        · exact hX g he hg hr

theorem pollNotify_PoInv (s : St) (f : FdId) (h : PoInv s)
    (hz : f < 1000 → (s.fds f).registered = false → (s.fds f).wanted = {}) : PoInv (pollNotify s f) :=
  pollNotify_PoInv' s f h.V h.W (fun g _ => h.X g) hz

def IntInv (s : St) : Prop :=
  (s.method.isEpoll = true → EpInv s) ∧ (s.method.isEpoll = false → PoInv s)

theorem EpInvX_congr {x : Option FdId} {s s' : St} (h : EpInvX x s) (hf : s'.fds = s.fds) (hn : s'.notify = s.notify)
    (hk : s'.kint = s.kint) : EpInvX x s' := by
  obtain ⟨h1, h2, h3⟩ := h
  exact ⟨hn ▸ h1, by rw [hf, hn]; exact h2, by rw [hf, hk]; exact h3⟩

theorem PoInv_congr {s s' : St} (h : PoInv s) (hf : s'.fds = s.fds) (hp : s'.pfds = s.pfds) : PoInv s' := by
  obtain ⟨h1, h2, h3⟩ := h
  exact ⟨by rw [hf, hp]; exact h1, by rw [hf, hp]; exact h2, by rw [hf]; exact h3⟩

theorem IntInv_congr {s s' : St} (h : IntInv s) (hm : s'.method.isEpoll = s.method.isEpoll) (hf : s'.fds = s.fds)
    (hn : s'.notify = s.notify) (hp : s'.pfds = s.pfds) (hk : s'.kint = s.kint) : IntInv s' :=
  ⟨fun he => EpInvX_congr (h.1 (hm ▸ he)) hf hn hk, fun he => PoInv_congr (h.2 (hm ▸ he)) hf hp⟩

theorem EpInvX_updSame {x : Option FdId} (s : St) (f : FdId) (o' : FdObj)
    (hr : o'.registered = (s.fds f).registered) (hb : o'.regBands = (s.fds f).regBands)
    (h : EpInvX x s) : EpInvX x { s with fds := upd s.fds f o' } := by
  obtain ⟨h1, h2, h3⟩ := h
  refine ⟨h1, ?_, ?_⟩
  · intro g hg hx hreg
    simp only [upd] at hreg ⊢
    split at hreg
    · next he => subst he; simp only [if_true]; rw [hb]; exact h2 g hg hx (hr ▸ hreg)
    · next he => simp only [he, if_false]; exact h2 g hg hx hreg
  · intro g hg hreg
    simp only [upd] at hreg ⊢
    split at hreg
    · next he => subst he; exact h3 g hg (hb ▸ hreg)
    · exact h3 g hg hreg

theorem PoInv_updSame (s : St) (f : FdId) (o' : FdObj)
    (hr : o'.registered = (s.fds f).registered) (hi : o'.index = (s.fds f).index)
    (h : PoInv s) : PoInv { s with fds := upd s.fds f o' } := by
  obtain ⟨h1, h2, h3⟩ := h
  refine ⟨?_, ?_, ?_⟩
  · intro g i hgi
    simp only [upd] at hgi
    split at hgi
    · next he => subst he; exact h1 g i (hi ▸ hgi)
    · exact h1 g i hgi
  · intro g j b hg hj
    simp only [upd]
    split
    · next he => subst he; rw [hi]; exact h2 g j b hg hj
    · exact h2 g j b hg hj
  · intro g hg hreg
    simp only [upd] at hreg ⊢
    split at hreg
    · next he => subst he; simp only [if_true]; rw [hi]; exact h3 g hg (hr ▸ hreg)
    · next he => simp only [he, if_false]; exact h3 g hg hreg

theorem IntInv_updSame (s : St) (f : FdId) (o' : FdObj)
    (hr : o'.registered = (s.fds f).registered) (hb : o'.regBands = (s.fds f).regBands)
    (hi : o'.index = (s.fds f).index) (h : IntInv s) : IntInv { s with fds := upd s.fds f o' } :=
  ⟨fun he => EpInvX_updSame s f o' hr hb (h.1 he), fun he => PoInv_updSame s f o' hr hi (h.2 he)⟩

theorem wantedOf_unreg (o : FdObj) (h : o.registered = false) : wantedOf o = {} := by
  simp [wantedOf, h]

theorem notifyFd_IntInv (s : St) (f : FdId) (h : IntInv s) : IntInv (notifyFd s f) := by
  have h1 := IntInv_updSame s f { (s.fds f) with wanted := wantedOf (s.fds f) } rfl rfl rfl h
  have hz : f < 1000 → (({ s with fds := upd s.fds f { (s.fds f) with wanted := wantedOf (s.fds f) } } : St).fds f).registered = false →
      (({ s with fds := upd s.fds f { (s.fds f) with wanted := wantedOf (s.fds f) } } : St).fds f).wanted = {} := by
    intro _ hr
    simp only [upd, if_true] at hr ⊢
    exact wantedOf_unreg _ hr
  simp only [notifyFd]
  split
  · next hep =>
    refine ⟨fun _ => epollNotify_EpInv none _ f (h1.1 hep) (fun a _ b => hz a b), fun hne => ?_⟩
    rw [(epollNotify_frame _ f).2.2.1] at hne
    simp_all
  · next hep =>
    refine ⟨fun he => ?_, fun _ => pollNotify_PoInv _ f (h1.2 (by simpa using hep)) hz⟩
    rw [(pollNotify_frame _ f).2.2.1] at he
    simp_all

/-- the start of a registration: the object is reset and taken off the notify list -/
theorem IntInv_regStart (s : St) (f : FdId) (o' : FdObj) (h : IntInv s)
    (hu : f < 1000 → (s.fds f).registered = false)
    (hb : o'.regBands = {}) (hi : o'.index = none) :
    IntInv { s with fds := upd s.fds f o', notify := s.notify.erase f } := by
  refine ⟨fun he => ?_, fun he => ?_⟩
  · obtain ⟨h1, h2, h3⟩ := h.1 he
    refine ⟨h1.erase f, ?_, ?_⟩
    · intro g hg hx hreg
      simp only [upd] at hreg ⊢
      split at hreg
      · next hgf =>
        subst hgf
        simp only [if_true]
        exact ⟨fun hm => ((h1.mem_erase_iff).mp hm).1 rfl, hb⟩
      · next hgf =>
        simp only [hgf, if_false]
        exact ⟨fun hm => (h2 g hg hx hreg).1 (List.mem_of_mem_erase hm), (h2 g hg hx hreg).2⟩
    · intro g hg hreg
      simp only [upd] at hreg
      split at hreg
      · next hgf => subst hgf; exact h3 g hg (h2 g hg (by simp) (hu hg)).2
      · exact h3 g hg hreg
  · obtain ⟨h1, h2, h3⟩ := h.2 he
    refine ⟨?_, ?_, ?_⟩
    · intro g i hgi
      simp only [upd] at hgi
      split at hgi
      · rw [hi] at hgi; cases hgi
      · exact h1 g i hgi
    · intro g j b hg hj
      simp only [upd]
      have := h2 g j b hg hj
      split
      · next hgf => subst hgf; rw [h3 g hg (hu hg)] at this; cases this
      · exact this
    · intro g hg hreg
      simp only [upd] at hreg ⊢
      split at hreg
      · next hgf => subst hgf; simp only [if_true]; exact hi
      · next hgf => simp only [hgf, if_false]; exact h3 g hg hreg

theorem fdRegisterCore_IntInv (s : St) (f : FdId) (hin hout herr : Bool) (h : IntInv s)
    (hu : f < 1000 → (s.fds f).registered = false) : IntInv (fdRegisterCore s f hin hout herr) := by
  have h1 := IntInv_regStart s f
    { (s.fds f) with hin, hout, herr, registered := true, ready := {}, regBands := {}, index := none } h hu rfl rfl
  have h2 := notifyFd_IntInv _ f h1
  exact IntInv_congr h2 rfl rfl rfl rfl rfl

/-- the part of `fdUnregisterCore` after `notify_fd` -/
def unregTail (s2 : St) (f : FdId) : St :=
  let s3 := if s2.method.isEpoll && s2.notify.contains f then epollFlushOne s2 f else s2
  { s3 with numobjs := s3.numobjs - 1, numfds := s3.numfds - 1,
            handled := if s3.handled == some f then none else s3.handled }

def unregHead (s : St) (f : FdId) : St :=
  { s with fds := upd s.fds f { (s.fds f) with registered := false }, stack := s.stack.map (eraseActive · f) }

theorem fdUnregisterCore_eq (s : St) (f : FdId) :
    fdUnregisterCore s f = unregTail (notifyFd (unregHead s f) f) f := rfl

theorem unregTail_IntInv (s2 : St) (f : FdId)
    (hE : s2.method.isEpoll = true →
      EpInvX (some f) s2 ∧ (s2.fds f).wanted = {} ∧ (f ∉ s2.notify → (s2.fds f).regBands = {}))
    (hP : s2.method.isEpoll = false → PoInv s2) : IntInv (unregTail s2 f) := by
  cases hep : s2.method.isEpoll
  · have : unregTail s2 f = { s2 with numobjs := s2.numobjs - 1, numfds := s2.numfds - 1, handled := if s2.handled == some f then none else s2.handled } := by
      simp only [unregTail]
      rw [if_neg (by simp [hep])]
    rw [this]
    exact ⟨fun he => by simp [hep] at he, fun _ => PoInv_congr (hP hep) rfl rfl⟩
  · obtain ⟨hX, hw, hrb⟩ := hE hep
    -- the state after the optional synchronous flush
    have key : ∃ s3 : St, unregTail s2 f = { s3 with numobjs := s3.numobjs - 1, numfds := s3.numfds - 1, handled := if s3.handled == some f then none else s3.handled } ∧ s3.method = s2.method ∧
            EpInvX (some f) s3 ∧ f ∉ s3.notify ∧ (s3.fds f).regBands = {} := by
      by_cases hc : s2.notify.contains f = true
      · refine ⟨epollFlushOne s2 f, by simp only [unregTail]; rw [if_pos (by rw [hep, hc]; rfl)], (epollFlushOne_frame s2 f).2.2.1,
          epollFlushOne_EpInv _ s2 f hX (fun _ hx => absurd rfl hx), ?_, ?_⟩
        · have hnm : f ∉ s2.notify.erase f := fun hm => ((hX.nodup.mem_erase_iff).mp hm).1 rfl
          simp only [epollFlushOne]
          split <;> exact hnm
        · simp only [epollFlushOne]
          split
          · next heq =>
            have : (s2.fds f).regBands = (s2.fds f).wanted := by simpa using heq
            rw [this, hw]
          · simp [upd, hw]
      · refine ⟨s2, by simp only [unregTail]; rw [if_neg (by rw [hep, Bool.true_and]; exact hc)], rfl, hX, ?_, ?_⟩
        · simpa using hc
        · exact hrb (by simpa using hc)
    obtain ⟨s3, heq, hm, h3, hn, hb⟩ := key
    rw [heq]
    refine ⟨fun _ => ?_, fun he => ?_⟩
    · refine ⟨h3.nodup, ?_, h3.kz⟩
      intro g hg _ hreg
      by_cases hgf : g = f
      · subst hgf; exact ⟨hn, hb⟩
      · exact h3.unreg g hg (by simpa using hgf) hreg
    · have : s3.method.isEpoll = false := he
      rw [hm, hep] at this; cases this

theorem fdUnregisterCore_IntInv (s : St) (f : FdId) (h : IntInv s) : IntInv (fdUnregisterCore s f) := by
  rw [fdUnregisterCore_eq]
  have hwz : wantedOf ({ (s.fds f) with registered := false } : FdObj) = {} := wantedOf_unreg _ rfl
  have hm : (notifyFd (unregHead s f) f).method = s.method := (notifyFd_frame _ f).2.2.1
  apply unregTail_IntInv
  · intro hep
    rw [hm] at hep
    obtain ⟨h1, h2, h3⟩ := h.1 hep
    have hA : EpInvX (some f) (unregHead s f) := by
      refine ⟨h1, ?_, ?_⟩
      · intro g hg hx hreg
        have hgf : g ≠ f := fun he => hx (by rw [he])
        simp only [unregHead, upd, hgf, if_false] at hreg ⊢
        exact h2 g hg (by simp) hreg
      · intro g hg hreg
        simp only [unregHead, upd] at hreg
        split at hreg
        · next he => subst he; exact h3 g hg hreg
        · exact h3 g hg hreg
    have hB := EpInvX_updSame (unregHead s f) f
      { ((unregHead s f).fds f) with wanted := wantedOf ((unregHead s f).fds f) } rfl rfl hA
    have hC := epollNotify_EpInv _ _ f hB (fun _ hx => absurd rfl hx)
    have hnf : notifyFd (unregHead s f) f = epollNotify { (unregHead s f) with fds := upd (unregHead s f).fds f { ((unregHead s f).fds f) with wanted := wantedOf ((unregHead s f).fds f) } } f := by
      simp only [notifyFd]
      rw [if_pos (by simpa [unregHead] using hep)]
    rw [hnf]
    refine ⟨hC, ?_, ?_⟩
    · simp [epollNotify, unregHead, upd, hwz]
    · simp only [epollNotify, unregHead, upd, if_true, hwz]
      split
      · intro hn; exact absurd (List.mem_append_right _ (List.mem_singleton_self f)) hn
      · next hne => intro _; simpa using hne
  · intro hep
    rw [hm] at hep
    obtain ⟨h1, h2, h3⟩ := h.2 hep
    have hnf : notifyFd (unregHead s f) f = pollNotify { (unregHead s f) with fds := upd (unregHead s f).fds f { ((unregHead s f).fds f) with wanted := wantedOf ((unregHead s f).fds f) } } f := by
      simp only [notifyFd]
      rw [if_neg (by simpa [unregHead] using hep)]
    rw [hnf]
    apply pollNotify_PoInv'
    · intro g i hgi
      simp only [unregHead, upd] at hgi
      split at hgi
      · next he => subst he; exact h1 g i hgi
      · exact h1 g i hgi
    · intro g j b hg hj
      simp only [unregHead, upd]
      split
      · next he => subst he; exact h2 g j b hg hj
      · exact h2 g j b hg hj
    · intro g hgf hg hreg
      simp only [unregHead, upd, hgf, if_false] at hreg ⊢
      exact h3 g hg hreg
    · intro _ _
      simp [unregHead, upd, hwz]

/-! ## `iv_fd_register_try`, success path, in pieces -/

def tryObj (o : FdObj) (hin hout herr : Bool) : FdObj :=
  { o with hin, hout, herr, registered := true, ready := {}, regBands := {}, index := none }

def tryStart (s : St) (f : FdId) (hin hout herr : Bool) : St :=
  let o := tryObj (s.fds f) hin hout herr
  let orig := wantedOf o
  let w : Bands := if orig.isZero then ⟨true, true, false⟩ else orig
  { s with fds := upd s.fds f { o with wanted := w }, notify := s.notify.erase f }

def tryMid (s1 : St) (f : FdId) : St := if s1.method.isEpoll then epollFlushOne s1 f else pollNotify s1 f

def tryZero (s : St) (f : FdId) : St :=
  let o := s.fds f
  let s := { s with fds := upd s.fds f { o with wanted := {} } }
  if s.method.isEpoll then epollNotify s f else pollNotify s f

def tryTail (s1 : St) (f : FdId) (z : Bool) : St :=
  let s := tryMid s1 f
  let s := if z then tryZero s f else s
  { s with numobjs := s.numobjs + 1, numfds := s.numfds + 1 }

theorem api_tryOk_eq (s : St) (f : FdId) (hin hout herr : Bool) (hr : (s.fds f).registered = false) :
    api s (.fdRegisterTry f hin hout herr true) =
      ok (tryTail (tryStart s f hin hout herr) f (wantedOf (tryObj (s.fds f) hin hout herr)).isZero) := by
  simp only [api, hr]
  rfl

/-! ## the interest-set invariant through API calls -/

theorem IntInv_flushOrPoll (s : St) (f : FdId) (h : IntInv s) (hr : (s.fds f).registered = true) :
    IntInv (if s.method.isEpoll then epollFlushOne s f else pollNotify s f) := by
  split
  · next hep =>
    refine ⟨fun _ => epollFlushOne_EpInv none s f (h.1 hep) (fun _ _ hreg => by simp [hr] at hreg), fun hne => ?_⟩
    rw [(epollFlushOne_frame s f).2.2.1] at hne
    simp_all
  · next hep =>
    refine ⟨fun he => ?_, fun _ => pollNotify_PoInv s f (h.2 (by simpa using hep)) (fun _ hreg => by simp [hr] at hreg)⟩
    rw [(pollNotify_frame _ f).2.2.1] at he
    simp_all

theorem IntInv_notifyOrPoll (s : St) (f : FdId) (h : IntInv s) (hr : (s.fds f).registered = true) :
    IntInv (if s.method.isEpoll then epollNotify s f else pollNotify s f) := by
  split
  · next hep =>
    refine ⟨fun _ => epollNotify_EpInv none s f (h.1 hep) (fun _ _ hreg => by simp [hr] at hreg), fun hne => ?_⟩
    rw [(epollNotify_frame s f).2.2.1] at hne
    simp_all
  · next hep =>
    refine ⟨fun he => ?_, fun _ => pollNotify_PoInv s f (h.2 (by simpa using hep)) (fun _ hreg => by simp [hr] at hreg)⟩
    rw [(pollNotify_frame _ f).2.2.1] at he
    simp_all

theorem IntInv_dead (s : St) (h : IntInv s) : IntInv { s with pc := .dead } := IntInv_congr h rfl rfl rfl rfl rfl

theorem rawRegisterCore_IntInv (s : St) (r : RawId) (h : IntInv s) : IntInv (rawRegisterCore s r) := by
  have := fdRegisterCore_IntInv s (rawFd r) true false false h (fun hlt => absurd hlt (Nat.not_lt.mpr (Nat.le_add_right 1000 r)))
  exact IntInv_congr this rfl rfl rfl rfl rfl

theorem rawUnregisterCore_IntInv (s : St) (r : RawId) (h : IntInv s) : IntInv (rawUnregisterCore s r) := by
  have := fdUnregisterCore_IntInv s (rawFd r) h
  exact IntInv_congr this rfl rfl rfl rfl rfl

theorem tryStart_reg (s : St) (f : FdId) (hin hout herr : Bool) :
    ((tryStart s f hin hout herr).fds f).registered = true := by
  simp [tryStart, upd, tryObj]

theorem tryMid_reg (s : St) (f g : FdId) : ((tryMid s f).fds g).registered = (s.fds g).registered := by
  simp only [tryMid]
  split
  · exact (epollFlushOne_core s f g).1
  · exact (pollNotify_core s f g).1

theorem tryTail_IntInv (s1 : St) (f : FdId) (z : Bool) (h : IntInv s1) (hr : (s1.fds f).registered = true) :
    IntInv (tryTail s1 f z) := by
  have h2 : IntInv (tryMid s1 f) := IntInv_flushOrPoll s1 f h hr
  have hr2 : ((tryMid s1 f).fds f).registered = true := by rw [tryMid_reg]; exact hr
  have h3 : IntInv (if z then tryZero (tryMid s1 f) f else tryMid s1 f) := by
    split
    · exact IntInv_notifyOrPoll
        { (tryMid s1 f) with fds := upd (tryMid s1 f).fds f { ((tryMid s1 f).fds f) with wanted := {} } } f
        (IntInv_updSame _ f _ rfl rfl rfl h2) (by simp [upd, hr2])
    · exact h2
  exact IntInv_congr h3 rfl rfl rfl rfl rfl

/-- everything the descriptor invariants read, except `stack` and `pc`, is unchanged -/
def SameFd (s s' : St) : Prop :=
  s'.method.isEpoll = s.method.isEpoll ∧ s'.fds = s.fds ∧ s'.notify = s.notify ∧ s'.pfds = s.pfds ∧
  s'.kint = s.kint ∧ s'.handled = s.handled

theorem SameFd.intInv {s s' : St} (hs : SameFd s s') (h : IntInv s) : IntInv s' :=
  IntInv_congr h hs.1 hs.2.1 hs.2.2.1 hs.2.2.2.1 hs.2.2.2.2.1

def evRegMid (s : St) : St :=
  let first : Bool := s.eventCount == (0 : Int)
  let s : St := { s with numobjs := s.numobjs + 1, eventCount := s.eventCount + 1 }
  if first && !s.useRaw then
    if s.method.isEpoll then { s with kickReg := true, kickArmed := false, numobjs := s.numobjs + 1 }
    else { s with useRaw := true }
  else s

theorem api_evRegister_eq (s : St) (e : EvId) (rawOk : Bool) :
    api s (.evRegister e rawOk) =
      if (s.eventCount == (0 : Int)) && (evRegMid s).useRaw then
        if rawOk then
          ok { (rawRegisterCore (evRegMid s) 0) with
                evs := upd (rawRegisterCore (evRegMid s) 0).evs e { ((rawRegisterCore (evRegMid s) 0).evs e) with registered := true } }
        else
          (({ (evRegMid s) with eventCount := (evRegMid s).eventCount - 1, numobjs := (evRegMid s).numobjs - 1 }), [Out.ret (-1)])
      else ok { (evRegMid s) with evs := upd (evRegMid s).evs e { ((evRegMid s).evs e) with registered := true } } := rfl

theorem evRegMid_same (s : St) : SameFd s (evRegMid s) ∧ (evRegMid s).stack = s.stack ∧ (evRegMid s).pc = s.pc := by
  simp only [evRegMid]
  split
  · split <;> simp [SameFd]
  · simp [SameFd]

def evUnregMid (s : St) (e : EvId) : St :=
  { s with
    pending := s.pending.erase e
    stack := s.stack.map (eraseEvent · e)
    evs := upd s.evs e { (s.evs e) with registered := false }
    eventCount := s.eventCount - 1 }

def evUnregEnd (m : St) : St :=
  if m.eventCount == (0 : Int) then
    if m.useRaw then rawUnregisterCore m 0
    else { m with kickReg := false, kickArmed := false, numobjs := m.numobjs - 1 }
  else m

theorem api_evUnregister_eq (s : St) (e : EvId) :
    api s (.evUnregister e) =
      ok { (evUnregEnd (evUnregMid s e)) with numobjs := (evUnregEnd (evUnregMid s e)).numobjs - 1 } := rfl

theorem api_IntInv (s : St) (a : Api) (h : IntInv s) (hok : apiOk s a = true) : IntInv (api s a).1 := by
  cases a with
  | fdRegister f hin hout herr =>
    simp only [api]
    split
    · exact IntInv_dead s h
    · next hr => exact fdRegisterCore_IntInv s f _ _ _ h (fun _ => by simpa using hr)
  | fdRegisterTry f hin hout herr kernelOk =>
    simp only [api]
    split
    · exact IntInv_dead s h
    · next hr =>
      have hu : f < 1000 → (s.fds f).registered = false := fun _ => by simpa using hr
      split
      · exact IntInv_regStart s f _ h hu rfl rfl
      · next hk =>
        have hk' : kernelOk = true := by simpa using hk
        subst hk'
        have hr' : (s.fds f).registered = false := by simpa using hr
        have := api_tryOk_eq s f hin hout herr hr'
        simp only [api, hr'] at this
        simp only [Bool.false_eq_true, if_false, Bool.not_true] at this
        rw [this]
        apply tryTail_IntInv
        · exact IntInv_regStart s f _ h hu rfl rfl
        · exact tryStart_reg s f hin hout herr
  | fdUnregister f =>
    simp only [api]
    split
    · exact IntInv_dead s h
    · exact fdUnregisterCore_IntInv s f h
  | fdSetIn f v =>
    simp only [api]
    split
    · exact IntInv_dead s h
    · exact notifyFd_IntInv _ f (IntInv_updSame s f _ rfl rfl rfl h)
  | fdSetOut f v =>
    simp only [api]
    split
    · exact IntInv_dead s h
    · exact notifyFd_IntInv _ f (IntInv_updSame s f _ rfl rfl rfl h)
  | fdSetErr f v =>
    simp only [api]
    split
    · exact IntInv_dead s h
    · exact notifyFd_IntInv _ f (IntInv_updSame s f _ rfl rfl rfl h)
  | timerRegister t e =>
    simp only [api]
    split <;> exact IntInv_congr h rfl rfl rfl rfl rfl
  | timerUnregister t =>
    simp only [api]
    split <;> exact IntInv_congr h rfl rfl rfl rfl rfl
  | taskRegister k =>
    simp only [api]
    split
    · exact IntInv_dead s h
    · simp only [ok, taskRegisterCore]
      split <;> exact IntInv_congr h rfl rfl rfl rfl rfl
  | taskUnregister k =>
    simp only [api]
    split <;> exact IntInv_congr h rfl rfl rfl rfl rfl
  | taskInit k => exact IntInv_congr h rfl rfl rfl rfl rfl
  | evRegister e rawOk =>
    rw [api_evRegister_eq]
    have hm := (evRegMid_same s).1.intInv h
    split
    · split
      · exact IntInv_congr (rawRegisterCore_IntInv _ 0 hm) rfl rfl rfl rfl rfl
      · exact IntInv_congr hm rfl rfl rfl rfl rfl
    · exact IntInv_congr hm rfl rfl rfl rfl rfl
  | evUnregister e =>
    rw [api_evUnregister_eq]
    have hm : IntInv (evUnregMid s e) := IntInv_congr h rfl rfl rfl rfl rfl
    have : IntInv (evUnregEnd (evUnregMid s e)) := by
      simp only [evUnregEnd]
      split
      · split
        · exact rawUnregisterCore_IntInv _ 0 hm
        · exact IntInv_congr hm rfl rfl rfl rfl rfl
      · exact hm
    exact IntInv_congr this rfl rfl rfl rfl rfl
  | evPost e =>
    simp only [api]
    split
    · exact h
    · split
      · simp only [taskRegisterCore]
        split <;> exact IntInv_congr h rfl rfl rfl rfl rfl
      · exact IntInv_congr h rfl rfl rfl rfl rfl
  | rawRegister r okk =>
    simp only [api]
    split
    · exact h
    · exact rawRegisterCore_IntInv s r h
  | rawUnregister r => exact rawUnregisterCore_IntInv s r h
  | quit => exact IntInv_congr h rfl rfl rfl rfl rfl
  | invalidateNow => exact IntInv_congr h rfl rfl rfl rfl rfl
  | validateNow =>
    simp only [api]
    split
    · exact h
    · exact IntInv_congr h rfl rfl rfl rfl rfl
  | main =>
    simp only [api]
    split <;> exact IntInv_congr h rfl rfl rfl rfl rfl

/-! ## the interest-set invariant through internal steps and the other inputs -/

theorem flushAll_frame (l : List FdId) (s : St) :
    (l.foldl epollFlushOne s).stack = s.stack ∧ (l.foldl epollFlushOne s).handled = s.handled ∧
    (l.foldl epollFlushOne s).method = s.method ∧ (l.foldl epollFlushOne s).pc = s.pc ∧
    (l.foldl epollFlushOne s).pfds = s.pfds ∧ ∀ g, coreEq (s.fds g) ((l.foldl epollFlushOne s).fds g) := by
  induction l generalizing s with
  | nil => exact ⟨rfl, rfl, rfl, rfl, rfl, fun g => coreEq.rfl' _⟩
  | cons a t ih =>
    simp only [List.foldl_cons]
    have h1 := ih (epollFlushOne s a)
    have h2 := epollFlushOne_frame s a
    refine ⟨h1.1.trans h2.1, h1.2.1.trans h2.2.1, h1.2.2.1.trans h2.2.2.1, h1.2.2.2.1.trans h2.2.2.2.1,
      h1.2.2.2.2.1.trans h2.2.2.2.2, fun g => (epollFlushOne_core s a g).trans (h1.2.2.2.2.2 g)⟩

/-- `s.notify.foldl epollFlushOne s` when epoll, else `s` -/
def flushed (s : St) : St := if s.method.isEpoll then s.notify.foldl epollFlushOne s else s

theorem flushed_frame (s : St) :
    (flushed s).stack = s.stack ∧ (flushed s).handled = s.handled ∧
    (flushed s).method = s.method ∧ (flushed s).pc = s.pc ∧
    ∀ g, coreEq (s.fds g) ((flushed s).fds g) := by
  simp only [flushed]
  split
  · have := flushAll_frame s.notify s
    exact ⟨this.1, this.2.1, this.2.2.1, this.2.2.2.1, this.2.2.2.2.2⟩
  · exact ⟨rfl, rfl, rfl, rfl, fun g => coreEq.rfl' _⟩

theorem flushed_IntInv (s : St) (h : IntInv s) : IntInv (flushed s) := by
  simp only [flushed]
  split
  · next hep =>
    refine ⟨fun _ => ?_, fun he => ?_⟩
    · apply flushAll_EpInv _ _ (h.1 hep)
      intro g hg hlt
      cases hr : (s.fds g).registered
      · exact absurd hg ((h.1 hep).unreg g hlt (by simp) hr).1
      · rfl
    · rw [(flushAll_frame s.notify s).2.2.1, hep] at he; cases he
  · exact h

theorem timeoutCheck_same (s : St) (abs : Option Ivy.Heap.TS) (hm : s.method = .epollTimerfd) :
    SameFd s (timeoutCheck s abs).1 ∧ (timeoutCheck s abs).1.stack = s.stack ∧ (timeoutCheck s abs).1.pc = s.pc := by
  simp only [timeoutCheck]
  repeat' split
  all_goals simp [SameFd, hm, Method.isEpoll]

theorem internal_flush_eq (s : St) (abs : Option Ivy.Heap.TS) (km : Bool) :
    internal s (.flush abs km) =
      if abs.isSome && !(flushed s).timeValid then ({ (flushed s) with pc := .needTime (.forWait abs km) }, [])
      else goto (flushed s) (.wait abs km) := rfl

theorem internal_prepWait_eq (s : St) :
    internal s .prepWait =
      (let abs : Option Ivy.Heap.TS := if !s.tasks.isEmpty then some ⟨0, 0⟩ else Ivy.Heap.soonest s.heap
       if s.method == .epollTimerfd then
         if (timeoutCheck s abs).2 then goto (timeoutCheck s abs).1 (.flush none true)
         else goto (timeoutCheck s abs).1 (.flush abs false)
       else goto s (.flush abs false)) := by
  simp only [internal]

theorem internal_IntInv (s : St) (b : Block) (h : IntInv s) : IntInv (internal s b).1 := by
  cases b with
  | flush abs km =>
    rw [internal_flush_eq]
    have := flushed_IntInv s h
    split <;> exact IntInv_congr this rfl rfl rfl rfl rfl
  | prepWait =>
    rw [internal_prepWait_eq]
    simp only []
    split
    · next hm =>
      have hm' : s.method = .epollTimerfd := by simpa using hm
      have := fun abs => (timeoutCheck_same s abs hm').1.intInv h
      repeat' split
      all_goals exact IntInv_congr (this _) rfl rfl rfl rfl rfl
    · repeat' split
      all_goals exact IntInv_congr h rfl rfl rfl rfl rfl
  | _ =>
    simp only [internal, goto, fatal, setTop]
    repeat' split
    all_goals exact IntInv_congr h rfl rfl rfl rfl rfl

/-! ## the wait returned -/

/-- one iteration of the event loop of `iv_fd_*_poll` -/
def wstep (acc : St × List FdId × Bool × Bool) (it : WItem) : St × List FdId × Bool × Bool :=
  let (s, a, rt, re) := acc
  match it with
  | .kick => ({ s with kickArmed := false }, a, rt, true)
  | .ktimer => ({ s with ktimer := none }, a, true, re)
  | .fd f ev => let (s', a') := activate s a f ev; (s', a', rt, re)

def waitStart (s : St) : St := { s with timeValid := false }

def waitRt0 (s : St) (abs : Option Ivy.Heap.TS) : Bool := if s.method == .epollTimerfd then abs.isSome else true

def waitEnd (r : St × List FdId × Bool × Bool) (km : Bool) : St × List Out :=
  let (s, active, rt, runEv) := r
  let s := if km && rt then { s with lastAbsCount := 0 } else s
  let s := { s with stack := .poll active rt :: s.stack }
  if runEv then goto s .runEvents else goto s .dispatchNext

theorem afterWait_events_eq (s : St) (abs : Option Ivy.Heap.TS) (km : Bool) (l : List WItem) :
    afterWait s abs km (.events l) =
      waitEnd (l.foldl wstep (waitStart s, [], waitRt0 (waitStart s) abs, false)) km := rfl

theorem wfold_inv (P : St → List FdId → Prop) (L : List WItem)
    (hk : ∀ s a, P s a → P { s with kickArmed := false } a)
    (ht : ∀ s a, P s a → P { s with ktimer := none } a)
    (hf : ∀ s a f ev, WItem.fd f ev ∈ L → P s a → P (activate s a f ev).1 (activate s a f ev).2) :
    ∀ (l : List WItem), (∀ it ∈ l, it ∈ L) → ∀ s a rt re, P s a →
      P (l.foldl wstep (s, a, rt, re)).1 (l.foldl wstep (s, a, rt, re)).2.1 := by
  intro l
  induction l with
  | nil => intro _ s a rt re h; exact h
  | cons it t ih =>
    intro hl s a rt re h
    simp only [List.foldl_cons]
    have ht' : ∀ it ∈ t, it ∈ L := fun x hx => hl x (List.mem_cons_of_mem _ hx)
    cases it with
    | kick => exact ih ht' _ _ _ _ (hk s a h)
    | ktimer => exact ih ht' _ _ _ _ (ht s a h)
    | fd f ev =>
      have := hf s a f ev (hl _ (List.mem_cons_self)) h
      exact ih ht' _ _ _ _ this

/-- only `ready` fields differ -/
def ReadyOnly (s s' : St) : Prop :=
  s'.method = s.method ∧ s'.stack = s.stack ∧ s'.handled = s.handled ∧ s'.pc = s.pc ∧ s'.notify = s.notify ∧
  s'.pfds = s.pfds ∧ s'.kint = s.kint ∧ ∀ g, ∃ r, s'.fds g = { (s.fds g) with ready := r }

theorem ReadyOnly.refl (s : St) : ReadyOnly s s :=
  ⟨rfl, rfl, rfl, rfl, rfl, rfl, rfl, fun g => ⟨(s.fds g).ready, rfl⟩⟩

theorem ReadyOnly.trans {a b c : St} (h1 : ReadyOnly a b) (h2 : ReadyOnly b c) : ReadyOnly a c := by
  obtain ⟨a1, a2, a3, a4, a5, a6, a7, a8⟩ := h1
  obtain ⟨b1, b2, b3, b4, b5, b6, b7, b8⟩ := h2
  refine ⟨b1.trans a1, b2.trans a2, b3.trans a3, b4.trans a4, b5.trans a5, b6.trans a6, b7.trans a7, fun g => ?_⟩
  obtain ⟨r1, hr1⟩ := a8 g
  obtain ⟨r2, hr2⟩ := b8 g
  exact ⟨r2, by rw [hr2, hr1]⟩

theorem makeReady_readyOnly (s : St) (a : List FdId) (f : FdId) (b : Bands) : ReadyOnly s (makeReady s a f b).1 := by
  simp only [makeReady]
  split
  · refine ⟨rfl, rfl, rfl, rfl, rfl, rfl, rfl, fun g => ?_⟩
    simp only [upd]
    split
    · next he => subst he; exact ⟨_, rfl⟩
    · exact ⟨(s.fds g).ready, rfl⟩
  · refine ⟨rfl, rfl, rfl, rfl, rfl, rfl, rfl, fun g => ?_⟩
    simp only [upd]
    split
    · next he => subst he; exact ⟨_, rfl⟩
    · exact ⟨(s.fds g).ready, rfl⟩

theorem activate_readyOnly (s : St) (a : List FdId) (f : FdId) (ev : KEv) : ReadyOnly s (activate s a f ev).1 := by
  simp only [activate]
  repeat' split
  all_goals first
    | exact ReadyOnly.refl _
    | exact makeReady_readyOnly _ _ _ _
    | exact (makeReady_readyOnly _ _ _ _).trans (makeReady_readyOnly _ _ _ _)
    | exact ((makeReady_readyOnly _ _ _ _).trans (makeReady_readyOnly _ _ _ _)).trans (makeReady_readyOnly _ _ _ _)

theorem ReadyOnly.intInv {s s' : St} (hs : ReadyOnly s s') (h : IntInv s) : IntInv s' := by
  obtain ⟨a1, a2, a3, a4, a5, a6, a7, a8⟩ := hs
  have hreg : ∀ g, (s'.fds g).registered = (s.fds g).registered ∧ (s'.fds g).regBands = (s.fds g).regBands ∧
      (s'.fds g).index = (s.fds g).index := by
    intro g; obtain ⟨r, hr⟩ := a8 g; rw [hr]; exact ⟨rfl, rfl, rfl⟩
  refine ⟨fun he => ?_, fun he => ?_⟩
  · obtain ⟨h1, h2, h3⟩ := h.1 (a1 ▸ he)
    refine ⟨a5 ▸ h1, ?_, ?_⟩
    · intro g hg hx hr
      rw [a5, (hreg g).2.1]
      exact h2 g hg hx ((hreg g).1 ▸ hr)
    · intro g hg hr
      rw [a7]
      exact h3 g hg ((hreg g).2.1 ▸ hr)
  · obtain ⟨h1, h2, h3⟩ := h.2 (a1 ▸ he)
    refine ⟨?_, ?_, ?_⟩
    · intro g i hi
      rw [a6]
      exact h1 g i ((hreg g).2.2 ▸ hi)
    · intro g j b hg hj
      rw [(hreg g).2.2]
      exact h2 g j b hg (a6 ▸ hj)
    · intro g hg hr
      rw [(hreg g).2.2]
      exact h3 g hg ((hreg g).1 ▸ hr)

theorem wfold_readyOnly (s0 : St) (l : List WItem) (a : List FdId) (rt re : Bool) :
    ReadyOnly s0 (l.foldl wstep (s0, a, rt, re)).1 :=
  wfold_inv (fun s _ => ReadyOnly s0 s) l
    (fun s _ h => h.trans ⟨rfl, rfl, rfl, rfl, rfl, rfl, rfl, fun g => ⟨(s.fds g).ready, rfl⟩⟩)
    (fun s _ h => h.trans ⟨rfl, rfl, rfl, rfl, rfl, rfl, rfl, fun g => ⟨(s.fds g).ready, rfl⟩⟩)
    (fun s a f ev _ h => h.trans (activate_readyOnly s a f ev))
    l (fun _ h => h) s0 a rt re (ReadyOnly.refl s0)

theorem afterWait_IntInv (s : St) (abs : Option Ivy.Heap.TS) (km : Bool) (r : WRes) (h : IntInv s) :
    IntInv (afterWait s abs km r).1 := by
  cases r with
  | events l =>
    rw [afterWait_events_eq]
    have h0 : IntInv (waitStart s) := IntInv_congr h rfl rfl rfl rfl rfl
    have h1 := (wfold_readyOnly (waitStart s) l [] (waitRt0 (waitStart s) abs) false).intInv h0
    simp only [waitEnd, goto]
    repeat' split
    all_goals exact IntInv_congr h1 rfl rfl rfl rfl rfl
  | eintr =>
    simp only [afterWait, goto]
    repeat' split
    all_goals exact IntInv_congr h rfl rfl rfl rfl rfl
  | enosys =>
    simp only [afterWait, goto, fatal]
    split
    · split <;> exact IntInv_congr h rfl rfl rfl rfl rfl
    · split <;> exact IntInv_congr h rfl rfl rfl rfl rfl
    · next hm =>
      split <;> exact IntInv_congr h (by simp [hm, Method.isEpoll]) rfl rfl rfl rfl
    · exact IntInv_congr h rfl rfl rfl rfl rfl

theorem IntInv_init (s : St) (f : FdId) (h : IntInv s) (hlt : f < 1000) (hu : (s.fds f).registered = false) :
    IntInv { s with fds := upd s.fds f { live := true } } := by
  refine ⟨fun he => ?_, fun he => ?_⟩
  · obtain ⟨h1, h2, h3⟩ := h.1 he
    refine ⟨h1, ?_, ?_⟩
    · intro g hg hx hr
      simp only [upd] at hr ⊢
      split
      · next hgf => subst hgf; exact ⟨(h2 g hg hx hu).1, rfl⟩
      · next hgf => simp only [hgf, if_false] at hr; exact h2 g hg hx hr
    · intro g hg hr
      simp only [upd] at hr
      split at hr
      · next hgf => subst hgf; exact h3 g hg (h2 g hg (by simp) hu).2
      · exact h3 g hg hr
  · obtain ⟨h1, h2, h3⟩ := h.2 he
    refine ⟨?_, ?_, ?_⟩
    · intro g i hi
      simp only [upd] at hi
      split at hi
      · cases hi
      · exact h1 g i hi
    · intro g j b hg hj
      have := h2 g j b hg hj
      simp only [upd]
      split
      · next hgf => subst hgf; rw [h3 g hg hu] at this; cases this
      · exact this
    · intro g hg hr
      simp only [upd] at hr ⊢
      split
      · rfl
      · next hgf => simp only [hgf, if_false] at hr; exact h3 g hg hr

theorem input_IntInv (s : St) (i : Input) (s' : St) (outs : List Out) (h : IntInv s) (henv : envOk s i = true)
    (hi : input s i = some (s', outs)) : IntInv s' := by
  unfold input at hi
  split at hi
  · next a hpc =>
    simp only [Option.some.injEq] at hi
    have : s' = (api s a).1 := by rw [hi]
    rw [this]
    exact api_IntInv s a h (by simp [envOk] at henv; exact henv.1)
  · split at hi <;> simp [goto] at hi
    all_goals (obtain ⟨rfl, _⟩ := hi; exact IntInv_congr h rfl rfl rfl rfl rfl)
  · next k id hpc =>
    simp only [Option.some.injEq, Prod.mk.injEq] at hi
    obtain ⟨rfl, _⟩ := hi
    simp only [freeObj]
    split
    · exact IntInv_updSame s id _ rfl rfl rfl h
    all_goals exact IntInv_congr h rfl rfl rfl rfl rfl
  · next k id hpc =>
    simp only [Option.some.injEq, Prod.mk.injEq] at hi
    obtain ⟨rfl, _⟩ := hi
    simp only [initObj]
    split
    · simp [envOk, unregisteredObj] at henv
      exact IntInv_init s id h henv.1 henv.2
    all_goals exact IntInv_congr h rfl rfl rfl rfl rfl
  · next k t hpc =>
    simp only [Option.some.injEq] at hi
    have : s' = (afterTime s t k).1 := by rw [hi]
    rw [this]
    simp only [afterTime, goto]
    split <;> exact IntInv_congr h rfl rfl rfl rfl rfl
  · next abs km r hpc =>
    simp only [Option.some.injEq] at hi
    have : s' = (afterWait s abs km r).1 := by rw [hi]
    rw [this]
    exact afterWait_IntInv s _ _ r h
  · repeat' split at hi
    all_goals (simp at hi; obtain ⟨rfl, _⟩ := hi; first | exact h | exact IntInv_congr h rfl rfl rfl rfl rfl | (split <;> exact IntInv_congr h rfl rfl rfl rfl rfl))
  · repeat' split at hi
    all_goals (simp [goto] at hi; obtain ⟨rfl, _⟩ := hi; exact IntInv_congr h rfl rfl rfl rfl rfl)
  · cases hi


/-! ## the frame stack -/

def kind : Frame → Nat
  | .timers _ => 0
  | .tasks _ => 1
  | .poll _ _ => 2
  | .fd _ _ => 3
  | .events _ => 4

def shapeK : List Nat → Bool
  | 4 :: r => shapeK r
  | [] => true
  | [0] => true
  | [1] => true
  | [2] => true
  | [3, 2] => true
  | _ => false

/-- `events* ++ ([] | [timers] | [tasks] | [poll] | [fd, poll])` -/
def shapeOk (l : List Frame) : Bool := shapeK (l.map kind)

def activeOf : List Frame → List FdId
  | [] => []
  | .poll a _ :: _ => a
  | _ :: rest => activeOf rest

def curOf : List Frame → Option (FdId × Nat)
  | [] => none
  | .fd c st :: _ => some (c, st)
  | _ :: rest => curOf rest

theorem shape_events (b : List EvId) (rest : List Frame) : shapeOk (.events b :: rest) = shapeOk rest := by
  simp [shapeOk, kind, shapeK]

theorem shape_timers {b : List Nat} {rest : List Frame} (h : shapeOk (.timers b :: rest) = true) : rest = [] := by
  cases rest with
  | nil => rfl
  | cons x t => simp [shapeOk, kind, shapeK] at h

theorem shape_tasks {b : List TaskId} {rest : List Frame} (h : shapeOk (.tasks b :: rest) = true) : rest = [] := by
  cases rest with
  | nil => rfl
  | cons x t => simp [shapeOk, kind, shapeK] at h

theorem shape_poll {a : List FdId} {rt : Bool} {rest : List Frame} (h : shapeOk (.poll a rt :: rest) = true) :
    rest = [] := by
  cases rest with
  | nil => rfl
  | cons x t => simp [shapeOk, kind, shapeK] at h

theorem shape_fd {c : FdId} {st : Nat} {rest : List Frame} (h : shapeOk (.fd c st :: rest) = true) :
    ∃ a rt, rest = [.poll a rt] := by
  cases rest with
  | nil => simp [shapeOk, kind, shapeK] at h
  | cons x t =>
    cases t with
    | nil => cases x <;> simp [shapeOk, kind, shapeK] at h; exact ⟨_, _, rfl⟩
    | cons y u => cases x <;> simp [shapeOk, kind, shapeK] at h

/-- frame maps that keep kinds and the descriptor content -/
def FramePres (φ : Frame → Frame) : Prop :=
  ∀ fr, kind (φ fr) = kind fr ∧ (∀ a rt, fr = .poll a rt → φ fr = fr) ∧ (∀ c st, fr = .fd c st → φ fr = fr)

theorem map_pres (φ : Frame → Frame) (hφ : FramePres φ) (l : List Frame) :
    shapeOk (l.map φ) = shapeOk l ∧ activeOf (l.map φ) = activeOf l ∧ curOf (l.map φ) = curOf l := by
  refine ⟨?_, ?_, ?_⟩
  · simp only [shapeOk, List.map_map]
    congr 1
    apply List.map_congr_left
    intro fr _
    exact (hφ fr).1
  · induction l with
    | nil => rfl
    | cons x t ih =>
      cases x with
      | poll a rt => simp [(hφ (.poll a rt)).2.1 a rt rfl, activeOf]
      | fd c st => simp [(hφ (.fd c st)).2.2 c st rfl, activeOf, ih]
      | timers b =>
        have := (hφ (.timers b)).1
        cases hx : φ (.timers b) <;> simp [hx, kind] at this
        simp [hx, activeOf, ih]
      | tasks b =>
        have := (hφ (.tasks b)).1
        cases hx : φ (.tasks b) <;> simp [hx, kind] at this
        simp [hx, activeOf, ih]
      | events b =>
        have := (hφ (.events b)).1
        cases hx : φ (.events b) <;> simp [hx, kind] at this
        simp [hx, activeOf, ih]
  · induction l with
    | nil => rfl
    | cons x t ih =>
      cases x with
      | poll a rt => simp [(hφ (.poll a rt)).2.1 a rt rfl, curOf, ih]
      | fd c st => simp [(hφ (.fd c st)).2.2 c st rfl, curOf]
      | timers b =>
        have := (hφ (.timers b)).1
        cases hx : φ (.timers b) <;> simp [hx, kind] at this
        simp [hx, curOf, ih]
      | tasks b =>
        have := (hφ (.tasks b)).1
        cases hx : φ (.tasks b) <;> simp [hx, kind] at this
        simp [hx, curOf, ih]
      | events b =>
        have := (hφ (.events b)).1
        cases hx : φ (.events b) <;> simp [hx, kind] at this
        simp [hx, curOf, ih]

theorem pres_eraseTask (k : TaskId) : FramePres (eraseTask · k) := by
  intro fr; cases fr <;> simp [eraseTask, kind]
theorem pres_appendTaskBatch (k : TaskId) : FramePres (appendTaskBatch · k) := by
  intro fr; cases fr <;> simp [appendTaskBatch, kind]
theorem pres_eraseEvent (e : EvId) : FramePres (eraseEvent · e) := by
  intro fr; cases fr <;> simp [eraseEvent, kind]
theorem pres_setTimerBatch (b : List Nat) : FramePres (setTimerBatch · b) := by
  intro fr; cases fr <;> simp [setTimerBatch, kind]

theorem eraseActive_poll (a : List FdId) (rt : Bool) (f : FdId) : eraseActive (.poll a rt) f = .poll (a.erase f) rt := rfl
theorem eraseActive_fd (c : FdId) (st : Nat) (f : FdId) : eraseActive (.fd c st) f = .fd c st := rfl
theorem eraseActive_timers (b : List Nat) (f : FdId) : eraseActive (.timers b) f = .timers b := rfl
theorem eraseActive_tasks (b : List TaskId) (f : FdId) : eraseActive (.tasks b) f = .tasks b := rfl
theorem eraseActive_events (b : List EvId) (f : FdId) : eraseActive (.events b) f = .events b := rfl

theorem map_eraseActive (f : FdId) (l : List Frame) :
    shapeOk (l.map (eraseActive · f)) = shapeOk l ∧ curOf (l.map (eraseActive · f)) = curOf l := by
  refine ⟨?_, ?_⟩
  · simp only [shapeOk, List.map_map]
    congr 1
    apply List.map_congr_left
    intro fr _
    cases fr <;> simp [eraseActive, kind]
  · induction l with
    | nil => rfl
    | cons x t ih =>
      cases x <;>
        simp only [List.map_cons, eraseActive_poll, eraseActive_fd, eraseActive_timers, eraseActive_tasks,
          eraseActive_events, curOf, ih]

theorem activeOf_eraseActive (f : FdId) (l : List Frame) :
    activeOf (l.map (eraseActive · f)) = (activeOf l).erase f := by
  induction l with
  | nil => rfl
  | cons x t ih =>
    cases x <;>
      simp only [List.map_cons, eraseActive_poll, eraseActive_fd, eraseActive_timers, eraseActive_tasks,
        eraseActive_events, activeOf, ih]

/-! ## the invariant -/

def loopPc : Pc → Bool
  | .run (.mainTop _) | .run .collect | .run .startTasks | .run .exitCheck | .run .prepWait
  | .run (.flush _ _) | .run (.wait _ _) | .waiting _ _ | .needTime .forTimers | .needTime (.forWait _ _) => true
  | _ => false

structure Shape (s : St) : Prop where
  ok : shapeOk s.stack = true
  loop : loopPc s.pc = true → s.stack = []
  st0 : ∀ c, curOf s.stack = some (c, 0) → s.pc = .run .fdStage ∧ s.handled = some c

/-- `f` is registered, was reported by the last wait, and its ready bands were all reported -/
def Good (rep : List (FdId × KEv)) (s : St) (f : FdId) : Prop :=
  (s.fds f).registered = true ∧
  ∃ p, rep.find? (fun q => q.1 == f) = some p ∧ Bands.le (s.fds f).ready (bandsOfKEv p.2)

structure Disp (rep : List (FdId × KEv)) (called : List (FdId × Nat)) (s : St) : Prop where
  nodup : (activeOf s.stack).Nodup
  act : ∀ f ∈ activeOf s.stack, f < 1000 → Good rep s f ∧ ∀ b, (f, b) ∉ called
  cur : ∀ c st, curOf s.stack = some (c, st) → c < 1000 → s.handled = some c →
          Good rep s c ∧ (∀ b, (c, b) ∈ called → b < st) ∧ c ∉ activeOf s.stack
  curH : ∀ c st, curOf s.stack = some (c, st) → s.handled = some c ∨ s.handled = none

def BookOk (regd : List FdView) (s : St) : Prop :=
  ∀ f, f < 1000 → (s.fds f).registered = true →
    ∃ v, regd.find? (fun w => w.f == f) = some v ∧
      v.hin = (s.fds f).hin ∧ v.hout = (s.fds f).hout ∧ v.herr = (s.fds f).herr

structure Inv (μ : M) (s : St) : Prop where
  pend : μ.book.pending = none
  int : IntInv s
  shape : Shape s
  disp : Disp μ.reported μ.called s
  book : BookOk μ.book.regd s

def R (μ : M) (s : St) : Prop := μ.dead = true ∨ Inv μ s

theorem Good_core {rep : List (FdId × KEv)} {s s' : St} {g : FdId} (hc : coreEq (s.fds g) (s'.fds g))
    (h : Good rep s g) : Good rep s' g := by
  obtain ⟨h1, p, h2, h3⟩ := h
  exact ⟨hc.1 ▸ h1, p, h2, hc.2.1 ▸ h3⟩

theorem Disp_sub {rep rep' : List (FdId × KEv)} {called : List (FdId × Nat)} {s s' : St}
    (h : Disp rep called s)
    (hAn : (activeOf s'.stack).Nodup) (hA : ∀ g ∈ activeOf s'.stack, g ∈ activeOf s.stack)
    (hC : curOf s'.stack = curOf s.stack)
    (hH : s'.handled = s.handled ∨ s'.handled = none)
    (hG : ∀ g, g < 1000 → (g ∈ activeOf s'.stack ∨ s'.handled = some g) → Good rep s g → Good rep' s' g) :
    Disp rep' called s' := by
  refine ⟨hAn, ?_, ?_, ?_⟩
  · intro f hf hlt
    have := h.act f (hA f hf) hlt
    exact ⟨hG f hlt (Or.inl hf) this.1, this.2⟩
  · intro c st hc hlt hh
    rw [hC] at hc
    have hh' : s.handled = some c := by
      rcases hH with e | e
      · rw [← e]; exact hh
      · rw [e] at hh; cases hh
    have := h.cur c st hc hlt hh'
    exact ⟨hG c hlt (Or.inr hh) this.1, this.2.1, fun hm => this.2.2 (hA c hm)⟩
  · intro c st hc
    rw [hC] at hc
    rcases hH with e | e
    · rw [e]; exact h.curH c st hc
    · exact Or.inr e

/-- what a step that works on descriptor `x` (or on none) leaves alone -/
structure UFrame (x : FdId) (s s' : St) : Prop where
  shape : shapeOk s'.stack = shapeOk s.stack
  cur : curOf s'.stack = curOf s.stack
  actNodup : (activeOf s.stack).Nodup → (activeOf s'.stack).Nodup
  actSub : ∀ g ∈ activeOf s'.stack, g ∈ activeOf s.stack
  handled : s'.handled = s.handled ∨ (s'.handled = none ∧ s.handled = some x)
  core : ∀ g, g ≠ x → coreEq (s.fds g) (s'.fds g)

theorem UFrame.refl (x : FdId) (s : St) : UFrame x s s :=
  ⟨rfl, rfl, id, fun g hg => hg, Or.inl rfl, fun g _ => coreEq.rfl' _⟩

theorem UFrame.trans {x : FdId} {a b c : St} (h1 : UFrame x a b) (h2 : UFrame x b c) : UFrame x a c := by
  refine ⟨h2.shape.trans h1.shape, h2.cur.trans h1.cur, fun h => h2.actNodup (h1.actNodup h),
    fun g hg => h1.actSub g (h2.actSub g hg), ?_, fun g hg => (h1.core g hg).trans (h2.core g hg)⟩
  · rcases h2.handled with e2 | e2
    · rcases h1.handled with e1 | e1
      · exact Or.inl (e2.trans e1)
      · exact Or.inr ⟨e2.trans e1.1, e1.2⟩
    · rcases h1.handled with e1 | e1
      · exact Or.inr ⟨e2.1, e1 ▸ e2.2⟩
      · rw [e1.1] at e2; cases e2.2

/-- same stack up to a content-preserving frame map, same `handled`, same descriptors -/
theorem UFrame.of_map (x : FdId) {s s' : St} (φ : Frame → Frame) (hφ : FramePres φ)
    (hs : s'.stack = s.stack.map φ) (hh : s'.handled = s.handled) (hf : s'.fds = s.fds) : UFrame x s s' := by
  have := map_pres φ hφ s.stack
  refine ⟨by rw [hs, this.1], by rw [hs, this.2.2], fun h => by rw [hs, this.2.1]; exact h, ?_, Or.inl hh,
    fun g _ => by rw [hf]; exact coreEq.rfl' _⟩
  intro g hg
  rw [hs, this.2.1] at hg
  exact hg

theorem UFrame.of_core (x : FdId) {s s' : St}
    (hs : s'.stack = s.stack) (hh : s'.handled = s.handled)
    (hf : ∀ g, g ≠ x → coreEq (s.fds g) (s'.fds g)) : UFrame x s s' := by
  refine ⟨by rw [hs], by rw [hs], fun h => by rw [hs]; exact h, ?_, Or.inl hh, hf⟩
  intro g hg
  rw [hs] at hg
  exact hg

theorem UFrame.of_same (x : FdId) {s s' : St}
    (hs : s'.stack = s.stack) (hh : s'.handled = s.handled) (hf : s'.fds = s.fds) : UFrame x s s' :=
  UFrame.of_core x hs hh (fun g _ => by rw [hf]; exact coreEq.rfl' _)

theorem ne_of_user {g x : Nat} (h1 : g < 1000) (h2 : 1000 ≤ x) : g ≠ x := by omega

theorem Disp_uframe {rep : List (FdId × KEv)} {called : List (FdId × Nat)} {x : FdId} {s s' : St}
    (hx : 1000 ≤ x) (hu : UFrame x s s') (h : Disp rep called s) : Disp rep called s' := by
  refine Disp_sub h (hu.actNodup h.nodup) hu.actSub hu.cur ?_ ?_
  · rcases hu.handled with e | e
    · exact Or.inl e
    · exact Or.inr e.1
  · intro g hg _ hgood
    exact Good_core (hu.core g (ne_of_user hg hx)) hgood

theorem BookOk_uframe {regd : List FdView} {x : FdId} {s s' : St}
    (hx : 1000 ≤ x) (hu : UFrame x s s') (h : BookOk regd s) : BookOk regd s' := by
  intro f hf hr
  have hc := hu.core f (ne_of_user hf hx)
  obtain ⟨v, h1, h2, h3, h4⟩ := h f hf (hc.1 ▸ hr)
  exact ⟨v, h1, by rw [hc.2.2.1]; exact h2, by rw [hc.2.2.2.1]; exact h3, by rw [hc.2.2.2.2]; exact h4⟩

theorem Shape_keep {s s' : St} (h : Shape s) (hpc : s.pc ≠ .run .fdStage)
    (hs : shapeOk s'.stack = shapeOk s.stack) (hc : curOf s'.stack = curOf s.stack)
    (hl : loopPc s'.pc = false) : Shape s' := by
  refine ⟨hs ▸ h.ok, fun hl' => (by rw [hl] at hl'; cases hl'), ?_⟩
  intro c hc'
  rw [hc] at hc'
  exact absurd (h.st0 c hc').1 hpc

/-! ## what the descriptor operations do to the dispatch-relevant state -/

theorem coreEq_upd_other (fds : FdId → FdObj) (f g : FdId) (o : FdObj) (h : g ≠ f) :
    coreEq (fds g) (upd fds f o g) := by
  simp only [upd, h, if_false]; exact coreEq.rfl' _

theorem notifyFd_uframe (x : FdId) (s : St) (f : FdId) : UFrame x s (notifyFd s f) :=
  UFrame.of_core x (notifyFd_frame s f).1 (notifyFd_frame s f).2.1 (fun g _ => notifyFd_core s f g)

theorem fdRegisterCore_sum (s : St) (f : FdId) (hin hout herr : Bool) :
    UFrame f s (fdRegisterCore s f hin hout herr) ∧ (fdRegisterCore s f hin hout herr).pc = s.pc ∧
    ((fdRegisterCore s f hin hout herr).fds f).registered = true ∧
    ((fdRegisterCore s f hin hout herr).fds f).ready = {} ∧
    ((fdRegisterCore s f hin hout herr).fds f).hin = hin ∧
    ((fdRegisterCore s f hin hout herr).fds f).hout = hout ∧
    ((fdRegisterCore s f hin hout herr).fds f).herr = herr := by
  let o1 : FdObj := { (s.fds f) with hin, hout, herr, registered := true, ready := {}, regBands := {}, index := none }
  let s1 : St := { s with fds := upd s.fds f o1, notify := s.notify.erase f }
  have hfr := notifyFd_frame s1 f
  have hc := notifyFd_core s1 f
  have hff : s1.fds f = o1 := by simp [s1, upd]
  refine ⟨UFrame.of_core f hfr.1 hfr.2.1 (fun g hg => (coreEq_upd_other s.fds f g o1 hg).trans (hc g)),
    hfr.2.2.2, ?_, ?_, ?_, ?_, ?_⟩
  · exact (hc f).1.trans (by rw [hff])
  · exact (hc f).2.1.trans (by rw [hff])
  · exact (hc f).2.2.1.trans (by rw [hff])
  · exact (hc f).2.2.2.1.trans (by rw [hff])
  · exact (hc f).2.2.2.2.trans (by rw [hff])

theorem unregTail_frame (s2 : St) (f : FdId) :
    (unregTail s2 f).stack = s2.stack ∧ (unregTail s2 f).pc = s2.pc ∧
    (unregTail s2 f).handled = (if s2.handled == some f then none else s2.handled) ∧
    ∀ g, coreEq (s2.fds g) ((unregTail s2 f).fds g) := by
  simp only [unregTail]
  split
  · have := epollFlushOne_frame s2 f
    exact ⟨this.1, this.2.2.2.1, by rw [this.2.1], fun g => epollFlushOne_core s2 f g⟩
  · exact ⟨rfl, rfl, rfl, fun g => coreEq.rfl' _⟩

theorem fdUnregisterCore_sum (s : St) (f : FdId) :
    UFrame f s (fdUnregisterCore s f) ∧ (fdUnregisterCore s f).pc = s.pc ∧
    ((fdUnregisterCore s f).fds f).registered = false ∧
    ((activeOf s.stack).Nodup → f ∉ activeOf (fdUnregisterCore s f).stack) ∧
    (fdUnregisterCore s f).handled ≠ some f := by
  rw [fdUnregisterCore_eq]
  have hfr := notifyFd_frame (unregHead s f) f
  have hc := notifyFd_core (unregHead s f) f
  have ht := unregTail_frame (notifyFd (unregHead s f) f) f
  have hstack : (unregTail (notifyFd (unregHead s f) f) f).stack = s.stack.map (eraseActive · f) := by
    rw [ht.1, hfr.1]; rfl
  have hhand : (unregTail (notifyFd (unregHead s f) f) f).handled = (if s.handled == some f then none else s.handled) := by
    rw [ht.2.2.1, hfr.2.1]; rfl
  refine ⟨⟨?_, ?_, ?_, ?_, ?_, ?_⟩, ?_, ?_, ?_, ?_⟩
  · rw [hstack]; exact (map_eraseActive f s.stack).1
  · rw [hstack]; exact (map_eraseActive f s.stack).2
  · intro hn; rw [hstack, activeOf_eraseActive]; exact hn.erase f
  · intro g hg; rw [hstack, activeOf_eraseActive] at hg; exact List.mem_of_mem_erase hg
  · rw [hhand]
    split
    · next he => exact Or.inr ⟨rfl, by simpa using he⟩
    · exact Or.inl rfl
  · intro g hg
    exact ((coreEq_upd_other s.fds f g _ hg).trans (hc g)).trans (ht.2.2.2 g)
  · rw [ht.2.1, hfr.2.2.2]; rfl
  · have h1 : ((unregHead s f).fds f).registered = false := by simp [unregHead, upd]
    exact ((ht.2.2.2 f).1.trans (hc f).1).trans h1
  · intro hn; rw [hstack, activeOf_eraseActive]
    exact fun hm => ((hn.mem_erase_iff).mp hm).1 rfl
  · rw [hhand]
    split
    · simp
    · next he => intro h; exact he (by simp [h])


theorem tryTail_sum (s1 : St) (f : FdId) (z : Bool) :
    (tryTail s1 f z).stack = s1.stack ∧ (tryTail s1 f z).handled = s1.handled ∧ (tryTail s1 f z).pc = s1.pc ∧
    ∀ g, coreEq (s1.fds g) ((tryTail s1 f z).fds g) := by
  have hmid : (tryMid s1 f).stack = s1.stack ∧ (tryMid s1 f).handled = s1.handled ∧ (tryMid s1 f).pc = s1.pc ∧
      ∀ g, coreEq (s1.fds g) ((tryMid s1 f).fds g) := by
    simp only [tryMid]
    split
    · have := epollFlushOne_frame s1 f
      exact ⟨this.1, this.2.1, this.2.2.2.1, fun g => epollFlushOne_core s1 f g⟩
    · have := pollNotify_frame s1 f
      exact ⟨this.1, this.2.1, this.2.2.2.1, fun g => pollNotify_core s1 f g⟩
  have hzero : ∀ s : St, (tryZero s f).stack = s.stack ∧ (tryZero s f).handled = s.handled ∧ (tryZero s f).pc = s.pc ∧
      ∀ g, coreEq (s.fds g) ((tryZero s f).fds g) := by
    intro s
    have h0 : ∀ g, coreEq (s.fds g) (upd s.fds f { (s.fds f) with wanted := {} } g) := by
      intro g
      simp only [upd]; split
      · next he => subst he; simp [coreEq]
      · exact coreEq.rfl' _
    simp only [tryZero]
    split
    · have := epollNotify_frame { s with fds := upd s.fds f { (s.fds f) with wanted := {} } } f
      exact ⟨this.1, this.2.1, this.2.2.2.1, fun g => by rw [this.2.2.2.2.1]; exact h0 g⟩
    · have := pollNotify_frame { s with fds := upd s.fds f { (s.fds f) with wanted := {} } } f
      exact ⟨this.1, this.2.1, this.2.2.2.1, fun g => (h0 g).trans (pollNotify_core _ f g)⟩
  simp only [tryTail]
  split
  · have h2 := hzero (tryMid s1 f)
    exact ⟨h2.1.trans hmid.1, h2.2.1.trans hmid.2.1, h2.2.2.1.trans hmid.2.2.1,
      fun g => (hmid.2.2.2 g).trans (h2.2.2.2 g)⟩
  · exact hmid

theorem tryStart_sum (s : St) (f : FdId) (hin hout herr : Bool) :
    (tryStart s f hin hout herr).stack = s.stack ∧ (tryStart s f hin hout herr).handled = s.handled ∧
    (tryStart s f hin hout herr).pc = s.pc ∧
    (∀ g, g ≠ f → coreEq (s.fds g) ((tryStart s f hin hout herr).fds g)) ∧
    ((tryStart s f hin hout herr).fds f).registered = true ∧ ((tryStart s f hin hout herr).fds f).ready = {} ∧
    ((tryStart s f hin hout herr).fds f).hin = hin ∧ ((tryStart s f hin hout herr).fds f).hout = hout ∧
    ((tryStart s f hin hout herr).fds f).herr = herr := by
  refine ⟨rfl, rfl, rfl, fun g hg => coreEq_upd_other s.fds f g _ hg, ?_, ?_, ?_, ?_, ?_⟩ <;>
    simp [tryStart, upd, tryObj]

/-- the user-descriptor API calls -/
def isFdApi : Api → Bool
  | .fdRegister .. | .fdRegisterTry .. | .fdUnregister _ | .fdSetIn .. | .fdSetOut .. | .fdSetErr .. => true
  | _ => false

theorem rawRegisterCore_uframe (s : St) (r : RawId) :
    UFrame (rawFd r) s (rawRegisterCore s r) ∧ (rawRegisterCore s r).pc = s.pc := by
  have := fdRegisterCore_sum s (rawFd r) true false false
  exact ⟨this.1.trans (UFrame.of_same _ rfl rfl rfl), this.2.1⟩

theorem rawUnregisterCore_uframe (s : St) (r : RawId) :
    UFrame (rawFd r) s (rawUnregisterCore s r) ∧ (rawUnregisterCore s r).pc = s.pc := by
  have := fdUnregisterCore_sum s (rawFd r)
  exact ⟨this.1.trans (UFrame.of_same _ rfl rfl rfl), this.2.1⟩

theorem rawFd_ge (r : RawId) : 1000 ≤ rawFd r := Nat.le_add_right 1000 r

theorem api_uframe (s : St) (a : Api) (hnf : isFdApi a = false) (hpc : s.pc = .user) :
    ∃ x, 1000 ≤ x ∧ UFrame x s (api s a).1 ∧ (loopPc (api s a).1.pc = true → (api s a).1.stack = []) := by
  cases a with
  | fdRegister | fdRegisterTry | fdUnregister | fdSetIn | fdSetOut | fdSetErr => simp [isFdApi] at hnf
  | timerRegister t e =>
    refine ⟨1000, Nat.le_refl _, ?_⟩
    simp only [api]
    split <;> simp [ok, fatal, hpc, loopPc] <;> exact UFrame.of_same _ rfl rfl rfl
  | timerUnregister t =>
    refine ⟨1000, Nat.le_refl _, ?_⟩
    simp only [api]
    split
    · simp [ok, hpc, loopPc]; exact UFrame.of_map _ _ (pres_setTimerBatch _) rfl rfl rfl
    · simp [fatal, hpc, loopPc]; exact UFrame.of_same _ rfl rfl rfl
    · simp [hpc, loopPc]; exact UFrame.of_same _ rfl rfl rfl
  | taskRegister k =>
    refine ⟨1000, Nat.le_refl _, ?_⟩
    simp only [api]
    split
    · simp [fatal, hpc, loopPc]; exact UFrame.of_same _ rfl rfl rfl
    · simp only [ok, taskRegisterCore]
      split
      · simp [hpc, loopPc]; exact UFrame.of_same _ rfl rfl rfl
      · simp [hpc, loopPc]; exact UFrame.of_map _ _ (pres_appendTaskBatch _) rfl rfl rfl
  | taskUnregister k =>
    refine ⟨1000, Nat.le_refl _, ?_⟩
    simp only [api]
    split
    · simp [fatal, hpc, loopPc]; exact UFrame.of_same _ rfl rfl rfl
    · simp [ok, taskUnregisterCore, hpc, loopPc]; exact UFrame.of_map _ _ (pres_eraseTask _) rfl rfl rfl
  | taskInit k =>
    refine ⟨1000, Nat.le_refl _, ?_⟩
    simp [api, hpc, loopPc]; exact UFrame.of_same _ rfl rfl rfl
  | evRegister e rawOk =>
    refine ⟨rawFd 0, rawFd_ge 0, ?_⟩
    rw [api_evRegister_eq]
    have hm := evRegMid_same s
    have hu : UFrame (rawFd 0) s (evRegMid s) := UFrame.of_same _ hm.2.1 hm.1.2.2.2.2.2 hm.1.2.1
    split
    · split
      · have := rawRegisterCore_uframe (evRegMid s) 0
        simp [ok, this.2, hm.2.2, hpc, loopPc]
        exact hu.trans (this.1.trans (UFrame.of_same _ rfl rfl rfl))
      · simp [hm.2.2, hpc, loopPc]
        exact hu.trans (UFrame.of_same _ rfl rfl rfl)
    · simp [ok, hm.2.2, hpc, loopPc]
      exact hu.trans (UFrame.of_same _ rfl rfl rfl)
  | evUnregister e =>
    refine ⟨rawFd 0, rawFd_ge 0, ?_⟩
    rw [api_evUnregister_eq]
    have hu : UFrame (rawFd 0) s (evUnregMid s e) := UFrame.of_map _ _ (pres_eraseEvent e) rfl rfl rfl
    have hpc1 : (evUnregMid s e).pc = .user := hpc
    have : UFrame (rawFd 0) (evUnregMid s e) (evUnregEnd (evUnregMid s e)) ∧
        (evUnregEnd (evUnregMid s e)).pc = .user := by
      simp only [evUnregEnd]
      split
      · split
        · have := rawUnregisterCore_uframe (evUnregMid s e) 0
          exact ⟨this.1, this.2.trans hpc1⟩
        · exact ⟨UFrame.of_same _ rfl rfl rfl, hpc1⟩
      · exact ⟨UFrame.refl _ _, hpc1⟩
    simp [ok, this.2, loopPc]
    exact hu.trans (this.1.trans (UFrame.of_same _ rfl rfl rfl))
  | evPost e =>
    refine ⟨1000, Nat.le_refl _, ?_⟩
    simp only [api]
    split
    · simp [hpc, loopPc]; exact UFrame.refl _ _
    · split
      · simp only [taskRegisterCore]
        split
        · simp [hpc, loopPc]; exact UFrame.of_same _ rfl rfl rfl
        · simp [hpc, loopPc]; exact UFrame.of_map _ _ (pres_appendTaskBatch _) rfl rfl rfl
      · simp [hpc, loopPc]; exact UFrame.of_same _ rfl rfl rfl
  | rawRegister r okk =>
    refine ⟨rawFd r, rawFd_ge r, ?_⟩
    simp only [api]
    split
    · simp [hpc, loopPc]; exact UFrame.refl _ _
    · have := rawRegisterCore_uframe s r
      simp [ok, this.2, hpc, loopPc]; exact this.1
  | rawUnregister r =>
    refine ⟨rawFd r, rawFd_ge r, ?_⟩
    have := rawUnregisterCore_uframe s r
    simp [api, this.2, hpc, loopPc]; exact this.1
  | quit =>
    refine ⟨1000, Nat.le_refl _, ?_⟩
    simp [api, hpc, loopPc]; exact UFrame.of_same _ rfl rfl rfl
  | invalidateNow =>
    refine ⟨1000, Nat.le_refl _, ?_⟩
    simp [api, hpc, loopPc]; exact UFrame.of_same _ rfl rfl rfl
  | validateNow =>
    refine ⟨1000, Nat.le_refl _, ?_⟩
    simp only [api]
    split
    · simp [hpc, loopPc]; exact UFrame.refl _ _
    · simp [loopPc]; exact UFrame.of_same _ rfl rfl rfl
  | main =>
    refine ⟨1000, Nat.le_refl _, ?_⟩
    simp only [api]
    split
    · next hst => exact ⟨UFrame.of_same _ rfl rfl rfl, fun _ => hst⟩
    · simp [fatal, loopPc]; exact UFrame.of_same _ rfl rfl rfl

/-! ## the monitor's bookkeeping -/

theorem find_filter_ne (l : List FdView) (f g : FdId) :
    (l.filter (fun w => w.f != f)).find? (fun w => w.f == g) =
      if f = g then none else l.find? (fun w => w.f == g) := by
  induction l with
  | nil => simp
  | cons a t ih =>
    by_cases ha : a.f = f
    · have h1 : (a.f != f) = false := by simp [ha]
      simp only [List.filter_cons, h1, Bool.false_eq_true, if_false, ih, List.find?_cons]
      by_cases hfg : f = g
      · simp [hfg]
      · have : (a.f == g) = false := by simp [ha, hfg]
        simp [hfg, this]
    · have h1 : (a.f != f) = true := by simpa using ha
      simp only [List.filter_cons, h1, if_true, List.find?_cons, ih]
      by_cases hag : a.f = g
      · have h2 : (a.f == g) = true := by simp [hag]
        have : ¬ f = g := fun h => ha (hag.trans h.symm)
        simp [h2, this]
      · have h2 : (a.f == g) = false := by simp [hag]
        simp [h2]

theorem find_put (b : FdBook) (v : FdView) (g : FdId) :
    (b.put v).regd.find? (fun w => w.f == g) = if v.f = g then some v else b.regd.find? (fun w => w.f == g) := by
  simp only [FdBook.put, FdBook.drop, List.find?_append, find_filter_ne]
  by_cases h : v.f = g
  · simp [h]
  · have : (v.f == g) = false := by simpa using h
    cases hx : b.regd.find? (fun w => w.f == g) <;> simp [this, h]

theorem find_drop (b : FdBook) (f g : FdId) :
    (b.drop f).regd.find? (fun w => w.f == g) = if f = g then none else b.regd.find? (fun w => w.f == g) := by
  simp only [FdBook.drop, find_filter_ne]

theorem find_f {regd : List FdView} {g : FdId} {v : FdView}
    (h : regd.find? (fun w => w.f == g) = some v) : v.f = g := by
  have := List.find?_some h
  simpa using this

theorem foldlM_dead (μ : M) (hd : μ.dead = true) (evs : List Ev) : List.foldlM C03.step μ evs = .ok μ := by
  induction evs with
  | nil => rfl
  | cons e t ih =>
    simp only [List.foldlM_cons]
    have : C03.step μ e = .ok μ := by simp [C03.step, hd]
    rw [this]
    exact ih

structure MSame (μ μ' : M) : Prop where
  dead : μ'.dead = false
  pend : μ'.book.pending = none
  regd : μ'.book.regd = μ.book.regd
  rep : μ'.reported = μ.reported
  called : μ'.called = μ.called

theorem Inv_of_MSame {μ μ' : M} {s' : St} (hm : MSame μ μ') (h1 : IntInv s') (h2 : Shape s')
    (h3 : Disp μ.reported μ.called s') (h4 : BookOk μ.book.regd s') : Inv μ' s' :=
  ⟨hm.pend, h1, h2, by rw [hm.rep, hm.called]; exact h3, by rw [hm.regd]; exact h4⟩

theorem mon_inp_api (μ : M) (hd : μ.dead = false) (a : Api) :
    C03.step μ (.inp (.api a)) = .ok { μ with book := μ.book.step (.inp (.api a)) } := by
  simp [C03.step, hd]

theorem book_inp_nonfd (b : FdBook) (a : Api) (hnf : isFdApi a = false) :
    b.step (.inp (.api a)) = { b with pending := none } := by
  cases a <;> simp [isFdApi] at hnf <;> simp [FdBook.step]

theorem mon_ret_nopend (μ : M) (hd : μ.dead = false) (hp : μ.book.pending = none) (v : Int) :
    C03.step μ (.out (.ret v)) = .ok { μ with book := { μ.book with pending := none } } := by
  simp [C03.step, hd, hp, FdBook.step]

theorem mon_fatal (μ : M) (hd : μ.dead = false) (m : String) :
    C03.step μ (.out (.fatal m)) = .ok { μ with dead := true } := by
  simp [C03.step, hd]

theorem mon_fault (μ : M) (hd : μ.dead = false) (m : String) :
    C03.step μ (.out (.fault m)) = .ok { μ with dead := true } := by
  simp [C03.step, hd]

theorem api_outs_nonfd (s : St) (a : Api) (hnf : isFdApi a = false) :
    (api s a).2 = [] ∨ (∃ v, (api s a).2 = [Out.ret v]) ∨ (∃ m, (api s a).2 = [Out.fatal m]) ∨
    (∃ m, (api s a).2 = [Out.fault m]) := by
  cases a <;> simp [isFdApi] at hnf <;> simp only [api, ok, fatal]
  all_goals repeat' split
  all_goals simp

theorem Shape_keep' {s s' : St} (h : Shape s) (hpc : s.pc ≠ .run .fdStage)
    (hs : shapeOk s'.stack = shapeOk s.stack) (hc : curOf s'.stack = curOf s.stack)
    (hl : loopPc s'.pc = true → s'.stack = []) : Shape s' := by
  refine ⟨hs ▸ h.ok, hl, ?_⟩
  intro c hc'
  rw [hc] at hc'
  exact absurd (h.st0 c hc').1 hpc

theorem fold_cons_ok {μ μ1 : M} {e : Ev} {evs : List Ev} (h1 : C03.step μ e = .ok μ1) :
    List.foldlM C03.step μ (e :: evs) = List.foldlM C03.step μ1 evs := by
  rw [List.foldlM_cons, h1]; rfl

theorem fold_nil (μ : M) : List.foldlM C03.step μ [] = .ok μ := rfl

theorem api_step_nonfd (μ : M) (s : St) (a : Api) (hinv : Inv μ s) (hd : μ.dead = false) (hpc : s.pc = .user)
    (hok : apiOk s a = true) (hnf : isFdApi a = false) :
    ∃ μ', List.foldlM C03.step μ (Ev.inp (.api a) :: (api s a).2.map Ev.out) = .ok μ' ∧ R μ' (api s a).1 := by
  obtain ⟨x, hx, hu, hl⟩ := api_uframe s a hnf hpc
  have hint := api_IntInv s a hinv.int hok
  have hshape : Shape (api s a).1 := Shape_keep' hinv.shape (by rw [hpc]; simp) hu.shape hu.cur hl
  have hdisp := Disp_uframe hx hu hinv.disp
  have hbook := BookOk_uframe hx hu hinv.book
  rw [fold_cons_ok (mon_inp_api μ hd a), book_inp_nonfd _ a hnf]
  let μ1 : M := { μ with book := { μ.book with pending := none } }
  have hd1 : μ1.dead = false := hd
  have hm1 : MSame μ μ1 := ⟨hd, rfl, rfl, rfl, rfl⟩
  show ∃ μ', List.foldlM C03.step μ1 _ = .ok μ' ∧ _
  rcases api_outs_nonfd s a hnf with h | ⟨v, h⟩ | ⟨m, h⟩ | ⟨m, h⟩
  · rw [h]
    exact ⟨μ1, rfl, Or.inr (Inv_of_MSame hm1 hint hshape hdisp hbook)⟩
  · rw [h]
    refine ⟨{ μ1 with book := { μ1.book with pending := none } }, ?_,
      Or.inr (Inv_of_MSame ⟨hd, rfl, rfl, rfl, rfl⟩ hint hshape hdisp hbook)⟩
    simp only [List.map_cons, List.map_nil]
    rw [fold_cons_ok (mon_ret_nopend μ1 hd1 rfl v)]
    rfl
  · rw [h]
    refine ⟨{ μ1 with dead := true }, ?_, Or.inl rfl⟩
    simp only [List.map_cons, List.map_nil]
    rw [fold_cons_ok (mon_fatal μ1 hd1 m)]
    rfl
  · rw [h]
    refine ⟨{ μ1 with dead := true }, ?_, Or.inl rfl⟩
    simp only [List.map_cons, List.map_nil]
    rw [fold_cons_ok (mon_fault μ1 hd1 m)]
    rfl


/-! ## user-descriptor API calls -/

theorem Good_rr {rep : List (FdId × KEv)} {s s' : St} {g : FdId}
    (h1 : (s'.fds g).registered = (s.fds g).registered) (h2 : (s'.fds g).ready = (s.fds g).ready)
    (h : Good rep s g) : Good rep s' g := by
  obtain ⟨a, p, b, c⟩ := h
  exact ⟨h1 ▸ a, p, b, h2 ▸ c⟩

/-- a registration of the unregistered user descriptor `f` completed -/
theorem reg_inv (μ μ' : M) (s s' : St) (f : FdId) (v : FdView) (hinv : Inv μ s) (hlt : f < 1000) (hpc : s.pc = .user)
    (hun : (s.fds f).registered = false) (huf : UFrame f s s') (hpc' : s'.pc = s.pc)
    (hr : (s'.fds f).registered = true) (hrd : (s'.fds f).ready = {})
    (hvf : v.f = f) (hi : v.hin = (s'.fds f).hin) (ho : v.hout = (s'.fds f).hout) (he : v.herr = (s'.fds f).herr)
    (hint : IntInv s')
    (hp : μ'.book.pending = none) (hregd : μ'.book.regd = (μ.book.put v).regd)
    (hrep : μ'.reported = μ.reported.filter (fun p => p.1 != f)) (hcalled : μ'.called = μ.called) : Inv μ' s' := by
  refine ⟨hp, hint, ?_, ?_, ?_⟩
  · exact Shape_keep' hinv.shape (by rw [hpc]; simp) huf.shape huf.cur (by rw [hpc', hpc]; simp [loopPc])
  · rw [hrep, hcalled]
    refine Disp_sub hinv.disp (huf.actNodup hinv.disp.nodup) huf.actSub huf.cur ?_ ?_
    · rcases huf.handled with e | e
      · exact Or.inl e
      · exact Or.inr e.1
    · intro g hg _ hgood
      by_cases hgf : g = f
      · subst hgf
        rw [hgood.1] at hun; cases hun
      · have := Good_core (huf.core g hgf) hgood
        obtain ⟨a, p, b, c⟩ := this
        exact ⟨a, p, by rw [find?_filter_ne _ _ _ hgf]; exact b, c⟩
  · intro g hg hreg
    rw [hregd, find_put]
    by_cases hgf : g = f
    · subst hgf
      exact ⟨v, by simp [hvf], hi, ho, he⟩
    · have hc := huf.core g hgf
      obtain ⟨w, h1, h2, h3, h4⟩ := hinv.book g hg (hc.1 ▸ hreg)
      refine ⟨w, ?_, by rw [hc.2.2.1]; exact h2, by rw [hc.2.2.2.1]; exact h3, by rw [hc.2.2.2.2]; exact h4⟩
      rw [if_neg (by rw [hvf]; exact fun h => hgf h.symm)]
      exact h1

/-- `iv_fd_register_try` failed on the unregistered user descriptor `f` -/
theorem regfail_inv (μ μ' : M) (s s' : St) (f : FdId) (hinv : Inv μ s) (hlt : f < 1000) (hpc : s.pc = .user)
    (hun : (s.fds f).registered = false) (huf : UFrame f s s') (hpc' : s'.pc = s.pc)
    (hr : (s'.fds f).registered = false)
    (hint : IntInv s')
    (hp : μ'.book.pending = none) (hregd : μ'.book.regd = μ.book.regd)
    (hrep : μ'.reported = μ.reported.filter (fun p => p.1 != f)) (hcalled : μ'.called = μ.called) : Inv μ' s' := by
  refine ⟨hp, hint, ?_, ?_, ?_⟩
  · exact Shape_keep' hinv.shape (by rw [hpc]; simp) huf.shape huf.cur (by rw [hpc', hpc]; simp [loopPc])
  · rw [hrep, hcalled]
    refine Disp_sub hinv.disp (huf.actNodup hinv.disp.nodup) huf.actSub huf.cur ?_ ?_
    · rcases huf.handled with e | e
      · exact Or.inl e
      · exact Or.inr e.1
    · intro g hg _ hgood
      by_cases hgf : g = f
      · subst hgf
        rw [hgood.1] at hun; cases hun
      · have := Good_core (huf.core g hgf) hgood
        obtain ⟨a, p, b, c⟩ := this
        exact ⟨a, p, by rw [find?_filter_ne _ _ _ hgf]; exact b, c⟩
  · intro g hg hreg
    rw [hregd]
    by_cases hgf : g = f
    · subst hgf
      rw [hr] at hreg; cases hreg
    · have hc := huf.core g hgf
      obtain ⟨w, h1, h2, h3, h4⟩ := hinv.book g hg (hc.1 ▸ hreg)
      exact ⟨w, h1, by rw [hc.2.2.1]; exact h2, by rw [hc.2.2.2.1]; exact h3, by rw [hc.2.2.2.2]; exact h4⟩

theorem unreg_inv (μ μ' : M) (s s' : St) (f : FdId) (hinv : Inv μ s) (hlt : f < 1000) (hpc : s.pc = .user)
    (huf : UFrame f s s') (hpc' : s'.pc = s.pc)
    (hr : (s'.fds f).registered = false)
    (hna : f ∉ activeOf s'.stack) (hnh : s'.handled ≠ some f)
    (hint : IntInv s')
    (hp : μ'.book.pending = none) (hregd : μ'.book.regd = (μ.book.drop f).regd)
    (hrep : μ'.reported = μ.reported) (hcalled : μ'.called = μ.called) : Inv μ' s' := by
  refine ⟨hp, hint, ?_, ?_, ?_⟩
  · exact Shape_keep' hinv.shape (by rw [hpc]; simp) huf.shape huf.cur (by rw [hpc', hpc]; simp [loopPc])
  · rw [hrep, hcalled]
    refine Disp_sub hinv.disp (huf.actNodup hinv.disp.nodup) huf.actSub huf.cur ?_ ?_
    · rcases huf.handled with e | e
      · exact Or.inl e
      · exact Or.inr e.1
    · intro g hg hor hgood
      have hgf : g ≠ f := by
        rcases hor with h | h
        · exact fun e => hna (e ▸ h)
        · exact fun e => hnh (e ▸ h)
      exact Good_core (huf.core g hgf) hgood
  · intro g hg hreg
    rw [hregd, find_drop]
    by_cases hgf : g = f
    · subst hgf
      rw [hr] at hreg; cases hreg
    · have hc := huf.core g hgf
      obtain ⟨w, h1, h2, h3, h4⟩ := hinv.book g hg (hc.1 ▸ hreg)
      refine ⟨w, ?_, by rw [hc.2.2.1]; exact h2, by rw [hc.2.2.2.1]; exact h3, by rw [hc.2.2.2.2]; exact h4⟩
      rw [if_neg (fun h => hgf h.symm)]
      exact h1

/-- a handler of the registered user descriptor `f` was set or cleared -/
theorem set_inv (μ μ' : M) (s s' : St) (f : FdId) (v : FdView) (hinv : Inv μ s) (hlt : f < 1000) (hpc : s.pc = .user)
    (huf : UFrame f s s') (hpc' : s'.pc = s.pc)
    (hr : (s'.fds f).registered = (s.fds f).registered) (hrd : (s'.fds f).ready = (s.fds f).ready)
    (hvf : v.f = f) (hi : v.hin = (s'.fds f).hin) (ho : v.hout = (s'.fds f).hout) (he : v.herr = (s'.fds f).herr)
    (hint : IntInv s')
    (hp : μ'.book.pending = none) (hregd : μ'.book.regd = (μ.book.put v).regd)
    (hrep : μ'.reported = μ.reported) (hcalled : μ'.called = μ.called) : Inv μ' s' := by
  refine ⟨hp, hint, ?_, ?_, ?_⟩
  · exact Shape_keep' hinv.shape (by rw [hpc]; simp) huf.shape huf.cur (by rw [hpc', hpc]; simp [loopPc])
  · rw [hrep, hcalled]
    refine Disp_sub hinv.disp (huf.actNodup hinv.disp.nodup) huf.actSub huf.cur ?_ ?_
    · rcases huf.handled with e | e
      · exact Or.inl e
      · exact Or.inr e.1
    · intro g hg _ hgood
      by_cases hgf : g = f
      · subst hgf; exact Good_rr hr hrd hgood
      · exact Good_core (huf.core g hgf) hgood
  · intro g hg hreg
    rw [hregd, find_put]
    by_cases hgf : g = f
    · subst hgf
      exact ⟨v, by simp [hvf], hi, ho, he⟩
    · have hc := huf.core g hgf
      obtain ⟨w, h1, h2, h3, h4⟩ := hinv.book g hg (hc.1 ▸ hreg)
      refine ⟨w, ?_, by rw [hc.2.2.1]; exact h2, by rw [hc.2.2.2.1]; exact h3, by rw [hc.2.2.2.2]; exact h4⟩
      rw [if_neg (by rw [hvf]; exact fun h => hgf h.symm)]
      exact h1

theorem user_of_lt64 {f : Nat} (h : f < 64) : f < 1000 := by omega

theorem mon_dead_two (μ : M) (hd : μ.dead = false) (a : Api) (o : Out)
    (ho : (∃ m, o = .fatal m) ∨ (∃ m, o = .fault m)) :
    ∃ μ', List.foldlM C03.step μ [Ev.inp (.api a), Ev.out o] = .ok μ' ∧ μ'.dead = true := by
  rw [fold_cons_ok (mon_inp_api μ hd a)]
  rcases ho with ⟨m, rfl⟩ | ⟨m, rfl⟩
  · exact ⟨_, by rw [fold_cons_ok (mon_fatal { μ with book := μ.book.step (.inp (.api a)) } hd m)]; rfl, rfl⟩
  · exact ⟨_, by rw [fold_cons_ok (mon_fault { μ with book := μ.book.step (.inp (.api a)) } hd m)]; rfl, rfl⟩

theorem api_step_fdRegister (μ : M) (s : St) (f : FdId) (i o e : Bool) (hinv : Inv μ s) (hd : μ.dead = false)
    (hpc : s.pc = .user) (hok : apiOk s (.fdRegister f i o e) = true) :
    ∃ μ', List.foldlM C03.step μ (Ev.inp (.api (.fdRegister f i o e)) :: (api s (.fdRegister f i o e)).2.map Ev.out) = .ok μ' ∧
      R μ' (api s (.fdRegister f i o e)).1 := by
  have hlt : f < 1000 := by simp [apiOk] at hok; exact user_of_lt64 hok
  have hint := api_IntInv s _ hinv.int hok
  cases hreg : (s.fds f).registered
  · have hs : api s (.fdRegister f i o e) = ok (fdRegisterCore s f i o e) := by simp [api, hreg]
    rw [hs] at hint ⊢
    have hsum := fdRegisterCore_sum s f i o e
    refine ⟨{ μ with book := { (μ.book.put ⟨f, i, o, e⟩) with pending := none },
                     reported := μ.reported.filter (fun p => p.1 != f) }, ?_, Or.inr ?_⟩
    · simp only [ok, List.map_cons, List.map_nil]
      rw [fold_cons_ok (mon_inp_api μ hd _)]
      simp [List.foldlM_cons, C03.step, hd, FdBook.step, FdBook.put, FdBook.drop]
    · exact reg_inv μ _ s _ f ⟨f, i, o, e⟩ hinv hlt hpc hreg hsum.1 hsum.2.1 hsum.2.2.1 hsum.2.2.2.1 rfl
        hsum.2.2.2.2.1.symm hsum.2.2.2.2.2.1.symm hsum.2.2.2.2.2.2.symm hint rfl rfl rfl rfl
  · have hs : api s (.fdRegister f i o e) = fatal s "iv_fd_register: called with fd which is still registered" := by
      simp [api, hreg]
    rw [hs]
    obtain ⟨μ', h1, h2⟩ := mon_dead_two μ hd (.fdRegister f i o e) _ (Or.inl ⟨_, rfl⟩)
    exact ⟨μ', h1, Or.inl h2⟩

theorem api_step_fdRegisterTry (μ : M) (s : St) (f : FdId) (i o e k : Bool) (hinv : Inv μ s) (hd : μ.dead = false)
    (hpc : s.pc = .user) (hok : apiOk s (.fdRegisterTry f i o e k) = true) :
    ∃ μ', List.foldlM C03.step μ (Ev.inp (.api (.fdRegisterTry f i o e k)) :: (api s (.fdRegisterTry f i o e k)).2.map Ev.out) = .ok μ' ∧
      R μ' (api s (.fdRegisterTry f i o e k)).1 := by
  have hlt : f < 1000 := by simp [apiOk] at hok; exact user_of_lt64 hok
  have hint := api_IntInv s _ hinv.int hok
  cases hreg : (s.fds f).registered
  · cases k
    · -- the kernel refused
      let o' : FdObj := { (s.fds f) with hin := i, hout := o, herr := e, registered := false, ready := {}, regBands := {}, index := none, wanted := if (i || o || e) then ⟨i, o, e⟩ else ⟨true, true, false⟩ }
      have hs : api s (.fdRegisterTry f i o e false) =
          (({ s with fds := upd s.fds f o', notify := s.notify.erase f }), [Out.ret (-1)]) := by
        simp [api, hreg, o']
      rw [hs] at hint ⊢
      refine ⟨{ μ with book := { μ.book with pending := none },
                       reported := μ.reported.filter (fun p => p.1 != f) }, ?_, Or.inr ?_⟩
      · simp only [List.map_cons, List.map_nil]
        rw [fold_cons_ok (mon_inp_api μ hd _)]
        simp [List.foldlM_cons, C03.step, hd, FdBook.step]
      · refine regfail_inv μ _ s _ f hinv hlt hpc hreg
          (UFrame.of_core f rfl rfl (fun g hg => coreEq_upd_other s.fds f g o' hg)) rfl ?_ hint rfl rfl rfl rfl
        simp [upd, o']
    · have hs := api_tryOk_eq s f i o e hreg
      rw [hs] at hint ⊢
      have h1 := tryStart_sum s f i o e
      have h2 := tryTail_sum (tryStart s f i o e) f (wantedOf (tryObj (s.fds f) i o e)).isZero
      have hc := h2.2.2.2 f
      refine ⟨{ μ with book := { (μ.book.put ⟨f, i, o, e⟩) with pending := none },
                       reported := μ.reported.filter (fun p => p.1 != f) }, ?_, Or.inr ?_⟩
      · simp only [ok, List.map_cons, List.map_nil]
        rw [fold_cons_ok (mon_inp_api μ hd _)]
        simp [List.foldlM_cons, C03.step, hd, FdBook.step, FdBook.put, FdBook.drop]
      · refine reg_inv μ _ s _ f ⟨f, i, o, e⟩ hinv hlt hpc hreg
          (UFrame.of_core f (h2.1.trans h1.1) (h2.2.1.trans h1.2.1)
            (fun g hg => (h1.2.2.2.1 g hg).trans (h2.2.2.2 g)))
          (h2.2.2.1.trans h1.2.2.1) (hc.1.trans h1.2.2.2.2.1) (hc.2.1.trans h1.2.2.2.2.2.1) rfl
          (hc.2.2.1.trans h1.2.2.2.2.2.2.1).symm (hc.2.2.2.1.trans h1.2.2.2.2.2.2.2.1).symm
          (hc.2.2.2.2.trans h1.2.2.2.2.2.2.2.2).symm hint rfl rfl rfl rfl
  · have hs : api s (.fdRegisterTry f i o e k) = fatal s "iv_fd_register: called with fd which is still registered" := by
      simp [api, hreg]
    rw [hs]
    obtain ⟨μ', h1, h2⟩ := mon_dead_two μ hd (.fdRegisterTry f i o e k) _ (Or.inl ⟨_, rfl⟩)
    exact ⟨μ', h1, Or.inl h2⟩

theorem api_step_fdUnregister (μ : M) (s : St) (f : FdId) (hinv : Inv μ s) (hd : μ.dead = false)
    (hpc : s.pc = .user) (hok : apiOk s (.fdUnregister f) = true) :
    ∃ μ', List.foldlM C03.step μ (Ev.inp (.api (.fdUnregister f)) :: (api s (.fdUnregister f)).2.map Ev.out) = .ok μ' ∧
      R μ' (api s (.fdUnregister f)).1 := by
  have hlt : f < 1000 := by simp [apiOk] at hok; exact user_of_lt64 hok
  have hint := api_IntInv s _ hinv.int hok
  cases hreg : (s.fds f).registered
  · have hs : api s (.fdUnregister f) = fatal s "iv_fd_unregister: called with fd which is not registered" := by
      simp [api, hreg]
    rw [hs]
    obtain ⟨μ', h1, h2⟩ := mon_dead_two μ hd (.fdUnregister f) _ (Or.inl ⟨_, rfl⟩)
    exact ⟨μ', h1, Or.inl h2⟩
  · have hs : api s (.fdUnregister f) = ok (fdUnregisterCore s f) := by simp [api, hreg]
    rw [hs] at hint ⊢
    have hsum := fdUnregisterCore_sum s f
    refine ⟨{ μ with book := { (μ.book.drop f) with pending := none } }, ?_, Or.inr ?_⟩
    · simp only [ok, List.map_cons, List.map_nil]
      rw [fold_cons_ok (mon_inp_api μ hd _)]
      simp [List.foldlM_cons, C03.step, hd, FdBook.step, FdBook.drop]
    · exact unreg_inv μ _ s _ f hinv hlt hpc hsum.1 hsum.2.1 hsum.2.2.1 (hsum.2.2.2.1 hinv.disp.nodup) hsum.2.2.2.2
        hint rfl rfl rfl rfl

theorem api_step_fdSetIn (μ : M) (s : St) (f : FdId) (v : Bool) (hinv : Inv μ s) (hd : μ.dead = false)
    (hpc : s.pc = .user) (hok : apiOk s (.fdSetIn f v) = true) :
    ∃ μ', List.foldlM C03.step μ (Ev.inp (.api (.fdSetIn f v)) :: (api s (.fdSetIn f v)).2.map Ev.out) = .ok μ' ∧
      R μ' (api s (.fdSetIn f v)).1 := by
  have hlt : f < 1000 := by simp [apiOk] at hok; exact user_of_lt64 hok
  have hint := api_IntInv s _ hinv.int hok
  cases hreg : (s.fds f).registered
  · have hs : ∃ m, api s (.fdSetIn f v) = fatal s m := ⟨_, by simp only [api, hreg]; rfl⟩
    obtain ⟨m, hs⟩ := hs
    rw [hs]
    obtain ⟨μ', h1, h2⟩ := mon_dead_two μ hd (.fdSetIn f v) _ (Or.inl ⟨_, rfl⟩)
    exact ⟨μ', h1, Or.inl h2⟩
  · let s1 : St := { s with fds := upd s.fds f { (s.fds f) with hin := v } }
    have hs : api s (.fdSetIn f v) = ok (notifyFd s1 f) := by simp [api, hreg, s1]
    rw [hs] at hint ⊢
    obtain ⟨w, hw, hwi, hwo, hwe⟩ := hinv.book f hlt hreg
    have hfr := notifyFd_frame s1 f
    have hc := notifyFd_core s1 f f
    have hff : s1.fds f = { (s.fds f) with hin := v } := by simp [s1, upd]
    refine ⟨{ μ with book := { (μ.book.put { w with hin := v }) with pending := none } }, ?_, Or.inr ?_⟩
    · simp only [ok, List.map_cons, List.map_nil]
      rw [fold_cons_ok (mon_inp_api μ hd _)]
      have hfind : μ.book.find f = some w := hw
      simp [List.foldlM_cons, C03.step, hd, FdBook.step, hfind, FdBook.put, FdBook.drop]
    · refine set_inv μ _ s _ f { w with hin := v } hinv hlt hpc
        (UFrame.of_core f hfr.1 hfr.2.1 (fun g hg => (coreEq_upd_other s.fds f g _ hg).trans (notifyFd_core s1 f g)))
        hfr.2.2.2 (hc.1.trans (by rw [hff])) (hc.2.1.trans (by rw [hff])) (find_f hw : w.f = f) ?_ ?_ ?_ hint rfl rfl rfl rfl
      · show v = ((notifyFd s1 f).fds f).hin; rw [hc.2.2.1, hff]
      · show w.hout = ((notifyFd s1 f).fds f).hout; rw [hc.2.2.2.1, hff]; exact hwo
      · show w.herr = ((notifyFd s1 f).fds f).herr; rw [hc.2.2.2.2, hff]; exact hwe

theorem api_step_fdSetOut (μ : M) (s : St) (f : FdId) (v : Bool) (hinv : Inv μ s) (hd : μ.dead = false)
    (hpc : s.pc = .user) (hok : apiOk s (.fdSetOut f v) = true) :
    ∃ μ', List.foldlM C03.step μ (Ev.inp (.api (.fdSetOut f v)) :: (api s (.fdSetOut f v)).2.map Ev.out) = .ok μ' ∧
      R μ' (api s (.fdSetOut f v)).1 := by
  have hlt : f < 1000 := by simp [apiOk] at hok; exact user_of_lt64 hok
  have hint := api_IntInv s _ hinv.int hok
  cases hreg : (s.fds f).registered
  · have hs : ∃ m, api s (.fdSetOut f v) = fatal s m := ⟨_, by simp only [api, hreg]; rfl⟩
    obtain ⟨m, hs⟩ := hs
    rw [hs]
    obtain ⟨μ', h1, h2⟩ := mon_dead_two μ hd (.fdSetOut f v) _ (Or.inl ⟨_, rfl⟩)
    exact ⟨μ', h1, Or.inl h2⟩
  · let s1 : St := { s with fds := upd s.fds f { (s.fds f) with hout := v } }
    have hs : api s (.fdSetOut f v) = ok (notifyFd s1 f) := by simp [api, hreg, s1]
    rw [hs] at hint ⊢
    obtain ⟨w, hw, hwi, hwo, hwe⟩ := hinv.book f hlt hreg
    have hfr := notifyFd_frame s1 f
    have hc := notifyFd_core s1 f f
    have hff : s1.fds f = { (s.fds f) with hout := v } := by simp [s1, upd]
    refine ⟨{ μ with book := { (μ.book.put { w with hout := v }) with pending := none } }, ?_, Or.inr ?_⟩
    · simp only [ok, List.map_cons, List.map_nil]
      rw [fold_cons_ok (mon_inp_api μ hd _)]
      have hfind : μ.book.find f = some w := hw
      simp [List.foldlM_cons, C03.step, hd, FdBook.step, hfind, FdBook.put, FdBook.drop]
    · refine set_inv μ _ s _ f { w with hout := v } hinv hlt hpc
        (UFrame.of_core f hfr.1 hfr.2.1 (fun g hg => (coreEq_upd_other s.fds f g _ hg).trans (notifyFd_core s1 f g)))
        hfr.2.2.2 (hc.1.trans (by rw [hff])) (hc.2.1.trans (by rw [hff])) (find_f hw : w.f = f) ?_ ?_ ?_ hint rfl rfl rfl rfl
      · show w.hin = ((notifyFd s1 f).fds f).hin; rw [hc.2.2.1, hff]; exact hwi
      · show v = ((notifyFd s1 f).fds f).hout; rw [hc.2.2.2.1, hff]
      · show w.herr = ((notifyFd s1 f).fds f).herr; rw [hc.2.2.2.2, hff]; exact hwe

theorem api_step_fdSetErr (μ : M) (s : St) (f : FdId) (v : Bool) (hinv : Inv μ s) (hd : μ.dead = false)
    (hpc : s.pc = .user) (hok : apiOk s (.fdSetErr f v) = true) :
    ∃ μ', List.foldlM C03.step μ (Ev.inp (.api (.fdSetErr f v)) :: (api s (.fdSetErr f v)).2.map Ev.out) = .ok μ' ∧
      R μ' (api s (.fdSetErr f v)).1 := by
  have hlt : f < 1000 := by simp [apiOk] at hok; exact user_of_lt64 hok
  have hint := api_IntInv s _ hinv.int hok
  cases hreg : (s.fds f).registered
  · have hs : ∃ m, api s (.fdSetErr f v) = fatal s m := ⟨_, by simp only [api, hreg]; rfl⟩
    obtain ⟨m, hs⟩ := hs
    rw [hs]
    obtain ⟨μ', h1, h2⟩ := mon_dead_two μ hd (.fdSetErr f v) _ (Or.inl ⟨_, rfl⟩)
    exact ⟨μ', h1, Or.inl h2⟩
  · let s1 : St := { s with fds := upd s.fds f { (s.fds f) with herr := v } }
    have hs : api s (.fdSetErr f v) = ok (notifyFd s1 f) := by simp [api, hreg, s1]
    rw [hs] at hint ⊢
    obtain ⟨w, hw, hwi, hwo, hwe⟩ := hinv.book f hlt hreg
    have hfr := notifyFd_frame s1 f
    have hc := notifyFd_core s1 f f
    have hff : s1.fds f = { (s.fds f) with herr := v } := by simp [s1, upd]
    refine ⟨{ μ with book := { (μ.book.put { w with herr := v }) with pending := none } }, ?_, Or.inr ?_⟩
    · simp only [ok, List.map_cons, List.map_nil]
      rw [fold_cons_ok (mon_inp_api μ hd _)]
      have hfind : μ.book.find f = some w := hw
      simp [List.foldlM_cons, C03.step, hd, FdBook.step, hfind, FdBook.put, FdBook.drop]
    · refine set_inv μ _ s _ f { w with herr := v } hinv hlt hpc
        (UFrame.of_core f hfr.1 hfr.2.1 (fun g hg => (coreEq_upd_other s.fds f g _ hg).trans (notifyFd_core s1 f g)))
        hfr.2.2.2 (hc.1.trans (by rw [hff])) (hc.2.1.trans (by rw [hff])) (find_f hw : w.f = f) ?_ ?_ ?_ hint rfl rfl rfl rfl
      · show w.hin = ((notifyFd s1 f).fds f).hin; rw [hc.2.2.1, hff]; exact hwi
      · show w.hout = ((notifyFd s1 f).fds f).hout; rw [hc.2.2.2.1, hff]; exact hwo
      · show v = ((notifyFd s1 f).fds f).herr; rw [hc.2.2.2.2, hff]

theorem api_step (μ : M) (s : St) (a : Api) (hinv : Inv μ s) (hd : μ.dead = false) (hpc : s.pc = .user)
    (hok : apiOk s a = true) :
    ∃ μ', List.foldlM C03.step μ (Ev.inp (.api a) :: (api s a).2.map Ev.out) = .ok μ' ∧ R μ' (api s a).1 := by
  cases a with
  | fdRegister f i o e => exact api_step_fdRegister μ s f i o e hinv hd hpc hok
  | fdRegisterTry f i o e k => exact api_step_fdRegisterTry μ s f i o e k hinv hd hpc hok
  | fdUnregister f => exact api_step_fdUnregister μ s f hinv hd hpc hok
  | fdSetIn f v => exact api_step_fdSetIn μ s f v hinv hd hpc hok
  | fdSetOut f v => exact api_step_fdSetOut μ s f v hinv hd hpc hok
  | fdSetErr f v => exact api_step_fdSetErr μ s f v hinv hd hpc hok
  | _ => exact api_step_nonfd μ s _ hinv hd hpc hok rfl


/-! ## internal steps -/

theorem Inv_internal {μ : M} {s s' : St} (hinv : Inv μ s) (hint : IntInv s') (hshape : Shape s')
    (hA : activeOf s'.stack = activeOf s.stack) (hC : curOf s'.stack = curOf s.stack)
    (hH : s'.handled = s.handled) (hF : ∀ g, coreEq (s.fds g) (s'.fds g)) : Inv μ s' := by
  refine ⟨hinv.pend, hint, hshape, ?_, ?_⟩
  · exact Disp_sub hinv.disp (hA ▸ hinv.disp.nodup) (fun g hg => hA ▸ hg) hC (Or.inl hH)
      (fun g _ _ hgood => Good_core (hF g) hgood)
  · intro f hf hr
    have hc := hF f
    obtain ⟨v, h1, h2, h3, h4⟩ := hinv.book f hf (hc.1 ▸ hr)
    exact ⟨v, h1, by rw [hc.2.2.1]; exact h2, by rw [hc.2.2.2.1]; exact h3, by rw [hc.2.2.2.2]; exact h4⟩

def neutral : Out → Bool
  | .cb (.fd _ _) | .ret _ | .fatal _ | .fault _ => false
  | _ => true

theorem mon_neutral (μ : M) (hd : μ.dead = false) (o : Out) (ho : neutral o = true) :
    C03.step μ (.out o) = .ok μ := by
  cases o with
  | cb c => cases c <;> simp [neutral] at ho <;> (cases μ; simp_all [C03.step, FdBook.step])
  | ret v => simp [neutral] at ho
  | fatal m => simp [neutral] at ho
  | fault m => simp [neutral] at ho
  | wait => cases μ; simp_all [C03.step, FdBook.step]
  | mainRet => cases μ; simp_all [C03.step, FdBook.step]

/-- the machine died: the monitor is dead too -/
theorem dead_out (μ : M) (hd : μ.dead = false) (s' : St) (o : Out) (ho : (∃ m, o = .fatal m) ∨ (∃ m, o = .fault m)) :
    ∃ μ', List.foldlM C03.step μ ([o].map Ev.out) = .ok μ' ∧ R μ' s' := by
  rcases ho with ⟨m, rfl⟩ | ⟨m, rfl⟩
  · exact ⟨{ μ with dead := true }, by simp only [List.map_cons, List.map_nil]; rw [fold_cons_ok (mon_fatal μ hd m)]; rfl, Or.inl rfl⟩
  · exact ⟨{ μ with dead := true }, by simp only [List.map_cons, List.map_nil]; rw [fold_cons_ok (mon_fault μ hd m)]; rfl, Or.inl rfl⟩

theorem neutral_out (μ : M) (hd : μ.dead = false) (s' : St) (o : Out) (ho : neutral o = true) (h : Inv μ s') :
    ∃ μ', List.foldlM C03.step μ ([o].map Ev.out) = .ok μ' ∧ R μ' s' :=
  ⟨μ, by simp only [List.map_cons, List.map_nil]; rw [fold_cons_ok (mon_neutral μ hd o ho)]; rfl, Or.inr h⟩

theorem no_out (μ : M) (s' : St) (h : Inv μ s') :
    ∃ μ', List.foldlM C03.step μ (([] : List Out).map Ev.out) = .ok μ' ∧ R μ' s' :=
  ⟨μ, rfl, Or.inr h⟩

theorem Shape_nil {s : St} (h : s.stack = []) : Shape s :=
  ⟨by rw [h]; rfl, fun _ => h, by rw [h]; intro c hc; cases hc⟩

def pick3 (x0 x1 x2 : Bool) (stage : Nat) : Bool :=
  match stage with
  | 0 => x0
  | 1 => x1
  | _ => x2

/-- `fdStage` moved on to the next band; `called` grew at most by the callback just made -/
theorem bump_inv (μ μ' : M) (s s1 : St) (cur : FdId) (stage : Nat) (a : List FdId) (rt : Bool) (hinv : Inv μ s)
    (hst : s.stack = [.fd cur stage, .poll a rt]) (hst1 : s1.stack = [.fd cur (stage + 1), .poll a rt])
    (hh : s1.handled = s.handled) (hf : s1.fds = s.fds) (hl : loopPc s1.pc = false) (hint : IntInv s1)
    (hp : μ'.book.pending = none) (hregd : μ'.book.regd = μ.book.regd) (hrep : μ'.reported = μ.reported)
    (hcalled : μ'.called = μ.called ∨
      (μ'.called = μ.called ++ [(cur, stage)] ∧ cur < 1000 ∧ s.handled = some cur)) : Inv μ' s1 := by
  have hact : activeOf s.stack = a := by simp [hst, activeOf]
  have hcur : curOf s.stack = some (cur, stage) := by simp [hst, curOf]
  refine ⟨hp, hint, ?_, ?_, ?_⟩
  · refine ⟨by simp [hst1, shapeOk, kind, shapeK], by simp [hl], ?_⟩
    intro c hc
    simp [hst1, curOf] at hc
  · rw [hrep]
    have hgood : ∀ g, Good μ.reported s g → Good μ.reported s1 g := fun g h => by
      unfold Good at h ⊢; rw [hf]; exact h
    refine ⟨by simpa [hst1, activeOf] using hact ▸ hinv.disp.nodup, ?_, ?_, ?_⟩
    · intro g hg hlt
      have hg' : g ∈ activeOf s.stack := by rw [hact]; simpa [hst1, activeOf] using hg
      have := hinv.disp.act g hg' hlt
      refine ⟨hgood g this.1, ?_⟩
      intro b hb
      rcases hcalled with e | ⟨e, hlt', hh'⟩
      · rw [e] at hb; exact this.2 b hb
      · rw [e] at hb
        rcases List.mem_append.mp hb with hb | hb
        · exact this.2 b hb
        · simp at hb
          have := (hinv.disp.cur cur stage hcur hlt' hh').2.2
          exact this (hb.1 ▸ hg')
    · intro c st hc hlt hh'
      simp [hst1, curOf] at hc
      obtain ⟨hc1, hc2⟩ := hc
      subst hc1 hc2
      rw [hh] at hh'
      have := hinv.disp.cur cur stage hcur hlt hh'
      refine ⟨hgood cur this.1, ?_, by simpa [hst1, activeOf] using hact ▸ this.2.2⟩
      intro b hb
      rcases hcalled with e | ⟨e, _, _⟩
      · rw [e] at hb; exact Nat.lt_succ_of_lt (this.2.1 b hb)
      · rw [e] at hb
        rcases List.mem_append.mp hb with hb | hb
        · exact Nat.lt_succ_of_lt (this.2.1 b hb)
        · simp at hb; rw [hb]; exact Nat.lt_succ_self _
    · intro c st hc
      simp [hst1, curOf] at hc
      rw [hh, ← hc.1]
      exact hinv.disp.curH cur stage hcur
  · rw [hregd]
    intro f hlt hr
    rw [hf] at hr ⊢
    exact hinv.book f hlt hr

theorem bandHeld_of_le (ev : KEv) (r : Bands) (h : Bands.le r (bandsOfKEv ev)) (stage : Nat)
    (hr : pick3 r.e r.i r.o stage = true) : bandHeld ev stage = true := by
  obtain ⟨h1, h2, h3⟩ := h
  match stage with
  | 0 => exact h3 hr
  | 1 => exact h1 hr
  | (n + 2) => exact h2 hr

theorem mon_cb_ok (μ : M) (hd : μ.dead = false) (f : FdId) (band : Nat) (v : FdView) (p : FdId × KEv)
    (hlt : f < 1000)
    (hfind : μ.book.regd.find? (fun w => w.f == f) = some v)
    (hh : pick3 v.herr v.hin v.hout band = true)
    (hrep : μ.reported.find? (fun q => q.1 == f) = some p) (hheld : bandHeld p.2 band = true)
    (hnc : (f, band) ∉ μ.called) :
    C03.step μ (.out (.cb (.fd f band))) = .ok { μ with called := μ.called ++ [(f, band)] } := by
  have h1 : ¬ f ≥ 1000 := Nat.not_le.mpr hlt
  have h2 : μ.book.find f = some v := hfind
  have h3 : μ.book.handler f band = true := by simp only [FdBook.handler, h2]; exact hh
  have h4 : μ.called.contains (f, band) = false := by simpa using hnc
  obtain ⟨p1, p2⟩ := p
  simp only [C03.step, hd, h1, h2, h3, hrep, hheld, h4, FdBook.step]
  simp


def wantOf (o : FdObj) (stage : Nat) : Bool :=
  match stage with
  | 0 => o.ready.e && o.herr
  | 1 => o.ready.i && o.hin
  | _ => o.ready.o && o.hout

theorem internal_fdStage_eq (s : St) (cur : FdId) (stage : Nat) (rest : List Frame)
    (hst : s.stack = .fd cur stage :: rest) :
    internal s .fdStage =
      if stage ≥ 3 then goto { s with stack := rest } .dispatchNext
      else if stage ≥ 1 && s.handled.isNone then goto (setTop s (.fd cur (stage + 1))) .fdStage
      else if !(s.fds cur).live then ({ s with pc := .dead }, [Out.fault s!"use-after-free fd {cur}"])
      else if wantOf (s.fds cur) stage then
        match (if stage = 1 then fdRaw? cur else none) with
        | some r => ({ (setTop s (.fd cur (stage + 1))) with pc := .needRawRead r }, [])
        | none => ({ (setTop s (.fd cur (stage + 1))) with pc := .user }, [Out.cb (.fd cur stage)])
      else goto (setTop s (.fd cur (stage + 1))) .fdStage := by
  simp only [internal, hst]
  rfl

theorem wantOf_split (o : FdObj) (stage : Nat) (h : wantOf o stage = true) :
    pick3 o.ready.e o.ready.i o.ready.o stage = true ∧ pick3 o.herr o.hin o.hout stage = true := by
  match stage with
  | 0 => simpa [wantOf, pick3] using h
  | 1 => simpa [wantOf, pick3] using h
  | (n + 2) => simpa [wantOf, pick3] using h

theorem mon_cb_internal (μ : M) (hd : μ.dead = false) (f : FdId) (band : Nat) (hge : f ≥ 1000) :
    C03.step μ (.out (.cb (.fd f band))) = .ok μ := by
  unfold C03.step
  rw [if_neg (by simp [hd])]
  simp only [FdBook.step]
  rw [if_pos hge]

theorem internal_step_simple (μ : M) (s : St) (b : Block) (s' : St) (outs : List Out) (hinv : Inv μ s)
    (hd : μ.dead = false) (hpc : s.pc = .run b) (hres : internal s b = (s', outs)) :
    ∃ μ', List.foldlM C03.step μ (outs.map Ev.out) = .ok μ' ∧ R μ' s' := by
  have hint : IntInv s' := by have := internal_IntInv s b hinv.int; rw [hres] at this; exact this
  cases b with
  | mainTop rt =>
    have hst : s.stack = [] := hinv.shape.loop (by rw [hpc]; rfl)
    simp only [internal, goto] at hres
    repeat' split at hres
    all_goals
      simp only [Prod.mk.injEq] at hres
      obtain ⟨rfl, rfl⟩ := hres
      exact no_out μ _ (Inv_internal hinv hint (Shape_nil hst) rfl rfl rfl (fun g => coreEq.rfl' _))
  | collect =>
    have hst : s.stack = [] := hinv.shape.loop (by rw [hpc]; rfl)
    simp only [internal, goto, fatal] at hres
    split at hres
    · simp only [Prod.mk.injEq] at hres
      obtain ⟨rfl, rfl⟩ := hres
      refine no_out μ _ (Inv_internal hinv hint ?_ ?_ ?_ rfl (fun g => coreEq.rfl' _))
      · exact ⟨by simp [hst, shapeOk, kind, shapeK], by simp [loopPc], by simp [hst, curOf]⟩
      · simp [hst, activeOf]
      · simp [hst, curOf]
    · simp only [Prod.mk.injEq] at hres
      obtain ⟨rfl, rfl⟩ := hres
      exact dead_out μ hd _ _ (Or.inl ⟨_, rfl⟩)
    · simp only [Prod.mk.injEq] at hres
      obtain ⟨rfl, rfl⟩ := hres
      exact dead_out μ hd _ _ (Or.inr ⟨_, rfl⟩)
  | popTimer =>
    simp only [internal, goto] at hres
    split at hres
    · next rest hst =>
      have hr : rest = [] := shape_timers (hst ▸ hinv.shape.ok)
      subst hr
      simp only [Prod.mk.injEq] at hres
      obtain ⟨rfl, rfl⟩ := hres
      refine no_out μ _ (Inv_internal hinv hint (Shape_nil rfl) ?_ ?_ rfl (fun g => coreEq.rfl' _))
      · simp [hst, activeOf]
      · simp [hst, curOf]
    · next t r rest hst =>
      have hr : rest = [] := shape_timers (hst ▸ hinv.shape.ok)
      subst hr
      split at hres
      · simp only [Prod.mk.injEq] at hres
        obtain ⟨rfl, rfl⟩ := hres
        exact dead_out μ hd _ _ (Or.inr ⟨_, rfl⟩)
      · simp only [Prod.mk.injEq] at hres
        obtain ⟨rfl, rfl⟩ := hres
        refine neutral_out μ hd _ _ rfl (Inv_internal hinv hint ?_ ?_ ?_ rfl (fun g => coreEq.rfl' _))
        · exact ⟨by simp [shapeOk, kind, shapeK], by simp [loopPc], by simp [curOf]⟩
        · simp [hst, activeOf]
        · simp [hst, curOf]
    · simp only [Prod.mk.injEq] at hres
      obtain ⟨rfl, rfl⟩ := hres
      exact dead_out μ hd _ _ (Or.inr ⟨_, rfl⟩)
  | startTasks =>
    have hst : s.stack = [] := hinv.shape.loop (by rw [hpc]; rfl)
    simp only [internal, goto] at hres
    simp only [Prod.mk.injEq] at hres
    obtain ⟨rfl, rfl⟩ := hres
    refine no_out μ _ (Inv_internal hinv hint ?_ ?_ ?_ rfl (fun g => coreEq.rfl' _))
    · exact ⟨by simp [hst, shapeOk, kind, shapeK], by simp [loopPc], by simp [hst, curOf]⟩
    · simp [hst, activeOf]
    · simp [hst, curOf]
  | popTask =>
    simp only [internal, goto] at hres
    split at hres
    · next rest hst =>
      have hr : rest = [] := shape_tasks (hst ▸ hinv.shape.ok)
      subst hr
      simp only [Prod.mk.injEq] at hres
      obtain ⟨rfl, rfl⟩ := hres
      refine no_out μ _ (Inv_internal hinv hint (Shape_nil rfl) ?_ ?_ rfl (fun g => coreEq.rfl' _))
      · simp [hst, activeOf]
      · simp [hst, curOf]
    · next k r rest hst =>
      have hr : rest = [] := shape_tasks (hst ▸ hinv.shape.ok)
      subst hr
      split at hres
      · simp only [Prod.mk.injEq] at hres
        obtain ⟨rfl, rfl⟩ := hres
        exact dead_out μ hd _ _ (Or.inr ⟨_, rfl⟩)
      · split at hres
        · simp only [Prod.mk.injEq] at hres
          obtain ⟨rfl, rfl⟩ := hres
          refine no_out μ _ (Inv_internal hinv hint ?_ ?_ ?_ rfl (fun g => coreEq.rfl' _))
          · exact ⟨by simp [shapeOk, kind, shapeK], by simp [loopPc], by simp [curOf]⟩
          · simp [hst, activeOf]
          · simp [hst, curOf]
        · simp only [Prod.mk.injEq] at hres
          obtain ⟨rfl, rfl⟩ := hres
          refine neutral_out μ hd _ _ rfl (Inv_internal hinv hint ?_ ?_ ?_ rfl (fun g => coreEq.rfl' _))
          · exact ⟨by simp [shapeOk, kind, shapeK], by simp [loopPc], by simp [curOf]⟩
          · simp [hst, activeOf]
          · simp [hst, curOf]
    · simp only [Prod.mk.injEq] at hres
      obtain ⟨rfl, rfl⟩ := hres
      exact dead_out μ hd _ _ (Or.inr ⟨_, rfl⟩)
  | runEvents =>
    have hno : ∀ c, curOf s.stack ≠ some (c, 0) := fun c hc => by
      have := (hinv.shape.st0 c hc).1; rw [hpc] at this; cases this
    simp only [internal, goto] at hres
    split at hres
    · simp only [Prod.mk.injEq] at hres
      obtain ⟨rfl, rfl⟩ := hres
      refine no_out μ _ (Inv_internal hinv hint ?_ rfl rfl rfl (fun g => coreEq.rfl' _))
      exact ⟨hinv.shape.ok, by simp [loopPc], fun c hc => absurd hc (hno c)⟩
    · simp only [Prod.mk.injEq] at hres
      obtain ⟨rfl, rfl⟩ := hres
      refine no_out μ _ (Inv_internal hinv hint ?_ ?_ ?_ rfl (fun g => coreEq.rfl' _))
      · exact ⟨by simp only [shape_events]; exact hinv.shape.ok, by simp [loopPc],
          fun c hc => absurd (by simpa [curOf] using hc) (hno c)⟩
      · simp [activeOf]
      · simp [curOf]
  | popEvent =>
    have hno : ∀ c, curOf s.stack ≠ some (c, 0) := fun c hc => by
      have := (hinv.shape.st0 c hc).1; rw [hpc] at this; cases this
    simp only [internal, goto] at hres
    split at hres
    · next rest hst =>
      simp only [Prod.mk.injEq] at hres
      obtain ⟨rfl, rfl⟩ := hres
      have hok := hinv.shape.ok
      rw [hst, shape_events] at hok
      refine no_out μ _ (Inv_internal hinv hint ?_ ?_ ?_ rfl (fun g => coreEq.rfl' _))
      · exact ⟨hok, by simp [loopPc], fun c hc => absurd (by rw [hst]; simpa [curOf] using hc) (hno c)⟩
      · simp [hst, activeOf]
      · simp [hst, curOf]
    · next e r rest hst =>
      have hok := hinv.shape.ok
      rw [hst, shape_events] at hok
      split at hres
      · simp only [Prod.mk.injEq] at hres
        obtain ⟨rfl, rfl⟩ := hres
        exact dead_out μ hd _ _ (Or.inr ⟨_, rfl⟩)
      · simp only [Prod.mk.injEq] at hres
        obtain ⟨rfl, rfl⟩ := hres
        refine neutral_out μ hd _ _ rfl (Inv_internal hinv hint ?_ ?_ ?_ rfl (fun g => coreEq.rfl' _))
        · exact ⟨by simp only [shape_events]; exact hok, by simp [loopPc],
            fun c hc => absurd (by rw [hst]; simpa [curOf] using hc) (hno c)⟩
        · simp [hst, activeOf]
        · simp [hst, curOf]
    · simp only [Prod.mk.injEq] at hres
      obtain ⟨rfl, rfl⟩ := hres
      exact dead_out μ hd _ _ (Or.inr ⟨_, rfl⟩)
  | resume =>
    have hno : ∀ c, curOf s.stack ≠ some (c, 0) := fun c hc => by
      have := (hinv.shape.st0 c hc).1; rw [hpc] at this; cases this
    simp only [internal, goto] at hres
    split at hres
    all_goals
      simp only [Prod.mk.injEq] at hres
      obtain ⟨rfl, rfl⟩ := hres
    all_goals first
      | exact dead_out μ hd _ _ (Or.inr ⟨_, rfl⟩)
      | exact no_out μ _ (Inv_internal hinv hint ⟨hinv.shape.ok, by simp [loopPc], fun c hc => absurd hc (hno c)⟩
          rfl rfl rfl (fun g => coreEq.rfl' _))
  | exitCheck =>
    have hst : s.stack = [] := hinv.shape.loop (by rw [hpc]; rfl)
    simp only [internal, goto] at hres
    split at hres
    · simp only [Prod.mk.injEq] at hres
      obtain ⟨rfl, rfl⟩ := hres
      exact neutral_out μ hd _ _ rfl (Inv_internal hinv hint (Shape_nil hst) rfl rfl rfl (fun g => coreEq.rfl' _))
    · simp only [Prod.mk.injEq] at hres
      obtain ⟨rfl, rfl⟩ := hres
      exact no_out μ _ (Inv_internal hinv hint (Shape_nil hst) rfl rfl rfl (fun g => coreEq.rfl' _))
  | wait abs km =>
    have hst : s.stack = [] := hinv.shape.loop (by rw [hpc]; rfl)
    simp only [internal] at hres
    simp only [Prod.mk.injEq] at hres
    obtain ⟨rfl, rfl⟩ := hres
    exact neutral_out μ hd _ _ rfl (Inv_internal hinv hint (Shape_nil hst) rfl rfl rfl (fun g => coreEq.rfl' _))
  | prepWait =>
    have hst : s.stack = [] := hinv.shape.loop (by rw [hpc]; rfl)
    rw [internal_prepWait_eq] at hres
    simp only [goto] at hres
    split at hres
    · next hm =>
      have hm' : s.method = .epollTimerfd := by simpa using hm
      have hsame := fun abs => timeoutCheck_same s abs hm'
      repeat' split at hres
      all_goals
        simp only [Prod.mk.injEq] at hres
        obtain ⟨rfl, rfl⟩ := hres
        refine no_out μ _ (Inv_internal hinv hint (Shape_nil ((hsame _).2.1.trans hst)) ?_ ?_ (hsame _).1.2.2.2.2.2
          (fun g => by rw [(hsame _).1.2.1]; exact coreEq.rfl' _))
        · show activeOf (timeoutCheck s _).1.stack = _; rw [(hsame _).2.1]
        · show curOf (timeoutCheck s _).1.stack = _; rw [(hsame _).2.1]
    · repeat' split at hres
      all_goals
        simp only [Prod.mk.injEq] at hres
        obtain ⟨rfl, rfl⟩ := hres
        exact no_out μ _ (Inv_internal hinv hint (Shape_nil hst) rfl rfl rfl (fun g => coreEq.rfl' _))
  | flush abs km =>
    have hst : s.stack = [] := hinv.shape.loop (by rw [hpc]; rfl)
    rw [internal_flush_eq] at hres
    have hf := flushed_frame s
    simp only [goto] at hres
    split at hres
    all_goals
      simp only [Prod.mk.injEq] at hres
      obtain ⟨rfl, rfl⟩ := hres
      refine no_out μ _ (Inv_internal hinv hint (Shape_nil (hf.1.trans hst)) ?_ ?_ hf.2.1 hf.2.2.2.2)
      · show activeOf (flushed s).stack = _; rw [hf.1]
      · show curOf (flushed s).stack = _; rw [hf.1]
  | dispatchNext =>
    simp only [internal, goto] at hres
    split at hres
    · next rt rest hst =>
      have hr : rest = [] := shape_poll (hst ▸ hinv.shape.ok)
      subst hr
      simp only [Prod.mk.injEq] at hres
      obtain ⟨rfl, rfl⟩ := hres
      refine no_out μ _ (Inv_internal hinv hint (Shape_nil rfl) ?_ ?_ rfl (fun g => coreEq.rfl' _))
      · simp [hst, activeOf]
      · simp [hst, curOf]
    · next f r rt rest hst =>
      have hr : rest = [] := shape_poll (hst ▸ hinv.shape.ok)
      subst hr
      simp only [Prod.mk.injEq] at hres
      obtain ⟨rfl, rfl⟩ := hres
      have hact : activeOf s.stack = f :: r := by simp [hst, activeOf]
      have hnd := hinv.disp.nodup
      rw [hact] at hnd
      have hnd' := List.nodup_cons.mp hnd
      refine no_out μ _ ⟨hinv.pend, hint, ?_, ?_, ?_⟩
      · refine ⟨by simp [shapeOk, kind, shapeK], by simp [loopPc], ?_⟩
        intro c hc
        simp [curOf] at hc
        exact ⟨rfl, by rw [hc]⟩
      · refine ⟨by simpa [activeOf] using hnd'.2, ?_, ?_, ?_⟩
        · intro g hg hlt
          have hg' : g ∈ activeOf s.stack := by rw [hact]; exact List.mem_cons_of_mem _ (by simpa [activeOf] using hg)
          exact hinv.disp.act g hg' hlt
        · intro c st hc hlt hh
          simp [curOf] at hc
          obtain ⟨rfl, rfl⟩ := hc
          have := hinv.disp.act f (by rw [hact]; exact List.mem_cons_self) hlt
          exact ⟨this.1, fun b hb => absurd hb (this.2 b), by simpa [activeOf] using hnd'.1⟩
        · intro c st hc
          simp [curOf] at hc
          exact Or.inl (by rw [hc.1])
      · exact hinv.book
    · simp only [Prod.mk.injEq] at hres
      obtain ⟨rfl, rfl⟩ := hres
      exact dead_out μ hd _ _ (Or.inr ⟨_, rfl⟩)
  | fdStage =>
    cases hstk : s.stack with
    | nil =>
      simp only [internal, hstk, Prod.mk.injEq] at hres
      obtain ⟨rfl, rfl⟩ := hres
      exact dead_out μ hd _ _ (Or.inr ⟨_, rfl⟩)
    | cons fr rest =>
      cases fr with
      | fd cur stage =>
        have hst := hstk
        obtain ⟨a, rt, hr⟩ := shape_fd (hst ▸ hinv.shape.ok)
        subst hr
        have hact : activeOf s.stack = a := by simp [hst, activeOf]
        have hcur : curOf s.stack = some (cur, stage) := by simp [hst, curOf]
        have htail : s.stack.tail = [.poll a rt] := by rw [hst]; rfl
        rw [internal_fdStage_eq s cur stage _ hst] at hres
        simp only [goto, setTop, htail] at hres
        split at hres
        · -- all bands done: pop the descriptor frame
          simp only [Prod.mk.injEq] at hres
          obtain ⟨rfl, rfl⟩ := hres
          refine no_out μ _ ⟨hinv.pend, hint, ?_, ?_, hinv.book⟩
          · exact ⟨by simp [shapeOk, kind, shapeK], by simp [loopPc], by simp [curOf]⟩
          · refine ⟨by simpa [activeOf] using hact ▸ hinv.disp.nodup, ?_, by simp [curOf], by simp [curOf]⟩
            intro g hg hlt
            exact hinv.disp.act g (by rw [hact]; simpa [activeOf] using hg) hlt
        · next hst3 =>
          split at hres
          · -- unregistered meanwhile: skip the band
            simp only [Prod.mk.injEq] at hres
            obtain ⟨rfl, rfl⟩ := hres
            exact no_out μ _ (bump_inv μ μ s _ cur stage a rt hinv hst rfl rfl rfl (by simp [loopPc]) hint
              hinv.pend rfl rfl (Or.inl rfl))
          · next hskip =>
            split at hres
            · simp only [Prod.mk.injEq] at hres
              obtain ⟨rfl, rfl⟩ := hres
              exact dead_out μ hd _ _ (Or.inr ⟨_, rfl⟩)
            · split at hres
              · next hwant =>
                split at hres
                · -- internal descriptor of a raw event: read it first
                  simp only [Prod.mk.injEq] at hres
                  obtain ⟨rfl, rfl⟩ := hres
                  exact no_out μ _ (bump_inv μ μ s _ cur stage a rt hinv hst rfl rfl rfl (by simp [loopPc]) hint
                    hinv.pend rfl rfl (Or.inl rfl))
                · next hraw =>
                  simp only [Prod.mk.injEq] at hres
                  obtain ⟨rfl, rfl⟩ := hres
                  by_cases hlt : cur < 1000
                  · have hh : s.handled = some cur := by
                      by_cases h0 : stage = 0
                      · subst h0; exact (hinv.shape.st0 cur hcur).2
                      · have h1 : decide (stage ≥ 1) = true := by simp; omega
                        rw [h1, Bool.true_and] at hskip
                        rcases hinv.disp.curH cur stage hcur with h | h
                        · exact h
                        · rw [h] at hskip; simp at hskip
                    obtain ⟨hgood, hcalled, hna⟩ := hinv.disp.cur cur stage hcur hlt hh
                    obtain ⟨hreg, p, hrep, hle⟩ := hgood
                    obtain ⟨v, hfind, hvi, hvo, hve⟩ := hinv.book cur hlt hreg
                    have hw := wantOf_split _ _ hwant
                    have hstep := mon_cb_ok μ hd cur stage v p hlt hfind
                      (by rw [hvi, hvo, hve]; exact hw.2) hrep (bandHeld_of_le p.2 _ hle stage hw.1)
                      (fun hm => Nat.lt_irrefl _ (hcalled stage hm))
                    refine ⟨{ μ with called := μ.called ++ [(cur, stage)] }, ?_, Or.inr ?_⟩
                    · simp only [List.map_cons, List.map_nil]
                      rw [fold_cons_ok hstep]; rfl
                    · exact bump_inv μ _ s _ cur stage a rt hinv hst rfl rfl rfl (by simp [loopPc]) hint
                        hinv.pend rfl rfl (Or.inr ⟨rfl, hlt, hh⟩)
                  · refine ⟨μ, ?_, Or.inr ?_⟩
                    · simp only [List.map_cons, List.map_nil]
                      rw [fold_cons_ok (mon_cb_internal μ hd cur stage (Nat.le_of_not_lt hlt))]; rfl
                    · exact bump_inv μ μ s _ cur stage a rt hinv hst rfl rfl rfl (by simp [loopPc]) hint
                        hinv.pend rfl rfl (Or.inl rfl)
              · simp only [Prod.mk.injEq] at hres
                obtain ⟨rfl, rfl⟩ := hres
                exact no_out μ _ (bump_inv μ μ s _ cur stage a rt hinv hst rfl rfl rfl (by simp [loopPc]) hint
                  hinv.pend rfl rfl (Or.inl rfl))
      | _ =>
        simp only [internal, hstk, Prod.mk.injEq] at hres
        obtain ⟨rfl, rfl⟩ := hres
        exact dead_out μ hd _ _ (Or.inr ⟨_, rfl⟩)


/-! ## the wait returned: what was reported -/

def repOf (l : List WItem) : List (FdId × KEv) :=
  l.filterMap fun it => match it with | .fd f ev => some (f, ev) | _ => none

theorem repOf_map_fst (l : List WItem) : (repOf l).map (·.1) = wretFds l := by
  induction l with
  | nil => rfl
  | cons it t ih =>
    cases it <;> simp_all [repOf, wretFds, List.filterMap_cons]

theorem repOf_find (L : List WItem) (f : FdId) (ev : KEv) (hm : WItem.fd f ev ∈ L) (hn : (wretFds L).Nodup) :
    (repOf L).find? (fun q => q.1 == f) = some (f, ev) := by
  have h1 : (f, ev) ∈ repOf L := by
    simp only [repOf, List.mem_filterMap]
    exact ⟨_, hm, rfl⟩
  exact find?_of_mem_nodup (repOf L) (f, ev) h1 (by rw [repOf_map_fst]; exact hn)

/-- the loop invariant of the collection loop, against the full list `L` -/
structure J (L : List WItem) (s0 s : St) (a : List FdId) : Prop where
  ro : ReadyOnly s0 s
  nodup : a.Nodup
  act : ∀ f ∈ a, ∃ ev, WItem.fd f ev ∈ L ∧ Bands.le (s.fds f).ready (bandsOfKEv ev)

theorem makeReady_J (L : List WItem) (hn : (wretFds L).Nodup) (s0 s : St) (a : List FdId) (f : FdId) (ev : KEv) (b : Bands)
    (hm : WItem.fd f ev ∈ L) (hb : Bands.le b (bandsOfKEv ev)) (h : J L s0 s a) :
    J L s0 (makeReady s a f b).1 (makeReady s a f b).2 := by
  have hro := h.ro.trans (makeReady_readyOnly s a f b)
  have huniq : ∀ ev', WItem.fd f ev' ∈ L → ev' = ev := by
    intro ev' hm'
    have h1 := repOf_find L f ev hm hn
    have h2 := repOf_find L f ev' hm' hn
    rw [h1] at h2
    simp at h2
    exact h2.symm
  simp only [makeReady] at hro ⊢
  split
  · next hc =>
    have hfa : f ∈ a := by simpa using hc
    rw [if_pos hc] at hro
    refine ⟨hro, h.nodup, ?_⟩
    intro g hg
    obtain ⟨ev', hm', hle⟩ := h.act g hg
    refine ⟨ev', hm', ?_⟩
    simp only [upd]
    split
    · next hgf =>
      subst hgf
      have := huniq ev' hm'
      subst this
      exact Bands.union_le hle hb
    · exact hle
  · next hc =>
    have hfa : f ∉ a := by simpa using hc
    rw [if_neg hc] at hro
    refine ⟨hro, ?_, ?_⟩
    · exact List.nodup_append.mpr ⟨h.nodup, by simp, by intro x hx y hy; simp at hy; subst hy; intro he; subst he; exact hfa hx⟩
    · intro g hg
      rcases List.mem_append.mp hg with hg | hg
      · obtain ⟨ev', hm', hle⟩ := h.act g hg
        refine ⟨ev', hm', ?_⟩
        have hgf : g ≠ f := fun he => hfa (he ▸ hg)
        simp only [upd, hgf, if_false]
        exact hle
      · have hgf : g = f := by simpa using hg
        subst hgf
        exact ⟨ev, hm, by simp only [upd, if_true]; exact hb⟩

theorem activate_J (L : List WItem) (hn : (wretFds L).Nodup) (s0 s : St) (a : List FdId) (f : FdId) (ev : KEv)
    (hm : WItem.fd f ev ∈ L) (h : J L s0 s a) :
    J L s0 (activate s a f ev).1 (activate s a f ev).2 := by
  have step1 : J L s0
      (if (bandsOfKEv ev).i then makeReady s a f ⟨true, false, false⟩ else (s, a)).1
      (if (bandsOfKEv ev).i then makeReady s a f ⟨true, false, false⟩ else (s, a)).2 := by
    split
    · next hi => exact makeReady_J L hn s0 s a f ev _ hm (by simp [Bands.le, hi]) h
    · exact h
  have step2 : ∀ (s1 : St) (a1 : List FdId), J L s0 s1 a1 → J L s0
      (if (bandsOfKEv ev).o then makeReady s1 a1 f ⟨false, true, false⟩ else (s1, a1)).1
      (if (bandsOfKEv ev).o then makeReady s1 a1 f ⟨false, true, false⟩ else (s1, a1)).2 := by
    intro s1 a1 h1
    split
    · next ho => exact makeReady_J L hn s0 s1 a1 f ev _ hm (by simp [Bands.le, ho]) h1
    · exact h1
  have step3 : ∀ (s1 : St) (a1 : List FdId), J L s0 s1 a1 → J L s0
      (if (bandsOfKEv ev).e then makeReady s1 a1 f ⟨false, false, true⟩ else (s1, a1)).1
      (if (bandsOfKEv ev).e then makeReady s1 a1 f ⟨false, false, true⟩ else (s1, a1)).2 := by
    intro s1 a1 h1
    split
    · next he => exact makeReady_J L hn s0 s1 a1 f ev _ hm (by simp [Bands.le, he]) h1
    · exact h1
  exact step3 _ _ (step2 _ _ step1)

theorem wfold_J (L : List WItem) (hn : (wretFds L).Nodup) (s0 : St) (rt re : Bool) :
    J L s0 (L.foldl wstep (s0, [], rt, re)).1 (L.foldl wstep (s0, [], rt, re)).2.1 := by
  refine wfold_inv (fun s a => J L s0 s a) L ?_ ?_ ?_ L (fun _ h => h) s0 [] rt re
    ⟨ReadyOnly.refl s0, List.nodup_nil, fun f hf => by cases hf⟩
  · intro s a h
    exact ⟨h.ro.trans ⟨rfl, rfl, rfl, rfl, rfl, rfl, rfl, fun g => ⟨(s.fds g).ready, rfl⟩⟩, h.nodup, h.act⟩
  · intro s a h
    exact ⟨h.ro.trans ⟨rfl, rfl, rfl, rfl, rfl, rfl, rfl, fun g => ⟨(s.fds g).ready, rfl⟩⟩, h.nodup, h.act⟩
  · intro s a f ev hm h
    exact activate_J L hn s0 s a f ev hm h

theorem reported_registered (s : St) (hint : IntInv s) (l : List WItem) (hok : wretOk s (.events l) = true)
    (f : FdId) (ev : KEv) (hm : WItem.fd f ev ∈ l) (hlt : f < 1000) : (s.fds f).registered = true := by
  simp only [wretOk, Bool.and_eq_true, List.all_eq_true] at hok
  have h1 := hok.1 _ hm
  simp only at h1
  cases hr : (s.fds f).registered
  · exfalso
    cases hep : s.method.isEpoll
    · rw [hep] at h1
      simp only [Bool.false_eq_true, if_false, List.any_eq_true] at h1
      obtain ⟨x, hx, hxf⟩ := h1
      obtain ⟨j, hj⟩ := List.getElem?_of_mem hx
      have hxf' : x.1 = f := by simpa using hxf
      have hP := hint.2 hep
      have := hP.W f j x.2 hlt (by rw [hj, ← hxf'])
      rw [hP.X f hlt hr] at this
      cases this
    · rw [hep] at h1
      simp only [if_true] at h1
      have hE := hint.1 hep
      have := hE.kz f hlt (hE.unreg f hlt (by simp) hr).2
      rw [this] at h1
      cases h1
  · rfl

theorem Disp_nil (rep : List (FdId × KEv)) (called : List (FdId × Nat)) (s' : St) (hst : s'.stack = []) :
    Disp rep called s' := by
  refine ⟨by simp [hst, activeOf], by simp [hst, activeOf], by simp [hst, curOf], by simp [hst, curOf]⟩

theorem Disp_fresh (rep : List (FdId × KEv)) (s' : St) (a : List FdId) (rt : Bool)
    (hst : s'.stack = [.poll a rt]) (hn : a.Nodup) (hg : ∀ f ∈ a, f < 1000 → Good rep s' f) : Disp rep [] s' := by
  refine ⟨by simpa [hst, activeOf] using hn, ?_, by simp [hst, curOf], by simp [hst, curOf]⟩
  intro f hf hlt
  exact ⟨hg f (by simpa [hst, activeOf] using hf) hlt, by simp⟩

theorem BookOk_readyOnly {regd : List FdView} {s s' : St} (hro : ReadyOnly s s') (h : BookOk regd s) :
    BookOk regd s' := by
  intro f hf hr
  obtain ⟨r, hfr⟩ := hro.2.2.2.2.2.2.2 f
  rw [hfr] at hr ⊢
  exact h f hf hr

theorem mon_wret (μ : M) (hd : μ.dead = false) (r : WRes) :
    C03.step μ (.inp (.wret r)) = .ok { μ with reported := (match r with | .events l => repOf l | _ => []), called := [] } := by
  unfold C03.step
  rw [if_neg (by simp [hd])]
  simp only [FdBook.step]
  cases r <;> rfl

theorem waitEnd_sum (s1 : St) (a1 : List FdId) (rt1 re1 km : Bool) :
    (waitEnd (s1, a1, rt1, re1) km).1.stack = .poll a1 rt1 :: s1.stack ∧
    (waitEnd (s1, a1, rt1, re1) km).1.fds = s1.fds ∧
    (waitEnd (s1, a1, rt1, re1) km).1.handled = s1.handled ∧
    loopPc (waitEnd (s1, a1, rt1, re1) km).1.pc = false ∧
    (waitEnd (s1, a1, rt1, re1) km).2 = [] := by
  simp only [waitEnd, goto]
  split <;> split <;> simp [loopPc]

theorem wret_step (μ : M) (s : St) (abs : Option Ivy.Heap.TS) (km : Bool) (r : WRes) (hinv : Inv μ s)
    (hd : μ.dead = false) (hpc : s.pc = .waiting abs km) (henv : wretOk s r = true) :
    ∃ μ', List.foldlM C03.step μ (Ev.inp (.wret r) :: (afterWait s abs km r).2.map Ev.out) = .ok μ' ∧
      R μ' (afterWait s abs km r).1 := by
  have hst : s.stack = [] := hinv.shape.loop (by rw [hpc]; rfl)
  have hint := afterWait_IntInv s abs km r hinv.int
  rw [fold_cons_ok (mon_wret μ hd r)]
  cases r with
  | events l =>
    rw [afterWait_events_eq] at hint ⊢
    simp only [wretOk, Bool.and_eq_true, decide_eq_true_eq] at henv
    have hJ := wfold_J l henv.2 (waitStart s) (waitRt0 (waitStart s) abs) false
    have hro := hJ.ro
    have hs1 : (l.foldl wstep (waitStart s, [], waitRt0 (waitStart s) abs, false)).1.stack = [] := by
      rw [hro.2.1]; exact hst
    have hro' : ReadyOnly s (l.foldl wstep (waitStart s, [], waitRt0 (waitStart s) abs, false)).1 :=
      ReadyOnly.trans ⟨rfl, rfl, rfl, rfl, rfl, rfl, rfl, fun g => ⟨(s.fds g).ready, rfl⟩⟩ hro
    have hgood : ∀ f ∈ (l.foldl wstep (waitStart s, [], waitRt0 (waitStart s) abs, false)).2.1, f < 1000 →
        Good (repOf l) (l.foldl wstep (waitStart s, [], waitRt0 (waitStart s) abs, false)).1 f := by
      intro f hf hlt
      obtain ⟨ev, hm, hle⟩ := hJ.act f hf
      have hreg := reported_registered s hinv.int l (by simp [wretOk, henv]) f ev hm hlt
      obtain ⟨rr, hfr⟩ := hro'.2.2.2.2.2.2.2 f
      refine ⟨by rw [hfr]; exact hreg, (f, ev), repOf_find l f ev hm henv.2, hle⟩
    have hbook := BookOk_readyOnly hro' hinv.book
    have hnd := hJ.nodup
    generalize l.foldl wstep (waitStart s, [], waitRt0 (waitStart s) abs, false) = res at *
    obtain ⟨s1, a1, rt1, re1⟩ := res
    obtain ⟨e1, e2, e3, e4, e5⟩ := waitEnd_sum s1 a1 rt1 re1 km
    rw [e5]
    simp only at hs1 hgood hbook hnd
    refine no_out _ _ ⟨hinv.pend, hint, ?_, ?_, ?_⟩
    · refine ⟨by rw [e1, hs1]; simp [shapeOk, kind, shapeK], by simp [e4], by rw [e1, hs1]; simp [curOf]⟩
    · refine Disp_fresh _ _ a1 rt1 (by rw [e1, hs1]) hnd ?_
      intro f hf hlt
      have := hgood f hf hlt
      unfold Good at this ⊢
      rw [e2]; exact this
    · intro f hf hr
      rw [e2] at hr ⊢
      exact hbook f hf hr
  | eintr =>
    have heq : afterWait s abs km .eintr = waitEnd (waitStart s, [], waitRt0 (waitStart s) abs, false) km := rfl
    rw [heq] at hint ⊢
    obtain ⟨e1, e2, e3, e4, e5⟩ := waitEnd_sum (waitStart s) [] (waitRt0 (waitStart s) abs) false km
    have hs1 : (waitStart s).stack = [] := hst
    rw [e5]
    refine no_out _ _ ⟨hinv.pend, hint, ?_, ?_, ?_⟩
    · refine ⟨by rw [e1, hs1]; simp [shapeOk, kind, shapeK], by simp [e4], by rw [e1, hs1]; simp [curOf]⟩
    · exact Disp_fresh _ _ [] _ (by rw [e1, hs1]) List.nodup_nil (fun f hf => by cases hf)
    · intro f hf hr
      rw [e2] at hr ⊢
      exact hinv.book f hf hr
  | enosys =>
    cases hres : afterWait s abs km .enosys with
    | mk s' outs =>
      rw [hres] at hint
      simp only [afterWait, goto, fatal] at hres
      repeat' split at hres
      all_goals
        simp only [Prod.mk.injEq] at hres
        obtain ⟨rfl, rfl⟩ := hres
      all_goals first
        | exact dead_out { μ with reported := [], called := [] } hd _ _ (Or.inl ⟨_, rfl⟩)
        | exact no_out { μ with reported := [], called := [] } _ ⟨hinv.pend, hint, Shape_nil hst, Disp_nil _ _ _ hst, hinv.book⟩

/-! ## the other inputs -/

def plainInput : Input → Bool
  | .api _ | .wret _ => false
  | _ => true

theorem mon_inp_plain (μ : M) (hd : μ.dead = false) (i : Input) (hi : plainInput i = true) :
    C03.step μ (.inp i) = .ok μ := by
  unfold C03.step
  rw [if_neg (by simp [hd])]
  cases i <;> simp [plainInput] at hi <;> rfl

theorem plain_step (μ : M) (hd : μ.dead = false) (i : Input) (hi : plainInput i = true) (s' : St) (outs : List Out)
    (h : ∃ μ', List.foldlM C03.step μ (outs.map Ev.out) = .ok μ' ∧ R μ' s') :
    ∃ μ', List.foldlM C03.step μ (Ev.inp i :: outs.map Ev.out) = .ok μ' ∧ R μ' s' := by
  rw [fold_cons_ok (mon_inp_plain μ hd i hi)]
  exact h

theorem init_inv (μ : M) (s : St) (f : FdId) (hinv : Inv μ s) (hlt : f < 1000) (hun : (s.fds f).registered = false)
    (hpc : s.pc = .user) (hint : IntInv { s with fds := upd s.fds f { live := true } }) :
    Inv μ { s with fds := upd s.fds f { live := true } } := by
  have hno : ∀ c, curOf s.stack ≠ some (c, 0) := fun c hc => by
    have := (hinv.shape.st0 c hc).1; rw [hpc] at this; cases this
  refine ⟨hinv.pend, hint, ⟨hinv.shape.ok, by simp [hpc, loopPc], fun c hc => absurd hc (hno c)⟩, ?_, ?_⟩
  · refine Disp_sub hinv.disp hinv.disp.nodup (fun g hg => hg) rfl (Or.inl rfl) ?_
    intro g hg _ hgood
    by_cases hgf : g = f
    · subst hgf; rw [hgood.1] at hun; cases hun
    · exact Good_core (coreEq_upd_other s.fds f g _ hgf) hgood
  · intro g hg hr
    by_cases hgf : g = f
    · subst hgf; simp [upd] at hr
    · simp only [upd, hgf, if_false] at hr ⊢
      exact hinv.book g hg hr

theorem input_step (μ : M) (s : St) (i : Input) (s' : St) (outs : List Out) (hR : R μ s)
    (henv : envOk s i = true) (hi : input s i = some (s', outs)) :
    ∃ μ', List.foldlM C03.step μ (Ev.inp i :: outs.map Ev.out) = .ok μ' ∧ R μ' s' := by
  by_cases hdead : μ.dead = true
  · exact ⟨μ, foldlM_dead μ hdead _, Or.inl hdead⟩
  have hd : μ.dead = false := by simpa using hdead
  have hinv : Inv μ s := hR.resolve_left hdead
  have hint := input_IntInv s i s' outs hinv.int henv hi
  have hno : s.pc ≠ .run .fdStage → ∀ c, curOf s.stack ≠ some (c, 0) := fun hne c hc =>
    hne (hinv.shape.st0 c hc).1
  unfold input at hi
  split at hi
  · next a hpc =>
    simp only [Option.some.injEq] at hi
    have hok : apiOk s a = true := by simp [envOk] at henv; exact henv.1
    have := api_step μ s a hinv hd hpc hok
    rw [hi] at this
    exact this
  · next hpc =>
    have hno' := hno (by rw [hpc]; simp)
    split at hi
    all_goals first
      | (simp only [goto, Option.some.injEq, Prod.mk.injEq] at hi
         obtain ⟨rfl, rfl⟩ := hi
         exact plain_step μ hd _ rfl _ _ (no_out μ _ (Inv_internal hinv hint
           ⟨hinv.shape.ok, by simp [loopPc], fun c hc => absurd hc (hno' c)⟩ rfl rfl rfl (fun g => coreEq.rfl' _))))
      | cases hi
  · next k id hpc =>
    have hno' := hno (by rw [hpc]; simp)
    simp only [Option.some.injEq, Prod.mk.injEq] at hi
    obtain ⟨rfl, rfl⟩ := hi
    refine plain_step μ hd _ rfl _ _ (no_out μ _ (Inv_internal hinv hint ?_ ?_ ?_ ?_ ?_))
    · exact ⟨by simp only [freeObj]; split <;> exact hinv.shape.ok,
        by rw [show (freeObj s k id).pc = s.pc by simp only [freeObj]; split <;> rfl, hpc]; simp [loopPc],
        fun c hc => absurd (by simp only [freeObj] at hc; split at hc <;> exact hc) (hno' c)⟩
    · simp only [freeObj]; split <;> rfl
    · simp only [freeObj]; split <;> rfl
    · simp only [freeObj]; split <;> rfl
    · intro g
      simp only [freeObj]
      split
      · simp only [upd]; split
        · next he => subst he; simp [coreEq]
        · exact coreEq.rfl' _
      all_goals exact coreEq.rfl' _
  · next k id hpc =>
    have hno' := hno (by rw [hpc]; simp)
    simp only [Option.some.injEq, Prod.mk.injEq] at hi
    obtain ⟨rfl, rfl⟩ := hi
    refine plain_step μ hd _ rfl _ _ (no_out μ _ ?_)
    cases k with
    | zero =>
      simp [envOk, unregisteredObj] at henv
      exact init_inv μ s id hinv henv.1 henv.2 hpc hint
    | succ k' =>
      refine Inv_internal hinv hint ?_ ?_ ?_ ?_ ?_
      · exact ⟨by simp only [initObj]; split <;> exact hinv.shape.ok,
          by rw [show (initObj s (k' + 1) id).pc = s.pc by simp only [initObj]; split <;> rfl, hpc]; simp [loopPc],
          fun c hc => absurd (by simp only [initObj] at hc; split at hc <;> exact hc) (hno' c)⟩
      · simp only [initObj]; split <;> rfl
      · simp only [initObj]; split <;> rfl
      · simp only [initObj]; split <;> rfl
      · intro g
        simp only [initObj]
        split
        · next hk => cases hk
        all_goals exact coreEq.rfl' _
  · next k t hpc =>
    have hno' := hno (by rw [hpc]; simp)
    simp only [Option.some.injEq] at hi
    simp only [afterTime, goto] at hi
    refine plain_step μ hd _ rfl _ _ ?_
    cases k with
    | forTimers =>
      have hst : s.stack = [] := hinv.shape.loop (by rw [hpc]; rfl)
      simp only [Prod.mk.injEq] at hi
      obtain ⟨rfl, rfl⟩ := hi
      exact no_out μ _ (Inv_internal hinv hint (Shape_nil hst) rfl rfl rfl (fun g => coreEq.rfl' _))
    | forWait abs km =>
      have hst : s.stack = [] := hinv.shape.loop (by rw [hpc]; rfl)
      simp only [Prod.mk.injEq] at hi
      obtain ⟨rfl, rfl⟩ := hi
      exact no_out μ _ (Inv_internal hinv hint (Shape_nil hst) rfl rfl rfl (fun g => coreEq.rfl' _))
    | forValidate =>
      simp only [Prod.mk.injEq] at hi
      obtain ⟨rfl, rfl⟩ := hi
      exact no_out μ _ (Inv_internal hinv hint
        ⟨hinv.shape.ok, by simp [loopPc], fun c hc => absurd hc (hno' c)⟩ rfl rfl rfl (fun g => coreEq.rfl' _))
  · next abs km r hpc =>
    simp only [Option.some.injEq] at hi
    have := wret_step μ s abs km r hinv hd hpc (by simpa [envOk] using henv)
    rw [hi] at this
    exact this
  · next abs km e hpc =>
    have hst : s.stack = [] := hinv.shape.loop (by rw [hpc]; rfl)
    refine plain_step μ hd _ rfl _ _ ?_
    repeat' split at hi
    all_goals
      simp only [Option.some.injEq, Prod.mk.injEq] at hi
      obtain ⟨rfl, rfl⟩ := hi
      first
        | exact no_out μ _ hinv
        | (split <;> exact no_out μ _ (Inv_internal hinv (IntInv_congr hinv.int rfl rfl rfl rfl rfl)
            (Shape_nil hst) rfl rfl rfl (fun g => coreEq.rfl' _)))
  · next r okk hpc =>
    have hno' := hno (by rw [hpc]; simp)
    refine plain_step μ hd _ rfl _ _ ?_
    repeat' split at hi
    all_goals
      simp only [goto, Option.some.injEq, Prod.mk.injEq] at hi
      obtain ⟨rfl, rfl⟩ := hi
      first
        | exact dead_out μ hd _ _ (Or.inr ⟨_, rfl⟩)
        | exact no_out μ _ (Inv_internal hinv hint
            ⟨hinv.shape.ok, by simp [loopPc], fun c hc => absurd hc (hno' c)⟩ rfl rfl rfl (fun g => coreEq.rfl' _))
        | exact neutral_out μ hd _ _ rfl (Inv_internal hinv hint
            ⟨hinv.shape.ok, by simp [loopPc], fun c hc => absurd hc (hno' c)⟩ rfl rfl rfl (fun g => coreEq.rfl' _))
  · cases hi

/-! ## the theorem -/

theorem internal_step (μ : M) (s : St) (b : Block) (s' : St) (outs : List Out) (hR : R μ s)
    (hpc : s.pc = .run b) (hres : internal s b = (s', outs)) :
    ∃ μ', List.foldlM C03.step μ (outs.map Ev.out) = .ok μ' ∧ R μ' s' := by
  by_cases hdead : μ.dead = true
  · exact ⟨μ, foldlM_dead μ hdead _, Or.inl hdead⟩
  · exact internal_step_simple μ s b s' outs (hR.resolve_left hdead) (by simpa using hdead) hpc hres

theorem R_init (m : Method) (ntimers : Nat) (timerfdAvail pwait2 : Bool) :
    R {} (St.init m ntimers timerfdAvail pwait2) := by
  refine Or.inr ⟨rfl, ⟨fun _ => ⟨List.nodup_nil, ?_, ?_⟩, fun _ => ⟨?_, ?_, ?_⟩⟩, Shape_nil rfl, Disp_nil _ _ _ rfl, ?_⟩
  · intro f _ _ _; exact ⟨by simp [St.init], rfl⟩
  · intro f _ _; rfl
  · intro g i hi; simp [St.init] at hi
  · intro f j b _ hj; simp [St.init] at hj
  · intro f _ _; rfl
  · intro f _ hr; simp [St.init] at hr

theorem exec_accepts {s : St} {evs : List Ev} {s' : St} (h : Exec s evs s') :
    ∀ μ, R μ s → ∃ μ', List.foldlM C03.step μ evs = .ok μ' ∧ R μ' s' := by
  induction h with
  | nil s => intro μ hR; exact ⟨μ, rfl, hR⟩
  | internal hpc hint _ ih =>
    intro μ hR
    obtain ⟨μ1, h1, hR1⟩ := internal_step μ _ _ _ _ hR hpc hint
    obtain ⟨μ2, h2, hR2⟩ := ih μ1 hR1
    refine ⟨μ2, ?_, hR2⟩
    rw [List.foldlM_append, h1]
    exact h2
  | input henv hinp _ ih =>
    intro μ hR
    obtain ⟨μ1, h1, hR1⟩ := input_step μ _ _ _ _ hR henv hinp
    obtain ⟨μ2, h2, hR2⟩ := ih μ1 hR1
    refine ⟨μ2, ?_, hR2⟩
    rw [← List.cons_append, List.foldlM_append, h1]
    exact h2

theorem monitor_accepts (m : Method) (ntimers : Nat) (timerfdAvail pwait2 : Bool)
    (evs : List Ev) (s' : St) (h : Exec (St.init m ntimers timerfdAvail pwait2) evs s') :
    Ivy.Mon.C03.verdict evs = none := by
  obtain ⟨μ', h1, _⟩ := exec_accepts h {} (R_init m ntimers timerfdAvail pwait2)
  simp only [verdict, runMon, h1]


/-! ## non-vacuity -/

/-- register fd 1 with in and out handlers, run the loop, the kernel reports IN|OUT, both handlers
run, the out handler unregisters, the loop ends -/
def exInputs : List Input :=
  [ .api (.fdRegister 1 true true false), .api .main,
    .wret (.events [.fd 1 { kin := true, kout := true }]),
    .handlerEnd, .api (.fdUnregister 1), .handlerEnd ]

/-- same, but the in handler unregisters and re-registers fd 1: the out handler must not run -/
def exInputs2 : List Input :=
  [ .api (.fdRegister 1 true true false), .api .main,
    .wret (.events [.fd 1 { kin := true, kout := true }]),
    .api (.fdUnregister 1), .api (.fdRegister 1 true true false), .handlerEnd,
    .wret .eintr ]

def isWait : Ev → Bool | .out (.wait ..) => true | _ => false
def isFdCb (f : FdId) (b : Nat) : Ev → Bool | .out (.cb (.fd g c)) => g == f && c == b | _ => false
def isMainRet : Ev → Bool | .out .mainRet => true | _ => false

example :
    let tr := (runTrace 100 (St.init .epoll 0 true true) exInputs).1
    Exec (St.init .epoll 0 true true) tr (runTrace 100 (St.init .epoll 0 true true) exInputs).2 ∧
    tr.any isWait = true ∧ tr.any (isFdCb 1 1) = true ∧ tr.any (isFdCb 1 2) = true ∧ tr.any isMainRet = true ∧
    tr.length = 12 ∧ verdict tr = none :=
  ⟨runTrace_exec _ _ _, by decide, by decide, by decide, by decide, by decide,
    monitor_accepts .epoll 0 true true _ _ (runTrace_exec _ _ _)⟩

example :
    let tr := (runTrace 100 (St.init .poll 0 true true) exInputs2).1
    Exec (St.init .poll 0 true true) tr (runTrace 100 (St.init .poll 0 true true) exInputs2).2 ∧
    (tr.filter isWait).length = 3 ∧ tr.any (isFdCb 1 1) = true ∧ tr.any (isFdCb 1 2) = false ∧
    tr.length = 14 ∧ verdict tr = none :=
  ⟨runTrace_exec _ _ _, by decide, by decide, by decide, by decide,
    monitor_accepts .poll 0 true true _ _ (runTrace_exec _ _ _)⟩

end Ivy.L1.ProofsC03
