import Ivy.L1.ProofsC02
/-!
# Machine invariants of every reachable L1 state

Re-uses the invariant `Good` of `Ivy.L1.ProofsC02`.  That proof lets the monitor state go "dead" on an
`iv_fatal` / fault record; here the escape hatch is closed: a step that emits `Out.fatal`/`Out.fault` only
sets `pc := .dead` (`internal_dead`, `input_dead`), which keeps `Good` for the *old* monitor state
(`good_kill`), and a step that emits neither cannot kill the monitor (`step_dead`, `fold_keeps`).  Hence
`∃ μ, Good μ s'` for every reachable `s'` (`reach_init`), with no side condition on the trace, and the
pollfd-array / epoll-mirror facts below follow for every reachable state.
-/
namespace Ivy.L1.ProofsReach
open Ivy.L1 Ivy.Mon Ivy.Mon.C02 Ivy.L1.ProofsC02
open Ivy.Heap (TS)

set_option linter.unusedSimpArgs false

def isBad : Out → Bool
  | .fatal _ => true
  | .fault _ => true
  | _ => false

theorem internal_dead (s : St) (b : Block) (h : (internal s b).2.any isBad = true) :
    (internal s b).1 = { s with pc := .dead } := by
  revert h
  cases b <;> simp only [internal, goto, Ivy.L1.fatal, setTop]
  all_goals (repeat' split)
  all_goals simp [isBad]


theorem api_dead (s : St) (a : Api) (h : (api s a).2.any isBad = true) :
    (api s a).1 = { s with pc := .dead } := by
  revert h
  cases a <;> simp only [api, ok, Ivy.L1.fatal]
  all_goals (repeat' split)
  all_goals simp [isBad]

theorem afterWait_dead (s : St) (abs : Option TS) (km : Bool) (r : WRes)
    (h : (afterWait s abs km r).2.any isBad = true) :
    (afterWait s abs km r).1 = { s with pc := .dead } := by
  revert h
  cases r with
  | events l =>
    rw [afterWait_events]
    simp only [goto]
    generalize List.foldl wfold _ l = r
    by_cases hr : r.2.2.2 = true <;> simp [hr]
  | eintr => simp [afterWait, goto]
  | enosys =>
    simp only [afterWait, goto, Ivy.L1.fatal]
    repeat' split
    all_goals simp [isBad]

theorem input_dead (s : St) (i : Input) (s' : St) (outs : List Out) (h : input s i = some (s', outs))
    (hb : outs.any isBad = true) : s' = { s with pc := .dead } := by
  cases i with
  | api a =>
    cases hpc : s.pc <;> simp only [input, hpc, reduceCtorEq, Option.some.injEq] at h
    have := api_dead s a (by rw [h]; exact hb)
    rw [h] at this; exact this
  | wret r =>
    cases hpc : s.pc <;> simp only [input, hpc, reduceCtorEq, Option.some.injEq] at h
    next abs km =>
    have := afterWait_dead s abs km r (by rw [h]; exact hb)
    rw [h] at this; exact this
  | handlerEnd =>
    cases hpc : s.pc <;> simp only [input, hpc, reduceCtorEq] at h
    split at h <;> simp only [goto, Option.some.injEq, Prod.mk.injEq, reduceCtorEq] at h
    all_goals (obtain ⟨rfl, rfl⟩ := h; simp [isBad] at hb)
  | time t =>
    cases hpc : s.pc <;> simp only [input, hpc, reduceCtorEq, Option.some.injEq] at h
    next k =>
    cases k <;> simp only [afterTime, goto, Prod.mk.injEq] at h <;> (obtain ⟨rfl, rfl⟩ := h; simp [isBad] at hb)
  | rawRead k =>
    cases hpc : s.pc <;> simp only [input, hpc, reduceCtorEq] at h
    repeat' split at h
    all_goals simp only [goto, Option.some.injEq, Prod.mk.injEq] at h
    all_goals (obtain ⟨rfl, rfl⟩ := h; first | rfl | simp [isBad] at hb)
  | xpost e =>
    cases hpc : s.pc <;> simp only [input, hpc, reduceCtorEq] at h
    split at h <;> simp only [Option.some.injEq, Prod.mk.injEq] at h <;> (obtain ⟨rfl, rfl⟩ := h; simp [isBad] at hb)
  | free k id =>
    cases hpc : s.pc <;> simp only [input, hpc, reduceCtorEq, Option.some.injEq, Prod.mk.injEq] at h
    obtain ⟨rfl, rfl⟩ := h; simp [isBad] at hb
  | init k id =>
    cases hpc : s.pc <;> simp only [input, hpc, reduceCtorEq, Option.some.injEq, Prod.mk.injEq] at h
    obtain ⟨rfl, rfl⟩ := h; simp [isBad] at hb


theorem step_dead {μ μ' : M} {e : Ev} (h : C02.step μ e = .ok μ')
    (he : ∀ o, e = .out o → isBad o = false) : μ'.dead = μ.dead := by
  cases hd : μ.dead with
  | true =>
    have : C02.step μ e = .ok μ := by simp [C02.step, hd]
    rw [this] at h
    cases h; exact hd
  | false =>
    rw [← hd]
    unfold C02.step at h
    simp only [hd, Bool.false_eq_true, if_false] at h
    repeat' split at h
    all_goals first
      | (cases h; first | rfl | exact hd.symm)
      | (simp at h; done)
      | (exfalso; simp [isBad] at he; done)
      | skip


theorem fold_keeps (evs : List Ev) : ∀ (μ μ' : M), evs.foldlM C02.step μ = .ok μ' →
    (∀ o, Ev.out o ∈ evs → isBad o = false) → μ'.dead = μ.dead := by
  induction evs with
  | nil => intro μ μ' h _; cases h; rfl
  | cons e r ih =>
    intro μ μ' h hb
    rw [List.foldlM_cons] at h
    cases hs : C02.step μ e with
    | error x => rw [hs] at h; cases h
    | ok μ1 =>
      rw [hs] at h
      have h1 := step_dead hs (fun o ho => hb o (by rw [ho]; simp))
      have h2 := ih μ1 μ' h (fun o ho => hb o (by simp [ho]))
      rw [h2, h1]

/-- moving to the dead state keeps the invariant (all fields but `pc` are untouched) -/
theorem good_kill {μ : M} {s : St} (hG : Good μ s) : Good μ { s with pc := .dead } :=
  hG.ctl rfl rfl rfl rfl rfl rfl rfl rfl (by simp [shapeOk]) (by simp [pcFlushed]) (fun _ hp => hp.cov)

theorem good_of_res {μ : M} {s' : St} {evs : List Ev} (hd : μ.dead = false) (hr : Res μ evs s')
    (hb : ∀ o, Ev.out o ∈ evs → isBad o = false) : ∃ μ', Good μ' s' := by
  obtain ⟨μ', h1, h2⟩ := hr
  have := fold_keeps evs μ μ' h1 hb
  rcases h2 with h | h
  · rw [this, hd] at h; cases h
  · exact ⟨μ', h⟩

/-- the machine invariant holds in every state reachable from a state where it holds
(including the `dead` states entered by `iv_fatal` / a detected memory fault) -/
theorem reach {s s' : St} {evs : List Ev} (h : Exec s evs s') : (∃ μ, Good μ s) → ∃ μ, Good μ s' := by
  induction h with
  | nil s => exact id
  | @internal s s1 s2 b outs evs hpc hi _ ih =>
    rintro ⟨μ, hG⟩
    apply ih
    cases hbad : outs.any isBad with
    | true =>
      have := internal_dead s b (by rw [hi]; exact hbad)
      rw [hi] at this
      simp only at this
      exact ⟨μ, by rw [this]; exact good_kill hG⟩
    | false =>
      have hr := internal_ok hG b hpc
      rw [hi] at hr
      refine good_of_res hG.ndead hr (fun o ho => ?_)
      simp only [List.mem_map, Ev.out.injEq, exists_eq_right] at ho
      have := List.any_eq_false.1 hbad o ho
      simpa using this
  | @input s s1 s2 i outs evs henv hi _ ih =>
    rintro ⟨μ, hG⟩
    apply ih
    cases hbad : outs.any isBad with
    | true =>
      have := input_dead s i s1 outs hi hbad
      exact ⟨μ, by rw [this]; exact good_kill hG⟩
    | false =>
      have hr := input_ok hG i henv hi
      refine good_of_res hG.ndead hr (fun o ho => ?_)
      simp only [List.mem_cons, reduceCtorEq, List.mem_map, Ev.out.injEq, exists_eq_right, false_or] at ho
      have := List.any_eq_false.1 hbad o ho
      simpa using this

theorem reach_init (m : Method) (ntimers : Nat) (timerfdAvail pwait2 : Bool) (evs : List Ev) (s' : St)
    (h : Exec (St.init m ntimers timerfdAvail pwait2) evs s') : ∃ μ, Good μ s' :=
  reach h ⟨{}, good_init m ntimers timerfdAvail pwait2⟩


/-! ## exported facts about every reachable state -/

/-- (1) C18 `no_oob`: under the poll methods every stored index points at the descriptor's own slot of
the pollfd array -/
theorem poll_index_in_bounds (m : Method) (ntimers : Nat) (timerfdAvail pwait2 : Bool) (evs : List Ev) (s' : St)
    (h : Exec (St.init m ntimers timerfdAvail pwait2) evs s') (hP : s'.method.isEpoll = false) :
    ∀ f i, (s'.fds f).index = some i → i < s'.pfds.length ∧ ∃ b, s'.pfds[i]? = some (f, b) := by
  obtain ⟨μ, hG⟩ := reach_init m ntimers timerfdAvail pwait2 evs s' h
  have hI := hG.finP hP
  intro f i hi
  have := hI.idx f i hi
  refine ⟨?_, _, this⟩
  rcases Nat.lt_or_ge i s'.pfds.length with h | h
  · exact h
  · rw [List.getElem?_eq_none h] at this; cases this

/-- (2) the pollfd array has no duplicate descriptors, and each entry belongs to a registered descriptor
whose stored index is the entry's position (and whose requested bands are the entry's bands) -/
theorem poll_array_dense (m : Method) (ntimers : Nat) (timerfdAvail pwait2 : Bool) (evs : List Ev) (s' : St)
    (h : Exec (St.init m ntimers timerfdAvail pwait2) evs s') (hP : s'.method.isEpoll = false) :
    (s'.pfds.map (·.1)).Nodup ∧
    ∀ i f b, s'.pfds[i]? = some (f, b) →
      (s'.fds f).registered = true ∧ (s'.fds f).index = some i ∧ b = (s'.fds f).wanted := by
  obtain ⟨μ, hG⟩ := reach_init m ntimers timerfdAvail pwait2 evs s' h
  have hI := hG.finP hP
  refine ⟨(interest_P hI).2.2, fun i f b hb => ?_⟩
  have hidx := hI.back i f b hb
  have hw := hI.idx f i hidx
  rw [hb] at hw
  refine ⟨?_, hidx, ?_⟩
  · cases hr : (s'.fds f).registered with
    | true => rfl
    | false => rw [hI.unreg f hr] at hidx; cases hidx
  · simp only [Option.some.injEq, Prod.mk.injEq, true_and] at hw; exact hw

/-- (3) epoll methods: the kernel interest set only contains registered descriptors (no stale kernel
registration survives `iv_fd_unregister`: the synchronous `EPOLL_CTL_DEL`) -/
theorem kernel_interest_registered (m : Method) (ntimers : Nat) (timerfdAvail pwait2 : Bool) (evs : List Ev) (s' : St)
    (h : Exec (St.init m ntimers timerfdAvail pwait2) evs s') (hE : s'.method.isEpoll = true) :
    ∀ f, (s'.kint f).isSome = true → (s'.fds f).registered = true := by
  obtain ⟨μ, hG⟩ := reach_init m ntimers timerfdAvail pwait2 evs s' h
  have hI := hG.finE hE
  intro f hk
  cases hr : (s'.fds f).registered with
  | true => rfl
  | false =>
    rw [hI.kint f, (hI.unreg f hr).2] at hk
    simp [Bands.isZero] at hk

/-- (4) epoll methods: a registered descriptor is queued on the notify list exactly when the bands last
told to the kernel differ from the wanted bands -/
theorem notify_consistent (m : Method) (ntimers : Nat) (timerfdAvail pwait2 : Bool) (evs : List Ev) (s' : St)
    (h : Exec (St.init m ntimers timerfdAvail pwait2) evs s') (hE : s'.method.isEpoll = true) :
    ∀ f, (s'.fds f).registered = true → (f ∈ s'.notify ↔ (s'.fds f).regBands ≠ (s'.fds f).wanted) := by
  obtain ⟨μ, hG⟩ := reach_init m ntimers timerfdAvail pwait2 evs s' h
  exact (hG.finE hE).mem

/-- the kernel mirror is a function of the bands last told to the kernel -/
theorem kernel_interest_eq (m : Method) (ntimers : Nat) (timerfdAvail pwait2 : Bool) (evs : List Ev) (s' : St)
    (h : Exec (St.init m ntimers timerfdAvail pwait2) evs s') (hE : s'.method.isEpoll = true) :
    ∀ f, s'.kint f = if (s'.fds f).regBands.isZero then none else some (epollMask (s'.fds f).regBands) := by
  obtain ⟨μ, hG⟩ := reach_init m ntimers timerfdAvail pwait2 evs s' h
  exact (hG.finE hE).kint

/-! ## non-vacuity -/

/-- three registrations and an unregister of the first: swap-with-last moves descriptor 7 to slot 0 -/
def demoPoll : List Input :=
  [.api (.fdRegister 3 true false false), .api (.fdRegister 5 false true false),
   .api (.fdRegister 7 true true false), .api (.fdUnregister 3)]

example :
    let s' := (runTrace 20 (St.init .poll 0 true true) demoPoll).2
    s'.method.isEpoll = false ∧ s'.pfds.length = 2 ∧ (s'.fds 7).index = some 0 ∧ (s'.fds 5).index = some 1 ∧
    (s'.fds 3).index = none ∧
    (∀ f i, (s'.fds f).index = some i → i < s'.pfds.length ∧ ∃ b, s'.pfds[i]? = some (f, b)) := by
  refine ⟨by decide, by decide, by decide, by decide, by decide, ?_⟩
  exact poll_index_in_bounds .poll 0 true true _ _ (runTrace_exec 20 _ demoPoll) (by decide)

/-- epoll: after the flush before the first wait the kernel watches descriptor 3; after the unregister
inside the handler it no longer does -/
def demoEpoll1 : List Input := [.api (.fdRegister 3 true false false), .api .main]
def demoEpoll2 : List Input :=
  demoEpoll1 ++ [.wret (.events [.fd 3 ⟨true, false, false, false⟩]), .api (.fdUnregister 3)]

example :
    let s1 := (runTrace 20 (St.init .epoll 0 true true) demoEpoll1).2
    let s2 := (runTrace 20 (St.init .epoll 0 true true) demoEpoll2).2
    (s1.kint 3).isSome = true ∧ (s1.fds 3).registered = true ∧ s1.notify = [] ∧
    (s2.kint 3).isSome = false ∧ (s2.fds 3).registered = false ∧
    (∀ f, (s2.kint f).isSome = true → (s2.fds f).registered = true) := by
  refine ⟨by decide, by decide, by decide, by decide, by decide, ?_⟩
  exact kernel_interest_registered .epoll 0 true true _ _ (runTrace_exec 20 _ demoEpoll2) (by decide)

end Ivy.L1.ProofsReach
