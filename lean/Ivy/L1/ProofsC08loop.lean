import Ivy.L1.ProofsC06
import Ivy.L1.ProofsReach
import Ivy.Mon.C08
/-!
# C08 (owner's side) — proof that every trace of the L1 machine is accepted by the monitor `Ivy.Mon.C08`

Re-uses the state invariants of `ProofsC06` (`InvA`: shape of the task frames, `InvC`: the clock and the
zero-timeout / kernel-timer handshake when a task is pending) and the reachability invariant `Good` of
`ProofsC02` (through `ProofsReach.reach`: frame-stack shape, the pollfd table, the event counter).
-/
namespace Ivy.L1.ProofsC08loop
open Ivy.L1 Ivy.Heap Ivy.L1.ProofsC06

set_option linter.unusedSimpArgs false
set_option linter.unusedVariables false

/-! ## frame lemmas: helper functions of the machine leave the event-related fields alone -/

local macro "frame_tac " g:ident : tactic =>
  `(tactic| (unfold $g; try dsimp only; (repeat' split) <;> simp_all))

@[simp] theorem epollNotify_pending (s : St) (f : FdId) : (epollNotify s f).pending = s.pending := by rfl
@[simp] theorem epollNotify_kickArmed (s : St) (f : FdId) : (epollNotify s f).kickArmed = s.kickArmed := by rfl
@[simp] theorem epollNotify_kickReg (s : St) (f : FdId) : (epollNotify s f).kickReg = s.kickReg := by rfl
@[simp] theorem epollNotify_useRaw (s : St) (f : FdId) : (epollNotify s f).useRaw = s.useRaw := by rfl
@[simp] theorem epollNotify_eventCount (s : St) (f : FdId) : (epollNotify s f).eventCount = s.eventCount := by rfl
@[simp] theorem epollNotify_evs (s : St) (f : FdId) : (epollNotify s f).evs = s.evs := by rfl
@[simp] theorem epollNotify_raws (s : St) (f : FdId) : (epollNotify s f).raws = s.raws := by rfl
@[simp] theorem epollFlushOne_pending (s : St) (f : FdId) : (epollFlushOne s f).pending = s.pending := by frame_tac epollFlushOne
@[simp] theorem epollFlushOne_kickArmed (s : St) (f : FdId) : (epollFlushOne s f).kickArmed = s.kickArmed := by frame_tac epollFlushOne
@[simp] theorem epollFlushOne_kickReg (s : St) (f : FdId) : (epollFlushOne s f).kickReg = s.kickReg := by frame_tac epollFlushOne
@[simp] theorem epollFlushOne_useRaw (s : St) (f : FdId) : (epollFlushOne s f).useRaw = s.useRaw := by frame_tac epollFlushOne
@[simp] theorem epollFlushOne_eventCount (s : St) (f : FdId) : (epollFlushOne s f).eventCount = s.eventCount := by frame_tac epollFlushOne
@[simp] theorem epollFlushOne_evs (s : St) (f : FdId) : (epollFlushOne s f).evs = s.evs := by frame_tac epollFlushOne
@[simp] theorem epollFlushOne_raws (s : St) (f : FdId) : (epollFlushOne s f).raws = s.raws := by frame_tac epollFlushOne
@[simp] theorem pollNotify_pending (s : St) (f : FdId) : (pollNotify s f).pending = s.pending := by frame_tac pollNotify
@[simp] theorem pollNotify_kickArmed (s : St) (f : FdId) : (pollNotify s f).kickArmed = s.kickArmed := by frame_tac pollNotify
@[simp] theorem pollNotify_kickReg (s : St) (f : FdId) : (pollNotify s f).kickReg = s.kickReg := by frame_tac pollNotify
@[simp] theorem pollNotify_useRaw (s : St) (f : FdId) : (pollNotify s f).useRaw = s.useRaw := by frame_tac pollNotify
@[simp] theorem pollNotify_eventCount (s : St) (f : FdId) : (pollNotify s f).eventCount = s.eventCount := by frame_tac pollNotify
@[simp] theorem pollNotify_evs (s : St) (f : FdId) : (pollNotify s f).evs = s.evs := by frame_tac pollNotify
@[simp] theorem pollNotify_raws (s : St) (f : FdId) : (pollNotify s f).raws = s.raws := by frame_tac pollNotify
@[simp] theorem notifyFd_pending (s : St) (f : FdId) : (notifyFd s f).pending = s.pending := by frame_tac notifyFd
@[simp] theorem notifyFd_kickArmed (s : St) (f : FdId) : (notifyFd s f).kickArmed = s.kickArmed := by frame_tac notifyFd
@[simp] theorem notifyFd_kickReg (s : St) (f : FdId) : (notifyFd s f).kickReg = s.kickReg := by frame_tac notifyFd
@[simp] theorem notifyFd_useRaw (s : St) (f : FdId) : (notifyFd s f).useRaw = s.useRaw := by frame_tac notifyFd
@[simp] theorem notifyFd_eventCount (s : St) (f : FdId) : (notifyFd s f).eventCount = s.eventCount := by frame_tac notifyFd
@[simp] theorem notifyFd_evs (s : St) (f : FdId) : (notifyFd s f).evs = s.evs := by frame_tac notifyFd
@[simp] theorem notifyFd_raws (s : St) (f : FdId) : (notifyFd s f).raws = s.raws := by frame_tac notifyFd
@[simp] theorem fdRegisterCore_pending (s : St) (f : FdId) (a b c : Bool) : (fdRegisterCore s f a b c).pending = s.pending := by simp [fdRegisterCore]
@[simp] theorem fdRegisterCore_kickArmed (s : St) (f : FdId) (a b c : Bool) : (fdRegisterCore s f a b c).kickArmed = s.kickArmed := by simp [fdRegisterCore]
@[simp] theorem fdRegisterCore_kickReg (s : St) (f : FdId) (a b c : Bool) : (fdRegisterCore s f a b c).kickReg = s.kickReg := by simp [fdRegisterCore]
@[simp] theorem fdRegisterCore_useRaw (s : St) (f : FdId) (a b c : Bool) : (fdRegisterCore s f a b c).useRaw = s.useRaw := by simp [fdRegisterCore]
@[simp] theorem fdRegisterCore_eventCount (s : St) (f : FdId) (a b c : Bool) : (fdRegisterCore s f a b c).eventCount = s.eventCount := by simp [fdRegisterCore]
@[simp] theorem fdRegisterCore_evs (s : St) (f : FdId) (a b c : Bool) : (fdRegisterCore s f a b c).evs = s.evs := by simp [fdRegisterCore]
@[simp] theorem fdRegisterCore_raws (s : St) (f : FdId) (a b c : Bool) : (fdRegisterCore s f a b c).raws = s.raws := by simp [fdRegisterCore]
@[simp] theorem fdUnregisterCore_pending (s : St) (f : FdId) : (fdUnregisterCore s f).pending = s.pending := by frame_tac fdUnregisterCore
@[simp] theorem fdUnregisterCore_kickArmed (s : St) (f : FdId) : (fdUnregisterCore s f).kickArmed = s.kickArmed := by frame_tac fdUnregisterCore
@[simp] theorem fdUnregisterCore_kickReg (s : St) (f : FdId) : (fdUnregisterCore s f).kickReg = s.kickReg := by frame_tac fdUnregisterCore
@[simp] theorem fdUnregisterCore_useRaw (s : St) (f : FdId) : (fdUnregisterCore s f).useRaw = s.useRaw := by frame_tac fdUnregisterCore
@[simp] theorem fdUnregisterCore_eventCount (s : St) (f : FdId) : (fdUnregisterCore s f).eventCount = s.eventCount := by frame_tac fdUnregisterCore
@[simp] theorem fdUnregisterCore_evs (s : St) (f : FdId) : (fdUnregisterCore s f).evs = s.evs := by frame_tac fdUnregisterCore
@[simp] theorem fdUnregisterCore_raws (s : St) (f : FdId) : (fdUnregisterCore s f).raws = s.raws := by frame_tac fdUnregisterCore
@[simp] theorem rawRegisterCore_pending (s : St) (r : RawId) : (rawRegisterCore s r).pending = s.pending := by simp [rawRegisterCore]
@[simp] theorem rawRegisterCore_kickArmed (s : St) (r : RawId) : (rawRegisterCore s r).kickArmed = s.kickArmed := by simp [rawRegisterCore]
@[simp] theorem rawRegisterCore_kickReg (s : St) (r : RawId) : (rawRegisterCore s r).kickReg = s.kickReg := by simp [rawRegisterCore]
@[simp] theorem rawRegisterCore_useRaw (s : St) (r : RawId) : (rawRegisterCore s r).useRaw = s.useRaw := by simp [rawRegisterCore]
@[simp] theorem rawRegisterCore_eventCount (s : St) (r : RawId) : (rawRegisterCore s r).eventCount = s.eventCount := by simp [rawRegisterCore]
@[simp] theorem rawRegisterCore_evs (s : St) (r : RawId) : (rawRegisterCore s r).evs = s.evs := by simp [rawRegisterCore]
@[simp] theorem rawUnregisterCore_pending (s : St) (r : RawId) : (rawUnregisterCore s r).pending = s.pending := by simp [rawUnregisterCore]
@[simp] theorem rawUnregisterCore_kickArmed (s : St) (r : RawId) : (rawUnregisterCore s r).kickArmed = s.kickArmed := by simp [rawUnregisterCore]
@[simp] theorem rawUnregisterCore_kickReg (s : St) (r : RawId) : (rawUnregisterCore s r).kickReg = s.kickReg := by simp [rawUnregisterCore]
@[simp] theorem rawUnregisterCore_useRaw (s : St) (r : RawId) : (rawUnregisterCore s r).useRaw = s.useRaw := by simp [rawUnregisterCore]
@[simp] theorem rawUnregisterCore_eventCount (s : St) (r : RawId) : (rawUnregisterCore s r).eventCount = s.eventCount := by simp [rawUnregisterCore]
@[simp] theorem rawUnregisterCore_evs (s : St) (r : RawId) : (rawUnregisterCore s r).evs = s.evs := by simp [rawUnregisterCore]
@[simp] theorem makeReady_pending (s : St) (a : List FdId) (f : FdId) (b : Bands) : ((makeReady s a f b).1).pending = s.pending := by frame_tac makeReady
@[simp] theorem makeReady_kickArmed (s : St) (a : List FdId) (f : FdId) (b : Bands) : ((makeReady s a f b).1).kickArmed = s.kickArmed := by frame_tac makeReady
@[simp] theorem makeReady_kickReg (s : St) (a : List FdId) (f : FdId) (b : Bands) : ((makeReady s a f b).1).kickReg = s.kickReg := by frame_tac makeReady
@[simp] theorem makeReady_useRaw (s : St) (a : List FdId) (f : FdId) (b : Bands) : ((makeReady s a f b).1).useRaw = s.useRaw := by frame_tac makeReady
@[simp] theorem makeReady_eventCount (s : St) (a : List FdId) (f : FdId) (b : Bands) : ((makeReady s a f b).1).eventCount = s.eventCount := by frame_tac makeReady
@[simp] theorem makeReady_evs (s : St) (a : List FdId) (f : FdId) (b : Bands) : ((makeReady s a f b).1).evs = s.evs := by frame_tac makeReady
@[simp] theorem makeReady_raws (s : St) (a : List FdId) (f : FdId) (b : Bands) : ((makeReady s a f b).1).raws = s.raws := by frame_tac makeReady
@[simp] theorem activate_pending (s : St) (a : List FdId) (f : FdId) (ev : KEv) : ((activate s a f ev).1).pending = s.pending := by frame_tac activate
@[simp] theorem activate_kickArmed (s : St) (a : List FdId) (f : FdId) (ev : KEv) : ((activate s a f ev).1).kickArmed = s.kickArmed := by frame_tac activate
@[simp] theorem activate_kickReg (s : St) (a : List FdId) (f : FdId) (ev : KEv) : ((activate s a f ev).1).kickReg = s.kickReg := by frame_tac activate
@[simp] theorem activate_useRaw (s : St) (a : List FdId) (f : FdId) (ev : KEv) : ((activate s a f ev).1).useRaw = s.useRaw := by frame_tac activate
@[simp] theorem activate_eventCount (s : St) (a : List FdId) (f : FdId) (ev : KEv) : ((activate s a f ev).1).eventCount = s.eventCount := by frame_tac activate
@[simp] theorem activate_evs (s : St) (a : List FdId) (f : FdId) (ev : KEv) : ((activate s a f ev).1).evs = s.evs := by frame_tac activate
@[simp] theorem activate_raws (s : St) (a : List FdId) (f : FdId) (ev : KEv) : ((activate s a f ev).1).raws = s.raws := by frame_tac activate
@[simp] theorem flushAll_pending (s : St) (l : List FdId) : (l.foldl epollFlushOne s).pending = s.pending := by induction l generalizing s <;> simp_all
@[simp] theorem flushAll_kickArmed (s : St) (l : List FdId) : (l.foldl epollFlushOne s).kickArmed = s.kickArmed := by induction l generalizing s <;> simp_all
@[simp] theorem flushAll_kickReg (s : St) (l : List FdId) : (l.foldl epollFlushOne s).kickReg = s.kickReg := by induction l generalizing s <;> simp_all
@[simp] theorem flushAll_useRaw (s : St) (l : List FdId) : (l.foldl epollFlushOne s).useRaw = s.useRaw := by induction l generalizing s <;> simp_all
@[simp] theorem flushAll_eventCount (s : St) (l : List FdId) : (l.foldl epollFlushOne s).eventCount = s.eventCount := by induction l generalizing s <;> simp_all
@[simp] theorem flushAll_evs (s : St) (l : List FdId) : (l.foldl epollFlushOne s).evs = s.evs := by induction l generalizing s <;> simp_all
@[simp] theorem flushAll_raws (s : St) (l : List FdId) : (l.foldl epollFlushOne s).raws = s.raws := by induction l generalizing s <;> simp_all
@[simp] theorem timeoutCheck_pending (s : St) (abs : Option TS) : ((timeoutCheck s abs).1).pending = s.pending := by frame_tac timeoutCheck
@[simp] theorem timeoutCheck_kickArmed (s : St) (abs : Option TS) : ((timeoutCheck s abs).1).kickArmed = s.kickArmed := by frame_tac timeoutCheck
@[simp] theorem timeoutCheck_kickReg (s : St) (abs : Option TS) : ((timeoutCheck s abs).1).kickReg = s.kickReg := by frame_tac timeoutCheck
@[simp] theorem timeoutCheck_useRaw (s : St) (abs : Option TS) : ((timeoutCheck s abs).1).useRaw = s.useRaw := by frame_tac timeoutCheck
@[simp] theorem timeoutCheck_eventCount (s : St) (abs : Option TS) : ((timeoutCheck s abs).1).eventCount = s.eventCount := by frame_tac timeoutCheck
@[simp] theorem timeoutCheck_evs (s : St) (abs : Option TS) : ((timeoutCheck s abs).1).evs = s.evs := by frame_tac timeoutCheck
@[simp] theorem timeoutCheck_raws (s : St) (abs : Option TS) : ((timeoutCheck s abs).1).raws = s.raws := by frame_tac timeoutCheck

/-! ## the handler flag of a descriptor (only the one of the kick raw event matters) -/

theorem upd_apply {α : Type} (f : Nat → α) (k j : Nat) (v : α) : upd f k v j = if j = k then v else f j := rfl

theorem epollFlushOne_hin (s : St) (f g : FdId) : ((epollFlushOne s f).fds g).hin = (s.fds g).hin :=
  ((ProofsC02.epollFlushOne_V s f).fds g).2.1
theorem notifyFd_hin (s : St) (f g : FdId) : ((notifyFd s f).fds g).hin = (s.fds g).hin :=
  ((ProofsC02.notifyFd_V s f).fds g).2.1
theorem fdUnregisterCore_hin (s : St) (f g : FdId) : ((fdUnregisterCore s f).fds g).hin = (s.fds g).hin :=
  ((ProofsC02.fdUnregisterCore_V s f).2.2.2.2.2.2.2.2 g).2.1
theorem fdRegisterCore_hin_ne (s : St) (f : FdId) (a b c : Bool) (g : FdId) (h : g ≠ f) :
    ((fdRegisterCore s f a b c).fds g).hin = (s.fds g).hin :=
  ((ProofsC02.fdRegisterCore_at s f a b c).2.2.2.2.2.2.2.2.1 g h).2.1
theorem fdRegisterCore_hin_same (s : St) (f : FdId) (a b c : Bool) :
    ((fdRegisterCore s f a b c).fds f).hin = a :=
  (ProofsC02.fdRegisterCore_at s f a b c).2.2.2.2.2.2.2.2.2.2.1
theorem makeReady_hin (s : St) (a : List FdId) (f : FdId) (b : Bands) (g : FdId) :
    (((makeReady s a f b).1).fds g).hin = (s.fds g).hin := by
  unfold makeReady
  dsimp only
  split <;> (simp only [upd_apply]; split <;> simp_all)
theorem activate_hin (s : St) (a : List FdId) (f : FdId) (ev : KEv) (g : FdId) :
    (((activate s a f ev).1).fds g).hin = (s.fds g).hin := by
  unfold activate
  dsimp only
  (repeat' split) <;> simp [makeReady_hin]
theorem flushAll_hin (s : St) (l : List FdId) (g : FdId) : ((l.foldl epollFlushOne s).fds g).hin = (s.fds g).hin := by
  induction l generalizing s with
  | nil => rfl
  | cons f l ih => rw [List.foldl_cons, ih, epollFlushOne_hin]
@[simp] theorem timeoutCheck_fds (s : St) (abs : Option TS) : ((timeoutCheck s abs).1).fds = s.fds :=
  (ProofsC02.timeoutCheck_frame s abs).1.fds
@[simp] theorem timeoutCheck_pfds (s : St) (abs : Option TS) : ((timeoutCheck s abs).1).pfds = s.pfds :=
  (ProofsC02.timeoutCheck_frame s abs).1.pfds

/-! ## reachability facts imported from `ProofsC02` / `ProofsReach` -/

/-- the machine invariant `Good` of `ProofsC02` holds (for some state of that proof's monitor) -/
def Reach (s : St) : Prop := ∃ μ, ProofsC02.Good μ s

theorem reach_init (m : Method) (n : Nat) (a b : Bool) : Reach (St.init m n a b) :=
  ⟨{}, ProofsC02.good_init m n a b⟩

theorem reach_internal (s : St) (b : Block) (h : Reach s) (hpc : s.pc = .run b) : Reach (internal s b).1 :=
  ProofsReach.reach (Exec.internal hpc rfl (Exec.nil _)) h

theorem reach_input (s : St) (i : Input) (r : St × List Out) (h : Reach s) (henv : envOk s i = true)
    (hi : input s i = some r) : Reach r.1 :=
  ProofsReach.reach (Exec.input henv hi (Exec.nil _)) h

theorem reach_stack_nil {s : St} (h : Reach s) {abs : Option TS} {km : Bool} (hpc : s.pc = .run (.wait abs km)) :
    s.stack = [] := by
  obtain ⟨μ, hG⟩ := h
  have := hG.shape
  rw [hpc] at this
  simp only [ProofsC02.shapeOk, decide_eq_true_eq] at this
  exact ProofsC02.kinds_nil this

theorem reach_count_nonneg {s : St} (h : Reach s) : 0 ≤ s.eventCount := by
  obtain ⟨μ, hG⟩ := h
  obtain ⟨l, _, _, h3⟩ := hG.evcount
  omega

theorem reach_count_pos {s : St} (h : Reach s) {e : EvId} (he : (s.evs e).registered = true) : 1 ≤ s.eventCount := by
  obtain ⟨μ, hG⟩ := h
  obtain ⟨l, _, h2, h3⟩ := hG.evcount
  have := List.length_pos_of_mem ((h2 e).1 he)
  omega

theorem nodup_two {l : List Nat} (h : l.Nodup) {a b : Nat} (ha : a ∈ l) (hb : b ∈ l) (hab : a ≠ b) : 2 ≤ l.length := by
  match l, h with
  | [], _ => simp at ha
  | [x], _ => simp at ha hb; omega
  | _ :: _ :: _, _ => simp

theorem reach_count_two {s : St} (h : Reach s) {e x : EvId} (he : (s.evs e).registered = true)
    (hx : (s.evs x).registered = true) (hne : x ≠ e) : 2 ≤ s.eventCount := by
  obtain ⟨μ, hG⟩ := h
  obtain ⟨l, h1, h2, h3⟩ := hG.evcount
  have := nodup_two h1 ((h2 x).1 hx) ((h2 e).1 he) hne
  omega

/-- poll methods: the registered kick raw event sits in the pollfd array with the input band -/
theorem reach_kick_watched {s : St} (h : Reach s) (hP : s.method.isEpoll = false)
    (hr : (s.raws 0).registered = true) (hh : (s.fds (rawFd 0)).hin = true) :
    Ivy.Mon.C08.kickFdWatched s.pfds = true := by
  obtain ⟨μ, hG⟩ := h
  have hI := hG.finP hP
  have hreg : (s.fds (rawFd 0)).registered = true := by rw [hG.rawsync 0]; exact hr
  have hw := hI.want _ hreg
  have hnz : ¬ (s.fds (rawFd 0)).wanted.isZero = true := by
    rw [hw, hh]; simp [Bands.isZero]
  cases hidx : (s.fds (rawFd 0)).index with
  | none => exact absurd ((hI.zero _ hreg).1 hidx) hnz
  | some i =>
    have hm := List.mem_of_getElem? (hI.idx _ i hidx)
    unfold Ivy.Mon.C08.kickFdWatched
    rw [List.any_eq_true]
    exact ⟨_, hm, by simp [hw, hh]⟩

/-! ## the frame stack: the batch of events being delivered -/

def fev : Frame → List EvId
  | .events b => b | _ => []

/-- the events of the batch being run by `__iv_event_run_pending_events` -/
def evb : List Frame → List EvId
  | [] => []
  | fr :: l => fev fr ++ evb l

@[simp] theorem evb_nil : evb [] = [] := rfl
@[simp] theorem evb_cons (fr l) : evb (fr :: l) = fev fr ++ evb l := rfl
@[simp] theorem fev_timers (r) : fev (.timers r) = [] := rfl
@[simp] theorem fev_tasks (r) : fev (.tasks r) = [] := rfl
@[simp] theorem fev_poll (a r) : fev (.poll a r) = [] := rfl
@[simp] theorem fev_fd (a r) : fev (.fd a r) = [] := rfl
@[simp] theorem fev_events (r) : fev (.events r) = r := rfl

theorem evb_map (g : Frame → Frame) (hg : ∀ fr, fev (g fr) = fev fr) (l : List Frame) :
    evb (l.map g) = evb l := by
  induction l <;> simp_all

@[simp] theorem fev_eraseActive (fr f) : fev (eraseActive fr f) = fev fr := by cases fr <;> rfl
@[simp] theorem fev_setTimerBatch (fr f) : fev (setTimerBatch fr f) = fev fr := by cases fr <;> rfl
@[simp] theorem fev_appendTaskBatch (fr f) : fev (appendTaskBatch fr f) = fev fr := by cases fr <;> rfl
@[simp] theorem fev_eraseTask (fr f) : fev (eraseTask fr f) = fev fr := by cases fr <;> rfl
@[simp] theorem fev_eraseEvent (fr : Frame) (e : EvId) : fev (eraseEvent fr e) = (fev fr).erase e := by
  cases fr <;> simp [eraseEvent]

@[simp] theorem evb_eraseActive (l f) : evb (l.map (eraseActive · f)) = evb l := evb_map _ (by simp) l
@[simp] theorem evb_setTimerBatch (l f) : evb (l.map (setTimerBatch · f)) = evb l := evb_map _ (by simp) l
@[simp] theorem evb_appendTaskBatch (l f) : evb (l.map (appendTaskBatch · f)) = evb l := evb_map _ (by simp) l
@[simp] theorem evb_eraseTask (l f) : evb (l.map (eraseTask · f)) = evb l := evb_map _ (by simp) l

theorem evb_eraseEvent {l : List Frame} (e : EvId) (h : (evb l).Nodup) :
    evb (l.map (eraseEvent · e)) = (evb l).erase e := by
  induction l with
  | nil => rfl
  | cons fr l ih =>
    simp only [evb_cons, List.nodup_append] at h
    obtain ⟨h1, h2, h3⟩ := h
    simp only [List.map_cons, evb_cons, fev_eraseEvent, ih h2, List.erase_append]
    split
    · next hk =>
      have : e ∉ evb l := fun hk' => h3 e hk e hk' rfl
      rw [List.erase_of_not_mem this]
    · next hk => rw [List.erase_of_not_mem hk]

theorem any_events_iff (l : List Frame) (e : EvId) :
    (l.any fun fr => match fr with | .events b => b.contains e | _ => false) = true ↔ e ∈ evb l := by
  induction l with
  | nil => simp
  | cons fr l ih => cases fr <;> simp_all

theorem evOnList_iff (s : St) (e : EvId) :
    evOnList s e = true ↔ e ∈ s.pending ∨ e ∈ evb s.stack := by
  have h := any_events_iff s.stack e
  unfold evOnList
  rw [Bool.or_eq_true]
  exact or_congr (by simp) h

/-- the deferred task `events_local` stays on its list when another task is removed -/
theorem zero_mem_batchOf_eraseTask (l : List Frame) {k : TaskId} (hk : k ≠ 0) :
    0 ∈ batchOf (l.map (eraseTask · k)) ↔ 0 ∈ batchOf l := by
  induction l with
  | nil => simp
  | cons fr l ih =>
    simp only [List.map_cons, batchOf_cons, fbatch_eraseTask, List.mem_append, ih]
    rw [List.mem_erase_of_ne (Ne.symm hk)]

theorem mem_batchOf_appendTask (l : List Frame) (k x : TaskId) (h : x ∈ batchOf l) :
    x ∈ batchOf (l.map (appendTaskBatch · k)) := by
  induction l with
  | nil => simp at h
  | cons fr l ih =>
    simp only [List.map_cons, batchOf_cons, List.mem_append] at h ⊢
    rcases h with h | h
    · left
      cases fr <;> simp_all [appendTaskBatch]
    · exact Or.inr (ih h)

/-! ## group K: where the wake-up source of a foreign post lives -/

/-- `useRaw` only under the poll methods; with a registered event the one-shot kick is registered (epoll) or
the kick raw event is registered with its input handler (poll) -/
structure InvK (s : St) : Prop where
  ur_ep : s.useRaw = true → s.method.isEpoll = false
  kreg : s.useRaw = false → 1 ≤ s.eventCount → s.kickReg = true
  raw0 : s.useRaw = true → 1 ≤ s.eventCount → (s.raws 0).registered = true
  hin0 : (s.raws 0).registered = true → (s.fds (rawFd 0)).hin = true

/-- steps that leave all of that alone -/
structure KF (s s' : St) : Prop where
  useRaw : s'.useRaw = s.useRaw
  ep : s'.method.isEpoll = s.method.isEpoll
  ec : s'.eventCount = s.eventCount
  kreg : s'.kickReg = s.kickReg
  raw0 : (s'.raws 0).registered = (s.raws 0).registered
  hin0 : (s'.fds (rawFd 0)).hin = (s.fds (rawFd 0)).hin

theorem InvK.frame {s s' : St} (h : InvK s) (q : KF s s') : InvK s' := by
  obtain ⟨h1, h2, h3, h4⟩ := h
  obtain ⟨q1, q2, q3, q4, q5, q6⟩ := q
  refine ⟨?_, ?_, ?_, ?_⟩
  · rw [q1, q2]; exact h1
  · rw [q1, q3, q4]; exact h2
  · rw [q1, q3, q5]; exact h3
  · rw [q5, q6]; exact h4

theorem KF.refl (s : St) : KF s s := ⟨rfl, rfl, rfl, rfl, rfl, rfl⟩

theorem invK_init (m n a b) : InvK (St.init m n a b) := by
  refine ⟨?_, ?_, ?_, ?_⟩ <;> simp [St.init]

theorem timeoutCheck_isEpoll (s : St) (abs : Option TS) (hm : s.method = .epollTimerfd) :
    ((timeoutCheck s abs).1).method.isEpoll = s.method.isEpoll := by
  rcases (ProofsC02.timeoutCheck_frame s abs).2 with h | h
  · rw [h]
  · rw [h, hm]; rfl

theorem kf_internal (s : St) (b : Block) (hpc : s.pc = .run b) : KF s (internal s b).1 := by
  cases b with
  | prepWait =>
    simp only [internal, goto]
    generalize (if (!s.tasks.isEmpty) = true then some (⟨0, 0⟩ : TS) else soonest s.heap) = abs
    split
    · next hm =>
      simp only [beq_iff_eq] at hm
      have := timeoutCheck_isEpoll s abs hm
      split <;> (refine ⟨?_, ?_, ?_, ?_, ?_, ?_⟩ <;> simp_all)
    · refine ⟨?_, ?_, ?_, ?_, ?_, ?_⟩ <;> simp_all
  | _ =>
    simp only [internal, goto, fatal, setTop] <;> (repeat' split) <;>
      (refine ⟨?_, ?_, ?_, ?_, ?_, ?_⟩ <;> simp_all [flushAll_hin])

theorem trySucc_kickReg (s : St) (f : FdId) (i o e : Bool) : (ProofsC02.trySucc s f i o e).kickReg = s.kickReg := by
  unfold ProofsC02.trySucc
  dsimp only
  (repeat' split) <;> simp

theorem rawFd0_ne {f : FdId} (hf : f < 64) : rawFd 0 ≠ f := ProofsC02.rawFd_ne_of_lt hf 0

theorem pos_ne_zero {r : Nat} (hr : 1 ≤ r) : (0 : Nat) ≠ r := by omega

theorem rawFd0_ne_raw {r : RawId} (hr : 1 ≤ r) : rawFd 0 ≠ rawFd r := by
  intro h
  exact pos_ne_zero hr (ProofsC02.rawFd_inj.1 h)

def kquietApi : Api → Bool
  | .evRegister _ _ | .evUnregister _ => false
  | _ => true

theorem kf_api (s : St) (a : Api) (hq : kquietApi a = true) (henv : apiOk s a = true) : KF s (api s a).1 := by
  cases a with
  | evRegister e k => simp [kquietApi] at hq
  | evUnregister e => simp [kquietApi] at hq
  | fdRegister f i o e =>
    simp only [apiOk, decide_eq_true_eq] at henv
    have hne := rawFd0_ne henv
    simp only [api, ok, fatal]
    split <;> (refine ⟨?_, ?_, ?_, ?_, ?_, ?_⟩ <;> simp_all [fdRegisterCore_hin_ne])
  | fdRegisterTry f i o e k =>
    simp only [apiOk, decide_eq_true_eq] at henv
    have hne := rawFd0_ne henv
    cases hreg : (s.fds f).registered with
    | true =>
      simp only [api, fatal, hreg, if_true]
      exact ⟨rfl, rfl, rfl, rfl, rfl, rfl⟩
    | false =>
      cases k with
      | false =>
        rw [ProofsC02.api_tryFail s f i o e hreg]
        refine ⟨rfl, rfl, rfl, rfl, rfl, ?_⟩
        simp [ProofsC02.tryFail, upd_apply, hne]
      | true =>
        rw [ProofsC02.api_trySucc s f i o e hreg]
        obtain ⟨a1, a2, a3, a4, a5, a6, a7, a8, a9, -⟩ := ProofsC02.trySucc_at s f i o e
        refine ⟨a8, by rw [a1], a7, trySucc_kickReg s f i o e, by rw [a5], (a9 _ hne).2.1⟩
  | fdUnregister f =>
    simp only [api, ok, fatal]
    split <;> (refine ⟨?_, ?_, ?_, ?_, ?_, ?_⟩ <;> simp_all [fdUnregisterCore_hin])
  | fdSetIn f v =>
    simp only [apiOk, decide_eq_true_eq] at henv
    have hne := rawFd0_ne henv
    simp only [api, ok, fatal]
    split <;> (refine ⟨?_, ?_, ?_, ?_, ?_, ?_⟩ <;> simp_all [notifyFd_hin, upd_apply])
  | fdSetOut f v =>
    simp only [apiOk, decide_eq_true_eq] at henv
    have hne := rawFd0_ne henv
    simp only [api, ok, fatal]
    split <;> (refine ⟨?_, ?_, ?_, ?_, ?_, ?_⟩ <;> simp_all [notifyFd_hin, upd_apply])
  | fdSetErr f v =>
    simp only [apiOk, decide_eq_true_eq] at henv
    have hne := rawFd0_ne henv
    simp only [api, ok, fatal]
    split <;> (refine ⟨?_, ?_, ?_, ?_, ?_, ?_⟩ <;> simp_all [notifyFd_hin, upd_apply])
  | rawRegister r k =>
    simp only [apiOk, Bool.and_eq_true, decide_eq_true_eq] at henv
    have hne := rawFd0_ne_raw henv.1.1
    have hr0 : (0 : Nat) ≠ r := pos_ne_zero henv.1.1
    simp only [api, ok]
    split
    · exact KF.refl s
    · refine ⟨?_, ?_, ?_, ?_, ?_, ?_⟩ <;> simp [rawRegisterCore, upd_apply, hr0, fdRegisterCore_hin_ne, hne]
  | rawUnregister r =>
    simp only [apiOk, Bool.and_eq_true, decide_eq_true_eq] at henv
    have hr0 : (0 : Nat) ≠ r := pos_ne_zero henv.1.1
    simp only [api]
    refine ⟨?_, ?_, ?_, ?_, ?_, ?_⟩ <;> simp [rawUnregisterCore, upd_apply, hr0, fdUnregisterCore_hin]
  | _ =>
    simp only [api, ok, fatal, taskRegisterCore, taskUnregisterCore] <;> (repeat' split) <;>
      (refine ⟨?_, ?_, ?_, ?_, ?_, ?_⟩ <;> simp_all)

theorem rawRegisterCore_raws0 (s : St) : ((rawRegisterCore s 0).raws 0).registered = true := by
  simp [rawRegisterCore, upd_apply]

theorem rawRegisterCore_hin0 (s : St) : ((rawRegisterCore s 0).fds (rawFd 0)).hin = true := by
  simp [rawRegisterCore, fdRegisterCore_hin_same]

theorem rawUnregisterCore_raws0 (s : St) : ((rawUnregisterCore s 0).raws 0).registered = false := by
  simp [rawUnregisterCore, upd_apply]

theorem invK_evRegister (s : St) (e : EvId) (k : Bool) (hK : InvK s) (hR : Reach s) :
    InvK (api s (.evRegister e k)).1 := by
  obtain ⟨h1, h2, h3, h4⟩ := hK
  have h0 := reach_count_nonneg hR
  simp only [api, ok]
  (repeat' split) <;> (refine ⟨?_, ?_, ?_, ?_⟩ <;> simp_all [rawRegisterCore_raws0, rawRegisterCore_hin0])
  all_goals (intro hu _; first | exact h2 hu (by omega) | exact h3 hu (by omega))

theorem invK_evUnregister (s : St) (e : EvId) (hK : InvK s) (hR : Reach s) :
    InvK (api s (.evUnregister e)).1 := by
  obtain ⟨h1, h2, h3, h4⟩ := hK
  have h0 := reach_count_nonneg hR
  simp only [api, ok]
  (repeat' split) <;> (refine ⟨?_, ?_, ?_, ?_⟩ <;> simp_all [rawUnregisterCore_raws0])
  all_goals (intro hu _; first | exact h2 hu (by omega) | exact h3 hu (by omega))

/-! ## the fold over the reported wait items -/

/-- what the item fold of `afterWait` preserves (the one-shot kick is disarmed only by a reported kick, which
also makes the loop run the pending events) -/
def FoldK (s0 : St) (acc : St × List FdId × Bool × Bool) : Prop :=
  acc.1.pending = s0.pending ∧ acc.1.tasks = s0.tasks ∧ acc.1.stack = s0.stack ∧ acc.1.useRaw = s0.useRaw ∧
  acc.1.evs = s0.evs ∧ acc.1.eventCount = s0.eventCount ∧ acc.1.kickReg = s0.kickReg ∧ acc.1.raws = s0.raws ∧
  acc.1.method = s0.method ∧ (acc.1.fds (rawFd 0)).hin = (s0.fds (rawFd 0)).hin ∧
  (acc.2.2.2 = false → acc.1.kickArmed = s0.kickArmed)

theorem afterWait_eventsK (s : St) (abs : Option TS) (km : Bool) (l : List WItem) :
    ∃ s1 active rt runEv, FoldK s (s1, active, rt, runEv) ∧
      afterWait s abs km (.events l) = afterEvents s1 active rt runEv km := by
  have hstep : ∀ acc it, FoldK s acc → FoldK s (ProofsC02.wfold acc it) := by
    rintro ⟨s1, a, rt, re⟩ it h
    cases it <;> simp_all [FoldK, ProofsC02.wfold, activate_hin]
  have h0 : FoldK s ({ s with timeValid := false }, [], (if s.method == .epollTimerfd then abs.isSome else true), false) := by
    simp [FoldK]
  have := foldl_inv (FoldK s) ProofsC02.wfold hstep l _ h0
  generalize hr : List.foldl ProofsC02.wfold ({ s with timeValid := false }, [], (if s.method == .epollTimerfd then abs.isSome else true), false) l = r at this
  obtain ⟨s1, a, rt, re⟩ := r
  refine ⟨s1, a, rt, re, this, ?_⟩
  rw [ProofsC02.afterWait_events]
  simp only [hr]
  rfl

theorem kf_afterWait (s : St) (abs : Option TS) (km : Bool) (r : WRes) : KF s (afterWait s abs km r).1 := by
  cases r with
  | events l =>
    obtain ⟨s1, active, rt, runEv, hf, he⟩ := afterWait_eventsK s abs km l
    rw [he]
    simp only [FoldK] at hf
    simp only [afterEvents, goto]
    (repeat' split) <;> (refine ⟨?_, ?_, ?_, ?_, ?_, ?_⟩ <;> simp_all)
  | _ =>
    simp only [afterWait, goto, fatal] <;> (repeat' split) <;>
      (refine ⟨?_, ?_, ?_, ?_, ?_, ?_⟩ <;> simp_all [Method.isEpoll])

theorem kf_free (s : St) (k id : Nat) : KF s (freeObj s k id) := by
  unfold freeObj
  (repeat' split) <;> (refine ⟨?_, ?_, ?_, ?_, ?_, ?_⟩ <;> simp [upd_apply]) <;> (split <;> simp_all)

theorem kf_init (s : St) (k id : Nat) (henv : unregisteredObj s k id = true) : KF s (initObj s k id) := by
  unfold unregisteredObj at henv
  unfold initObj
  split <;> simp only [Bool.and_eq_true, decide_eq_true_eq] at henv
  · have : rawFd 0 ≠ id := by
      intro h; have h1 := henv.1; rw [← h] at h1; exact absurd h1 (by decide)
    refine ⟨?_, ?_, ?_, ?_, ?_, ?_⟩ <;> simp [upd_apply, this]
  · exact ⟨rfl, rfl, rfl, rfl, rfl, rfl⟩
  · exact ⟨rfl, rfl, rfl, rfl, rfl, rfl⟩
  · exact ⟨rfl, rfl, rfl, rfl, rfl, rfl⟩
  · have := pos_ne_zero henv.1
    refine ⟨?_, ?_, ?_, ?_, ?_, ?_⟩ <;> simp [upd_apply, this]

theorem invK_input (s : St) (i : Input) (r : St × List Out) (hK : InvK s) (hR : Reach s) (henv : envOk s i = true)
    (hi : input s i = some r) : InvK r.1 := by
  cases input_inv hi with
  | api a hpc =>
    simp only [envOk, Bool.and_eq_true] at henv
    by_cases hq : kquietApi a = true
    · exact hK.frame (kf_api s a hq henv.1)
    · cases a <;> simp only [kquietApi] at hq <;> try (exact absurd trivial hq)
      · exact invK_evRegister s _ _ hK hR
      · exact invK_evUnregister s _ hK hR
  | wret abs km r hpc => exact hK.frame (kf_afterWait s abs km r)
  | handlerEnd b hpc hb => exact hK.frame ⟨rfl, rfl, rfl, rfl, rfl, rfl⟩
  | free k id hpc => exact hK.frame (kf_free s k id)
  | init k id hpc => exact hK.frame (kf_init s k id henv)
  | time t k hpc =>
    refine hK.frame ?_
    cases k <;> exact ⟨rfl, rfl, rfl, rfl, rfl, rfl⟩
  | xpostNop abs km e hpc => exact hK
  | xpost abs km e ka hpc => exact hK.frame ⟨rfl, rfl, rfl, rfl, rfl, rfl⟩
  | rawGoto r okk b hpc hb => exact hK.frame ⟨rfl, rfl, rfl, rfl, rfl, rfl⟩
  | rawFault r okk msg hpc => exact hK.frame ⟨rfl, rfl, rfl, rfl, rfl, rfl⟩
  | rawCb r okk hpc => exact hK.frame ⟨rfl, rfl, rfl, rfl, rfl, rfl⟩

/-! ## group E: the monitor's bookkeeping against the machine's pending list and the running batch -/

open Ivy.Mon.C08 (M)

/-- a non-empty pending list has a wake-up source: under the poll methods the (level-triggered) kick raw event;
else the deferred task `events_local` is on a task list, or the one-shot kick is armed, or the loop is just about
to run the pending events -/
def Kick (s : St) : Prop :=
  s.pending = [] ∨ s.useRaw = true ∨ 0 ∈ s.tasks ∨ 0 ∈ batchOf s.stack ∨ s.kickArmed = true ∨ s.pc = .run .runEvents

structure InvE (μ : M) (s : St) : Prop where
  alive : μ.dead = false
  pend : μ.pendingReg = none
  nodup : (s.pending ++ evb s.stack).Nodup
  reg_mem : ∀ e, e ∈ μ.reg ↔ (s.evs e).registered = true
  reg_nodup : μ.reg.Nodup
  posted_nodup : μ.posted.Nodup
  posted_mem : ∀ e, e ∈ μ.posted ↔ (e ∈ s.pending ∨ e ∈ evb s.stack)
  on_reg : ∀ e, (e ∈ s.pending ∨ e ∈ evb s.stack) → (s.evs e).registered = true
  kick : Kick s

/-- steps that do not touch what the monitor tracks -/
structure QE (s s' : St) : Prop where
  pending : s'.pending = s.pending
  evb : evb s'.stack = evb s.stack
  evs : ∀ e, (s'.evs e).registered = (s.evs e).registered
  kick : Kick s → Kick s'

theorem InvE.quiet {μ : M} {s s' : St} (h : InvE μ s) (q : QE s s') : InvE μ s' := by
  obtain ⟨h1, h2, h3, h4, h5, h6, h7, h8, h9⟩ := h
  obtain ⟨q1, q2, q3, q4⟩ := q
  refine ⟨h1, h2, ?_, ?_, h5, h6, ?_, ?_, q4 h9⟩
  · rw [q1, q2]; exact h3
  · intro e; rw [q3]; exact h4 e
  · rw [q1, q2]; exact h7
  · intro e; rw [q1, q2, q3]; exact h8 e

def harmless : Out → Bool
  | .ret _ | .fatal _ | .fault _ | .mainRet => true
  | .cb (.event _) => false
  | .cb _ => true
  | _ => false

theorem fold_dead (μ : M) (hd : μ.dead = true) (evs : List Ev) : evs.foldlM Ivy.Mon.C08.step μ = .ok μ := by
  induction evs with
  | nil => rfl
  | cons e evs ih =>
    rw [List.foldlM_cons]
    have : Ivy.Mon.C08.step μ e = .ok μ := by simp [Ivy.Mon.C08.step, hd]
    rw [this]; exact ih

theorem step_harmless (μ : M) (o : Out) (hd : μ.dead = false) (hp : μ.pendingReg = none) (hh : harmless o = true) :
    ∃ μ', Ivy.Mon.C08.step μ (.out o) = .ok μ' ∧ (μ'.dead = true ∨ μ' = μ) := by
  cases o with
  | cb c => cases c <;> simp_all [Ivy.Mon.C08.step, harmless] <;> (cases μ; simp_all)
  | ret v => simp_all [Ivy.Mon.C08.step]
  | fatal m => simp_all [Ivy.Mon.C08.step]
  | fault m => simp_all [Ivy.Mon.C08.step]
  | mainRet => simp_all [Ivy.Mon.C08.step]; (cases μ; simp_all)
  | _ => simp [harmless] at hh

theorem fold_harmless (μ : M) (outs : List Out) (hd : μ.dead = false) (hp : μ.pendingReg = none)
    (hh : ∀ o ∈ outs, harmless o = true) :
    ∃ μ', (outs.map Ev.out).foldlM Ivy.Mon.C08.step μ = .ok μ' ∧ (μ'.dead = true ∨ μ' = μ) := by
  induction outs with
  | nil => exact ⟨μ, rfl, Or.inr rfl⟩
  | cons o outs ih =>
    obtain ⟨μ1, e1, h1⟩ := step_harmless μ o hd hp (hh o (by simp))
    rw [List.map_cons, List.foldlM_cons, e1]
    rcases h1 with h1 | rfl
    · exact ⟨μ1, fold_dead μ1 h1 _, Or.inl h1⟩
    · exact ih (fun o ho => hh o (by simp [ho]))

theorem step_inp_other (μ : M) (i : Input) (hd : μ.dead = false) (hp : μ.pendingReg = none)
    (h1 : ∀ e k, i ≠ .api (.evRegister e k)) (h2 : ∀ e, i ≠ .api (.evUnregister e))
    (h3 : ∀ e, i ≠ .api (.evPost e)) (h4 : ∀ e, i ≠ .xpost e) :
    Ivy.Mon.C08.step μ (.inp i) = .ok μ := by
  cases i with
  | api a => cases a <;> simp_all [Ivy.Mon.C08.step] <;> (cases μ; simp_all)
  | _ => simp_all [Ivy.Mon.C08.step] <;> (cases μ; simp_all)

/-- a quiet step with harmless outputs keeps the relation -/
theorem quiet_outs {μ : M} {s s' : St} {outs : List Out} (h : InvE μ s) (q : QE s s')
    (hh : ∀ o ∈ outs, harmless o = true) :
    ∃ μ', (outs.map Ev.out).foldlM Ivy.Mon.C08.step μ = .ok μ' ∧ (μ'.dead = true ∨ InvE μ' s') := by
  obtain ⟨μ', e, hμ⟩ := fold_harmless μ outs h.alive h.pend hh
  refine ⟨μ', e, ?_⟩
  rcases hμ with hμ | rfl
  · exact Or.inl hμ
  · exact Or.inr (h.quiet q)

theorem quiet_input {μ : M} {s s' : St} {outs : List Out} {i : Input} (h : InvE μ s) (q : QE s s')
    (hh : ∀ o ∈ outs, harmless o = true)
    (h1 : ∀ e k, i ≠ .api (.evRegister e k)) (h2 : ∀ e, i ≠ .api (.evUnregister e))
    (h3 : ∀ e, i ≠ .api (.evPost e)) (h4 : ∀ e, i ≠ .xpost e) :
    ∃ μ', (Ev.inp i :: outs.map Ev.out).foldlM Ivy.Mon.C08.step μ = .ok μ' ∧ (μ'.dead = true ∨ InvE μ' s') := by
  rw [List.foldlM_cons, step_inp_other μ i h.alive h.pend h1 h2 h3 h4]
  exact quiet_outs h q hh

def quietBlock : Block → Bool
  | .runEvents | .popEvent | .wait _ _ => false
  | _ => true

theorem qe_internal (s : St) (b : Block) (hb : quietBlock b = true) (hpc : s.pc = .run b) :
    QE s (internal s b).1 ∧ ∀ o ∈ (internal s b).2, harmless o = true := by
  cases b <;> simp only [quietBlock] at hb <;> try (exact absurd hb (by decide))
  all_goals
    simp only [internal, goto, fatal, setTop] <;> (repeat' split) <;>
      (refine ⟨⟨?_, ?_, ?_, ?_⟩, ?_⟩ <;> simp_all [Kick, harmless])
  all_goals grind

theorem stepE_runEvents (μ : M) (s : St) (hE : InvE μ s) (hpc : s.pc = .run .runEvents) :
    ∃ μ', ((internal s .runEvents).2.map Ev.out).foldlM Ivy.Mon.C08.step μ = .ok μ' ∧
      (μ'.dead = true ∨ InvE μ' (internal s .runEvents).1) := by
  obtain ⟨h1, h2, h3, h4, h5, h6, h7, h8, h9⟩ := hE
  simp only [internal, goto]
  split
  · refine ⟨μ, rfl, Or.inr ?_⟩
    refine ⟨h1, h2, ?_, ?_, h5, h6, ?_, ?_, ?_⟩ <;> simp_all [Kick]
  · refine ⟨μ, rfl, Or.inr ?_⟩
    refine ⟨h1, h2, ?_, ?_, h5, h6, ?_, ?_, ?_⟩ <;> simp_all [Kick]

theorem stepE_popEvent (μ : M) (s : St) (hE : InvE μ s) (hpc : s.pc = .run .popEvent) :
    ∃ μ', ((internal s .popEvent).2.map Ev.out).foldlM Ivy.Mon.C08.step μ = .ok μ' ∧
      (μ'.dead = true ∨ InvE μ' (internal s .popEvent).1) := by
  obtain ⟨h1, h2, h3, h4, h5, h6, h7, h8, h9⟩ := hE
  simp only [internal, goto]
  split
  · next rest hst =>
    refine ⟨μ, rfl, Or.inr ?_⟩
    refine ⟨h1, h2, ?_, ?_, h5, h6, ?_, ?_, ?_⟩ <;> simp_all [Kick]
  · next e r rest hst =>
    split
    · exact ⟨{ μ with dead := true }, by simp [Ivy.Mon.C08.step, h1], Or.inl rfl⟩
    · have hreg : e ∈ μ.reg := (h4 e).2 (h8 e (Or.inr (by simp [hst])))
      have hpost : e ∈ μ.posted := (h7 e).2 (Or.inr (by simp [hst]))
      have hnd : e ∉ s.pending ∧ e ∉ r ∧ e ∉ evb rest := by
        rw [hst] at h3
        simp only [evb_cons, fev_events, List.cons_append, List.nodup_append, List.nodup_cons,
          List.mem_cons, List.mem_append] at h3
        grind
      refine ⟨{ μ with posted := μ.posted.erase e }, by simp [Ivy.Mon.C08.step, h1, hreg, hpost], Or.inr ?_⟩
      refine ⟨h1, h2, ?_, ?_, h5, h6.erase e, ?_, ?_, ?_⟩ <;> simp_all [Kick]
      · exact List.Nodup.sublist (List.Sublist.append_left (List.sublist_cons_self _ _) _) h3
      · intro x
        rw [h6.mem_erase_iff, h7]
        grind
      · intro x hx
        exact h8 x (by grind)
  · exact ⟨{ μ with dead := true }, by simp [Ivy.Mon.C08.step, h1], Or.inl rfl⟩

/-- the heart of the matter: with a posted, undelivered event the loop never enters a blocking wait without
a wake-up source in place -/
theorem stepE_wait (μ : M) (s : St) (abs : Option TS) (km : Bool) (hC : InvC s) (hR : Reach s) (hK : InvK s)
    (hE : InvE μ s) (hpc : s.pc = .run (.wait abs km)) :
    ∃ μ', ((internal s (.wait abs km)).2.map Ev.out).foldlM Ivy.Mon.C08.step μ = .ok μ' ∧
      (μ'.dead = true ∨ InvE μ' (internal s (.wait abs km)).1) := by
  have hE' := hE
  obtain ⟨h1, h2, h3, h4, h5, h6, h7, h8, h9⟩ := hE
  have hst := reach_stack_nil hR hpc
  have hw := (hC.wt abs km (by simp [hpc, pcWait])).2
  simp only [internal]
  have key : μ.posted = [] ∨
      Ivy.Mon.C06.nonBlocking (timeoutOf s abs) (if s.timerfd then some s.ktimer else none) = true ∨
      (if s.kickReg then some s.kickArmed else none) = some true ∨
      Ivy.Mon.C08.kickFdWatched (interestOf s (universeOf s)) = true := by
    cases hp : μ.posted with
    | nil => exact Or.inl rfl
    | cons x l =>
      right
      have hx : x ∈ s.pending := by
        have := (h7 x).1 (by simp [hp])
        simpa [hst] using this
      have hne : s.pending ≠ [] := List.ne_nil_of_mem hx
      have hreg := h8 x (Or.inl hx)
      have hcnt := reach_count_pos hR hreg
      cases hur : s.useRaw with
      | true =>
        right; right
        have hP := hK.ur_ep hur
        have hr0 := hK.raw0 hur hcnt
        have := reach_kick_watched hR hP hr0 (hK.hin0 hr0)
        simp [interestOf, hP, this]
      | false =>
        have hkr := hK.kreg hur hcnt
        rcases h9 with e | e | e | e | e | e
        · exact absurd e hne
        · rw [hur] at e; cases e
        · left
          have ht : s.tasks ≠ [] := List.ne_nil_of_mem e
          rcases hw ht with ⟨rfl, -⟩ | ⟨rfl, a1, a2⟩
          · exact nonBlocking_zero s hC.time_nn _
          · simp [timeoutOf, a1, a2, Ivy.Mon.C06.nonBlocking]
        · simp [hst] at e
        · right; left; simp [hkr, e]
        · rw [hpc] at e; cases e
  refine ⟨μ, ?_, Or.inr ?_⟩
  · rcases key with e | e | e | e <;> simp [Ivy.Mon.C08.step, h1, e]
  · refine hE'.quiet ⟨rfl, rfl, fun _ => rfl, ?_⟩
    simp [Kick, hpc]

theorem stepE_internal (μ : M) (s : St) (b : Block) (hC : InvC s) (hR : Reach s) (hK : InvK s) (hE : InvE μ s)
    (hpc : s.pc = .run b) :
    ∃ μ', ((internal s b).2.map Ev.out).foldlM Ivy.Mon.C08.step μ = .ok μ' ∧
      (μ'.dead = true ∨ InvE μ' (internal s b).1) := by
  by_cases hq : quietBlock b = true
  · obtain ⟨q, hh⟩ := qe_internal s b hq hpc
    exact quiet_outs hE q hh
  · cases b <;> simp only [quietBlock] at hq <;> try (exact absurd trivial hq)
    · exact stepE_runEvents μ s hE hpc
    · exact stepE_popEvent μ s hE hpc
    · exact stepE_wait μ s _ _ hC hR hK hE hpc

/-! ### inputs -/

theorem mem_batchOf_appendTask_self (l : List Frame) (k : TaskId) (h : nT l ≠ 0) :
    k ∈ batchOf (l.map (appendTaskBatch · k)) := by
  induction l with
  | nil => simp at h
  | cons fr l ih =>
    simp only [List.map_cons, batchOf_cons, List.mem_append]
    cases fr with
    | tasks r => left; simp [appendTaskBatch]
    | _ => right; exact ih (by simpa using h)

/-- after `iv_task_register(&st->events_local)` the task is on a list -/
theorem zero_on_list_taskRegisterCore (s : St) :
    0 ∈ (taskRegisterCore s 0).tasks ∨ 0 ∈ batchOf (taskRegisterCore s 0).stack := by
  unfold taskRegisterCore
  dsimp only
  split
  · left; simp
  · next hc =>
    simp only [Bool.or_eq_true, Bool.not_eq_true', beq_iff_eq, not_or, Bool.not_eq_false] at hc
    right
    exact mem_batchOf_appendTask_self _ 0 ((inRunTasks_iff _).1 hc.1)

theorem taskRegisterCore_evs (s : St) (k : TaskId) : (taskRegisterCore s k).evs = s.evs := by
  unfold taskRegisterCore
  dsimp only
  split <;> rfl

theorem taskRegisterCore_QE (s : St) (k : TaskId) : QE s (taskRegisterCore s k) := by
  unfold taskRegisterCore
  dsimp only
  split
  · refine ⟨rfl, rfl, fun _ => rfl, ?_⟩
    simp only [Kick]
    grind
  · refine ⟨rfl, by simp, fun _ => rfl, ?_⟩
    simp only [Kick]
    intro h
    rcases h with h | h | h | h | h | h
    · exact Or.inl h
    · exact Or.inr (Or.inl h)
    · exact Or.inr (Or.inr (Or.inl h))
    · exact Or.inr (Or.inr (Or.inr (Or.inl (mem_batchOf_appendTask _ _ _ h))))
    · exact Or.inr (Or.inr (Or.inr (Or.inr (Or.inl h))))
    · exact Or.inr (Or.inr (Or.inr (Or.inr (Or.inr h))))

theorem taskUnregisterCore_QE (s : St) (k : TaskId) (hk : 1 ≤ k) : QE s (taskUnregisterCore s k) := by
  have hk0 : k ≠ 0 := Ne.symm (pos_ne_zero hk)
  unfold taskUnregisterCore
  refine ⟨rfl, by simp, fun _ => rfl, ?_⟩
  simp only [Kick, zero_mem_batchOf_eraseTask _ hk0, List.mem_erase_of_ne (Ne.symm hk0)]
  exact id

def quietApi : Api → Bool
  | .evRegister _ _ | .evUnregister _ | .evPost _ => false
  | _ => true

theorem qe_api (s : St) (a : Api) (hq : quietApi a = true) (hpc : s.pc = .user) (henv : apiOk s a = true) :
    QE s (api s a).1 ∧ ∀ o ∈ (api s a).2, harmless o = true := by
  cases a with
  | evRegister e k => simp [quietApi] at hq
  | evUnregister e => simp [quietApi] at hq
  | evPost e => simp [quietApi] at hq
  | taskRegister k =>
    simp only [api, ok, fatal]
    split
    · refine ⟨⟨rfl, rfl, fun _ => rfl, ?_⟩, by simp [harmless]⟩
      simp [Kick, hpc]
    · exact ⟨taskRegisterCore_QE s k, by simp [harmless]⟩
  | taskUnregister k =>
    simp only [apiOk, decide_eq_true_eq] at henv
    simp only [api, ok, fatal]
    split
    · refine ⟨⟨rfl, rfl, fun _ => rfl, ?_⟩, by simp [harmless]⟩
      simp [Kick, hpc]
    · exact ⟨taskUnregisterCore_QE s k henv, by simp [harmless]⟩
  | _ =>
    simp only [api, ok, fatal] <;> (repeat' split) <;>
      (refine ⟨⟨?_, ?_, ?_, ?_⟩, ?_⟩ <;> simp_all [Kick, harmless, -List.map_map])

/-- no event registered: nothing is pending -/
theorem pending_nil_of_count {μ : M} {s : St} (hR : Reach s) (hE : InvE μ s) (h0 : s.eventCount = 0) :
    s.pending = [] := by
  cases hp : s.pending with
  | nil => rfl
  | cons x l =>
    have := reach_count_pos hR (hE.on_reg x (Or.inl (by simp [hp])))
    omega

theorem evRegister_cases (s : St) (e : EvId) (k : Bool) :
    (∃ s', api s (.evRegister e k) = (s', [Out.ret (-1)]) ∧ s'.pending = s.pending ∧ s'.stack = s.stack ∧
      s'.evs = s.evs ∧ s'.tasks = s.tasks ∧ s'.pc = s.pc ∧ s'.kickArmed = s.kickArmed ∧
      (s.useRaw = true → s'.useRaw = true)) ∨
    (∃ s', api s (.evRegister e k) = (s', [Out.ret 0]) ∧ s'.pending = s.pending ∧ s'.stack = s.stack ∧
      s'.evs = upd s.evs e { (s.evs e) with registered := true } ∧ s'.tasks = s.tasks ∧ s'.pc = s.pc ∧
      (s.useRaw = true → s'.useRaw = true) ∧ (s.eventCount ≠ 0 → s'.kickArmed = s.kickArmed)) := by
  simp only [api, ok]
  (repeat' split)
  all_goals first
    | (left; exact ⟨_, rfl, by simp_all, by simp_all, by simp_all, by simp_all, by simp_all, by simp_all, by simp_all⟩)
    | (right; exact ⟨_, rfl, by simp_all, by simp_all, by simp_all, by simp_all, by simp_all, by simp_all, by simp_all⟩)

theorem stepE_evRegister (μ : M) (s : St) (e : EvId) (k : Bool) (hR : Reach s) (hE : InvE μ s)
    (hpc : s.pc = .user) (hnr : (s.evs e).registered = false) :
    ∃ μ', (Ev.inp (.api (.evRegister e k)) :: (api s (.evRegister e k)).2.map Ev.out).foldlM Ivy.Mon.C08.step μ = .ok μ' ∧
      (μ'.dead = true ∨ InvE μ' (api s (.evRegister e k)).1) := by
  have hpe := pending_nil_of_count hR hE
  obtain ⟨h1, h2, h3, h4, h5, h6, h7, h8, h9⟩ := hE
  have hne : e ∉ μ.reg := fun h => by rw [(h4 e).1 h] at hnr; cases hnr
  rcases evRegister_cases s e k with ⟨s', he, a1, a2, a3, a4, a5, a6, a7⟩ | ⟨s', he, a1, a2, a3, a4, a5, a6, a7⟩
  · rw [he]
    refine ⟨{ μ with pendingReg := none },
        by simp [Ivy.Mon.C08.step, h1, bind, Except.bind, pure, Except.pure], Or.inr ?_⟩
    refine ⟨h1, rfl, ?_, ?_, h5, h6, ?_, ?_, ?_⟩ <;> simp_all [Kick]
    grind
  · rw [he]
    refine ⟨{ μ with reg := μ.reg ++ [e], pendingReg := none },
        by simp [Ivy.Mon.C08.step, h1, bind, Except.bind, pure, Except.pure], Or.inr ?_⟩
    refine ⟨h1, rfl, ?_, ?_, ?_, h6, ?_, ?_, ?_⟩ <;> simp_all [Kick, upd_apply]
    · intro x; split <;> simp_all
    · simp only [List.nodup_append, List.nodup_cons, List.mem_singleton]
      exact ⟨h5, by simp, fun a ha b hb => by rintro rfl; subst hb; have := (h4 _).1 ha; rw [hnr] at this; cases this⟩
    · intro x hx; split
      · rfl
      · exact h8 x hx
    · by_cases hc : s.eventCount = 0
      · exact Or.inl (hpe hc)
      · have := a7 hc
        grind

theorem evUnregister_cases (s : St) (e : EvId) :
    ∃ s', api s (.evUnregister e) = (s', [Out.ret 0]) ∧ s'.pending = s.pending.erase e ∧
      evb s'.stack = evb (s.stack.map (eraseEvent · e)) ∧ batchOf s'.stack = batchOf s.stack ∧
      s'.evs = upd s.evs e { (s.evs e) with registered := false } ∧ s'.tasks = s.tasks ∧ s'.pc = s.pc ∧
      s'.useRaw = s.useRaw ∧ (s.eventCount - 1 ≠ 0 → s'.kickArmed = s.kickArmed) := by
  simp only [api, ok]
  (repeat' split)
  all_goals
    exact ⟨_, rfl, by simp_all [-List.map_map], by simp_all [-List.map_map], by simp_all [-List.map_map],
      by simp_all [-List.map_map], by simp_all [-List.map_map], by simp_all [-List.map_map],
      by simp_all [-List.map_map], by simp_all [-List.map_map]⟩

theorem stepE_evUnregister (μ : M) (s : St) (e : EvId) (hR : Reach s) (hE : InvE μ s)
    (hpc : s.pc = .user) (hreg : (s.evs e).registered = true) :
    ∃ μ', (Ev.inp (.api (.evUnregister e)) :: (api s (.evUnregister e)).2.map Ev.out).foldlM Ivy.Mon.C08.step μ = .ok μ' ∧
      (μ'.dead = true ∨ InvE μ' (api s (.evUnregister e)).1) := by
  obtain ⟨h1, h2, h3, h4, h5, h6, h7, h8, h9⟩ := hE
  have hnp : s.pending.Nodup := (List.nodup_append.1 h3).1
  have hnb : (evb s.stack).Nodup := (List.nodup_append.1 h3).2.1
  obtain ⟨s', he, a1, a2, a3, a4, a5, a6, a7, a8⟩ := evUnregister_cases s e
  rw [he]
  refine ⟨{ μ with reg := μ.reg.erase e, posted := μ.posted.erase e, pendingReg := none },
      by simp [Ivy.Mon.C08.step, h1, bind, Except.bind, pure, Except.pure], Or.inr ?_⟩
  rw [evb_eraseEvent e hnb] at a2
  refine ⟨h1, rfl, ?_, ?_, h5.erase e, h6.erase e, ?_, ?_, ?_⟩
  · rw [a1, a2]
    exact List.Nodup.sublist (List.Sublist.append (List.erase_sublist) (List.erase_sublist)) h3
  · intro x
    show x ∈ μ.reg.erase e ↔ _
    rw [h5.mem_erase_iff, h4, a4, upd_apply]
    split <;> simp_all
  · intro x
    show x ∈ μ.posted.erase e ↔ _
    rw [h6.mem_erase_iff, h7, a1, a2, hnp.mem_erase_iff, hnb.mem_erase_iff]
    grind
  · intro x
    rw [a1, a2, hnp.mem_erase_iff, hnb.mem_erase_iff, a4, upd_apply]
    intro hx
    have hxe : x ≠ e := by grind
    rw [if_neg hxe]
    exact h8 x (by grind)
  · simp only [Kick, a1, a3, a5, a6, a7]
    cases hp : s.pending.erase e with
    | nil => exact Or.inl rfl
    | cons x l =>
      have hx : x ∈ s.pending.erase e := by simp [hp]
      rw [hnp.mem_erase_iff] at hx
      have h2c := reach_count_two hR hreg (h8 x (Or.inl hx.2)) hx.1
      have := a8 (by omega)
      have hne : s.pending ≠ [] := List.ne_nil_of_mem hx.2
      simp only [Kick, hpc] at h9
      grind

/-- a post of a registered event that is on no list: the monitor and the machine both append it -/
theorem invE_post {μ : M} {s s' : St} (hE : InvE μ s) (e : EvId) (hreg : (s.evs e).registered = true)
    (hnot : e ∉ s.pending ∧ e ∉ evb s.stack) (hp : s'.pending = s.pending ++ [e])
    (hevb : evb s'.stack = evb s.stack) (hevs : s'.evs = s.evs) (hk : Kick s') :
    InvE { μ with posted := μ.posted ++ [e], pendingReg := none } s' := by
  obtain ⟨h1, h2, h3, h4, h5, h6, h7, h8, h9⟩ := hE
  have hnp : e ∉ μ.posted := fun h => by have := (h7 e).1 h; grind
  refine ⟨h1, rfl, ?_, ?_, h5, ?_, ?_, ?_, hk⟩
  · rw [hp, hevb]
    simp only [List.nodup_append, List.nodup_cons, List.mem_cons, List.mem_append, List.mem_singleton] at *
    grind
  · intro x; rw [hevs]; exact h4 x
  · show (μ.posted ++ [e]).Nodup
    simp only [List.nodup_append, List.nodup_cons, List.mem_singleton]
    exact ⟨h6, by simp, fun a ha b hb => by rintro rfl; subst hb; exact hnp ha⟩
  · intro x
    show x ∈ μ.posted ++ [e] ↔ _
    rw [hp, hevb, List.mem_append, List.mem_append, h7]
    simp only [List.mem_singleton]
    grind
  · intro x
    rw [hp, hevb, hevs, List.mem_append, List.mem_singleton]
    rintro ((hx | rfl) | hx)
    · exact h8 x (Or.inl hx)
    · exact hreg
    · exact h8 x (Or.inr hx)

theorem stepE_evPost (μ : M) (s : St) (e : EvId) (hE : InvE μ s) (hpc : s.pc = .user)
    (hreg : (s.evs e).registered = true) :
    ∃ μ', (Ev.inp (.api (.evPost e)) :: (api s (.evPost e)).2.map Ev.out).foldlM Ivy.Mon.C08.step μ = .ok μ' ∧
      (μ'.dead = true ∨ InvE μ' (api s (.evPost e)).1) := by
  have h1 := hE.alive
  have h2 := hE.pend
  have hr : e ∈ μ.reg := (hE.reg_mem e).2 hreg
  simp only [api]
  split
  · next hon =>
    have hp : e ∈ μ.posted := (hE.posted_mem e).2 ((evOnList_iff s e).1 hon)
    refine ⟨μ, ?_, Or.inr hE⟩
    simp [Ivy.Mon.C08.step, h1, hr, hp, pure, Except.pure, bind, Except.bind]
    cases μ; simp_all
  · next hon =>
    have hnot : e ∉ s.pending ∧ e ∉ evb s.stack := not_or.1 (fun h => hon ((evOnList_iff s e).2 h))
    have hnp : e ∉ μ.posted := fun h => hon ((evOnList_iff s e).2 ((hE.posted_mem e).1 h))
    have hk := hE.kick
    split
    · next hc =>
      refine ⟨{ μ with posted := μ.posted ++ [e], pendingReg := none },
        by simp [Ivy.Mon.C08.step, h1, hr, hnp, pure, Except.pure, bind, Except.bind], Or.inr ?_⟩
      have q := taskRegisterCore_QE { s with pending := s.pending ++ [e] } 0
      refine invE_post hE e hreg hnot q.pending q.evb (taskRegisterCore_evs _ 0) ?_
      have := zero_on_list_taskRegisterCore { s with pending := s.pending ++ [e] }
      simp only [Kick]
      grind
    · next hc =>
      refine ⟨{ μ with posted := μ.posted ++ [e], pendingReg := none },
        by simp [Ivy.Mon.C08.step, h1, hr, hnp, pure, Except.pure, bind, Except.bind], Or.inr ?_⟩
      refine invE_post hE e hreg hnot rfl rfl rfl ?_
      simp only [Bool.and_eq_true, Bool.not_eq_true', not_and, Bool.not_eq_false, List.isEmpty_iff] at hc
      simp only [Kick, hpc] at hk ⊢
      by_cases hpe : s.pending = []
      · have := (taskOnList_iff _ 0).1 (hc hpe)
        simp only at this
        grind
      · grind

theorem stepE_xpost (μ : M) (s : St) (e : EvId) (r : St × List Out) (abs : Option TS) (km : Bool) (hE : InvE μ s)
    (hpc : s.pc = .waiting abs km) (hreg : (s.evs e).registered = true) (hi : input s (.xpost e) = some r) :
    ∃ μ', (Ev.inp (.xpost e) :: r.2.map Ev.out).foldlM Ivy.Mon.C08.step μ = .ok μ' ∧
      (μ'.dead = true ∨ InvE μ' r.1) := by
  have h1 := hE.alive
  have h2 := hE.pend
  have hr : e ∈ μ.reg := (hE.reg_mem e).2 hreg
  simp only [input, hpc] at hi
  split at hi
  · next hon =>
    cases hi
    have hp : e ∈ μ.posted := (hE.posted_mem e).2 ((evOnList_iff s e).1 hon)
    refine ⟨μ, ?_, Or.inr hE⟩
    simp [Ivy.Mon.C08.step, h1, hr, hp, pure, Except.pure, bind, Except.bind]
  · next hon =>
    cases hi
    have hnot : e ∉ s.pending ∧ e ∉ evb s.stack := not_or.1 (fun h => hon ((evOnList_iff s e).2 h))
    have hnp : e ∉ μ.posted := fun h => hon ((evOnList_iff s e).2 ((hE.posted_mem e).1 h))
    have hk := hE.kick
    refine ⟨{ μ with posted := μ.posted ++ [e], pendingReg := none }, ?_, Or.inr ?_⟩
    · simp [Ivy.Mon.C08.step, h1, hr, hnp, pure, Except.pure, bind, Except.bind]
      cases μ; simp_all
    · dsimp only
      split
      · refine invE_post hE e hreg hnot rfl rfl rfl ?_
        simp [Kick]
      · next hc =>
        refine invE_post hE e hreg hnot rfl rfl rfl ?_
        simp only [Bool.and_eq_true, Bool.not_eq_true', not_and, Bool.not_eq_false, List.isEmpty_iff] at hc
        simp only [Kick, hpc] at hk ⊢
        by_cases hpe : s.pending = []
        · exact Or.inr (Or.inl (hc hpe))
        · grind

theorem qe_afterWait (s : St) (abs : Option TS) (km : Bool) (r : WRes) (hpc : s.pc = .waiting abs km) :
    QE s (afterWait s abs km r).1 ∧ ∀ o ∈ (afterWait s abs km r).2, harmless o = true := by
  cases r with
  | events l =>
    obtain ⟨s1, active, rt, runEv, hf, he⟩ := afterWait_eventsK s abs km l
    rw [he]
    simp only [FoldK] at hf
    simp only [afterEvents, goto]
    (repeat' split) <;> (refine ⟨⟨?_, ?_, ?_, ?_⟩, ?_⟩ <;> simp_all [Kick, harmless])
  | _ =>
    simp only [afterWait, goto, fatal] <;> (repeat' split) <;>
      (refine ⟨⟨?_, ?_, ?_, ?_⟩, ?_⟩ <;> simp_all [Kick, harmless])

theorem qe_free (s : St) (k id : Nat) (hpc : s.pc = .user) : QE s (freeObj s k id) := by
  unfold freeObj
  (repeat' split) <;> (refine ⟨?_, ?_, ?_, ?_⟩ <;> simp_all [Kick, upd_apply]) <;>
    (intro e; split <;> simp_all)

theorem qe_init (s : St) (k id : Nat) (hpc : s.pc = .user) (henv : unregisteredObj s k id = true) :
    QE s (initObj s k id) := by
  unfold unregisteredObj at henv
  unfold initObj
  split <;> simp only [Bool.and_eq_true, decide_eq_true_eq, Bool.not_eq_true'] at henv <;>
    (refine ⟨?_, ?_, ?_, ?_⟩ <;> simp_all [Kick, upd_apply])
  intro e; split <;> simp_all

theorem stepE_input (μ : M) (s : St) (i : Input) (r : St × List Out) (hR : Reach s) (hE : InvE μ s)
    (henv : envOk s i = true) (hi : input s i = some r) :
    ∃ μ', (Ev.inp i :: r.2.map Ev.out).foldlM Ivy.Mon.C08.step μ = .ok μ' ∧ (μ'.dead = true ∨ InvE μ' r.1) := by
  cases input_inv hi with
  | api a hpc =>
    simp only [envOk, Bool.and_eq_true] at henv
    by_cases hq : quietApi a = true
    · obtain ⟨q, hh⟩ := qe_api s a hq hpc henv.1
      refine quiet_input hE q hh ?_ ?_ ?_ ?_ <;> (intros; intro hk; cases hk <;> simp [quietApi] at hq)
    · cases a <;> simp only [quietApi] at hq <;> try (exact absurd trivial hq)
      · have h := henv.1
        simp only [apiOk, Bool.not_eq_true'] at h
        exact stepE_evRegister μ s _ _ hR hE hpc h
      · have h := henv.1
        simp only [apiOk] at h
        exact stepE_evUnregister μ s _ hR hE hpc h
      · have h := henv.1
        simp only [apiOk] at h
        exact stepE_evPost μ s _ hE hpc h
  | wret abs km r hpc =>
    obtain ⟨q, hh⟩ := qe_afterWait s abs km r hpc
    exact quiet_input hE q hh (by simp) (by simp) (by simp) (by simp)
  | handlerEnd b hpc hb =>
    refine quiet_input hE ?_ (by simp [goto]) (by simp) (by simp) (by simp) (by simp)
    rcases hb with rfl | rfl | rfl | rfl <;> (refine ⟨?_, ?_, ?_, ?_⟩ <;> simp_all [Kick, goto])
  | free k id hpc =>
    exact quiet_input hE (qe_free s k id hpc) (by simp) (by simp) (by simp) (by simp) (by simp)
  | init k id hpc =>
    exact quiet_input hE (qe_init s k id hpc henv) (by simp) (by simp) (by simp) (by simp) (by simp)
  | time t k hpc =>
    refine quiet_input hE ?_ ?_ (by simp) (by simp) (by simp) (by simp)
    · cases k <;> (refine ⟨?_, ?_, ?_, ?_⟩ <;> simp_all [Kick, afterTime, goto])
    · cases k <;> simp [afterTime, goto]
  | xpostNop abs km e hpc =>
    simp only [envOk, Bool.and_eq_true] at henv
    exact stepE_xpost μ s e _ abs km hE hpc henv.1 hi
  | xpost abs km e ka hpc =>
    simp only [envOk, Bool.and_eq_true] at henv
    exact stepE_xpost μ s e _ abs km hE hpc henv.1 hi
  | rawGoto r okk b hpc hb =>
    refine quiet_input hE ?_ (by simp [goto]) (by simp) (by simp) (by simp) (by simp)
    rcases hb with rfl | rfl <;> (refine ⟨?_, ?_, ?_, ?_⟩ <;> simp_all [Kick, goto])
  | rawFault r okk msg hpc =>
    refine quiet_input hE ?_ (by simp [harmless]) (by simp) (by simp) (by simp) (by simp)
    refine ⟨?_, ?_, ?_, ?_⟩ <;> simp_all [Kick]
  | rawCb r okk hpc =>
    refine quiet_input hE ?_ (by simp [harmless]) (by simp) (by simp) (by simp) (by simp)
    refine ⟨?_, ?_, ?_, ?_⟩ <;> simp_all [Kick]

/-! ## the simulation relation and the main theorem -/

def R (μ : M) (s : St) : Prop := InvA s ∧ InvC s ∧ Reach s ∧ InvK s ∧ (μ.dead = true ∨ InvE μ s)

theorem R_init (m : Method) (n : Nat) (a b : Bool) : R {} (St.init m n a b) := by
  refine ⟨invA_init m n a b, invC_init m n a b, reach_init m n a b, invK_init m n a b, Or.inr ?_⟩
  refine ⟨rfl, rfl, ?_, ?_, ?_, ?_, ?_, ?_, ?_⟩ <;> simp [St.init, Kick]

theorem R_internal (μ : M) (s : St) (b : Block) (h : R μ s) (hpc : s.pc = .run b) :
    ∃ μ', ((internal s b).2.map Ev.out).foldlM Ivy.Mon.C08.step μ = .ok μ' ∧ R μ' (internal s b).1 := by
  obtain ⟨hA, hC, hR, hK, hE⟩ := h
  have hA' := invA_internal s b hA hpc
  have hC' := invC_internal s b hC hpc
  have hR' := reach_internal s b hR hpc
  have hK' := hK.frame (kf_internal s b hpc)
  rcases hE with hd | hE
  · exact ⟨μ, fold_dead μ hd _, hA', hC', hR', hK', Or.inl hd⟩
  · obtain ⟨μ', e, h'⟩ := stepE_internal μ s b hC hR hK hE hpc
    exact ⟨μ', e, hA', hC', hR', hK', h'⟩

theorem R_input (μ : M) (s : St) (i : Input) (r : St × List Out) (h : R μ s) (henv : envOk s i = true)
    (hi : input s i = some r) :
    ∃ μ', (Ev.inp i :: r.2.map Ev.out).foldlM Ivy.Mon.C08.step μ = .ok μ' ∧ R μ' r.1 := by
  obtain ⟨hA, hC, hR, hK, hE⟩ := h
  have hA' := invA_input s i r hA hi
  have hC' := invC_input s i r hC henv hi
  have hR' := reach_input s i r hR henv hi
  have hK' := invK_input s i r hK hR henv hi
  rcases hE with hd | hE
  · exact ⟨μ, fold_dead μ hd _, hA', hC', hR', hK', Or.inl hd⟩
  · obtain ⟨μ', e, h'⟩ := stepE_input μ s i r hR hE henv hi
    exact ⟨μ', e, hA', hC', hR', hK', h'⟩

theorem exec_accepts {s : St} {evs : List Ev} {s' : St} (h : Exec s evs s') :
    ∀ μ, R μ s → ∃ μ', evs.foldlM Ivy.Mon.C08.step μ = .ok μ' := by
  induction h with
  | nil s => intro μ _; exact ⟨μ, rfl⟩
  | @internal s s1 s2 b outs evs hpc hint _ ih =>
    intro μ hR
    obtain ⟨μ1, e1, hR1⟩ := R_internal μ s b hR hpc
    rw [hint] at e1 hR1
    obtain ⟨μ2, e2⟩ := ih μ1 hR1
    exact ⟨μ2, by rw [List.foldlM_append, e1]; exact e2⟩
  | @input s s1 s2 i outs evs henv hin _ ih =>
    intro μ hR
    obtain ⟨μ1, e1, hR1⟩ := R_input μ s i (s1, outs) hR henv hin
    obtain ⟨μ2, e2⟩ := ih μ1 hR1
    refine ⟨μ2, ?_⟩
    have : Ev.inp i :: (outs.map Ev.out ++ evs) = (Ev.inp i :: outs.map Ev.out) ++ evs := rfl
    rw [this, List.foldlM_append, e1]; exact e2

theorem monitor_accepts (m : Method) (ntimers : Nat) (timerfdAvail pwait2 : Bool)
    (evs : List Ev) (s' : St) (h : Exec (St.init m ntimers timerfdAvail pwait2) evs s') :
    Ivy.Mon.C08.verdict evs = none := by
  obtain ⟨μ', e⟩ := exec_accepts h {} (R_init m ntimers timerfdAvail pwait2)
  unfold Ivy.Mon.C08.verdict runMon
  rw [e]

/-! ## non-vacuity -/

def isEventCb : Ev → Bool
  | .out (.cb (.event _)) => true
  | _ => false

def isWait : Ev → Bool
  | .out (.wait ..) => true
  | _ => false

/-- an unbounded wait entered with the one-shot kick armed in the kernel -/
def isKickWait : Ev → Bool
  | .out (.wait _ .inf _ _ (some true)) => true
  | _ => false

/-- an unbounded wait (poll methods: no one-shot kick) that watches the kick raw event's descriptor for input -/
def isRawWait : Ev → Bool
  | .out (.wait _ .inf interest _ none) => Ivy.Mon.C08.kickFdWatched interest
  | _ => false

def isZeroWait : Ev → Bool
  | .out (.wait _ (.ns 0) _ _ _) => true
  | .out (.wait _ (.ms 0) _ _ _) => true
  | _ => false

/-- epoll: a foreign thread posts event 1 while the owner sleeps (the kick gets armed); the wait returns without
reporting the kick, and the loop sleeps again with the event posted and the kick armed; then the kick is
reported, the handler runs, posts its own event again (deferred `events_local` task), runs again and quits -/
def demoInputs1 : List Input :=
  [.api (.evRegister 1 true), .api (.fdRegister 3 true false false), .api .main,
   .xpost 1, .wret (.events []), .wret (.events [.kick]),
   .api (.evPost 1), .handlerEnd, .api .quit, .handlerEnd]

/-- poll: the same foreign post; the loop sleeps again with the event posted while watching the kick raw event's
descriptor, which is then reported readable; the raw read succeeds and the handler runs -/
def demoInputs2 : List Input :=
  [.api (.evRegister 1 true), .api .main,
   .xpost 1, .wret (.events []), .wret (.events [.fd (rawFd 0) ⟨true, false, false, false⟩]), .rawRead true,
   .api .quit, .handlerEnd]

/-- the owner posts before `iv_main`; the handler (run from the `events_local` task) posts the event again, which
defers `events_local` past the next poll: the loop polls with a zero timeout while the event is posted -/
def demoInputs3 : List Input :=
  [.api (.evRegister 1 true), .api (.evPost 1), .api .main,
   .api (.evPost 1), .handlerEnd, .time ⟨5, 0⟩, .wret (.events []), .api (.evUnregister 1), .handlerEnd]

def demoTrace1 := runTrace 200 (St.init .epoll 0 true true) demoInputs1
def demoTrace2 := runTrace 200 (St.init .poll 0 true true) demoInputs2
def demoTrace3 := runTrace 200 (St.init .epoll 0 true true) demoInputs3

theorem demo1_exec : Exec (St.init .epoll 0 true true) demoTrace1.1 demoTrace1.2 := runTrace_exec _ _ _
theorem demo2_exec : Exec (St.init .poll 0 true true) demoTrace2.1 demoTrace2.2 := runTrace_exec _ _ _
theorem demo3_exec : Exec (St.init .epoll 0 true true) demoTrace3.1 demoTrace3.2 := runTrace_exec _ _ _

/-- two handler runs, two waits, the second one entered with the kick armed -/
example : (demoTrace1.1.filter isEventCb).length = 2 ∧ (demoTrace1.1.filter isWait).length = 2 ∧
    (demoTrace1.1.filter isKickWait).length = 1 := by decide

/-- one handler run, two unbounded waits watching the kick raw event's descriptor (the second one with the event
posted) -/
example : (demoTrace2.1.filter isEventCb).length = 1 ∧ (demoTrace2.1.filter isWait).length = 2 ∧
    (demoTrace2.1.filter isRawWait).length = 2 := by decide

/-- two handler runs with a zero-timeout poll in between -/
example : (demoTrace3.1.filter isEventCb).length = 2 ∧ (demoTrace3.1.filter isWait).length = 1 ∧
    (demoTrace3.1.filter isZeroWait).length = 1 := by decide

example : Ivy.Mon.C08.verdict demoTrace1.1 = none := monitor_accepts _ _ _ _ _ _ demo1_exec
example : Ivy.Mon.C08.verdict demoTrace2.1 = none := monitor_accepts _ _ _ _ _ _ demo2_exec
example : Ivy.Mon.C08.verdict demoTrace3.1 = none := monitor_accepts _ _ _ _ _ _ demo3_exec

/-- the monitor is not trivially accepting: a blocking wait with a posted event and no wake-up source, and a
handler entered without a post, are rejected -/
example : (Ivy.Mon.C08.verdict [.inp (.api (.evRegister 1 true)), .out (.ret 0), .inp (.api (.evPost 1)),
    .out (.wait "poll" .inf [] none none)]).isSome = true := by decide
example : (Ivy.Mon.C08.verdict [.inp (.api (.evRegister 1 true)), .out (.ret 0),
    .out (.cb (.event 1))]).isSome = true := by decide

end Ivy.L1.ProofsC08loop
