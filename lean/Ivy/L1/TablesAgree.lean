import Ivy.Generated.Tables
import Ivy.L1.Machine
import Ivy.L1.Time
import Ivy.L1.Select
import Ivy.L2.Signal
import Ivy.Drv.Loop
/-!
# T-gen "finite tables": the model's pure helper functions agree with what the C code computes

`Ivy/Generated/Tables.lean` is rewritten before every build by `/verif/gen/gen_tables.py`: a small white-box
extractor (`/verif/gen/tables_h.c`, rebuilt from /repo's current sources) EXECUTES the real functions and prints
their value tables.  The theorems below state, by `decide` (kernel evaluation, no `native_decide`), that the
definitions the L1/L2 models are built from agree with those tables.  A change to one of the C functions changes
a table and breaks the theorem named after it at the next check.

| table(s)                                         | C function(s)                                               | model definition                         | domain            |
|--------------------------------------------------|-------------------------------------------------------------|------------------------------------------|-------------------|
| `wanted`                                         | iv_fd.c `recompute_wanted_flags`                            | `wantedOf`                               | complete (16)     |
| `epollMask`                                      | iv_fd_epoll.c `bits_to_poll_mask`                           | `epollMask`                              | complete (8)      |
| `pollMask`                                       | iv_fd_poll.c `bits_to_poll_mask`                            | `pollMaskOf` (= the driver's `fmtBandsPoll`) | complete (8)  |
| `epollEventBand`, `epollTimerfdEventBand`        | the event→band lines of `iv_fd_epoll_poll` / `iv_fd_epoll_timerfd_poll` | `bandsOfKEv`                 | complete (16 each)|
| `pollEventBand`                                  | `iv_fd_poll_activate_fds`                                   | `bandsOfKEv`                             | complete (16)     |
| `timespec`, `timespecCmpNull`                    | iv_private.h `timespec_gt`, `to_relative`, `to_msec`; iv_fd.c `timespec_cmp` | `TS.gt`, `toRelative`, `toMsec`, `tsCmp` | SAMPLED grid |
| `signalObjs`, `signalCompare`                    | iv_signal.c `iv_signal_compare`                             | `Ivy.Signal.less` (three-way: `cmp3`)    | all pairs of 8 objects |
| `exclude`                                        | iv_fd.c `method_is_excluded`                                | `Select.excludeWords` / `Select.eligible`| SAMPLE            |

For the complete-domain tables each theorem has two halves: every row of the table is what the model computes, and
every input of the model has its row in the table (so the table is not short).  The timespec grid
(sec ∈ {0,1,2,86399,86400,86401} × nsec ∈ {0,1,499999,500000,999999,10⁶,10⁹−1}, all ordered pairs; NULL first operand
for `timespec_cmp`) and the exclude sample are finite samples that cover every branch of the C functions; the
unbounded statements about the arithmetic are proved separately from the definitions (`Ivy/L1/ProofsC04.lean`).

Band sets appear in the tables as numbers: in = 1, out = 2, err = 4 (`Bands.code`); the extractor adds 8 when the C
code sets any bit outside MASKIN|MASKOUT|MASKERR, which no `Bands.code` equals.  Kernel masks carry a residual
column (all bits other than the named ones) which the theorems require to be 0: the model knows no other bits.
-/
namespace Ivy.L1.TablesAgree
open Ivy.L1 Ivy.Generated
open Ivy.Heap (TS)

/-- the number the extractor prints for a band set -/
def Bands.code (b : Bands) : Nat := (if b.i then 1 else 0) + (if b.o then 2 else 0) + (if b.e then 4 else 0)

def allBands : List Bands :=
  [⟨false, false, false⟩, ⟨true, false, false⟩, ⟨false, true, false⟩, ⟨true, true, false⟩,
   ⟨false, false, true⟩, ⟨true, false, true⟩, ⟨false, true, true⟩, ⟨true, true, true⟩]

theorem mem_allBands (b : Bands) : b ∈ allBands := by
  rcases b with ⟨_ | _, _ | _, _ | _⟩ <;> decide

def allKEv : List KEv :=
  [false, true].flatMap fun a => [false, true].flatMap fun b => [false, true].flatMap fun c =>
    [false, true].map fun d => ⟨a, b, c, d⟩

theorem mem_allKEv (ev : KEv) : ev ∈ allKEv := by
  rcases ev with ⟨_ | _, _ | _, _ | _, _ | _⟩ <;> decide

/-! ## 1. `recompute_wanted_flags` -/

/-- the only fields `wantedOf` reads -/
theorem wantedOf_congr (o : FdObj) :
    wantedOf o = wantedOf { registered := o.registered, hin := o.hin, hout := o.hout, herr := o.herr } := rfl

theorem wanted_table_agrees :
    (∀ r ∈ Tables.wanted,
      Bands.code (wantedOf { registered := r.1, hin := r.2.1, hout := r.2.2.1, herr := r.2.2.2.1 }) = r.2.2.2.2) ∧
    (∀ o : FdObj, (o.registered, o.hin, o.hout, o.herr, Bands.code (wantedOf o)) ∈ Tables.wanted) := by
  refine ⟨by decide, fun o => ?_⟩
  rw [wantedOf_congr o]
  rcases o.registered with _ | _ <;> rcases o.hin with _ | _ <;> rcases o.hout with _ | _ <;>
    rcases o.herr with _ | _ <;> decide

/-! ## 2. `bits_to_poll_mask` (epoll and poll) -/

/-- iv_fd_epoll.c: the kernel is asked for EPOLLIN iff `(epollMask b).i`, for EPOLLOUT iff `(epollMask b).o`, and
for nothing else (`(epollMask b).e = false`: there is no err bit to ask for) -/
theorem epoll_mask_table_agrees :
    (∀ r ∈ Tables.epollMask, ∀ b ∈ allBands, Bands.code b = r.1 →
      (epollMask b).i = r.2.1 ∧ (epollMask b).o = r.2.2.1 ∧ (epollMask b).e = false ∧ r.2.2.2 = 0) ∧
    (∀ b : Bands, (Bands.code b, (epollMask b).i, (epollMask b).o, 0) ∈ Tables.epollMask) := by
  refine ⟨by decide, fun b => ?_⟩
  rcases b with ⟨_ | _, _ | _, _ | _⟩ <;> decide

/-- iv_fd_poll.c `bits_to_poll_mask` as a model definition: (POLLIN, POLLOUT, POLLHUP) requested for a band set.
The L1 machine keeps the band set itself in `pfds`; the mask only shows in the replay driver's rendering of the
`WAIT` record, which `fmtBandsPoll_eq` ties to this definition. -/
def pollMaskOf (b : Bands) : Bool × Bool × Bool := (b.i, b.o, b.i || b.o || b.e)

def fmtPollMask (m : Bool × Bool × Bool) : String :=
  (if m.1 then "i" else "") ++ (if m.2.1 then "o" else "") ++ (if m.2.2 then "h" else "")

/-- the driver's formatting of a poll interest is the rendering of `pollMaskOf` -/
theorem fmtBandsPoll_eq (b : Bands) : Ivy.Drv.Loop.fmtBandsPoll b = fmtPollMask (pollMaskOf b) := rfl

/-- the driver's formatting of an epoll interest is the rendering (in, out) of `epollMask` -/
theorem fmtBandsEpoll_eq (b : Bands) :
    Ivy.Drv.Loop.fmtBandsEpoll b = (if (epollMask b).i then "i" else "") ++ (if (epollMask b).o then "o" else "") := rfl

theorem poll_mask_table_agrees :
    (∀ r ∈ Tables.pollMask, ∀ b ∈ allBands, Bands.code b = r.1 →
      pollMaskOf b = (r.2.1, r.2.2.1, r.2.2.2.1) ∧ r.2.2.2.2 = 0) ∧
    (∀ b : Bands, (Bands.code b, (pollMaskOf b).1, (pollMaskOf b).2.1, (pollMaskOf b).2.2, 0) ∈ Tables.pollMask) := by
  refine ⟨by decide, fun b => ?_⟩
  rcases b with ⟨_ | _, _ | _, _ | _⟩ <;> decide

/-! ## 3. kernel event → ready bands -/

/-- what one row of an event table says about the model: the bands, and "put on the active list iff some band" -/
def evRowOk (r : Bool × Bool × Bool × Bool × Nat × Bool) : Prop :=
  let b := bandsOfKEv ⟨r.1, r.2.1, r.2.2.1, r.2.2.2.1⟩
  Bands.code b = r.2.2.2.2.1 ∧ (!b.isZero) = r.2.2.2.2.2

instance (r) : Decidable (evRowOk r) := by unfold evRowOk; infer_instance

def evRowOf (ev : KEv) : Bool × Bool × Bool × Bool × Nat × Bool :=
  (ev.kin, ev.kout, ev.kerr, ev.khup, Bands.code (bandsOfKEv ev), !(bandsOfKEv ev).isZero)

/-- both epoll poll functions (plain and timerfd variant) -/
theorem epoll_event_band_table_agrees :
    (∀ r ∈ Tables.epollEventBand, evRowOk r) ∧ (∀ r ∈ Tables.epollTimerfdEventBand, evRowOk r) ∧
    (∀ ev : KEv, evRowOf ev ∈ Tables.epollEventBand ∧ evRowOf ev ∈ Tables.epollTimerfdEventBand) := by
  refine ⟨by decide, by decide, fun ev => ?_⟩
  rcases ev with ⟨_ | _, _ | _, _ | _, _ | _⟩ <;> decide

theorem poll_event_band_table_agrees :
    (∀ r ∈ Tables.pollEventBand, evRowOk r) ∧ (∀ ev : KEv, evRowOf ev ∈ Tables.pollEventBand) := by
  refine ⟨by decide, fun ev => ?_⟩
  rcases ev with ⟨_ | _, _ | _, _ | _, _ | _⟩ <;> decide

/-! ## 4. timespec arithmetic (sampled grid) -/

/-- row `(a, b, gt, rel, msec, cmp)`: `timespec_gt(a,b)`, `to_relative`/`to_msec` with `now = b`, `abs = a`,
`timespec_cmp(a,b)` -/
def tsRowOk (r : Int × Int × Int × Int × Bool × Int × Int × Int × Int) : Prop :=
  let a : TS := ⟨r.1, r.2.1⟩
  let b : TS := ⟨r.2.2.1, r.2.2.2.1⟩
  TS.gt a b = r.2.2.2.2.1 ∧
  toRelative b a = ⟨r.2.2.2.2.2.1, r.2.2.2.2.2.2.1⟩ ∧
  toMsec b a = r.2.2.2.2.2.2.2.1 ∧
  tsCmp (some a) b = r.2.2.2.2.2.2.2.2

instance (r) : Decidable (tsRowOk r) := by unfold tsRowOk; infer_instance

/-- SAMPLED: every row of the grid; the NULL rows are `timespec_cmp(NULL, b) = 1` -/
theorem timespec_tables_agree :
    (∀ r ∈ Tables.timespec, tsRowOk r) ∧
    (∀ r ∈ Tables.timespecCmpNull, tsCmp none ⟨r.1, r.2.1⟩ = r.2.2) := by
  refine ⟨by decide +kernel, by decide +kernel⟩

/-! ## 5. `iv_signal_compare` -/

open Ivy.Signal in
/-- the signal model's state in which interest `i` is object `i` of the extractor's array (ids = address order) -/
def sigState : Ivy.Signal.State :=
  { State.init 1 with
    sig := fun i => (Tables.signalObjs.getD i (0, false, false)).1,
    excl := fun i => (Tables.signalObjs.getD i (0, false, false)).2.1,
    this := fun i => (Tables.signalObjs.getD i (0, false, false)).2.2 }

/-- the three-way comparator the model's `less` stands for -/
def cmp3 (st : Ivy.Signal.State) (a b : Nat) : Int :=
  if Ivy.Signal.less st a b then -1 else if Ivy.Signal.less st b a then 1 else 0

/-- all ordered pairs of the universe are present, and on each the sign is the model's -/
theorem signal_compare_table_agrees :
    (∀ r ∈ Tables.signalCompare, cmp3 sigState r.1 r.2.1 = r.2.2) ∧
    (∀ i ∈ List.range Tables.signalObjs.length, ∀ j ∈ List.range Tables.signalObjs.length,
      (i, j, cmp3 sigState i j) ∈ Tables.signalCompare) := by
  refine ⟨by decide +kernel, by decide +kernel⟩

/-! ## 6. `method_is_excluded` (sample) -/

open Ivy.L1.Select in
/-- row `(exclude, name, excluded)`: `name` is one of the words the model's parser yields; and for the names of the
four methods, eligibility (with every `init` succeeding) is the negation -/
def exRowOk (r : Option String × String × Bool) : Prop :=
  ((match r.1 with | some s => excludeWords s | none => []).contains r.2.1) = r.2.2 ∧
  ∀ m ∈ candidates, methodName m = r.2.1 → eligible r.1 (fun _ => true) m = !r.2.2

instance (r) : Decidable (exRowOk r) := by unfold exRowOk; infer_instance

theorem exclude_table_agrees : ∀ r ∈ Tables.exclude, exRowOk r := by decide +kernel

/-! ## Non-vacuity: the tables have the expected sizes (an extractor that fails leaves them empty) -/

example : Tables.extractorError = "" := rfl
example : Tables.wanted.length = 16 := rfl
example : Tables.epollMask.length = 8 := rfl
example : Tables.pollMask.length = 8 := rfl
example : Tables.epollEventBand.length = 16 := rfl
example : Tables.epollTimerfdEventBand.length = 16 := rfl
example : Tables.pollEventBand.length = 16 := rfl
example : Tables.timespec.length = 1764 := by decide +kernel
example : Tables.timespecCmpNull.length = 42 := rfl
example : Tables.signalObjs.length = 8 := rfl
example : Tables.signalCompare.length = 64 := rfl
example : Tables.exclude.length = 207 := rfl

/-- the sizes as one citable statement -/
theorem table_sizes :
    Tables.wanted.length = 16 ∧ Tables.epollMask.length = 8 ∧ Tables.pollMask.length = 8 ∧
    Tables.epollEventBand.length = 16 ∧ Tables.epollTimerfdEventBand.length = 16 ∧ Tables.pollEventBand.length = 16 ∧
    Tables.timespec.length = 1764 ∧ Tables.timespecCmpNull.length = 42 ∧
    Tables.signalObjs.length = 8 ∧ Tables.signalCompare.length = 64 ∧ Tables.exclude.length = 207 ∧
    Tables.extractorError = "" := by
  decide +kernel

end Ivy.L1.TablesAgree
