import Ivy.L1.Exec
import Ivy.Mon.C07
import Ivy.Props.C05
/-!
# Proof of C07 (iv_main returns iff quit or nothing registered) over the L1 loop machine
-/
set_option linter.unusedSimpArgs false
set_option linter.unusedVariables false

namespace Ivy.L1.ProofsC07
open Ivy.L1 Ivy.Heap
open Ivy.Mon.C07 (M count nonBlocking)

/-! ## normal forms of the descriptor helpers: they only touch `fds` (never `registered`), `notify`,
`pfds`, `kint` -/

def RegSame (F G : FdId → FdObj) : Prop := ∀ g, (F g).registered = (G g).registered

theorem RegSame.refl (F : FdId → FdObj) : RegSame F F := fun _ => rfl
theorem RegSame.trans {F G H : FdId → FdObj} (h1 : RegSame F G) (h2 : RegSame G H) : RegSame F H :=
  fun g => (h1 g).trans (h2 g)

theorem regSame_upd (F : FdId → FdObj) (f : FdId) (o : FdObj) (h : o.registered = (F f).registered) :
    RegSame (upd F f o) F := by
  intro g; unfold upd; split
  · next e => subst e; exact h
  · rfl

theorem epollNotify_nf (s : St) (f : FdId) : ∃ N, epollNotify s f = { s with notify := N } :=
  ⟨_, rfl⟩

theorem epollFlushOne_nf (s : St) (f : FdId) :
    ∃ N K F, epollFlushOne s f = { s with notify := N, kint := K, fds := F } ∧ RegSame F s.fds := by
  unfold epollFlushOne
  dsimp only
  split
  · exact ⟨_, _, _, rfl, RegSame.refl _⟩
  · exact ⟨_, _, _, rfl, regSame_upd _ _ _ rfl⟩

theorem pollNotify_nf (s : St) (f : FdId) :
    ∃ P F, pollNotify s f = { s with pfds := P, fds := F } ∧ RegSame F s.fds := by
  unfold pollNotify
  dsimp only
  split
  · split
    · exact ⟨_, _, rfl, regSame_upd _ _ _ rfl⟩
    · exact ⟨_, _, rfl, RegSame.refl _⟩
  · split
    · split
      · split
        · refine ⟨_, _, rfl, ?_⟩
          intro g; simp only [upd]; split
          · next e => subst e; rfl
          · split
            · next e => subst e; rfl
            · rfl
        · exact ⟨_, _, rfl, RegSame.refl _⟩
      · exact ⟨_, _, rfl, regSame_upd _ _ _ rfl⟩
    · exact ⟨_, _, rfl, RegSame.refl _⟩

theorem notifyFd_nf (s : St) (f : FdId) :
    ∃ F N P, notifyFd s f = { s with fds := F, notify := N, pfds := P } ∧ RegSame F s.fds := by
  unfold notifyFd
  have h0 : RegSame (upd s.fds f { (s.fds f) with wanted := wantedOf (s.fds f) }) s.fds :=
    regSame_upd _ _ _ rfl
  simp only []
  split
  · obtain ⟨N, e⟩ := epollNotify_nf { s with fds := upd s.fds f { (s.fds f) with wanted := wantedOf (s.fds f) } } f
    rw [e]; exact ⟨_, _, _, rfl, h0⟩
  · obtain ⟨P, F, e, h⟩ := pollNotify_nf { s with fds := upd s.fds f { (s.fds f) with wanted := wantedOf (s.fds f) } } f
    rw [e]; exact ⟨_, _, _, rfl, h.trans h0⟩


theorem fdReg_upd (F : FdId → FdObj) (f : FdId) (o : FdObj) :
    (fun g => (upd F f o g).registered) = upd (fun g => (F g).registered) f o.registered := by
  funext g; unfold upd; split <;> rfl

theorem fdReg_congr {F G : FdId → FdObj} (h : RegSame F G) :
    (fun f => (F f).registered) = (fun f => (G f).registered) := funext h

theorem fdRegisterCore_nf (s : St) (f : FdId) (a b c : Bool) :
    ∃ F N P, fdRegisterCore s f a b c =
        { s with fds := F, notify := N, pfds := P, numobjs := s.numobjs + 1, numfds := s.numfds + 1 } ∧
      (fun g => (F g).registered) = upd (fun g => (s.fds g).registered) f true := by
  unfold fdRegisterCore
  dsimp only
  obtain ⟨F, N, P, e, h⟩ := notifyFd_nf ({ s with fds := upd s.fds f { (s.fds f) with hin := a, hout := b, herr := c, registered := true, ready := {}, regBands := {}, index := none }, notify := s.notify.erase f } : St) f
  rw [e]
  refine ⟨F, N, P, rfl, ?_⟩
  rw [fdReg_congr h]; exact fdReg_upd _ _ _

theorem fdUnregisterCore_nf (s : St) (f : FdId) :
    ∃ F N P K H, fdUnregisterCore s f =
        { s with fds := F, notify := N, pfds := P, kint := K, handled := H, stack := s.stack.map (eraseActive · f),
                 numobjs := s.numobjs - 1, numfds := s.numfds - 1 } ∧
      (fun g => (F g).registered) = upd (fun g => (s.fds g).registered) f false := by
  unfold fdUnregisterCore
  dsimp only
  obtain ⟨F, N, P, e, h⟩ := notifyFd_nf ({ s with fds := upd s.fds f { (s.fds f) with registered := false }, stack := s.stack.map (eraseActive · f) } : St) f
  rw [e]
  have h1 : (fun g => (F g).registered) = upd (fun g => (s.fds g).registered) f false := by
    rw [fdReg_congr h]; exact fdReg_upd _ _ _
  split
  · obtain ⟨N', K', F', e', h'⟩ := epollFlushOne_nf ({ s with stack := s.stack.map (eraseActive · f), fds := F, notify := N, pfds := P } : St) f
    rw [e']
    refine ⟨F', N', P, K', _, rfl, ?_⟩
    rw [fdReg_congr h']; exact h1
  · exact ⟨F, N, P, s.kint, _, rfl, h1⟩

theorem rawRegisterCore_nf (s : St) (r : RawId) :
    ∃ F N P, rawRegisterCore s r =
        { s with fds := F, notify := N, pfds := P, numobjs := s.numobjs + 1, numfds := s.numfds + 1,
                 raws := upd s.raws r { (s.raws r) with registered := true } } ∧
      (fun g => (F g).registered) = upd (fun g => (s.fds g).registered) (rawFd r) true := by
  unfold rawRegisterCore
  dsimp only
  obtain ⟨F, N, P, e, h⟩ := fdRegisterCore_nf s (rawFd r) true false false
  rw [e]
  exact ⟨F, N, P, rfl, h⟩

theorem rawUnregisterCore_nf (s : St) (r : RawId) :
    ∃ F N P K H, rawUnregisterCore s r =
        { s with fds := F, notify := N, pfds := P, kint := K, handled := H,
                 stack := s.stack.map (eraseActive · (rawFd r)),
                 numobjs := s.numobjs - 1, numfds := s.numfds - 1,
                 raws := upd s.raws r { (s.raws r) with registered := false } } ∧
      (fun g => (F g).registered) = upd (fun g => (s.fds g).registered) (rawFd r) false := by
  unfold rawUnregisterCore
  dsimp only
  obtain ⟨F, N, P, K, H, e, h⟩ := fdUnregisterCore_nf s (rawFd r)
  rw [e]
  exact ⟨F, N, P, K, H, rfl, h⟩

theorem rawReg_upd (R : RawId → RawObj) (r : RawId) (o : RawObj) :
    (fun q => (upd R r o q).registered) = upd (fun q => (R q).registered) r o.registered := by
  funext g; unfold upd; split <;> rfl

theorem evReg_upd (E : EvId → EvObj) (e : EvId) (o : EvObj) :
    (fun q => (upd E e o q).registered) = upd (fun q => (E q).registered) e o.registered := by
  funext g; unfold upd; split <;> rfl

/-! ## the part of the machine state the property depends on -/

structure V where
  pc : Pc
  stack : List Frame
  quit : Bool
  numobjs : Int
  heap : Store
  tasks : List TaskId
  eventCount : Int
  fdReg : FdId → Bool
  rawReg : RawId → Bool
  evReg : EvId → Bool
  time : TS
  lastAbs : TS
  lastAbsCount : Nat
  ktimer : Option TS
  timerfd : Bool
  method : Method

def view (s : St) : V :=
  { pc := s.pc, stack := s.stack, quit := s.quit, numobjs := s.numobjs, heap := s.heap, tasks := s.tasks,
    eventCount := s.eventCount, fdReg := fun f => (s.fds f).registered, rawReg := fun r => (s.raws r).registered,
    evReg := fun e => (s.evs e).registered, time := s.time, lastAbs := s.lastAbs, lastAbsCount := s.lastAbsCount,
    ktimer := s.ktimer, timerfd := s.timerfd, method := s.method }


@[simp] theorem view_epollNotify (s : St) (f : FdId) : view (epollNotify s f) = view s := rfl

@[simp] theorem view_epollFlushOne (s : St) (f : FdId) : view (epollFlushOne s f) = view s := by
  obtain ⟨N, K, F, e, h⟩ := epollFlushOne_nf s f
  rw [e]; simp only [view, fdReg_congr h]

@[simp] theorem view_pollNotify (s : St) (f : FdId) : view (pollNotify s f) = view s := by
  obtain ⟨P, F, e, h⟩ := pollNotify_nf s f
  rw [e]; simp only [view, fdReg_congr h]

@[simp] theorem view_notifyFd (s : St) (f : FdId) : view (notifyFd s f) = view s := by
  obtain ⟨F, N, P, e, h⟩ := notifyFd_nf s f
  rw [e]; simp only [view, fdReg_congr h]


/-! ## shape of the frame stack -/

inductive Good : List Frame → Prop
  | nil : Good []
  | timers (r) : Good [.timers r]
  | tasks (r) : Good [.tasks r]
  | poll (a rt) : Good [.poll a rt]
  | fd (c n a rt) : Good [.fd c n, .poll a rt]
  | evTasks (b r) : Good [.events b, .tasks r]
  | evPoll (b a rt) : Good [.events b, .poll a rt]
  | evFd (b c n a rt) : Good [.events b, .fd c n, .poll a rt]

def tasksOf : List Frame → List TaskId
  | [] => []
  | .tasks r :: rest => r ++ tasksOf rest
  | _ :: rest => tasksOf rest

def batchOf : List Frame → List Nat
  | [] => []
  | .timers r :: rest => r ++ batchOf rest
  | _ :: rest => batchOf rest

/-- the stacks on which `__iv_event_run_pending_events` can start -/
def noEvTop : List Frame → Prop
  | [.tasks _] | [.poll _ _] | [.fd _ _, .poll _ _] => True
  | _ => False

theorem taskOnList_iff (s : St) (k : TaskId) : taskOnList s k = true ↔ k ∈ s.tasks ++ tasksOf s.stack := by
  unfold taskOnList
  generalize s.stack = st
  induction st with
  | nil => simp [tasksOf]
  | cons fr rest ih =>
    cases fr <;> simp_all [tasksOf] <;> grind

theorem good_map_eraseActive {st} (h : Good st) (f : FdId) : Good (st.map (eraseActive · f)) := by
  cases h <;> simp [eraseActive] <;> constructor
theorem good_map_eraseTask {st} (h : Good st) (k : TaskId) : Good (st.map (eraseTask · k)) := by
  cases h <;> simp [eraseTask] <;> constructor
theorem good_map_appendTaskBatch {st} (h : Good st) (k : TaskId) : Good (st.map (appendTaskBatch · k)) := by
  cases h <;> simp [appendTaskBatch] <;> constructor
theorem good_map_eraseEvent {st} (h : Good st) (e : EvId) : Good (st.map (eraseEvent · e)) := by
  cases h <;> simp [eraseEvent] <;> constructor
theorem good_map_setTimerBatch {st} (h : Good st) (b : List Nat) : Good (st.map (setTimerBatch · b)) := by
  cases h <;> simp [setTimerBatch] <;> constructor

theorem tasksOf_map_eraseActive {st} (h : Good st) (f : FdId) : tasksOf (st.map (eraseActive · f)) = tasksOf st := by
  cases h <;> simp [eraseActive, tasksOf]
theorem batchOf_map_eraseActive {st} (h : Good st) (f : FdId) : batchOf (st.map (eraseActive · f)) = batchOf st := by
  cases h <;> simp [eraseActive, batchOf]
theorem tasksOf_map_eraseEvent {st} (h : Good st) (e : EvId) : tasksOf (st.map (eraseEvent · e)) = tasksOf st := by
  cases h <;> simp [eraseEvent, tasksOf]
theorem batchOf_map_eraseEvent {st} (h : Good st) (e : EvId) : batchOf (st.map (eraseEvent · e)) = batchOf st := by
  cases h <;> simp [eraseEvent, batchOf]
theorem batchOf_map_eraseTask {st} (h : Good st) (k : TaskId) : batchOf (st.map (eraseTask · k)) = batchOf st := by
  cases h <;> simp [eraseTask, batchOf]
theorem batchOf_map_appendTaskBatch {st} (h : Good st) (k : TaskId) : batchOf (st.map (appendTaskBatch · k)) = batchOf st := by
  cases h <;> simp [appendTaskBatch, batchOf]
theorem tasksOf_map_setTimerBatch {st} (h : Good st) (b : List Nat) : tasksOf (st.map (setTimerBatch · b)) = tasksOf st := by
  cases h <;> simp [setTimerBatch, tasksOf]

theorem tasksOf_map_eraseTask {st} (h : Good st) (k : TaskId) : tasksOf (st.map (eraseTask · k)) = (tasksOf st).erase k := by
  cases h <;> simp [eraseTask, tasksOf]

theorem tasksOf_map_appendTaskBatch {st} (h : Good st) (k : TaskId) (hr : st.any (fun fr => match fr with | .tasks _ => true | _ => false) = true) :
    tasksOf (st.map (appendTaskBatch · k)) = tasksOf st ++ [k] := by
  cases h <;> simp_all [appendTaskBatch, tasksOf]

theorem tasksOf_of_not_inRun {st} (hr : st.any (fun fr => match fr with | .tasks _ => true | _ => false) = false) :
    tasksOf st = [] := by
  induction st with
  | nil => rfl
  | cons fr rest ih => cases fr <;> simp_all [tasksOf]

theorem timerBatch_eq {s : St} (h : Good s.stack) : timerBatch s = batchOf s.stack := by
  unfold timerBatch
  generalize s.stack = st at h
  cases h <;> simp [batchOf]

/-- result of `setTimerBatch` over the stack: the batch is replaced if there is a timers frame -/
theorem batchOf_map_setTimerBatch {st} (h : Good st) (b : List Nat) :
    batchOf (st.map (setTimerBatch · b)) = b ∨ (batchOf st = [] ∧ batchOf (st.map (setTimerBatch · b)) = []) := by
  cases h <;> simp [setTimerBatch, batchOf]


/-! ## timers: monitor list vs heap and expired batch -/

structure Tm (μt : List Nat) (h : Store) (b : List Nat) : Prop where
  hinv : HeapInv h
  b_idx : ∀ t, t ∈ b ↔ h.idx[t]? = some 0
  b_nd : b.Nodup
  mem : ∀ t, (h.idx[t]? = some 0 ∨ onHeap h t) → t ∈ μt
  len : μt.length = h.num + b.length
  exp_nn : ∀ t, onHeap h t → 0 ≤ (expOf h t).sec ∧ 0 ≤ (expOf h t).nsec

theorem Tm_init (n : Nat) : Tm [] (Store.init n) [] := by
  refine ⟨Ivy.Props.C05.init_inv n, ?_, List.nodup_nil, ?_, by simp [Store.init], ?_⟩
  · intro t; simp [Store.init, Array.getElem?_replicate]
  · intro t ht
    rcases ht with ht | ⟨i, hi, ht⟩ <;> simp [Store.init, Array.getElem?_replicate] at ht
  · intro t ⟨i, hi, ht⟩
    simp [Store.init, Array.getElem?_replicate] at ht

def clrIdx (h : Store) (t : Nat) : Store := { h with idx := h.idx.setIfInBounds t (-1) }

theorem clrIdx_idx (h : Store) (t u : Nat) :
    (clrIdx h t).idx[u]? = if t = u then (if t < h.idx.size then some (-1) else none) else h.idx[u]? := by
  simp only [clrIdx, Array.getElem?_setIfInBounds]

theorem clrIdx_inv {h : Store} {t : Nat} (hi : HeapInv h) (ht : h.idx[t]? = some 0) : HeapInv (clrIdx h t) := by
  constructor
  · exact hi.size_eq
  · exact hi.num_lt
  · exact hi.shrunk
  · simp [clrIdx, hi.exp_idx]
  · intro i h1 h2
    obtain ⟨a, ha, hia⟩ := hi.occupied i h1 h2
    refine ⟨a, ha, ?_⟩
    rw [clrIdx_idx]
    have : t ≠ a := by
      intro e; subst e; rw [ht] at hia; have := Option.some.inj hia; omega
    rw [if_neg this]; exact hia
  · exact hi.tail_null
  · intro u i h1 hu
    rw [clrIdx_idx] at hu
    by_cases e : t = u
    · rw [if_pos e] at hu; split at hu
      · have := Option.some.inj hu; omega
      · cases hu
    · rw [if_neg e] at hu; exact hi.back u i h1 hu
  · intro u w hu
    rw [clrIdx_idx] at hu
    by_cases e : t = u
    · rw [if_pos e] at hu; split at hu
      · have := Option.some.inj hu; omega
      · cases hu
    · rw [if_neg e] at hu; exact hi.idx_ge u w hu
  · exact hi.order

theorem clrIdx_onHeap {h : Store} {t u : Nat} (hu : onHeap (clrIdx h t) u) : u ≠ t ∧ onHeap h u := by
  obtain ⟨i, h1, hi⟩ := hu
  rw [clrIdx_idx] at hi
  by_cases e : t = u
  · rw [if_pos e] at hi; split at hi
    · have := Option.some.inj hi; omega
    · cases hi
  · rw [if_neg e] at hi; exact ⟨fun e' => e e'.symm, i, h1, hi⟩

theorem clrIdx_zero {h : Store} {t u : Nat} (hu : (clrIdx h t).idx[u]? = some 0) : u ≠ t ∧ h.idx[u]? = some 0 := by
  rw [clrIdx_idx] at hu
  by_cases e : t = u
  · rw [if_pos e] at hu; split at hu <;> cases hu
  · rw [if_neg e] at hu; exact ⟨fun e' => e e'.symm, hu⟩

/-- a timer of the expired batch leaves it (its handler is about to run, or it is unregistered) -/
theorem Tm_clr {μt h b} {t : Nat} (hT : Tm μt h b) (ht : h.idx[t]? = some 0) :
    Tm (μt.erase t) (clrIdx h t) (b.erase t) := by
  have htb : t ∈ b := (hT.b_idx t).2 ht
  have htm : t ∈ μt := hT.mem t (Or.inl ht)
  refine ⟨clrIdx_inv hT.hinv ht, ?_, hT.b_nd.erase t, ?_, ?_, ?_⟩
  · intro u
    rw [hT.b_nd.mem_erase_iff]
    constructor
    · rintro ⟨hne, hu⟩
      rw [clrIdx_idx, if_neg (fun e => hne e.symm)]; exact (hT.b_idx u).1 hu
    · intro hu
      obtain ⟨hne, hu'⟩ := clrIdx_zero hu
      exact ⟨hne, (hT.b_idx u).2 hu'⟩
  · intro u hu
    have : u ≠ t ∧ (h.idx[u]? = some 0 ∨ onHeap h u) := by
      rcases hu with hu | hu
      · exact ⟨(clrIdx_zero hu).1, Or.inl (clrIdx_zero hu).2⟩
      · exact ⟨(clrIdx_onHeap hu).1, Or.inr (clrIdx_onHeap hu).2⟩
    exact (List.mem_erase_of_ne this.1).2 (hT.mem u this.2)
  · rw [List.length_erase_of_mem htm, List.length_erase_of_mem htb, hT.len]
    have := List.length_pos_of_mem htb
    show h.num + b.length - 1 = h.num + (b.length - 1)
    omega
  · intro u hu
    exact hT.exp_nn u (clrIdx_onHeap hu).2

theorem getD_of_getElem? {h : Store} {t : Nat} {v : Int} (ht : h.idx[t]? = some v) : h.idx.getD t (-1) = v := by
  rw [Array.getD_eq_getD_getElem?, ht]; rfl

theorem Tm_register {μt h b} {t : Nat} {e : TS} (hT : Tm μt h b) (hts : t < h.idx.size)
    (he1 : 0 ≤ e.sec) (he2 : 0 ≤ e.nsec) :
    (∃ m, register h t e = .fatal h m) ∨
    (∃ h', register h t e = .ok h' ∧ Tm (μt ++ [t]) h' b ∧ h'.num = h.num + 1) := by
  obtain ⟨v, hv⟩ : ∃ v, h.idx[t]? = some v := ⟨h.idx[t], by simp [hts]⟩
  by_cases hneg : v = -1
  · subst hneg
    right
    obtain ⟨h', e1, hinv', hon, hexp, hnum, hsize, hfr⟩ := Ivy.Props.C05.register_ok h t e hT.hinv hv
    refine ⟨h', e1, ⟨hinv', ?_, hT.b_nd, ?_, ?_, ?_⟩, hnum⟩
    · intro u
      by_cases hu : u = t
      · subst hu
        rw [hT.b_idx, hv]
        obtain ⟨i, hi1, hi⟩ := hon
        rw [hi]
        constructor
        · intro hh; cases hh
        · intro hh; have := Option.some.inj hh; omega
      · rw [hT.b_idx, (hfr u hu).2.1]
    · intro u hu'
      by_cases hu : u = t
      · subst hu; simp
      · rw [(hfr u hu).2.1, (hfr u hu).2.2.1] at hu'
        exact List.mem_append_left _ (hT.mem u hu')
    · simp [hT.len, hnum]; omega
    · intro u hu'
      by_cases hu : u = t
      · subst hu; rw [hexp]; exact ⟨he1, he2⟩
      · rw [(hfr u hu).2.2.1] at hu'
        rw [(hfr u hu).2.2.2]; exact hT.exp_nn u hu'
  · left
    unfold register
    rw [getD_of_getElem? hv]
    simp [hneg]

theorem Tm_unregister {μt h b} {t : Nat} (hT : Tm μt h b) (hts : t < h.idx.size) :
    (∃ m, unregister h b t = (.fatal h m, b)) ∨
    (h.idx.getD t (-1) = 0 ∧ unregister h b t = (.ok (clrIdx h t), b.erase t) ∧
        Tm (μt.erase t) (clrIdx h t) (b.erase t)) ∨
    (1 ≤ h.idx.getD t (-1) ∧ ∃ h', unregister h b t = (.ok h', b) ∧ Tm (μt.erase t) h' b ∧ h'.num + 1 = h.num) := by
  obtain ⟨v, hv⟩ : ∃ v, h.idx[t]? = some v := ⟨h.idx[t], by simp [hts]⟩
  have hge := hT.hinv.idx_ge t v hv
  have hgd := getD_of_getElem? hv
  by_cases h1 : v = -1
  · left
    unfold unregister
    simp only [hgd, h1]
    simp
  by_cases h0 : v = 0
  · right; left
    subst h0
    refine ⟨hgd, ?_, Tm_clr hT hv⟩
    unfold unregister
    simp only [hgd]
    simp [clrIdx]
  · right; right
    have hon : onHeap h t := ⟨v.toNat, by omega, by rw [hv]; congr 1; omega⟩
    obtain ⟨h', e1, hinv', hidx', hnum, hsize, hfr⟩ := Ivy.Props.C05.unregister_ok h b t hT.hinv hon
    refine ⟨by omega, h', e1, ⟨hinv', ?_, hT.b_nd, ?_, ?_, ?_⟩, hnum⟩
    · intro u
      by_cases hu : u = t
      · subst hu
        rw [hT.b_idx, hv, hidx']
        constructor
        · intro hh; have := Option.some.inj hh; omega
        · intro hh; cases hh
      · rw [hT.b_idx, (hfr u hu).2.1]
    · intro u hu'
      have hu : u ≠ t := by
        intro e; subst e
        rcases hu' with hu' | ⟨i, hi1, hi⟩
        · rw [hidx'] at hu'; cases hu'
        · rw [hidx'] at hi; have := Option.some.inj hi; omega
      rw [(hfr u hu).2.1, (hfr u hu).2.2.1] at hu'
      exact (List.mem_erase_of_ne hu).2 (hT.mem u hu')
    · rw [List.length_erase_of_mem (hT.mem t (Or.inr hon)), hT.len]; omega
    · intro u hu'
      have hu : u ≠ t := by
        intro e; subst e
        obtain ⟨i, hi1, hi⟩ := hu'
        rw [hidx'] at hi; have := Option.some.inj hi; omega
      rw [(hfr u hu).2.2.1] at hu'
      rw [(hfr u hu).2.2.2]; exact hT.exp_nn u hu'


theorem collect_num (now : TS) : ∀ (fuel : Nat) (s : Store) (acc : List Nat) (s' : Store) (b : List Nat),
    HeapInv s → collect s now fuel acc = (.ok s', b) → s'.num + b.length = s.num + acc.length := by
  intro fuel
  induction fuel with
  | zero =>
    intro s acc s' b _ h
    simp only [collect] at h
    injection h with h1 h2
    injection h1 with h1
    subst h1; subst h2; rfl
  | succ fuel ih =>
    intro s acc s' b hinv h
    rw [collect] at h
    by_cases hz : s.num = 0
    · rw [if_pos hz] at h
      injection h with h1 h2
      injection h1 with h1
      subst h1; subst h2; rfl
    · rw [if_neg hz] at h
      obtain ⟨r, hr, hir⟩ := hinv.occupied 1 (Nat.le_refl _) (by omega)
      have hgetD : s.idx.getD r (-1) = 1 := by
        rw [Array.getD_eq_getD_getElem?, hir]; rfl
      simp only [getSlot, hr, hgetD, bne_self_eq_false, Bool.false_eq_true, if_false] at h
      rcases Bool.eq_false_or_eq_true ((expOf s r).gt now) with hgt | hgt
      · rw [if_pos hgt] at h
        injection h with h1 h2
        injection h1 with h1
        subst h1; subst h2; rfl
      · rw [hgt] at h
        simp only [Bool.false_eq_true, if_false] at h
        obtain ⟨s1, e1, hinv1, _, hn1, _⟩ :=
          Ivy.Heap.Proofs.remove_ok s r 1 0 hinv (Nat.le_refl _) hir (by omega) (by omega)
        rw [e1] at h
        have := ih (Ivy.Heap.Proofs.setIdx s1 r 0) (acc ++ [r]) s' b hinv1 h
        rw [this, List.length_append]
        simp only [List.length_cons, List.length_nil]
        omega

theorem Tm_collect {μt h} (now : TS) (hT : Tm μt h []) :
    ∃ h' batch, runCollect h now = (.ok h', batch) ∧ Tm μt h' batch ∧ h'.num + batch.length = h.num := by
  obtain ⟨h', batch, e, hinv', _, hnd, hb, hon, hz, hexp, hfr⟩ := Ivy.Props.C05.collect_sorted h now hT.hinv
  have hnum : h'.num + batch.length = h.num := by
    have := collect_num now h.num h [] h' batch hT.hinv (by rw [← e]; rfl)
    simpa using this
  have hno0 : ∀ t : Nat, h.idx[t]? ≠ some 0 := by
    intro t ht
    have := (hT.b_idx t).2 ht
    cases this
  refine ⟨h', batch, e, ⟨hinv', ?_, hnd, ?_, ?_, ?_⟩, hnum⟩
  · intro t
    constructor
    · exact hz t
    · intro ht
      by_cases hoh : onHeap h t
      · by_cases hle : (expOf h t).gt now = true
        · obtain ⟨i, hi1, hi⟩ := (hon t).2 ⟨hoh, hle⟩
          rw [hi] at ht; have := Option.some.inj ht; omega
        · exact (hb t).2 ⟨hoh, by unfold TS.le; simpa using hle⟩
      · rw [hfr t hoh] at ht; exact absurd ht (hno0 t)
  · intro t ht
    by_cases hoh : onHeap h t
    · exact hT.mem t (Or.inr hoh)
    · rcases ht with ht | ht
      · rw [hfr t hoh] at ht; exact absurd ht (hno0 t)
      · exact absurd ((hon t).1 ht).1 hoh
  · rw [hT.len]; simp; omega
  · intro t ht
    rw [hexp t]; exact hT.exp_nn t ((hon t).1 ht).1

theorem soonest_nn {μt h b} (hT : Tm μt h b) {a : TS} (ha : soonest h = some a) : 0 ≤ a.sec ∧ 0 ≤ a.nsec := by
  unfold soonest at ha
  by_cases hz : h.num = 0
  · rw [if_pos hz] at ha; cases ha
  · rw [if_neg hz] at ha
    obtain ⟨r, hr, hir⟩ := hT.hinv.occupied 1 (Nat.le_refl _) (by omega)
    simp only [getSlot, hr] at ha
    cases ha
    exact hT.exp_nn r ⟨1, Nat.le_refl _, hir⟩


/-! ## tasks: monitor list vs the machine's task lists (including the internal task 0) -/

structure Tk (μk all : List TaskId) : Prop where
  nd : all.Nodup
  mem : ∀ k, k ∈ all → k ≠ 0 → k ∈ μk
  len : all.length = μk.length + (if 0 ∈ all then 1 else 0)

theorem Tk_nil : Tk [] [] := ⟨List.nodup_nil, by simp, by simp⟩

theorem Tk_perm {μk all all'} (h : Tk μk all) (hp : all'.Perm all) : Tk μk all' := by
  refine ⟨hp.nodup_iff.2 h.nd, fun k hk => h.mem k (hp.mem_iff.1 hk), ?_⟩
  rw [hp.length_eq, h.len]
  simp only [hp.mem_iff]

theorem Tk_cons_user {μk all} {k : TaskId} (h : Tk μk all) (hk : k ∉ all) (h0 : k ≠ 0) :
    Tk (μk ++ [k]) (k :: all) := by
  refine ⟨List.nodup_cons.2 ⟨hk, h.nd⟩, ?_, ?_⟩
  · intro j hj hj0
    rcases List.mem_cons.1 hj with e | hj
    · subst e; simp
    · exact List.mem_append_left _ (h.mem j hj hj0)
  · have : (0 ∈ k :: all) ↔ 0 ∈ all := by
      simp [List.mem_cons]; intro e; exact absurd e.symm h0
    simp only [List.length_cons, List.length_append, List.length_nil, h.len, this]
    omega

theorem Tk_cons_zero {μk all} (h : Tk μk all) (hk : 0 ∉ all) : Tk μk (0 :: all) := by
  refine ⟨List.nodup_cons.2 ⟨hk, h.nd⟩, ?_, ?_⟩
  · intro j hj hj0
    rcases List.mem_cons.1 hj with e | hj
    · exact absurd e hj0
    · exact h.mem j hj hj0
  · simp [h.len, hk]

theorem Tk_erase_user {μk all} {k : TaskId} (h : Tk μk all) (hk : k ∈ all) (h0 : k ≠ 0) :
    Tk (μk.erase k) (all.erase k) := by
  refine ⟨h.nd.erase k, ?_, ?_⟩
  · intro j hj hj0
    rw [h.nd.mem_erase_iff] at hj
    exact (List.mem_erase_of_ne hj.1).2 (h.mem j hj.2 hj0)
  · have : (0 ∈ all.erase k) ↔ 0 ∈ all := List.mem_erase_of_ne (fun e => h0 e.symm)
    rw [List.length_erase_of_mem hk, List.length_erase_of_mem (h.mem k hk h0), h.len]
    simp only [this]
    have := List.length_pos_of_mem (h.mem k hk h0)
    omega

theorem Tk_erase_zero {μk all} (h : Tk μk all) (hk : 0 ∈ all) : Tk μk (all.erase 0) := by
  refine ⟨h.nd.erase 0, ?_, ?_⟩
  · intro j hj hj0
    rw [h.nd.mem_erase_iff] at hj
    exact h.mem j hj.2 hj0
  · have : ¬ (0 ∈ all.erase 0) := by rw [h.nd.mem_erase_iff]; simp
    rw [List.length_erase_of_mem hk, h.len]
    simp [this, hk]

theorem erase_append_nodup {a b : List Nat} (k : Nat) (h : (a ++ b).Nodup) :
    a.erase k ++ b.erase k = (a ++ b).erase k := by
  rw [List.erase_append]
  rw [List.nodup_append] at h
  split
  · next hk =>
    have : k ∉ b := fun hb => h.2.2 k hk k hb rfl
    rw [List.erase_of_not_mem this]
  · next hk => rw [List.erase_of_not_mem hk]

/-! ## program-counter classes -/

def pcIdle : Pc → Bool
  | .run (.mainTop _) | .run .collect | .run .startTasks | .run .exitCheck | .run .prepWait
  | .run (.flush _ _) | .run (.wait _ _) | .waiting _ _ | .needTime .forTimers | .needTime (.forWait _ _) => true
  | _ => false

def pcUserish : Pc → Bool
  | .user | .needTime .forValidate => true
  | _ => false

def pcNoEv : Pc → Bool
  | .run .runEvents | .needRawRead _ => true
  | _ => false

def waitInfo : Pc → Option (Option TS × Bool)
  | .run (.flush a k) | .run (.wait a k) | .waiting a k | .needTime (.forWait a k) => some (a, k)
  | _ => none

def WaitOk (v : V) (a : Option TS) (k : Bool) : Prop :=
  v.quit = false ∧ v.numobjs ≠ 0 ∧
  (k = true → a = none ∧ v.method = .epollTimerfd ∧ v.lastAbsCount = 5) ∧
  (k = false → v.method = .epollTimerfd → v.lastAbsCount ≠ 5) ∧
  (v.tasks ≠ [] → a = some ⟨0, 0⟩ ∨ (k = true ∧ v.timerfd = true ∧ v.ktimer = some ⟨0, 1⟩))

def ktOf (la : TS) : TS := if la.sec == 0 && la.nsec == 0 then ⟨0, 1⟩ else la

structure Inv (μ : M) (v : V) : Prop where
  mdead : μ.dead = false
  quit_eq : μ.quit = v.quit
  good : Good v.stack
  idle : pcIdle v.pc = true → v.stack = []
  noev : pcNoEv v.pc = true → noEvTop v.stack
  inCb : μ.inCb = true → pcUserish v.pc = true ∧ v.stack ≠ []
  inMain : (v.stack ≠ [] ∨ pcUserish v.pc = false) → μ.inMain = true
  tm : Tm μ.timers v.heap (batchOf v.stack)
  tk : Tk μ.tasks (v.tasks ++ tasksOf v.stack)
  fd_reg : ∀ f, f < 1000 → v.fdReg f = true → f ∈ μ.fds
  raw_reg : ∀ r, 1 ≤ r → v.rawReg r = true → r ∈ μ.raws
  ev_reg : ∀ e, v.evReg e = true → e ∈ μ.events
  ev_cnt : v.eventCount = μ.events.length
  acct : v.numobjs = ((μ.fds.length + μ.raws.length + v.heap.num + (v.tasks ++ tasksOf v.stack).length +
            μ.events.length + min μ.events.length 1 : Nat) : Int)
  time_nn : 0 ≤ v.time.sec ∧ 0 ≤ v.time.nsec
  la_nn : 0 ≤ v.lastAbs.sec ∧ 0 ≤ v.lastAbs.nsec
  ktim : v.method = .epollTimerfd → v.lastAbsCount = 5 → v.timerfd = true ∧ v.ktimer = some (ktOf v.lastAbs)
  pre : v.pc = .run .prepWait → v.quit = false ∧ v.numobjs ≠ 0
  wait : ∀ a k, waitInfo v.pc = some (a, k) → WaitOk v a k

def R (μ : M) (s : St) : Prop := μ.dead = true ∨ Inv μ (view s)

theorem inv_init (m : Method) (n : Nat) (tf pw : Bool) : Inv {} (view (St.init m n tf pw)) := by
  refine ⟨rfl, rfl, Good.nil, fun _ => rfl, by simp [view, St.init, pcNoEv], by simp, by simp [view, St.init, pcUserish],
    Tm_init n, Tk_nil, ?_, ?_, ?_, rfl, ?_, ?_, ?_, ?_, ?_, ?_⟩
  all_goals simp [view, St.init, tasksOf, waitInfo, Store.init]

/-- changing only the control state (pc and a stack with the same timer batch and task batch)
from a state in which the library, not the user, is running -/
theorem Inv_pc_stack {μ v} (hI : Inv μ v) (p : Pc) (st : List Frame) (hu : pcUserish v.pc = false)
    (hg : Good st) (hb : batchOf st = batchOf v.stack) (ht : tasksOf st = tasksOf v.stack)
    (h1 : pcIdle p = true → st = []) (h2 : pcNoEv p = true → noEvTop st)
    (h3 : p = .run .prepWait → v.quit = false ∧ v.numobjs ≠ 0)
    (h4 : ∀ a k, waitInfo p = some (a, k) → WaitOk v a k) :
    Inv μ { v with pc := p, stack := st } := by
  have hcb : μ.inCb = false := by
    cases h : μ.inCb
    · rfl
    · have := (hI.inCb h).1; rw [hu] at this; cases this
  refine { hI with good := hg, idle := h1, noev := h2, inCb := ?_, inMain := ?_, tm := ?_, tk := ?_, acct := ?_,
                   pre := h3, wait := h4 }
  · intro h; rw [hcb] at h; cases h
  · intro _; exact hI.inMain (Or.inr hu)
  · show Tm μ.timers v.heap (batchOf st); rw [hb]; exact hI.tm
  · show Tk μ.tasks (v.tasks ++ tasksOf st); rw [ht]; exact hI.tk
  · show v.numobjs = _; rw [ht]; exact hI.acct


/-! ## running the monitor -/

def FoldTo (μ : M) (evs : List Ev) (P : M → Prop) : Prop := ∃ μ', evs.foldlM Mon.C07.step μ = .ok μ' ∧ P μ'

theorem foldTo_nil {μ : M} {P : M → Prop} (h : P μ) : FoldTo μ [] P := ⟨μ, rfl, h⟩

theorem foldTo_cons {μ μ1 : M} {e : Ev} {evs : List Ev} {P : M → Prop} (h1 : Mon.C07.step μ e = .ok μ1)
    (h2 : FoldTo μ1 evs P) : FoldTo μ (e :: evs) P := by
  obtain ⟨μ', e', hp⟩ := h2
  refine ⟨μ', ?_, hp⟩
  rw [List.foldlM_cons, h1]; exact e'

theorem step_dead {μ : M} (h : μ.dead = true) (e : Ev) : Mon.C07.step μ e = .ok μ := by
  unfold Mon.C07.step; simp [h]

theorem fold_dead {μ : M} (h : μ.dead = true) (evs : List Ev) : evs.foldlM Mon.C07.step μ = .ok μ := by
  induction evs with
  | nil => rfl
  | cons e evs ih => rw [List.foldlM_cons, step_dead h]; exact ih

theorem step_fatal {μ : M} (h : μ.dead = false) (m : String) :
    Mon.C07.step μ (.out (.fatal m)) = .ok { μ with dead := true } := by
  unfold Mon.C07.step; simp [h]

theorem step_fault {μ : M} (h : μ.dead = false) (m : String) :
    Mon.C07.step μ (.out (.fault m)) = .ok { μ with dead := true } := by
  unfold Mon.C07.step; simp [h]

theorem foldTo_fatal {μ : M} (h : μ.dead = false) (m : String) (s : St) :
    FoldTo μ [.out (.fatal m)] (fun μ' => R μ' s) :=
  foldTo_cons (step_fatal h m) (foldTo_nil (Or.inl rfl))

theorem foldTo_fault {μ : M} (h : μ.dead = false) (m : String) (s : St) :
    FoldTo μ [.out (.fault m)] (fun μ' => R μ' s) :=
  foldTo_cons (step_fault h m) (foldTo_nil (Or.inl rfl))

def cbM (μ : M) (c : Cb) : M :=
  let m := { μ with inCb := true, idleWakes := 0, pending := none }
  match c with
  | .timer t => { m with timers := m.timers.erase t }
  | .task k => { m with tasks := m.tasks.erase k }
  | _ => m

theorem inCb_false {μ v} (hI : Inv μ v) (hu : pcUserish v.pc = false) : μ.inCb = false := by
  cases h : μ.inCb
  · rfl
  · have := (hI.inCb h).1; rw [hu] at this; cases this

theorem step_cb {μ v} (hI : Inv μ v) (hu : pcUserish v.pc = false) (c : Cb) :
    Mon.C07.step μ (.out (.cb c)) = .ok (cbM μ c) := by
  have h1 := inCb_false hI hu
  have h2 := hI.inMain (Or.inr hu)
  unfold Mon.C07.step cbM
  simp only [hI.mdead, h1, h2]
  cases c <;> rfl

theorem Inv_pc {μ v} (hI : Inv μ v) (p : Pc) (hu : pcUserish v.pc = false)
    (h1 : pcIdle p = true → v.stack = []) (h2 : pcNoEv p = true → noEvTop v.stack)
    (h3 : p = .run .prepWait → v.quit = false ∧ v.numobjs ≠ 0)
    (h4 : ∀ a k, waitInfo p = some (a, k) → WaitOk v a k) :
    Inv μ { v with pc := p } :=
  Inv_pc_stack hI p v.stack hu hI.good rfl rfl h1 h2 h3 h4

/-- a callback without list effect (fd, event, raw) is entered -/
theorem Inv_cb {μ v} (hI : Inv μ v) (hu : pcUserish v.pc = false) (st : List Frame)
    (hg : Good st) (hne : st ≠ []) (hb : batchOf st = batchOf v.stack) (ht : tasksOf st = tasksOf v.stack) :
    Inv { μ with inCb := true, idleWakes := 0, pending := none } { v with pc := .user, stack := st } := by
  have h := Inv_pc_stack hI .user st hu hg hb ht (by simp [pcIdle]) (by simp [pcNoEv]) (by simp) (by simp [waitInfo])
  exact { h with inCb := fun _ => ⟨rfl, hne⟩, inMain := fun _ => hI.inMain (Or.inr hu) }


/-! ## internal steps -/

abbrev IntGoal (μ : M) (s : St) (b : Block) : Prop :=
  FoldTo μ ((internal s b).2.map Ev.out) (fun μ' => R μ' (internal s b).1)

theorem hu_of_run {s : St} {b : Block} (hpc : s.pc = .run b) : pcUserish (view s).pc = false := by
  simp [view, hpc, pcUserish]

theorem R_goto {μ s} (hI : Inv μ (view s)) (hu : pcUserish (view s).pc = false) (b : Block)
    (h1 : pcIdle (.run b) = true → (view s).stack = []) (h2 : pcNoEv (.run b) = true → noEvTop (view s).stack)
    (h3 : Pc.run b = .run .prepWait → (view s).quit = false ∧ (view s).numobjs ≠ 0)
    (h4 : ∀ a k, waitInfo (.run b) = some (a, k) → WaitOk (view s) a k) :
    R μ (goto s b).1 := Or.inr (Inv_pc hI (.run b) hu h1 h2 h3 h4)

theorem R_pc {μ s} (hI : Inv μ (view s)) (hu : pcUserish (view s).pc = false) (p : Pc)
    (h1 : pcIdle p = true → (view s).stack = []) (h2 : pcNoEv p = true → noEvTop (view s).stack)
    (h3 : p = .run .prepWait → (view s).quit = false ∧ (view s).numobjs ≠ 0)
    (h4 : ∀ a k, waitInfo p = some (a, k) → WaitOk (view s) a k) :
    R μ { s with pc := p } := Or.inr (Inv_pc hI p hu h1 h2 h3 h4)

theorem int_mainTop {μ s} (rt : Bool) (hI : Inv μ (view s)) (hpc : s.pc = .run (.mainTop rt)) :
    IntGoal μ s (.mainTop rt) := by
  have hu := hu_of_run hpc
  have hst : (view s).stack = [] := hI.idle (by simp [view, hpc, pcIdle])
  unfold IntGoal
  simp only [internal]
  split
  · split
    · exact foldTo_nil (R_goto hI hu .startTasks (fun _ => hst) (by simp [pcNoEv]) (by simp) (by simp [waitInfo]))
    · split
      · exact foldTo_nil (R_goto hI hu .collect (fun _ => hst) (by simp [pcNoEv]) (by simp) (by simp [waitInfo]))
      · exact foldTo_nil (R_pc hI hu (.needTime .forTimers) (fun _ => hst) (by simp [pcNoEv]) (by simp) (by simp [waitInfo]))
  · exact foldTo_nil (R_goto hI hu .startTasks (fun _ => hst) (by simp [pcNoEv]) (by simp) (by simp [waitInfo]))


theorem int_collect {μ s} (hI : Inv μ (view s)) (hpc : s.pc = .run .collect) : IntGoal μ s .collect := by
  have hu := hu_of_run hpc
  have hst : s.stack = [] := hI.idle (by simp [view, hpc, pcIdle])
  have hcb := inCb_false hI hu
  have hT : Tm μ.timers s.heap [] := by have := hI.tm; simp only [view, hst, batchOf] at this; exact this
  obtain ⟨h', batch, e, hT', hn⟩ := Tm_collect s.time hT
  unfold IntGoal
  simp only [internal, e]
  refine foldTo_nil (Or.inr ?_)
  have hacct := hI.acct
  simp only [view, hst, tasksOf] at hacct
  refine { hI with good := ?_, idle := ?_, noev := ?_, inCb := ?_, inMain := ?_, tm := ?_, tk := ?_, acct := ?_,
                   pre := ?_, wait := ?_ }
  · simp only [goto, view, hst]; exact Good.timers batch
  · simp [goto, view, pcIdle]
  · simp [goto, view, pcNoEv]
  · simp [hcb]
  · intro _; exact hI.inMain (Or.inr hu)
  · simp only [goto, view, hst, batchOf, List.append_nil]; exact hT'
  · have := hI.tk; simpa [goto, view, hst, tasksOf] using this
  · simp only [goto, view, hst, tasksOf]
    rw [hacct]; omega
  · simp [goto, view]
  · simp [goto, view, waitInfo]


theorem int_popTimer {μ s} (hI : Inv μ (view s)) (hpc : s.pc = .run .popTimer) : IntGoal μ s .popTimer := by
  have hu := hu_of_run hpc
  have hcb := inCb_false hI hu
  have hg : Good s.stack := hI.good
  unfold IntGoal
  generalize hst : s.stack = st at hg
  cases hg
  case timers r =>
    cases r with
    | nil =>
      simp only [internal, hst]
      refine foldTo_nil (Or.inr (Inv_pc_stack hI (.run .startTasks) [] hu Good.nil ?_ ?_ (fun _ => rfl)
        (by simp [pcNoEv]) (by simp) (by simp [waitInfo])))
      · simp [view, hst, batchOf]
      · simp [view, hst, tasksOf]
    | cons t r =>
      simp only [internal, hst]
      split
      · exact foldTo_fault hI.mdead _ _
      · refine foldTo_cons (step_cb hI hu _) (foldTo_nil (Or.inr ?_))
        have hT : Tm μ.timers s.heap (t :: r) := by
          have := hI.tm; simp only [view, hst, batchOf, List.append_nil] at this; exact this
        have ht0 : s.heap.idx[t]? = some 0 := (hT.b_idx t).1 (by simp)
        have hT' := Tm_clr hT ht0
        simp only [List.erase_cons_head] at hT'
        have hacct := hI.acct
        have htk := hI.tk
        simp only [view, hst, tasksOf] at hacct htk
        refine { hI with good := ?_, idle := ?_, noev := ?_, inCb := ?_, inMain := ?_, tm := ?_, tk := ?_,
                         acct := ?_, pre := ?_, wait := ?_ }
        · exact Good.timers r
        · simp [view, pcIdle]
        · simp [view, pcNoEv]
        · intro _; simp [view, pcUserish]
        · intro _; exact hI.inMain (Or.inr hu)
        · simp only [view, batchOf, List.append_nil, cbM]; exact hT'
        · simp only [view, tasksOf, cbM]; exact htk
        · simp only [view, tasksOf, cbM]; exact hacct
        · simp [view]
        · simp [view, waitInfo]
  all_goals (simp only [internal, hst]; exact foldTo_fault hI.mdead _ _)

theorem int_startTasks {μ s} (hI : Inv μ (view s)) (hpc : s.pc = .run .startTasks) : IntGoal μ s .startTasks := by
  have hu := hu_of_run hpc
  have hcb := inCb_false hI hu
  have hst : s.stack = [] := hI.idle (by simp [view, hpc, pcIdle])
  unfold IntGoal
  simp only [internal]
  refine foldTo_nil (Or.inr ?_)
  have hacct := hI.acct
  have htk := hI.tk
  have htm := hI.tm
  simp only [view, hst, tasksOf, batchOf, List.append_nil] at hacct htk htm
  refine { hI with good := ?_, idle := ?_, noev := ?_, inCb := ?_, inMain := ?_, tm := ?_, tk := ?_,
                   acct := ?_, pre := ?_, wait := ?_ }
  · simp only [goto, view, hst]; exact Good.tasks _
  · simp [goto, view, pcIdle]
  · simp [goto, view, pcNoEv]
  · simp [hcb]
  · intro _; exact hI.inMain (Or.inr hu)
  · simp only [goto, view, hst, batchOf]; exact htm
  · simp only [goto, view, hst, tasksOf, List.append_nil, List.nil_append]; exact htk
  · simp only [goto, view, hst, tasksOf, List.append_nil, List.nil_append]; exact hacct
  · simp [goto, view]
  · simp [goto, view, waitInfo]


theorem int_popTask {μ s} (hI : Inv μ (view s)) (hpc : s.pc = .run .popTask) : IntGoal μ s .popTask := by
  have hu := hu_of_run hpc
  have hcb := inCb_false hI hu
  have hg : Good s.stack := hI.good
  unfold IntGoal
  generalize hst : s.stack = st at hg
  cases hg
  case tasks r =>
    cases r with
    | nil =>
      simp only [internal, hst]
      refine foldTo_nil (Or.inr (Inv_pc_stack hI (.run .exitCheck) [] hu Good.nil ?_ ?_ (fun _ => rfl)
        (by simp [pcNoEv]) (by simp) (by simp [waitInfo])))
      · simp [view, hst, batchOf]
      · simp [view, hst, tasksOf]
    | cons k r =>
      simp only [internal, hst]
      split
      · exact foldTo_fault hI.mdead _ _
      · have hacct := hI.acct
        have htk := hI.tk
        have htm := hI.tm
        simp only [view, hst, tasksOf, batchOf, List.append_nil] at hacct htk htm
        have htk' : Tk μ.tasks (k :: (s.tasks ++ r)) := Tk_perm htk List.perm_middle.symm
        split
        · next hk0 =>
          subst hk0
          have htk2 := Tk_erase_zero htk' (by simp)
          simp only [List.erase_cons_head] at htk2
          refine foldTo_nil (Or.inr ?_)
          refine { hI with good := ?_, idle := ?_, noev := ?_, inCb := ?_, inMain := ?_, tm := ?_, tk := ?_,
                           acct := ?_, pre := ?_, wait := ?_ }
          · exact Good.tasks r
          · simp [goto, view, pcIdle]
          · simp [goto, view, pcNoEv, noEvTop]
          · simp [hcb]
          · intro _; exact hI.inMain (Or.inr hu)
          · simp only [goto, view, batchOf]; exact htm
          · simp only [goto, view, tasksOf, List.append_nil]; exact htk2
          · simp only [goto, view, tasksOf, List.append_nil]
            rw [hacct]; simp only [List.length_append, List.length_cons]; omega
          · simp [goto, view]
          · simp [goto, view, waitInfo]
        · next hk0 =>
          have htk2 := Tk_erase_user htk' (by simp) hk0
          simp only [List.erase_cons_head] at htk2
          refine foldTo_cons (step_cb hI hu _) (foldTo_nil (Or.inr ?_))
          refine { hI with good := ?_, idle := ?_, noev := ?_, inCb := ?_, inMain := ?_, tm := ?_, tk := ?_,
                           acct := ?_, pre := ?_, wait := ?_ }
          · exact Good.tasks r
          · simp [view, pcIdle]
          · simp [view, pcNoEv]
          · intro _; simp [view, pcUserish]
          · intro _; exact hI.inMain (Or.inr hu)
          · simp only [view, batchOf, cbM]; exact htm
          · simp only [view, tasksOf, List.append_nil, cbM]; exact htk2
          · simp only [view, tasksOf, List.append_nil, cbM]
            rw [hacct]
            simp only [List.length_append, List.length_cons]; omega
          · simp [view]
          · simp [view, waitInfo]
  all_goals (simp only [internal, hst]; exact foldTo_fault hI.mdead _ _)


theorem good_push_events {st : List Frame} (h : noEvTop st) (b : List EvId) :
    Good (.events b :: st) ∧ batchOf (.events b :: st) = batchOf st ∧ tasksOf (.events b :: st) = tasksOf st := by
  unfold noEvTop at h
  split at h
  · exact ⟨Good.evTasks _ _, rfl, rfl⟩
  · exact ⟨Good.evPoll _ _ _, rfl, rfl⟩
  · exact ⟨Good.evFd _ _ _ _ _, rfl, rfl⟩
  · exact absurd h id

theorem int_runEvents {μ s} (hI : Inv μ (view s)) (hpc : s.pc = .run .runEvents) : IntGoal μ s .runEvents := by
  have hu := hu_of_run hpc
  have hne : noEvTop s.stack := hI.noev (by simp [view, hpc, pcNoEv])
  unfold IntGoal
  simp only [internal]
  split
  · exact foldTo_nil (R_goto hI hu .resume (by simp [pcIdle]) (by simp [pcNoEv]) (by simp) (by simp [waitInfo]))
  · obtain ⟨g1, g2, g3⟩ := good_push_events hne s.pending
    exact foldTo_nil (Or.inr (Inv_pc_stack hI (.run .popEvent) _ hu g1 g2 g3 (by simp [pcIdle]) (by simp [pcNoEv])
      (by simp) (by simp [waitInfo])))

theorem int_popEvent_aux {μ s} (hI : Inv μ (view s)) (hpc : s.pc = .run .popEvent) (b : List EvId)
    (rest : List Frame) (hst : s.stack = .events b :: rest) (hgr : Good rest) (hne : rest ≠ [])
    (hg' : ∀ b', Good (.events b' :: rest)) : IntGoal μ s .popEvent := by
  have hu := hu_of_run hpc
  unfold IntGoal
  cases b with
  | nil =>
    simp only [internal, hst]
    exact foldTo_nil (Or.inr (Inv_pc_stack hI (.run .resume) rest hu hgr (by simp [view, hst, batchOf])
      (by simp [view, hst, tasksOf]) (by simp [pcIdle]) (by simp [pcNoEv]) (by simp) (by simp [waitInfo])))
  | cons e r =>
    simp only [internal, hst]
    split
    · exact foldTo_fault hI.mdead _ _
    · refine foldTo_cons (step_cb hI hu _) (foldTo_nil (Or.inr ?_))
      exact Inv_cb hI hu (.events r :: rest) (hg' r) (by simp) (by simp [view, hst, batchOf])
        (by simp [view, hst, tasksOf])

theorem int_popEvent {μ s} (hI : Inv μ (view s)) (hpc : s.pc = .run .popEvent) : IntGoal μ s .popEvent := by
  have hg : Good s.stack := hI.good
  generalize hst : s.stack = st at hg
  cases hg
  case evTasks b r => exact int_popEvent_aux hI hpc b _ hst (by constructor) (by simp) (fun _ => by constructor)
  case evPoll b a rt => exact int_popEvent_aux hI hpc b _ hst (by constructor) (by simp) (fun _ => by constructor)
  case evFd b c n a rt => exact int_popEvent_aux hI hpc b _ hst (by constructor) (by simp) (fun _ => by constructor)
  all_goals (unfold IntGoal; simp only [internal, hst]; exact foldTo_fault hI.mdead _ _)

theorem int_resume {μ s} (hI : Inv μ (view s)) (hpc : s.pc = .run .resume) : IntGoal μ s .resume := by
  have hu := hu_of_run hpc
  have hg : Good s.stack := hI.good
  unfold IntGoal
  generalize hst : s.stack = st at hg
  cases hg
  all_goals
    simp only [internal, hst]
    first
    | exact foldTo_fault hI.mdead _ _
    | exact foldTo_nil (R_goto hI hu _ (by simp [pcIdle]) (by simp [pcNoEv]) (by simp) (by simp [waitInfo]))

theorem count_zero {μ v} (hI : Inv μ v) (hst : v.stack = []) (hn : v.numobjs = 0) : count μ = 0 := by
  have h1 := hI.acct
  have h2 := hI.tm.len
  have h3 := hI.tk.len
  rw [hst] at h2 h3
  rw [hn, hst] at h1
  simp only [batchOf, List.length_nil] at h2
  unfold count
  split at h3 <;> omega

theorem int_exitCheck {μ s} (hI : Inv μ (view s)) (hpc : s.pc = .run .exitCheck) : IntGoal μ s .exitCheck := by
  have hu := hu_of_run hpc
  have hst : (view s).stack = [] := hI.idle (by simp [view, hpc, pcIdle])
  unfold IntGoal
  simp only [internal]
  split
  · next hq =>
    have hmon : Mon.C07.step μ (.out .mainRet) = .ok { μ with inMain := false, pending := none } := by
      unfold Mon.C07.step
      simp only [hI.mdead]
      have : (!μ.quit && count μ != 0) = false := by
        rcases Bool.or_eq_true_iff.1 hq with h | h
        · have := hI.quit_eq; simp only [view] at this; simp [this, h]
        · have := count_zero hI hst (by simpa [view] using h)
          simp [this]
      simp [this]
    refine foldTo_cons hmon (foldTo_nil (Or.inr ?_))
    have h := Inv_pc hI .user hu (by simp [pcIdle]) (by simp [pcNoEv]) (by simp) (by simp [waitInfo])
    have hcb := inCb_false hI hu
    refine { h with inCb := ?_, inMain := ?_ }
    · intro hh; simp [hcb] at hh
    · intro hh
      rcases hh with hh | hh
      · exact absurd hst hh
      · simp [view, pcUserish] at hh
  · next hq =>
    refine foldTo_nil (R_goto hI hu .prepWait (fun _ => hst) (by simp [pcNoEv]) ?_ (by simp [waitInfo]))
    intro _
    simp only [Bool.or_eq_true, not_or, Bool.not_eq_true] at hq
    refine ⟨hq.1, ?_⟩
    intro h0
    have := hq.2
    simp [view] at h0
    simp [h0] at this

theorem int_dispatchNext {μ s} (hI : Inv μ (view s)) (hpc : s.pc = .run .dispatchNext) :
    IntGoal μ s .dispatchNext := by
  have hu := hu_of_run hpc
  have hg : Good s.stack := hI.good
  unfold IntGoal
  generalize hst : s.stack = st at hg
  cases hg
  case poll a rt =>
    cases a with
    | nil =>
      simp only [internal, hst]
      exact foldTo_nil (Or.inr (Inv_pc_stack hI (.run (.mainTop rt)) [] hu Good.nil (by simp [view, hst, batchOf])
        (by simp [view, hst, tasksOf]) (fun _ => rfl) (by simp [pcNoEv]) (by simp) (by simp [waitInfo])))
    | cons f r =>
      simp only [internal, hst]
      exact foldTo_nil (Or.inr (Inv_pc_stack hI (.run .fdStage) [.fd f 0, .poll r rt] hu (Good.fd _ _ _ _)
        (by simp [view, hst, batchOf]) (by simp [view, hst, tasksOf]) (by simp [pcIdle]) (by simp [pcNoEv]) (by simp)
        (by simp [waitInfo])))
  all_goals (simp only [internal, hst]; exact foldTo_fault hI.mdead _ _)


theorem int_fdStage {μ s} (hI : Inv μ (view s)) (hpc : s.pc = .run .fdStage) : IntGoal μ s .fdStage := by
  have hu := hu_of_run hpc
  have hg : Good s.stack := hI.good
  unfold IntGoal
  generalize hst : s.stack = st at hg
  cases hg
  case fd c n a rt =>
    have hb : ∀ m, batchOf [Frame.fd c m, .poll a rt] = batchOf (view s).stack := by
      intro m; simp [view, hst, batchOf]
    have ht : ∀ m, tasksOf [Frame.fd c m, .poll a rt] = tasksOf (view s).stack := by
      intro m; simp [view, hst, tasksOf]
    simp only [internal, hst, setTop, List.tail_cons]
    split
    · exact foldTo_nil (Or.inr (Inv_pc_stack hI (.run .dispatchNext) [.poll a rt] hu (Good.poll _ _)
        (by simp [view, hst, batchOf]) (by simp [view, hst, tasksOf]) (by simp [pcIdle]) (by simp [pcNoEv]) (by simp)
        (by simp [waitInfo])))
    · split
      · exact foldTo_nil (Or.inr (Inv_pc_stack hI (.run .fdStage) [.fd c (n + 1), .poll a rt] hu (Good.fd _ _ _ _)
          (hb _) (ht _) (by simp [pcIdle]) (by simp [pcNoEv]) (by simp) (by simp [waitInfo])))
      · split
        · exact foldTo_fault hI.mdead _ _
        · split
          all_goals
            split
            · split
              · exact foldTo_nil (Or.inr (Inv_pc_stack hI (.needRawRead _) [.fd c _, .poll a rt] hu
                  (Good.fd _ _ _ _) (hb _) (ht _) (by simp [pcIdle]) (by simp [pcNoEv, noEvTop]) (by simp)
                  (by simp [waitInfo])))
              · refine foldTo_cons (step_cb hI hu _) (foldTo_nil (Or.inr ?_))
                exact Inv_cb hI hu [.fd c _, .poll a rt] (Good.fd _ _ _ _) (by simp) (hb _) (ht _)
            · exact foldTo_nil (Or.inr (Inv_pc_stack hI (.run .fdStage) [.fd c _, .poll a rt] hu
                (Good.fd _ _ _ _) (hb _) (ht _) (by simp [pcIdle]) (by simp [pcNoEv]) (by simp) (by simp [waitInfo])))
  all_goals (simp only [internal, hst]; exact foldTo_fault hI.mdead _ _)

theorem view_foldl_flush (l : List FdId) (s : St) : view (l.foldl epollFlushOne s) = view s := by
  induction l generalizing s with
  | nil => rfl
  | cons f l ih => rw [List.foldl_cons, ih, view_epollFlushOne]

theorem R_pc' {μ s} (hI : Inv μ (view s)) (hu : pcUserish (view s).pc = false) (s1 : St) (hv : view s1 = view s)
    (p : Pc)
    (h1 : pcIdle p = true → (view s).stack = []) (h2 : pcNoEv p = true → noEvTop (view s).stack)
    (h3 : p = .run .prepWait → (view s).quit = false ∧ (view s).numobjs ≠ 0)
    (h4 : ∀ a k, waitInfo p = some (a, k) → WaitOk (view s) a k) :
    R μ { s1 with pc := p } := by
  refine Or.inr ?_
  show Inv μ { view s1 with pc := p }
  rw [hv]
  exact Inv_pc hI p hu h1 h2 h3 h4

theorem int_flush {μ s} (abs : Option TS) (km : Bool) (hI : Inv μ (view s)) (hpc : s.pc = .run (.flush abs km)) :
    IntGoal μ s (.flush abs km) := by
  have hu := hu_of_run hpc
  have hst : (view s).stack = [] := hI.idle (by simp [view, hpc, pcIdle])
  have hW : WaitOk (view s) abs km := hI.wait abs km (by simp [view, hpc, waitInfo])
  unfold IntGoal
  simp only [internal]
  have hv : view (if s.method.isEpoll = true then List.foldl epollFlushOne s s.notify else s) = view s := by
    split
    · exact view_foldl_flush _ _
    · rfl
  generalize (if s.method.isEpoll = true then List.foldl epollFlushOne s s.notify else s) = s1 at hv
  split
  · refine foldTo_nil (R_pc' hI hu s1 hv (.needTime (.forWait abs km)) (fun _ => hst) (by simp [pcNoEv]) (by simp) ?_)
    intro a k h; simp only [waitInfo, Option.some.injEq, Prod.mk.injEq] at h; rw [← h.1, ← h.2]; exact hW
  · refine foldTo_nil (R_pc' hI hu s1 hv (.run (.wait abs km)) (fun _ => hst) (by simp [pcNoEv]) (by simp) ?_)
    intro a k h; simp only [waitInfo, Option.some.injEq, Prod.mk.injEq] at h; rw [← h.1, ← h.2]; exact hW


theorem toRelative_zero (now : TS) (h1 : 0 ≤ now.sec) (h2 : 0 ≤ now.nsec) : toRelative now ⟨0, 0⟩ = ⟨0, 0⟩ := by
  unfold toRelative TS.gt
  have : (decide ((0 : Int) > now.sec) || decide ((0 : Int) = now.sec) && decide ((0 : Int) > now.nsec)) = false := by
    simp; omega
  simp only [this]; rfl

theorem timeoutOf_zero (s : St) (h1 : 0 ≤ s.time.sec) (h2 : 0 ≤ s.time.nsec) (kt : Option (Option TS)) :
    nonBlocking (timeoutOf s (some ⟨0, 0⟩)) kt = true := by
  have hm : toMsec s.time ⟨0, 0⟩ = 0 := by
    unfold toMsec
    simp only [toRelative_zero s.time h1 h2]
    decide
  unfold timeoutOf
  simp only [hm, toRelative_zero s.time h1 h2]
  cases s.method <;> cases s.pwait2 <;> simp [nonBlocking, TS.toNs]

theorem wait_ok {μ s} (abs : Option TS) (km : Bool) (hI : Inv μ (view s)) (hpc : s.pc = .run (.wait abs km)) :
    μ.quit = false ∧
    (count μ = 0 → nonBlocking (timeoutOf s abs) (if s.timerfd then some s.ktimer else none) = true) := by
  have hst : s.stack = [] := hI.idle (by simp [view, hpc, pcIdle])
  obtain ⟨w1, w2, w3, w4, w5⟩ : WaitOk (view s) abs km := hI.wait abs km (by simp [view, hpc, waitInfo])
  refine ⟨by rw [hI.quit_eq]; exact w1, ?_⟩
  intro hc
  have h1 := hI.acct
  have h2 := hI.tm.len
  have h3 := hI.tk.len
  simp only [view, hst, batchOf, tasksOf, List.append_nil, List.length_nil] at h1 h2 h3 w2 w5
  unfold count at hc
  have hne : s.tasks ≠ [] := by
    intro e
    rw [e] at h1
    simp only [List.length_nil] at h1
    omega
  rcases w5 hne with e | ⟨k1, k2, k3⟩
  · rw [e]; exact timeoutOf_zero s hI.time_nn.1 hI.time_nn.2 _
  · have := (w3 k1).1
    have k2' : s.timerfd = true := k2
    have k3' : s.ktimer = some ⟨0, 1⟩ := k3
    rw [this, k2', k3']
    simp [timeoutOf, nonBlocking]

theorem int_wait {μ s} (abs : Option TS) (km : Bool) (hI : Inv μ (view s)) (hpc : s.pc = .run (.wait abs km)) :
    IntGoal μ s (.wait abs km) := by
  have hu := hu_of_run hpc
  have hst : (view s).stack = [] := hI.idle (by simp [view, hpc, pcIdle])
  have hW : WaitOk (view s) abs km := hI.wait abs km (by simp [view, hpc, waitInfo])
  obtain ⟨hq, hc⟩ := wait_ok abs km hI hpc
  unfold IntGoal
  simp only [internal]
  have hmon : ∀ p i k, Mon.C07.step μ (.out (.wait p (timeoutOf s abs) i (if s.timerfd then some s.ktimer else none) k)) =
      .ok { μ with pending := none } := by
    intro p i k
    unfold Mon.C07.step
    simp only [hI.mdead, hq]
    by_cases h0 : count μ = 0
    · simp [hc h0]
    · simp [h0]
  refine foldTo_cons (hmon _ _ _) (foldTo_nil (Or.inr ?_))
  have h := Inv_pc hI (.waiting abs km) hu (fun _ => hst) (by simp [pcNoEv]) (by simp)
    (by intro a k h; simp only [waitInfo, Option.some.injEq, Prod.mk.injEq] at h; rw [← h.1, ← h.2]; exact hW)
  exact { h with inCb := h.inCb, inMain := h.inMain }


theorem tsCmp_zero {a b : TS} (h : tsCmp (some a) b = 0) : a = b := by
  unfold tsCmp at h
  simp only at h
  split at h
  · simp at h
  · split at h
    · simp at h
    · split at h
      · simp at h
      · split at h
        · simp at h
        · cases a; cases b; simp_all; omega

theorem tsCmp_zero_nn {b : TS} (h1 : 0 ≤ b.sec) (h2 : 0 ≤ b.nsec) (h : tsCmp (some ⟨0, 0⟩) b ≥ 0) : b = ⟨0, 0⟩ := by
  unfold tsCmp at h
  simp only at h
  cases b with
  | mk bs bn =>
  simp only at h1 h2 h ⊢
  split at h
  · simp at h
  · split at h
    · omega
    · split at h
      · simp at h
      · split at h
        · omega
        · simp; omega

theorem timeoutCheck_spec (s : St) (abs : Option TS) (s2 : St) (r : Bool) (h : timeoutCheck s abs = (s2, r))
    (hm : s.method = .epollTimerfd)
    (hla : 0 ≤ s.lastAbs.sec ∧ 0 ≤ s.lastAbs.nsec)
    (hk : s.lastAbsCount = 5 → s.timerfd = true ∧ s.ktimer = some (ktOf s.lastAbs))
    (habs : ∀ a, abs = some a → 0 ≤ a.sec ∧ 0 ≤ a.nsec) :
    ∃ la cnt kt tf m, view s2 = { view s with lastAbs := la, lastAbsCount := cnt, ktimer := kt, timerfd := tf, method := m } ∧
      (0 ≤ la.sec ∧ 0 ≤ la.nsec) ∧ (m = .epollTimerfd → cnt = 5 → tf = true ∧ kt = some (ktOf la)) ∧
      (r = true → m = .epollTimerfd ∧ cnt = 5 ∧ (abs = some ⟨0, 0⟩ → kt = some ⟨0, 1⟩)) ∧
      (r = false → m = .epollTimerfd → cnt ≠ 5) := by
  by_cases h5 : s.lastAbsCount = 5
  · by_cases hc : tsCmp abs s.lastAbs ≥ 0
    · simp [timeoutCheck, h5, hc] at h
      obtain ⟨rfl, rfl⟩ := h
      refine ⟨s.lastAbs, s.lastAbsCount, s.ktimer, s.timerfd, s.method, rfl, hla, fun _ h5 => hk h5, ?_, by simp⟩
      intro _
      refine ⟨hm, h5, ?_⟩
      intro e
      subst e
      have := tsCmp_zero_nn hla.1 hla.2 hc
      rw [(hk h5).2, this]; rfl
    · have hc0 : ¬ tsCmp abs s.lastAbs = 0 := by omega
      cases abs with
      | none => simp [tsCmp] at hc
      | some a =>
        simp [timeoutCheck, h5, hc, hc0] at h
        obtain ⟨rfl, rfl⟩ := h
        exact ⟨a, 1, none, s.timerfd, s.method, rfl, habs a rfl, by simp, by simp, by simp⟩
  · by_cases h0 : tsCmp abs s.lastAbs = 0
    · cases abs with
      | none => simp [tsCmp] at h0
      | some a =>
        have ha := tsCmp_zero h0
        subst ha
        by_cases h4 : s.lastAbsCount < 5
        · by_cases h44 : s.lastAbsCount = 4
          · by_cases hfd : s.timerfd = false ∧ s.timerfdAvail = false
            · simp [timeoutCheck, h5, h0, h4, h44, hfd.1, hfd.2] at h
              obtain ⟨rfl, rfl⟩ := h
              exact ⟨_, _, _, _, _, rfl, hla, by simp, by simp, by simp⟩
            · have : (!s.timerfd && !s.timerfdAvail) = false := by
                cases h1 : s.timerfd <;> cases h2 : s.timerfdAvail <;> simp_all
              simp [timeoutCheck, h5, h0, h4, h44, this] at h
              obtain ⟨rfl, rfl⟩ := h
              refine ⟨_, _, _, _, _, rfl, hla, by simp [ktOf], ?_, by simp⟩
              intro _
              refine ⟨hm, rfl, ?_⟩
              intro e
              have := Option.some.inj e
              rw [this]; rfl
          · simp [timeoutCheck, h5, h0, h4, h44] at h
            obtain ⟨rfl, rfl⟩ := h
            exact ⟨_, _, _, _, _, rfl, hla, fun _ h => by simp at h; omega, by simp, fun _ _ => by simp; omega⟩
        · simp [timeoutCheck, h5, h0, h4] at h
          obtain ⟨rfl, rfl⟩ := h
          exact ⟨s.lastAbs, s.lastAbsCount, s.ktimer, s.timerfd, s.method, rfl, hla,
            fun _ h => absurd h h5, by simp, fun _ _ => h5⟩
    · cases abs with
      | none =>
        simp [timeoutCheck, h5, h0] at h
        obtain ⟨rfl, rfl⟩ := h
        exact ⟨s.lastAbs, 0, s.ktimer, s.timerfd, s.method, rfl, hla, by simp, by simp, by simp⟩
      | some a =>
        simp [timeoutCheck, h5, h0] at h
        obtain ⟨rfl, rfl⟩ := h
        exact ⟨a, 1, s.ktimer, s.timerfd, s.method, rfl, habs a rfl, by simp, by simp, by simp⟩


theorem int_prepWait {μ s} (hI : Inv μ (view s)) (hpc : s.pc = .run .prepWait) : IntGoal μ s .prepWait := by
  have hu := hu_of_run hpc
  have hst : (view s).stack = [] := hI.idle (by simp [view, hpc, pcIdle])
  obtain ⟨hq, hn⟩ := hI.pre (by simp [view, hpc])
  have hcb := inCb_false hI hu
  unfold IntGoal
  simp only [internal]
  generalize habs0 : (if (!s.tasks.isEmpty) = true then some (⟨0, 0⟩ : TS) else soonest s.heap) = abs0
  have habs : ∀ a, abs0 = some a → 0 ≤ a.sec ∧ 0 ≤ a.nsec := by
    intro a ha
    rw [← habs0] at ha
    split at ha
    · cases ha; simp
    · exact soonest_nn hI.tm ha
  have htk : (view s).tasks ≠ [] → abs0 = some ⟨0, 0⟩ := by
    intro h
    rw [← habs0]
    have : (!s.tasks.isEmpty) = true := by
      simp only [view] at h
      cases hh : s.tasks with
      | nil => exact absurd hh h
      | cons _ _ => rfl
    rw [if_pos this]
  split
  · next hm =>
    have hm' : s.method = .epollTimerfd := by simpa using hm
    generalize hr : timeoutCheck s abs0 = pr
    obtain ⟨s2, r⟩ := pr
    obtain ⟨la, cnt, kt, tf, m, hv, h1, h2, h3, h4⟩ :=
      timeoutCheck_spec s abs0 s2 r hr hm' hI.la_nn (fun h5 => hI.ktim hm' h5) habs
    simp only []
    have key : ∀ (a : Option TS) (k : Bool), (r = k) → (k = true → a = none) → (k = false → a = abs0) →
        R μ (goto s2 (.flush a k)).1 := by
      intro a k hrk ha1 ha2
      refine Or.inr ?_
      show Inv μ { view s2 with pc := .run (.flush a k) }
      rw [hv]
      refine { hI with idle := fun _ => hst, noev := ?_, inCb := ?_, inMain := ?_, la_nn := h1, ktim := h2,
                       pre := ?_, wait := ?_ }
      · simp [pcNoEv]
      · simp [hcb]
      · intro _; exact hI.inMain (Or.inr hu)
      · simp
      · intro a' k' hw
        simp only [waitInfo, Option.some.injEq, Prod.mk.injEq] at hw
        obtain ⟨rfl, rfl⟩ := hw
        subst hrk
        refine ⟨hq, hn, ?_, ?_, ?_⟩
        · intro hr1; have := h3 hr1; exact ⟨ha1 hr1, this.1, this.2.1⟩
        · intro hr0; exact h4 hr0
        · intro ht
          have e := htk ht
          cases r with
          | true =>
            right
            have := h3 rfl
            exact ⟨rfl, (h2 this.1 this.2.1).1, this.2.2 e⟩
          | false => left; rw [ha2 rfl]; exact e
    cases r with
    | true => exact foldTo_nil (key none true rfl (fun _ => rfl) (by simp))
    | false => exact foldTo_nil (key abs0 false rfl (by simp) (fun _ => rfl))
  · next hm =>
    have hm' : s.method ≠ .epollTimerfd := by simpa using hm
    refine foldTo_nil (R_goto hI hu (.flush abs0 false) (fun _ => hst) (by simp [pcNoEv]) (by simp) ?_)
    intro a k hw
    simp only [waitInfo, Option.some.injEq, Prod.mk.injEq] at hw
    obtain ⟨rfl, rfl⟩ := hw
    exact ⟨hq, hn, by simp, fun _ h => absurd h hm', fun ht => Or.inl (htk ht)⟩

theorem internal_step {μ s} (b : Block) (hI : Inv μ (view s)) (hpc : s.pc = .run b) : IntGoal μ s b := by
  cases b with
  | mainTop rt => exact int_mainTop rt hI hpc
  | collect => exact int_collect hI hpc
  | popTimer => exact int_popTimer hI hpc
  | startTasks => exact int_startTasks hI hpc
  | popTask => exact int_popTask hI hpc
  | runEvents => exact int_runEvents hI hpc
  | popEvent => exact int_popEvent hI hpc
  | resume => exact int_resume hI hpc
  | exitCheck => exact int_exitCheck hI hpc
  | prepWait => exact int_prepWait hI hpc
  | flush a k => exact int_flush a k hI hpc
  | wait a k => exact int_wait a k hI hpc
  | dispatchNext => exact int_dispatchNext hI hpc
  | fdStage => exact int_fdStage hI hpc


/-! ## data updates while user code runs -/

theorem Inv_pend {μ v} (hI : Inv μ v) (p : Option Api) : Inv { μ with pending := p } v := { hI with }

theorem upd_true_iff {F : Nat → Bool} {a g : Nat} {b : Bool} : upd F a b g = true ↔ (g = a ∧ b = true) ∨ (g ≠ a ∧ F g = true) := by
  unfold upd; split <;> simp_all

/-- the stack is mapped by a function that keeps its shape and both batches -/
theorem Inv_stack_map {μ v} (hI : Inv μ v) (hpc : v.pc = .user) (g : Frame → Frame)
    (hg : Good (v.stack.map g)) (hb : batchOf (v.stack.map g) = batchOf v.stack)
    (ht : tasksOf (v.stack.map g) = tasksOf v.stack) : Inv μ { v with stack := v.stack.map g } := by
  refine { hI with good := hg, idle := ?_, noev := ?_, inCb := ?_, inMain := ?_, tm := ?_, tk := ?_, acct := ?_,
                   pre := ?_, wait := ?_ }
  · simp [hpc, pcIdle]
  · simp [hpc, pcNoEv]
  · intro h; obtain ⟨h1, h2⟩ := hI.inCb h; exact ⟨h1, by simpa using h2⟩
  · intro h; apply hI.inMain; rcases h with h | h
    · left; simpa using h
    · right; exact h
  · show Tm μ.timers v.heap (batchOf (v.stack.map g)); rw [hb]; exact hI.tm
  · show Tk μ.tasks (v.tasks ++ tasksOf (v.stack.map g)); rw [ht]; exact hI.tk
  · show v.numobjs = _; rw [ht]; exact hI.acct
  · simp [hpc]
  · simp [hpc, waitInfo]

theorem Inv_fd_add {μ v} (hI : Inv μ v) (hpc : v.pc = .user) (f : FdId) (n' : Int) (hn : n' = v.numobjs + 1) :
    Inv { μ with pending := none, fds := μ.fds ++ [f] }
        { v with numobjs := n', fdReg := upd v.fdReg f true } := by
  refine { hI with fd_reg := ?_, acct := ?_, pre := ?_, wait := ?_ }
  · intro g hg h
    rcases upd_true_iff.1 h with ⟨e, _⟩ | ⟨_, h⟩
    · subst e; simp
    · exact List.mem_append_left _ (hI.fd_reg g hg h)
  · have := hI.acct; simp only [List.length_append, List.length_cons, List.length_nil] at this ⊢; omega
  · simp [hpc]
  · simp [hpc, waitInfo]

theorem Inv_fd_del {μ v} (hI : Inv μ v) (hpc : v.pc = .user) (f : FdId) (hf : f < 1000) (hr : v.fdReg f = true)
    (n' : Int) (hn : n' = v.numobjs - 1) :
    Inv { μ with fds := μ.fds.erase f, pending := none }
        { v with numobjs := n', fdReg := upd v.fdReg f false } := by
  have hm := hI.fd_reg f hf hr
  refine { hI with fd_reg := ?_, acct := ?_, pre := ?_, wait := ?_ }
  · intro g hg h
    rcases upd_true_iff.1 h with ⟨_, e⟩ | ⟨e, h⟩
    · cases e
    · exact (List.mem_erase_of_ne e).2 (hI.fd_reg g hg h)
  · have := hI.acct; have := List.length_pos_of_mem hm
    simp only [List.length_erase_of_mem hm]; omega
  · simp [hpc]
  · simp [hpc, waitInfo]

theorem Inv_raw_add {μ v} (hI : Inv μ v) (hpc : v.pc = .user) (r : RawId) (n' : Int) (hn : n' = v.numobjs + 1) :
    Inv { μ with pending := none, raws := μ.raws ++ [r] }
        { v with numobjs := n', fdReg := upd v.fdReg (rawFd r) true, rawReg := upd v.rawReg r true } := by
  refine { hI with fd_reg := ?_, raw_reg := ?_, acct := ?_, pre := ?_, wait := ?_ }
  · intro g hg h
    rcases upd_true_iff.1 h with ⟨e, _⟩ | ⟨_, h⟩
    · subst e; exact absurd hg (by unfold rawFd; exact Nat.not_lt.2 (Nat.le_add_right 1000 r))
    · exact hI.fd_reg g hg h
  · intro g hg h
    rcases upd_true_iff.1 h with ⟨e, _⟩ | ⟨_, h⟩
    · subst e; simp
    · exact List.mem_append_left _ (hI.raw_reg g hg h)
  · have := hI.acct; simp only [List.length_append, List.length_cons, List.length_nil] at this ⊢; omega
  · simp [hpc]
  · simp [hpc, waitInfo]

theorem Inv_raw_del {μ v} (hI : Inv μ v) (hpc : v.pc = .user) (r : RawId) (h1 : 1 ≤ r) (hr : v.rawReg r = true)
    (n' : Int) (hn : n' = v.numobjs - 1) :
    Inv { μ with raws := μ.raws.erase r, pending := none }
        { v with numobjs := n', fdReg := upd v.fdReg (rawFd r) false, rawReg := upd v.rawReg r false } := by
  have hm := hI.raw_reg r h1 hr
  refine { hI with fd_reg := ?_, raw_reg := ?_, acct := ?_, pre := ?_, wait := ?_ }
  · intro g hg h
    rcases upd_true_iff.1 h with ⟨_, e⟩ | ⟨_, h⟩
    · cases e
    · exact hI.fd_reg g hg h
  · intro g hg h
    rcases upd_true_iff.1 h with ⟨_, e⟩ | ⟨e, h⟩
    · cases e
    · exact (List.mem_erase_of_ne e).2 (hI.raw_reg g hg h)
  · have := hI.acct; have := List.length_pos_of_mem hm
    simp only [List.length_erase_of_mem hm]; omega
  · simp [hpc]
  · simp [hpc, waitInfo]

/-- the internal raw event (`events_kick`) is registered or unregistered -/
theorem Inv_intl {μ v} (hI : Inv μ v) (b : Bool) :
    Inv μ { v with fdReg := upd v.fdReg (rawFd 0) b, rawReg := upd v.rawReg 0 b } := by
  refine { hI with fd_reg := ?_, raw_reg := ?_ }
  · intro g hg h
    rcases upd_true_iff.1 h with ⟨e, _⟩ | ⟨_, h⟩
    · subst e; exact absurd hg (by unfold rawFd; exact Nat.not_lt.2 (Nat.le_add_right 1000 _))
    · exact hI.fd_reg g hg h
  · intro g hg h
    rcases upd_true_iff.1 h with ⟨e, _⟩ | ⟨_, h⟩
    · subst e; exact absurd hg (by decide)
    · exact hI.raw_reg g hg h

theorem Inv_ev_add {μ v} (hI : Inv μ v) (hpc : v.pc = .user) (e : EvId) (n' : Int)
    (hn : n' = v.numobjs + 1 + (if v.eventCount = 0 then 1 else 0)) :
    Inv { μ with pending := none, events := μ.events ++ [e] }
        { v with numobjs := n', eventCount := v.eventCount + 1, evReg := upd v.evReg e true } := by
  have hc := hI.ev_cnt
  refine { hI with ev_reg := ?_, ev_cnt := ?_, acct := ?_, pre := ?_, wait := ?_ }
  · intro g h
    rcases upd_true_iff.1 h with ⟨e, _⟩ | ⟨_, h⟩
    · subst e; simp
    · exact List.mem_append_left _ (hI.ev_reg g h)
  · simp only [List.length_append, List.length_cons, List.length_nil]; omega
  · have := hI.acct; simp only [List.length_append, List.length_cons, List.length_nil] at this ⊢
    split at hn <;> omega
  · simp [hpc]
  · simp [hpc, waitInfo]

theorem Inv_ev_del {μ v} (hI : Inv μ v) (hpc : v.pc = .user) (e : EvId) (hr : v.evReg e = true) (n' : Int)
    (hn : n' = v.numobjs - 1 - (if v.eventCount - 1 = 0 then 1 else 0)) :
    Inv { μ with events := μ.events.erase e, pending := none }
        { v with numobjs := n', eventCount := v.eventCount - 1, evReg := upd v.evReg e false } := by
  have hc := hI.ev_cnt
  have hm := hI.ev_reg e hr
  have hp := List.length_pos_of_mem hm
  refine { hI with ev_reg := ?_, ev_cnt := ?_, acct := ?_, pre := ?_, wait := ?_ }
  · intro g h
    rcases upd_true_iff.1 h with ⟨_, e⟩ | ⟨e, h⟩
    · cases e
    · exact (List.mem_erase_of_ne e).2 (hI.ev_reg g h)
  · simp only [List.length_erase_of_mem hm]; omega
  · have := hI.acct; simp only [List.length_erase_of_mem hm]
    split at hn <;> omega
  · simp [hpc]
  · simp [hpc, waitInfo]


/-! ## the monitor on API records -/

def apiM (m : M) (a : Api) : M :=
  match a with
  | .main => { m with quit := false, inMain := true, pending := none, idleWakes := 0 }
  | .quit => { m with quit := true, pending := none }
  | .fdUnregister f => { m with fds := m.fds.erase f, pending := none }
  | .timerUnregister t => { m with timers := m.timers.erase t, pending := none }
  | .taskUnregister k => { m with tasks := m.tasks.erase k, pending := none }
  | .evUnregister x => { m with events := m.events.erase x, pending := none }
  | .rawUnregister r => { m with raws := m.raws.erase r, pending := none }
  | a => { m with pending := some a }

def retM (m : M) (v : Int) : M :=
  let m' := { m with pending := none }
  if v != 0 then m' else
  match m.pending with
  | some (.fdRegister f ..) => { m' with fds := m.fds ++ [f] }
  | some (.fdRegisterTry f ..) => { m' with fds := m.fds ++ [f] }
  | some (.timerRegister t _) => { m' with timers := m.timers ++ [t] }
  | some (.taskRegister k) => { m' with tasks := m.tasks ++ [k] }
  | some (.evRegister x _) => { m' with events := m.events ++ [x] }
  | some (.rawRegister r _) => { m' with raws := m.raws ++ [r] }
  | _ => m'

theorem step_api {μ : M} (hd : μ.dead = false) (a : Api) : Mon.C07.step μ (.inp (.api a)) = .ok (apiM μ a) := by
  unfold Mon.C07.step apiM
  simp only [hd]
  cases a <;> rfl

theorem step_ret {μ : M} (hd : μ.dead = false) (v : Int) : Mon.C07.step μ (.out (.ret v)) = .ok (retM μ v) := by
  unfold Mon.C07.step retM
  simp only [hd, Bool.false_eq_true, if_false]
  by_cases hv : (v != 0) = true
  · simp only [hv, if_true]
  · simp only [hv, if_false]
    generalize μ.pending = p
    cases p with
    | none => rfl
    | some a => cases a <;> rfl

theorem apiM_dead (μ : M) (a : Api) : (apiM μ a).dead = μ.dead := by cases a <;> rfl

theorem step_inp_other {μ : M} (hd : μ.dead = false) (i : Input) (h1 : ∀ a, i ≠ .api a) (h2 : i ≠ .handlerEnd) :
    Mon.C07.step μ (.inp i) = .ok { μ with pending := none } := by
  unfold Mon.C07.step
  simp only [hd]
  cases i <;> first | rfl | exact absurd rfl (h1 _) | exact absurd rfl h2

abbrev ApiGoal (μ : M) (s : St) (a : Api) : Prop :=
  FoldTo μ (Ev.inp (.api a) :: (api s a).2.map Ev.out) (fun μ' => R μ' (api s a).1)

theorem api_fatal {μ : M} (hd : μ.dead = false) (a : Api) (s : St) (msg : String) :
    FoldTo μ (Ev.inp (.api a) :: [Ev.out (.fatal msg)]) (fun μ' => R μ' s) :=
  foldTo_cons (step_api hd a) (foldTo_fatal (by rw [apiM_dead]; exact hd) _ _)

theorem api_fault {μ : M} (hd : μ.dead = false) (a : Api) (s : St) (msg : String) :
    FoldTo μ (Ev.inp (.api a) :: [Ev.out (.fault msg)]) (fun μ' => R μ' s) :=
  foldTo_cons (step_api hd a) (foldTo_fault (by rw [apiM_dead]; exact hd) _ _)

theorem api_ret {μ : M} (hd : μ.dead = false) (a : Api) (v : Int) (s : St)
    (h : Inv (retM (apiM μ a) v) (view s)) :
    FoldTo μ (Ev.inp (.api a) :: [Ev.out (.ret v)]) (fun μ' => R μ' s) :=
  foldTo_cons (step_api hd a) (foldTo_cons (step_ret (by rw [apiM_dead]; exact hd) v) (foldTo_nil (Or.inr h)))

theorem api_noret {μ : M} (hd : μ.dead = false) (a : Api) (s : St)
    (h : Inv (apiM μ a) (view s)) :
    FoldTo μ (Ev.inp (.api a) :: []) (fun μ' => R μ' s) :=
  foldTo_cons (step_api hd a) (foldTo_nil (Or.inr h))

theorem api_fdRegister {μ s} (f : FdId) (a b c : Bool) (hI : Inv μ (view s)) (hpc : s.pc = .user) :
    ApiGoal μ s (.fdRegister f a b c) := by
  unfold ApiGoal
  simp only [api]
  split
  · exact api_fatal hI.mdead _ _ _
  · refine api_ret hI.mdead _ _ _ ?_
    obtain ⟨F, N, P, e, hF⟩ := fdRegisterCore_nf s f a b c
    rw [e]
    show Inv _ { view s with numobjs := s.numobjs + 1, fdReg := fun g => (F g).registered }
    rw [hF]
    exact Inv_fd_add hI hpc f _ rfl


def tryOk1 (s : St) (f : FdId) (hin hout herr : Bool) : St :=
  let o := s.fds f
  let o := { o with hin, hout, herr, registered := true, ready := {}, regBands := {}, index := none }
  let orig := wantedOf o
  let w : Bands := if orig.isZero then ⟨true, true, false⟩ else orig
  { s with fds := upd s.fds f { o with wanted := w }, notify := s.notify.erase f }

def tryOk2 (s : St) (f : FdId) : St := if s.method.isEpoll then epollFlushOne s f else pollNotify s f

def tryOk3 (s : St) (f : FdId) : St :=
  let o := s.fds f
  let s := { s with fds := upd s.fds f { o with wanted := {} } }
  if s.method.isEpoll then epollNotify s f else pollNotify s f

def tryOk (s : St) (f : FdId) (hin hout herr : Bool) : St :=
  let o := s.fds f
  let o := { o with hin, hout, herr, registered := true, ready := {}, regBands := {}, index := none }
  let orig := wantedOf o
  let s2 := tryOk2 (tryOk1 s f hin hout herr) f
  let s3 := if orig.isZero then tryOk3 s2 f else s2
  { s3 with numobjs := s3.numobjs + 1, numfds := s3.numfds + 1 }

theorem api_tryOk (s : St) (f : FdId) (a b c : Bool) (h : (s.fds f).registered = false) :
    api s (.fdRegisterTry f a b c true) = ok (tryOk s f a b c) := by
  simp only [api, h]
  rfl

theorem view_tryOk2 (s : St) (f : FdId) : view (tryOk2 s f) = view s := by
  unfold tryOk2; split
  · exact view_epollFlushOne _ _
  · exact view_pollNotify _ _

theorem view_tryOk3 (s : St) (f : FdId) : view (tryOk3 s f) = view s := by
  unfold tryOk3
  dsimp only
  have h0 : view ({ s with fds := upd s.fds f { (s.fds f) with wanted := {} } } : St) = view s := by
    show ({ view s with fdReg := fun g => (upd s.fds f { (s.fds f) with wanted := {} } g).registered } : V) = view s
    rw [fdReg_congr (regSame_upd s.fds f { (s.fds f) with wanted := {} } rfl)]
    rfl
  split
  · rw [view_epollNotify, h0]
  · rw [view_pollNotify, h0]

theorem view_tryOk (s : St) (f : FdId) (a b c : Bool) :
    view (tryOk s f a b c) = { view s with numobjs := s.numobjs + 1, fdReg := upd (view s).fdReg f true } := by
  have h1 : view (tryOk1 s f a b c) = { view s with fdReg := upd (view s).fdReg f true } := by
    unfold tryOk1
    simp only [view, fdReg_upd]
  have key : ∀ s3 : St, view s3 = { view s with fdReg := upd (view s).fdReg f true } →
      view { s3 with numobjs := s3.numobjs + 1, numfds := s3.numfds + 1 } =
        { view s with numobjs := s.numobjs + 1, fdReg := upd (view s).fdReg f true } := by
    intro s3 h
    show ({ view s3 with numobjs := (view s3).numobjs + 1 } : V) = _
    rw [h]
    rfl
  unfold tryOk
  dsimp only
  split
  · exact key _ (by rw [view_tryOk3, view_tryOk2, h1])
  · exact key _ (by rw [view_tryOk2, h1])


theorem view_setfd (s : St) (f : FdId) (o : FdObj) (h : o.registered = (s.fds f).registered) :
    view ({ s with fds := upd s.fds f o } : St) = view s := by
  show ({ view s with fdReg := fun g => (upd s.fds f o g).registered } : V) = view s
  rw [fdReg_congr (regSame_upd s.fds f o h)]
  rfl

theorem api_fdRegisterTry {μ s} (f : FdId) (a b c k : Bool) (hI : Inv μ (view s)) (hpc : s.pc = .user) :
    ApiGoal μ s (.fdRegisterTry f a b c k) := by
  unfold ApiGoal
  by_cases hr : (s.fds f).registered = true
  · simp only [api, hr, if_true]
    exact api_fatal hI.mdead _ _ _
  · have hr' : (s.fds f).registered = false := by simpa using hr
    cases k
    · simp only [api, hr']
      refine api_ret hI.mdead _ _ _ ?_
      have key : ∀ (o : FdObj) (N : List FdId), o.registered = false →
          Inv { μ with pending := none } (view ({ s with fds := upd s.fds f o, notify := N } : St)) := by
        intro o N ho
        show Inv _ ({ view s with fdReg := fun g => (upd s.fds f o g).registered } : V)
        rw [fdReg_congr (regSame_upd s.fds f o (ho.trans hr'.symm))]
        exact Inv_pend hI none
      exact key _ _ rfl
    · rw [api_tryOk s f a b c hr']
      refine api_ret hI.mdead _ _ _ ?_
      show Inv _ (view (tryOk s f a b c))
      rw [view_tryOk]
      exact Inv_fd_add hI hpc f _ rfl

theorem api_fdUnregister {μ s} (f : FdId) (hI : Inv μ (view s)) (hpc : s.pc = .user) (hf : f < 1000) :
    ApiGoal μ s (.fdUnregister f) := by
  unfold ApiGoal
  by_cases hr : (s.fds f).registered = true
  · simp only [api, hr]
    refine api_ret hI.mdead _ _ _ ?_
    obtain ⟨F, N, P, K, H, e, hF⟩ := fdUnregisterCore_nf s f
    rw [e]
    show Inv _ ({ view s with numobjs := s.numobjs - 1, fdReg := fun g => (F g).registered,
                              stack := s.stack.map (eraseActive · f) } : V)
    rw [hF]
    have h1 := Inv_fd_del hI hpc f hf hr _ rfl
    exact Inv_stack_map h1 hpc (eraseActive · f) (good_map_eraseActive hI.good f)
      (batchOf_map_eraseActive hI.good f) (tasksOf_map_eraseActive hI.good f)
  · have hr' : (s.fds f).registered = false := by simpa using hr
    simp only [api, hr']
    exact api_fatal hI.mdead _ _ _

theorem api_fdSet_aux {μ s} (f : FdId) (a : Api) (o : FdObj) (hI : Inv μ (view s))
    (ho : o.registered = (s.fds f).registered)
    (ha : retM (apiM μ a) 0 = { μ with pending := none }) :
    FoldTo μ (Ev.inp (.api a) :: [Ev.out (.ret 0)])
      (fun μ' => R μ' (notifyFd { s with fds := upd s.fds f o } f)) := by
  refine api_ret hI.mdead _ _ _ ?_
  rw [view_notifyFd, view_setfd s f o ho, ha]
  exact Inv_pend hI none

theorem api_fdSetIn {μ s} (f : FdId) (v : Bool) (hI : Inv μ (view s)) : ApiGoal μ s (.fdSetIn f v) := by
  unfold ApiGoal
  simp only [api]
  split
  · exact api_fatal hI.mdead _ _ _
  · exact api_fdSet_aux f _ _ hI rfl rfl

theorem api_fdSetOut {μ s} (f : FdId) (v : Bool) (hI : Inv μ (view s)) : ApiGoal μ s (.fdSetOut f v) := by
  unfold ApiGoal
  simp only [api]
  split
  · exact api_fatal hI.mdead _ _ _
  · exact api_fdSet_aux f _ _ hI rfl rfl

theorem api_fdSetErr {μ s} (f : FdId) (v : Bool) (hI : Inv μ (view s)) : ApiGoal μ s (.fdSetErr f v) := by
  unfold ApiGoal
  simp only [api]
  split
  · exact api_fatal hI.mdead _ _ _
  · exact api_fdSet_aux f _ _ hI rfl rfl


/-- timers, tasks and the frame stack change while user code runs -/
theorem Inv_user_lists {μ v} (hI : Inv μ v) (hpc : v.pc = .user) (p : Option Api) (μt' : List Nat)
    (μk' : List TaskId) (h' : Store) (tasks' : List TaskId) (st' : List Frame) (n' : Int)
    (hg : Good st') (hne : st' = [] ↔ v.stack = [])
    (hT : Tm μt' h' (batchOf st')) (hK : Tk μk' (tasks' ++ tasksOf st'))
    (hn : n' - ((h'.num + (tasks' ++ tasksOf st').length : Nat) : Int) =
          v.numobjs - ((v.heap.num + (v.tasks ++ tasksOf v.stack).length : Nat) : Int)) :
    Inv { μ with timers := μt', tasks := μk', pending := p }
        { v with heap := h', tasks := tasks', stack := st', numobjs := n' } := by
  refine { hI with good := hg, idle := ?_, noev := ?_, inCb := ?_, inMain := ?_, tm := hT, tk := hK, acct := ?_,
                   pre := ?_, wait := ?_ }
  · simp [hpc, pcIdle]
  · simp [hpc, pcNoEv]
  · intro h; obtain ⟨h1, h2⟩ := hI.inCb h; exact ⟨h1, fun e => h2 (hne.1 e)⟩
  · intro h; apply hI.inMain; rcases h with h | h
    · left; exact fun e => h (hne.2 e)
    · right; exact h
  · have := hI.acct
    show n' = ((μ.fds.length + μ.raws.length + h'.num + (tasks' ++ tasksOf st').length + μ.events.length +
      min μ.events.length 1 : Nat) : Int)
    omega
  · simp [hpc]
  · simp [hpc, waitInfo]

theorem batchOf_map_set {st} (h : Good st) (b' : List Nat) (hb : batchOf st = [] → b' = []) :
    batchOf (st.map (setTimerBatch · b')) = b' := by
  rcases batchOf_map_setTimerBatch h b' with e | ⟨e1, e2⟩
  · exact e
  · rw [e2, hb e1]

theorem api_timerRegister {μ s} (t : Nat) (e : TS) (hI : Inv μ (view s)) (hpc : s.pc = .user)
    (hts : t < s.heap.idx.size) (he1 : 0 ≤ e.sec) (he2 : 0 ≤ e.nsec) : ApiGoal μ s (.timerRegister t e) := by
  unfold ApiGoal
  have hT : Tm μ.timers s.heap (batchOf s.stack) := hI.tm
  rcases Tm_register hT hts he1 he2 with ⟨m, em⟩ | ⟨h', e1, hT', hn⟩
  · simp only [api, em]
    exact api_fatal hI.mdead _ _ _
  · simp only [api, e1, ok]
    refine api_ret hI.mdead _ _ _ ?_
    exact Inv_user_lists hI hpc none (μ.timers ++ [t]) μ.tasks h' s.tasks s.stack _ hI.good Iff.rfl hT' hI.tk
      (by simp only [view]; omega)

theorem api_timerUnregister {μ s} (t : Nat) (hI : Inv μ (view s)) (hpc : s.pc = .user)
    (hts : t < s.heap.idx.size) : ApiGoal μ s (.timerUnregister t) := by
  unfold ApiGoal
  have hT : Tm μ.timers s.heap (batchOf s.stack) := hI.tm
  have hg : Good s.stack := hI.good
  have hb : timerBatch s = batchOf s.stack := timerBatch_eq hg
  have hne : ∀ b, (s.stack.map (setTimerBatch · b) = [] ↔ (view s).stack = []) := by
    intro b; simp [view]
  simp only [api, hb]
  rcases Tm_unregister hT hts with ⟨m, em⟩ | ⟨hgd, e1, hT'⟩ | ⟨hgd, h', e1, hT', hn⟩
  · simp only [em]
    exact api_fatal hI.mdead _ _ _
  · simp only [e1, hgd, ok]
    refine api_ret hI.mdead _ _ _ ?_
    have hbb := batchOf_map_set hg ((batchOf s.stack).erase t) (by intro h; rw [h]; rfl)
    refine Inv_user_lists hI hpc none (μ.timers.erase t) μ.tasks (clrIdx s.heap t) s.tasks _ _
      (good_map_setTimerBatch hg _) (hne _) (by rw [hbb]; exact hT') ?_ ?_
    · rw [tasksOf_map_setTimerBatch hg]; exact hI.tk
    · rw [tasksOf_map_setTimerBatch hg]; simp [view, clrIdx]
  · have hd : decide (s.heap.idx.getD t (-1) ≥ 1) = true := by simpa using hgd
    simp only [e1, hd, ok]
    refine api_ret hI.mdead _ _ _ ?_
    have hbb := batchOf_map_set hg (batchOf s.stack) (fun h => h)
    refine Inv_user_lists hI hpc none (μ.timers.erase t) μ.tasks h' s.tasks _ _
      (good_map_setTimerBatch hg _) (hne _) (by rw [hbb]; exact hT') ?_ ?_
    · rw [tasksOf_map_setTimerBatch hg]; exact hI.tk
    · rw [tasksOf_map_setTimerBatch hg]; simp only [view, if_true]; omega


theorem not_onList {s : St} {k : TaskId} (h : taskOnList s k = false) : k ∉ s.tasks ++ tasksOf s.stack := by
  intro hm
  have := (taskOnList_iff s k).2 hm
  rw [h] at this; cases this

/-- `iv_task_register` core on a task that is on no list: the monitor list `μk'` follows -/
theorem Inv_taskRegisterCore {μ s} (k : TaskId) (p : Option Api) (μk' : List TaskId) (hI : Inv μ (view s))
    (hpc : s.pc = .user) (hk : k ∉ s.tasks ++ tasksOf s.stack)
    (hK : Tk μk' (k :: (s.tasks ++ tasksOf s.stack))) :
    Inv { μ with tasks := μk', pending := p } (view (taskRegisterCore s k)) := by
  have hg : Good s.stack := hI.good
  unfold taskRegisterCore
  dsimp only
  split
  · refine Inv_user_lists hI hpc p μ.timers μk' s.heap (s.tasks ++ [k]) s.stack _ hg Iff.rfl hI.tm ?_ ?_
    · refine Tk_perm hK ?_
      simp only [List.append_assoc, List.singleton_append]
      exact List.perm_middle
    · simp only [view, List.length_append, List.length_cons, List.length_nil]; omega
  · next hc =>
    have hr : s.stack.any (fun fr => match fr with | .tasks _ => true | _ => false) = true := by
      simp only [inRunTasks, Bool.or_eq_true, Bool.not_eq_true', not_or, Bool.not_eq_false] at hc
      exact hc.1
    have ht := tasksOf_map_appendTaskBatch hg k hr
    refine Inv_user_lists hI hpc p μ.timers μk' s.heap s.tasks (s.stack.map (appendTaskBatch · k)) _
      (good_map_appendTaskBatch hg k) (by simp [view]) ?_ ?_ ?_
    · rw [batchOf_map_appendTaskBatch hg]; exact hI.tm
    · rw [ht]
      refine Tk_perm hK ?_
      rw [← List.append_assoc]
      exact (List.perm_append_singleton _ _)
    · rw [ht]; simp only [view, List.length_append, List.length_cons, List.length_nil]; omega

theorem api_taskRegister {μ s} (k : TaskId) (hI : Inv μ (view s)) (hpc : s.pc = .user) (hk1 : 1 ≤ k) :
    ApiGoal μ s (.taskRegister k) := by
  unfold ApiGoal
  cases hon : taskOnList s k
  · simp only [api, hon, ok]
    refine api_ret hI.mdead _ _ _ ?_
    have hk := not_onList hon
    exact Inv_taskRegisterCore (μ := μ) k none (μ.tasks ++ [k]) hI hpc hk
      (Tk_cons_user hI.tk hk (Nat.pos_iff_ne_zero.mp hk1))
  · simp only [api, hon]
    exact api_fatal hI.mdead _ _ _

theorem api_taskUnregister {μ s} (k : TaskId) (hI : Inv μ (view s)) (hpc : s.pc = .user) (hk1 : 1 ≤ k) :
    ApiGoal μ s (.taskUnregister k) := by
  unfold ApiGoal
  have hg : Good s.stack := hI.good
  cases hon : taskOnList s k
  · simp only [api, hon]
    exact api_fatal hI.mdead _ _ _
  · simp only [api, hon, ok, taskUnregisterCore, Bool.not_true, Bool.false_eq_true, if_false]
    refine api_ret hI.mdead _ _ _ ?_
    have hk := (taskOnList_iff s k).1 hon
    have hnd : (s.tasks ++ tasksOf s.stack).Nodup := hI.tk.nd
    have he : s.tasks.erase k ++ tasksOf (s.stack.map (eraseTask · k)) = (s.tasks ++ tasksOf s.stack).erase k := by
      rw [tasksOf_map_eraseTask hg]; exact erase_append_nodup k hnd
    refine Inv_user_lists hI hpc none μ.timers (μ.tasks.erase k) s.heap (s.tasks.erase k)
      (s.stack.map (eraseTask · k)) _ (good_map_eraseTask hg k) (by simp [view]) ?_ ?_ ?_
    · rw [batchOf_map_eraseTask hg]; exact hI.tm
    · rw [he]; exact Tk_erase_user hI.tk hk (Nat.pos_iff_ne_zero.mp hk1)
    · rw [he, List.length_erase_of_mem hk]
      have := List.length_pos_of_mem hk
      simp only [view]; omega

theorem api_taskInit {μ s} (k : TaskId) (hI : Inv μ (view s)) : ApiGoal μ s (.taskInit k) := by
  unfold ApiGoal
  simp only [api]
  exact api_noret hI.mdead _ _ (Inv_pend hI _)

theorem api_evPost {μ s} (e : EvId) (hI : Inv μ (view s)) (hpc : s.pc = .user) : ApiGoal μ s (.evPost e) := by
  unfold ApiGoal
  simp only [api]
  split
  · exact api_noret hI.mdead _ _ (Inv_pend hI _)
  · split
    · next hc =>
      refine api_noret hI.mdead _ _ ?_
      have hon : taskOnList s 0 = false := by
        simp only [Bool.and_eq_true, Bool.not_eq_true'] at hc
        exact hc.2
      have hk := not_onList hon
      exact Inv_taskRegisterCore (μ := μ) (s := { s with pending := s.pending ++ [e] }) 0 _ μ.tasks hI hpc hk
        (Tk_cons_zero hI.tk hk)
    · exact api_noret hI.mdead _ _ (Inv_pend hI _)


theorem ev_plain {μ s} (e : EvId) (hI : Inv μ (view s)) (hpc : s.pc = .user) (S : St) (n' : Int) (o : EvObj)
    (ho : o.registered = true)
    (hv : view S = { view s with numobjs := n', eventCount := s.eventCount + 1,
                                 evReg := fun q => (upd s.evs e o q).registered })
    (hn : n' = s.numobjs + 1 + (if s.eventCount = 0 then 1 else 0)) :
    Inv { μ with pending := none, events := μ.events ++ [e] } (view S) := by
  rw [hv, evReg_upd, ho]
  exact Inv_ev_add hI hpc e _ hn

theorem ev_raw {μ s} (e : EvId) (hI : Inv μ (view s)) (hpc : s.pc = .user) (S2 : St) (o : EvObj)
    (ho : o.registered = true)
    (hv : view S2 = { view s with numobjs := s.numobjs + 1, eventCount := s.eventCount + 1 })
    (he : S2.evs = s.evs) (hf : s.eventCount = 0) :
    Inv { μ with pending := none, events := μ.events ++ [e] }
      (view ({ (rawRegisterCore S2 0) with evs := (upd (rawRegisterCore S2 0).evs e o) } : St)) := by
  obtain ⟨F, N, P, e1, hF⟩ := rawRegisterCore_nf S2 0
  rw [e1]
  show Inv _ ({ view S2 with
                  numobjs := (view S2).numobjs + 1
                  fdReg := (fun g => (F g).registered)
                  rawReg := (fun q => (upd S2.raws 0 { (S2.raws 0) with registered := true } q).registered)
                  evReg := (fun q => (upd S2.evs e o q).registered) } : V)
  have hfd : (fun g => (S2.fds g).registered) = (view s).fdReg := congrArg V.fdReg hv
  have hrw : (fun q => (S2.raws q).registered) = (view s).rawReg := congrArg V.rawReg hv
  rw [hF, rawReg_upd, he, evReg_upd, ho, hv, hfd, hrw]
  exact Inv_intl (Inv_ev_add hI hpc e (s.numobjs + 1 + 1) (by simp [view, hf])) true

theorem api_evRegister {μ s} (e : EvId) (rawOk : Bool) (hI : Inv μ (view s)) (hpc : s.pc = .user) :
    ApiGoal μ s (.evRegister e rawOk) := by
  unfold ApiGoal
  have hfail : ∀ S : St, view S = { view s with numobjs := s.numobjs + 1 - 1, eventCount := s.eventCount + 1 - 1 } →
      Inv { μ with pending := none } (view S) := by
    intro S hv
    rw [hv, Int.add_sub_cancel, Int.add_sub_cancel]
    exact Inv_pend hI none
  cases hf : (s.eventCount == (0 : Int))
  · have hf' : s.eventCount ≠ 0 := by simpa using hf
    simp only [api, hf, Bool.false_and, Bool.false_eq_true, if_false, ok]
    refine api_ret hI.mdead _ _ _ ?_
    exact ev_plain e hI hpc _ _ _ rfl rfl (by simp [hf'])
  · have hf' : s.eventCount = 0 := by simpa using hf
    cases hu : s.useRaw
    · cases hep : s.method.isEpoll
      · cases rawOk
        · simp only [api, hf, hu, hep, Bool.not_false, Bool.and_self, Bool.and_true, if_true, if_false,
            Bool.false_eq_true, Bool.not_true, Bool.and_false, ok, Bool.true_and]
          refine api_ret hI.mdead _ _ _ ?_
          exact hfail _ rfl
        · simp only [api, hf, hu, hep, Bool.not_false, Bool.and_self, Bool.and_true, if_true, if_false,
            Bool.false_eq_true, Bool.not_true, Bool.and_false, ok, Bool.true_and]
          refine api_ret hI.mdead _ _ _ ?_
          exact ev_raw e hI hpc _ _ rfl rfl rfl hf'
      · simp only [api, hf, hu, hep, Bool.not_false, Bool.and_self, Bool.and_true, if_true, if_false,
            Bool.false_eq_true, Bool.not_true, Bool.and_false, ok, Bool.true_and]
        refine api_ret hI.mdead _ _ _ ?_
        exact ev_plain e hI hpc _ _ _ rfl rfl (by simp [hf'])
    · cases rawOk
      · simp only [api, hf, hu, Bool.not_false, Bool.and_self, Bool.and_true, if_true, if_false,
            Bool.false_eq_true, Bool.not_true, Bool.and_false, ok, Bool.true_and]
        refine api_ret hI.mdead _ _ _ ?_
        exact hfail _ rfl
      · simp only [api, hf, hu, Bool.not_false, Bool.and_self, Bool.and_true, if_true, if_false,
            Bool.false_eq_true, Bool.not_true, Bool.and_false, ok, Bool.true_and]
        refine api_ret hI.mdead _ _ _ ?_
        exact ev_raw e hI hpc _ _ rfl rfl rfl hf'

theorem ev_del_plain {μ s} (e : EvId) (hI : Inv μ (view s)) (hpc : s.pc = .user) (hr : (s.evs e).registered = true)
    (S : St) (n' : Int) (o : EvObj) (ho : o.registered = false)
    (hv : view S = { view s with
                      numobjs := n'
                      eventCount := s.eventCount - 1
                      evReg := (fun q => (upd s.evs e o q).registered)
                      stack := s.stack.map (eraseEvent · e) })
    (hn : n' = s.numobjs - 1 - (if s.eventCount - 1 = 0 then 1 else 0)) :
    Inv { μ with events := μ.events.erase e, pending := none } (view S) := by
  have hg : Good s.stack := hI.good
  rw [hv, evReg_upd, ho]
  have h1 := Inv_ev_del hI hpc e hr n' hn
  exact Inv_stack_map h1 hpc (eraseEvent · e) (good_map_eraseEvent hg e) (batchOf_map_eraseEvent hg e)
    (tasksOf_map_eraseEvent hg e)

theorem ev_del_raw {μ s} (e : EvId) (hI : Inv μ (view s)) (hpc : s.pc = .user) (hr : (s.evs e).registered = true)
    (S1 : St) (o : EvObj) (ho : o.registered = false)
    (hv : view S1 = { view s with
                      eventCount := s.eventCount - 1
                      evReg := (fun q => (upd s.evs e o q).registered)
                      stack := s.stack.map (eraseEvent · e) })
    (hl : s.eventCount - 1 = 0) :
    Inv { μ with events := μ.events.erase e, pending := none }
      (view ({ (rawUnregisterCore S1 0) with numobjs := (rawUnregisterCore S1 0).numobjs - 1 } : St)) := by
  have hg : Good s.stack := hI.good
  obtain ⟨F, N, P, K, H, e1, hF⟩ := rawUnregisterCore_nf S1 0
  rw [e1]
  show Inv _ ({ view S1 with
                  numobjs := (view S1).numobjs - 1 - 1
                  fdReg := (fun g => (F g).registered)
                  rawReg := (fun q => (upd S1.raws 0 { (S1.raws 0) with registered := false } q).registered)
                  stack := (view S1).stack.map (eraseActive · (rawFd 0)) } : V)
  have hfd : (fun g => (S1.fds g).registered) = (view s).fdReg := congrArg V.fdReg hv
  have hrw : (fun q => (S1.raws q).registered) = (view s).rawReg := congrArg V.rawReg hv
  rw [hF, rawReg_upd, hfd, hrw, hv, evReg_upd, ho]
  have h1 := Inv_ev_del hI hpc e hr (s.numobjs - 1 - 1) (by simp [view, hl])
  have h2 := Inv_stack_map h1 hpc (eraseEvent · e) (good_map_eraseEvent hg e) (batchOf_map_eraseEvent hg e)
    (tasksOf_map_eraseEvent hg e)
  have hg2 : Good (s.stack.map (eraseEvent · e)) := good_map_eraseEvent hg e
  have h3 := Inv_stack_map h2 hpc (eraseActive · (rawFd 0)) (good_map_eraseActive hg2 _)
    (batchOf_map_eraseActive hg2 _) (tasksOf_map_eraseActive hg2 _)
  exact Inv_intl h3 false

theorem api_evUnregister {μ s} (e : EvId) (hI : Inv μ (view s)) (hpc : s.pc = .user)
    (hr : (s.evs e).registered = true) : ApiGoal μ s (.evUnregister e) := by
  unfold ApiGoal
  cases hl : (s.eventCount - 1 == (0 : Int))
  · have hl' : s.eventCount - 1 ≠ 0 := by simpa using hl
    simp only [api, hl, Bool.false_eq_true, if_false, ok]
    refine api_ret hI.mdead _ _ _ ?_
    exact ev_del_plain e hI hpc hr _ _ _ rfl rfl (by simp [hl'])
  · have hl' : s.eventCount - 1 = 0 := by simpa using hl
    cases hu : s.useRaw
    · simp only [api, hl, hu, Bool.false_eq_true, if_false, if_true, ok]
      refine api_ret hI.mdead _ _ _ ?_
      exact ev_del_plain e hI hpc hr _ _ _ rfl rfl (by simp [hl'])
    · simp only [api, hl, hu, Bool.false_eq_true, if_false, if_true, ok]
      refine api_ret hI.mdead _ _ _ ?_
      exact ev_del_raw e hI hpc hr _ _ rfl rfl hl'

theorem api_rawRegister {μ s} (r : RawId) (okk : Bool) (hI : Inv μ (view s)) (hpc : s.pc = .user) :
    ApiGoal μ s (.rawRegister r okk) := by
  unfold ApiGoal
  cases okk
  · simp only [api, Bool.not_false, if_true]
    exact api_ret hI.mdead _ _ _ (Inv_pend hI none)
  · simp only [api, Bool.not_true, Bool.false_eq_true, if_false, ok]
    refine api_ret hI.mdead _ _ _ ?_
    obtain ⟨F, N, P, e1, hF⟩ := rawRegisterCore_nf s r
    rw [e1]
    show Inv _ ({ view s with
                    numobjs := s.numobjs + 1
                    fdReg := (fun g => (F g).registered)
                    rawReg := (fun q => (upd s.raws r { (s.raws r) with registered := true } q).registered) } : V)
    rw [hF, rawReg_upd]
    exact Inv_raw_add hI hpc r _ rfl

theorem api_rawUnregister {μ s} (r : RawId) (hI : Inv μ (view s)) (hpc : s.pc = .user) (h1 : 1 ≤ r)
    (hr : (s.raws r).registered = true) : ApiGoal μ s (.rawUnregister r) := by
  unfold ApiGoal
  have hg : Good s.stack := hI.good
  simp only [api]
  refine api_noret hI.mdead _ _ ?_
  obtain ⟨F, N, P, K, H, e1, hF⟩ := rawUnregisterCore_nf s r
  rw [e1]
  show Inv _ ({ view s with
                  numobjs := s.numobjs - 1
                  fdReg := (fun g => (F g).registered)
                  rawReg := (fun q => (upd s.raws r { (s.raws r) with registered := false } q).registered)
                  stack := s.stack.map (eraseActive · (rawFd r)) } : V)
  rw [hF, rawReg_upd]
  have h2 := Inv_raw_del hI hpc r h1 hr _ rfl
  exact Inv_stack_map h2 hpc (eraseActive · (rawFd r)) (good_map_eraseActive hg _)
    (batchOf_map_eraseActive hg _) (tasksOf_map_eraseActive hg _)

theorem api_quit {μ s} (hI : Inv μ (view s)) (hpc : s.pc = .user) : ApiGoal μ s .quit := by
  unfold ApiGoal
  simp only [api]
  refine api_noret hI.mdead _ _ ?_
  show Inv { μ with quit := true, pending := none } ({ view s with quit := true } : V)
  refine { hI with quit_eq := rfl, pre := ?_, wait := ?_ }
  · simp [view, hpc]
  · simp [view, hpc, waitInfo]

theorem api_invalidateNow {μ s} (hI : Inv μ (view s)) : ApiGoal μ s .invalidateNow := by
  unfold ApiGoal
  simp only [api]
  exact api_noret hI.mdead _ _ (Inv_pend hI _)

theorem api_validateNow {μ s} (hI : Inv μ (view s)) (hpc : s.pc = .user) : ApiGoal μ s .validateNow := by
  unfold ApiGoal
  simp only [api]
  split
  · exact api_noret hI.mdead _ _ (Inv_pend hI _)
  · refine api_noret hI.mdead _ _ ?_
    show Inv { μ with pending := some .validateNow } ({ view s with pc := .needTime .forValidate } : V)
    refine { hI with idle := ?_, noev := ?_, inCb := ?_, inMain := ?_, pre := ?_, wait := ?_ }
    · simp [pcIdle]
    · simp [pcNoEv]
    · intro h; exact ⟨rfl, (hI.inCb h).2⟩
    · intro h; apply hI.inMain; rcases h with h | h
      · exact Or.inl h
      · simp [pcUserish] at h
    · simp
    · simp [waitInfo]

theorem api_main {μ s} (hI : Inv μ (view s)) (hpc : s.pc = .user) : ApiGoal μ s .main := by
  unfold ApiGoal
  simp only [api]
  split
  · next hst =>
    refine api_noret hI.mdead _ _ ?_
    show Inv { μ with quit := false, inMain := true, pending := none, idleWakes := 0 }
      ({ view s with quit := false, pc := .run (.mainTop true) } : V)
    have hst' : (view s).stack = [] := hst
    refine { hI with quit_eq := rfl, idle := fun _ => hst', noev := ?_, inCb := ?_, inMain := fun _ => rfl,
                     pre := ?_, wait := ?_ }
    · simp [pcNoEv]
    · intro h; exact absurd hst' (hI.inCb h).2
    · simp
    · simp [waitInfo]
  · exact api_fatal hI.mdead _ _ _

theorem api_step {μ s} (a : Api) (hI : Inv μ (view s)) (hpc : s.pc = .user)
    (henv : (apiOk s a && apiLive s a) = true) : ApiGoal μ s a := by
  have hok : apiOk s a = true := (Bool.and_eq_true_iff.1 henv).1
  cases a with
  | fdRegister f a b c => exact api_fdRegister f a b c hI hpc
  | fdRegisterTry f a b c k => exact api_fdRegisterTry f a b c k hI hpc
  | fdUnregister f =>
    have : f < 64 := by simpa [apiOk] using hok
    exact api_fdUnregister f hI hpc (Nat.lt_trans this (by decide))
  | fdSetIn f v => exact api_fdSetIn f v hI
  | fdSetOut f v => exact api_fdSetOut f v hI
  | fdSetErr f v => exact api_fdSetErr f v hI
  | timerRegister t e =>
    simp only [apiOk, Bool.and_eq_true, decide_eq_true_eq] at hok
    exact api_timerRegister t e hI hpc hok.1.1.1 hok.1.1.2 hok.1.2
  | timerUnregister t =>
    simp only [apiOk, decide_eq_true_eq] at hok
    exact api_timerUnregister t hI hpc hok
  | taskRegister k =>
    simp only [apiOk, decide_eq_true_eq] at hok
    exact api_taskRegister k hI hpc hok
  | taskUnregister k =>
    simp only [apiOk, decide_eq_true_eq] at hok
    exact api_taskUnregister k hI hpc hok
  | taskInit k => exact api_taskInit k hI
  | evRegister e r => exact api_evRegister e r hI hpc
  | evUnregister e =>
    simp only [apiOk] at hok
    exact api_evUnregister e hI hpc hok
  | evPost e => exact api_evPost e hI hpc
  | rawRegister r o => exact api_rawRegister r o hI hpc
  | rawUnregister r =>
    simp only [apiOk, Bool.and_eq_true, decide_eq_true_eq] at hok
    exact api_rawUnregister r hI hpc hok.1.1 hok.2
  | quit => exact api_quit hI hpc
  | invalidateNow => exact api_invalidateNow hI
  | validateNow => exact api_validateNow hI hpc
  | main => exact api_main hI hpc


/-! ## the other inputs -/

abbrev InpGoal (μ : M) (i : Input) (r : St × List Out) : Prop :=
  FoldTo μ (Ev.inp i :: r.2.map Ev.out) (fun μ' => R μ' r.1)

theorem step_handlerEnd {μ : M} (hd : μ.dead = false) :
    Mon.C07.step μ (.inp .handlerEnd) = .ok { μ with inCb := false, pending := none } := by
  unfold Mon.C07.step; simp only [hd]; rfl

theorem Inv_handlerEnd {μ v} (hI : Inv μ v) (hpc : v.pc = .user) (hne : v.stack ≠ []) (b : Block)
    (h1 : pcIdle (.run b) = false) (h2 : pcNoEv (.run b) = false) (h3 : b ≠ .prepWait)
    (h4 : waitInfo (.run b) = none) :
    Inv { μ with inCb := false, pending := none } { v with pc := .run b } := by
  refine { hI with idle := ?_, noev := ?_, inCb := ?_, inMain := ?_, pre := ?_, wait := ?_ }
  · simp [h1]
  · simp [h2]
  · simp
  · intro _; exact hI.inMain (Or.inl hne)
  · intro h; exact absurd (Pc.run.inj h) h3
  · simp [h4]

theorem inp_handlerEnd {μ s} (hI : Inv μ (view s)) (hpc : s.pc = .user) (r : St × List Out)
    (hin : input s .handlerEnd = some r) : InpGoal μ .handlerEnd r := by
  unfold InpGoal
  simp only [input, hpc] at hin
  have hg : Good s.stack := hI.good
  generalize hst : s.stack = st at hg hin
  have hne : (view s).stack ≠ [] → True := fun _ => trivial
  cases hg <;> simp only [Option.some.injEq, reduceCtorEq] at hin <;> subst hin <;>
    exact foldTo_cons (step_handlerEnd hI.mdead) (foldTo_nil (Or.inr
      (Inv_handlerEnd hI hpc (by simp [view, hst]) _ rfl rfl (by simp) rfl)))

theorem upd_same {α : Type} (F : Nat → α) (a : Nat) (b : α) (h : b = F a) : upd F a b = F := by
  funext g; unfold upd; split
  · next e => rw [h, e]
  · rfl

theorem view_freeObj (s : St) (k id : Nat) : view (freeObj s k id) = view s := by
  unfold freeObj
  split
  · exact view_setfd s id _ rfl
  · rfl
  · rfl
  · show ({ view s with evReg := (fun q => (upd s.evs id { (s.evs id) with live := false } q).registered) } : V) = _
    rw [evReg_upd, upd_same _ _ _ rfl]; rfl
  · show ({ view s with rawReg := (fun q => (upd s.raws id { (s.raws id) with live := false } q).registered) } : V) = _
    rw [rawReg_upd, upd_same _ _ _ rfl]; rfl

theorem view_initObj (s : St) (k id : Nat) (h : unregisteredObj s k id = true) : view (initObj s k id) = view s := by
  rcases k with _ | _ | _ | _ | n
  · simp only [unregisteredObj, Bool.and_eq_true, Bool.not_eq_true', decide_eq_true_eq] at h
    exact view_setfd s id _ h.2.symm
  · rfl
  · rfl
  · simp only [unregisteredObj, Bool.not_eq_true'] at h
    show ({ view s with evReg := (fun q => (upd s.evs id { live := true } q).registered) } : V) = _
    rw [evReg_upd, upd_same _ _ _ h.symm]; rfl
  · simp only [unregisteredObj, Bool.and_eq_true, Bool.not_eq_true', decide_eq_true_eq] at h
    show ({ view s with rawReg := (fun q => (upd s.raws id { live := true } q).registered) } : V) = _
    rw [rawReg_upd, upd_same _ _ _ h.2.symm]; rfl

theorem inp_same_view {μ s} (hI : Inv μ (view s)) (i : Input) (h1 : ∀ a, i ≠ .api a) (h2 : i ≠ .handlerEnd)
    (s' : St) (hv : view s' = view s) : InpGoal μ i (s', []) := by
  refine foldTo_cons (step_inp_other hI.mdead i h1 h2) (foldTo_nil (Or.inr ?_))
  rw [hv]; exact Inv_pend hI none

theorem Inv_time {μ v} (hI : Inv μ v) (t : TS) (ht : 0 ≤ t.sec ∧ 0 ≤ t.nsec) : Inv μ { v with time := t } :=
  { hI with time_nn := ht, wait := hI.wait }

theorem Inv_to_user {μ v} (hI : Inv μ v) (hu : pcUserish v.pc = true) : Inv μ { v with pc := .user } := by
  refine { hI with idle := ?_, noev := ?_, inCb := ?_, inMain := ?_, pre := ?_, wait := ?_ }
  · simp [pcIdle]
  · simp [pcNoEv]
  · intro h; exact ⟨rfl, (hI.inCb h).2⟩
  · intro h; apply hI.inMain; rcases h with h | h
    · exact Or.inl h
    · simp [pcUserish] at h
  · simp
  · simp [waitInfo]

theorem inp_time {μ s} (k : TimeK) (t : TS) (hI : Inv μ (view s)) (hpc : s.pc = .needTime k)
    (ht : 0 ≤ t.sec ∧ 0 ≤ t.nsec) : InpGoal μ (.time t) (afterTime s t k) := by
  unfold InpGoal
  refine foldTo_cons (step_inp_other hI.mdead _ (by simp) (by simp)) ?_
  have hI1 : Inv { μ with pending := none } ({ view s with time := t } : V) := Inv_time (Inv_pend hI none) t ht
  cases k with
  | forTimers =>
    have hst : (view s).stack = [] := hI.idle (by simp [view, hpc, pcIdle])
    exact foldTo_nil (Or.inr (Inv_pc hI1 (.run .collect) (by simp [view, hpc, pcUserish]) (fun _ => hst)
      (by simp [pcNoEv]) (by simp) (by simp [waitInfo])))
  | forWait a km =>
    have hst : (view s).stack = [] := hI.idle (by simp [view, hpc, pcIdle])
    have hW : WaitOk (view s) a km := hI.wait a km (by simp [view, hpc, waitInfo])
    refine foldTo_nil (Or.inr (Inv_pc hI1 (.run (.wait a km)) (by simp [view, hpc, pcUserish]) (fun _ => hst)
      (by simp [pcNoEv]) (by simp) ?_))
    intro a' k' h; simp only [waitInfo, Option.some.injEq, Prod.mk.injEq] at h; rw [← h.1, ← h.2]; exact hW
  | forValidate =>
    exact foldTo_nil (Or.inr (Inv_to_user hI1 (by simp [view, hpc, pcUserish])))


/-! ## the wait returns -/

theorem view_makeReady (s : St) (a : List FdId) (f : FdId) (b : Bands) : view (makeReady s a f b).1 = view s := by
  unfold makeReady
  dsimp only
  split
  · exact view_setfd s f _ rfl
  · exact view_setfd s f _ rfl

theorem view_activate (s : St) (a : List FdId) (f : FdId) (ev : KEv) : view (activate s a f ev).1 = view s := by
  unfold activate
  dsimp only
  split <;> split <;> split <;> simp only [view_makeReady]

abbrev Acc := St × List FdId × Bool × Bool

/-- what one reported item may do to the loop state: nothing visible, except that a `.ktimer` item
clears the kernel timer and forces `iv_run_timers` -/
def AccOk (a r : Acc) : Prop :=
  view r.1 = { view a.1 with ktimer := r.1.ktimer } ∧
  (r.2.2.1 = true ∨ (r.1.ktimer = a.1.ktimer ∧ r.2.2.1 = a.2.2.1))

theorem AccOk.refl (a : Acc) : AccOk a a := ⟨rfl, Or.inr ⟨rfl, rfl⟩⟩

theorem AccOk.trans {a b c : Acc} (h1 : AccOk a b) (h2 : AccOk b c) : AccOk a c := by
  refine ⟨?_, ?_⟩
  · rw [h2.1, h1.1]
  · rcases h2.2 with h | ⟨h, h'⟩
    · exact Or.inl h
    · rcases h1.2 with g | ⟨g, g'⟩
      · exact Or.inl (h'.trans g)
      · exact Or.inr ⟨h.trans g, h'.trans g'⟩

theorem fold_accOk (f : Acc → WItem → Acc) (hf : ∀ acc it, AccOk acc (f acc it)) :
    ∀ (l : List WItem) (acc : Acc), AccOk acc (l.foldl f acc) := by
  intro l
  induction l with
  | nil => intro acc; exact AccOk.refl acc
  | cons it l ih => intro acc; exact (hf acc it).trans (ih _)

/-- the state when `iv_fd_poll_and_run` starts dispatching -/
theorem Inv_afterWait {μ v} (hI : Inv μ v) (abs : Option TS) (km : Bool) (hpc : v.pc = .waiting abs km)
    (kt' : Option TS) (cnt' : Nat) (active : List FdId) (rt : Bool) (b : Block)
    (hb : b = .dispatchNext ∨ b = .runEvents)
    (hk : v.method = .epollTimerfd → cnt' = 5 → v.lastAbsCount = 5 ∧ kt' = v.ktimer) :
    Inv { μ with pending := none }
      { v with ktimer := kt', lastAbsCount := cnt', stack := .poll active rt :: v.stack, pc := .run b } := by
  have hu : pcUserish v.pc = false := by simp [hpc, pcUserish]
  have hst : v.stack = [] := hI.idle (by simp [hpc, pcIdle])
  have hcb := inCb_false hI hu
  refine { hI with good := ?_, idle := ?_, noev := ?_, inCb := ?_, inMain := ?_, tm := hI.tm, tk := hI.tk,
                   acct := hI.acct, ktim := ?_, pre := ?_, wait := ?_ }
  · show Good (.poll active rt :: v.stack); rw [hst]; exact Good.poll _ _
  · rcases hb with rfl | rfl <;> simp [pcIdle]
  · intro _; show noEvTop (.poll active rt :: v.stack); rw [hst]; simp [noEvTop]
  · simp [hcb]
  · intro _; exact hI.inMain (Or.inr hu)
  · intro hm h5
    obtain ⟨h5', hkt⟩ := hk hm h5
    have := hI.ktim hm h5'
    exact ⟨this.1, hkt ▸ this.2⟩
  · rcases hb with rfl | rfl <;> simp
  · rcases hb with rfl | rfl <;> simp [waitInfo]

theorem Inv_ppoll_fallback {μ v} (hI : Inv μ v) (hm : v.method = .ppoll) (abs : Option TS) (km : Bool)
    (hpc : v.pc = .waiting abs km) (p : Pc) (hp : p = .needTime (.forWait abs km) ∨ p = .run (.wait abs km)) :
    Inv μ { v with method := .poll, pc := p } := by
  have hu : pcUserish v.pc = false := by simp [hpc, pcUserish]
  have hst : v.stack = [] := hI.idle (by simp [hpc, pcIdle])
  have hcb := inCb_false hI hu
  obtain ⟨w1, w2, w3, w4, w5⟩ : WaitOk v abs km := hI.wait abs km (by simp [hpc, waitInfo])
  have hkm : km = false := by
    cases km
    · rfl
    · have := (w3 rfl).2.1; rw [hm] at this; cases this
  refine { hI with idle := fun _ => hst, noev := ?_, inCb := ?_, inMain := ?_, ktim := ?_, pre := ?_, wait := ?_ }
  · rcases hp with rfl | rfl <;> simp [pcNoEv]
  · simp [hcb]
  · intro _; exact hI.inMain (Or.inr hu)
  · intro h; cases h
  · rcases hp with rfl | rfl <;> simp
  · intro a k hw
    have : a = abs ∧ k = km := by
      rcases hp with rfl | rfl <;>
        (simp only [waitInfo, Option.some.injEq, Prod.mk.injEq] at hw; exact ⟨hw.1.symm, hw.2.symm⟩)
    obtain ⟨rfl, rfl⟩ := this
    subst hkm
    refine ⟨w1, w2, ?_, ?_, ?_⟩
    · intro h; cases h
    · intro _ h; cases h
    · intro ht
      rcases w5 ht with h | ⟨h, _⟩
      · exact Or.inl h
      · cases h

def wfold (acc : St × List FdId × Bool × Bool) (it : WItem) : St × List FdId × Bool × Bool :=
  let (s, a, rt, re) := acc
  match it with
  | .kick => ({ s with kickArmed := false }, a, rt, true)
  | .ktimer => ({ s with ktimer := none }, a, true, re)
  | .fd f ev => let (s', a') := activate s a f ev; (s', a', rt, re)

def evFinish (km : Bool) (acc : St × List FdId × Bool × Bool) : St × List Out :=
  let (s, active, rt, runEv) := acc
  let s := if km && rt then { s with lastAbsCount := 0 } else s
  let s := { s with stack := .poll active rt :: s.stack }
  if runEv then goto s .runEvents else goto s .dispatchNext

theorem afterWait_events_eq (s : St) (abs : Option TS) (km : Bool) (l : List WItem) :
    afterWait s abs km (.events l) =
      evFinish km (l.foldl wfold ({ s with timeValid := false }, [],
        (if ({ s with timeValid := false } : St).method == .epollTimerfd then abs.isSome else true), false)) := rfl

theorem wfold_ok (acc : Acc) (it : WItem) : AccOk acc (wfold acc it) := by
  obtain ⟨s, a, rt, re⟩ := acc
  cases it with
  | kick => exact ⟨rfl, Or.inr ⟨rfl, rfl⟩⟩
  | ktimer => exact ⟨rfl, Or.inl rfl⟩
  | fd f ev =>
    have hv := view_activate s a f ev
    refine ⟨?_, Or.inr ⟨?_, rfl⟩⟩
    · show view (activate s a f ev).1 = { view s with ktimer := (view (activate s a f ev).1).ktimer }
      rw [hv]
    · exact congrArg V.ktimer hv

theorem afterWait_eintr_eq (s : St) (abs : Option TS) (km : Bool) :
    afterWait s abs km .eintr =
      evFinish km ({ s with timeValid := false }, [],
        (if ({ s with timeValid := false } : St).method == .epollTimerfd then abs.isSome else true), false) := rfl

theorem finish_ok {μ s} (abs : Option TS) (km : Bool) (hI : Inv μ (view s)) (hpc : s.pc = .waiting abs km)
    (acc : Acc)
    (hacc : AccOk ({ s with timeValid := false }, [],
        (if ({ s with timeValid := false } : St).method == .epollTimerfd then abs.isSome else true), false) acc) :
    FoldTo { μ with pending := none } ((evFinish km acc).2.map Ev.out) (fun μ' => R μ' (evFinish km acc).1) := by
  have hW : WaitOk (view s) abs km := hI.wait abs km (by simp [view, hpc, waitInfo])
  have hpc' : (view s).pc = .waiting abs km := hpc
  obtain ⟨s3, active, rt, re⟩ := acc
  obtain ⟨hv, hrt⟩ := hacc
  have hv' : view s3 = { view s with ktimer := s3.ktimer } := hv
  have hrt' : rt = true ∨ (s3.ktimer = s.ktimer ∧
      rt = (if ({ s with timeValid := false } : St).method == .epollTimerfd then abs.isSome else true)) := hrt
  have hk : ∀ cnt', cnt' = (if (km && rt) = true then 0 else s.lastAbsCount) →
      (view s).method = .epollTimerfd → cnt' = 5 → (view s).lastAbsCount = 5 ∧ s3.ktimer = (view s).ktimer := by
    intro cnt' hc hm h5
    have hm' : s.method = .epollTimerfd := hm
    by_cases hkr : (km && rt) = true
    · rw [if_pos hkr] at hc; omega
    · rw [if_neg hkr] at hc
      have h5' : (view s).lastAbsCount = 5 := by rw [← h5, hc]; rfl
      refine ⟨h5', ?_⟩
      have hkm : km = true := by
        cases km
        · exact absurd h5' (hW.2.2.2.1 rfl hm)
        · rfl
      rcases hrt' with h | ⟨h1, h2⟩
      · exfalso; apply hkr; simp [hkm, h]
      · exact h1
  have key : ∀ (b : Block), (b = .dispatchNext ∨ b = .runEvents) →
      R { μ with pending := none }
        (goto { (if (km && rt) = true then { s3 with lastAbsCount := 0 } else s3) with
                stack := .poll active rt :: (if (km && rt) = true then { s3 with lastAbsCount := 0 } else s3).stack } b).1 := by
    intro b hb
    refine Or.inr ?_
    by_cases hkr : (km && rt) = true
    · simp only [hkr, if_true]
      show Inv _ ({ view s3 with lastAbsCount := 0, stack := .poll active rt :: (view s3).stack, pc := .run b } : V)
      rw [hv']
      exact Inv_afterWait hI abs km hpc' s3.ktimer 0 active rt b hb (hk 0 (by simp [hkr]))
    · simp only [hkr, if_false]
      show Inv _ ({ view s3 with stack := .poll active rt :: (view s3).stack, pc := .run b } : V)
      rw [hv']
      exact Inv_afterWait hI abs km hpc' s3.ktimer s.lastAbsCount active rt b hb (hk _ (by simp [hkr]))
  unfold evFinish
  dsimp only
  split
  · exact foldTo_nil (key _ (Or.inr rfl))
  · exact foldTo_nil (key _ (Or.inl rfl))

theorem inp_wret {μ s} (abs : Option TS) (km : Bool) (r : WRes) (hI : Inv μ (view s))
    (hpc : s.pc = .waiting abs km) : InpGoal μ (.wret r) (afterWait s abs km r) := by
  unfold InpGoal
  have hu : pcUserish (view s).pc = false := by simp [view, hpc, pcUserish]
  have hst : (view s).stack = [] := hI.idle (by simp [view, hpc, pcIdle])
  have hW : WaitOk (view s) abs km := hI.wait abs km (by simp [view, hpc, waitInfo])
  have hmon := step_inp_other hI.mdead (.wret r) (by simp) (by simp)
  have hI0 : Inv { μ with pending := none } (view s) := Inv_pend hI none
  have hwait : ∀ a k, waitInfo (.run (.wait abs km)) = some (a, k) → WaitOk (view s) a k := by
    intro a k h; simp only [waitInfo, Option.some.injEq, Prod.mk.injEq] at h; rw [← h.1, ← h.2]; exact hW
  have hpc' : (view s).pc = .waiting abs km := hpc
  cases r with
  | enosys =>
    simp only [afterWait]
    split
    · split
      · exact foldTo_cons hmon (foldTo_nil (Or.inr (Inv_pc hI0 (.run (.wait abs km)) hu (fun _ => hst)
          (by simp [pcNoEv]) (by simp) hwait)))
      · exact foldTo_cons hmon (foldTo_fatal (μ := { μ with pending := none }) hI.mdead _ _)
    · split
      · exact foldTo_cons hmon (foldTo_nil (Or.inr (Inv_pc hI0 (.run (.wait abs km)) hu (fun _ => hst)
          (by simp [pcNoEv]) (by simp) hwait)))
      · exact foldTo_cons hmon (foldTo_fatal (μ := { μ with pending := none }) hI.mdead _ _)
    · next hm =>
      split
      · exact foldTo_cons hmon (foldTo_nil (Or.inr (Inv_ppoll_fallback hI0 hm abs km hpc' _ (Or.inl rfl))))
      · exact foldTo_cons hmon (foldTo_nil (Or.inr (Inv_ppoll_fallback hI0 hm abs km hpc' _ (Or.inr rfl))))
    · exact foldTo_cons hmon (foldTo_fatal (μ := { μ with pending := none }) hI.mdead _ _)
  | eintr =>
    rw [afterWait_eintr_eq]
    exact foldTo_cons hmon (finish_ok abs km hI hpc _ (AccOk.refl _))
  | events l =>
    rw [afterWait_events_eq]
    exact foldTo_cons hmon (finish_ok abs km hI hpc _ (fold_accOk wfold wfold_ok l _))


theorem noEvTop_ne_nil {st : List Frame} (h : noEvTop st) : st ≠ [] := by
  intro e; subst e; exact h

theorem inp_rawRead {μ s} (r : RawId) (okk : Bool) (hI : Inv μ (view s)) (hpc : s.pc = .needRawRead r)
    (res : St × List Out) (hin : input s (.rawRead okk) = some res) : InpGoal μ (.rawRead okk) res := by
  unfold InpGoal
  have hu : pcUserish (view s).pc = false := by simp [view, hpc, pcUserish]
  have hne : noEvTop (view s).stack := hI.noev (by simp [view, hpc, pcNoEv])
  have hmon := step_inp_other hI.mdead (.rawRead okk) (by simp) (by simp)
  have hI0 : Inv { μ with pending := none } (view s) := Inv_pend hI none
  simp only [input, hpc] at hin
  split at hin
  · cases hin
    exact foldTo_cons hmon (foldTo_nil (R_goto hI0 hu .fdStage (by simp [pcIdle]) (by simp [pcNoEv]) (by simp)
      (by simp [waitInfo])))
  · split at hin
    · cases hin
      exact foldTo_cons hmon (foldTo_nil (R_goto hI0 hu .runEvents (by simp [pcIdle]) (fun _ => hne) (by simp)
        (by simp [waitInfo])))
    · split at hin
      · cases hin
        exact foldTo_cons hmon (foldTo_fault (μ := { μ with pending := none }) hI.mdead _ _)
      · cases hin
        refine foldTo_cons hmon (foldTo_cons (step_cb hI0 hu _) (foldTo_nil (Or.inr ?_)))
        exact Inv_cb hI0 hu (view s).stack hI.good (noEvTop_ne_nil hne) rfl rfl

theorem inp_xpost {μ s} (e : EvId) (abs : Option TS) (km : Bool) (hI : Inv μ (view s))
    (hpc : s.pc = .waiting abs km)
    (res : St × List Out) (hin : input s (.xpost e) = some res) : InpGoal μ (.xpost e) res := by
  simp only [input, hpc] at hin
  split at hin
  · cases hin
    exact inp_same_view hI _ (by simp) (by simp) s rfl
  · cases hin
    refine inp_same_view hI _ (by simp) (by simp) _ ?_
    split <;> simp [view, hpc]

theorem input_step {μ s} (i : Input) (hI : Inv μ (view s)) (henv : envOk s i = true) (res : St × List Out)
    (hin : input s i = some res) : InpGoal μ i res := by
  cases hpc : s.pc with
  | user =>
    cases i with
    | api a =>
      simp only [input, hpc, Option.some.injEq] at hin
      subst hin
      exact api_step a hI hpc henv
    | handlerEnd => exact inp_handlerEnd hI hpc res hin
    | free k id =>
      simp only [input, hpc, Option.some.injEq] at hin
      subst hin
      exact inp_same_view hI _ (by simp) (by simp) _ (view_freeObj s k id)
    | init k id =>
      simp only [input, hpc, Option.some.injEq] at hin
      subst hin
      exact inp_same_view hI _ (by simp) (by simp) _ (view_initObj s k id henv)
    | time t => simp [input, hpc] at hin
    | wret r => simp [input, hpc] at hin
    | rawRead o => simp [input, hpc] at hin
    | xpost e => simp [input, hpc] at hin
  | needTime k =>
    cases i with
    | time t =>
      simp only [input, hpc, Option.some.injEq] at hin
      subst hin
      simp only [envOk, Bool.and_eq_true, decide_eq_true_eq] at henv
      exact inp_time k t hI hpc ⟨henv.1.1.1, henv.1.1.2⟩
    | _ => simp [input, hpc] at hin
  | waiting abs km =>
    cases i with
    | wret r =>
      simp only [input, hpc, Option.some.injEq] at hin
      subst hin
      exact inp_wret abs km r hI hpc
    | xpost e => exact inp_xpost e abs km hI hpc res hin
    | _ => simp [input, hpc] at hin
  | needRawRead r =>
    cases i with
    | rawRead o => exact inp_rawRead r o hI hpc res hin
    | _ => simp [input, hpc] at hin
  | run b => cases i <;> simp [input, hpc] at hin
  | dead => cases i <;> simp [input, hpc] at hin


/-! ## the theorem -/

theorem exec_ok {s : St} {evs : List Ev} {s' : St} (h : Exec s evs s') :
    ∀ μ, R μ s → ∃ μ', evs.foldlM Mon.C07.step μ = .ok μ' := by
  induction h with
  | nil s => intro μ _; exact ⟨μ, rfl⟩
  | @internal s s1 s2 b outs evs hpc hint _ ih =>
    intro μ hR
    rcases hR with hd | hI
    · exact ⟨μ, fold_dead hd _⟩
    · have := internal_step b hI hpc
      unfold IntGoal at this
      rw [hint] at this
      obtain ⟨μ1, e1, hR1⟩ := this
      obtain ⟨μ2, e2⟩ := ih μ1 hR1
      exact ⟨μ2, by rw [List.foldlM_append, e1]; exact e2⟩
  | @input s s1 s2 i outs evs henv hin _ ih =>
    intro μ hR
    rcases hR with hd | hI
    · exact ⟨μ, fold_dead hd _⟩
    · obtain ⟨μ1, e1, hR1⟩ := input_step i hI henv (s1, outs) hin
      obtain ⟨μ2, e2⟩ := ih μ1 hR1
      refine ⟨μ2, ?_⟩
      rw [← List.cons_append, List.foldlM_append, e1]; exact e2

theorem monitor_accepts (m : Method) (ntimers : Nat) (timerfdAvail pwait2 : Bool)
    (evs : List Ev) (s' : St) (h : Exec (St.init m ntimers timerfdAvail pwait2) evs s') :
    Ivy.Mon.C07.verdict evs = none := by
  obtain ⟨μ', e⟩ := exec_ok h {} (Or.inr (inv_init m ntimers timerfdAvail pwait2))
  unfold Ivy.Mon.C07.verdict runMon
  rw [e]

/-! ## non-vacuity: a run that registers a task and an event, waits, is woken by a foreign post,
runs the event handler (which unregisters the event) and returns from `iv_main` -/

def demoInputs : List Input :=
  [.api (.taskRegister 1), .api (.evRegister 0 true), .api .main,
   .handlerEnd,                         -- task 1's handler returns
   .xpost 0, .wret (.events [.kick]),   -- another thread posts event 0; the wait reports the kick
   .api (.evUnregister 0), .handlerEnd] -- event 0's handler unregisters it and returns

def demoTrace : List Ev × St := runTrace 100 (St.init .epoll 0 true true) demoInputs

def isTaskCb : Ev → Bool | .out (.cb (.task 1)) => true | _ => false
def isEventCb : Ev → Bool | .out (.cb (.event 0)) => true | _ => false
def isWait : Ev → Bool | .out (.wait ..) => true | _ => false
def isMainRet : Ev → Bool | .out .mainRet => true | _ => false

example :
    Exec (St.init .epoll 0 true true) demoTrace.1 demoTrace.2 ∧
    demoTrace.1.any isTaskCb = true ∧ demoTrace.1.any isEventCb = true ∧
    demoTrace.1.any isWait = true ∧ demoTrace.1.any isMainRet = true ∧
    Ivy.Mon.C07.verdict demoTrace.1 = none :=
  ⟨runTrace_exec _ _ _, by decide, by decide, by decide, by decide,
   monitor_accepts _ _ _ _ _ _ (runTrace_exec 100 (St.init .epoll 0 true true) demoInputs)⟩

end Ivy.L1.ProofsC07
