import Ivy.L1.Machine
/-!
# Resource ledger of one loop instance (C18)

What `iv_init` / the poll methods / `iv_deinit` acquire and release for one thread, as a small
bookkeeping machine: descriptors (epoll instance, kernel timer, the event kick pair), the poll
method's two arrays, the timer radix levels, the per-thread state block.  `deinit` is only legal once
every user object is unregistered (then `eventCount = 0`, no raw event pair is open and the heap is
empty), which is what the documented API requires.
-/
namespace Ivy.L1.Ledger

structure Res where
  fds : Int := 0            -- descriptors held by this loop instance
  blocks : Int := 0         -- heap blocks held by this loop instance
deriving DecidableEq, Repr

structure St where
  inited : Bool := false
  epoll : Bool := false
  timerfd : Bool := false
  ratDepth : Nat := 0
  rawPairs : Nat := 0       -- raw events registered (each: 1 eventfd, or 2 pipe ends)
  pipeMode : Bool := false
  res : Res := {}
deriving Repr

inductive Op
  | init (epoll : Bool)
  | timerfdCreate          -- first `set_poll_timeout` of the epoll-timerfd method
  | ratGrow                -- heap population crosses 128^k upward
  | ratShrink
  | rawRegister
  | rawUnregister
  | deinit
deriving Repr

def fdsPerRaw (s : St) : Int := if s.pipeMode then 2 else 1

/-- `none` = the operation is not legal in this state -/
def step (s : St) : Op → Option St
  | .init ep =>
    if s.inited then none else
    -- state block; epoll instance | two poll arrays
    some { s with inited := true, epoll := ep, timerfd := false, ratDepth := 0,
                  res := ⟨s.res.fds + (if ep then 1 else 0), s.res.blocks + 1 + (if ep then 0 else 2)⟩ }
  | .timerfdCreate =>
    if !s.inited || !s.epoll || s.timerfd then none else
    some { s with timerfd := true, res := { s.res with fds := s.res.fds + 1 } }
  | .ratGrow =>
    if !s.inited then none else some { s with ratDepth := s.ratDepth + 1, res := { s.res with blocks := s.res.blocks + 1 } }
  | .ratShrink =>
    if !s.inited || s.ratDepth = 0 then none else
    some { s with ratDepth := s.ratDepth - 1, res := { s.res with blocks := s.res.blocks - 1 } }
  | .rawRegister =>
    if !s.inited then none else
    some { s with rawPairs := s.rawPairs + 1, res := { s.res with fds := s.res.fds + fdsPerRaw s } }
  | .rawUnregister =>
    if !s.inited || s.rawPairs = 0 then none else
    some { s with rawPairs := s.rawPairs - 1, res := { s.res with fds := s.res.fds - fdsPerRaw s } }
  | .deinit =>
    -- legal only with nothing registered; iv_timer_deinit frees every radix level, the method's deinit closes its descriptors
    if !s.inited || s.rawPairs ≠ 0 then none else
    some { s with inited := false, timerfd := false, ratDepth := 0, epoll := false,
                  res := ⟨s.res.fds - (if s.epoll then 1 else 0) - (if s.timerfd then 1 else 0),
                          s.res.blocks - 1 - (if s.epoll then 0 else 2) - (s.ratDepth : Int)⟩ }

def run (s : St) : List Op → Option St
  | [] => some s
  | o :: os => (step s o).bind (run · os)

/-- bookkeeping invariant: what is held is exactly what the flags say -/
def Inv (base : Res) (s : St) : Prop :=
  s.res.fds = base.fds + (if s.inited && s.epoll then 1 else 0) + (if s.inited && s.timerfd then 1 else 0) + (s.rawPairs : Int) * fdsPerRaw s ∧
  s.res.blocks = base.blocks + (if s.inited then 1 + (if s.epoll then 0 else 2) + (s.ratDepth : Int) else 0) ∧
  (s.inited = false → s.rawPairs = 0 ∧ s.timerfd = false)

theorem step_inv (base : Res) (s s' : St) (o : Op) (h : Inv base s) (hs : step s o = some s') : Inv base s' := by
  obtain ⟨h1, h2, h3⟩ := h
  cases o <;> simp only [step] at hs
  all_goals
    split at hs
    · simp at hs
    · cases hs
      cases hp : s.pipeMode <;> cases he : s.epoll <;> cases ht : s.timerfd <;> cases hi : s.inited <;>
        simp_all [Inv, fdsPerRaw] <;> (try omega)

/-- every legal history keeps the books exact -/
theorem run_inv (base : Res) (s s' : St) (ops : List Op) (h : Inv base s) (hr : run s ops = some s') : Inv base s' := by
  induction ops generalizing s with
  | nil => simp [run] at hr; subst hr; exact h
  | cons o os ih =>
    simp only [run] at hr
    cases hs : step s o with
    | none => simp [hs] at hr
    | some s1 => simp [hs] at hr; exact ih s1 (step_inv base s s1 o h hs) hr

/-- C18 ledger: whenever the loop instance is de-initialised, everything it acquired since `base` has
been released — for every history of init / timerfd creation / radix growth and shrink / raw-event
(un)registration, any number of init–use–deinit cycles. -/
theorem deinit_releases (s' : St) (ops : List Op) (hr : run {} ops = some s') (hd : s'.inited = false) :
    s'.res = ({} : Res) := by
  have hinv : Inv {} ({} : St) := by simp [Inv, fdsPerRaw]
  have h := run_inv {} {} s' ops hinv hr
  obtain ⟨h1, h2, h3⟩ := h
  have ⟨hr0, ht0⟩ := h3 hd
  cases hres : s'.res with
  | mk f b =>
    simp_all [fdsPerRaw]

end Ivy.L1.Ledger
