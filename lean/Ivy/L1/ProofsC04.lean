import Ivy.L1.Exec
import Ivy.Mon.C04
import Ivy.Props.C05
/-!
# Proof of C04 over the L1 loop machine

`monitor_accepts`: every `Exec` trace from an initial state is accepted by the monitor `Ivy.Mon.C04`.
The proof generalises to an arbitrary start: `R μ s` relates the monitor state to the machine state
(`Good`), or the monitor is in its absorbing `dead` state.
-/
namespace Ivy.L1.ProofsC04
open Ivy.L1 Ivy.Heap
open Ivy.Mon.C04 (M bounded ns)

abbrev mstep := Ivy.Mon.C04.step

/-! ## time arithmetic -/

/-- normalised -/
def Nm (t : TS) : Prop := 0 ≤ t.nsec ∧ t.nsec < 1000000000
/-- normalised and non-negative -/
def NN (t : TS) : Prop := 0 ≤ t.sec ∧ 0 ≤ t.nsec ∧ t.nsec < 1000000000

theorem NN.nm {t : TS} (h : NN t) : Nm t := ⟨h.2.1, h.2.2⟩

theorem ns_nonneg {t : TS} (h : NN t) : 0 ≤ ns t := by
  unfold ns; unfold NN at h; omega

theorem le_iff_ns {a b : TS} (ha : Nm a) (hb : Nm b) : a.le b ↔ ns a ≤ ns b := by
  unfold Nm at *
  simp only [TS.le, TS.gt, Bool.or_eq_false_iff, Bool.and_eq_false_iff, decide_eq_false_iff_not, ns]
  omega

theorem gt_iff_ns {a b : TS} (ha : Nm a) (hb : Nm b) : a.gt b = true ↔ ns b < ns a := by
  unfold Nm at *
  simp only [TS.gt, Bool.or_eq_true, Bool.and_eq_true, decide_eq_true_eq, ns]
  omega

theorem toRel_ns (now a : TS) :
    TS.toNs (toRelative now a) = if a.gt now = true then ns a - ns now else 0 := by
  unfold toRelative
  split
  · simp only [TS.toNs, ns]
    split <;> simp only [] <;> omega
  · simp [TS.toNs]

theorem toRel_nm {now a : TS} (hn : Nm now) (ha : Nm a) : Nm (toRelative now a) := by
  unfold Nm at *
  simp only [toRelative]
  split
  · split <;> simp only [] <;> omega
  · simp

theorem bounded_ns (now a exp : TS) (kt : Option (Option TS)) (h : ns a ≤ ns exp) :
    bounded now (.ns (TS.toNs (toRelative now a))) kt exp = true := by
  simp only [bounded, toRel_ns, Bool.or_eq_true, beq_iff_eq, decide_eq_true_eq]
  split <;> omega

theorem ms_aux (rel : TS) (hm : Nm rel) (remain : Int) (h : TS.toNs rel ≤ remain ∨ TS.toNs rel = 0) :
    ((if rel.sec < 86400 then 1000 * rel.sec + (rel.nsec + 999999).tdiv 1000000 else 86400000) = 0 ∨
      ((if rel.sec < 86400 then 1000 * rel.sec + (rel.nsec + 999999).tdiv 1000000 else 86400000) - 1) * 1000000 < remain) ∨
      (if rel.sec < 86400 then 1000 * rel.sec + (rel.nsec + 999999).tdiv 1000000 else 86400000) = 86400000 := by
  unfold Nm at hm
  simp only [TS.toNs] at h
  split
  · have hq : (rel.nsec + 999999).tdiv 1000000 = (rel.nsec + 999999) / 1000000 :=
      Int.tdiv_eq_ediv_of_nonneg (by omega)
    rw [hq]
    omega
  · right; rfl

theorem bounded_ms (now a exp : TS) (kt : Option (Option TS)) (hn : Nm now) (ha : Nm a)
    (h : ns a ≤ ns exp) :
    bounded now (.ms (toMsec now a)) kt exp = true := by
  have hr := toRel_ns now a
  have hm := toRel_nm hn ha
  have := ms_aux (toRelative now a) hm (ns exp - ns now) (by rw [hr]; split <;> omega)
  simp only [bounded, toMsec, Bool.or_eq_true, beq_iff_eq]
  rcases this with (h1 | h2) | h3
  · exact Or.inl (Or.inl h1)
  · exact Or.inl (Or.inr (decide_eq_true h2))
  · exact Or.inr h3

theorem tsCmp_ge {a b : TS} (ha : Nm a) (hb : Nm b) (h : tsCmp (some a) b ≥ 0) : ns b ≤ ns a := by
  unfold Nm at *
  simp only [tsCmp] at h
  unfold ns
  split at h
  · omega
  · split at h
    · omega
    · split at h
      · omega
      · omega

theorem tsCmp_eq {a : Option TS} {b : TS} (h : tsCmp a b = 0) : a = some b := by
  unfold tsCmp at h
  split at h
  · omega
  · next a =>
    split at h
    · omega
    · split at h
      · omega
      · split at h
        · omega
        · split at h
          · omega
          · cases a; cases b; simp at *; omega

/-! ## timer frames on the stack -/

def isT : Frame → Bool
  | .timers _ => true
  | _ => false

def noT (st : List Frame) : Prop := ∀ fr ∈ st, isT fr = false

@[simp] theorem noT_nil : noT [] := by simp [noT]
@[simp] theorem noT_cons (fr : Frame) (st : List Frame) : noT (fr :: st) ↔ isT fr = false ∧ noT st := by
  simp [noT]

theorem noT_tail {st : List Frame} (h : noT st) : noT st.tail := by
  cases st with
  | nil => simp
  | cons a as => simp at h ⊢; exact h.2

/-- stacks related frame by frame: equal, or both not a timer frame -/
def SRel : List Frame → List Frame → Prop
  | [], [] => True
  | a :: as, b :: bs => (a = b ∨ (isT a = false ∧ isT b = false)) ∧ SRel as bs
  | _, _ => False

theorem SRel.refl : ∀ st, SRel st st
  | [] => trivial
  | _ :: as => ⟨Or.inl rfl, SRel.refl as⟩

theorem SRel.trans : ∀ {a b c : List Frame}, SRel a b → SRel b c → SRel a c
  | [], [], [], _, _ => trivial
  | x :: xs, y :: ys, z :: zs, h1, h2 => by
    refine ⟨?_, SRel.trans h1.2 h2.2⟩
    rcases h1.1 with e1 | ⟨p1, q1⟩ <;> rcases h2.1 with e2 | ⟨p2, q2⟩
    · exact Or.inl (e1.trans e2)
    · subst e1; exact Or.inr ⟨p2, q2⟩
    · subst e2; exact Or.inr ⟨p1, q1⟩
    · exact Or.inr ⟨p1, q2⟩
  | [], [], _ :: _, _, h2 => h2.elim
  | [], _ :: _, _, h1, _ => h1.elim
  | _ :: _, [], _, h1, _ => h1.elim
  | _ :: _, _ :: _, [], _, h2 => h2.elim

theorem SRel.noT : ∀ {a b : List Frame}, SRel a b → noT a → noT b
  | [], [], _, _ => by simp
  | x :: xs, y :: ys, h, hn => by
    simp only [noT_cons] at hn ⊢
    refine ⟨?_, SRel.noT h.2 hn.2⟩
    rcases h.1 with e | ⟨_, q⟩
    · rw [← e]; exact hn.1
    · exact q
  | [], _ :: _, h, _ => h.elim
  | _ :: _, [], h, _ => h.elim

theorem SRel.timers {b : List Nat} {rest st : List Frame} (h : SRel (.timers b :: rest) st) :
    ∃ rest', st = .timers b :: rest' ∧ SRel rest rest' := by
  cases st with
  | nil => exact h.elim
  | cons y ys =>
    rcases h.1 with e | ⟨p, _⟩
    · exact ⟨ys, by rw [e], h.2⟩
    · simp [isT] at p

/-- frame maps that leave timer frames alone and do not create any -/
def Nice (f : Frame → Frame) : Prop := ∀ fr, f fr = fr ∨ (isT fr = false ∧ isT (f fr) = false)

theorem SRel.map {f : Frame → Frame} (hf : Nice f) : ∀ st, SRel st (st.map f)
  | [] => trivial
  | a :: as => ⟨by rcases hf a with e | h
                   · exact Or.inl e.symm
                   · exact Or.inr h, SRel.map hf as⟩

theorem nice_eraseActive (f : FdId) : Nice (eraseActive · f) := by
  intro fr; cases fr <;> simp [eraseActive, isT]
theorem nice_appendTaskBatch (k : TaskId) : Nice (appendTaskBatch · k) := by
  intro fr; cases fr <;> simp [appendTaskBatch, isT]
theorem nice_eraseTask (k : TaskId) : Nice (eraseTask · k) := by
  intro fr; cases fr <;> simp [eraseTask, isT]
theorem nice_eraseEvent (e : EvId) : Nice (eraseEvent · e) := by
  intro fr; cases fr <;> simp [eraseEvent, isT]

theorem map_setTimerBatch_noT (b : List Nat) : ∀ {st : List Frame}, noT st → st.map (setTimerBatch · b) = st
  | [], _ => rfl
  | a :: as, h => by
    simp only [noT_cons] at h
    simp only [List.map_cons, map_setTimerBatch_noT b h.2]
    cases a <;> simp_all [setTimerBatch, isT]

/-! ## `Same`: steps that do not touch anything the property depends on -/

structure Same (s s' : St) : Prop where
  heap : s'.heap = s.heap
  time : s'.time = s.time
  ktimer : s'.ktimer = s.ktimer
  timerfd : s'.timerfd = s.timerfd
  lastAbs : s'.lastAbs = s.lastAbs
  lastAbsCount : s'.lastAbsCount = s.lastAbsCount
  method : s'.method = s.method
  pc : s'.pc = s.pc
  stack : SRel s.stack s'.stack
  timeValid : s'.timeValid = s.timeValid

theorem Same.refl (s : St) : Same s s := ⟨rfl, rfl, rfl, rfl, rfl, rfl, rfl, rfl, SRel.refl _, rfl⟩

theorem Same.trans {a b c : St} (h1 : Same a b) (h2 : Same b c) : Same a c :=
  ⟨h2.heap.trans h1.heap, h2.time.trans h1.time, h2.ktimer.trans h1.ktimer, h2.timerfd.trans h1.timerfd,
   h2.lastAbs.trans h1.lastAbs, h2.lastAbsCount.trans h1.lastAbsCount, h2.method.trans h1.method,
   h2.pc.trans h1.pc, h1.stack.trans h2.stack, h2.timeValid.trans h1.timeValid⟩

/-- closes `Same s { s with … }` when none of the relevant fields is updated -/
macro "same_rfl" : tactic => `(tactic| exact ⟨rfl, rfl, rfl, rfl, rfl, rfl, rfl, rfl, SRel.refl _, rfl⟩)

theorem same_epollNotify (s : St) (f : FdId) : Same s (epollNotify s f) := by
  unfold epollNotify; same_rfl

theorem same_epollFlushOne (s : St) (f : FdId) : Same s (epollFlushOne s f) := by
  unfold epollFlushOne
  simp only []
  split <;> same_rfl

theorem same_pollNotify (s : St) (f : FdId) : Same s (pollNotify s f) := by
  unfold pollNotify
  simp only []
  repeat' split
  all_goals same_rfl

theorem same_notifyFd (s : St) (f : FdId) : Same s (notifyFd s f) := by
  unfold notifyFd
  simp only []
  split
  · exact Same.trans (by same_rfl) (same_epollNotify _ f)
  · exact Same.trans (by same_rfl) (same_pollNotify _ f)

theorem same_fdRegisterCore (s : St) (f : FdId) (a b c : Bool) : Same s (fdRegisterCore s f a b c) := by
  unfold fdRegisterCore
  extract_lets o o' s1 s2
  exact Same.trans (Same.trans (b := s1) (by same_rfl) (same_notifyFd s1 f)) (by same_rfl)

theorem same_fdUnregisterCore (s : St) (f : FdId) : Same s (fdUnregisterCore s f) := by
  unfold fdUnregisterCore
  extract_lets o s1 s2 s3
  have h1 : Same s s1 := ⟨rfl, rfl, rfl, rfl, rfl, rfl, rfl, rfl, SRel.map (nice_eraseActive f) _, rfl⟩
  have h2 : Same s1 s2 := same_notifyFd s1 f
  have h3 : Same s2 s3 := by
    show Same s2 (if _ then _ else _)
    split
    · exact same_epollFlushOne _ f
    · exact Same.refl _
  exact Same.trans (Same.trans (Same.trans h1 h2) h3) (by same_rfl)

theorem same_rawRegisterCore (s : St) (r : RawId) : Same s (rawRegisterCore s r) := by
  unfold rawRegisterCore
  extract_lets s1
  exact Same.trans (b := s1) (same_fdRegisterCore s _ _ _ _) (by same_rfl)

theorem same_rawUnregisterCore (s : St) (r : RawId) : Same s (rawUnregisterCore s r) := by
  unfold rawUnregisterCore
  extract_lets s1
  exact Same.trans (b := s1) (same_fdUnregisterCore s _) (by same_rfl)

theorem same_taskRegisterCore (s : St) (k : TaskId) : Same s (taskRegisterCore s k) := by
  unfold taskRegisterCore
  simp only []
  split
  · same_rfl
  · exact ⟨rfl, rfl, rfl, rfl, rfl, rfl, rfl, rfl, SRel.map (nice_appendTaskBatch k) _, rfl⟩

theorem same_taskUnregisterCore (s : St) (k : TaskId) : Same s (taskUnregisterCore s k) := by
  unfold taskUnregisterCore
  exact ⟨rfl, rfl, rfl, rfl, rfl, rfl, rfl, rfl, SRel.map (nice_eraseTask k) _, rfl⟩

theorem same_foldl_flush (l : List FdId) : ∀ s : St, Same s (l.foldl epollFlushOne s) := by
  induction l with
  | nil => intro s; exact Same.refl s
  | cons a as ih => intro s; exact Same.trans (same_epollFlushOne s a) (ih _)

theorem same_makeReady (s : St) (a : List FdId) (f : FdId) (b : Bands) : Same s (makeReady s a f b).1 := by
  unfold makeReady
  simp only []
  split <;> same_rfl

theorem same_activate (s : St) (a : List FdId) (f : FdId) (ev : KEv) : Same s (activate s a f ev).1 := by
  unfold activate
  simp only []
  have h1 : Same s (if (bandsOfKEv ev).i then makeReady s a f ⟨true, false, false⟩ else (s, a)).1 := by
    split
    · exact same_makeReady ..
    · exact Same.refl _
  generalize (if (bandsOfKEv ev).i then makeReady s a f ⟨true, false, false⟩ else (s, a)) = p1 at h1
  obtain ⟨s1, a1⟩ := p1
  simp only [] at h1 ⊢
  have h2 : Same s1 (if (bandsOfKEv ev).o then makeReady s1 a1 f ⟨false, true, false⟩ else (s1, a1)).1 := by
    split
    · exact same_makeReady ..
    · exact Same.refl _
  generalize (if (bandsOfKEv ev).o then makeReady s1 a1 f ⟨false, true, false⟩ else (s1, a1)) = p2 at h2
  obtain ⟨s2, a2⟩ := p2
  simp only [] at h2 ⊢
  split
  · exact Same.trans (Same.trans h1 h2) (same_makeReady ..)
  · exact Same.trans h1 h2

theorem same_freeObj (s : St) (k i : Nat) : Same s (freeObj s k i) := by
  unfold freeObj
  split <;> same_rfl

theorem same_initObj (s : St) (k i : Nat) : Same s (initObj s k i) := by
  unfold initObj
  split <;> same_rfl

/-! ## the invariant -/

def live (h : Store) (t : Nat) : Prop := onHeap h t ∨ h.idx[t]? = some 0

/-- program points at which a `.timers` frame may be on top of the stack -/
def pcT : Pc → Prop
  | .user => True
  | .run .popTimer => True
  | .needTime .forValidate => True
  | _ => False

def Stk (s : St) (batch : List Nat) : Prop :=
  (noT s.stack ∧ batch = []) ∨ (∃ rest, s.stack = .timers batch :: rest ∧ noT rest ∧ pcT s.pc)

def waitArgs : Pc → Option (Option TS × Bool)
  | .run (.flush abs km) => some (abs, km)
  | .run (.wait abs km) => some (abs, km)
  | .needTime (.forWait abs km) => some (abs, km)
  | .waiting abs km => some (abs, km)
  | _ => none

/-- the value `set_poll_timeout` arms the timerfd with -/
def armV (a : TS) : TS := if a.sec == 0 && a.nsec == 0 then ⟨0, 1⟩ else a

def KT (s : St) : Prop :=
  s.method = .epollTimerfd → s.lastAbsCount = 5 → s.timerfd = true ∧ s.ktimer = some (armV s.lastAbs)

def AbsOk (h : Store) : Option TS → Prop
  | none => ∀ t, ¬ onHeap h t
  | some a => Nm a ∧ ∀ t, onHeap h t → ns a ≤ ns (expOf h t)

def KOk (s : St) : Prop :=
  s.timerfd = true ∧ ∃ v, s.ktimer = some v ∧
    ((v.sec = 0 ∧ v.nsec = 1) ∨ ∀ t, onHeap s.heap t → ns v ≤ ns (expOf s.heap t))

def WaitOk (s : St) (abs : Option TS) (km : Bool) : Prop :=
  if km = true then abs = none ∧ KOk s
  else (s.method = .epollTimerfd → s.lastAbsCount ≠ 5) ∧ AbsOk s.heap abs

/-- program points at which the loop is about to use (or has just used) its clock value -/
def needsTV : Pc → Bool
  | .run .collect => true
  | .run (.wait abs _) => abs.isSome
  | .waiting abs _ => abs.isSome
  | _ => false

/-- freshness of the clock: a valid cached time was read after the last wait returned; so was the
time an expired batch was collected against; and the clock is valid where it is used -/
def Fr (μ : M) (s : St) (batch : List Nat) : Prop :=
  (s.timeValid = true → μ.fresh = true) ∧ (batch ≠ [] → μ.fresh = true) ∧
  (needsTV s.pc = true → s.timeValid = true)

structure GoodB (μ : M) (s : St) (batch : List Nat) : Prop where
  alive : μ.dead = false
  pend : μ.pending = none
  clock : μ.clock = s.time
  timeNN : NN s.time
  hinv : HeapInv s.heap
  stk : Stk s batch
  bnodup : batch.Nodup
  bidx : ∀ t, s.heap.idx[t]? = some 0 ↔ t ∈ batch
  ble : ∀ t, t ∈ batch → (expOf s.heap t).le s.time
  reg : ∀ t ex, (t, ex) ∈ μ.reg ↔ (live s.heap t ∧ expOf s.heap t = ex)
  expNN : ∀ t, live s.heap t → NN (expOf s.heap t)
  lastNm : Nm s.lastAbs
  kt : KT s
  wait : ∀ abs km, waitArgs s.pc = some (abs, km) → WaitOk s abs km
  fr : Fr μ s batch

def Good (μ : M) (s : St) : Prop := ∃ b, GoodB μ s b

def R (μ : M) (s : St) : Prop := μ.dead = true ∨ Good μ s

theorem Stk.mono {s s' : St} {b : List Nat} (hst : s'.stack = s.stack) (hpc : pcT s.pc → pcT s'.pc)
    (h : Stk s b) : Stk s' b := by
  rcases h with ⟨h1, h2⟩ | ⟨rest, h1, h2, h3⟩
  · exact Or.inl ⟨hst ▸ h1, h2⟩
  · exact Or.inr ⟨rest, hst ▸ h1, h2, hpc h3⟩

theorem Stk.elim {s : St} {b : List Nat} (h : Stk s b) (hpc : ¬ pcT s.pc) : noT s.stack ∧ b = [] := by
  rcases h with h | ⟨_, _, _, h3⟩
  · exact h
  · exact absurd h3 hpc

theorem Stk.renoT {s s' : St} {b : List Nat} (hpc : ¬ pcT s.pc) (hst : noT s.stack → noT s'.stack)
    (h : Stk s b) : Stk s' b := by
  obtain ⟨h1, h2⟩ := h.elim hpc
  exact Or.inl ⟨hst h1, h2⟩

theorem Stk.top {s : St} {b b' : List Nat} {rest : List Frame} (h : Stk s b)
    (hs : s.stack = .timers b' :: rest) : b = b' ∧ noT rest := by
  rcases h with ⟨h1, _⟩ | ⟨rest', h1, h2, _⟩
  · rw [hs] at h1; simp [isT] at h1
  · rw [hs] at h1; cases h1; exact ⟨rfl, h2⟩

theorem Stk.notTop {s : St} {b : List Nat} (h : Stk s b)
    (hs : ∀ b' rest, s.stack ≠ .timers b' :: rest) : noT s.stack ∧ b = [] := by
  rcases h with h | ⟨rest, h1, _, _⟩
  · exact h
  · exact absurd h1 (hs _ _)

theorem Stk.same {s s' : St} {b : List Nat} (hs : Same s s') (h : Stk s b) : Stk s' b := by
  rcases h with ⟨h1, h2⟩ | ⟨rest, h1, h2, h3⟩
  · exact Or.inl ⟨hs.stack.noT h1, h2⟩
  · have := hs.stack
    rw [h1] at this
    obtain ⟨rest', e, hr⟩ := this.timers
    exact Or.inr ⟨rest', e, hr.noT h2, hs.pc ▸ h3⟩

theorem WaitOk.congr {s s' : St} {abs : Option TS} {km : Bool} (h : WaitOk s abs km)
    (hheap : s'.heap = s.heap) (htfd : s'.timerfd = s.timerfd) (hkt : s'.ktimer = s.ktimer)
    (hcnt : s'.method = .epollTimerfd → s'.lastAbsCount = 5 → s.method = .epollTimerfd ∧ s.lastAbsCount = 5) :
    WaitOk s' abs km := by
  unfold WaitOk KOk at *
  rw [hheap, htfd, hkt]
  split
  · next hk => rw [if_pos hk] at h; exact h
  · next hk =>
    rw [if_neg hk] at h
    refine ⟨fun hm hc => ?_, h.2⟩
    obtain ⟨a, b⟩ := hcnt hm hc
    exact h.1 a b

theorem GoodB.transfer {μ : M} {s s' : St} {b : List Nat} (g : GoodB μ s b)
    (hheap : s'.heap = s.heap) (htime : s'.time = s.time) (hla : Nm s'.lastAbs) (hkt : KT s')
    (hstk : Stk s' b) (hw : ∀ abs km, waitArgs s'.pc = some (abs, km) → WaitOk s' abs km)
    (htvm : s'.timeValid = true → s.timeValid = true) (htv : needsTV s'.pc = true → s'.timeValid = true) :
    GoodB μ s' b := by
  refine ⟨g.alive, g.pend, ?_, ?_, ?_, hstk, g.bnodup, ?_, ?_, ?_, ?_, hla, hkt, hw,
    ⟨fun h => g.fr.1 (htvm h), g.fr.2.1, htv⟩⟩
  · rw [htime]; exact g.clock
  · rw [htime]; exact g.timeNN
  · rw [hheap]; exact g.hinv
  · rw [hheap]; exact g.bidx
  · rw [hheap, htime]; exact g.ble
  · rw [hheap]; exact g.reg
  · rw [hheap]; exact g.expNN

theorem Good.transfer {μ : M} {s s' : St} (g : Good μ s)
    (hheap : s'.heap = s.heap) (htime : s'.time = s.time) (hkt : s'.ktimer = s.ktimer)
    (htfd : s'.timerfd = s.timerfd) (hla : s'.lastAbs = s.lastAbs) (hlc : s'.lastAbsCount = s.lastAbsCount)
    (hm : s'.method = s.method) (hstk : ∀ b, Stk s b → Stk s' b)
    (hw : waitArgs s'.pc = none ∨ waitArgs s'.pc = waitArgs s.pc)
    (htvm : s'.timeValid = true → s.timeValid = true) (htv : needsTV s'.pc = true → s'.timeValid = true) :
    Good μ s' := by
  obtain ⟨b, g⟩ := g
  refine ⟨b, g.transfer hheap htime (hla ▸ g.lastNm) ?_ (hstk b g.stk) ?_ htvm htv⟩
  · intro h1 h2
    rw [htfd, hkt, hla]
    exact g.kt (hm ▸ h1) (hlc ▸ h2)
  · intro abs km h
    rcases hw with hw | hw
    · rw [hw] at h; cases h
    · rw [hw] at h
      exact (g.wait abs km h).congr hheap htfd hkt (fun a c => ⟨hm ▸ a, hlc ▸ c⟩)

theorem Good.same {μ : M} {s s' : St} (g : Good μ s) (h : Same s s') : Good μ s' := by
  have htv : needsTV s'.pc = true → s'.timeValid = true := by
    obtain ⟨b, gb⟩ := g
    intro h'
    rw [h.timeValid]
    exact gb.fr.2.2 (h.pc ▸ h')
  exact g.transfer h.heap h.time h.ktimer h.timerfd h.lastAbs h.lastAbsCount h.method (fun _ => Stk.same h)
    (Or.inr (by rw [h.pc])) (fun e => h.timeValid ▸ e) htv

/-! ## folding the monitor -/

/-- the monitor accepts `evs` from `μ` and ends related to `s'` -/
def Acc (μ : M) (evs : List Ev) (s' : St) : Prop := ∃ μ', evs.foldlM mstep μ = .ok μ' ∧ R μ' s'

theorem Acc.nil {μ : M} {s' : St} (h : R μ s') : Acc μ [] s' := ⟨μ, rfl, h⟩

theorem Acc.cons {μ μ1 : M} {e : Ev} {evs : List Ev} {s' : St} (h1 : mstep μ e = .ok μ1)
    (h2 : Acc μ1 evs s') : Acc μ (e :: evs) s' := by
  obtain ⟨μ', hf, hr⟩ := h2
  refine ⟨μ', ?_, hr⟩
  rw [List.foldlM_cons, h1]
  exact hf

theorem mstep_dead {μ : M} (h : μ.dead = true) (e : Ev) : mstep μ e = .ok μ := by
  simp [mstep, Ivy.Mon.C04.step, h]

theorem Acc.dead {μ : M} (h : μ.dead = true) (evs : List Ev) (s' : St) : Acc μ evs s' := by
  induction evs with
  | nil => exact Acc.nil (Or.inl h)
  | cons e es ih => exact Acc.cons (mstep_dead h e) ih

theorem Acc.one {μ μ1 : M} {e : Ev} {s' : St} (h1 : mstep μ e = .ok μ1) (h2 : R μ1 s') :
    Acc μ [e] s' := Acc.cons h1 (Acc.nil h2)

theorem M.eta_pend {μ : M} (h : μ.pending = none) : { μ with pending := none } = μ := by
  cases μ; simp_all

theorem ms_fatal {μ : M} (h : μ.dead = false) (msg : String) :
    mstep μ (.out (.fatal msg)) = .ok { μ with dead := true } := by
  simp [mstep, Ivy.Mon.C04.step, h]

theorem ms_fault {μ : M} (h : μ.dead = false) (msg : String) :
    mstep μ (.out (.fault msg)) = .ok { μ with dead := true } := by
  simp [mstep, Ivy.Mon.C04.step, h]

theorem Acc.fatal {μ : M} (msg : String) (s' : St) : Acc μ [.out (.fatal msg)] s' := by
  cases hd : μ.dead
  · exact Acc.one (ms_fatal hd msg) (Or.inl rfl)
  · exact Acc.dead hd _ _

theorem Acc.fault {μ : M} (msg : String) (s' : St) : Acc μ [.out (.fault msg)] s' := by
  cases hd : μ.dead
  · exact Acc.one (ms_fault hd msg) (Or.inl rfl)
  · exact Acc.dead hd _ _

theorem ms_ret {μ : M} (h : μ.dead = false) (hp : μ.pending = none) (v : Int) :
    mstep μ (.out (.ret v)) = .ok μ := by
  simp [mstep, Ivy.Mon.C04.step, h, hp]

theorem ms_mainRet {μ : M} (h : μ.dead = false) (hp : μ.pending = none) :
    mstep μ (.out .mainRet) = .ok μ := by
  simp [mstep, Ivy.Mon.C04.step, h]
  cases μ; simp_all

theorem ms_cb {μ : M} (h : μ.dead = false) (hp : μ.pending = none) (c : Cb) (hc : ∀ t, c ≠ .timer t) :
    mstep μ (.out (.cb c)) = .ok μ := by
  cases c <;> simp_all [mstep, Ivy.Mon.C04.step] <;> (cases μ; simp_all)

/-! ## heap facts -/

theorem onHeap_not_zero {h : Store} {t : Nat} (ho : onHeap h t) : h.idx[t]? ≠ some 0 := by
  obtain ⟨i, hi, e⟩ := ho
  rw [e]; intro h
  have : (i : Int) = 0 := by simpa using h
  omega

theorem struct_of_inv {h : Store} {t : Nat} (hi : HeapInv h) (h0 : h.idx[t]? = some 0) :
    Proofs.Struct (some t) h := by
  refine ⟨hi.size_eq, hi.num_lt, hi.shrunk, hi.exp_idx, hi.occupied, hi.tail_null,
    fun t' i _ => hi.back t' i, ?_, hi.idx_ge⟩
  intro k u hk hs hu
  cases hu
  by_cases hkn : k ≤ h.num
  · obtain ⟨t', hs', hidx⟩ := hi.occupied k hk hkn
    rw [hs] at hs'; cases hs'
    rw [h0] at hidx
    have : (0 : Int) = (k : Int) := by simpa using hidx
    omega
  · have := hi.tail_null k (by omega) (Proofs.lt_of_getElem? hs)
    rw [hs] at this; cases this

theorem setIdx_facts {h : Store} {t : Nat} (hi : HeapInv h) (h0 : h.idx[t]? = some 0) :
    HeapInv { h with idx := h.idx.setIfInBounds t (-1) } ∧
    (∀ u, onHeap { h with idx := h.idx.setIfInBounds t (-1) } u ↔ onHeap h u) ∧
    (∀ u, ({ h with idx := h.idx.setIfInBounds t (-1) } : Store).idx[u]? = some 0 ↔
        (h.idx[u]? = some 0 ∧ u ≠ t)) ∧
    (∀ u, expOf { h with idx := h.idx.setIfInBounds t (-1) } u = expOf h u) := by
  have hts := Proofs.lt_of_getElem? h0
  have hidx : ∀ u, ({ h with idx := h.idx.setIfInBounds t (-1) } : Store).idx[u]? =
      if t = u then some (-1) else h.idx[u]? := by
    intro u; simp [Array.getElem?_setIfInBounds, hts]
  refine ⟨?_, ?_, ?_, fun u => rfl⟩
  · exact Proofs.setIdx_inv (struct_of_inv hi h0) ((Proofs.heapInv_iff h).1 hi).2 (by omega) (by omega)
  · intro u
    unfold onHeap
    rw [hidx]
    by_cases e : t = u
    · subst e; simp [h0]; intro x hx; omega
    · simp [e]
  · intro u
    rw [hidx]
    by_cases e : t = u
    · subst e; simp
    · simp [e]; intro _ h; exact e h.symm

theorem absOk_prep {s : St} (hi : HeapInv s.heap) (hn : ∀ t, onHeap s.heap t → NN (expOf s.heap t)) :
    AbsOk s.heap (if !s.tasks.isEmpty then some ⟨0, 0⟩ else soonest s.heap) := by
  split
  · refine ⟨by simp [Nm], fun t ht => ?_⟩
    have := ns_nonneg (hn t ht)
    simpa [ns] using this
  · cases hs : soonest s.heap with
    | none =>
      intro t ht
      obtain ⟨m, hm, _⟩ := Ivy.Props.C05.soonest_is_min s.heap hi t ht
      rw [hs] at hm; cases hm
    | some m =>
      have hroot : ∃ t0, onHeap s.heap t0 ∧ m = expOf s.heap t0 := by
        unfold soonest at hs
        split at hs
        · cases hs
        · next hnum =>
          split at hs
          · next t0 hslot =>
            cases hs
            obtain ⟨t', hs', hidx⟩ := hi.occupied 1 (by omega) (by omega)
            unfold getSlot at hslot
            rw [hslot] at hs'; cases hs'
            exact ⟨t0, ⟨1, by omega, hidx⟩, rfl⟩
          · cases hs
      obtain ⟨t0, ht0, hm0⟩ := hroot
      refine ⟨hm0 ▸ (hn t0 ht0).nm, fun t ht => ?_⟩
      obtain ⟨m', hm', hle⟩ := Ivy.Props.C05.soonest_is_min s.heap hi t ht
      rw [hs] at hm'; cases hm'
      exact (le_iff_ns (hm0 ▸ (hn t0 ht0).nm) (hn t ht).nm).1 hle

/-! ## `iv_fd_timeout_check` -/

theorem kok_of_arm {s : St} {a : TS} (htfd : s.timerfd = true) (hk : s.ktimer = some (armV a))
    (h : ∀ t, onHeap s.heap t → ns a ≤ ns (expOf s.heap t)) : KOk s := by
  refine ⟨htfd, armV a, hk, ?_⟩
  unfold armV
  split
  · left; simp
  · right; exact h

theorem timeoutCheck_tv (s : St) (abs : Option TS) : (timeoutCheck s abs).1.timeValid = s.timeValid := by
  unfold timeoutCheck
  extract_lets cmp s1 s2 v
  have h1 : s1.timeValid = s.timeValid := by
    show (if _ then _ else _ : St).timeValid = _
    split <;> rfl
  have h2 : s2.timeValid = s1.timeValid := by
    show (if _ then _ else _ : St).timeValid = _
    split <;> rfl
  repeat' split
  all_goals first | rfl | exact h1 | exact h2.trans h1

theorem timeoutCheck_spec (s : St) (abs : Option TS) (hkt : KT s) (hla : Nm s.lastAbs)
    (habs : AbsOk s.heap abs) (hm : s.method = .epollTimerfd) :
    (timeoutCheck s abs).1.heap = s.heap ∧ (timeoutCheck s abs).1.time = s.time ∧
    (timeoutCheck s abs).1.pc = s.pc ∧ (timeoutCheck s abs).1.stack = s.stack ∧
    Nm (timeoutCheck s abs).1.lastAbs ∧ KT (timeoutCheck s abs).1 ∧
    ((timeoutCheck s abs).2 = true → KOk (timeoutCheck s abs).1) ∧
    ((timeoutCheck s abs).2 = false → (timeoutCheck s abs).1.method = .epollTimerfd →
      (timeoutCheck s abs).1.lastAbsCount ≠ 5) := by
  generalize hr : timeoutCheck s abs = r
  unfold timeoutCheck at hr
  simp only [] at hr
  by_cases hA : s.lastAbsCount = 5 ∧ tsCmp abs s.lastAbs ≥ 0
  · simp only [hA.1, hA.2, beq_self_eq_true, decide_true, Bool.and_self, if_true] at hr
    subst hr
    refine ⟨rfl, rfl, rfl, rfl, hla, hkt, fun _ => ?_, fun h => by cases h⟩
    obtain ⟨h1, h2⟩ := hkt hm hA.1
    refine kok_of_arm h1 h2 fun t ht => ?_
    cases abs with
    | none => exact absurd ht (habs t)
    | some a => exact Int.le_trans (tsCmp_ge habs.1 hla hA.2) (habs.2 t ht)
  · have hA' : (s.lastAbsCount == 5 && decide (tsCmp abs s.lastAbs ≥ 0)) = false := by
      simpa using hA
    rw [if_neg (by simp [hA'])] at hr
    by_cases hc : tsCmp abs s.lastAbs = 0
    · have ha := tsCmp_eq hc
      subst ha
      have h5 : s.lastAbsCount ≠ 5 := fun h5 => hA ⟨h5, by omega⟩
      have e1 : (s.lastAbsCount == 5) = false := beq_eq_false_iff_ne.2 h5
      by_cases h4 : s.lastAbsCount = 4
      · simp [hc, h4] at hr
        split at hr
        · subst hr
          refine ⟨rfl, rfl, rfl, rfl, hla, ?_, ?_, ?_⟩
          · intro h; cases h
          · intro h; cases h
          · intro _ h; cases h
        · subst hr
          refine ⟨rfl, rfl, rfl, rfl, hla, ?_, ?_, ?_⟩
          · intro _ _; exact ⟨rfl, by simp [armV]⟩
          · intro _; exact kok_of_arm (a := s.lastAbs) rfl (by simp [armV]) habs.2
          · intro h; cases h
      · by_cases hlt : s.lastAbsCount < 5
        · simp [hc, hlt, h5, h4] at hr
          subst hr
          refine ⟨rfl, rfl, rfl, rfl, hla, ?_, ?_, ?_⟩
          · intro _ (h : s.lastAbsCount + 1 = 5); omega
          · intro h; cases h
          · intro _ _ (h : s.lastAbsCount + 1 = 5); omega
        · simp [hc, hlt, h5] at hr
          subst hr
          refine ⟨rfl, rfl, rfl, rfl, hla, ?_, ?_, ?_⟩
          · intro _ h; exact absurd h h5
          · intro h; cases h
          · intro _ _ h; exact absurd h h5
    · cases abs with
      | some a =>
        simp [hc] at hr
        subst hr
        refine ⟨?_, ?_, ?_, ?_, habs.1, ?_, ?_, ?_⟩
        · simp only []; split <;> rfl
        · simp only []; split <;> rfl
        · simp only []; split <;> rfl
        · simp only []; split <;> rfl
        · intro _ (h : 1 = 5); omega
        · intro h; cases h
        · intro _ _ (h : 1 = 5); omega
      | none =>
        simp [hc] at hr
        subst hr
        refine ⟨?_, ?_, ?_, ?_, ?_, ?_, ?_, ?_⟩
        · simp only []; split <;> rfl
        · simp only []; split <;> rfl
        · simp only []; split <;> rfl
        · simp only []; split <;> rfl
        · show Nm (St.lastAbs _); simp only []; split <;> exact hla
        · intro _ (h : 0 = 5); omega
        · intro h; cases h
        · intro _ _ (h : 0 = 5); omega

/-! ## internal steps -/

/-- `Good` for a step that changes only `pc` (and irrelevant fields), stack unchanged -/
macro "good_pc" g:term "," hpc:term : tactic =>
  `(tactic| exact Good.transfer $g rfl rfl rfl rfl rfl rfl rfl
      (fun _ => Stk.mono rfl (by simp [pcT, goto, $hpc:term])) (by simp [waitArgs, goto, $hpc:term])
      (fun h => h) (by first | (simp [needsTV, goto, $hpc:term]; done) | simp_all [needsTV, goto]))

/-- `Good` for a step that pushes / pops non-timer frames; the source `pc` is not a timer point -/
macro "good_stk" g:term "," hpc:term : tactic =>
  `(tactic| exact Good.transfer $g rfl rfl rfl rfl rfl rfl rfl
      (fun _ => Stk.renoT (by simp [pcT, $hpc:term]) (by intro h; simp_all [isT, noT_tail, goto]))
      (by simp [waitArgs, goto, $hpc:term])
      (fun h => h) (by first | (simp [needsTV, goto, $hpc:term]; done) | simp_all [needsTV, goto]))

theorem bounded_timeoutOf (s : St) (a exp : TS) (kt : Option (Option TS)) (hn : Nm s.time) (ha : Nm a)
    (h : ns a ≤ ns exp) : bounded s.time (timeoutOf s (some a)) kt exp = true := by
  unfold timeoutOf
  simp only []
  split
  · split
    · exact bounded_ns _ _ _ _ h
    · exact bounded_ms _ _ _ _ hn ha h
  · split
    · exact bounded_ns _ _ _ _ h
    · exact bounded_ms _ _ _ _ hn ha h
  · exact bounded_ns _ _ _ _ h
  · exact bounded_ms _ _ _ _ hn ha h

theorem internal_simple {μ : M} {s : St} (g : Good μ s) (b : Block) (hpc : s.pc = .run b)
    (hb : match b with | .collect | .popTimer | .prepWait | .wait _ _ | .flush _ _ => False | _ => True) :
    Acc μ ((internal s b).2.map Ev.out) (internal s b).1 := by
  obtain ⟨b0, gb⟩ := id g
  cases b with
  | collect | popTimer | prepWait | wait _ _ | flush _ _ => exact hb.elim
  | mainTop rt =>
    simp only [internal, goto]
    repeat' split
    all_goals exact Acc.nil (Or.inr (by good_pc g, hpc))
  | startTasks =>
    simp only [internal, goto]
    exact Acc.nil (Or.inr (by good_stk g, hpc))
  | popTask =>
    simp only [internal, goto]
    split
    · exact Acc.nil (Or.inr (by good_stk g, hpc))
    · split
      · exact Acc.fault _ _
      · split
        · exact Acc.nil (Or.inr (by good_stk g, hpc))
        · refine Acc.one (ms_cb gb.alive gb.pend _ (by simp)) (Or.inr (by good_stk g, hpc))
    · exact Acc.fault _ _
  | runEvents =>
    simp only [internal, goto]
    split
    · exact Acc.nil (Or.inr (by good_pc g, hpc))
    · exact Acc.nil (Or.inr (by good_stk g, hpc))
  | popEvent =>
    simp only [internal, goto]
    split
    · exact Acc.nil (Or.inr (by good_stk g, hpc))
    · split
      · exact Acc.fault _ _
      · refine Acc.one (ms_cb gb.alive gb.pend _ (by simp)) (Or.inr (by good_stk g, hpc))
    · exact Acc.fault _ _
  | resume =>
    simp only [internal, goto]
    split
    · exact Acc.nil (Or.inr (by good_pc g, hpc))
    · exact Acc.nil (Or.inr (by good_pc g, hpc))
    · exact Acc.nil (Or.inr (by good_pc g, hpc))
    · exact Acc.nil (Or.inr (by good_pc g, hpc))
    · exact Acc.nil (Or.inr (by good_pc g, hpc))
    · exact Acc.fault _ _
  | exitCheck =>
    simp only [internal, goto]
    split
    · exact Acc.one (ms_mainRet gb.alive gb.pend) (Or.inr (by good_pc g, hpc))
    · exact Acc.nil (Or.inr (by good_pc g, hpc))
  | dispatchNext =>
    simp only [internal, goto]
    split
    · exact Acc.nil (Or.inr (by good_stk g, hpc))
    · exact Acc.nil (Or.inr (by good_stk g, hpc))
    · exact Acc.fault _ _
  | fdStage =>
    simp only [internal, goto, setTop]
    repeat' split
    all_goals first
      | exact Acc.fault _ _
      | exact Acc.nil (Or.inr (by good_stk g, hpc))
      | exact Acc.one (ms_cb gb.alive gb.pend _ (by simp)) (Or.inr (by good_stk g, hpc))

theorem find_reg {reg : List (Nat × TS)} {t : Nat} {ex : TS} (hmem : (t, ex) ∈ reg)
    (hfun : ∀ ex', (t, ex') ∈ reg → ex' = ex) : reg.find? (·.1 == t) = some (t, ex) := by
  cases hf : reg.find? (·.1 == t) with
  | none =>
    have := List.find?_eq_none.1 hf (t, ex) hmem
    simp at this
  | some p =>
    have h1 := List.find?_some hf
    have h2 := List.mem_of_find?_eq_some hf
    obtain ⟨u, e⟩ := p
    simp at h1
    subst h1
    rw [hfun e h2]

theorem internal_collect {μ : M} {s : St} (g : Good μ s) (hpc : s.pc = .run .collect) :
    Acc μ ((internal s .collect).2.map Ev.out) (internal s .collect).1 := by
  obtain ⟨b0, gb⟩ := g
  obtain ⟨hnoT, hb0⟩ := gb.stk.elim (by simp [pcT, hpc])
  subst hb0
  obtain ⟨h', batch, heq, hinv', _, hnd, hmem, hon, hz, hexp, hoth⟩ :=
    Ivy.Props.C05.collect_sorted s.heap s.time gb.hinv
  simp only [internal, heq, goto]
  have hnz : ∀ t : Nat, s.heap.idx[t]? ≠ some 0 := fun t h => by simpa using (gb.bidx t).1 h
  have hlive : ∀ t, live h' t ↔ live s.heap t := by
    intro t
    unfold live
    constructor
    · rintro (h | h)
      · exact Or.inl ((hon t).1 h).1
      · by_cases ho : onHeap s.heap t
        · exact Or.inl ho
        · rw [hoth t ho] at h; exact absurd h (hnz t)
    · rintro (h | h)
      · cases hg : (expOf s.heap t).gt s.time
        · exact Or.inr (hz t ((hmem t).2 ⟨h, hg⟩))
        · exact Or.inl ((hon t).2 ⟨h, hg⟩)
      · exact absurd h (hnz t)
  refine Acc.nil (Or.inr ⟨batch, gb.alive, gb.pend, gb.clock, gb.timeNN, hinv', ?_, hnd, ?_, ?_, ?_, ?_,
    gb.lastNm, gb.kt, ?_,
    ⟨gb.fr.1, fun _ => gb.fr.1 (gb.fr.2.2 (by simp [needsTV, hpc])), by simp [needsTV]⟩⟩)
  · exact Or.inr ⟨s.stack, rfl, hnoT, by simp [pcT]⟩
  · intro t
    constructor
    · intro h
      by_cases ho : onHeap s.heap t
      · cases hg : (expOf s.heap t).gt s.time
        · exact (hmem t).2 ⟨ho, hg⟩
        · exact absurd h (onHeap_not_zero ((hon t).2 ⟨ho, hg⟩))
      · rw [hoth t ho] at h; exact absurd h (hnz t)
    · exact hz t
  · intro t ht
    show (expOf h' t).le s.time
    rw [hexp]; exact ((hmem t).1 ht).2
  · intro t ex
    show _ ↔ (live h' t ∧ expOf h' t = ex)
    rw [hlive, hexp]; exact gb.reg t ex
  · intro t ht
    show NN (expOf h' t)
    rw [hexp]; exact gb.expNN t ((hlive t).1 ht)
  · intro abs km h; simp [waitArgs] at h

theorem internal_popTimer {μ : M} {s : St} (g : Good μ s) (_hpc : s.pc = .run .popTimer) :
    Acc μ ((internal s .popTimer).2.map Ev.out) (internal s .popTimer).1 := by
  obtain ⟨b0, gb⟩ := g
  simp only [internal, goto]
  split
  · next rest hst =>
    obtain ⟨hb, hrest⟩ := gb.stk.top hst
    subst hb
    refine Acc.nil (Or.inr ⟨[], gb.transfer rfl rfl gb.lastNm gb.kt (Or.inl ⟨hrest, rfl⟩) ?_ (fun h => h)
      (by simp [needsTV])⟩)
    intro abs km h; simp [waitArgs] at h
  · next t r rest hst =>
    obtain ⟨hb, hrest⟩ := gb.stk.top hst
    subst hb
    split
    · exact Acc.fault _ _
    · have h0 : s.heap.idx[t]? = some 0 := (gb.bidx t).2 (by simp)
      obtain ⟨f1, f2, f3, f4⟩ := setIdx_facts gb.hinv h0
      have hnd := gb.bnodup
      simp only [List.nodup_cons] at hnd
      have hmem : (t, expOf s.heap t) ∈ μ.reg := (gb.reg _ _).2 ⟨Or.inr h0, rfl⟩
      have hfind := find_reg hmem (fun ex' h => ((gb.reg _ _).1 h).2.symm)
      have hle : (expOf s.heap t).gt μ.clock = false := by
        rw [gb.clock]; exact gb.ble t (by simp)
      have hfresh : μ.fresh = true := gb.fr.2.1 (by simp)
      refine Acc.one (μ1 := { μ with reg := μ.reg.filter (·.1 != t) }) ?_ (Or.inr ⟨r, ?_⟩)
      · simp [mstep, Ivy.Mon.C04.step, gb.alive, hfind, hle, hfresh]
      · refine ⟨gb.alive, gb.pend, gb.clock, gb.timeNN, f1, ?_, hnd.2, ?_, ?_, ?_, ?_, gb.lastNm, gb.kt, ?_,
          ⟨gb.fr.1, fun _ => hfresh, by simp [needsTV]⟩⟩
        · exact Or.inr ⟨rest, rfl, hrest, by simp [pcT]⟩
        · intro u
          rw [f3 u, gb.bidx u]
          simp only [List.mem_cons]
          constructor
          · rintro ⟨h1 | h1, h2⟩
            · exact absurd h1 h2
            · exact h1
          · intro h1
            exact ⟨Or.inr h1, fun e => hnd.1 (e ▸ h1)⟩
        · intro u hu
          rw [f4]; exact gb.ble u (by simp [hu])
        · intro u ex
          show (u, ex) ∈ μ.reg.filter (·.1 != t) ↔ _
          unfold live
          rw [f2, f3, f4]
          simp only [List.mem_filter, gb.reg u ex, live, bne_iff_ne, ne_eq]
          constructor
          · rintro ⟨⟨h1 | h1, h2⟩, h3⟩
            · exact ⟨Or.inl h1, h2⟩
            · exact ⟨Or.inr ⟨h1, h3⟩, h2⟩
          · rintro ⟨h1 | ⟨h1, h3⟩, h2⟩
            · refine ⟨⟨Or.inl h1, h2⟩, fun e => ?_⟩
              subst e; exact onHeap_not_zero h1 h0
            · exact ⟨⟨Or.inr h1, h2⟩, h3⟩
        · intro u hu
          rw [f4]
          apply gb.expNN
          unfold live at hu ⊢
          rw [f2, f3] at hu
          rcases hu with h | h
          · exact Or.inl h
          · exact Or.inr h.1
        · intro abs km h; simp [waitArgs] at h
  · exact Acc.fault _ _

theorem onHeap_live {h : Store} {t : Nat} (ho : onHeap h t) : live h t := Or.inl ho

theorem internal_prepWait {μ : M} {s : St} (g : Good μ s) (hpc : s.pc = .run .prepWait) :
    Acc μ ((internal s .prepWait).2.map Ev.out) (internal s .prepWait).1 := by
  obtain ⟨b0, gb⟩ := g
  obtain ⟨hnoT, hb0⟩ := gb.stk.elim (by simp [pcT, hpc])
  subst hb0
  have habs := absOk_prep (s := s) gb.hinv (fun t ht => gb.expNN t (Or.inl ht))
  simp only [internal, goto]
  generalize (if !s.tasks.isEmpty then some (⟨0, 0⟩ : TS) else soonest s.heap) = abs at habs ⊢
  split
  · next hm =>
    have hm : s.method = .epollTimerfd := by simpa using hm
    obtain ⟨h1, h2, h3, h4, h5, h6, h7, h8⟩ := timeoutCheck_spec s abs gb.kt gb.lastNm habs hm
    have h9 := timeoutCheck_tv s abs
    generalize timeoutCheck s abs = r at h1 h2 h3 h4 h5 h6 h7 h8 h9 ⊢
    obtain ⟨s1, r⟩ := r
    simp only [] at h1 h2 h3 h4 h5 h6 h7 h8 h9 ⊢
    cases r
    · simp only [Bool.false_eq_true, if_false]
      refine Acc.nil (Or.inr ⟨[], gb.transfer h1 h2 h5 h6 (Or.inl ⟨h4 ▸ hnoT, rfl⟩) ?_ (fun h => h9 ▸ h)
        (by simp [needsTV])⟩)
      intro abs' km h
      simp only [waitArgs, Option.some.injEq, Prod.mk.injEq] at h
      obtain ⟨e1, e2⟩ := h
      subst e1 e2
      simp only [WaitOk, Bool.false_eq_true, if_false]
      exact ⟨h8 rfl, h1 ▸ habs⟩
    · simp only [if_true]
      refine Acc.nil (Or.inr ⟨[], gb.transfer h1 h2 h5 h6 (Or.inl ⟨h4 ▸ hnoT, rfl⟩) ?_ (fun h => h9 ▸ h)
        (by simp [needsTV])⟩)
      intro abs' km h
      simp only [waitArgs, Option.some.injEq, Prod.mk.injEq] at h
      obtain ⟨e1, e2⟩ := h
      subst e1 e2
      unfold WaitOk
      rw [if_pos rfl]
      exact ⟨rfl, h7 rfl⟩
  · next hm =>
    have hm : s.method ≠ .epollTimerfd := by simpa using hm
    refine Acc.nil (Or.inr ⟨[], gb.transfer rfl rfl gb.lastNm gb.kt (Or.inl ⟨hnoT, rfl⟩) ?_ (fun h => h)
      (by simp [needsTV])⟩)
    intro abs' km h
    simp only [waitArgs, Option.some.injEq, Prod.mk.injEq] at h
    obtain ⟨e1, e2⟩ := h
    subst e1 e2
    simp only [WaitOk, Bool.false_eq_true, if_false]
    exact ⟨fun h => absurd h hm, habs⟩

theorem internal_flush {μ : M} {s : St} (g : Good μ s) (abs : Option TS) (km : Bool)
    (hpc : s.pc = .run (.flush abs km)) :
    Acc μ ((internal s (.flush abs km)).2.map Ev.out) (internal s (.flush abs km)).1 := by
  simp only [internal, goto]
  have hs : Same s (if s.method.isEpoll then s.notify.foldl epollFlushOne s else s) := by
    split
    · exact same_foldl_flush _ _
    · exact Same.refl _
  have g1 := g.same hs
  have hpc1 := hs.pc.trans hpc
  generalize (if s.method.isEpoll then s.notify.foldl epollFlushOne s else s) = s1 at g1 hpc1 ⊢
  split
  · exact Acc.nil (Or.inr (by good_pc g1, hpc1))
  · exact Acc.nil (Or.inr (by good_pc g1, hpc1))

theorem internal_wait {μ : M} {s : St} (g : Good μ s) (abs : Option TS) (km : Bool)
    (hpc : s.pc = .run (.wait abs km)) :
    Acc μ ((internal s (.wait abs km)).2.map Ev.out) (internal s (.wait abs km)).1 := by
  have g0 := g
  obtain ⟨b0, gb⟩ := g
  obtain ⟨hnoT, hb0⟩ := gb.stk.elim (by simp [pcT, hpc])
  subst hb0
  simp only [internal]
  have htv0 : abs.isSome = true → s.timeValid = true := by
    have := gb.fr.2.2
    simpa [needsTV, hpc] using this
  refine Acc.one (μ1 := μ) ?_ (Or.inr (by good_pc g0, hpc))
  have hw := gb.wait abs km (by simp [waitArgs, hpc])
  have hall : ∀ p ∈ μ.reg, bounded μ.clock (timeoutOf s abs) (if s.timerfd then some s.ktimer else none) p.2 = true := by
    rintro ⟨t, ex⟩ hp
    obtain ⟨hl, hex⟩ := (gb.reg t ex).1 hp
    have hon : onHeap s.heap t := by
      rcases hl with h | h
      · exact h
      · exact absurd ((gb.bidx t).1 h) (by simp)
    rw [gb.clock]
    simp only []
    subst hex
    unfold WaitOk at hw
    cases km with
    | true =>
      simp only [if_true] at hw
      obtain ⟨ha, htfd, v, hv, hdis⟩ := hw
      subst ha
      simp only [timeoutOf, htfd, hv, if_true, bounded, Bool.or_eq_true, decide_eq_true_eq, Bool.and_eq_true,
        beq_iff_eq]
      rcases hdis with h | h
      · exact Or.inr h
      · exact Or.inl (h t hon)
    | false =>
      simp only [Bool.false_eq_true, if_false] at hw
      cases abs with
      | none => exact absurd hon (hw.2 t)
      | some a => exact bounded_timeoutOf s a _ _ gb.timeNN.nm hw.2.1 (hw.2.2 t hon)
  have hfind : μ.reg.find? (fun p => !bounded μ.clock (timeoutOf s abs) (if s.timerfd then some s.ktimer else none) p.2) = none := by
    rw [List.find?_eq_none]
    intro p hp
    simp [hall p hp]
  have hfr : (!μ.fresh && !μ.reg.isEmpty && Ivy.Mon.C04.finitePos (timeoutOf s abs)) = false := by
    cases abs with
    | none => simp [timeoutOf, Ivy.Mon.C04.finitePos]
    | some a => simp [gb.fr.1 (htv0 rfl)]
  simp [mstep, Ivy.Mon.C04.step, gb.alive, hfind, hfr]

theorem internal_ok {μ : M} {s : St} (h : R μ s) (b : Block) (hpc : s.pc = .run b) :
    Acc μ ((internal s b).2.map Ev.out) (internal s b).1 := by
  rcases h with hd | g
  · exact Acc.dead hd _ _
  · cases b with
    | collect => exact internal_collect g hpc
    | popTimer => exact internal_popTimer g hpc
    | prepWait => exact internal_prepWait g hpc
    | flush abs km => exact internal_flush g abs km hpc
    | wait abs km => exact internal_wait g abs km hpc
    | _ => exact internal_simple g _ hpc trivial

/-! ## API calls -/

theorem api_same (s : St) (a : Api) (h1 : ∀ t e, a ≠ .timerRegister t e) (h2 : ∀ t, a ≠ .timerUnregister t)
    (h3 : a ≠ .main) (h4 : a ≠ .validateNow) (h5 : a ≠ .invalidateNow) :
    (∃ msg, api s a = ({ s with pc := .dead }, [Out.fatal msg])) ∨
    (Same s (api s a).1 ∧ ((api s a).2 = [] ∨ ∃ v, (api s a).2 = [Out.ret v])) := by
  cases a with
  | timerRegister t e => exact absurd rfl (h1 t e)
  | timerUnregister t => exact absurd rfl (h2 t)
  | main => exact absurd rfl h3
  | validateNow => exact absurd rfl h4
  | fdRegister f a b c =>
    rw [api]
    split
    · exact Or.inl ⟨_, rfl⟩
    · exact Or.inr ⟨same_fdRegisterCore .., Or.inr ⟨_, rfl⟩⟩
  | fdRegisterTry f a b c k =>
    unfold api
    dsimp -zeta only
    split
    · exact Or.inl ⟨_, rfl⟩
    · split
      · exact Or.inr ⟨by same_rfl, Or.inr ⟨_, rfl⟩⟩
      · extract_lets o o' orig w s1 s2 o3 s3 s4
        have h1 : Same s s1 := by same_rfl
        have h2 : Same s1 s2 := by
          show Same s1 (if _ then _ else _)
          split
          · exact same_epollFlushOne ..
          · exact same_pollNotify ..
        have h3 : Same s2 s3 := by same_rfl
        have h4 : Same s2 s4 := by
          show Same s2 (if _ then (if _ then _ else _) else _)
          split
          · split
            · exact Same.trans h3 (same_epollNotify ..)
            · exact Same.trans h3 (same_pollNotify ..)
          · exact Same.refl _
        exact Or.inr ⟨Same.trans (Same.trans (Same.trans h1 h2) h4) (by same_rfl), Or.inr ⟨_, rfl⟩⟩
  | fdUnregister f =>
    rw [api]
    split
    · exact Or.inl ⟨_, rfl⟩
    · exact Or.inr ⟨same_fdUnregisterCore .., Or.inr ⟨_, rfl⟩⟩
  | fdSetIn f v =>
    rw [api]
    split
    · exact Or.inl ⟨_, rfl⟩
    · exact Or.inr ⟨Same.trans (by same_rfl) (same_notifyFd _ f), Or.inr ⟨_, rfl⟩⟩
  | fdSetOut f v =>
    rw [api]
    split
    · exact Or.inl ⟨_, rfl⟩
    · exact Or.inr ⟨Same.trans (by same_rfl) (same_notifyFd _ f), Or.inr ⟨_, rfl⟩⟩
  | fdSetErr f v =>
    rw [api]
    split
    · exact Or.inl ⟨_, rfl⟩
    · exact Or.inr ⟨Same.trans (by same_rfl) (same_notifyFd _ f), Or.inr ⟨_, rfl⟩⟩
  | taskRegister k =>
    rw [api]
    split
    · exact Or.inl ⟨_, rfl⟩
    · exact Or.inr ⟨same_taskRegisterCore .., Or.inr ⟨_, rfl⟩⟩
  | taskUnregister k =>
    rw [api]
    split
    · exact Or.inl ⟨_, rfl⟩
    · exact Or.inr ⟨same_taskUnregisterCore .., Or.inr ⟨_, rfl⟩⟩
  | taskInit k => exact Or.inr ⟨by rw [api]; same_rfl, Or.inl rfl⟩
  | evRegister e rawOk =>
    unfold api
    dsimp -zeta only
    extract_lets first s1 s2 s3
    have h1 : Same s s1 := by same_rfl
    have h2 : Same s1 s2 := by
      show Same s1 (if _ then (if _ then _ else _) else _)
      split
      · split <;> same_rfl
      · exact Same.refl _
    have h3 : Same s2 s3 := same_rawRegisterCore ..
    split
    · split
      · exact Or.inr ⟨Same.trans (Same.trans (Same.trans h1 h2) h3) (by same_rfl), Or.inr ⟨_, rfl⟩⟩
      · exact Or.inr ⟨Same.trans (Same.trans h1 h2) (by same_rfl), Or.inr ⟨_, rfl⟩⟩
    · exact Or.inr ⟨Same.trans (Same.trans h1 h2) (by same_rfl), Or.inr ⟨_, rfl⟩⟩
  | evUnregister e =>
    unfold api
    dsimp -zeta only
    extract_lets o0 s1 s2
    have h1 : Same s s1 := ⟨rfl, rfl, rfl, rfl, rfl, rfl, rfl, rfl, SRel.map (nice_eraseEvent e) _, rfl⟩
    have h2 : Same s1 s2 := by
      show Same s1 (if _ then (if _ then _ else _) else _)
      split
      · split
        · exact same_rawUnregisterCore ..
        · same_rfl
      · exact Same.refl _
    exact Or.inr ⟨Same.trans (Same.trans h1 h2) (by same_rfl), Or.inr ⟨_, rfl⟩⟩
  | evPost e =>
    rw [api]
    split
    · exact Or.inr ⟨Same.refl _, Or.inl rfl⟩
    · extract_lets post s1
      split
      · exact Or.inr ⟨Same.trans (b := s1) (by same_rfl) (same_taskRegisterCore ..), Or.inl rfl⟩
      · exact Or.inr ⟨by same_rfl, Or.inl rfl⟩
  | rawRegister r okk =>
    rw [api]
    split
    · exact Or.inr ⟨Same.refl _, Or.inr ⟨_, rfl⟩⟩
    · exact Or.inr ⟨same_rawRegisterCore .., Or.inr ⟨_, rfl⟩⟩
  | rawUnregister r => exact Or.inr ⟨by rw [api]; exact same_rawUnregisterCore .., Or.inl rfl⟩
  | quit => exact Or.inr ⟨by rw [api]; same_rfl, Or.inl rfl⟩
  | invalidateNow => exact absurd rfl h5

theorem ms_api_other {μ : M} (h : μ.dead = false) (hp : μ.pending = none) (a : Api)
    (h1 : ∀ t e, a ≠ .timerRegister t e) (h2 : ∀ t, a ≠ .timerUnregister t) :
    mstep μ (.inp (.api a)) = .ok μ := by
  cases a <;> first
    | exact absurd rfl (h1 _ _)
    | exact absurd rfl (h2 _)
    | (simp [mstep, Ivy.Mon.C04.step, h]; cases μ; simp_all)

theorem ms_inp_other {μ : M} (h : μ.dead = false) (hp : μ.pending = none) (i : Input)
    (h1 : ∀ a, i ≠ .api a) (h2 : ∀ t, i ≠ .time t) (h3 : ∀ r, i ≠ .wret r) :
    mstep μ (.inp i) = .ok μ := by
  cases i <;> first
    | exact absurd rfl (h1 _)
    | exact absurd rfl (h2 _)
    | exact absurd rfl (h3 _)
    | (simp [mstep, Ivy.Mon.C04.step, h]; cases μ; simp_all)

theorem ms_wret_enosys {μ : M} (h : μ.dead = false) (hp : μ.pending = none) :
    mstep μ (.inp (.wret .enosys)) = .ok μ := by
  simp [mstep, Ivy.Mon.C04.step, h]; cases μ; simp_all

theorem ms_wret_eintr {μ : M} (h : μ.dead = false) (hp : μ.pending = none) :
    mstep μ (.inp (.wret .eintr)) = .ok { μ with fresh := false } := by
  simp [mstep, Ivy.Mon.C04.step, h]; cases μ; simp_all

theorem ms_wret_events {μ : M} (h : μ.dead = false) (hp : μ.pending = none) (l : List WItem) :
    mstep μ (.inp (.wret (.events l))) = .ok { μ with fresh := false } := by
  simp [mstep, Ivy.Mon.C04.step, h]; cases μ; simp_all

/-- a wait returned: the cached clock value is invalid and the monitor's is stale -/
theorem GoodB.unfresh {μ : M} {s : St} (g : GoodB μ s []) (h : s.timeValid = false) :
    GoodB { μ with fresh := false } s [] :=
  ⟨g.alive, g.pend, g.clock, g.timeNN, g.hinv, g.stk, g.bnodup, g.bidx, g.ble, g.reg, g.expNN, g.lastNm, g.kt,
    g.wait, ⟨(fun e => by rw [h] at e; cases e), (fun e => absurd rfl e), g.fr.2.2⟩⟩

theorem getD_of_getElem? {a : Array Int} {t : Nat} {v : Int} (h : a[t]? = some v) : a.getD t (-1) = v := by
  simp [Array.getD_eq_getD_getElem?, h]

theorem getElem?_of_lt_getD {a : Array Int} {t : Nat} (h : t < a.size) : a[t]? = some (a.getD t (-1)) := by
  simp [Array.getD_eq_getD_getElem?, h]

theorem api_timerRegister {μ : M} {s : St} (g : Good μ s) (hpc : s.pc = .user) (t : Nat) (e : TS)
    (henv : apiOk s (.timerRegister t e) = true) :
    Acc μ (Ev.inp (.api (.timerRegister t e)) :: (api s (.timerRegister t e)).2.map Ev.out)
      (api s (.timerRegister t e)).1 := by
  obtain ⟨b0, gb⟩ := g
  simp only [apiOk, Bool.and_eq_true, decide_eq_true_eq] at henv
  obtain ⟨⟨⟨ht, he1⟩, he2⟩, he3⟩ := henv
  have hm1 : mstep μ (.inp (.api (.timerRegister t e))) = .ok { μ with pending := some (t, e) } := by
    simp [mstep, Ivy.Mon.C04.step, gb.alive]
  refine Acc.cons hm1 ?_
  have hidx := getElem?_of_lt_getD (a := s.heap.idx) ht
  by_cases hfree : s.heap.idx.getD t (-1) = -1
  · rw [hfree] at hidx
    obtain ⟨h', heq, hinv', hon, hexp, _, _, hoth⟩ := Ivy.Props.C05.register_ok s.heap t e gb.hinv hidx
    simp only [api, heq, ok, List.map_cons, List.map_nil]
    refine Acc.one (μ1 := { μ with reg := μ.reg.filter (·.1 != t) ++ [(t, e)] }) ?_ (Or.inr ⟨b0, ?_⟩)
    · have hp := gb.pend
      have ha := gb.alive
      simp [mstep, Ivy.Mon.C04.step, ha]
      cases μ; simp_all
    · have htb : t ∉ b0 := fun h => by
        have := (gb.bidx t).2 h
        rw [hidx] at this; cases this
      have hlive : ∀ u, u ≠ t → (live h' u ↔ live s.heap u) := by
        intro u hu
        obtain ⟨_, h0, ho, _⟩ := hoth u hu
        unfold live; rw [h0, ho]
      refine ⟨gb.alive, gb.pend, gb.clock, gb.timeNN, hinv', ?_, gb.bnodup, ?_, ?_, ?_, ?_, gb.lastNm, gb.kt, ?_,
        ⟨gb.fr.1, gb.fr.2.1, by simp [needsTV, hpc]⟩⟩
      · exact gb.stk.mono rfl (fun h => h)
      · intro u
        show h'.idx[u]? = some 0 ↔ _
        by_cases hu : u = t
        · subst hu
          constructor
          · intro h; exact absurd h (onHeap_not_zero hon)
          · intro h; exact absurd h htb
        · rw [(hoth u hu).2.1]; exact gb.bidx u
      · intro u hu
        show (expOf h' u).le s.time
        have hne : u ≠ t := fun e => htb (e ▸ hu)
        rw [(hoth u hne).2.2.2]; exact gb.ble u hu
      · intro u ex
        show (u, ex) ∈ μ.reg.filter (·.1 != t) ++ [(t, e)] ↔ (live h' u ∧ expOf h' u = ex)
        simp only [List.mem_append, List.mem_filter, bne_iff_ne, ne_eq, List.mem_singleton, Prod.mk.injEq]
        by_cases hu : u = t
        · subst hu
          rw [hexp]
          constructor
          · rintro (⟨_, h⟩ | ⟨_, h⟩)
            · exact absurd rfl h
            · exact ⟨Or.inl hon, h.symm⟩
          · rintro ⟨_, h⟩; exact Or.inr ⟨rfl, h.symm⟩
        · rw [hlive u hu, (hoth u hu).2.2.2, gb.reg u ex]
          constructor
          · rintro (⟨h, _⟩ | ⟨h, _⟩)
            · exact h
            · exact absurd h hu
          · intro h; exact Or.inl ⟨h, hu⟩
      · intro u hu
        show NN (expOf h' u)
        by_cases hut : u = t
        · subst hut; rw [hexp]; exact ⟨he1, he2, he3⟩
        · rw [(hoth u hut).2.2.2]; exact gb.expNN u ((hlive u hut).1 hu)
      · intro abs km h; simp [waitArgs, hpc] at h
  · have hreg : register s.heap t e = .fatal s.heap "iv_timer_register: called with timer still on the heap" := by
      unfold register
      rw [if_pos (by simpa using hfree)]
    simp only [api, hreg, fatal]
    exact Acc.fatal _ _

theorem find_noT {p : Frame → Bool} (hp : ∀ fr, p fr = true → isT fr = true) {st : List Frame}
    (h : noT st) : st.find? p = none := by
  rw [List.find?_eq_none]
  intro fr hfr hpf
  have := h fr hfr
  rw [hp fr hpf] at this; cases this

theorem timerBatch_of_stk {s : St} {b : List Nat} (h : Stk s b) : timerBatch s = b := by
  unfold timerBatch
  rcases h with ⟨h1, h2⟩ | ⟨rest, h1, _, _⟩
  · rw [find_noT (by intro fr; cases fr <;> simp [isT]) h1, h2]
  · rw [h1]; simp

theorem stk_map_set {s : St} {b : List Nat} (h : Stk s b) : s.stack.map (setTimerBatch · b) = s.stack := by
  rcases h with ⟨h1, _⟩ | ⟨rest, h1, h2, _⟩
  · exact map_setTimerBatch_noT b h1
  · rw [h1, List.map_cons, map_setTimerBatch_noT b h2]; rfl

/-- a timer of the expired batch leaves it (its handler is entered, or it is unregistered) -/
theorem GoodB.remove {μ : M} {s s' : St} {b0 b' : List Nat} {t : Nat} (gb : GoodB μ s b0) (ht : t ∈ b0)
    (hheap : s'.heap = { s.heap with idx := s.heap.idx.setIfInBounds t (-1) }) (htime : s'.time = s.time)
    (hla : Nm s'.lastAbs) (hkt : KT s') (hnd : b'.Nodup) (hb' : ∀ u, u ∈ b' ↔ (u ∈ b0 ∧ u ≠ t))
    (hstk : Stk s' b') (hw : waitArgs s'.pc = none)
    (htv : needsTV s'.pc = true → s'.timeValid = true) :
    GoodB { μ with reg := μ.reg.filter (·.1 != t) } s' b' := by
  have h0 : s.heap.idx[t]? = some 0 := (gb.bidx t).2 ht
  obtain ⟨f1, f2, f3, f4⟩ := setIdx_facts gb.hinv h0
  have hfresh : μ.fresh = true := gb.fr.2.1 (fun e => by rw [e] at ht; cases ht)
  refine ⟨gb.alive, gb.pend, ?_, ?_, ?_, hstk, hnd, ?_, ?_, ?_, ?_, hla, hkt, ?_,
    ⟨fun _ => hfresh, fun _ => hfresh, htv⟩⟩
  · rw [htime]; exact gb.clock
  · rw [htime]; exact gb.timeNN
  · rw [hheap]; exact f1
  · intro u
    rw [hheap, f3 u, gb.bidx u, hb']
  · intro u hu
    rw [hheap, htime, f4]; exact gb.ble u ((hb' u).1 hu).1
  · intro u ex
    show (u, ex) ∈ μ.reg.filter (·.1 != t) ↔ _
    rw [hheap]
    unfold live
    rw [f2, f3, f4]
    simp only [List.mem_filter, gb.reg u ex, live, bne_iff_ne, ne_eq]
    constructor
    · rintro ⟨⟨h1 | h1, h2⟩, h3⟩
      · exact ⟨Or.inl h1, h2⟩
      · exact ⟨Or.inr ⟨h1, h3⟩, h2⟩
    · rintro ⟨h1 | ⟨h1, h3⟩, h2⟩
      · refine ⟨⟨Or.inl h1, h2⟩, fun e => ?_⟩
        subst e; exact onHeap_not_zero h1 h0
      · exact ⟨⟨Or.inr h1, h2⟩, h3⟩
  · intro u hu
    rw [hheap] at hu ⊢
    rw [f4]
    apply gb.expNN
    unfold live at hu ⊢
    rw [f2, f3] at hu
    rcases hu with h | h
    · exact Or.inl h
    · exact Or.inr h.1
  · intro abs km h; rw [hw] at h; cases h

theorem api_timerUnregister {μ : M} {s : St} (g : Good μ s) (hpc : s.pc = .user) (t : Nat)
    (henv : apiOk s (.timerUnregister t) = true) :
    Acc μ (Ev.inp (.api (.timerUnregister t)) :: (api s (.timerUnregister t)).2.map Ev.out)
      (api s (.timerUnregister t)).1 := by
  obtain ⟨b0, gb⟩ := g
  simp only [apiOk, decide_eq_true_eq] at henv
  have hm1 : mstep μ (.inp (.api (.timerUnregister t))) = .ok { μ with reg := μ.reg.filter (·.1 != t) } := by
    have hp := gb.pend
    simp [mstep, Ivy.Mon.C04.step, gb.alive]
    cases μ; simp_all
  refine Acc.cons hm1 ?_
  have hidx := getElem?_of_lt_getD (a := s.heap.idx) henv
  have hge := gb.hinv.idx_ge t _ hidx
  rw [api, timerBatch_of_stk gb.stk]
  by_cases hi1 : s.heap.idx.getD t (-1) = -1
  · have hun : unregister s.heap b0 t = (.fatal s.heap "iv_timer_unregister: called with timer not on the heap", b0) := by
      unfold unregister
      simp [hi1]
    simp only [hun, fatal]
    exact Acc.fatal _ _
  · by_cases hi0 : s.heap.idx.getD t (-1) = 0
    · have hun : unregister s.heap b0 t = (.ok { s.heap with idx := s.heap.idx.setIfInBounds t (-1) }, b0.erase t) := by
        unfold unregister
        simp [hi0]
      rw [hi0] at hidx
      have htb : t ∈ b0 := (gb.bidx t).1 hidx
      simp only [hun, ok, List.map_cons, List.map_nil]
      have hrest : ∃ rest, s.stack = .timers b0 :: rest ∧ noT rest ∧ pcT s.pc := by
        rcases gb.stk with ⟨_, h2⟩ | h
        · rw [h2] at htb; cases htb
        · exact h
      obtain ⟨rest, hst, hnr, hpt⟩ := hrest
      refine Acc.one (ms_ret (μ := { μ with reg := μ.reg.filter (·.1 != t) }) gb.alive gb.pend 0) (Or.inr ⟨b0.erase t, ?_⟩)
      refine gb.remove htb rfl rfl gb.lastNm gb.kt (gb.bnodup.erase t) ?_ ?_ (by simp [waitArgs, hpc])
        (by simp [needsTV, hpc])
      · intro u
        rw [gb.bnodup.mem_erase_iff]
        exact ⟨fun h => ⟨h.2, h.1⟩, fun h => ⟨h.2, h.1⟩⟩
      · refine Or.inr ⟨rest, ?_, hnr, hpt⟩
        show s.stack.map (setTimerBatch · (b0.erase t)) = _
        rw [hst, List.map_cons, map_setTimerBatch_noT _ hnr]; rfl
    · have hon : onHeap s.heap t := by
        refine ⟨(s.heap.idx.getD t (-1)).toNat, by omega, ?_⟩
        rw [hidx]; congr 1; omega
      obtain ⟨h', heq, hinv', hidx', _, _, hoth⟩ := Ivy.Props.C05.unregister_ok s.heap b0 t gb.hinv hon
      simp only [heq, ok, List.map_cons, List.map_nil, stk_map_set gb.stk]
      have htb : t ∉ b0 := fun h => onHeap_not_zero hon ((gb.bidx t).2 h)
      have hlive : ∀ u, u ≠ t → (live h' u ↔ live s.heap u) := by
        intro u hu
        obtain ⟨_, h0, ho, _⟩ := hoth u hu
        unfold live; rw [h0, ho]
      have hnl : ¬ live h' t := by
        rintro (⟨i, hi, e⟩ | e)
        · rw [hidx'] at e
          have : (-1 : Int) = (i : Int) := by simp at e
          omega
        · rw [hidx'] at e; cases e
      refine Acc.one (ms_ret (μ := { μ with reg := μ.reg.filter (·.1 != t) }) gb.alive gb.pend 0) (Or.inr ⟨b0, ?_⟩)
      refine ⟨gb.alive, gb.pend, gb.clock, gb.timeNN, hinv', ?_, gb.bnodup, ?_, ?_, ?_, ?_, gb.lastNm, gb.kt, ?_,
        ⟨gb.fr.1, gb.fr.2.1, by simp [needsTV, hpc]⟩⟩
      · exact gb.stk.mono rfl (fun h => h)
      · intro u
        show h'.idx[u]? = some 0 ↔ _
        by_cases hu : u = t
        · subst hu
          constructor
          · intro h; rw [hidx'] at h; cases h
          · intro h; exact absurd h htb
        · rw [(hoth u hu).2.1]; exact gb.bidx u
      · intro u hu
        show (expOf h' u).le s.time
        have hne : u ≠ t := fun e => htb (e ▸ hu)
        rw [(hoth u hne).2.2.2]; exact gb.ble u hu
      · intro u ex
        show (u, ex) ∈ μ.reg.filter (·.1 != t) ↔ (live h' u ∧ expOf h' u = ex)
        simp only [List.mem_filter, bne_iff_ne, ne_eq]
        by_cases hu : u = t
        · subst hu
          constructor
          · rintro ⟨_, h⟩; exact absurd rfl h
          · rintro ⟨h, _⟩; exact absurd h hnl
        · rw [hlive u hu, (hoth u hu).2.2.2, gb.reg u ex]
          exact ⟨fun h => h.1, fun h => ⟨h, hu⟩⟩
      · intro u hu
        show NN (expOf h' u)
        by_cases hut : u = t
        · subst hut; exact absurd hu hnl
        · rw [(hoth u hut).2.2.2]; exact gb.expNN u ((hlive u hut).1 hu)
      · intro abs km h; simp [waitArgs, hpc] at h

theorem api_ok {μ : M} {s : St} (g : Good μ s) (hpc : s.pc = .user) (a : Api) (henv : apiOk s a = true) :
    Acc μ (Ev.inp (.api a) :: (api s a).2.map Ev.out) (api s a).1 := by
  have g0 := g
  obtain ⟨b0, gb⟩ := g
  by_cases h1 : ∃ t e, a = .timerRegister t e
  · obtain ⟨t, e, rfl⟩ := h1; exact api_timerRegister g0 hpc t e henv
  by_cases h2 : ∃ t, a = .timerUnregister t
  · obtain ⟨t, rfl⟩ := h2; exact api_timerUnregister g0 hpc t henv
  have h1' : ∀ t e, a ≠ .timerRegister t e := fun t e h => h1 ⟨t, e, h⟩
  have h2' : ∀ t, a ≠ .timerUnregister t := fun t h => h2 ⟨t, h⟩
  refine Acc.cons (ms_api_other gb.alive gb.pend a h1' h2') ?_
  by_cases h3 : a = .main
  · subst h3
    rw [api]
    split
    · next hst =>
      refine Acc.nil (Or.inr (Good.transfer g0 rfl rfl rfl rfl rfl rfl rfl (fun b hb => ?_) (by simp [waitArgs])
        (fun h => h) (by simp [needsTV])))
      have := hb.notTop (by simp [hst])
      exact Or.inl ⟨this.1, this.2⟩
    · exact Acc.fatal _ _
  by_cases h4 : a = .validateNow
  · subst h4
    rw [api]
    split
    · exact Acc.nil (Or.inr g0)
    · exact Acc.nil (Or.inr (by good_pc g0, hpc))
  by_cases h5 : a = .invalidateNow
  · subst h5
    rw [api]
    exact Acc.nil (Or.inr (Good.transfer g0 rfl rfl rfl rfl rfl rfl rfl (fun _ => Stk.mono rfl (fun h => h))
      (by simp [waitArgs, hpc]) (fun h => by cases h) (by simp [needsTV, hpc])))
  rcases api_same s a h1' h2' h3 h4 h5 with ⟨msg, h⟩ | ⟨hs, ho⟩
  · rw [h]; exact Acc.fatal _ _
  · have g1 := g0.same hs
    rcases ho with ho | ⟨v, ho⟩
    · rw [ho]; exact Acc.nil (Or.inr g1)
    · rw [ho]; exact Acc.one (ms_ret gb.alive gb.pend v) (Or.inr g1)

theorem some_pair_inj {α β : Type} {x : α × β} {a : α} {b : β} (h : some x = some (a, b)) :
    x.1 = a ∧ x.2 = b := by
  cases h; exact ⟨rfl, rfl⟩

theorem foldl_inv {α β : Type} (f : β → α → β) (P : β → Prop) (hf : ∀ b a, P b → P (f b a)) :
    ∀ (l : List α) (b : β), P b → P (l.foldl f b)
  | [], _, h => h
  | a :: as, b, h => foldl_inv f P hf as (f b a) (hf b a h)

/-- invariant of the event-collection fold of `iv_fd_*_poll` (`s` is the state at wait return, with
the cached time already invalidated) -/
def WP (s : St) (acc : St × List FdId × Bool × Bool) : Prop :=
  Same s { acc.1 with ktimer := s.ktimer } ∧ (acc.2.2.1 = false → acc.1.ktimer = s.ktimer)

theorem afterWait_ok {μ : M} {s : St} (g : Good μ s) (abs : Option TS) (km : Bool)
    (hpc : s.pc = .waiting abs km) (r : WRes) :
    Acc μ (Ev.inp (.wret r) :: (afterWait s abs km r).2.map Ev.out) (afterWait s abs km r).1 := by
  have g0 := g
  obtain ⟨b0, gb⟩ := g
  obtain ⟨hnoT, hb0⟩ := gb.stk.elim (by simp [pcT, hpc])
  subst hb0
  have hwait := gb.wait abs km (by simp [waitArgs, hpc])
  have htv0 : abs.isSome = true → s.timeValid = true := by
    have := gb.fr.2.2
    simpa [needsTV, hpc] using this
  cases r with
  | enosys =>
    refine Acc.cons (ms_wret_enosys gb.alive gb.pend) ?_
    unfold afterWait
    dsimp -zeta only
    split
    · split
      · exact Acc.nil (Or.inr (by good_pc g0, hpc))
      · exact Acc.fatal _ _
    · split
      · exact Acc.nil (Or.inr (by good_pc g0, hpc))
      · exact Acc.fatal _ _
    · next hm =>
      have hgood : ∀ s1 : St, s1.heap = s.heap → s1.time = s.time → s1.lastAbs = s.lastAbs →
          s1.ktimer = s.ktimer → s1.timerfd = s.timerfd → s1.method = .poll → s1.stack = s.stack →
          (waitArgs s1.pc = some (abs, km)) → s1.timeValid = false → needsTV s1.pc = false → Good μ s1 := by
        intro s1 e1 e2 e3 e5 e6 e7 e8 e10 e11 e12
        refine ⟨[], gb.transfer e1 e2 (e3 ▸ gb.lastNm) ?_ (Or.inl ⟨e8 ▸ hnoT, rfl⟩) ?_
          (fun h => by rw [e11] at h; cases h) (fun h => by rw [e12] at h; cases h)⟩
        · intro a; rw [e7] at a; cases a
        · intro abs' km' h
          rw [e10] at h; cases h
          exact hwait.congr e1 e6 e5 (fun a => by rw [e7] at a; cases a)
      extract_lets s1
      split
      · exact Acc.nil (Or.inr (hgood _ rfl rfl rfl rfl rfl rfl rfl (by simp [waitArgs]) rfl (by simp [needsTV])))
      · next hns =>
        exact Acc.nil (Or.inr (hgood _ rfl rfl rfl rfl rfl rfl rfl (by simp [waitArgs, goto]) rfl
          (by simpa [needsTV, goto] using hns)))
    · exact Acc.fatal _ _
  | eintr =>
    refine Acc.cons (ms_wret_eintr gb.alive gb.pend) ?_
    unfold afterWait
    dsimp -zeta only
    extract_lets s1 rt s2
    have hs2 : s2.heap = s.heap ∧ s2.time = s.time ∧ s2.lastAbs = s.lastAbs ∧ s2.stack = s.stack ∧ KT s2 ∧
        s2.timeValid = false := by
      show (if _ then _ else _ : St).heap = _ ∧ (if _ then _ else _ : St).time = _ ∧
        (if _ then _ else _ : St).lastAbs = _ ∧ (if _ then _ else _ : St).stack = _ ∧ KT (if _ then _ else _) ∧
        (if _ then _ else _ : St).timeValid = _
      split
      · refine ⟨rfl, rfl, rfl, rfl, ?_, rfl⟩
        intro _ (h : 0 = 5); omega
      · exact ⟨rfl, rfl, rfl, rfl, gb.kt, rfl⟩
    obtain ⟨e1, e2, e3, e4, e5, e6⟩ := hs2
    refine Acc.nil (Or.inr ⟨[], GoodB.unfresh (gb.transfer e1 e2 (e3 ▸ gb.lastNm) e5 (Or.inl ⟨?_, rfl⟩) ?_
      (fun h => ?_) (by simp [needsTV, goto])) e6⟩)
    · show noT (_ :: s2.stack)
      rw [e4]; simp [isT, hnoT]
    · intro abs' km' h; simp [waitArgs, goto] at h
    · have h' : s2.timeValid = true := h
      rw [e6] at h'; cases h'
  | events l =>
    refine Acc.cons (ms_wret_events gb.alive gb.pend l) ?_
    unfold afterWait
    dsimp only
    generalize hacc : List.foldl _ _ l = acc
    have hP : WP { s with timeValid := false } acc := by
      rw [← hacc]
      refine foldl_inv _ (WP { s with timeValid := false }) ?_ l _ ?_
      · rintro ⟨s1, a, rt, re⟩ it ⟨h1, h2⟩
        cases it with
        | kick =>
          exact ⟨⟨h1.heap, h1.time, rfl, h1.timerfd, h1.lastAbs, h1.lastAbsCount, h1.method, h1.pc, h1.stack,
            h1.timeValid⟩, h2⟩
        | ktimer =>
          refine ⟨⟨h1.heap, h1.time, rfl, h1.timerfd, h1.lastAbs, h1.lastAbsCount, h1.method, h1.pc, h1.stack,
            h1.timeValid⟩, ?_⟩
          intro h; cases h
        | fd f ev =>
          have hs := same_activate s1 a f ev
          refine ⟨⟨hs.heap.trans h1.heap, hs.time.trans h1.time, rfl, hs.timerfd.trans h1.timerfd,
            hs.lastAbs.trans h1.lastAbs, hs.lastAbsCount.trans h1.lastAbsCount, hs.method.trans h1.method,
            hs.pc.trans h1.pc, h1.stack.trans hs.stack, hs.timeValid.trans h1.timeValid⟩, ?_⟩
          intro h
          exact hs.ktimer.trans (h2 h)
      · exact ⟨⟨rfl, rfl, rfl, rfl, rfl, rfl, rfl, rfl, SRel.refl _, rfl⟩, fun _ => rfl⟩
    clear hacc
    obtain ⟨s1, active, rt, runEv⟩ := acc
    obtain ⟨h1, h2⟩ := hP
    dsimp only at h1 h2 ⊢
    have htv1 : s1.timeValid = false := h1.timeValid
    have hkt1 : KT (if (km && rt) = true then { s1 with lastAbsCount := 0 } else s1) := by
      split
      · intro _ (h : 0 = 5); omega
      · next hc =>
        intro hm h5
        have hm' : s.method = .epollTimerfd := h1.method ▸ hm
        have h5' : s.lastAbsCount = 5 := h1.lastAbsCount ▸ h5
        cases km with
        | false =>
          unfold WaitOk at hwait
          simp only [Bool.false_eq_true, if_false] at hwait
          exact absurd h5' (hwait.1 hm')
        | true =>
          have hrt : rt = false := by simpa using hc
          obtain ⟨k1, k2⟩ := gb.kt hm' h5'
          refine ⟨h1.timerfd.trans k1, ?_⟩
          rw [h2 hrt, k2]
          exact congrArg (fun x => some (armV x)) h1.lastAbs.symm
    have e : (if (km && rt) = true then { s1 with lastAbsCount := 0 } else s1).heap = s1.heap ∧
        (if (km && rt) = true then { s1 with lastAbsCount := 0 } else s1).time = s1.time ∧
        (if (km && rt) = true then { s1 with lastAbsCount := 0 } else s1).lastAbs = s1.lastAbs ∧
        (if (km && rt) = true then { s1 with lastAbsCount := 0 } else s1).stack = s1.stack ∧
        (if (km && rt) = true then { s1 with lastAbsCount := 0 } else s1).timeValid = s1.timeValid := by
      split <;> exact ⟨rfl, rfl, rfl, rfl, rfl⟩
    generalize (if (km && rt) = true then { s1 with lastAbsCount := 0 } else s1) = s2 at e hkt1 ⊢
    obtain ⟨e1, e2, e3, e4, e5⟩ := e
    have e6 : s2.timeValid = false := e5.trans htv1
    have hfin : ∀ b : Block, waitArgs (.run b) = none → needsTV (.run b) = false →
        Good { μ with fresh := false } (goto { s2 with stack := .poll active rt :: s2.stack } b).1 := by
      intro b hb hb2
      refine ⟨[], GoodB.unfresh (gb.transfer (e1.trans h1.heap) (e2.trans h1.time) ?_ hkt1 (Or.inl ⟨?_, rfl⟩) ?_
        (fun h => ?_) (fun h => ?_)) e6⟩
      · show Nm s2.lastAbs
        rw [e3, h1.lastAbs]; exact gb.lastNm
      · show noT (_ :: s2.stack)
        rw [e4]
        have := h1.stack.noT hnoT
        simp [isT]; exact this
      · intro abs' km' h; simp only [goto] at h; rw [hb] at h; cases h
      · have h' : s2.timeValid = true := h
        rw [e6] at h'; cases h'
      · have h' : needsTV (.run b) = true := h
        rw [hb2] at h'; cases h'
    split
    · exact Acc.nil (Or.inr (hfin _ rfl rfl))
    · exact Acc.nil (Or.inr (hfin _ rfl rfl))

theorem le_of_not_gt {a b : TS} (h : a.gt b = false) : a.le b := h

theorem input_ok {μ : M} {s s' : St} {outs : List Out} (g : Good μ s) (i : Input) (henv : envOk s i = true)
    (hin : input s i = some (s', outs)) : Acc μ (Ev.inp i :: outs.map Ev.out) s' := by
  have g0 := g
  obtain ⟨b0, gb⟩ := g
  unfold input at hin
  split at hin
  · -- api
    next a hpc =>
    obtain ⟨rfl, rfl⟩ := some_pair_inj hin
    simp only [envOk, Bool.and_eq_true] at henv
    exact api_ok g0 hpc a henv.1
  · -- handlerEnd
    next hpc =>
    have hm := ms_inp_other gb.alive gb.pend .handlerEnd (by simp) (by simp) (by simp)
    split at hin
    · cases hin
    · obtain ⟨rfl, rfl⟩ := some_pair_inj hin; exact Acc.cons hm (Acc.nil (Or.inr (by good_pc g0, hpc)))
    · next hst =>
      obtain ⟨rfl, rfl⟩ := some_pair_inj hin
      refine Acc.cons hm (Acc.nil (Or.inr (Good.transfer g0 rfl rfl rfl rfl rfl rfl rfl (fun b hb => ?_) (by simp [waitArgs, goto])
        (fun h => h) (by simp [needsTV, goto]))))
      have := hb.notTop (by simp [hst])
      exact Or.inl ⟨this.1, this.2⟩
    · next hst =>
      obtain ⟨rfl, rfl⟩ := some_pair_inj hin
      refine Acc.cons hm (Acc.nil (Or.inr (Good.transfer g0 rfl rfl rfl rfl rfl rfl rfl (fun b hb => ?_) (by simp [waitArgs, goto])
        (fun h => h) (by simp [needsTV, goto]))))
      have := hb.notTop (by simp [hst])
      exact Or.inl ⟨this.1, this.2⟩
    · next hst =>
      obtain ⟨rfl, rfl⟩ := some_pair_inj hin
      refine Acc.cons hm (Acc.nil (Or.inr (Good.transfer g0 rfl rfl rfl rfl rfl rfl rfl (fun b hb => ?_) (by simp [waitArgs, goto])
        (fun h => h) (by simp [needsTV, goto]))))
      have := hb.notTop (by simp [hst])
      exact Or.inl ⟨this.1, this.2⟩
    · cases hin
  · -- free
    next k id hpc =>
    obtain ⟨rfl, rfl⟩ := some_pair_inj hin
    exact Acc.cons (ms_inp_other gb.alive gb.pend _ (by simp) (by simp) (by simp)) (Acc.nil (Or.inr (g0.same (same_freeObj s k id))))
  · -- init
    next k id hpc =>
    obtain ⟨rfl, rfl⟩ := some_pair_inj hin
    exact Acc.cons (ms_inp_other gb.alive gb.pend _ (by simp) (by simp) (by simp)) (Acc.nil (Or.inr (g0.same (same_initObj s k id))))
  · -- time
    next k t hpc =>
    obtain ⟨rfl, rfl⟩ := some_pair_inj hin
    simp only [envOk, Bool.and_eq_true, decide_eq_true_eq, Bool.not_eq_true'] at henv
    obtain ⟨⟨⟨t1, t2⟩, t3⟩, t4⟩ := henv
    have hm : mstep μ (.inp (.time t)) = .ok { μ with clock := t, fresh := true } := by
      have hp := gb.pend
      simp [mstep, Ivy.Mon.C04.step, gb.alive]
      cases μ; simp_all
    refine Acc.cons hm ?_
    have hgood : ∀ s1 : St, s1.heap = s.heap → s1.time = t → s1.lastAbs = s.lastAbs → s1.lastAbsCount = s.lastAbsCount →
        s1.ktimer = s.ktimer → s1.timerfd = s.timerfd → s1.method = s.method → s1.stack = s.stack →
        (pcT s.pc → pcT s1.pc) → (waitArgs s1.pc = none ∨ waitArgs s1.pc = waitArgs s.pc) →
        s1.timeValid = true → GoodB { μ with clock := t, fresh := true } s1 b0 := by
      intro s1 e1 e2 e3 e4 e5 e6 e7 e8 e9 e10 e11
      refine ⟨gb.alive, gb.pend, e2.symm, ?_, ?_, gb.stk.mono e8 e9, gb.bnodup, ?_, ?_, ?_, ?_, ?_, ?_, ?_,
        ⟨fun _ => rfl, fun _ => rfl, fun _ => e11⟩⟩
      · rw [e2]; exact ⟨t1, t2, t3⟩
      · rw [e1]; exact gb.hinv
      · rw [e1]; exact gb.bidx
      · intro u hu
        rw [e1, e2]
        exact Proofs.le_trans (gb.ble u hu) t4
      · rw [e1]; exact gb.reg
      · rw [e1]; exact gb.expNN
      · rw [e3]; exact gb.lastNm
      · intro a c; rw [e5, e6, e3]; exact gb.kt (e7 ▸ a) (e4 ▸ c)
      · intro abs km h
        rcases e10 with e10 | e10
        · rw [e10] at h; cases h
        · rw [e10] at h
          exact (gb.wait abs km h).congr e1 e6 e5 (fun a c => ⟨e7 ▸ a, e4 ▸ c⟩)
    unfold afterTime
    simp only [goto]
    split
    · exact Acc.nil (Or.inr ⟨b0, hgood _ rfl rfl rfl rfl rfl rfl rfl rfl (by simp [pcT, hpc]) (by simp [waitArgs]) rfl⟩)
    · exact Acc.nil (Or.inr ⟨b0, hgood _ rfl rfl rfl rfl rfl rfl rfl rfl (by simp [pcT, hpc]) (by simp [waitArgs, hpc]) rfl⟩)
    · exact Acc.nil (Or.inr ⟨b0, hgood _ rfl rfl rfl rfl rfl rfl rfl rfl (by simp [pcT, hpc]) (by simp [waitArgs]) rfl⟩)
  · -- wret
    next abs km r hpc =>
    obtain ⟨rfl, rfl⟩ := some_pair_inj hin
    exact afterWait_ok g0 abs km hpc r
  · -- xpost
    next abs km e hpc =>
    have hm := ms_inp_other gb.alive gb.pend (.xpost e) (by simp) (by simp) (by simp)
    split at hin
    · obtain ⟨rfl, rfl⟩ := some_pair_inj hin; exact Acc.cons hm (Acc.nil (Or.inr g0))
    · cases hin
      refine Acc.cons hm (Acc.nil (Or.inr (g0.same ?_)))
      simp only []
      split <;> same_rfl
  · -- rawRead
    next r okk hpc =>
    have hm := ms_inp_other gb.alive gb.pend (.rawRead okk) (by simp) (by simp) (by simp)
    split at hin
    · obtain ⟨rfl, rfl⟩ := some_pair_inj hin; exact Acc.cons hm (Acc.nil (Or.inr (by good_pc g0, hpc)))
    · split at hin
      · obtain ⟨rfl, rfl⟩ := some_pair_inj hin; exact Acc.cons hm (Acc.nil (Or.inr (by good_pc g0, hpc)))
      · split at hin
        · obtain ⟨rfl, rfl⟩ := some_pair_inj hin; exact Acc.cons hm (Acc.fault _ _)
        · obtain ⟨rfl, rfl⟩ := some_pair_inj hin
          exact Acc.cons hm (Acc.one (ms_cb gb.alive gb.pend _ (by simp)) (Or.inr (by good_pc g0, hpc)))
  · cases hin

/-! ## the trace theorem -/

theorem fold_append {l1 l2 : List Ev} {μ μ1 μ2 : M} (h1 : l1.foldlM mstep μ = .ok μ1)
    (h2 : l2.foldlM mstep μ1 = .ok μ2) : (l1 ++ l2).foldlM mstep μ = .ok μ2 := by
  rw [List.foldlM_append, h1]; exact h2

theorem exec_ok {s s' : St} {evs : List Ev} (h : Exec s evs s') :
    ∀ μ, R μ s → ∃ μ', evs.foldlM mstep μ = .ok μ' ∧ R μ' s' := by
  induction h with
  | nil s => intro μ hr; exact ⟨μ, rfl, hr⟩
  | @internal s s1 s2 b outs evs hpc hint _ ih =>
    intro μ hr
    have := internal_ok hr b hpc
    rw [hint] at this
    obtain ⟨μ1, hf1, hr1⟩ := this
    obtain ⟨μ2, hf2, hr2⟩ := ih μ1 hr1
    exact ⟨μ2, fold_append hf1 hf2, hr2⟩
  | @input s s1 s2 i outs evs henv hin _ ih =>
    intro μ hr
    have hacc : Acc μ (Ev.inp i :: outs.map Ev.out) s1 := by
      rcases hr with hd | g
      · exact Acc.dead hd _ _
      · exact input_ok g i henv hin
    obtain ⟨μ1, hf1, hr1⟩ := hacc
    obtain ⟨μ2, hf2, hr2⟩ := ih μ1 hr1
    refine ⟨μ2, ?_, hr2⟩
    have := fold_append hf1 hf2
    simpa using this

theorem good_init (m : Method) (ntimers : Nat) (timerfdAvail pwait2 : Bool) :
    Good {} (St.init m ntimers timerfdAvail pwait2) := by
  have hidx : ∀ t : Nat, ∀ v : Int, (St.init m ntimers timerfdAvail pwait2).heap.idx[t]? = some v → v = -1 := by
    intro t v h
    simp only [St.init, Store.init, Array.getElem?_replicate] at h
    split at h
    · cases h; rfl
    · cases h
  have hnl : ∀ t, ¬ live (St.init m ntimers timerfdAvail pwait2).heap t := by
    rintro t (⟨i, hi, e⟩ | e)
    · have := hidx t _ e; omega
    · have := hidx t _ e; omega
  refine ⟨[], rfl, rfl, rfl, (by simp [NN, St.init]), Ivy.Props.C05.init_inv ntimers, Or.inl ⟨by simp [St.init], rfl⟩,
    List.nodup_nil, ?_, ?_, ?_, ?_, (by simp [Nm, St.init]), ?_, ?_,
    ⟨by simp [St.init], by simp, by simp [needsTV, St.init]⟩⟩
  · intro t
    constructor
    · intro h; have := hidx t _ h; omega
    · intro h; cases h
  · intro t h; cases h
  · intro t ex
    constructor
    · intro h; cases h
    · intro h; exact absurd h.1 (hnl t)
  · intro t h; exact absurd h (hnl t)
  · intro _ (h : 0 = 5); omega
  · intro abs km h; simp [St.init, waitArgs] at h

theorem monitor_accepts (m : Method) (ntimers : Nat) (timerfdAvail pwait2 : Bool)
    (evs : List Ev) (s' : St) (h : Exec (St.init m ntimers timerfdAvail pwait2) evs s') :
    Ivy.Mon.C04.verdict evs = none := by
  obtain ⟨μ', hf, _⟩ := exec_ok h {} (Or.inr (good_init m ntimers timerfdAvail pwait2))
  unfold Ivy.Mon.C04.verdict runMon
  have : List.foldlM Ivy.Mon.C04.step {} evs = .ok μ' := hf
  rw [this]

/-! ## non-vacuity -/

def isTimerCb : Ev → Bool
  | .out (.cb (.timer 0)) => true
  | _ => false

def isWait : Ev → Bool
  | .out (.wait ..) => true
  | _ => false

def isKernelTimerWait : Ev → Bool
  | .out (.wait _ .inf _ (some (some _)) _) => true
  | _ => false

def isMainRet : Ev → Bool
  | .out .mainRet => true
  | _ => false

/-- one timer, one bounded wait, the timer fires after the clock passed its expiry, `iv_main` returns -/
def nvInputs : List Input :=
  [.api (.timerRegister 0 ⟨1, 0⟩), .api .main, .time ⟨0, 5⟩, .wret (.events []), .time ⟨1, 7⟩, .handlerEnd]

/-- five waits for the same deadline: the fifth is unbounded with the kernel timer armed; the kernel
timer fires, the timer handler runs, `iv_main` returns -/
def nvInputsK : List Input :=
  [.api (.timerRegister 0 ⟨100, 0⟩), .api .main, .time ⟨0, 1⟩,
   .wret (.events []), .time ⟨0, 2⟩, .wret (.events []), .time ⟨0, 3⟩,
   .wret (.events []), .time ⟨0, 4⟩, .wret (.events []), .time ⟨0, 5⟩,
   .wret (.events [.ktimer]), .time ⟨100, 5⟩, .handlerEnd]


example :
    (runTrace 100 (St.init .epollTimerfd 1 true true) nvInputs).1.any isTimerCb = true ∧
    (runTrace 100 (St.init .epollTimerfd 1 true true) nvInputs).1.any isWait = true ∧
    (runTrace 100 (St.init .epollTimerfd 1 true true) nvInputs).1.any isMainRet = true ∧
    Ivy.Mon.C04.verdict (runTrace 100 (St.init .epollTimerfd 1 true true) nvInputs).1 = none :=
  ⟨by decide +kernel, by decide +kernel, by decide +kernel,
   monitor_accepts _ _ _ _ _ _ (runTrace_exec 100 _ nvInputs)⟩

example :
    (runTrace 300 (St.init .epollTimerfd 1 true true) nvInputsK).1.any isTimerCb = true ∧
    (runTrace 300 (St.init .epollTimerfd 1 true true) nvInputsK).1.any isKernelTimerWait = true ∧
    (runTrace 300 (St.init .epollTimerfd 1 true true) nvInputsK).1.any isMainRet = true ∧
    Ivy.Mon.C04.verdict (runTrace 300 (St.init .epollTimerfd 1 true true) nvInputsK).1 = none :=
  ⟨by decide +kernel, by decide +kernel, by decide +kernel,
   monitor_accepts _ _ _ _ _ _ (runTrace_exec 300 _ nvInputsK)⟩

/-- an interrupted wait: the loop reads the clock again before the next wait and before the handler -/
def nvInputsE : List Input :=
  [.api (.timerRegister 0 ⟨1, 0⟩), .api .main, .time ⟨0, 5⟩, .wret .eintr, .time ⟨0, 6⟩,
   .wret (.events []), .time ⟨1, 7⟩, .handlerEnd]

def isEintr : Ev → Bool
  | .inp (.wret .eintr) => true
  | _ => false

example :
    (runTrace 200 (St.init .epollTimerfd 1 true true) nvInputsE).1.any isEintr = true ∧
    ((runTrace 200 (St.init .epollTimerfd 1 true true) nvInputsE).1.filter isWait).length = 2 ∧
    (runTrace 200 (St.init .epollTimerfd 1 true true) nvInputsE).1.any isTimerCb = true ∧
    (runTrace 200 (St.init .epollTimerfd 1 true true) nvInputsE).1.any isMainRet = true ∧
    Ivy.Mon.C04.verdict (runTrace 200 (St.init .epollTimerfd 1 true true) nvInputsE).1 = none :=
  ⟨by decide +kernel, by decide +kernel, by decide +kernel, by decide +kernel,
   monitor_accepts _ _ _ _ _ _ (runTrace_exec 200 _ nvInputsE)⟩

/-- the monitor rejects a loop that keeps the clock value read before an interrupted wait:
the next wait's finite timeout is computed from the stale value … -/
example : (Ivy.Mon.C04.verdict
    [.inp (.api (.timerRegister 0 ⟨1, 0⟩)), .out (.ret 0), .inp (.api .main), .inp (.time ⟨0, 5⟩),
     .out (.wait "epoll_pwait2" (.ns 999999995) [] none none), .inp (.wret .eintr),
     .out (.wait "epoll_pwait2" (.ns 999999995) [] none none)]).isSome = true := by decide +kernel

/-- … or a timer handler is entered against the stale value -/
example : (Ivy.Mon.C04.verdict
    [.inp (.api (.timerRegister 1 ⟨0, 9⟩)), .out (.ret 0), .inp (.api .main), .inp (.time ⟨0, 5⟩),
     .out (.wait "epoll_pwait2" (.ns 4) [(3, ⟨true, false, false⟩)] none none),
     .inp (.wret (.events [.fd 3 { kin := true }])), .out (.cb (.fd 3 1)),
     .inp (.api (.timerRegister 0 ⟨0, 2⟩)), .out (.ret 0), .inp .handlerEnd,
     .out (.cb (.timer 0))]).isSome = true := by decide +kernel

end Ivy.L1.ProofsC04
