import Ivy.L1.Exec
import Ivy.Mon.C06
/-!
# C06 — proof that every trace of the L1 machine is accepted by the monitor `Ivy.Mon.C06`
-/
namespace Ivy.L1.ProofsC06
open Ivy.L1 Ivy.Heap

/-! ## frame lemmas: helper functions of the machine leave the relevant fields alone -/

local macro "frame_tac " g:ident : tactic =>
  `(tactic| (unfold $g; try dsimp only; (repeat' split) <;> simp_all))

@[simp] theorem epollNotify_tasks (s : St) (f : FdId) : (epollNotify s f).tasks = s.tasks := by rfl
@[simp] theorem epollNotify_stack (s : St) (f : FdId) : (epollNotify s f).stack = s.stack := by rfl
@[simp] theorem epollNotify_tobjs (s : St) (f : FdId) : (epollNotify s f).tobjs = s.tobjs := by rfl
@[simp] theorem epollNotify_taskEpoch (s : St) (f : FdId) : (epollNotify s f).taskEpoch = s.taskEpoch := by rfl
@[simp] theorem epollNotify_time (s : St) (f : FdId) : (epollNotify s f).time = s.time := by rfl
@[simp] theorem epollNotify_heap (s : St) (f : FdId) : (epollNotify s f).heap = s.heap := by rfl
@[simp] theorem epollNotify_lastAbs (s : St) (f : FdId) : (epollNotify s f).lastAbs = s.lastAbs := by rfl
@[simp] theorem epollNotify_lastAbsCount (s : St) (f : FdId) : (epollNotify s f).lastAbsCount = s.lastAbsCount := by rfl
@[simp] theorem epollNotify_method (s : St) (f : FdId) : (epollNotify s f).method = s.method := by rfl
@[simp] theorem epollNotify_timerfd (s : St) (f : FdId) : (epollNotify s f).timerfd = s.timerfd := by rfl
@[simp] theorem epollNotify_ktimer (s : St) (f : FdId) : (epollNotify s f).ktimer = s.ktimer := by rfl
@[simp] theorem epollNotify_pc (s : St) (f : FdId) : (epollNotify s f).pc = s.pc := by rfl
@[simp] theorem epollFlushOne_tasks (s : St) (f : FdId) : (epollFlushOne s f).tasks = s.tasks := by frame_tac epollFlushOne
@[simp] theorem epollFlushOne_stack (s : St) (f : FdId) : (epollFlushOne s f).stack = s.stack := by frame_tac epollFlushOne
@[simp] theorem epollFlushOne_tobjs (s : St) (f : FdId) : (epollFlushOne s f).tobjs = s.tobjs := by frame_tac epollFlushOne
@[simp] theorem epollFlushOne_taskEpoch (s : St) (f : FdId) : (epollFlushOne s f).taskEpoch = s.taskEpoch := by frame_tac epollFlushOne
@[simp] theorem epollFlushOne_time (s : St) (f : FdId) : (epollFlushOne s f).time = s.time := by frame_tac epollFlushOne
@[simp] theorem epollFlushOne_heap (s : St) (f : FdId) : (epollFlushOne s f).heap = s.heap := by frame_tac epollFlushOne
@[simp] theorem epollFlushOne_lastAbs (s : St) (f : FdId) : (epollFlushOne s f).lastAbs = s.lastAbs := by frame_tac epollFlushOne
@[simp] theorem epollFlushOne_lastAbsCount (s : St) (f : FdId) : (epollFlushOne s f).lastAbsCount = s.lastAbsCount := by frame_tac epollFlushOne
@[simp] theorem epollFlushOne_method (s : St) (f : FdId) : (epollFlushOne s f).method = s.method := by frame_tac epollFlushOne
@[simp] theorem epollFlushOne_timerfd (s : St) (f : FdId) : (epollFlushOne s f).timerfd = s.timerfd := by frame_tac epollFlushOne
@[simp] theorem epollFlushOne_ktimer (s : St) (f : FdId) : (epollFlushOne s f).ktimer = s.ktimer := by frame_tac epollFlushOne
@[simp] theorem epollFlushOne_pc (s : St) (f : FdId) : (epollFlushOne s f).pc = s.pc := by frame_tac epollFlushOne
@[simp] theorem pollNotify_tasks (s : St) (f : FdId) : (pollNotify s f).tasks = s.tasks := by frame_tac pollNotify
@[simp] theorem pollNotify_stack (s : St) (f : FdId) : (pollNotify s f).stack = s.stack := by frame_tac pollNotify
@[simp] theorem pollNotify_tobjs (s : St) (f : FdId) : (pollNotify s f).tobjs = s.tobjs := by frame_tac pollNotify
@[simp] theorem pollNotify_taskEpoch (s : St) (f : FdId) : (pollNotify s f).taskEpoch = s.taskEpoch := by frame_tac pollNotify
@[simp] theorem pollNotify_time (s : St) (f : FdId) : (pollNotify s f).time = s.time := by frame_tac pollNotify
@[simp] theorem pollNotify_heap (s : St) (f : FdId) : (pollNotify s f).heap = s.heap := by frame_tac pollNotify
@[simp] theorem pollNotify_lastAbs (s : St) (f : FdId) : (pollNotify s f).lastAbs = s.lastAbs := by frame_tac pollNotify
@[simp] theorem pollNotify_lastAbsCount (s : St) (f : FdId) : (pollNotify s f).lastAbsCount = s.lastAbsCount := by frame_tac pollNotify
@[simp] theorem pollNotify_method (s : St) (f : FdId) : (pollNotify s f).method = s.method := by frame_tac pollNotify
@[simp] theorem pollNotify_timerfd (s : St) (f : FdId) : (pollNotify s f).timerfd = s.timerfd := by frame_tac pollNotify
@[simp] theorem pollNotify_ktimer (s : St) (f : FdId) : (pollNotify s f).ktimer = s.ktimer := by frame_tac pollNotify
@[simp] theorem pollNotify_pc (s : St) (f : FdId) : (pollNotify s f).pc = s.pc := by frame_tac pollNotify
@[simp] theorem notifyFd_tasks (s : St) (f : FdId) : (notifyFd s f).tasks = s.tasks := by frame_tac notifyFd
@[simp] theorem notifyFd_stack (s : St) (f : FdId) : (notifyFd s f).stack = s.stack := by frame_tac notifyFd
@[simp] theorem notifyFd_tobjs (s : St) (f : FdId) : (notifyFd s f).tobjs = s.tobjs := by frame_tac notifyFd
@[simp] theorem notifyFd_taskEpoch (s : St) (f : FdId) : (notifyFd s f).taskEpoch = s.taskEpoch := by frame_tac notifyFd
@[simp] theorem notifyFd_time (s : St) (f : FdId) : (notifyFd s f).time = s.time := by frame_tac notifyFd
@[simp] theorem notifyFd_heap (s : St) (f : FdId) : (notifyFd s f).heap = s.heap := by frame_tac notifyFd
@[simp] theorem notifyFd_lastAbs (s : St) (f : FdId) : (notifyFd s f).lastAbs = s.lastAbs := by frame_tac notifyFd
@[simp] theorem notifyFd_lastAbsCount (s : St) (f : FdId) : (notifyFd s f).lastAbsCount = s.lastAbsCount := by frame_tac notifyFd
@[simp] theorem notifyFd_method (s : St) (f : FdId) : (notifyFd s f).method = s.method := by frame_tac notifyFd
@[simp] theorem notifyFd_timerfd (s : St) (f : FdId) : (notifyFd s f).timerfd = s.timerfd := by frame_tac notifyFd
@[simp] theorem notifyFd_ktimer (s : St) (f : FdId) : (notifyFd s f).ktimer = s.ktimer := by frame_tac notifyFd
@[simp] theorem notifyFd_pc (s : St) (f : FdId) : (notifyFd s f).pc = s.pc := by frame_tac notifyFd
@[simp] theorem fdRegisterCore_tasks (s : St) (f : FdId) (a b c : Bool) : (fdRegisterCore s f a b c).tasks = s.tasks := by simp [fdRegisterCore]
@[simp] theorem fdRegisterCore_stack (s : St) (f : FdId) (a b c : Bool) : (fdRegisterCore s f a b c).stack = s.stack := by simp [fdRegisterCore]
@[simp] theorem fdRegisterCore_tobjs (s : St) (f : FdId) (a b c : Bool) : (fdRegisterCore s f a b c).tobjs = s.tobjs := by simp [fdRegisterCore]
@[simp] theorem fdRegisterCore_taskEpoch (s : St) (f : FdId) (a b c : Bool) : (fdRegisterCore s f a b c).taskEpoch = s.taskEpoch := by simp [fdRegisterCore]
@[simp] theorem fdRegisterCore_time (s : St) (f : FdId) (a b c : Bool) : (fdRegisterCore s f a b c).time = s.time := by simp [fdRegisterCore]
@[simp] theorem fdRegisterCore_heap (s : St) (f : FdId) (a b c : Bool) : (fdRegisterCore s f a b c).heap = s.heap := by simp [fdRegisterCore]
@[simp] theorem fdRegisterCore_lastAbs (s : St) (f : FdId) (a b c : Bool) : (fdRegisterCore s f a b c).lastAbs = s.lastAbs := by simp [fdRegisterCore]
@[simp] theorem fdRegisterCore_lastAbsCount (s : St) (f : FdId) (a b c : Bool) : (fdRegisterCore s f a b c).lastAbsCount = s.lastAbsCount := by simp [fdRegisterCore]
@[simp] theorem fdRegisterCore_method (s : St) (f : FdId) (a b c : Bool) : (fdRegisterCore s f a b c).method = s.method := by simp [fdRegisterCore]
@[simp] theorem fdRegisterCore_timerfd (s : St) (f : FdId) (a b c : Bool) : (fdRegisterCore s f a b c).timerfd = s.timerfd := by simp [fdRegisterCore]
@[simp] theorem fdRegisterCore_ktimer (s : St) (f : FdId) (a b c : Bool) : (fdRegisterCore s f a b c).ktimer = s.ktimer := by simp [fdRegisterCore]
@[simp] theorem fdRegisterCore_pc (s : St) (f : FdId) (a b c : Bool) : (fdRegisterCore s f a b c).pc = s.pc := by simp [fdRegisterCore]
@[simp] theorem fdUnregisterCore_tasks (s : St) (f : FdId) : (fdUnregisterCore s f).tasks = s.tasks := by frame_tac fdUnregisterCore
@[simp] theorem fdUnregisterCore_tobjs (s : St) (f : FdId) : (fdUnregisterCore s f).tobjs = s.tobjs := by frame_tac fdUnregisterCore
@[simp] theorem fdUnregisterCore_taskEpoch (s : St) (f : FdId) : (fdUnregisterCore s f).taskEpoch = s.taskEpoch := by frame_tac fdUnregisterCore
@[simp] theorem fdUnregisterCore_time (s : St) (f : FdId) : (fdUnregisterCore s f).time = s.time := by frame_tac fdUnregisterCore
@[simp] theorem fdUnregisterCore_heap (s : St) (f : FdId) : (fdUnregisterCore s f).heap = s.heap := by frame_tac fdUnregisterCore
@[simp] theorem fdUnregisterCore_lastAbs (s : St) (f : FdId) : (fdUnregisterCore s f).lastAbs = s.lastAbs := by frame_tac fdUnregisterCore
@[simp] theorem fdUnregisterCore_lastAbsCount (s : St) (f : FdId) : (fdUnregisterCore s f).lastAbsCount = s.lastAbsCount := by frame_tac fdUnregisterCore
@[simp] theorem fdUnregisterCore_method (s : St) (f : FdId) : (fdUnregisterCore s f).method = s.method := by frame_tac fdUnregisterCore
@[simp] theorem fdUnregisterCore_timerfd (s : St) (f : FdId) : (fdUnregisterCore s f).timerfd = s.timerfd := by frame_tac fdUnregisterCore
@[simp] theorem fdUnregisterCore_ktimer (s : St) (f : FdId) : (fdUnregisterCore s f).ktimer = s.ktimer := by frame_tac fdUnregisterCore
@[simp] theorem fdUnregisterCore_pc (s : St) (f : FdId) : (fdUnregisterCore s f).pc = s.pc := by frame_tac fdUnregisterCore
@[simp] theorem rawRegisterCore_tasks (s : St) (r : RawId) : (rawRegisterCore s r).tasks = s.tasks := by simp [rawRegisterCore]
@[simp] theorem rawRegisterCore_stack (s : St) (r : RawId) : (rawRegisterCore s r).stack = s.stack := by simp [rawRegisterCore]
@[simp] theorem rawRegisterCore_tobjs (s : St) (r : RawId) : (rawRegisterCore s r).tobjs = s.tobjs := by simp [rawRegisterCore]
@[simp] theorem rawRegisterCore_taskEpoch (s : St) (r : RawId) : (rawRegisterCore s r).taskEpoch = s.taskEpoch := by simp [rawRegisterCore]
@[simp] theorem rawRegisterCore_time (s : St) (r : RawId) : (rawRegisterCore s r).time = s.time := by simp [rawRegisterCore]
@[simp] theorem rawRegisterCore_heap (s : St) (r : RawId) : (rawRegisterCore s r).heap = s.heap := by simp [rawRegisterCore]
@[simp] theorem rawRegisterCore_lastAbs (s : St) (r : RawId) : (rawRegisterCore s r).lastAbs = s.lastAbs := by simp [rawRegisterCore]
@[simp] theorem rawRegisterCore_lastAbsCount (s : St) (r : RawId) : (rawRegisterCore s r).lastAbsCount = s.lastAbsCount := by simp [rawRegisterCore]
@[simp] theorem rawRegisterCore_method (s : St) (r : RawId) : (rawRegisterCore s r).method = s.method := by simp [rawRegisterCore]
@[simp] theorem rawRegisterCore_timerfd (s : St) (r : RawId) : (rawRegisterCore s r).timerfd = s.timerfd := by simp [rawRegisterCore]
@[simp] theorem rawRegisterCore_ktimer (s : St) (r : RawId) : (rawRegisterCore s r).ktimer = s.ktimer := by simp [rawRegisterCore]
@[simp] theorem rawRegisterCore_pc (s : St) (r : RawId) : (rawRegisterCore s r).pc = s.pc := by simp [rawRegisterCore]
@[simp] theorem rawUnregisterCore_tasks (s : St) (r : RawId) : (rawUnregisterCore s r).tasks = s.tasks := by simp [rawUnregisterCore]
@[simp] theorem rawUnregisterCore_tobjs (s : St) (r : RawId) : (rawUnregisterCore s r).tobjs = s.tobjs := by simp [rawUnregisterCore]
@[simp] theorem rawUnregisterCore_taskEpoch (s : St) (r : RawId) : (rawUnregisterCore s r).taskEpoch = s.taskEpoch := by simp [rawUnregisterCore]
@[simp] theorem rawUnregisterCore_time (s : St) (r : RawId) : (rawUnregisterCore s r).time = s.time := by simp [rawUnregisterCore]
@[simp] theorem rawUnregisterCore_heap (s : St) (r : RawId) : (rawUnregisterCore s r).heap = s.heap := by simp [rawUnregisterCore]
@[simp] theorem rawUnregisterCore_lastAbs (s : St) (r : RawId) : (rawUnregisterCore s r).lastAbs = s.lastAbs := by simp [rawUnregisterCore]
@[simp] theorem rawUnregisterCore_lastAbsCount (s : St) (r : RawId) : (rawUnregisterCore s r).lastAbsCount = s.lastAbsCount := by simp [rawUnregisterCore]
@[simp] theorem rawUnregisterCore_method (s : St) (r : RawId) : (rawUnregisterCore s r).method = s.method := by simp [rawUnregisterCore]
@[simp] theorem rawUnregisterCore_timerfd (s : St) (r : RawId) : (rawUnregisterCore s r).timerfd = s.timerfd := by simp [rawUnregisterCore]
@[simp] theorem rawUnregisterCore_ktimer (s : St) (r : RawId) : (rawUnregisterCore s r).ktimer = s.ktimer := by simp [rawUnregisterCore]
@[simp] theorem rawUnregisterCore_pc (s : St) (r : RawId) : (rawUnregisterCore s r).pc = s.pc := by simp [rawUnregisterCore]
@[simp] theorem makeReady_tasks (s : St) (a : List FdId) (f : FdId) (b : Bands) : ((makeReady s a f b).1).tasks = s.tasks := by frame_tac makeReady
@[simp] theorem makeReady_stack (s : St) (a : List FdId) (f : FdId) (b : Bands) : ((makeReady s a f b).1).stack = s.stack := by frame_tac makeReady
@[simp] theorem makeReady_tobjs (s : St) (a : List FdId) (f : FdId) (b : Bands) : ((makeReady s a f b).1).tobjs = s.tobjs := by frame_tac makeReady
@[simp] theorem makeReady_taskEpoch (s : St) (a : List FdId) (f : FdId) (b : Bands) : ((makeReady s a f b).1).taskEpoch = s.taskEpoch := by frame_tac makeReady
@[simp] theorem makeReady_time (s : St) (a : List FdId) (f : FdId) (b : Bands) : ((makeReady s a f b).1).time = s.time := by frame_tac makeReady
@[simp] theorem makeReady_heap (s : St) (a : List FdId) (f : FdId) (b : Bands) : ((makeReady s a f b).1).heap = s.heap := by frame_tac makeReady
@[simp] theorem makeReady_lastAbs (s : St) (a : List FdId) (f : FdId) (b : Bands) : ((makeReady s a f b).1).lastAbs = s.lastAbs := by frame_tac makeReady
@[simp] theorem makeReady_lastAbsCount (s : St) (a : List FdId) (f : FdId) (b : Bands) : ((makeReady s a f b).1).lastAbsCount = s.lastAbsCount := by frame_tac makeReady
@[simp] theorem makeReady_method (s : St) (a : List FdId) (f : FdId) (b : Bands) : ((makeReady s a f b).1).method = s.method := by frame_tac makeReady
@[simp] theorem makeReady_timerfd (s : St) (a : List FdId) (f : FdId) (b : Bands) : ((makeReady s a f b).1).timerfd = s.timerfd := by frame_tac makeReady
@[simp] theorem makeReady_ktimer (s : St) (a : List FdId) (f : FdId) (b : Bands) : ((makeReady s a f b).1).ktimer = s.ktimer := by frame_tac makeReady
@[simp] theorem makeReady_pc (s : St) (a : List FdId) (f : FdId) (b : Bands) : ((makeReady s a f b).1).pc = s.pc := by frame_tac makeReady
@[simp] theorem activate_tasks (s : St) (a : List FdId) (f : FdId) (ev : KEv) : ((activate s a f ev).1).tasks = s.tasks := by frame_tac activate
@[simp] theorem activate_stack (s : St) (a : List FdId) (f : FdId) (ev : KEv) : ((activate s a f ev).1).stack = s.stack := by frame_tac activate
@[simp] theorem activate_tobjs (s : St) (a : List FdId) (f : FdId) (ev : KEv) : ((activate s a f ev).1).tobjs = s.tobjs := by frame_tac activate
@[simp] theorem activate_taskEpoch (s : St) (a : List FdId) (f : FdId) (ev : KEv) : ((activate s a f ev).1).taskEpoch = s.taskEpoch := by frame_tac activate
@[simp] theorem activate_time (s : St) (a : List FdId) (f : FdId) (ev : KEv) : ((activate s a f ev).1).time = s.time := by frame_tac activate
@[simp] theorem activate_heap (s : St) (a : List FdId) (f : FdId) (ev : KEv) : ((activate s a f ev).1).heap = s.heap := by frame_tac activate
@[simp] theorem activate_lastAbs (s : St) (a : List FdId) (f : FdId) (ev : KEv) : ((activate s a f ev).1).lastAbs = s.lastAbs := by frame_tac activate
@[simp] theorem activate_lastAbsCount (s : St) (a : List FdId) (f : FdId) (ev : KEv) : ((activate s a f ev).1).lastAbsCount = s.lastAbsCount := by frame_tac activate
@[simp] theorem activate_method (s : St) (a : List FdId) (f : FdId) (ev : KEv) : ((activate s a f ev).1).method = s.method := by frame_tac activate
@[simp] theorem activate_timerfd (s : St) (a : List FdId) (f : FdId) (ev : KEv) : ((activate s a f ev).1).timerfd = s.timerfd := by frame_tac activate
@[simp] theorem activate_ktimer (s : St) (a : List FdId) (f : FdId) (ev : KEv) : ((activate s a f ev).1).ktimer = s.ktimer := by frame_tac activate
@[simp] theorem activate_pc (s : St) (a : List FdId) (f : FdId) (ev : KEv) : ((activate s a f ev).1).pc = s.pc := by frame_tac activate
@[simp] theorem flushAll_tasks (s : St) (l : List FdId) : (l.foldl epollFlushOne s).tasks = s.tasks := by induction l generalizing s <;> simp_all
@[simp] theorem flushAll_stack (s : St) (l : List FdId) : (l.foldl epollFlushOne s).stack = s.stack := by induction l generalizing s <;> simp_all
@[simp] theorem flushAll_tobjs (s : St) (l : List FdId) : (l.foldl epollFlushOne s).tobjs = s.tobjs := by induction l generalizing s <;> simp_all
@[simp] theorem flushAll_taskEpoch (s : St) (l : List FdId) : (l.foldl epollFlushOne s).taskEpoch = s.taskEpoch := by induction l generalizing s <;> simp_all
@[simp] theorem flushAll_time (s : St) (l : List FdId) : (l.foldl epollFlushOne s).time = s.time := by induction l generalizing s <;> simp_all
@[simp] theorem flushAll_heap (s : St) (l : List FdId) : (l.foldl epollFlushOne s).heap = s.heap := by induction l generalizing s <;> simp_all
@[simp] theorem flushAll_lastAbs (s : St) (l : List FdId) : (l.foldl epollFlushOne s).lastAbs = s.lastAbs := by induction l generalizing s <;> simp_all
@[simp] theorem flushAll_lastAbsCount (s : St) (l : List FdId) : (l.foldl epollFlushOne s).lastAbsCount = s.lastAbsCount := by induction l generalizing s <;> simp_all
@[simp] theorem flushAll_method (s : St) (l : List FdId) : (l.foldl epollFlushOne s).method = s.method := by induction l generalizing s <;> simp_all
@[simp] theorem flushAll_timerfd (s : St) (l : List FdId) : (l.foldl epollFlushOne s).timerfd = s.timerfd := by induction l generalizing s <;> simp_all
@[simp] theorem flushAll_ktimer (s : St) (l : List FdId) : (l.foldl epollFlushOne s).ktimer = s.ktimer := by induction l generalizing s <;> simp_all
@[simp] theorem flushAll_pc (s : St) (l : List FdId) : (l.foldl epollFlushOne s).pc = s.pc := by induction l generalizing s <;> simp_all
@[simp] theorem timeoutCheck_tasks (s : St) (abs : Option TS) : ((timeoutCheck s abs).1).tasks = s.tasks := by frame_tac timeoutCheck
@[simp] theorem timeoutCheck_stack (s : St) (abs : Option TS) : ((timeoutCheck s abs).1).stack = s.stack := by frame_tac timeoutCheck
@[simp] theorem timeoutCheck_tobjs (s : St) (abs : Option TS) : ((timeoutCheck s abs).1).tobjs = s.tobjs := by frame_tac timeoutCheck
@[simp] theorem timeoutCheck_taskEpoch (s : St) (abs : Option TS) : ((timeoutCheck s abs).1).taskEpoch = s.taskEpoch := by frame_tac timeoutCheck
@[simp] theorem timeoutCheck_time (s : St) (abs : Option TS) : ((timeoutCheck s abs).1).time = s.time := by frame_tac timeoutCheck
@[simp] theorem timeoutCheck_heap (s : St) (abs : Option TS) : ((timeoutCheck s abs).1).heap = s.heap := by frame_tac timeoutCheck
@[simp] theorem timeoutCheck_pc (s : St) (abs : Option TS) : ((timeoutCheck s abs).1).pc = s.pc := by frame_tac timeoutCheck

@[simp] theorem fdUnregisterCore_stack (s : St) (f : FdId) :
    (fdUnregisterCore s f).stack = s.stack.map (eraseActive · f) := by
  frame_tac fdUnregisterCore
@[simp] theorem rawUnregisterCore_stack (s : St) (r : RawId) :
    (rawUnregisterCore s r).stack = s.stack.map (eraseActive · (rawFd r)) := by
  simp [rawUnregisterCore]

/-! ## the frame stack: kinds, the running task batch -/

def fkind : Frame → Nat
  | .timers _ => 0 | .tasks _ => 1 | .poll _ _ => 2 | .fd _ _ => 3 | .events _ => 4

def fbatch : Frame → List TaskId
  | .tasks r => r | _ => []

/-- number of `.tasks` frames -/
def nT : List Frame → Nat
  | [] => 0
  | fr :: l => (if fkind fr = 1 then 1 else 0) + nT l

/-- the tasks of the batch being run by `iv_run_tasks` -/
def batchOf : List Frame → List TaskId
  | [] => []
  | fr :: l => fbatch fr ++ batchOf l

/-- a `.timers` or `.poll` frame never sits above a `.tasks` frame -/
def clean : List Frame → Prop
  | [] => True
  | fr :: l => ((fkind fr = 0 ∨ fkind fr = 2) → nT l = 0) ∧ clean l

@[simp] theorem nT_nil : nT [] = 0 := rfl
@[simp] theorem batchOf_nil : batchOf [] = [] := rfl
@[simp] theorem clean_nil : clean [] := trivial
@[simp] theorem nT_cons (fr l) : nT (fr :: l) = (if fkind fr = 1 then 1 else 0) + nT l := rfl
@[simp] theorem batchOf_cons (fr l) : batchOf (fr :: l) = fbatch fr ++ batchOf l := rfl
@[simp] theorem clean_cons (fr l) : clean (fr :: l) ↔ ((fkind fr = 0 ∨ fkind fr = 2) → nT l = 0) ∧ clean l := Iff.rfl

@[simp] theorem fkind_timers (r) : fkind (.timers r) = 0 := rfl
@[simp] theorem fkind_tasks (r) : fkind (.tasks r) = 1 := rfl
@[simp] theorem fkind_poll (a r) : fkind (.poll a r) = 2 := rfl
@[simp] theorem fkind_fd (a r) : fkind (.fd a r) = 3 := rfl
@[simp] theorem fkind_events (r) : fkind (.events r) = 4 := rfl
@[simp] theorem fbatch_timers (r) : fbatch (.timers r) = [] := rfl
@[simp] theorem fbatch_tasks (r) : fbatch (.tasks r) = r := rfl
@[simp] theorem fbatch_poll (a r) : fbatch (.poll a r) = [] := rfl
@[simp] theorem fbatch_fd (a r) : fbatch (.fd a r) = [] := rfl
@[simp] theorem fbatch_events (r) : fbatch (.events r) = [] := rfl

theorem fbatch_of_kind {fr : Frame} (h : fkind fr ≠ 1) : fbatch fr = [] := by
  cases fr <;> simp_all

theorem nT_map (g : Frame → Frame) (hg : ∀ fr, fkind (g fr) = fkind fr) (l : List Frame) :
    nT (l.map g) = nT l := by
  induction l <;> simp_all

theorem clean_map (g : Frame → Frame) (hg : ∀ fr, fkind (g fr) = fkind fr) (l : List Frame) :
    clean (l.map g) ↔ clean l := by
  induction l <;> simp_all [nT_map g hg]

theorem batchOf_map (g : Frame → Frame) (hg : ∀ fr, fbatch (g fr) = fbatch fr) (l : List Frame) :
    batchOf (l.map g) = batchOf l := by
  induction l <;> simp_all

@[simp] theorem fkind_eraseActive (fr f) : fkind (eraseActive fr f) = fkind fr := by cases fr <;> rfl
@[simp] theorem fbatch_eraseActive (fr f) : fbatch (eraseActive fr f) = fbatch fr := by cases fr <;> rfl
@[simp] theorem fkind_eraseEvent (fr f) : fkind (eraseEvent fr f) = fkind fr := by cases fr <;> rfl
@[simp] theorem fbatch_eraseEvent (fr f) : fbatch (eraseEvent fr f) = fbatch fr := by cases fr <;> rfl
@[simp] theorem fkind_setTimerBatch (fr f) : fkind (setTimerBatch fr f) = fkind fr := by cases fr <;> rfl
@[simp] theorem fbatch_setTimerBatch (fr f) : fbatch (setTimerBatch fr f) = fbatch fr := by cases fr <;> rfl
@[simp] theorem fkind_appendTaskBatch (fr f) : fkind (appendTaskBatch fr f) = fkind fr := by cases fr <;> rfl
@[simp] theorem fkind_eraseTask (fr f) : fkind (eraseTask fr f) = fkind fr := by cases fr <;> rfl

@[simp] theorem nT_eraseActive (l f) : nT (l.map (eraseActive · f)) = nT l := nT_map _ (by simp) l
@[simp] theorem nT_eraseEvent (l f) : nT (l.map (eraseEvent · f)) = nT l := nT_map _ (by simp) l
@[simp] theorem nT_setTimerBatch (l f) : nT (l.map (setTimerBatch · f)) = nT l := nT_map _ (by simp) l
@[simp] theorem nT_appendTaskBatch (l f) : nT (l.map (appendTaskBatch · f)) = nT l := nT_map _ (by simp) l
@[simp] theorem nT_eraseTask (l f) : nT (l.map (eraseTask · f)) = nT l := nT_map _ (by simp) l
@[simp] theorem clean_eraseActive (l f) : clean (l.map (eraseActive · f)) ↔ clean l := clean_map _ (by simp) l
@[simp] theorem clean_eraseEvent (l f) : clean (l.map (eraseEvent · f)) ↔ clean l := clean_map _ (by simp) l
@[simp] theorem clean_setTimerBatch (l f) : clean (l.map (setTimerBatch · f)) ↔ clean l := clean_map _ (by simp) l
@[simp] theorem clean_appendTaskBatch (l f) : clean (l.map (appendTaskBatch · f)) ↔ clean l := clean_map _ (by simp) l
@[simp] theorem clean_eraseTask (l f) : clean (l.map (eraseTask · f)) ↔ clean l := clean_map _ (by simp) l
@[simp] theorem batchOf_eraseActive (l f) : batchOf (l.map (eraseActive · f)) = batchOf l := batchOf_map _ (by simp) l
@[simp] theorem batchOf_eraseEvent (l f) : batchOf (l.map (eraseEvent · f)) = batchOf l := batchOf_map _ (by simp) l
@[simp] theorem batchOf_setTimerBatch (l f) : batchOf (l.map (setTimerBatch · f)) = batchOf l := batchOf_map _ (by simp) l

theorem batchOf_of_nT {l : List Frame} (h : nT l = 0) : batchOf l = [] := by
  induction l with
  | nil => rfl
  | cons fr l ih =>
    simp only [nT_cons] at h
    have h1 : fkind fr ≠ 1 := by intro h'; simp [h'] at h
    have h2 : nT l = 0 := by omega
    simp [fbatch_of_kind h1, ih h2]

theorem fbatch_appendTaskBatch (fr : Frame) (k : TaskId) :
    fbatch (appendTaskBatch fr k) = if fkind fr = 1 then fbatch fr ++ [k] else [] := by
  cases fr <;> simp [appendTaskBatch]

@[simp] theorem fbatch_eraseTask (fr : Frame) (k : TaskId) :
    fbatch (eraseTask fr k) = (fbatch fr).erase k := by
  cases fr <;> simp [eraseTask]

theorem batchOf_appendTask {l : List Frame} (k : TaskId) (h : nT l = 1) :
    batchOf (l.map (appendTaskBatch · k)) = batchOf l ++ [k] := by
  induction l with
  | nil => simp at h
  | cons fr l ih =>
    simp only [nT_cons] at h
    simp only [List.map_cons, batchOf_cons, fbatch_appendTaskBatch]
    by_cases hk : fkind fr = 1
    · have h2 : nT l = 0 := by simpa [hk] using h
      have h3 : nT (l.map (appendTaskBatch · k)) = 0 := by simpa using h2
      simp [hk, batchOf_of_nT h2, batchOf_of_nT h3]
    · have h2 : nT l = 1 := by simpa [hk] using h
      simp [hk, ih h2, fbatch_of_kind hk]

theorem batchOf_eraseTask {l : List Frame} (k : TaskId) (h : (batchOf l).Nodup) :
    batchOf (l.map (eraseTask · k)) = (batchOf l).erase k := by
  induction l with
  | nil => rfl
  | cons fr l ih =>
    simp only [batchOf_cons, List.nodup_append] at h
    obtain ⟨h1, h2, h3⟩ := h
    simp only [List.map_cons, batchOf_cons, fbatch_eraseTask, ih h2, List.erase_append]
    split
    · next hk =>
      have : k ∉ batchOf l := fun hk' => h3 k hk k hk' rfl
      rw [List.erase_of_not_mem this]
    · next hk => rw [List.erase_of_not_mem hk]

theorem any_tasks_iff (l : List Frame) :
    (l.any fun fr => match fr with | .tasks _ => true | _ => false) = true ↔ nT l ≠ 0 := by
  induction l with
  | nil => simp
  | cons fr l ih => cases fr <;> simp_all

theorem inRunTasks_iff (s : St) : inRunTasks s = true ↔ nT s.stack ≠ 0 := any_tasks_iff _

theorem any_batch_iff (l : List Frame) (k : TaskId) :
    (l.any fun fr => match fr with | .tasks rest => rest.contains k | _ => false) = true ↔ k ∈ batchOf l := by
  induction l with
  | nil => simp
  | cons fr l ih => cases fr <;> simp_all

theorem taskOnList_iff (s : St) (k : TaskId) :
    taskOnList s k = true ↔ k ∈ s.tasks ∨ k ∈ batchOf s.stack := by
  have h := any_batch_iff s.stack k
  unfold taskOnList
  rw [Bool.or_eq_true]
  exact or_congr (by simp) h

/-! ## group A: shape of the frame stack -/

/-- control points at which no `.tasks` frame is on the stack -/
def P0 : Pc → Bool
  | .run (.mainTop _) | .run .collect | .run .startTasks | .run .exitCheck | .run .prepWait
  | .run (.flush _ _) | .run (.wait _ _) => true
  | .needTime .forTimers | .needTime (.forWait _ _) | .waiting _ _ => true
  | _ => false

def InvA (s : St) : Prop := nT s.stack ≤ 1 ∧ clean s.stack ∧ (P0 s.pc = true → nT s.stack = 0)

theorem invA_init (m n a b) : InvA (St.init m n a b) := by simp [InvA, St.init]

theorem invA_internal (s : St) (b : Block) (h : InvA s) (hpc : s.pc = .run b) : InvA (internal s b).1 := by
  obtain ⟨h1, h2, h3⟩ := h
  cases b <;> simp only [internal, goto, fatal, setTop] <;> (repeat' split) <;>
    simp_all [InvA, P0] <;> omega

/-! ## the fold over the reported wait items -/

theorem foldl_inv {α β : Type} (P : α → Prop) (f : α → β → α) (h : ∀ a b, P a → P (f a b))
    (l : List β) (a : α) (ha : P a) : P (l.foldl f a) := by
  induction l generalizing a with
  | nil => exact ha
  | cons b l ih => exact ih _ (h a b ha)

/-- what the item fold of `afterWait` preserves -/
def FoldP (s0 : St) (acc : St × List FdId × Bool × Bool) : Prop :=
  acc.1.tasks = s0.tasks ∧ acc.1.stack = s0.stack ∧ acc.1.tobjs = s0.tobjs ∧ acc.1.taskEpoch = s0.taskEpoch ∧
  acc.1.time = s0.time ∧ acc.1.heap = s0.heap ∧ acc.1.lastAbs = s0.lastAbs ∧ acc.1.lastAbsCount = s0.lastAbsCount ∧
  acc.1.method = s0.method ∧ acc.1.timerfd = s0.timerfd ∧ acc.1.pc = s0.pc ∧
  (acc.2.2.1 = false → acc.1.ktimer = s0.ktimer)

/-- the state after the wait returned a list of events -/
def afterEvents (s1 : St) (active : List FdId) (rt runEv km : Bool) : St × List Out :=
  let s2 := if km && rt then { s1 with lastAbsCount := 0 } else s1
  let s3 := { s2 with stack := .poll active rt :: s2.stack }
  if runEv then goto s3 .runEvents else goto s3 .dispatchNext

theorem afterWait_events (s : St) (abs : Option TS) (km : Bool) (l : List WItem) :
    ∃ s1 active rt runEv, FoldP s (s1, active, rt, runEv) ∧
      afterWait s abs km (.events l) = afterEvents s1 active rt runEv km := by
  have H : ∀ (F : St × List FdId × Bool × Bool → WItem → St × List FdId × Bool × Bool) init,
      (∀ acc it, FoldP s acc → FoldP s (F acc it)) → FoldP s init →
      ∃ s1 active rt runEv, FoldP s (s1, active, rt, runEv) ∧
        (match List.foldl F init l with
          | (s1, active, rt, runEv) => afterEvents s1 active rt runEv km) = afterEvents s1 active rt runEv km := by
    intro F init hF hinit
    have := foldl_inv (FoldP s) F hF l init hinit
    generalize List.foldl F init l = r at *
    obtain ⟨s1, a, rt, re⟩ := r
    exact ⟨s1, a, rt, re, this, rfl⟩
  refine H _ _ ?_ ?_
  · rintro ⟨s1, a, rt, re⟩ it h
    clear H
    cases it <;> dsimp only <;> simp_all [FoldP]
  · simp [FoldP]

/-! ## inversion of `input` -/

inductive InStep (s : St) : Input → St × List Out → Prop
  | api (a : Api) : s.pc = .user → InStep s (.api a) (api s a)
  | handlerEnd (b : Block) : s.pc = .user → (b = .popTimer ∨ b = .popTask ∨ b = .popEvent ∨ b = .fdStage) →
      InStep s .handlerEnd (goto s b)
  | free (k id : Nat) : s.pc = .user → InStep s (.free k id) (freeObj s k id, [])
  | init (k id : Nat) : s.pc = .user → InStep s (.init k id) (initObj s k id, [])
  | time (t : TS) (k : TimeK) : s.pc = .needTime k → InStep s (.time t) (afterTime s t k)
  | wret (abs : Option TS) (km : Bool) (r : WRes) : s.pc = .waiting abs km → InStep s (.wret r) (afterWait s abs km r)
  | xpostNop (abs : Option TS) (km : Bool) (e : EvId) : s.pc = .waiting abs km → InStep s (.xpost e) (s, [])
  | xpost (abs : Option TS) (km : Bool) (e : EvId) (ka : Bool) : s.pc = .waiting abs km →
      InStep s (.xpost e) ({ s with pending := s.pending ++ [e], kickArmed := ka }, [])
  | rawGoto (r : RawId) (okk : Bool) (b : Block) : s.pc = .needRawRead r → (b = .fdStage ∨ b = .runEvents) →
      InStep s (.rawRead okk) (goto s b)
  | rawFault (r : RawId) (okk : Bool) (msg : String) : s.pc = .needRawRead r →
      InStep s (.rawRead okk) ({ s with pc := .dead }, [Out.fault msg])
  | rawCb (r : RawId) (okk : Bool) : s.pc = .needRawRead r →
      InStep s (.rawRead okk) ({ s with pc := .user }, [Out.cb (.raw r)])

theorem input_inv {s : St} {i : Input} {r : St × List Out} (hi : input s i = some r) : InStep s i r := by
  cases i <;> cases hpcs : s.pc <;> simp only [input, hpcs] at hi <;> try (simp at hi; done)
  · cases hi; exact .api _ hpcs
  · split at hi <;> first | (simp at hi; done) | (cases hi; exact .handlerEnd _ hpcs (by simp))
  · cases hi; exact .time _ _ hpcs
  · cases hi; exact .wret _ _ _ hpcs
  · split at hi
    · cases hi; exact .rawGoto _ _ _ hpcs (by simp)
    · split at hi
      · cases hi; exact .rawGoto _ _ _ hpcs (by simp)
      · split at hi
        · cases hi; exact .rawFault _ _ _ hpcs
        · cases hi; exact .rawCb _ _ hpcs
  · split at hi
    · cases hi; exact .xpostNop _ _ _ hpcs
    · cases hi
      split
      · have h := InStep.xpost (s := s) _ _ ‹EvId› true hpcs
        simp only [hpcs] at h; exact h
      · have h := InStep.xpost (s := s) _ _ ‹EvId› s.kickArmed hpcs
        simp only [hpcs] at h; exact h
  · cases hi; exact .free _ _ hpcs
  · cases hi; exact .init _ _ hpcs

theorem invA_api (s : St) (a : Api) (h : InvA s) (hpc : s.pc = .user) : InvA (api s a).1 := by
  obtain ⟨h1, h2, h3⟩ := h
  cases a <;> simp only [api, ok, fatal, taskRegisterCore, taskUnregisterCore] <;> (repeat' split) <;>
    simp_all [InvA, P0, -List.map_map]

theorem invA_afterWait (s : St) (abs : Option TS) (km : Bool) (r : WRes) (h : InvA s)
    (hpc : s.pc = .waiting abs km) : InvA (afterWait s abs km r).1 := by
  obtain ⟨h1, h2, h3⟩ := h
  cases r with
  | events l =>
    obtain ⟨s1, active, rt, runEv, hf, he⟩ := afterWait_events s abs km l
    rw [he]
    simp only [FoldP] at hf
    simp only [afterEvents, goto]
    (repeat' split) <;> simp_all [InvA, P0]
  | _ =>
    simp only [afterWait, goto, fatal] <;> (repeat' split) <;> simp_all [InvA, P0]

theorem invA_input (s : St) (i : Input) (r : St × List Out) (h : InvA s)
    (hi : input s i = some r) : InvA r.1 := by
  cases input_inv hi with
  | api a hpc => exact invA_api s a h hpc
  | wret abs km r hpc => exact invA_afterWait s abs km r h hpc
  | handlerEnd b hpc hb =>
    obtain ⟨h1, h2, h3⟩ := h
    rcases hb with rfl | rfl | rfl | rfl <;> simp_all [InvA, P0, goto]
  | free k id hpc =>
    obtain ⟨h1, h2, h3⟩ := h
    unfold freeObj; (repeat' split) <;> simp_all [InvA, P0]
  | init k id hpc =>
    obtain ⟨h1, h2, h3⟩ := h
    unfold initObj; (repeat' split) <;> simp_all [InvA, P0]
  | time t k hpc =>
    obtain ⟨h1, h2, h3⟩ := h
    cases k <;> simp_all [InvA, P0, afterTime, goto]
  | xpostNop abs km e hpc => exact h
  | xpost abs km e ka hpc => exact h
  | rawGoto r okk b hpc hb =>
    obtain ⟨h1, h2, h3⟩ := h
    rcases hb with rfl | rfl <;> simp_all [InvA, P0, goto]
  | rawFault r okk msg hpc =>
    obtain ⟨h1, h2, h3⟩ := h
    simp_all [InvA, P0]
  | rawCb r okk hpc =>
    obtain ⟨h1, h2, h3⟩ := h
    simp_all [InvA, P0]

/-! ## timer expiries stay non-negative -/

def nn (t : TS) : Prop := 0 ≤ t.sec ∧ 0 ≤ t.nsec

def expNN (h : Store) : Prop := ∀ t, nn (expOf h t)

theorem expNN_congr {h h' : Store} (e : h'.exp = h.exp) (hn : expNN h) : expNN h' := by
  intro t; have := hn t; unfold expOf at *; rw [e]; exact this

theorem pullUp_exp (s : Store) (i : Nat) : ∀ s', pullUp s i = some s' → s'.exp = s.exp := by
  fun_induction pullUp s i with
  | case1 s i h => intro s' h'; cases h'; rfl
  | case2 s i h parent p c hp hc hgt => intro s' h'; cases h'; rfl
  | case3 s i h parent p c hp hc hgt ih => intro s' h'; rw [ih s' h']; rfl
  | case4 => intro s' h'; cases h'

theorem pushDown_exp (s : Store) (i : Nat) : ∀ s', pushDown s i = some s' → s'.exp = s.exp := by
  fun_induction pushDown s i <;> intro s' h' <;> first | (cases h'; done) | (cases h'; rfl) | skip
  next ih => rw [ih s' h']; rfl

theorem removeAt_exp (s : Store) (t : Tid) (i : Nat) (s' : Store) (h : removeAt s t i = .ok s') :
    s'.exp = s.exp := by
  unfold removeAt at h
  (repeat' split at h) <;> try (cases h; done)
  dsimp only at h
  (repeat' split at h) <;> try (cases h; done)
  all_goals first
    | (cases h; rfl)
    | (cases h
       rename_i _ S1 h1 _ h2
       have e2 := pushDown_exp _ _ _ h2
       have e1 := pullUp_exp _ _ _ h1
       exact e2.trans e1)

theorem unregister_exp (s : Store) (b : List Tid) (t : Tid) (s' : Store) (b' : List Tid)
    (h : unregister s b t = (.ok s', b')) : s'.exp = s.exp := by
  unfold unregister at h
  dsimp only at h
  (repeat' split at h) <;> try (cases h; done)
  · cases h; rfl
  · next h1 => cases h; exact (removeAt_exp _ _ _ _ h1 :)
  · next h1 =>
    simp only [Prod.mk.injEq] at h
    exact absurd h.1 (h1 _)

theorem collect_exp (now : TS) (fuel : Nat) : ∀ (s : Store) (acc : List Tid) (s' : Store) (b : List Tid),
    collect s now fuel acc = (.ok s', b) → s'.exp = s.exp := by
  induction fuel with
  | zero => intro s acc s' b h; cases h; rfl
  | succ n ih =>
    intro s acc s' b h
    unfold collect at h
    (repeat' split at h) <;> try (cases h; done)
    · cases h; rfl
    · cases h; rfl
    · next h1 => rw [ih _ _ _ _ h]; exact (removeAt_exp _ _ _ _ h1 :)
    · next h1 => 
      simp only [Prod.mk.injEq] at h
      exact absurd h.1 (h1 _)

theorem register_expNN (s : Store) (t : Tid) (e : TS) (s' : Store) (hn : expNN s) (he : nn e)
    (h : register s t e = .ok s') : expNN s' := by
  have key : s'.exp = s.exp.setIfInBounds t e := by
    unfold register at h
    dsimp only at h
    (repeat' split at h) <;> try (cases h; done)
    cases h
    next h1 => 
      rw [pullUp_exp _ _ _ h1]
      unfold grow; split <;> rfl
  intro u
  have := hn u
  unfold expOf at *
  rw [key, Array.getD_eq_getD_getElem?, Array.getElem?_setIfInBounds]
  rw [Array.getD_eq_getD_getElem?] at this
  split
  · split <;> simp_all [nn]
  · exact this

theorem init_expNN (n : Nat) : expNN (Store.init n) := by
  intro t
  unfold expOf Store.init
  rw [Array.getD_eq_getD_getElem?]
  simp only [Array.getElem?_replicate]
  split <;> simp [nn]

/-! ## group C: clock, timer expiries, and the kernel-timer handshake of `iv_fd_timeout_check` -/

theorem tsCmp_zero_nn {b : TS} (hb : nn b) (h : tsCmp (some ⟨0, 0⟩) b ≥ 0) : b.sec = 0 ∧ b.nsec = 0 := by
  obtain ⟨h1, h2⟩ := hb
  unfold tsCmp at h
  simp only at h
  (repeat' split at h) <;> omega

theorem tsCmp_eq_zero {a b : TS} (h : tsCmp (some a) b = 0) : a.sec = b.sec ∧ a.nsec = b.nsec := by
  unfold tsCmp at h
  simp only at h
  (repeat' split at h) <;> omega

theorem tsCmp_none (b : TS) : tsCmp none b = 1 := rfl

/-- the loop is about to enter / is inside / re-enters the kernel wait with these arguments -/
def pcWait : Pc → Option (Option TS × Bool)
  | .run (.flush a k) | .run (.wait a k) | .needTime (.forWait a k) | .waiting a k => some (a, k)
  | _ => none

def KT (s : St) : Prop :=
  s.method = .epollTimerfd → s.lastAbsCount = 5 →
    s.timerfd = true ∧ (s.lastAbs.sec = 0 → s.lastAbs.nsec = 0 → s.ktimer = some ⟨0, 1⟩)

structure InvC (s : St) : Prop where
  time_nn : nn s.time
  heap_nn : expNN s.heap
  last_nn : nn s.lastAbs
  kt : KT s
  wt : ∀ abs km, pcWait s.pc = some (abs, km) →
        (km = false → s.method = .epollTimerfd → s.lastAbsCount ≠ 5) ∧
        (s.tasks ≠ [] → (abs = some ⟨0, 0⟩ ∧ km = false) ∨
                         (abs = none ∧ s.timerfd = true ∧ s.ktimer = some ⟨0, 1⟩))

structure TCSpec (abs : Option TS) (s' : St) (r : Bool) : Prop where
  last_nn : nn s'.lastAbs
  kt : KT s'
  rfalse : r = false → s'.method = .epollTimerfd → s'.lastAbsCount ≠ 5
  rtrue : r = true → abs = some ⟨0, 0⟩ → s'.timerfd = true ∧ s'.ktimer = some ⟨0, 1⟩

theorem timeoutCheck_spec (s : St) (abs : Option TS) (hm : s.method = .epollTimerfd) (hl : nn s.lastAbs)
    (hkt : KT s) (habs : ∀ a, abs = some a → nn a) :
    TCSpec abs (timeoutCheck s abs).1 (timeoutCheck s abs).2 := by
  unfold timeoutCheck
  dsimp only
  split
  · next h =>
    simp only [Bool.and_eq_true, beq_iff_eq, decide_eq_true_eq] at h
    refine ⟨hl, hkt, by simp, ?_⟩
    rintro - rfl
    have := tsCmp_zero_nn hl h.2
    have := hkt hm h.1
    simp_all
  · next h =>
    simp only [Bool.and_eq_true, beq_iff_eq, decide_eq_true_eq, not_and] at h
    split
    · next hc =>
      simp only [beq_iff_eq] at hc
      cases abs with
      | none => simp [tsCmp_none] at hc
      | some a =>
        obtain ⟨e1, e2⟩ := tsCmp_eq_zero hc
        have hne : s.lastAbsCount ≠ 5 := fun h5 => by have := h h5; omega
        have ha := habs a rfl
        simp only [beq_iff_eq, hne, if_false]
        (repeat' split) <;> (refine ⟨?_, ?_, ?_, ?_⟩ <;> simp_all [KT, nn])
        rintro rfl
        simp_all
    · next hc =>
      have ha : ∀ a, abs = some a → nn a := habs
      cases abs <;> dsimp only <;> (refine ⟨?_, ?_, ?_, ?_⟩ <;> (repeat' split) <;> simp_all [KT, nn])

theorem invC_init (m n a b) : InvC (St.init m n a b) := by
  refine ⟨?_, ?_, ?_, ?_, ?_⟩ <;> simp [St.init, nn, KT, pcWait, init_expNN]

theorem soonest_nn {h : Store} (hn : expNN h) (a : TS) (ha : soonest h = some a) : nn a := by
  unfold soonest at ha
  (repeat' split at ha) <;> try (cases ha; done)
  cases ha; exact hn _

theorem invC_internal (s : St) (b : Block) (h : InvC s) (hpc : s.pc = .run b) : InvC (internal s b).1 := by
  obtain ⟨h1, h2, h3, h4, h5⟩ := h
  cases b with
  | collect =>
    simp only [internal, goto, fatal]
    split
    · next hh bb hc =>
      have := expNN_congr (collect_exp _ _ _ _ _ _ hc) h2
      refine ⟨?_, ?_, ?_, ?_, ?_⟩ <;> simp_all [pcWait, KT]
    all_goals (refine ⟨?_, ?_, ?_, ?_, ?_⟩ <;> simp_all [pcWait, KT])
  | popTimer =>
    simp only [internal, goto]
    (repeat' split) <;> (refine ⟨?_, ?_, ?_, ?_, ?_⟩ <;> simp_all [pcWait, KT])
    exact expNN_congr rfl h2
  | prepWait =>
    simp only [internal, goto]
    have hab : (∀ a, (if (!s.tasks.isEmpty) = true then some (⟨0, 0⟩ : TS) else soonest s.heap) = some a → nn a) ∧
        (s.tasks ≠ [] → (if (!s.tasks.isEmpty) = true then some (⟨0, 0⟩ : TS) else soonest s.heap) = some ⟨0, 0⟩) := by
      constructor
      · intro a ha
        split at ha
        · cases ha; simp [nn]
        · exact soonest_nn h2 a ha
      · intro ht; simp [ht]
    generalize (if (!s.tasks.isEmpty) = true then some (⟨0, 0⟩ : TS) else soonest s.heap) = abs at hab
    obtain ⟨hab1, hab2⟩ := hab
    split
    · next hm =>
      simp only [beq_iff_eq] at hm
      have sp := timeoutCheck_spec s abs hm h3 h4 hab1
      obtain ⟨sp1, sp2, sp3, sp4⟩ := sp
      split
      · refine ⟨?_, ?_, ?_, sp2, ?_⟩ <;> simp_all [pcWait]
      · refine ⟨?_, ?_, ?_, sp2, ?_⟩ <;> simp_all [pcWait]
    · next hm =>
      simp only [beq_iff_eq] at hm
      refine ⟨?_, ?_, ?_, ?_, ?_⟩ <;> simp_all [pcWait, KT]
  | _ =>
    simp only [internal, goto, setTop] <;> (repeat' split) <;>
      (refine ⟨?_, ?_, ?_, ?_, ?_⟩ <;> simp_all [pcWait, KT])

/-- `InvC` only reads the clock, the heap expiries, the `iv_fd_timeout_check` state and (inside the wait
protocol) the task list -/
theorem InvC.congr {s s' : St} (h : InvC s) (e1 : s'.time = s.time) (e2 : s'.heap = s.heap)
    (e3 : s'.lastAbs = s.lastAbs) (e4 : s'.lastAbsCount = s.lastAbsCount) (e5 : s'.method = s.method)
    (e6 : s'.timerfd = s.timerfd) (e7 : s'.ktimer = s.ktimer) (e8 : pcWait s'.pc = none) : InvC s' := by
  obtain ⟨h1, h2, h3, h4, h5⟩ := h
  refine ⟨?_, ?_, ?_, ?_, ?_⟩
  · rw [e1]; exact h1
  · rw [e2]; exact h2
  · rw [e3]; exact h3
  · unfold KT; rw [e3, e4, e5, e6, e7]; exact h4
  · intro abs km hw; rw [e8] at hw; cases hw

theorem invC_api (s : St) (a : Api) (h : InvC s) (hpc : s.pc = .user) (henv : apiOk s a = true) :
    InvC (api s a).1 := by
  cases a with
  | timerRegister t e =>
    obtain ⟨h1, h2, h3, h4, h5⟩ := h
    simp only [api, ok, fatal]
    simp only [apiOk, Bool.and_eq_true, decide_eq_true_eq] at henv
    split
    · next hh hr =>
      have := register_expNN _ _ _ _ h2 ⟨henv.1.1.2, henv.1.2⟩ hr
      refine ⟨?_, ?_, ?_, ?_, ?_⟩ <;> simp_all [pcWait, KT]
    all_goals (refine ⟨?_, ?_, ?_, ?_, ?_⟩ <;> simp_all [pcWait, KT])
  | timerUnregister t =>
    obtain ⟨h1, h2, h3, h4, h5⟩ := h
    simp only [api, ok, fatal]
    split
    · next hh bb hr =>
      have := expNN_congr (unregister_exp _ _ _ _ _ hr) h2
      refine ⟨?_, ?_, ?_, ?_, ?_⟩ <;> simp_all [pcWait, KT]
    all_goals (refine ⟨?_, ?_, ?_, ?_, ?_⟩ <;> simp_all [pcWait, KT])
  | _ =>
    simp only [api, ok, fatal, taskRegisterCore, taskUnregisterCore] <;> (repeat' split) <;>
      (refine h.congr ?_ ?_ ?_ ?_ ?_ ?_ ?_ ?_ <;> simp [pcWait, hpc])

theorem invC_afterWait (s : St) (abs : Option TS) (km : Bool) (r : WRes) (h : InvC s)
    (hpc : s.pc = .waiting abs km) : InvC (afterWait s abs km r).1 := by
  obtain ⟨h1, h2, h3, h4, h5⟩ := h
  have h5' := h5 abs km (by simp [hpc, pcWait])
  cases r with
  | events l =>
    obtain ⟨s1, active, rt, runEv, hf, he⟩ := afterWait_events s abs km l
    rw [he]
    simp only [FoldP] at hf
    simp only [afterEvents, goto]
    (repeat' split) <;> (refine ⟨?_, ?_, ?_, ?_, ?_⟩ <;> simp_all [pcWait, KT])
    all_goals (intro hm hc; cases km <;> simp_all)
  | _ =>
    simp only [afterWait, goto, fatal] <;> (repeat' split) <;>
      (refine ⟨?_, ?_, ?_, ?_, ?_⟩ <;> simp_all [pcWait, KT])

theorem invC_input (s : St) (i : Input) (r : St × List Out) (h : InvC s) (henv : envOk s i = true)
    (hi : input s i = some r) : InvC r.1 := by
  cases input_inv hi with
  | api a hpc =>
    simp only [envOk, Bool.and_eq_true] at henv
    exact invC_api s a h hpc henv.1
  | wret abs km r hpc => exact invC_afterWait s abs km r h hpc
  | handlerEnd b hpc hb =>
    obtain ⟨h1, h2, h3, h4, h5⟩ := h
    rcases hb with rfl | rfl | rfl | rfl <;> (refine ⟨?_, ?_, ?_, ?_, ?_⟩ <;> simp_all [pcWait, KT, goto])
  | free k id hpc =>
    obtain ⟨h1, h2, h3, h4, h5⟩ := h
    unfold freeObj; (repeat' split) <;> (refine ⟨?_, ?_, ?_, ?_, ?_⟩ <;> simp_all [pcWait, KT])
  | init k id hpc =>
    obtain ⟨h1, h2, h3, h4, h5⟩ := h
    unfold initObj; (repeat' split) <;> (refine ⟨?_, ?_, ?_, ?_, ?_⟩ <;> simp_all [pcWait, KT])
  | time t k hpc =>
    obtain ⟨h1, h2, h3, h4, h5⟩ := h
    simp only [envOk, Bool.and_eq_true, decide_eq_true_eq] at henv
    have : nn t := ⟨henv.1.1.1, henv.1.1.2⟩
    cases k <;> (refine ⟨?_, ?_, ?_, ?_, ?_⟩ <;> simp_all [pcWait, KT, afterTime, goto])
  | xpostNop abs km e hpc => exact h
  | xpost abs km e ka hpc =>
    obtain ⟨h1, h2, h3, h4, h5⟩ := h
    exact ⟨h1, h2, h3, h4, h5⟩
  | rawGoto r okk b hpc hb =>
    obtain ⟨h1, h2, h3, h4, h5⟩ := h
    rcases hb with rfl | rfl <;> (refine ⟨?_, ?_, ?_, ?_, ?_⟩ <;> simp_all [pcWait, KT, goto])
  | rawFault r okk msg hpc =>
    obtain ⟨h1, h2, h3, h4, h5⟩ := h
    refine ⟨?_, ?_, ?_, ?_, ?_⟩ <;> simp_all [pcWait, KT]
  | rawCb r okk hpc =>
    obtain ⟨h1, h2, h3, h4, h5⟩ := h
    refine ⟨?_, ?_, ?_, ?_, ?_⟩ <;> simp_all [pcWait, KT]

/-! ## group B: the monitor's bookkeeping against the machine's task lists -/

open Ivy.Mon.C06 (M)

/-- control points between the end of `iv_run_tasks` and the entry of the kernel wait -/
def Pw : Pc → Bool
  | .run .exitCheck | .run .prepWait | .run (.flush _ _) | .run (.wait _ _) | .needTime (.forWait _ _) => true
  | _ => false

structure InvB (μ : M) (s : St) : Prop where
  alive : μ.dead = false
  nodup : (s.tasks ++ batchOf s.stack).Nodup
  reg_nodup : μ.reg.Nodup
  reg_mem : ∀ k, k ∈ μ.reg ↔ (1 ≤ k ∧ (k ∈ s.tasks ∨ k ∈ batchOf s.stack))
  pend : μ.pendingReg = none
  ran_epoch : ∀ k ∈ μ.ranSinceWait, (s.tobjs k).epoch = s.taskEpoch
  ran_batch : ∀ k ∈ μ.ranSinceWait, k ∉ batchOf s.stack
  ran_phase : μ.ranSinceWait ≠ [] → nT s.stack = 1 ∨ Pw s.pc = true

/-- steps that do not touch what the monitor tracks -/
structure QB (s s' : St) : Prop where
  tasks : s'.tasks = s.tasks
  epoch : ∀ k, (s'.tobjs k).epoch = (s.tobjs k).epoch ∨ (s'.tobjs k).epoch = s'.taskEpoch
  taskEpoch : s'.taskEpoch = s.taskEpoch
  batch : batchOf s'.stack = batchOf s.stack
  nT : nT s'.stack = nT s.stack
  pw : Pw s.pc = false ∨ Pw s'.pc = true

theorem InvB.quiet {μ : M} {s s' : St} (h : InvB μ s) (q : QB s s') : InvB μ s' := by
  obtain ⟨h1, h2, h3, h4, h5, h6, h7, h8⟩ := h
  obtain ⟨q1, q2, q3, q4, q5, q6⟩ := q
  refine ⟨h1, ?_, h3, ?_, h5, ?_, ?_, ?_⟩
  · rw [q1, q4]; exact h2
  · rw [q1, q4]; exact h4
  · intro k hk
    rcases q2 k with e | e
    · rw [e, q3]; exact h6 k hk
    · exact e
  · rw [q4]; exact h7
  · intro hr
    rw [q5]
    rcases h8 hr with e | e
    · exact Or.inl e
    · rcases q6 with e' | e'
      · simp [e] at e'
      · exact Or.inr e'

def harmless : Out → Bool
  | .ret _ | .fatal _ | .fault _ => true
  | .cb (.task _) => false
  | .cb _ => true
  | _ => false

theorem fold_dead (μ : M) (hd : μ.dead = true) (evs : List Ev) : evs.foldlM Ivy.Mon.C06.step μ = .ok μ := by
  induction evs with
  | nil => rfl
  | cons e evs ih =>
    rw [List.foldlM_cons]
    have : Ivy.Mon.C06.step μ e = .ok μ := by simp [Ivy.Mon.C06.step, hd]
    rw [this]; exact ih

theorem step_harmless (μ : M) (o : Out) (hd : μ.dead = false) (hp : μ.pendingReg = none) (hh : harmless o = true) :
    ∃ μ', Ivy.Mon.C06.step μ (.out o) = .ok μ' ∧ (μ'.dead = true ∨ μ' = μ) := by
  cases o with
  | cb c => cases c <;> simp_all [Ivy.Mon.C06.step, harmless] <;> (cases μ; simp_all)
  | ret v => simp_all [Ivy.Mon.C06.step]
  | fatal m => simp_all [Ivy.Mon.C06.step]
  | fault m => simp_all [Ivy.Mon.C06.step]
  | _ => simp [harmless] at hh

theorem fold_harmless (μ : M) (outs : List Out) (hd : μ.dead = false) (hp : μ.pendingReg = none)
    (hh : ∀ o ∈ outs, harmless o = true) :
    ∃ μ', (outs.map Ev.out).foldlM Ivy.Mon.C06.step μ = .ok μ' ∧ (μ'.dead = true ∨ μ' = μ) := by
  induction outs with
  | nil => exact ⟨μ, rfl, Or.inr rfl⟩
  | cons o outs ih =>
    obtain ⟨μ1, e1, h1⟩ := step_harmless μ o hd hp (hh o (by simp))
    rw [List.map_cons, List.foldlM_cons, e1]
    rcases h1 with h1 | rfl
    · exact ⟨μ1, fold_dead μ1 h1 _, Or.inl h1⟩
    · exact ih (fun o ho => hh o (by simp [ho]))

theorem step_inp_other (μ : M) (i : Input) (hd : μ.dead = false) (hp : μ.pendingReg = none)
    (h1 : ∀ k, i ≠ .api (.taskRegister k)) (h2 : ∀ k, i ≠ .api (.taskUnregister k)) :
    Ivy.Mon.C06.step μ (.inp i) = .ok μ := by
  cases i with
  | api a => cases a <;> simp_all [Ivy.Mon.C06.step] <;> (cases μ; simp_all)
  | _ => simp_all [Ivy.Mon.C06.step] <;> (cases μ; simp_all)

/-- a quiet step with harmless outputs keeps the relation -/
theorem quiet_outs {μ : M} {s s' : St} {outs : List Out} (h : InvB μ s) (q : QB s s')
    (hh : ∀ o ∈ outs, harmless o = true) :
    ∃ μ', (outs.map Ev.out).foldlM Ivy.Mon.C06.step μ = .ok μ' ∧ (μ'.dead = true ∨ InvB μ' s') := by
  obtain ⟨μ', e, hμ⟩ := fold_harmless μ outs h.alive h.pend hh
  refine ⟨μ', e, ?_⟩
  rcases hμ with hμ | rfl
  · exact Or.inl hμ
  · exact Or.inr (h.quiet q)

def quietBlock : Block → Bool
  | .startTasks | .popTask | .exitCheck | .wait _ _ => false
  | _ => true

theorem qb_internal (s : St) (b : Block) (hb : quietBlock b = true) (hpc : s.pc = .run b) :
    QB s (internal s b).1 ∧ ∀ o ∈ (internal s b).2, harmless o = true := by
  cases b <;> simp only [quietBlock] at hb <;> try (exact absurd hb (by decide))
  all_goals
    simp only [internal, goto, fatal, setTop] <;> (repeat' split) <;>
      (refine ⟨⟨?_, ?_, ?_, ?_, ?_, ?_⟩, ?_⟩ <;> simp [Pw, harmless, *])

theorem stepB_startTasks (μ : M) (s : St) (hA : InvA s) (hB : InvB μ s) (hpc : s.pc = .run .startTasks) :
    InvB μ (internal s .startTasks).1 := by
  obtain ⟨h1, h2, h3, h4, h5, h6, h7, h8⟩ := hB
  have hn : nT s.stack = 0 := hA.2.2 (by simp [hpc, P0])
  have hran : μ.ranSinceWait = [] := by
    apply Classical.byContradiction
    intro hne
    rcases h8 hne with e | e
    · omega
    · simp [hpc, Pw] at e
  simp only [internal, goto]
  refine ⟨h1, ?_, h3, ?_, h5, ?_, ?_, ?_⟩ <;> simp_all

theorem stepB_popTask (μ : M) (s : St) (hA : InvA s) (hB : InvB μ s) (hpc : s.pc = .run .popTask) :
    ∃ μ', ((internal s .popTask).2.map Ev.out).foldlM Ivy.Mon.C06.step μ = .ok μ' ∧
      (μ'.dead = true ∨ InvB μ' (internal s .popTask).1) := by
  obtain ⟨h1, h2, h3, h4, h5, h6, h7, h8⟩ := hB
  obtain ⟨a1, a2, a3⟩ := hA
  simp only [internal, goto]
  split
  · next rest hst =>
    refine ⟨μ, rfl, Or.inr ?_⟩
    refine ⟨h1, ?_, h3, ?_, h5, ?_, ?_, ?_⟩ <;> simp_all [Pw]
  · next k r rest hst =>
    split
    · exact ⟨{ μ with dead := true }, by simp [Ivy.Mon.C06.step, h1], Or.inl rfl⟩
    · split
      · next hk =>
        subst hk
        refine ⟨μ, rfl, Or.inr ?_⟩
        refine ⟨h1, ?_, h3, ?_, h5, ?_, ?_, ?_⟩ <;> simp_all [upd]
        · exact List.Nodup.sublist (List.Sublist.append_left (List.sublist_cons_self _ _) _) h2
        · intro k hk; have : k ≠ 0 := Nat.ne_of_gt hk
          simp [this]
        · intro _; left; omega
      · next hk =>
        have hk1 : 1 ≤ k := Nat.pos_of_ne_zero hk
        have hreg : k ∈ μ.reg := (h4 k).2 ⟨hk1, Or.inr (by simp [hst])⟩
        have hran : k ∉ μ.ranSinceWait := fun h => h7 k h (by simp [hst])
        have hnd : k ∉ s.tasks ∧ k ∉ r ∧ k ∉ batchOf rest := by
          rw [hst] at h2
          simp only [batchOf_cons, fbatch_tasks, List.cons_append, List.nodup_append, List.nodup_cons,
            List.mem_cons, List.mem_append] at h2
          grind
        refine ⟨{ μ with reg := μ.reg.erase k, ranSinceWait := μ.ranSinceWait ++ [k] },
          by simp [Ivy.Mon.C06.step, h1, hreg, hran], Or.inr ?_⟩
        refine ⟨h1, ?_, ?_, ?_, h5, ?_, ?_, ?_⟩ <;> simp_all [upd]
        · exact List.Nodup.sublist (List.Sublist.append_left (List.sublist_cons_self _ _) _) h2
        · exact h3.erase k
        · intro k'
          rw [h3.mem_erase_iff, h4]
          grind
        · intro k' hk'
          split
          · rfl
          · rcases hk' with hk' | hk'
            · exact h6 k' hk'
            · contradiction
        · rintro k' (hk' | rfl)
          · exact (h7 k' hk').2
          · exact hnd.2
        · omega
  · exact ⟨{ μ with dead := true }, by simp [Ivy.Mon.C06.step, h1], Or.inl rfl⟩

theorem toRelative_zero {now : TS} (h : nn now) : toRelative now ⟨0, 0⟩ = ⟨0, 0⟩ := by
  obtain ⟨h1, h2⟩ := h
  unfold toRelative TS.gt
  have : (decide ((0 : Int) > now.sec) || (decide ((0 : Int) = now.sec) && decide ((0 : Int) > now.nsec))) = false := by
    simp only [Bool.or_eq_false_iff, Bool.and_eq_false_iff, decide_eq_false_iff_not]
    omega
  simp [this]

theorem nonBlocking_zero (s : St) (h : nn s.time) (kt : Option (Option TS)) :
    Ivy.Mon.C06.nonBlocking (timeoutOf s (some ⟨0, 0⟩)) kt = true := by
  unfold timeoutOf
  simp only [toMsec, toRelative_zero h]
  (repeat' split) <;> simp [Ivy.Mon.C06.nonBlocking, TS.toNs] <;> omega

theorem stepB_wait (μ : M) (s : St) (abs : Option TS) (km : Bool) (hA : InvA s) (hC : InvC s) (hB : InvB μ s)
    (hpc : s.pc = .run (.wait abs km)) :
    ∃ μ', ((internal s (.wait abs km)).2.map Ev.out).foldlM Ivy.Mon.C06.step μ = .ok μ' ∧
      (μ'.dead = true ∨ InvB μ' (internal s (.wait abs km)).1) := by
  obtain ⟨h1, h2, h3, h4, h5, h6, h7, h8⟩ := hB
  have hn : nT s.stack = 0 := hA.2.2 (by simp [hpc, P0])
  have hb : batchOf s.stack = [] := batchOf_of_nT hn
  have hw := (hC.wt abs km (by simp [hpc, pcWait])).2
  simp only [internal]
  have hnb : μ.reg = [] ∨ Ivy.Mon.C06.nonBlocking (timeoutOf s abs) (if s.timerfd then some s.ktimer else none) = true := by
    cases hr : μ.reg with
    | nil => exact Or.inl rfl
    | cons k l =>
      right
      have hk : k ∈ μ.reg := by simp [hr]
      have := (h4 k).1 hk
      have ht : s.tasks ≠ [] := by
        intro h0; simp [h0, hb] at this
      rcases hw ht with ⟨rfl, -⟩ | ⟨rfl, h1, h2⟩
      · exact nonBlocking_zero s hC.time_nn _
      · simp [timeoutOf, h1, h2, Ivy.Mon.C06.nonBlocking]
  refine ⟨{ μ with ranSinceWait := [] }, ?_, Or.inr ?_⟩
  · rcases hnb with e | e <;> simp [Ivy.Mon.C06.step, h1, e]
  · refine ⟨h1, ?_, h3, ?_, h5, ?_, ?_, ?_⟩ <;> simp_all

theorem stepB_exitCheck (μ : M) (s : St) (hB : InvB μ s) (_hpc : s.pc = .run .exitCheck) :
    ∃ μ', ((internal s .exitCheck).2.map Ev.out).foldlM Ivy.Mon.C06.step μ = .ok μ' ∧
      (μ'.dead = true ∨ InvB μ' (internal s .exitCheck).1) := by
  obtain ⟨h1, h2, h3, h4, h5, h6, h7, h8⟩ := hB
  simp only [internal, goto]
  split
  · refine ⟨{ μ with ranSinceWait := [] }, by simp [Ivy.Mon.C06.step, h1], Or.inr ?_⟩
    refine ⟨h1, ?_, h3, ?_, h5, ?_, ?_, ?_⟩ <;> simp_all
  · refine ⟨μ, rfl, Or.inr ?_⟩
    refine ⟨h1, ?_, h3, ?_, h5, ?_, ?_, ?_⟩ <;> simp_all [Pw]

theorem stepB_internal (μ : M) (s : St) (b : Block) (hA : InvA s) (hC : InvC s) (hB : InvB μ s)
    (hpc : s.pc = .run b) :
    ∃ μ', ((internal s b).2.map Ev.out).foldlM Ivy.Mon.C06.step μ = .ok μ' ∧
      (μ'.dead = true ∨ InvB μ' (internal s b).1) := by
  by_cases hq : quietBlock b = true
  · obtain ⟨q, hh⟩ := qb_internal s b hq hpc
    exact quiet_outs hB q hh
  · cases b <;> simp only [quietBlock] at hq <;> try (exact absurd trivial hq)
    · exact ⟨μ, rfl, Or.inr (stepB_startTasks μ s hA hB hpc)⟩
    · exact stepB_popTask μ s hA hB hpc
    · exact stepB_exitCheck μ s hB hpc
    · exact stepB_wait μ s _ _ hA hC hB hpc

theorem quiet_input {μ : M} {s s' : St} {outs : List Out} {i : Input} (h : InvB μ s) (q : QB s s')
    (hh : ∀ o ∈ outs, harmless o = true)
    (h1 : ∀ k, i ≠ .api (.taskRegister k)) (h2 : ∀ k, i ≠ .api (.taskUnregister k)) :
    ∃ μ', (Ev.inp i :: outs.map Ev.out).foldlM Ivy.Mon.C06.step μ = .ok μ' ∧ (μ'.dead = true ∨ InvB μ' s') := by
  rw [List.foldlM_cons, step_inp_other μ i h.alive h.pend h1 h2]
  exact quiet_outs h q hh

def quietApi : Api → Bool
  | .taskRegister _ | .taskUnregister _ | .evPost _ => false
  | _ => true

theorem qb_api (s : St) (a : Api) (hq : quietApi a = true) (hpc : s.pc = .user) :
    QB s (api s a).1 ∧ ∀ o ∈ (api s a).2, harmless o = true := by
  cases a <;> simp only [quietApi] at hq <;> try (exact absurd hq (by decide))
  all_goals
    simp only [api, ok, fatal] <;> (repeat' split) <;>
      (refine ⟨⟨?_, ?_, ?_, ?_, ?_, ?_⟩, ?_⟩ <;> simp [Pw, harmless, upd, hpc, -List.map_map])
  intro k; split <;> simp

theorem invB_taskRegisterCore {μ μ' : M} {s : St} {k : TaskId} (hn : nT s.stack ≤ 1) (hB : InvB μ s)
    (hnot : k ∉ s.tasks ∧ k ∉ batchOf s.stack)
    (e1 : μ'.dead = μ.dead) (e2 : μ'.pendingReg = none) (e3 : μ'.ranSinceWait = μ.ranSinceWait)
    (e4 : μ'.reg.Nodup) (e5 : ∀ k', k' ∈ μ'.reg ↔ k' ∈ μ.reg ∨ (k' = k ∧ 1 ≤ k)) :
    InvB μ' (taskRegisterCore s k) := by
  obtain ⟨h1, h2, h3, h4, h5, h6, h7, h8⟩ := hB
  unfold taskRegisterCore
  dsimp only
  split
  · refine ⟨e1.trans h1, ?_, e4, ?_, e2, ?_, ?_, ?_⟩ <;> simp_all
    all_goals first
      | grind
      | (simp only [List.nodup_append, List.nodup_cons, List.mem_cons, List.mem_append, List.mem_singleton] at *; grind)
  · next hc =>
    simp only [Bool.or_eq_true, Bool.not_eq_true', beq_iff_eq, not_or, Bool.not_eq_false] at hc
    have hin : inRunTasks s = true := hc.1
    have hn1 : nT s.stack = 1 := by
      have := (inRunTasks_iff s).1 hin
      omega
    refine ⟨e1.trans h1, ?_, e4, ?_, e2, ?_, ?_, ?_⟩ <;> simp_all [batchOf_appendTask]
    all_goals first
      | grind
      | (simp only [List.nodup_append, List.nodup_cons, List.mem_cons, List.mem_append, List.mem_singleton] at *; grind)

theorem invB_taskUnregisterCore {μ : M} {s : St} {k : TaskId} (hB : InvB μ s) :
    InvB { μ with reg := μ.reg.erase k, pendingReg := none } (taskUnregisterCore s k) := by
  obtain ⟨h1, h2, h3, h4, h5, h6, h7, h8⟩ := hB
  have hnb : (batchOf s.stack).Nodup := (List.nodup_append.1 h2).2.1
  have hnt : s.tasks.Nodup := (List.nodup_append.1 h2).1
  unfold taskUnregisterCore
  refine ⟨h1, ?_, ?_, ?_, rfl, ?_, ?_, ?_⟩ <;> simp only [batchOf_eraseTask k hnb, nT_eraseTask]
  · exact List.Nodup.sublist (List.Sublist.append (List.erase_sublist) (List.erase_sublist)) h2
  · exact h3.erase k
  · intro k'
    rw [h3.mem_erase_iff, hnt.mem_erase_iff, hnb.mem_erase_iff, h4]
    grind
  · exact h6
  · intro k' hk' hm
    exact h7 k' hk' (List.mem_of_mem_erase hm)
  · exact h8

theorem stepB_taskRegister (μ : M) (s : St) (k : TaskId) (hA : InvA s) (hB : InvB μ s) (hk : 1 ≤ k) :
    ∃ μ', (Ev.inp (.api (.taskRegister k)) :: (api s (.taskRegister k)).2.map Ev.out).foldlM Ivy.Mon.C06.step μ = .ok μ' ∧
      (μ'.dead = true ∨ InvB μ' (api s (.taskRegister k)).1) := by
  have h1 := hB.alive
  have h5 := hB.pend
  simp only [api, fatal, ok]
  split
  · exact ⟨{ μ with pendingReg := some k, dead := true }, by simp [Ivy.Mon.C06.step, h1, bind, Except.bind, pure, Except.pure], Or.inl rfl⟩
  · next hnot =>
    have hnot' : k ∉ s.tasks ∧ k ∉ batchOf s.stack := by
      exact not_or.1 (fun h => hnot ((taskOnList_iff s k).2 h))
    have hkr : k ∉ μ.reg := fun h => by
      have := (hB.reg_mem k).1 h
      grind
    refine ⟨{ μ with reg := μ.reg ++ [k], pendingReg := none }, by simp [Ivy.Mon.C06.step, h1, bind, Except.bind, pure, Except.pure], Or.inr ?_⟩
    refine invB_taskRegisterCore hA.1 hB hnot' rfl rfl rfl ?_ ?_
    · simp only [List.nodup_append, List.nodup_cons, List.mem_singleton]
      exact ⟨hB.reg_nodup, by simp, fun a ha b hb => by rintro rfl; subst hb; exact hkr ha⟩
    · intro k'; simp [hk]

theorem stepB_taskUnregister (μ : M) (s : St) (k : TaskId) (hB : InvB μ s) :
    ∃ μ', (Ev.inp (.api (.taskUnregister k)) :: (api s (.taskUnregister k)).2.map Ev.out).foldlM Ivy.Mon.C06.step μ = .ok μ' ∧
      (μ'.dead = true ∨ InvB μ' (api s (.taskUnregister k)).1) := by
  have h1 := hB.alive
  simp only [api, fatal, ok]
  split
  · exact ⟨{ μ with reg := μ.reg.erase k, pendingReg := none, dead := true }, by simp [Ivy.Mon.C06.step, h1, bind, Except.bind, pure, Except.pure], Or.inl rfl⟩
  · exact ⟨{ μ with reg := μ.reg.erase k, pendingReg := none }, by simp [Ivy.Mon.C06.step, h1, bind, Except.bind, pure, Except.pure],
      Or.inr (invB_taskUnregisterCore hB)⟩

theorem stepB_evPost (μ : M) (s : St) (e : EvId) (hA : InvA s) (hB : InvB μ s) (hpc : s.pc = .user) :
    ∃ μ', (Ev.inp (.api (.evPost e)) :: (api s (.evPost e)).2.map Ev.out).foldlM Ivy.Mon.C06.step μ = .ok μ' ∧
      (μ'.dead = true ∨ InvB μ' (api s (.evPost e)).1) := by
  have h1 := hB.alive
  have h5 := hB.pend
  have hstep : Ivy.Mon.C06.step μ (.inp (.api (.evPost e))) = .ok μ :=
    step_inp_other μ _ h1 h5 (by simp) (by simp)
  simp only [api]
  split
  · exact ⟨μ, by simp [hstep], Or.inr hB⟩
  · have hB1 : InvB μ { s with pending := s.pending ++ [e] } :=
      hB.quiet ⟨rfl, fun _ => Or.inl rfl, rfl, rfl, rfl, Or.inl (by simp [hpc, Pw])⟩
    split
    · next hc =>
      simp only [Bool.and_eq_true, Bool.not_eq_true'] at hc
      have hnot' := not_or.1 (fun h => (Bool.eq_false_iff.1 hc.2) ((taskOnList_iff _ 0).2 h))
      refine ⟨μ, by simp [hstep], Or.inr ?_⟩
      exact invB_taskRegisterCore hA.1 hB1 hnot' rfl h5 rfl hB.reg_nodup (by simp)
    · exact ⟨μ, by simp [hstep], Or.inr hB1⟩

theorem qb_afterWait (s : St) (abs : Option TS) (km : Bool) (r : WRes) (hpc : s.pc = .waiting abs km) :
    QB s (afterWait s abs km r).1 ∧ ∀ o ∈ (afterWait s abs km r).2, harmless o = true := by
  cases r with
  | events l =>
    obtain ⟨s1, active, rt, runEv, hf, he⟩ := afterWait_events s abs km l
    rw [he]
    simp only [FoldP] at hf
    simp only [afterEvents, goto]
    (repeat' split) <;> (refine ⟨⟨?_, ?_, ?_, ?_, ?_, ?_⟩, ?_⟩ <;> simp_all [Pw, harmless])
  | _ =>
    simp only [afterWait, goto, fatal] <;> (repeat' split) <;>
      (refine ⟨⟨?_, ?_, ?_, ?_, ?_, ?_⟩, ?_⟩ <;> simp_all [Pw, harmless])

theorem stepB_input (μ : M) (s : St) (i : Input) (r : St × List Out) (hA : InvA s) (hB : InvB μ s)
    (henv : envOk s i = true) (hi : input s i = some r) :
    ∃ μ', (Ev.inp i :: r.2.map Ev.out).foldlM Ivy.Mon.C06.step μ = .ok μ' ∧ (μ'.dead = true ∨ InvB μ' r.1) := by
  cases input_inv hi with
  | api a hpc =>
    by_cases hq : quietApi a = true
    · obtain ⟨q, hh⟩ := qb_api s a hq hpc
      refine quiet_input hB q hh ?_ ?_ <;> (intro k hk; cases hk; simp [quietApi] at hq)
    · cases a <;> simp only [quietApi] at hq <;> try (exact absurd trivial hq)
      · simp only [envOk, apiOk, Bool.and_eq_true, decide_eq_true_eq] at henv
        exact stepB_taskRegister μ s _ hA hB henv.1
      · exact stepB_taskUnregister μ s _ hB
      · exact stepB_evPost μ s _ hA hB hpc
  | wret abs km r hpc =>
    obtain ⟨q, hh⟩ := qb_afterWait s abs km r hpc
    exact quiet_input hB q hh (by simp) (by simp)
  | handlerEnd b hpc hb =>
    refine quiet_input hB ?_ (by simp [goto]) (by simp) (by simp)
    rcases hb with rfl | rfl | rfl | rfl <;> (refine ⟨?_, ?_, ?_, ?_, ?_, ?_⟩ <;> simp_all [Pw, goto])
  | free k id hpc =>
    refine quiet_input hB ?_ (by simp) (by simp) (by simp)
    unfold freeObj; (repeat' split) <;> (refine ⟨?_, ?_, ?_, ?_, ?_, ?_⟩ <;> simp_all [Pw, upd])
    all_goals (intro k; split <;> simp_all)
  | init k id hpc =>
    refine quiet_input hB ?_ (by simp) (by simp) (by simp)
    unfold initObj; (repeat' split) <;> (refine ⟨?_, ?_, ?_, ?_, ?_, ?_⟩ <;> simp_all [Pw, upd])
    all_goals (intro k; split <;> simp_all)
  | time t k hpc =>
    refine quiet_input hB ?_ ?_ (by simp) (by simp)
    · cases k <;> (refine ⟨?_, ?_, ?_, ?_, ?_, ?_⟩ <;> simp_all [Pw, afterTime, goto])
    · cases k <;> simp [afterTime, goto]
  | xpostNop abs km e hpc =>
    exact quiet_input hB ⟨rfl, fun _ => Or.inl rfl, rfl, rfl, rfl, Or.inl (by simp [hpc, Pw])⟩ (by simp) (by simp) (by simp)
  | xpost abs km e ka hpc =>
    exact quiet_input hB ⟨rfl, fun _ => Or.inl rfl, rfl, rfl, rfl, Or.inl (by simp [hpc, Pw])⟩ (by simp) (by simp) (by simp)
  | rawGoto r okk b hpc hb =>
    refine quiet_input hB ?_ (by simp [goto]) (by simp) (by simp)
    exact ⟨rfl, fun _ => Or.inl rfl, rfl, rfl, rfl, Or.inl (by simp [hpc, Pw])⟩
  | rawFault r okk msg hpc =>
    refine quiet_input hB ?_ (by simp [harmless]) (by simp) (by simp)
    exact ⟨rfl, fun _ => Or.inl rfl, rfl, rfl, rfl, Or.inl (by simp [hpc, Pw])⟩
  | rawCb r okk hpc =>
    refine quiet_input hB ?_ (by simp [harmless]) (by simp) (by simp)
    exact ⟨rfl, fun _ => Or.inl rfl, rfl, rfl, rfl, Or.inl (by simp [hpc, Pw])⟩

/-! ## the simulation relation and the main theorem -/

def R (μ : M) (s : St) : Prop := InvA s ∧ InvC s ∧ (μ.dead = true ∨ InvB μ s)

theorem R_init (m : Method) (n : Nat) (a b : Bool) : R {} (St.init m n a b) := by
  refine ⟨invA_init m n a b, invC_init m n a b, Or.inr ?_⟩
  refine ⟨rfl, ?_, ?_, ?_, rfl, ?_, ?_, ?_⟩ <;> simp [St.init]

theorem R_internal (μ : M) (s : St) (b : Block) (h : R μ s) (hpc : s.pc = .run b) :
    ∃ μ', ((internal s b).2.map Ev.out).foldlM Ivy.Mon.C06.step μ = .ok μ' ∧ R μ' (internal s b).1 := by
  obtain ⟨hA, hC, hB⟩ := h
  have hA' := invA_internal s b hA hpc
  have hC' := invC_internal s b hC hpc
  rcases hB with hd | hB
  · exact ⟨μ, fold_dead μ hd _, hA', hC', Or.inl hd⟩
  · obtain ⟨μ', e, h'⟩ := stepB_internal μ s b hA hC hB hpc
    exact ⟨μ', e, hA', hC', h'⟩

theorem R_input (μ : M) (s : St) (i : Input) (r : St × List Out) (h : R μ s) (henv : envOk s i = true)
    (hi : input s i = some r) :
    ∃ μ', (Ev.inp i :: r.2.map Ev.out).foldlM Ivy.Mon.C06.step μ = .ok μ' ∧ R μ' r.1 := by
  obtain ⟨hA, hC, hB⟩ := h
  have hA' := invA_input s i r hA hi
  have hC' := invC_input s i r hC henv hi
  rcases hB with hd | hB
  · exact ⟨μ, fold_dead μ hd _, hA', hC', Or.inl hd⟩
  · obtain ⟨μ', e, h'⟩ := stepB_input μ s i r hA hB henv hi
    exact ⟨μ', e, hA', hC', h'⟩

theorem exec_accepts {s : St} {evs : List Ev} {s' : St} (h : Exec s evs s') :
    ∀ μ, R μ s → ∃ μ', evs.foldlM Ivy.Mon.C06.step μ = .ok μ' := by
  induction h with
  | nil s => intro μ _; exact ⟨μ, rfl⟩
  | @internal s s1 s2 b outs evs hpc hint _ ih =>
    intro μ hR
    obtain ⟨μ1, e1, hR1⟩ := R_internal μ s b hR hpc
    rw [hint] at e1 hR1
    obtain ⟨μ2, e2⟩ := ih μ1 hR1
    exact ⟨μ2, by rw [List.foldlM_append, e1]; exact e2⟩
  | @input s s1 s2 i outs evs henv hin _ ih =>
    intro μ hR
    obtain ⟨μ1, e1, hR1⟩ := R_input μ s i (s1, outs) hR henv hin
    obtain ⟨μ2, e2⟩ := ih μ1 hR1
    refine ⟨μ2, ?_⟩
    have : Ev.inp i :: (outs.map Ev.out ++ evs) = (Ev.inp i :: outs.map Ev.out) ++ evs := rfl
    rw [this, List.foldlM_append, e1]; exact e2

theorem monitor_accepts (m : Method) (ntimers : Nat) (timerfdAvail pwait2 : Bool)
    (evs : List Ev) (s' : St) (h : Exec (St.init m ntimers timerfdAvail pwait2) evs s') :
    Ivy.Mon.C06.verdict evs = none := by
  obtain ⟨μ', e⟩ := exec_accepts h {} (R_init m ntimers timerfdAvail pwait2)
  unfold Ivy.Mon.C06.verdict runMon
  rw [e]

/-! ## non-vacuity -/

def isTaskCb : Ev → Bool
  | .out (.cb (.task _)) => true
  | _ => false

def isWait : Ev → Bool
  | .out (.wait ..) => true
  | _ => false

/-- a wait that does not block because a task is pending: zero timeout -/
def isZeroWait : Ev → Bool
  | .out (.wait _ (.ns 0) _ _ _) => true
  | .out (.wait _ (.ms 0) _ _ _) => true
  | _ => false

/-- kernel-timer mode: unbounded wait with the kernel timer armed at 1 ns -/
def isKtimerWait : Ev → Bool
  | .out (.wait _ .inf _ (some (some ⟨0, 1⟩)) _) => true
  | _ => false

/-- two tasks and a descriptor are registered; task 1 re-registers itself (deferred past the poll)
and registers task 3 (joins the running batch); the loop polls with a zero timeout, runs task 1 again,
which quits -/
def demoInputs : List Input :=
  [.api (.taskRegister 1), .api (.taskRegister 2), .api (.fdRegister 3 true false false), .api .main,
   .api (.taskRegister 1), .api (.taskRegister 3), .handlerEnd, .handlerEnd, .handlerEnd,
   .time ⟨5, 0⟩, .wret (.events []), .api .quit, .handlerEnd]

def demoTrace := runTrace 100 (St.init .epoll 0 true true) demoInputs

/-- kernel-timer mode: task 1 re-registers itself on every round; from the fifth identical deadline on
the wait is unbounded with the kernel timer armed at 1 ns -/
def demoRound : List Input := [.api (.taskRegister 1), .handlerEnd, .time ⟨5, 0⟩, .wret (.events [])]
def demoInputs2 : List Input :=
  [.api (.taskRegister 1), .api (.fdRegister 3 true false false), .api .main] ++
  demoRound ++ demoRound ++ demoRound ++ demoRound ++
  [.api (.taskRegister 1), .handlerEnd, .wret (.events [.ktimer]), .api .quit, .handlerEnd]

def demoTrace2 := runTrace 200 (St.init .epollTimerfd 0 true true) demoInputs2

theorem demo_exec : Exec (St.init .epoll 0 true true) demoTrace.1 demoTrace.2 := runTrace_exec _ _ _
theorem demo2_exec : Exec (St.init .epollTimerfd 0 true true) demoTrace2.1 demoTrace2.2 := runTrace_exec _ _ _

/-- the first trace runs four task handlers (task 1 twice, with a zero-timeout poll in between) and returns -/
example : (demoTrace.1.filter isTaskCb).length = 4 ∧ (demoTrace.1.filter isZeroWait).length = 1 ∧
    (demoTrace.1.filter isWait).length = 1 := by decide

/-- the second trace runs six task handlers, polls four times with a zero timeout and once unbounded with
the kernel timer armed at 1 ns -/
example : (demoTrace2.1.filter isTaskCb).length = 6 ∧ (demoTrace2.1.filter isZeroWait).length = 4 ∧
    (demoTrace2.1.filter isKtimerWait).length = 1 ∧ (demoTrace2.1.filter isWait).length = 5 := by decide

example : Ivy.Mon.C06.verdict demoTrace.1 = none := monitor_accepts _ _ _ _ _ _ demo_exec
example : Ivy.Mon.C06.verdict demoTrace2.1 = none := monitor_accepts _ _ _ _ _ _ demo2_exec
end Ivy.L1.ProofsC06
