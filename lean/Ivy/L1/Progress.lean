import Ivy.L1.ProofsReach
import Ivy.Mon.C07
/-!
# C07 (progress clause) — every wake-up of the loop makes progress

Property C07 also says: "it blocks in the kernel only when nothing is due, and every wake-up makes
progress instead of polling repeatedly without dispatching anything".  The proved monitor `Mon.C07`
does not contain that clause, because it is false under the weak kernel contract `wretOk` (the kernel
may "report" a descriptor with an empty event mask, or a kick that was never armed).  This file states
and proves the model-side counterpart under the FULL kernel contract.

## The strong kernel contract `wretStrong`

Everything `wretOk` says, plus for every item of a result `.events l`:
* `.fd f ev`: at least one bit of `ev` is set, and the `IN`/`OUT` bits are within what the library
  asked the kernel for (`ERR`/`HUP` are always reportable): epoll — `s.kint f = some mask`,
  `kin → mask.i`, `kout → mask.o`; poll — the same for the bands of the `pfds` entry of `f`;
* `.kick` only if `s.kickArmed` (the kick is one-shot: reported only when armed);
* `.ktimer` only if `s.ktimer.isSome` (the timerfd is reported only while it is armed).
The same clause is used for user descriptors and for the internal descriptors of raw events
(`f ≥ 1000`).

## Internal raw descriptors (`f ≥ 1000`): the choice made here

The handler of such a descriptor is `iv_event_raw_got_event`, which `read`s the eventfd / pipe before it
calls anything; the result of that `read` is the input `Input.rawRead ok`.  The full kernel contract says
"a descriptor that is reported readable is readable", i.e. `ok = true`.  The record `Ev.inp (.rawRead ok)`
does not name the descriptor, but inside one wake-up the library only ever issues that `read` from the
dispatch of a descriptor the wake-up reported (only descriptors put on `active` by this very wait result
are dispatched).  So the cleanest formulation is:

* a successful raw read (`Ev.inp (.rawRead true)`) *is* progress: it consumes the readiness that caused
  the wake-up (it drains the eventfd), exactly like a reported kick disarms the kick and a reported
  `ktimer` disarms the timerfd;
* the contract clause "reported ⇒ readable" is the hypothesis *no `Ev.inp (.rawRead false)` record occurs
  in the wake-up segment* (`isRawFail`).  `wake_progress` takes it as an explicit hypothesis on the
  segment; the strong trace relation `ExecS` has it built in (`envStrong`).

Without that clause the statement is false for a trivial reason that is not a defect of the library: a
kernel that reports the eventfd readable although it is not makes every wake-up idle.

## Statements

* `wake_progress` (+ `wake_progress_split`): from a reachable state waiting in the kernel, after a
  non-empty wait result allowed by `wretStrong`, for every continuation, before the next `Out.wait` /
  `Out.mainRet` either a callback is entered, or a raw read succeeds, or the result itself consumed a
  one-shot wake source (`.kick ∈ l`: `kickArmed` true → false; `.ktimer ∈ l`: `ktimer` some → none);
  unless the segment contains a failed raw read.
* `idle_free`: the source-aware oracle `idleVerdict` (zero tolerance: *no* idle wake-up at all) accepts
  every trace of `ExecS` (the machine under the strong contract).
* `no_spin`: the implementation-side oracle `Mon.C07.spinVerdict` accepts every `ExecS` trace on which
  `srcVerdict` holds ("no third non-empty wake-up after two wake-ups that each consumed a one-shot wake
  source without any callback in between").  That hypothesis cannot be dropped: see
  `spin_false_positive` — a legal trace (stale kick, then stale timerfd, then an ordinary
  descriptor event) that `spinVerdict` rejects although every wake-up made progress.
-/
namespace Ivy.L1.Progress
open Ivy.L1 Ivy.L1.ProofsC02
open Ivy.Heap (TS)

set_option linter.unusedSimpArgs false
set_option linter.unusedVariables false

/-! ## the strong kernel contract -/

/-- at least one event bit is set -/
def kevAny (ev : KEv) : Bool := ev.kin || ev.kout || ev.kerr || ev.khup

/-- the `IN`/`OUT` bits are within the requested mask (`ERR`/`HUP` need not be requested) -/
def kevWithin (ev : KEv) (mask : Bands) : Bool := (!ev.kin || mask.i) && (!ev.kout || mask.o)

def itemStrong (s : St) : WItem → Bool
  | .fd f ev =>
    kevAny ev &&
    (if s.method.isEpoll then
      match s.kint f with
      | some mask => kevWithin ev mask
      | none => false
    else s.pfds.any fun p => p.1 == f && kevWithin ev p.2)
  | .kick => s.kickArmed
  | .ktimer => s.ktimer.isSome

/-- the full kernel contract on a wait result in state `s` -/
def wretStrong (s : St) (r : WRes) : Bool :=
  wretOk s r &&
  match r with
  | .events l => l.all (itemStrong s)
  | _ => true

def hasKick (l : List WItem) : Bool := l.any fun it => match it with | .kick => true | _ => false
def hasKtimer (l : List WItem) : Bool := l.any fun it => match it with | .ktimer => true | _ => false

/-! ## progress over traces -/

/-- a record that is progress: a callback is entered, or a raw read succeeds (the eventfd is drained) -/
def isProgress : Ev → Bool
  | .out (.cb _) => true
  | .inp (.rawRead true) => true
  | _ => false

/-- the wake-up is over: the loop waits again, or `iv_main` returns -/
def isStop : Ev → Bool
  | .out (.wait ..) => true
  | .out .mainRet => true
  | _ => false

/-- a raw read that fails although the descriptor was reported (excluded by the full kernel contract) -/
def isRawFail : Ev → Bool
  | .inp (.rawRead false) => true
  | _ => false

/-- `idleSeg evs = true` iff `evs = pre ++ stop :: post` where `pre` contains neither progress nor a
failed raw read: the segment reaches the next wait / the return of `iv_main` idle -/
def idleSeg : List Ev → Bool
  | [] => false
  | e :: r => !isProgress e && !isRawFail e && (isStop e || idleSeg r)

/-! ## the machine under the strong contract -/

/-- `envOk` strengthened to the full kernel contract: wait results satisfy `wretStrong`, and a raw
read of a reported descriptor succeeds -/
def envStrong (s : St) (i : Input) : Bool :=
  envOk s i &&
  match i with
  | .wret r => wretStrong s r
  | .rawRead okk => okk
  | _ => true

/-- `Exec` with `envStrong` in place of `envOk` -/
inductive ExecS : St → List Ev → St → Prop
  | nil (s : St) : ExecS s [] s
  | internal {s s' s'' : St} {b : Block} {outs : List Out} {evs : List Ev} :
      s.pc = .run b → internal s b = (s', outs) → ExecS s' evs s'' →
      ExecS s (outs.map Ev.out ++ evs) s''
  | input {s s' s'' : St} {i : Input} {outs : List Out} {evs : List Ev} :
      envStrong s i = true → input s i = some (s', outs) → ExecS s' evs s'' →
      ExecS s (Ev.inp i :: (outs.map Ev.out ++ evs)) s''

theorem envStrong_ok {s : St} {i : Input} (h : envStrong s i = true) : envOk s i = true := by
  unfold envStrong at h
  simp only [Bool.and_eq_true] at h
  exact h.1

theorem ExecS.toExec {s s' : St} {evs : List Ev} (h : ExecS s evs s') : Exec s evs s' := by
  induction h with
  | nil s => exact Exec.nil s
  | internal hpc hi _ ih => exact Exec.internal hpc hi ih
  | input henv hi _ ih => exact Exec.input (envStrong_ok henv) hi ih

/-- executable trace generator under the strong contract (for the non-vacuity examples) -/
def runTraceS : Nat → St → List Input → List Ev × St
  | 0, s, _ => ([], s)
  | fuel + 1, s, inputs =>
    match s.pc with
    | .run b =>
      let r := internal s b
      let t := runTraceS fuel r.1 inputs
      (r.2.map Ev.out ++ t.1, t.2)
    | _ =>
      match inputs with
      | [] => ([], s)
      | i :: is =>
        if envStrong s i then
          match input s i with
          | some r =>
            let t := runTraceS fuel r.1 is
            (Ev.inp i :: (r.2.map Ev.out ++ t.1), t.2)
          | none => ([], s)
        else ([], s)

theorem runTraceS_exec (fuel : Nat) (s : St) (inputs : List Input) :
    ExecS s (runTraceS fuel s inputs).1 (runTraceS fuel s inputs).2 := by
  induction fuel generalizing s inputs with
  | zero => exact ExecS.nil s
  | succ fuel ih =>
    unfold runTraceS
    split
    · next b hb =>
      exact ExecS.internal hb rfl (ih _ _)
    · cases inputs with
      | nil => exact ExecS.nil s
      | cons i is =>
        simp only
        split
        · next henv =>
          split
          · next r hr => exact ExecS.input henv (by rw [hr]) (ih _ _)
          · exact ExecS.nil s
        · exact ExecS.nil s

/-! ## the oracles -/

/-- source-aware idle oracle, zero tolerance.  State: `true` = a non-empty wake-up that reported only
descriptors has not yet entered a callback / completed a raw read.  It is an error to reach the next
wait, the return of `iv_main`, or another wait result in that state. -/
def idleStep (pend : Bool) (e : Ev) : Except String Bool :=
  match e with
  | .out (.cb _) => .ok false
  | .inp (.rawRead true) => .ok false
  | .inp (.wret r) =>
    if pend then .error "a wait returns although the previous wake-up is still undispatched" else
    match r with
    | .events l => .ok (!l.isEmpty && !hasKick l && !hasKtimer l)
    | _ => .ok false
  | .out (.wait ..) =>
    if pend then .error "idle wake-up: the wait reported descriptors, nothing was dispatched, and the loop waits again" else .ok false
  | .out .mainRet =>
    if pend then .error "idle wake-up: the wait reported descriptors, nothing was dispatched, and iv_main returns" else .ok false
  | _ => .ok pend

def idleVerdict (evs : List Ev) : Option String :=
  match runMon idleStep false evs with
  | .ok _ => none
  | .error e => some e

/-- the environment assumption of `no_spin`.  State `(k, src)`: `k` = number of wake-ups since the last
callback / empty wake-up that consumed a one-shot wake source (a reported kick, a reported kernel timer,
a successful raw read), `src` = the current wake-up is already counted.  Error: a further non-empty
wake-up although two such wake-ups have happened with no callback since. -/
def srcStep (st : Nat × Bool) (e : Ev) : Except String (Nat × Bool) :=
  match e with
  | .out (.cb _) => .ok (0, false)
  | .inp (.wret (.events l)) =>
    if l.isEmpty then .ok (0, false)
    else if st.1 ≥ 2 then .error "a third non-empty wake-up after two wake-ups that consumed one-shot wake sources without a callback"
    else
      let c := hasKick l || hasKtimer l
      .ok (if c then st.1 + 1 else st.1, c)
  | .inp (.rawRead true) => .ok (if st.2 then st.1 else st.1 + 1, true)
  | _ => .ok st

def srcVerdict (evs : List Ev) : Option String :=
  match runMon srcStep (0, false) evs with
  | .ok _ => none
  | .error e => some e

/-! ## the dispatch owes a callback -/

/-- `want` of block `fdStage` -/
def wantAt (o : FdObj) (stage : Nat) : Bool :=
  match stage with
  | 0 => o.ready.e && o.herr
  | 1 => o.ready.i && o.hin
  | _ => o.ready.o && o.hout

/-- some band at or after `stage` is ready and has its handler set -/
def wantsFrom (o : FdObj) (stage : Nat) : Bool :=
  match stage with
  | 0 => wantAt o 0 || wantAt o 1 || wantAt o 2
  | 1 => wantAt o 1 || wantAt o 2
  | 2 => wantAt o 2
  | _ => false

/-- the machine is inside the dispatch of a wake-up, no user code has run yet, and the dispatch is
bound to enter a callback (or a raw read): the head of `active`, resp. the descriptor being
dispatched, has a ready band whose handler is set -/
inductive Owes (s : St) : Prop
  | disp (f : FdId) (r : List FdId) (rt : Bool) (rest : List Frame) :
      s.pc = .run .dispatchNext → s.stack = .poll (f :: r) rt :: rest → wantsFrom (s.fds f) 0 = true → Owes s
  | stage (f : FdId) (stage : Nat) (rest : List Frame) :
      s.pc = .run .fdStage → s.stack = .fd f stage :: rest → s.handled = some f →
      wantsFrom (s.fds f) stage = true → Owes s
  | raw (r : RawId) : s.pc = .needRawRead r → Owes s

/-- block `fdStage` in closed form while the dispatched descriptor is still `handled` -/
theorem fdStage_eq (s : St) (f : FdId) (stage : Nat) (rest : List Frame)
    (hst : s.stack = .fd f stage :: rest) (hh : s.handled = some f) (h3 : stage < 3) :
    internal s .fdStage =
      if !(s.fds f).live then ({ s with pc := .dead }, [Out.fault s!"use-after-free fd {f}"]) else
      if wantAt (s.fds f) stage then
        match (if stage = 1 then fdRaw? f else none) with
        | some r => ({ s with stack := .fd f (stage + 1) :: rest, pc := .needRawRead r }, [])
        | none => ({ s with stack := .fd f (stage + 1) :: rest, pc := .user }, [Out.cb (.fd f stage)])
      else ({ s with stack := .fd f (stage + 1) :: rest, pc := .run .fdStage }, []) := by
  have hn : s.handled.isNone = false := by rw [hh]; rfl
  match stage, h3, hst with
  | 0, _, hst =>
    simp only [internal, hst, hn, setTop, goto, wantAt, List.tail_cons]
    simp
  | 1, _, hst =>
    simp only [internal, hst, hn, setTop, goto, wantAt, List.tail_cons]
    cases fdRaw? f <;> simp
  | 2, _, hst =>
    simp only [internal, hst, hn, setTop, goto, wantAt, List.tail_cons]
    simp

theorem wantsFrom_lt {o : FdObj} {stage : Nat} (h : wantsFrom o stage = true) : stage < 3 := by
  match stage, h with
  | 0, _ => omega
  | 1, _ => omega
  | 2, _ => omega
  | n + 3, h => simp [wantsFrom] at h

theorem wantsFrom_succ {o : FdObj} {stage : Nat} (h : wantsFrom o stage = true) (hw : wantAt o stage = false) :
    wantsFrom o (stage + 1) = true := by
  match stage, h, hw with
  | 0, h, hw => simpa [wantsFrom, hw] using h
  | 1, h, hw => simpa [wantsFrom, hw] using h
  | 2, h, hw => simp [wantsFrom, hw] at h
  | n + 3, h, _ => simp [wantsFrom] at h

theorem owes_internal {s : St} (h : Owes s) {b : Block} (hpc : s.pc = .run b) :
    ((internal s b).2 = [] ∧ Owes (internal s b).1) ∨ (∃ c, (internal s b).2 = [Out.cb c]) ∨
    (∃ m, (internal s b).2 = [Out.fault m] ∧ (internal s b).1.pc = .dead) := by
  cases h with
  | disp f r rt rest h1 hst hw =>
    obtain rfl : b = .dispatchNext := by rw [hpc] at h1; cases h1; rfl
    left
    simp only [internal, hst, goto]
    exact ⟨trivial, Owes.stage f 0 (.poll r rt :: rest) rfl rfl rfl hw⟩
  | stage f stage rest h1 hst hh hw =>
    obtain rfl : b = .fdStage := by rw [hpc] at h1; cases h1; rfl
    rw [fdStage_eq s f stage rest hst hh (wantsFrom_lt hw)]
    cases hl : (s.fds f).live with
    | false => right; right; exact ⟨_, rfl, rfl⟩
    | true =>
      cases hwa : wantAt (s.fds f) stage with
      | false =>
        left
        simp only [Bool.not_true, Bool.false_eq_true, if_false]
        exact ⟨trivial, Owes.stage f (stage + 1) rest rfl rfl hh (wantsFrom_succ hw hwa)⟩
      | true =>
        simp only [Bool.not_true, Bool.false_eq_true, if_false, if_true]
        cases hr : (if stage = 1 then fdRaw? f else none) with
        | some r => left; exact ⟨rfl, Owes.raw r rfl⟩
        | none => right; left; exact ⟨_, rfl⟩
  | raw r h1 => rw [hpc] at h1; cases h1

/-- in an owing state only the raw read can be an input -/
theorem owes_input {s s' : St} (h : Owes s) {i : Input} {outs : List Out} (hi : input s i = some (s', outs)) :
    ∃ okk, i = .rawRead okk := by
  cases h with
  | disp f r rt rest h1 hst hw => simp [input, h1] at hi
  | stage f stage rest h1 hst hh hw => simp [input, h1] at hi
  | raw r h1 =>
    cases i <;> simp [input, h1] at hi
    exact ⟨_, rfl⟩

theorem exec_dead {s s' : St} {evs : List Ev} (h : Exec s evs s') (hd : s.pc = .dead) : evs = [] := by
  cases h with
  | nil => rfl
  | internal hpc _ _ => rw [hd] at hpc; cases hpc
  | input _ hi _ => simp [input, hd] at hi

/-- an owing state cannot reach the next wait / the return of `iv_main` without progress -/
theorem owes_exec {s s' : St} {evs : List Ev} (h : Exec s evs s') : Owes s → idleSeg evs = false := by
  induction h with
  | nil s => intro _; rfl
  | @internal s s1 s2 b outs evs hpc hi hrest ih =>
    intro ho
    have := owes_internal ho hpc
    rw [hi] at this
    rcases this with ⟨h1, h2⟩ | ⟨c, h1⟩ | ⟨m, h1, h2⟩
    · simp only at h1 h2
      subst h1
      simpa using ih h2
    · simp only at h1
      subst h1
      simp [idleSeg, isProgress]
    · simp only at h1 h2
      subst h1
      have := exec_dead hrest h2
      subst this
      simp [idleSeg, isProgress, isRawFail, isStop]
  | @input s s1 s2 i outs evs henv hi hrest ih =>
    intro ho
    obtain ⟨okk, rfl⟩ := owes_input ho hi
    cases okk <;> simp [idleSeg, isProgress, isRawFail]

/-! ## a reported descriptor has a ready band whose handler is set -/

theorem wants_of_bits (o : FdObj) (ev : KEv) (mask : Bands)
    (hany : kevAny ev = true) (hwithin : kevWithin ev mask = true)
    (hmi : mask.i = o.hin) (hmo : mask.o = o.hout) (hsome : (o.hin || o.hout || o.herr) = true)
    (hr : ∀ b, bit (bandsOfKEv ev) b = true → bit o.ready b = true) : wantsFrom o 0 = true := by
  have h0 := hr 0
  have h1 := hr 1
  have h2 := hr 2
  simp only [bit, bandsOfKEv] at h0 h1 h2
  simp only [kevAny, kevWithin] at hany hwithin
  simp only [wantsFrom, wantAt]
  rw [hmi, hmo] at hwithin
  grind

/-- epoll, flushed: the kernel mask of a descriptor is `IN`/`OUT` of its handlers, and it has a handler -/
theorem mask_E {fds : FdId → FdObj} {kint : FdId → Option Bands} (hI : EInv fds [] kint)
    (g : FdId) (mask : Bands) (hk : kint g = some mask) :
    mask.i = (fds g).hin ∧ mask.o = (fds g).hout ∧ ((fds g).hin || (fds g).hout || (fds g).herr) = true := by
  obtain ⟨h1, h2, h3, h4, h5⟩ := hI
  have hk2 := h2 g
  rw [hk] at hk2
  have hr : (fds g).registered = true := by
    cases h : (fds g).registered with
    | true => rfl
    | false => rw [(h4 g h).2] at hk2; simp [Bands.isZero] at hk2
  have hreg : (fds g).regBands = ⟨(fds g).hin, (fds g).hout, (fds g).herr⟩ := by
    have := h3 g hr
    simp only [List.not_mem_nil, ne_eq, false_iff, Decidable.not_not] at this
    rw [this]; exact h5 g hr
  rw [hreg] at hk2
  split at hk2
  · simp at hk2
  · next hz =>
    simp only [Option.some.injEq] at hk2
    subst hk2
    exact ⟨rfl, rfl, or_of_not_isZero _ _ _ hz⟩

/-- poll: the bands of a pollfd entry are the handlers of its descriptor, and it has a handler -/
theorem mask_P {fds : FdId → FdObj} {pfds : List (FdId × Bands)} (hI : PInv fds pfds)
    (p : FdId × Bands) (hp : p ∈ pfds) :
    p.2.i = (fds p.1).hin ∧ p.2.o = (fds p.1).hout ∧ ((fds p.1).hin || (fds p.1).hout || (fds p.1).herr) = true := by
  obtain ⟨h1, h2, h3, h4, h5⟩ := hI
  obtain ⟨i, hi⟩ := List.mem_iff_getElem?.1 hp
  have hidx := h2 i p.1 p.2 hi
  have hw := h1 _ _ hidx
  rw [hi] at hw
  have hr : (fds p.1).registered = true := by
    cases h : (fds p.1).registered with
    | true => rfl
    | false => rw [h4 _ h] at hidx; simp at hidx
  have hz := h3 _ hr
  have hwant := h5 _ hr
  have hp2 : p.2 = (fds p.1).wanted := by
    simp only [Option.some.injEq] at hw
    have := congrArg Prod.snd hw
    simpa using this
  rw [hp2, hwant]
  refine ⟨rfl, rfl, ?_⟩
  rw [hidx, hwant] at hz
  exact or_of_not_isZero _ _ _ (fun h => by simpa using hz.2 h)

/-- at a wait, a descriptor item allowed by the strong contract has a ready band with its handler set
in any descriptor object with the same handlers and at least the reported bands ready -/
theorem wants_of_strong {μ : Ivy.Mon.C02.M} {s : St} (hG : Good μ s) {abs : Option TS} {km : Bool}
    (hpc : s.pc = .waiting abs km) (g : FdId) (ev : KEv) (hs : itemStrong s (.fd g ev) = true)
    (o : FdObj) (hc : coreEq (s.fds g) o)
    (hr : ∀ b, bit (bandsOfKEv ev) b = true → bit o.ready b = true) : wantsFrom o 0 = true := by
  obtain ⟨c1, c2, c3, _⟩ := hc
  simp only [itemStrong, Bool.and_eq_true] at hs
  obtain ⟨hany, hs⟩ := hs
  cases hE : s.method.isEpoll with
  | true =>
    have hI := hG.finE hE
    have hn := hG.flushed hE (by rw [hpc]; rfl)
    rw [hn] at hI
    simp only [hE, if_true] at hs
    cases hk : s.kint g with
    | none => rw [hk] at hs; simp at hs
    | some mask =>
      rw [hk] at hs
      obtain ⟨m1, m2, m3⟩ := mask_E hI g mask hk
      exact wants_of_bits o ev mask hany hs (by rw [m1, c1]) (by rw [m2, c2]) (by rw [c1, c2, c3]; exact m3) hr
  | false =>
    have hI := hG.finP hE
    simp only [hE, Bool.false_eq_true, if_false, List.any_eq_true, Bool.and_eq_true, beq_iff_eq] at hs
    obtain ⟨p, hp, hpg, hwi⟩ := hs
    obtain ⟨m1, m2, m3⟩ := mask_P hI p hp
    rw [hpg] at m1 m2 m3
    exact wants_of_bits o ev p.2 hany hwi (by rw [m1, c1]) (by rw [m2, c2]) (by rw [c1, c2, c3]; exact m3) hr

/-! ## the scan of the wait result -/

theorem makeReady_more (s : St) (a : List FdId) (f : FdId) (bb : Bands) :
    (∀ g ∈ (makeReady s a f bb).2, g ∈ a ∨ g = f) ∧
    (makeReady s a f bb).1.kickArmed = s.kickArmed ∧ (makeReady s a f bb).1.ktimer = s.ktimer := by
  unfold makeReady
  simp only
  split
  · exact ⟨fun g hg => Or.inl hg, rfl, rfl⟩
  · exact ⟨fun g hg => by simpa using hg, rfl, rfl⟩

theorem activate_more (s : St) (a : List FdId) (f : FdId) (ev : KEv) :
    (∀ g ∈ (activate s a f ev).2, g ∈ a ∨ g = f) ∧
    (activate s a f ev).1.kickArmed = s.kickArmed ∧ (activate s a f ev).1.ktimer = s.ktimer := by
  have step : ∀ (c : Bool) (bb : Bands) (s : St) (a : List FdId),
      let r := if c then makeReady s a f bb else (s, a)
      (∀ g ∈ r.2, g ∈ a ∨ g = f) ∧ r.1.kickArmed = s.kickArmed ∧ r.1.ktimer = s.ktimer := by
    intro c bb s a
    cases c with
    | true => exact makeReady_more s a f bb
    | false => exact ⟨fun g hg => Or.inl hg, rfl, rfl⟩
  unfold activate
  simp only
  obtain ⟨a1, a2, a3⟩ := step (bandsOfKEv ev).i ⟨true, false, false⟩ s a
  generalize (if (bandsOfKEv ev).i = true then makeReady s a f ⟨true, false, false⟩ else (s, a)) = r1 at a1 a2 a3
  obtain ⟨s1, l1⟩ := r1
  obtain ⟨b1, b2, b3⟩ := step (bandsOfKEv ev).o ⟨false, true, false⟩ s1 l1
  generalize (if (bandsOfKEv ev).o = true then makeReady s1 l1 f ⟨false, true, false⟩ else (s1, l1)) = r2 at b1 b2 b3
  obtain ⟨s2, l2⟩ := r2
  obtain ⟨c1, c2, c3⟩ := step (bandsOfKEv ev).e ⟨false, false, true⟩ s2 l2
  generalize (if (bandsOfKEv ev).e = true then makeReady s2 l2 f ⟨false, false, true⟩ else (s2, l2)) = r3 at c1 c2 c3
  obtain ⟨s3, l3⟩ := r3
  simp only at *
  refine ⟨fun g hg => ?_, by rw [c2, b2, a2], by rw [c3, b3, a3]⟩
  rcases c1 g hg with h | h
  · rcases b1 g h with h | h
    · exact a1 g h
    · exact Or.inr h
  · exact Or.inr h

/-- the scan: where the members of `active` come from, what happens to the one-shot wake sources, and
whether pending events are to be run -/
theorem wfold_more (l : List WItem) : ∀ (s : St) (a : List FdId) (rt re : Bool),
    (∀ g ∈ (l.foldl wfold (s, a, rt, re)).2.1, g ∈ a ∨ ∃ ev, WItem.fd g ev ∈ l) ∧
    (l.foldl wfold (s, a, rt, re)).1.kickArmed = (if hasKick l then false else s.kickArmed) ∧
    (l.foldl wfold (s, a, rt, re)).1.ktimer = (if hasKtimer l then none else s.ktimer) ∧
    (l.foldl wfold (s, a, rt, re)).2.2.2 = (re || hasKick l) := by
  induction l with
  | nil => intro s a rt re; exact ⟨fun g hg => Or.inl hg, by simp [hasKick], by simp [hasKtimer], by simp [hasKick]⟩
  | cons it r ih =>
    intro s a rt re
    rw [List.foldl_cons]
    cases it with
    | kick =>
      have hw : wfold (s, a, rt, re) .kick = ({ s with kickArmed := false }, a, rt, true) := rfl
      rw [hw]
      obtain ⟨h1, h2, h3, h4⟩ := ih { s with kickArmed := false } a rt true
      refine ⟨fun g hg => ?_, ?_, ?_, ?_⟩
      · rcases h1 g hg with h | ⟨ev, h⟩
        · exact Or.inl h
        · exact Or.inr ⟨ev, List.mem_cons_of_mem _ h⟩
      · rw [h2]; simp [hasKick]
      · rw [h3]; simp [hasKtimer]
      · rw [h4]; simp [hasKick]
    | ktimer =>
      have hw : wfold (s, a, rt, re) .ktimer = ({ s with ktimer := none }, a, true, re) := rfl
      rw [hw]
      obtain ⟨h1, h2, h3, h4⟩ := ih { s with ktimer := none } a true re
      refine ⟨fun g hg => ?_, ?_, ?_, ?_⟩
      · rcases h1 g hg with h | ⟨ev, h⟩
        · exact Or.inl h
        · exact Or.inr ⟨ev, List.mem_cons_of_mem _ h⟩
      · rw [h2]; simp [hasKick]
      · rw [h3]; simp [hasKtimer]
      · rw [h4]; simp [hasKick]
    | fd f0 ev0 =>
      obtain ⟨a1, a2, a3⟩ := activate_more s a f0 ev0
      have hw : wfold (s, a, rt, re) (.fd f0 ev0) = ((activate s a f0 ev0).1, (activate s a f0 ev0).2, rt, re) := rfl
      rw [hw]
      obtain ⟨h1, h2, h3, h4⟩ := ih (activate s a f0 ev0).1 (activate s a f0 ev0).2 rt re
      refine ⟨fun g hg => ?_, ?_, ?_, ?_⟩
      · rcases h1 g hg with h | ⟨ev, h⟩
        · rcases a1 g h with h | h
          · exact Or.inl h
          · subst h; exact Or.inr ⟨ev0, List.mem_cons_self⟩
        · exact Or.inr ⟨ev, List.mem_cons_of_mem _ h⟩
      · rw [h2, a2]; simp [hasKick]
      · rw [h3, a3]; simp [hasKtimer]
      · rw [h4]; simp [hasKick]

theorem kevAny_bit {ev : KEv} (h : kevAny ev = true) : ∃ b, bit (bandsOfKEv ev) b = true := by
  simp only [kevAny, Bool.or_eq_true] at h
  rcases h with ((h | h) | h) | h
  · exact ⟨1, by simp [bit, bandsOfKEv, h]⟩
  · exact ⟨2, by simp [bit, bandsOfKEv, h]⟩
  · exact ⟨0, by simp [bit, bandsOfKEv, h]⟩
  · exact ⟨0, by simp [bit, bandsOfKEv, h]⟩

/-- a non-empty wait result allowed by the strong contract that reports descriptors only leaves the
machine owing a callback -/
theorem owes_after_wret {μ : Ivy.Mon.C02.M} {s : St} (hG : Good μ s) {abs : Option TS} {km : Bool}
    (hpc : s.pc = .waiting abs km) (l : List WItem) (hl : l ≠ [])
    (hs : wretStrong s (.events l) = true) (hk : hasKick l = false) (ht : hasKtimer l = false) :
    Owes (afterWait s abs km (.events l)).1 := by
  simp only [wretStrong, Bool.and_eq_true, List.all_eq_true] at hs
  obtain ⟨_, hs⟩ := hs
  rw [afterWait_events]
  simp only
  obtain ⟨w1, w2, w3⟩ := wfold_props l { s with timeValid := false } []
    (if s.method == .epollTimerfd then abs.isSome else true) false
  obtain ⟨m1, m2, m3, m4⟩ := wfold_more l { s with timeValid := false } []
    (if s.method == .epollTimerfd then abs.isSome else true) false
  generalize List.foldl wfold ({ s with timeValid := false }, [], (if s.method == .epollTimerfd then abs.isSome else true), false) l = r
    at w1 w2 w3 m1 m2 m3 m4
  obtain ⟨sr, ar, rtr, rer⟩ := r
  simp only at w1 w2 w3 m1 m2 m3 m4
  rw [hk] at m4
  simp only [Bool.or_false] at m4
  subst m4
  simp only [Bool.false_eq_true, if_false, goto]
  -- the active list is not empty
  have hne : ar ≠ [] := by
    cases l with
    | nil => exact absurd rfl hl
    | cons it l' =>
      cases it with
      | kick => simp [hasKick] at hk
      | ktimer => simp [hasKtimer] at ht
      | fd f ev =>
        have hi := hs (.fd f ev) List.mem_cons_self
        simp only [itemStrong, Bool.and_eq_true] at hi
        obtain ⟨b, hb⟩ := kevAny_bit hi.1
        have := (w3 f ev List.mem_cons_self b hb).1
        intro h; rw [h] at this; cases this
  cases har : ar with
  | nil => exact absurd har hne
  | cons g rest =>
    subst har
    have hg : g ∈ g :: rest := List.mem_cons_self
    rcases m1 g hg with h | ⟨ev, hev⟩
    · cases h
    · have hi := hs _ hev
      have hwant : wantsFrom (sr.fds g) 0 = true :=
        wants_of_strong hG hpc g ev hi (sr.fds g) (w1.fds g) (fun b hb => (w3 g ev hev b hb).2)
      refine Owes.disp g rest rtr ?_ rfl ?_ ?_
      · exact (if (km && rtr) = true then { sr with lastAbsCount := 0 } else sr).stack
      · split <;> rfl
      · split <;> exact hwant

/-! ## `wake_progress` -/

theorem afterWait_events_outs (s : St) (abs : Option TS) (km : Bool) (l : List WItem) :
    (afterWait s abs km (.events l)).2 = [] := by
  rw [afterWait_events]
  simp only [goto]
  generalize List.foldl wfold _ l = r
  by_cases hr : r.2.2.2 = true <;> simp [hr]

/-- a reported kick was armed and is disarmed by the scan -/
theorem kick_consumed {s : St} {abs : Option TS} {km : Bool} {l : List WItem}
    (hs : wretStrong s (.events l) = true) (hk : hasKick l = true) :
    s.kickArmed = true ∧ (afterWait s abs km (.events l)).1.kickArmed = false := by
  simp only [wretStrong, Bool.and_eq_true, List.all_eq_true] at hs
  obtain ⟨_, hs⟩ := hs
  constructor
  · simp only [hasKick, List.any_eq_true] at hk
    obtain ⟨it, hit, h⟩ := hk
    cases it with
    | kick => exact hs _ hit
    | ktimer => simp at h
    | fd f ev => simp at h
  · rw [afterWait_events]
    simp only
    obtain ⟨_, m2, _, _⟩ := wfold_more l { s with timeValid := false } []
      (if s.method == .epollTimerfd then abs.isSome else true) false
    rw [hk] at m2
    simp only [if_true] at m2
    generalize List.foldl wfold ({ s with timeValid := false }, [], (if s.method == .epollTimerfd then abs.isSome else true), false) l = r
      at m2
    simp only [goto]
    by_cases hr : r.2.2.2 = true <;> by_cases hq : (km && r.2.2.1) = true <;> simp [hr, hq, m2]

/-- a reported kernel timer was armed and is disarmed by the scan -/
theorem ktimer_consumed {s : St} {abs : Option TS} {km : Bool} {l : List WItem}
    (hs : wretStrong s (.events l) = true) (hk : hasKtimer l = true) :
    s.ktimer.isSome = true ∧ (afterWait s abs km (.events l)).1.ktimer = none := by
  simp only [wretStrong, Bool.and_eq_true, List.all_eq_true] at hs
  obtain ⟨_, hs⟩ := hs
  constructor
  · simp only [hasKtimer, List.any_eq_true] at hk
    obtain ⟨it, hit, h⟩ := hk
    cases it with
    | ktimer => exact hs _ hit
    | kick => simp at h
    | fd f ev => simp at h
  · rw [afterWait_events]
    simp only
    obtain ⟨_, _, m3, _⟩ := wfold_more l { s with timeValid := false } []
      (if s.method == .epollTimerfd then abs.isSome else true) false
    rw [hk] at m3
    simp only [if_true] at m3
    generalize List.foldl wfold ({ s with timeValid := false }, [], (if s.method == .epollTimerfd then abs.isSome else true), false) l = r
      at m3
    simp only [goto]
    by_cases hr : r.2.2.2 = true <;> by_cases hq : (km && r.2.2.1) = true <;> simp [hr, hq, m3]

theorem exec_inp_inv {s s' : St} {i : Input} {evs : List Ev} (h : Exec s (Ev.inp i :: evs) s')
    (hnr : ∀ b, s.pc ≠ .run b) :
    ∃ s1 outs evs', envOk s i = true ∧ input s i = some (s1, outs) ∧ evs = outs.map Ev.out ++ evs' ∧ Exec s1 evs' s' := by
  generalize hE : Ev.inp i :: evs = t at h
  cases h with
  | nil => cases hE
  | internal hpc _ _ => exact absurd hpc (hnr _)
  | input henv hi hrest =>
    simp only [List.cons.injEq, Ev.inp.injEq] at hE
    obtain ⟨rfl, rfl⟩ := hE
    exact ⟨_, _, _, henv, hi, rfl, hrest⟩

/-- **Every wake-up makes progress.**  `s` is any reachable state blocked in the kernel wait, `l` any
non-empty wait result allowed by the full kernel contract, `evs` any continuation (any user program, any
later kernel answers).  Then the result itself consumed a one-shot wake source (the armed kick is disarmed /
the armed kernel timer is disarmed), or the continuation does not reach the next `Out.wait` /
`Out.mainRet` before a callback is entered or a raw read succeeds — unless a raw read of a reported
descriptor fails first, which the full kernel contract excludes (`idleSeg`). -/
theorem wake_progress (m : Method) (ntimers : Nat) (timerfdAvail pwait2 : Bool) (evs0 : List Ev) (s : St)
    (hreach : Exec (St.init m ntimers timerfdAvail pwait2) evs0 s)
    (abs : Option TS) (km : Bool) (hpc : s.pc = .waiting abs km)
    (l : List WItem) (hl : l ≠ []) (hs : wretStrong s (.events l) = true)
    (evs : List Ev) (s' : St) (hex : Exec s (Ev.inp (.wret (.events l)) :: evs) s') :
    (hasKick l = true ∧ s.kickArmed = true ∧ (afterWait s abs km (.events l)).1.kickArmed = false) ∨
    (hasKtimer l = true ∧ s.ktimer.isSome = true ∧ (afterWait s abs km (.events l)).1.ktimer = none) ∨
    idleSeg evs = false := by
  cases hk : hasKick l with
  | true => exact Or.inl ⟨rfl, kick_consumed hs hk⟩
  | false =>
    cases ht : hasKtimer l with
    | true => exact Or.inr (Or.inl ⟨rfl, ktimer_consumed hs ht⟩)
    | false =>
      right; right
      obtain ⟨μ, hG⟩ := Ivy.L1.ProofsReach.reach_init m ntimers timerfdAvail pwait2 evs0 s hreach
      obtain ⟨s1, outs, evs', _, hi, he, hrest⟩ := exec_inp_inv hex (by rw [hpc]; intro b h; cases h)
      simp only [input, hpc, Option.some.injEq] at hi
      have h1 : s1 = (afterWait s abs km (.events l)).1 := by rw [hi]
      have h2 : outs = [] := by
        have : outs = (afterWait s abs km (.events l)).2 := by rw [hi]
        rw [this, afterWait_events_outs]
      subst h2
      simp only [List.map_nil, List.nil_append] at he
      subst he
      have ho := owes_after_wret hG hpc l hl hs hk ht
      rw [← h1] at ho
      exact owes_exec hrest ho

theorem stop_not_progress {e : Ev} (h : isStop e = true) : isProgress e = false ∧ isRawFail e = false := by
  cases e with
  | inp i => simp [isStop] at h
  | gt g => simp [isStop] at h
  | out o => cases o <;> simp_all [isStop, isProgress, isRawFail]

theorem idleSeg_split : ∀ (pre : List Ev) {evs post : List Ev} {e : Ev}, idleSeg evs = false →
    evs = pre ++ e :: post → isStop e = true → (∀ x ∈ pre, isRawFail x = false) →
    ∃ x ∈ pre, isProgress x = true := by
  intro pre
  induction pre with
  | nil =>
    intro evs post e h hsplit hstop _
    obtain ⟨a, b⟩ := stop_not_progress hstop
    subst hsplit
    simp [idleSeg, a, b, hstop] at h
  | cons x pre ih =>
    intro evs post e h hsplit hstop hraw
    subst hsplit
    cases hp : isProgress x with
    | true => exact ⟨x, List.mem_cons_self, hp⟩
    | false =>
      have hr := hraw x List.mem_cons_self
      simp only [List.cons_append, idleSeg, hp, hr, Bool.not_false, Bool.true_and, Bool.or_eq_false_iff] at h
      obtain ⟨y, hy, hy2⟩ := ih h.2 rfl hstop (fun z hz => hraw z (List.mem_cons_of_mem _ hz))
      exact ⟨y, List.mem_cons_of_mem _ hy, hy2⟩

/-- `wake_progress` over explicit trace segments: there is no segment
`inp (wret (events l)) :: pre ++ [out (wait …) | out mainRet]` with `l ≠ []` allowed by the full kernel contract
in which `pre` contains no callback and no successful raw read — unless `l` reports the kick or the
kernel timer (which it thereby disarms), or a reported raw descriptor is not readable. -/
theorem wake_progress_split (m : Method) (ntimers : Nat) (timerfdAvail pwait2 : Bool) (evs0 : List Ev) (s : St)
    (hreach : Exec (St.init m ntimers timerfdAvail pwait2) evs0 s)
    (abs : Option TS) (km : Bool) (hpc : s.pc = .waiting abs km)
    (l : List WItem) (hl : l ≠ []) (hs : wretStrong s (.events l) = true)
    (pre post : List Ev) (o : Out) (s' : St)
    (hex : Exec s (Ev.inp (.wret (.events l)) :: (pre ++ Ev.out o :: post)) s')
    (hstop : isStop (.out o) = true) (hraw : ∀ x ∈ pre, isRawFail x = false) :
    hasKick l = true ∨ hasKtimer l = true ∨ ∃ x ∈ pre, isProgress x = true := by
  rcases wake_progress m ntimers timerfdAvail pwait2 evs0 s hreach abs km hpc l hl hs _ s' hex with h | h | h
  · exact Or.inl h.1
  · exact Or.inr (Or.inl h.1)
  · exact Or.inr (Or.inr (idleSeg_split pre h rfl hstop hraw))

/-! ## `idle_free`: the source-aware oracle accepts every trace under the strong contract -/

theorem fold_outs_false (outs : List Out) : (outs.map Ev.out).foldlM idleStep false = .ok false := by
  induction outs with
  | nil => rfl
  | cons o r ih =>
    rw [List.map_cons, List.foldlM_cons]
    have : idleStep false (.out o) = .ok false := by cases o <;> rfl
    rw [this]
    exact ih

theorem idleStep_inp_false (i : Input) :
    idleStep false (.inp i) =
      .ok (match i with
        | .wret (.events l) => !l.isEmpty && !hasKick l && !hasKtimer l
        | _ => false) := by
  cases i with
  | wret r => cases r <;> rfl
  | rawRead okk => cases okk <;> rfl
  | _ => rfl

theorem foldlM_inp {σ : Type} (f : σ → Ev → Except String σ) (a b : σ) (e : Ev) (outs evs : List Ev)
    (h : f a e = .ok b) :
    (e :: (outs ++ evs)).foldlM f a = (outs.foldlM f b >>= fun c => evs.foldlM f c) := by
  rw [List.foldlM_cons, h]
  show List.foldlM f b (outs ++ evs) = _
  rw [List.foldlM_append]

theorem bind_ok {σ : Type} (a : σ) (g : σ → Except String σ) : (Except.ok a >>= g) = g a := rfl

theorem dead_no_input {s s' : St} {i : Input} {outs : List Out} (hd : s.pc = .dead)
    (hi : input s i = some (s', outs)) : False := by
  simp [input, hd] at hi

theorem idle_run {s s' : St} {evs : List Ev} (h : ExecS s evs s') :
    ∀ pend : Bool, (∃ μ : Ivy.Mon.C02.M, Good μ s) → (pend = true → Owes s ∨ s.pc = .dead) →
    ∃ pend', evs.foldlM idleStep pend = .ok pend' := by
  induction h with
  | nil s => intro pend _ _; exact ⟨pend, rfl⟩
  | @internal s s1 s2 b outs evs hpc hi hrest ih =>
    intro pend hG hP
    have hG1 : ∃ μ : Ivy.Mon.C02.M, Good μ s1 :=
      Ivy.L1.ProofsReach.reach (Exec.internal hpc hi (Exec.nil _)) hG
    rw [List.foldlM_append]
    cases pend with
    | false =>
      rw [fold_outs_false]
      exact ih false hG1 (fun h => by cases h)
    | true =>
      rcases hP rfl with ho | hd
      · have := owes_internal ho hpc
        rw [hi] at this
        rcases this with ⟨h1, h2⟩ | ⟨c, h1⟩ | ⟨m, h1, h2⟩
        · simp only at h1 h2
          subst h1
          exact ih true hG1 (fun _ => Or.inl h2)
        · simp only at h1
          subst h1
          exact ih false hG1 (fun h => by cases h)
        · simp only at h1 h2
          subst h1
          exact ih true hG1 (fun _ => Or.inr h2)
      · rw [hd] at hpc; cases hpc
  | @input s s1 s2 i outs evs henv hi hrest ih =>
    intro pend hG hP
    have hG1 : ∃ μ : Ivy.Mon.C02.M, Good μ s1 :=
      Ivy.L1.ProofsReach.reach (Exec.input (envStrong_ok henv) hi (Exec.nil _)) hG
    cases pend with
    | true =>
      rcases hP rfl with ho | hd
      · obtain ⟨okk, rfl⟩ := owes_input ho hi
        have : okk = true := by
          simp only [envStrong, Bool.and_eq_true] at henv
          exact henv.2
        subst this
        have : idleStep true (.inp (.rawRead true)) = .ok false := rfl
        rw [foldlM_inp _ _ _ _ _ _ this, fold_outs_false, bind_ok]
        exact ih false hG1 (fun h => by cases h)
      · exact (dead_no_input hd hi).elim
    | false =>
      rw [foldlM_inp _ _ _ _ _ _ (idleStep_inp_false i)]
      -- the only way to become pending: a non-empty result without kick and kernel timer
      generalize hp : (match i with
        | .wret (.events l) => !l.isEmpty && !hasKick l && !hasKtimer l
        | _ => false) = p
      cases p with
      | false =>
        rw [fold_outs_false, bind_ok]
        exact ih false hG1 (fun h => by cases h)
      | true =>
        obtain ⟨μ, hGs⟩ := hG
        cases i with
        | wret r =>
          cases r with
          | events l =>
            simp only [Bool.and_eq_true, Bool.not_eq_true', List.isEmpty_eq_false_iff] at hp
            obtain ⟨⟨hl, hk⟩, ht⟩ := hp
            have hstrong : wretStrong s (.events l) = true := by
              simp only [envStrong, Bool.and_eq_true] at henv
              exact henv.2
            cases hpc : s.pc <;> simp only [input, hpc, reduceCtorEq, Option.some.injEq] at hi
            next abs km =>
            have h1 : s1 = (afterWait s abs km (.events l)).1 := by rw [hi]
            have h2 : outs = [] := by
              have : outs = (afterWait s abs km (.events l)).2 := by rw [hi]
              rw [this, afterWait_events_outs]
            subst h2
            have ho := owes_after_wret hGs hpc l hl hstrong hk ht
            rw [← h1] at ho
            exact ih true hG1 (fun _ => Or.inl ho)
          | eintr => simp at hp
          | enosys => simp at hp
        | api a => simp at hp
        | handlerEnd => simp at hp
        | time t => simp at hp
        | rawRead okk => simp at hp
        | xpost e => simp at hp
        | free k id => simp at hp
        | init k id => simp at hp

/-- **No idle wake-up.**  Under the full kernel contract every trace of the machine is accepted by the
source-aware oracle `idleVerdict`: a non-empty wait result that reports neither the kick nor the kernel
timer is followed by a callback or a successful raw read before the loop waits again, before `iv_main`
returns, and before any further wait result. -/
theorem idle_free (m : Method) (ntimers : Nat) (timerfdAvail pwait2 : Bool) (evs : List Ev) (s' : St)
    (h : ExecS (St.init m ntimers timerfdAvail pwait2) evs s') : idleVerdict evs = none := by
  obtain ⟨p, hp⟩ := idle_run h false ⟨{}, good_init m ntimers timerfdAvail pwait2⟩ (fun h => by cases h)
  simp [idleVerdict, runMon, hp]

/-! ## `no_spin`: the implementation-side oracle -/

open Ivy.Mon.C07 (spinStep spinVerdict)

/-- one record: the spin counter never exceeds the number of source-consuming wake-ups (plus one while a
descriptor-only wake-up is still owed its callback) -/
theorem step_rel (e : Ev) (n k : Nat) (src pend p1 : Bool) (st1 : Nat × Bool)
    (h1 : n ≤ k + pend.toNat) (h2 : pend = true → src = false)
    (hi : idleStep pend e = .ok p1) (hs : srcStep (k, src) e = .ok st1) :
    ∃ n1, spinStep n e = .ok n1 ∧ n1 ≤ st1.1 + p1.toNat ∧ (p1 = true → st1.2 = false) := by
  cases e with
  | gt g =>
    simp only [idleStep, srcStep, Except.ok.injEq] at hi hs
    subst hi; subst hs
    exact ⟨n, rfl, h1, h2⟩
  | out o =>
    cases o with
    | cb c =>
      simp only [idleStep, srcStep, Except.ok.injEq] at hi hs
      subst hi; subst hs
      exact ⟨0, rfl, by simp, by simp⟩
    | wait a b c d e =>
      cases pend with
      | true => simp [idleStep] at hi
      | false =>
        simp only [idleStep, srcStep, Except.ok.injEq, Bool.false_eq_true, if_false] at hi hs
        subst hi; subst hs
        exact ⟨n, rfl, h1, by simp⟩
    | mainRet =>
      cases pend with
      | true => simp [idleStep] at hi
      | false =>
        simp only [idleStep, srcStep, Except.ok.injEq, Bool.false_eq_true, if_false] at hi hs
        subst hi; subst hs
        exact ⟨n, rfl, h1, by simp⟩
    | ret v =>
      simp only [idleStep, srcStep, Except.ok.injEq] at hi hs
      subst hi; subst hs
      exact ⟨n, rfl, h1, h2⟩
    | fatal m =>
      simp only [idleStep, srcStep, Except.ok.injEq] at hi hs
      subst hi; subst hs
      exact ⟨n, rfl, h1, h2⟩
    | fault m =>
      simp only [idleStep, srcStep, Except.ok.injEq] at hi hs
      subst hi; subst hs
      exact ⟨n, rfl, h1, h2⟩
  | inp i =>
    cases i with
    | wret r =>
      cases pend with
      | true => simp [idleStep] at hi
      | false =>
        simp only [Bool.toNat_false, Nat.add_zero] at h1
        cases r with
        | eintr =>
          simp only [idleStep, srcStep, Except.ok.injEq, Bool.false_eq_true, if_false] at hi hs
          subst hi; subst hs
          exact ⟨n, rfl, by simpa using h1, by simp⟩
        | enosys =>
          simp only [idleStep, srcStep, Except.ok.injEq, Bool.false_eq_true, if_false] at hi hs
          subst hi; subst hs
          exact ⟨n, rfl, by simpa using h1, by simp⟩
        | events l =>
          simp only [idleStep, Bool.false_eq_true, if_false, Except.ok.injEq] at hi
          simp only [srcStep] at hs
          cases hl : l.isEmpty with
          | true =>
            simp only [hl, if_true, Except.ok.injEq] at hs
            subst hs
            simp only [hl] at hi
            subst hi
            exact ⟨0, by simp [spinStep, hl], by simp, by simp⟩
          | false =>
            simp only [hl, Bool.false_eq_true, if_false] at hs
            by_cases hk2 : k ≥ 2
            · simp [hk2] at hs
            · simp only [hk2, if_false, Except.ok.injEq] at hs
              subst hs
              simp only [hl, Bool.not_false, Bool.true_and] at hi
              subst hi
              have hn : ¬ n ≥ 2 := by omega
              refine ⟨n + 1, by simp [spinStep, hl, hn], ?_, ?_⟩
              · cases hasKick l <;> cases hasKtimer l <;> simp <;> omega
              · cases hasKick l <;> cases hasKtimer l <;> simp
    | rawRead okk =>
      cases okk with
      | true =>
        simp only [idleStep, srcStep, Except.ok.injEq] at hi hs
        subst hi; subst hs
        refine ⟨n, rfl, ?_, by simp⟩
        cases pend with
        | true => simp [h2 rfl] at h1 ⊢; omega
        | false => cases src <;> simp at h1 ⊢ <;> omega
      | false =>
        simp only [idleStep, srcStep, Except.ok.injEq] at hi hs
        subst hi; subst hs
        exact ⟨n, rfl, h1, h2⟩
    | api a =>
      simp only [idleStep, srcStep, Except.ok.injEq] at hi hs
      subst hi; subst hs
      exact ⟨n, rfl, h1, h2⟩
    | handlerEnd =>
      simp only [idleStep, srcStep, Except.ok.injEq] at hi hs
      subst hi; subst hs
      exact ⟨n, rfl, h1, h2⟩
    | time t =>
      simp only [idleStep, srcStep, Except.ok.injEq] at hi hs
      subst hi; subst hs
      exact ⟨n, rfl, h1, h2⟩
    | xpost x =>
      simp only [idleStep, srcStep, Except.ok.injEq] at hi hs
      subst hi; subst hs
      exact ⟨n, rfl, h1, h2⟩
    | free a b =>
      simp only [idleStep, srcStep, Except.ok.injEq] at hi hs
      subst hi; subst hs
      exact ⟨n, rfl, h1, h2⟩
    | init a b =>
      simp only [idleStep, srcStep, Except.ok.injEq] at hi hs
      subst hi; subst hs
      exact ⟨n, rfl, h1, h2⟩

/-- pure trace combinatorics: a trace accepted by `idleStep` and by `srcStep` is accepted by `spinStep` -/
theorem spin_of_idle_src (evs : List Ev) : ∀ (n k : Nat) (src pend p' : Bool) (st' : Nat × Bool),
    n ≤ k + pend.toNat → (pend = true → src = false) →
    evs.foldlM idleStep pend = .ok p' → evs.foldlM srcStep (k, src) = .ok st' →
    ∃ n', evs.foldlM spinStep n = .ok n' := by
  induction evs with
  | nil => intro n _ _ _ _ _ _ _ _ _; exact ⟨n, rfl⟩
  | cons e r ih =>
    intro n k src pend p' st' h1 h2 hi hs
    rw [List.foldlM_cons] at hi hs ⊢
    cases hie : idleStep pend e with
    | error x => rw [hie] at hi; cases hi
    | ok p1 =>
      cases hse : srcStep (k, src) e with
      | error x => rw [hse] at hs; cases hs
      | ok st1 =>
        rw [hie] at hi
        rw [hse] at hs
        obtain ⟨n1, a1, a2, a3⟩ := step_rel e n k src pend p1 st1 h1 h2 hie hse
        rw [a1]
        exact ih n1 st1.1 st1.2 p1 p' st' a2 a3 hi hs

/-- **`no_spin`.**  Under the full kernel contract the implementation-side oracle `spinVerdict` accepts
every trace on which the environment does not deliver a third non-empty wake-up after two wake-ups that each
consumed a one-shot wake source with no callback in between (`srcVerdict`). -/
theorem no_spin (m : Method) (ntimers : Nat) (timerfdAvail pwait2 : Bool) (evs : List Ev) (s' : St)
    (h : ExecS (St.init m ntimers timerfdAvail pwait2) evs s') (hsrc : srcVerdict evs = none) :
    spinVerdict evs = none := by
  obtain ⟨p, hp⟩ := idle_run h false ⟨{}, good_init m ntimers timerfdAvail pwait2⟩ (fun h => by cases h)
  have hs : ∃ st, evs.foldlM srcStep (0, false) = .ok st := by
    simp only [srcVerdict, runMon] at hsrc
    cases hh : evs.foldlM srcStep (0, false) with
    | ok st => exact ⟨st, rfl⟩
    | error x => rw [hh] at hsrc; cases hsrc
  obtain ⟨st, hs⟩ := hs
  obtain ⟨n', hn⟩ := spin_of_idle_src evs 0 0 false false p st (by simp) (by simp) hp hs
  simp [spinVerdict, runMon, hn]

end Ivy.L1.Progress
