import Ivy.L1.Machine
/-! Observable traces of the L1 machine. -/
namespace Ivy.L1

/-- one observable record: an environment/user record (input to the library), a library record
(output), or the harness's ground truth about descriptor readiness at a wait (monitor-only) -/
inductive Ev
  | inp (i : Input)
  | out (o : Out)
  | gt (l : List (FdId × KEv))
deriving Repr

/-- user-chosen identifiers stay out of the ranges the library uses internally (task 0 is
`events_local`, raw event 0 is `events_kick`, descriptors ≥ 1000 are the ones embedded in raw events; user
descriptor ids are < 64 and raw event ids < 16, the ranges `universeOf` enumerates);
events and raw events are registered at most once and only unregistered when registered;
timer structs exist and carry a normalised, non-negative expiry -/
def apiOk (s : St) : Api → Bool
  | .fdRegister f .. | .fdRegisterTry f .. | .fdUnregister f | .fdSetIn f _ | .fdSetOut f _ | .fdSetErr f _ => decide (f < 64)
  | .timerRegister t e => decide (t < s.heap.idx.size) && decide (0 ≤ e.sec) && decide (0 ≤ e.nsec) && decide (e.nsec < 1000000000)
  | .timerUnregister t => decide (t < s.heap.idx.size)
  | .taskRegister k | .taskUnregister k | .taskInit k => decide (1 ≤ k)
  | .rawRegister r _ => decide (1 ≤ r) && decide (r < 16) && !(s.raws r).registered
  | .rawUnregister r => decide (1 ≤ r) && decide (r < 16) && (s.raws r).registered
  | .evRegister e _ => !(s.evs e).registered
  | .evUnregister e => (s.evs e).registered  -- unregistering an unregistered event is invalid use
  | .evPost e => (s.evs e).registered        -- posting to an unregistered event is invalid use
  | _ => true

/-- the user only passes objects whose memory it has not freed -/
def apiLive (s : St) : Api → Bool
  | .fdRegister f .. | .fdRegisterTry f .. | .fdUnregister f | .fdSetIn f _ | .fdSetOut f _ | .fdSetErr f _ => (s.fds f).live
  | .timerRegister t _ | .timerUnregister t => s.tlive t
  | .taskRegister k | .taskUnregister k | .taskInit k => (s.tobjs k).live
  | .evRegister e _ | .evUnregister e | .evPost e => (s.evs e).live
  | .rawRegister r _ | .rawUnregister r => (s.raws r).live
  | _ => true

/-- kernel contract K1 on a wait result: only entries of the current interest set are reported
(descriptors the library asked for, the kick entry if registered, the kernel timer if created),
each descriptor at most once -/
def wretFds (l : List WItem) : List FdId :=
  l.filterMap fun it => match it with | .fd f _ => some f | _ => none

def wretOk (s : St) : WRes → Bool
  | .events l =>
    (l.all fun it =>
      match it with
      | .fd f _ => if s.method.isEpoll then (s.kint f).isSome else s.pfds.any (·.1 == f)
      | .kick => s.kickReg
      | .ktimer => s.timerfd) &&
    decide (wretFds l).Nodup          -- each descriptor is reported at most once per wait
  | _ => true

/-- the object is not registered with the library (so the user owns its memory) -/
def unregisteredObj (s : St) (kind id : Nat) : Bool :=
  match kind with
  | 0 => decide (id < 1000) && !(s.fds id).registered
  | 1 => s.heap.idx.getD id (-1) == -1
  | 2 => decide (1 ≤ id) && !taskOnList s id
  | 3 => !(s.evs id).registered
  | _ => decide (1 ≤ id) && !(s.raws id).registered

/-- what the environment (user program, kernel, clock) may do in state `s`: valid API use, the kernel
contract on wait results, a normalised monotone clock, posts only to registered events, and freeing /
re-initialising only objects that are not registered -/
def envOk (s : St) : Input → Bool
  | .api a => apiOk s a && apiLive s a
  | .wret r => wretOk s r
  | .time t => decide (0 ≤ t.sec) && decide (0 ≤ t.nsec) && decide (t.nsec < 1000000000) && !(s.time.gt t)
  | .xpost e => (s.evs e).registered && (s.evs e).live
  | .free kind id => unregisteredObj s kind id
  | .init kind id => unregisteredObj s kind id
  | _ => true

/-- `Exec s evs s'`: starting in `s` the machine can produce exactly the records `evs` (inputs
interleaved with the outputs they cause) and end in `s'`. Quantifying over `evs` quantifies over
every user program, every kernel answer, every clock value and every injected failure. -/
inductive Exec : St → List Ev → St → Prop
  | nil (s : St) : Exec s [] s
  | internal {s s' s'' : St} {b : Block} {outs : List Out} {evs : List Ev} :
      s.pc = .run b → internal s b = (s', outs) → Exec s' evs s'' →
      Exec s (outs.map Ev.out ++ evs) s''
  | input {s s' s'' : St} {i : Input} {outs : List Out} {evs : List Ev} :
      envOk s i = true → input s i = some (s', outs) → Exec s' evs s'' →
      Exec s (Ev.inp i :: (outs.map Ev.out ++ evs)) s''

/-- monitors are folds with an error state -/
def runMon {σ : Type} (step : σ → Ev → Except String σ) (init : σ) (evs : List Ev) : Except String σ :=
  evs.foldlM step init

def monOk {σ : Type} (step : σ → Ev → Except String σ) (init : σ) (evs : List Ev) : Bool :=
  match runMon step init evs with
  | .ok _ => true
  | .error _ => false

end Ivy.L1

namespace Ivy.L1

/-- executable trace generator: run the machine on a list of inputs (used for non-vacuity examples
and by the drivers); stops at the first input that is not enabled -/
def runTrace : Nat → St → List Input → List Ev × St
  | 0, s, _ => ([], s)
  | fuel + 1, s, inputs =>
    match s.pc with
    | .run b =>
      let r := internal s b
      let t := runTrace fuel r.1 inputs
      (r.2.map Ev.out ++ t.1, t.2)
    | _ =>
      match inputs with
      | [] => ([], s)
      | i :: is =>
        if envOk s i then
          match input s i with
          | some r =>
            let t := runTrace fuel r.1 is
            (Ev.inp i :: (r.2.map Ev.out ++ t.1), t.2)
          | none => ([], s)
        else ([], s)

theorem runTrace_exec (fuel : Nat) (s : St) (inputs : List Input) :
    Exec s (runTrace fuel s inputs).1 (runTrace fuel s inputs).2 := by
  induction fuel generalizing s inputs with
  | zero => exact Exec.nil s
  | succ fuel ih =>
    unfold runTrace
    split
    · next b hb =>
      exact Exec.internal hb rfl (ih _ _)
    · cases inputs with
      | nil => exact Exec.nil s
      | cons i is =>
        simp only
        split
        · next henv =>
          split
          · next r hr => exact Exec.input henv (by rw [hr]) (ih _ _)
          · exact Exec.nil s
        · exact Exec.nil s

end Ivy.L1
