import Ivy.L1.Machine
/-!
# Poll method selection (`iv_fd_init_first_thread`, `method_is_excluded`, `consider_poll_method`)

Candidates are tried in the fixed order epoll-timerfd, epoll, ppoll, poll; a candidate is skipped when its
name is one of the whitespace-separated words of `IV_EXCLUDE_POLL_METHOD` (each word as `sscanf("%63s")`
reads it: at most 63 characters, a longer word continues as the next word) or when its `init` fails.
-/
namespace Ivy.L1.Select

def isSpace (c : Char) : Bool := c == ' ' || c == '\t' || c == '\n' || c == '\x0b' || c == '\x0c' || c == '\r'

/-- the words `sscanf(exclude, "%63s%n", …)` yields in a loop -/
def words (cs : List Char) (cur : List Char) (fuel : Nat) : List String :=
  match fuel with
  | 0 => []
  | fuel + 1 =>
    match cs with
    | [] => if cur.isEmpty then [] else [String.ofList cur.reverse]
    | c :: rest =>
      if isSpace c then
        if cur.isEmpty then words rest [] fuel else String.ofList cur.reverse :: words rest [] fuel
      else if cur.length == 63 then String.ofList cur.reverse :: words (c :: rest) [] fuel
      else words rest (c :: cur) fuel

def excludeWords (s : String) : List String := words s.toList [] (2 * s.length + 2)

def methodName : Method → String
  | .epollTimerfd => "epoll-timerfd" | .epoll => "epoll" | .ppoll => "ppoll" | .poll => "poll"

def candidates : List Method := [.epollTimerfd, .epoll, .ppoll, .poll]

/-- a candidate is eligible when it is not excluded and its `init` succeeds -/
def eligible (exclude : Option String) (avail : Method → Bool) (m : Method) : Bool :=
  let ex := match exclude with | some s => excludeWords s | none => []
  !ex.contains (methodName m) && avail m

/-- `exclude = none` ⇔ the variable is unset; `avail m` ⇔ `m->init(st) >= 0` -/
def select (exclude : Option String) (avail : Method → Bool) : Option Method :=
  candidates.find? (eligible exclude avail)

/-- the selected method is the first eligible candidate: it is eligible, and every candidate tried before it is not -/
theorem select_first (exclude : Option String) (avail : Method → Bool) (m : Method)
    (h : select exclude avail = some m) :
    eligible exclude avail m = true ∧
    ∃ before after, candidates = before ++ m :: after ∧ ∀ x ∈ before, eligible exclude avail x = false := by
  unfold select at h
  rw [List.find?_eq_some_iff_append] at h
  obtain ⟨hm, before, after, hc, hb⟩ := h
  exact ⟨hm, before, after, hc, fun x hx => by simpa using hb x hx⟩

/-- no method is selected only if no candidate is eligible (then `iv_init` is fatal) -/
theorem select_none (exclude : Option String) (avail : Method → Bool) (h : select exclude avail = none) :
    ∀ m, eligible exclude avail m = false := by
  unfold select at h
  rw [List.find?_eq_none] at h
  intro m
  have : m ∈ candidates := by cases m <;> simp [candidates]
  simpa using h m this

example : select (some "  epoll-timerfd\tppoll ") (fun _ => true) = some .epoll := by decide
example : select (some "epoll") (fun m => m != .epollTimerfd) = some .ppoll := by decide

end Ivy.L1.Select
