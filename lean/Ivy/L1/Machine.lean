import Ivy.L1.Time
/-!
# L1 — the per-thread loop of ivykis as a reactive small-step machine

Mirrors `iv_main_posix.c`, `iv_fd.c`, `iv_fd_epoll.c`, `iv_fd_poll.c`, `iv_task.c`, the loop side
of `iv_timer.c` (through the L0 heap model), `iv_event.c` and `iv_event_raw_posix.c` as seen from
the owner thread.  The loop is suspended at every user callback, so the machine is small-step:

* `Pc.user`      user code runs (set-up code when the stack is empty, else the body of the handler
                 of the top frame); it may issue any `Api` call; `Input.handlerEnd` returns to the library
* `Pc.needTime`  the library called `clock_gettime`; the value is an input
* `Pc.waiting`   the library is inside the kernel wait; the wait's result is an input
* `Pc.needRawRead` `iv_event_raw_got_event` called `read`; the result is an input
* `Pc.run b`     an internal step (one basic block `b` of the C control flow) is enabled

Outputs (`Out`) are the observable records: callback entries, API return values, the kernel wait
entry with the requested interest set and timeout, `iv_main` returning, `iv_fatal`.
Kernel-side state that the library cannot read back (epoll interest set, timerfd arming, one-shot
kick arming) is mirrored in `kint`, `ktimer`, `kickArmed` exactly as the library's own
`epoll_ctl`/`timerfd_settime` calls determine it.
-/
namespace Ivy.L1
open Ivy.Heap (TS Store)

abbrev FdId := Nat
abbrev TaskId := Nat     -- 0 = st->events_local
abbrev EvId := Nat
abbrev RawId := Nat      -- 0 = st->events_kick

/-- the `iv_fd` embedded in raw event `r` -/
def rawFd (r : RawId) : FdId := 1000 + r
def fdRaw? (f : FdId) : Option RawId := if f ≥ 1000 then some (f - 1000) else none

inductive Method | epollTimerfd | epoll | ppoll | poll
deriving DecidableEq, Repr

def Method.isEpoll : Method → Bool
  | .epollTimerfd | .epoll => true
  | _ => false

structure Bands where
  i : Bool := false
  o : Bool := false
  e : Bool := false
deriving DecidableEq, Repr

def Bands.zero : Bands := {}
def Bands.isZero (b : Bands) : Bool := !b.i && !b.o && !b.e
def Bands.union (a b : Bands) : Bands := ⟨a.i || b.i, a.o || b.o, a.e || b.e⟩

structure FdObj where
  hin : Bool := false          -- handler_in != NULL
  hout : Bool := false
  herr : Bool := false
  registered : Bool := false
  ready : Bands := {}
  wanted : Bands := {}
  regBands : Bands := {}       -- registered_bands (what the kernel was last told)
  index : Option Nat := none   -- poll: u.index (none = −1)
  live : Bool := true          -- memory not freed by the user
deriving Repr

structure TaskObj where
  epoch : Nat := 0
  live : Bool := true
deriving Repr

structure EvObj where
  registered : Bool := false
  live : Bool := true
deriving Repr

structure RawObj where
  registered : Bool := false
  live : Bool := true
deriving Repr

/-- raw kernel event bits of one reported descriptor -/
structure KEv where
  kin : Bool := false
  kout : Bool := false
  kerr : Bool := false
  khup : Bool := false
deriving DecidableEq, Repr

inductive WItem
  | fd (f : FdId) (ev : KEv)
  | kick                       -- data.ptr == st
  | ktimer                     -- data.ptr == &st->time
deriving Repr

inductive WRes
  | events (l : List WItem)
  | eintr
  | enosys                     -- ENOSYS (or EPERM for epoll_pwait2): primitive unavailable
deriving Repr

inductive Frame
  | timers (rest : List Nat)                     -- second loop of iv_run_timers
  | tasks (rest : List TaskId)                   -- iv_run_tasks' local list
  | poll (active : List FdId) (rt : Bool)        -- iv_fd_poll_and_run after method->poll collected `active`
  | fd (cur : FdId) (stage : Nat)                -- dispatching `cur`: next band to look at (0 err, 1 in, 2 out, 3 done)
  | events (batch : List EvId)                   -- __iv_event_run_pending_events' local list
deriving Repr

inductive Block
  | mainTop (rt : Bool)
  | collect
  | popTimer
  | startTasks
  | popTask
  | runEvents
  | popEvent
  | resume
  | exitCheck
  | prepWait
  | flush (abs : Option TS) (km : Bool)
  | wait (abs : Option TS) (km : Bool)
  | dispatchNext
  | fdStage
deriving Repr

inductive TimeK
  | forTimers
  | forWait (abs : Option TS) (km : Bool)
  | forValidate
deriving Repr

inductive Pc
  | user
  | needTime (k : TimeK)
  | waiting (abs : Option TS) (km : Bool)
  | needRawRead (r : RawId)
  | run (b : Block)
  | dead
deriving Repr

inductive Api
  | fdRegister (f : FdId) (hin hout herr : Bool)
  | fdRegisterTry (f : FdId) (hin hout herr : Bool) (kernelOk : Bool)
  | fdUnregister (f : FdId)
  | fdSetIn (f : FdId) (v : Bool)
  | fdSetOut (f : FdId) (v : Bool)
  | fdSetErr (f : FdId) (v : Bool)
  | timerRegister (t : Nat) (e : TS)
  | timerUnregister (t : Nat)
  | taskRegister (k : TaskId)
  | taskUnregister (k : TaskId)
  | taskInit (k : TaskId)
  | evRegister (e : EvId) (rawOk : Bool)
  | evUnregister (e : EvId)
  | evPost (e : EvId)
  | rawRegister (r : RawId) (ok : Bool)
  | rawUnregister (r : RawId)
  | quit
  | invalidateNow
  | validateNow
  | main
deriving Repr

inductive Input
  | api (a : Api)
  | handlerEnd
  | time (t : TS)
  | wret (r : WRes)
  | rawRead (ok : Bool)
  | xpost (e : EvId)             -- a foreign thread runs iv_event_post(e) while the owner is in the kernel wait
  | free (kind : Nat) (id : Nat) -- user frees an object (0 fd, 1 timer, 2 task, 3 event, 4 raw)
  | init (kind : Nat) (id : Nat) -- user (re)initialises object memory
deriving Repr

inductive Cb
  | timer (t : Nat)
  | task (k : TaskId)
  | fd (f : FdId) (band : Nat)   -- 0 err, 1 in, 2 out
  | event (e : EvId)
  | raw (r : RawId)
deriving DecidableEq, Repr

inductive Timeout
  | inf
  | ns (v : Int)
  | ms (v : Int)
deriving DecidableEq, Repr

inductive Out
  | cb (c : Cb)
  | ret (v : Int)
  | wait (prim : String) (to : Timeout) (interest : List (FdId × Bands)) (ktimer : Option (Option TS)) (kick : Option Bool)
  | mainRet
  | fatal (msg : String)
  | fault (msg : String)         -- the C code would touch freed memory / index out of bounds
deriving Repr

structure St where
  method : Method
  timerfdAvail : Bool := true
  pwait2 : Bool := true
  useRaw : Bool := false
  quit : Bool := false
  numobjs : Int := 0
  fds : FdId → FdObj := fun _ => {}
  numfds : Int := 0
  handled : Option FdId := none
  lastAbs : TS := ⟨0, 0⟩
  lastAbsCount : Nat := 0
  notify : List FdId := []
  pfds : List (FdId × Bands) := []
  kint : FdId → Option Bands := fun _ => none
  kickReg : Bool := false
  kickArmed : Bool := false
  timerfd : Bool := false
  ktimer : Option TS := none
  taskEpoch : Nat := 0
  tasks : List TaskId := []
  tobjs : TaskId → TaskObj := fun _ => {}
  heap : Store
  time : TS := ⟨0, 0⟩
  timeValid : Bool := false
  tlive : Nat → Bool := fun _ => true
  eventCount : Int := 0
  pending : List EvId := []
  evs : EvId → EvObj := fun _ => {}
  raws : RawId → RawObj := fun _ => {}
  pc : Pc := .user
  stack : List Frame := []

def St.init (m : Method) (ntimers : Nat) (timerfdAvail : Bool := true) (pwait2 : Bool := true) : St :=
  { method := m, heap := Store.init ntimers, timerfdAvail := timerfdAvail, pwait2 := pwait2 }

def upd {α : Type} (f : Nat → α) (k : Nat) (v : α) : Nat → α := fun i => if i = k then v else f i

/-! ## iv_fd.c -/

/-- `recompute_wanted_flags` -/
def wantedOf (o : FdObj) : Bands :=
  if o.registered then ⟨o.hin, o.hout, o.herr⟩ else {}

/-- the `IN`/`OUT` part the kernel is asked for: `bits_to_poll_mask` of iv_fd_epoll.c ignores MASKERR -/
def epollMask (b : Bands) : Bands := ⟨b.i, b.o, false⟩

/-- `iv_fd_epoll_notify_fd` -/
def epollNotify (s : St) (f : FdId) : St :=
  let o := s.fds f
  let n := s.notify.erase f
  { s with notify := if o.regBands != o.wanted then n ++ [f] else n }

/-- `__iv_fd_epoll_flush_one` with a successful `epoll_ctl` -/
def epollFlushOne (s : St) (f : FdId) : St :=
  let o := s.fds f
  let s := { s with notify := s.notify.erase f }
  if o.regBands == o.wanted then s
  else
    { s with kint := upd s.kint f (if o.wanted.isZero then none else some (epollMask o.wanted)),
             fds := upd s.fds f { o with regBands := o.wanted } }

/-- `iv_fd_poll_notify_fd` (with the out-of-bounds store of the unrepaired code guarded away:
the final branch only runs for `index != −1`) -/
def pollNotify (s : St) (f : FdId) : St :=
  let o := s.fds f
  match o.index with
  | none =>
    if !o.wanted.isZero then
      { s with pfds := s.pfds ++ [(f, o.wanted)], fds := upd s.fds f { o with index := some s.pfds.length } }
    else s
  | some i =>
    if o.wanted.isZero then
      let lastIdx := s.pfds.length - 1
      if i != lastIdx then
        match s.pfds[lastIdx]? with
        | some (lf, lb) =>
          let lo := s.fds lf
          { s with pfds := (s.pfds.set i (lf, lb)).dropLast,
                   fds := upd (upd s.fds lf { lo with index := some i }) f { o with index := none } }
        | none => s
      else
        { s with pfds := s.pfds.dropLast, fds := upd s.fds f { o with index := none } }
    else
      { s with pfds := s.pfds.set i (f, o.wanted) }

/-- `notify_fd` of iv_fd.c: recompute wanted, then the method's `notify_fd` -/
def notifyFd (s : St) (f : FdId) : St :=
  let o := s.fds f
  let s := { s with fds := upd s.fds f { o with wanted := wantedOf o } }
  if s.method.isEpoll then epollNotify s f else pollNotify s f

def eraseActive (fr : Frame) (f : FdId) : Frame :=
  match fr with
  | .poll a rt => .poll (a.erase f) rt
  | x => x

/-- `iv_fd_register_prologue` + `notify_fd` + epilogue, for user and internal descriptors -/
def fdRegisterCore (s : St) (f : FdId) (hin hout herr : Bool) : St :=
  let o := s.fds f
  let o := { o with hin, hout, herr, registered := true, ready := {}, regBands := {}, index := none }
  let s := { s with fds := upd s.fds f o, notify := s.notify.erase f }
  let s := notifyFd s f
  { s with numobjs := s.numobjs + 1, numfds := s.numfds + 1 }

/-- `iv_fd_unregister` body after the registered check -/
def fdUnregisterCore (s : St) (f : FdId) : St :=
  let o := s.fds f
  let s := { s with fds := upd s.fds f { o with registered := false }, stack := s.stack.map (eraseActive · f) }
  let s := notifyFd s f
  -- method->unregister_fd: epoll flushes synchronously if the descriptor is on the notify list
  let s := if s.method.isEpoll && s.notify.contains f then epollFlushOne s f else s
  { s with numobjs := s.numobjs - 1, numfds := s.numfds - 1,
           handled := if s.handled == some f then none else s.handled }

/-! ## iv_event_raw_posix.c (owner side) -/

def rawRegisterCore (s : St) (r : RawId) : St :=
  let s := fdRegisterCore s (rawFd r) true false false
  { s with raws := upd s.raws r { (s.raws r) with registered := true } }

def rawUnregisterCore (s : St) (r : RawId) : St :=
  let s := fdUnregisterCore s (rawFd r)
  { s with raws := upd s.raws r { (s.raws r) with registered := false } }

/-! ## iv_task.c -/

def taskOnList (s : St) (k : TaskId) : Bool :=
  s.tasks.contains k || s.stack.any fun fr => match fr with | .tasks rest => rest.contains k | _ => false

def inRunTasks (s : St) : Bool :=
  s.stack.any fun fr => match fr with | .tasks _ => true | _ => false

def appendTaskBatch (fr : Frame) (k : TaskId) : Frame :=
  match fr with
  | .tasks rest => .tasks (rest ++ [k])
  | x => x

def eraseTask (fr : Frame) (k : TaskId) : Frame :=
  match fr with
  | .tasks rest => .tasks (rest.erase k)
  | x => x

/-- `iv_task_register` after the on-a-list check -/
def taskRegisterCore (s : St) (k : TaskId) : St :=
  let s := { s with numobjs := s.numobjs + 1 }
  if !inRunTasks s || (s.tobjs k).epoch == s.taskEpoch then { s with tasks := s.tasks ++ [k] }
  else { s with stack := s.stack.map (appendTaskBatch · k) }

def taskUnregisterCore (s : St) (k : TaskId) : St :=
  { s with numobjs := s.numobjs - 1, tasks := s.tasks.erase k, stack := s.stack.map (eraseTask · k) }

/-! ## iv_event.c (owner side) -/

def evOnList (s : St) (e : EvId) : Bool :=
  s.pending.contains e || s.stack.any fun fr => match fr with | .events b => b.contains e | _ => false

def eraseEvent (fr : Frame) (e : EvId) : Frame :=
  match fr with
  | .events b => .events (b.erase e)
  | x => x

/-! ## timers: the expired batch lives in a frame -/

def timerBatch (s : St) : List Nat :=
  match s.stack.find? (fun fr => match fr with | .timers _ => true | _ => false) with
  | some (.timers rest) => rest
  | _ => []

def setTimerBatch (fr : Frame) (b : List Nat) : Frame :=
  match fr with
  | .timers _ => .timers b
  | x => x

/-! ## API calls (user code running) -/

def fatal (s : St) (msg : String) : St × List Out := ({ s with pc := .dead }, [Out.fatal msg])

def ok (s : St) (v : Int := 0) : St × List Out := (s, [Out.ret v])

def api (s : St) : Api → St × List Out
  | .fdRegister f hin hout herr =>
    if (s.fds f).registered then fatal s "iv_fd_register: called with fd which is still registered"
    else ok (fdRegisterCore s f hin hout herr)
  | .fdRegisterTry f hin hout herr kernelOk =>
    if (s.fds f).registered then fatal s "iv_fd_register: called with fd which is still registered"
    else if !kernelOk then
      -- prologue, notify_fd_sync fails, registered := 0; nothing counted, nothing left queued
      let o := s.fds f
      let o := { o with hin, hout, herr, registered := false, ready := {}, regBands := {}, index := none,
                        wanted := if (hin || hout || herr) then ⟨hin, hout, herr⟩ else ⟨true, true, false⟩ }
      (({ s with fds := upd s.fds f o, notify := s.notify.erase f }), [Out.ret (-1)])
    else
      -- success: the kernel registration is made synchronously (epoll) before returning
      let o := s.fds f
      let o := { o with hin, hout, herr, registered := true, ready := {}, regBands := {}, index := none }
      let orig := wantedOf o
      let w : Bands := if orig.isZero then ⟨true, true, false⟩ else orig
      let s := { s with fds := upd s.fds f { o with wanted := w }, notify := s.notify.erase f }
      let s := if s.method.isEpoll then epollFlushOne s f else pollNotify s f
      let s :=
        if orig.isZero then
          let o := s.fds f
          let s := { s with fds := upd s.fds f { o with wanted := {} } }
          if s.method.isEpoll then epollNotify s f else pollNotify s f
        else s
      ok { s with numobjs := s.numobjs + 1, numfds := s.numfds + 1 }
  | .fdUnregister f =>
    if !(s.fds f).registered then fatal s "iv_fd_unregister: called with fd which is not registered"
    else ok (fdUnregisterCore s f)
  | .fdSetIn f v =>
    if !(s.fds f).registered then fatal s "iv_fd_set_handler_in: called with fd which is not registered"
    else ok (notifyFd { s with fds := upd s.fds f { (s.fds f) with hin := v } } f)
  | .fdSetOut f v =>
    if !(s.fds f).registered then fatal s "iv_fd_set_handler_out: called with fd which is not registered"
    else ok (notifyFd { s with fds := upd s.fds f { (s.fds f) with hout := v } } f)
  | .fdSetErr f v =>
    if !(s.fds f).registered then fatal s "iv_fd_set_handler_err: called with fd which is not registered"
    else ok (notifyFd { s with fds := upd s.fds f { (s.fds f) with herr := v } } f)
  | .timerRegister t e =>
    match Ivy.Heap.register s.heap t e with
    | .ok h => ok { s with heap := h, numobjs := s.numobjs + 1 }
    | .fatal _ m => fatal s m
    | .fault => ({ s with pc := .dead }, [Out.fault "timer heap"])
  | .timerUnregister t =>
    let onHeap := decide (s.heap.idx.getD t (-1) ≥ 1)
    match Ivy.Heap.unregister s.heap (timerBatch s) t with
    | (.ok h, b) =>
      ok { s with heap := h, numobjs := if onHeap then s.numobjs - 1 else s.numobjs,
                  stack := s.stack.map (setTimerBatch · b) }
    | (.fatal _ m, _) => fatal s m
    | (.fault, _) => ({ s with pc := .dead }, [Out.fault "timer heap"])
  | .taskRegister k =>
    if taskOnList s k then fatal s "iv_task_register: called with task still on a list"
    else ok (taskRegisterCore s k)
  | .taskUnregister k =>
    if !taskOnList s k then fatal s "iv_task_unregister: called with task not on a list"
    else ok (taskUnregisterCore s k)
  | .taskInit k => (({ s with tobjs := upd s.tobjs k { (s.tobjs k) with epoch := s.taskEpoch } }), [])
  | .evRegister e rawOk =>
    -- numobjs++ ; if (!event_count++ && mt) { rx_on or raw register }
    let first : Bool := s.eventCount == (0 : Int)
    let s : St := { s with numobjs := s.numobjs + 1, eventCount := s.eventCount + 1 }
    let s : St :=
      if first && !s.useRaw then
        if s.method.isEpoll then { s with kickReg := true, kickArmed := false, numobjs := s.numobjs + 1 }
        else { s with useRaw := true }
      else s
    if first && s.useRaw then
      if rawOk then
        let s := rawRegisterCore s 0
        ok { s with evs := upd s.evs e { (s.evs e) with registered := true } }
      else
        -- failure path (repaired code): both counters restored
        (({ s with eventCount := s.eventCount - 1, numobjs := s.numobjs - 1 }), [Out.ret (-1)])
    else ok { s with evs := upd s.evs e { (s.evs e) with registered := true } }
  | .evUnregister e =>
    let s : St :=
      { s with
        pending := s.pending.erase e
        stack := s.stack.map (eraseEvent · e)
        evs := upd s.evs e { (s.evs e) with registered := false }
        eventCount := s.eventCount - 1 }
    let s : St :=
      if s.eventCount == (0 : Int) then
        if s.useRaw then rawUnregisterCore s 0
        else { s with kickReg := false, kickArmed := false, numobjs := s.numobjs - 1 }
      else s
    ok { s with numobjs := s.numobjs - 1 }
  | .evPost e =>
    if evOnList s e then (s, [])
    else
      let post := s.pending.isEmpty
      let s := { s with pending := s.pending ++ [e] }
      if post && !taskOnList s 0 then (taskRegisterCore s 0, []) else (s, [])
  | .rawRegister r okk =>
    if !okk then (s, [Out.ret (-1)]) else ok (rawRegisterCore s r)
  | .rawUnregister r => (rawUnregisterCore s r, [])
  | .quit => ({ s with quit := true }, [])
  | .invalidateNow => ({ s with timeValid := false }, [])
  | .validateNow => if s.timeValid then (s, []) else ({ s with pc := .needTime .forValidate }, [])
  | .main =>
    match s.stack with
    | [] => ({ s with quit := false, pc := .run (.mainTop true) }, [])
    | _ => fatal s "iv_main called from a handler (not modelled)"

/-! ## the loop: one internal step per basic block -/

def goto (s : St) (b : Block) : St × List Out := ({ s with pc := .run b }, [])

/-- `iv_fd_make_ready` -/
def makeReady (s : St) (active : List FdId) (f : FdId) (b : Bands) : St × List FdId :=
  let o := s.fds f
  if active.contains f then
    ({ s with fds := upd s.fds f { o with ready := o.ready.union b } }, active)
  else
    ({ s with fds := upd s.fds f { o with ready := b } }, active ++ [f])

/-- the three `if (events & …) iv_fd_make_ready(…)` lines of the poll methods -/
def bandsOfKEv (ev : KEv) : Bands :=
  ⟨ev.kin || ev.kerr || ev.khup, ev.kout || ev.kerr || ev.khup, ev.kerr || ev.khup⟩

def activate (s : St) (active : List FdId) (f : FdId) (ev : KEv) : St × List FdId :=
  let b := bandsOfKEv ev
  let (s, a) := if b.i then makeReady s active f ⟨true, false, false⟩ else (s, active)
  let (s, a) := if b.o then makeReady s a f ⟨false, true, false⟩ else (s, a)
  if b.e then makeReady s a f ⟨false, false, true⟩ else (s, a)

/-- `iv_fd_timeout_check`; returns the new state and the return value -/
def timeoutCheck (s : St) (abs : Option TS) : St × Bool :=
  let cmp := tsCmp abs s.lastAbs
  if s.lastAbsCount == 5 && cmp ≥ 0 then (s, true)
  else
    -- clear_poll_timeout
    let s := if s.lastAbsCount == 5 then { s with ktimer := none } else s
    if cmp == 0 then
      let s := if s.lastAbsCount < 5 then { s with lastAbsCount := s.lastAbsCount + 1 } else s
      if s.lastAbsCount == 5 then
        -- set_poll_timeout
        if !s.timerfd && !s.timerfdAvail then ({ s with method := .epoll }, false)
        else
          let v := match abs with
            | some a => if a.sec == 0 && a.nsec == 0 then (⟨0, 1⟩ : TS) else a
            | none => ⟨0, 1⟩
          ({ s with timerfd := true, ktimer := some v }, true)
      else (s, false)
    else
      match abs with
      | some a => ({ s with lastAbsCount := 1, lastAbs := a }, false)
      | none => ({ s with lastAbsCount := 0 }, false)

def primOf (s : St) : String :=
  match s.method with
  | .epollTimerfd | .epoll => if s.pwait2 then "epoll_pwait2" else "epoll_wait"
  | .ppoll => "ppoll"
  | .poll => "poll"

def timeoutOf (s : St) (abs : Option TS) : Timeout :=
  match abs with
  | none => .inf
  | some a =>
    match s.method with
    | .epollTimerfd | .epoll => if s.pwait2 then .ns (TS.toNs (toRelative s.time a)) else .ms (toMsec s.time a)
    | .ppoll => .ns (TS.toNs (toRelative s.time a))
    | .poll => .ms (toMsec s.time a)

/-- what the kernel has been asked to watch at wait entry -/
def interestOf (s : St) (univ : List FdId) : List (FdId × Bands) :=
  if s.method.isEpoll then
    univ.filterMap fun f => (s.kint f).map fun b => (f, b)
  else s.pfds

/-- descriptors that ever existed in this run: those known to the store (bounded by the scenario) -/
def universeOf (s : St) : List FdId :=
  ((List.range 64) ++ (List.range 16).map rawFd).filter fun f => (s.kint f).isSome

def popFrame (s : St) : St := { s with stack := s.stack.tail }
def setTop (s : St) (fr : Frame) : St := { s with stack := fr :: s.stack.tail }

def internal (s : St) (b : Block) : St × List Out :=
  match b with
  | .mainTop rt =>
    if rt then
      if s.heap.num = 0 then goto s .startTasks
      else if s.timeValid then goto s .collect
      else ({ s with pc := .needTime .forTimers }, [])
    else goto s .startTasks
  | .collect =>
    let n0 := s.heap.num
    match Ivy.Heap.runCollect s.heap s.time with
    | (.ok h, batch) =>
      goto { s with heap := h, numobjs := s.numobjs - ((n0 - h.num : Nat) : Int), stack := .timers batch :: s.stack } .popTimer
    | (.fatal _ m, _) => fatal s m
    | (.fault, _) => ({ s with pc := .dead }, [Out.fault "timer heap"])
  | .popTimer =>
    match s.stack with
    | .timers [] :: rest => goto { s with stack := rest } .startTasks
    | .timers (t :: r) :: rest =>
      if !s.tlive t then ({ s with pc := .dead }, [Out.fault s!"use-after-free timer {t}"]) else
      ({ s with heap := { s.heap with idx := s.heap.idx.setIfInBounds t (-1) }, stack := .timers r :: rest, pc := .user },
       [Out.cb (.timer t)])
    | _ => ({ s with pc := .dead }, [Out.fault "control"])
  | .startTasks =>
    goto { s with stack := .tasks s.tasks :: s.stack, tasks := [], taskEpoch := (s.taskEpoch + 1) % 4294967296 } .popTask
  | .popTask =>
    match s.stack with
    | .tasks [] :: rest => goto { s with stack := rest } .exitCheck
    | .tasks (k :: r) :: rest =>
      if !(s.tobjs k).live then ({ s with pc := .dead }, [Out.fault s!"use-after-free task {k}"]) else
      let s := { s with numobjs := s.numobjs - 1, tobjs := upd s.tobjs k { (s.tobjs k) with epoch := s.taskEpoch },
                        stack := .tasks r :: rest }
      if k = 0 then goto s .runEvents else ({ s with pc := .user }, [Out.cb (.task k)])
    | _ => ({ s with pc := .dead }, [Out.fault "control"])
  | .runEvents =>
    if s.pending.isEmpty then goto s .resume
    else goto { s with stack := .events s.pending :: s.stack, pending := [] } .popEvent
  | .popEvent =>
    match s.stack with
    | .events [] :: rest => goto { s with stack := rest } .resume
    | .events (e :: r) :: rest =>
      if !(s.evs e).live then ({ s with pc := .dead }, [Out.fault s!"use-after-free event {e}"]) else
      ({ s with stack := .events r :: rest, pc := .user }, [Out.cb (.event e)])
    | _ => ({ s with pc := .dead }, [Out.fault "control"])
  | .resume =>
    match s.stack with
    | .tasks _ :: _ => goto s .popTask
    | .poll _ _ :: _ => goto s .dispatchNext
    | .fd _ _ :: _ => goto s .fdStage
    | .timers _ :: _ => goto s .popTimer
    | .events _ :: _ => goto s .popEvent
    | [] => ({ s with pc := .dead }, [Out.fault "control"])
  | .exitCheck =>
    if s.quit || s.numobjs == 0 then ({ s with pc := .user }, [Out.mainRet])
    else goto s .prepWait
  | .prepWait =>
    let abs : Option TS := if !s.tasks.isEmpty then some ⟨0, 0⟩ else Ivy.Heap.soonest s.heap
    if s.method == .epollTimerfd then
      let (s, r) := timeoutCheck s abs
      if r then goto s (.flush none true) else goto s (.flush abs false)
    else goto s (.flush abs false)
  | .flush abs km =>
    let s := if s.method.isEpoll then s.notify.foldl epollFlushOne s else s
    if abs.isSome && !s.timeValid then ({ s with pc := .needTime (.forWait abs km) }, [])
    else goto s (.wait abs km)
  | .wait abs km =>
    ({ s with pc := .waiting abs km },
     [Out.wait (primOf s) (timeoutOf s abs) (interestOf s (universeOf s)) (if s.timerfd then some s.ktimer else none)
        (if s.kickReg then some s.kickArmed else none)])
  | .dispatchNext =>
    match s.stack with
    | .poll [] rt :: rest => goto { s with stack := rest } (.mainTop rt)
    | .poll (f :: r) rt :: rest =>
      goto { s with stack := .fd f 0 :: .poll r rt :: rest, handled := some f } .fdStage
    | _ => ({ s with pc := .dead }, [Out.fault "control"])
  | .fdStage =>
    match s.stack with
    | .fd cur stage :: rest =>
      if stage ≥ 3 then goto { s with stack := rest } .dispatchNext
      else if stage ≥ 1 && s.handled.isNone then goto (setTop s (.fd cur (stage + 1))) .fdStage
      else
        let o := s.fds cur
        if !o.live then ({ s with pc := .dead }, [Out.fault s!"use-after-free fd {cur}"]) else
        let want := match stage with
          | 0 => o.ready.e && o.herr
          | 1 => o.ready.i && o.hin
          | _ => o.ready.o && o.hout
        let s := setTop s (.fd cur (stage + 1))
        if want then
          match (if stage = 1 then fdRaw? cur else none) with
          | some r => ({ s with pc := .needRawRead r }, [])
          | none => ({ s with pc := .user }, [Out.cb (.fd cur stage)])
        else goto s .fdStage
    | _ => ({ s with pc := .dead }, [Out.fault "control"])

/-! ## inputs -/

def afterTime (s : St) (t : TS) (k : TimeK) : St × List Out :=
  let s := { s with time := t, timeValid := true }
  match k with
  | .forTimers => goto s .collect
  | .forWait abs km => goto s (.wait abs km)
  | .forValidate => ({ s with pc := .user }, [])

/-- the wait returned: `iv_fd_*_poll` after the system call -/
def afterWait (s : St) (abs : Option TS) (km : Bool) (r : WRes) : St × List Out :=
  match r with
  | .enosys =>
    match s.method with
    | .epollTimerfd | .epoll =>
      if s.pwait2 then goto { s with pwait2 := false } (.wait abs km)
      else fatal s "iv_fd_epoll_poll: got error"
    | .ppoll =>
      -- __iv_invalidate_now, method = poll, iv_fd_poll_poll(st, active, abs) → to_msec reads the clock again
      let s := { s with timeValid := false, method := .poll }
      if abs.isSome then ({ s with pc := .needTime (.forWait abs km) }, []) else goto s (.wait abs km)
    | .poll => fatal s "iv_fd_poll_poll: got error"
  | .eintr =>
    let s := { s with timeValid := false }
    let rt := if s.method == .epollTimerfd then abs.isSome else true
    let s := if km && rt then { s with lastAbsCount := 0 } else s
    goto { s with stack := .poll [] rt :: s.stack } .dispatchNext
  | .events l =>
    let s := { s with timeValid := false }
    let rt0 := if s.method == .epollTimerfd then abs.isSome else true
    let (s, active, rt, runEv) := l.foldl (fun (acc : St × List FdId × Bool × Bool) it =>
        let (s, a, rt, re) := acc
        match it with
        | .kick => ({ s with kickArmed := false }, a, rt, true)
        | .ktimer => ({ s with ktimer := none }, a, true, re)
        | .fd f ev => let (s', a') := activate s a f ev; (s', a', rt, re)) (s, [], rt0, false)
    let s := if km && rt then { s with lastAbsCount := 0 } else s
    let s := { s with stack := .poll active rt :: s.stack }
    if runEv then goto s .runEvents else goto s .dispatchNext

def freeObj (s : St) (kind id : Nat) : St :=
  match kind with
  | 0 => { s with fds := upd s.fds id { (s.fds id) with live := false } }
  | 1 => { s with tlive := upd s.tlive id false }
  | 2 => { s with tobjs := upd s.tobjs id { (s.tobjs id) with live := false } }
  | 3 => { s with evs := upd s.evs id { (s.evs id) with live := false } }
  | _ => { s with raws := upd s.raws id { (s.raws id) with live := false } }

def initObj (s : St) (kind id : Nat) : St :=
  match kind with
  | 0 => { s with fds := upd s.fds id { live := true } }
  | 1 => { s with tlive := upd s.tlive id true }
  | 2 => { s with tobjs := upd s.tobjs id { epoch := s.taskEpoch, live := true } }
  | 3 => { s with evs := upd s.evs id { live := true } }
  | _ => { s with raws := upd s.raws id { live := true } }

/-- one step on an input; `none` = the input is not enabled in this state (protocol error in the log) -/
def input (s : St) (i : Input) : Option (St × List Out) :=
  match s.pc, i with
  | .user, .api a => some (api s a)
  | .user, .handlerEnd =>
    match s.stack with
    | [] => none
    | .timers _ :: _ => some (goto s .popTimer)
    | .tasks _ :: _ => some (goto s .popTask)
    | .events _ :: _ => some (goto s .popEvent)
    | .fd _ _ :: _ => some (goto s .fdStage)
    | .poll _ _ :: _ => none
  | .user, .free k id => some (freeObj s k id, [])
  | .user, .init k id => some (initObj s k id, [])
  | .needTime k, .time t => some (afterTime s t k)
  | .waiting abs km, .wret r => some (afterWait s abs km r)
  | .waiting _ _, .xpost e =>
    if evOnList s e then some (s, [])
    else
      let post := s.pending.isEmpty
      let s := { s with pending := s.pending ++ [e] }
      some ((if post && !s.useRaw then { s with kickArmed := true } else s), [])
  | .needRawRead r, .rawRead okk =>
    if !okk then some (goto s .fdStage)
    else if r = 0 then some (goto s .runEvents)
    else if !(s.raws r).live then some ({ s with pc := .dead }, [Out.fault s!"use-after-free raw {r}"])
    else some ({ s with pc := .user }, [Out.cb (.raw r)])
  | _, _ => none

/-- one machine step: an internal block if one is enabled, else consume the given input -/
def step (s : St) (i : Option Input) : Option (St × List Out) :=
  match s.pc with
  | .run b => some (internal s b)
  | .dead => none
  | _ => i.bind (input s)

end Ivy.L1
