import Ivy.Mon.C02
/-!
# C02 — proof that every L1 trace is accepted by the monitor `Ivy.Mon.C02`

Method: a relation `R μ s` between the monitor state and the machine state (`μ.dead` absorbing, else
`Good μ s`) is shown to hold initially (`good_init`) and to be preserved, with the monitor fold
succeeding, by every internal block (`internal_ok`) and every input (`input_ok`); `exec_ok` inducts on
`Exec`.  `Good` bundles: the book/machine correspondence (`BInv`), the epoll mirror invariant (`EInv`:
notify list ⇔ `regBands ≠ wanted`, `kint` determined by `regBands`, unregistered ⇒ flushed) or the
pollfd-array invariant (`PInv`: index/array bijection, swap-with-last), "user ids < 64", "flushed at the
wait", the frame-stack shape per `pc`, the dispatch-coverage of every owed band (`OwedOk`/`Cover`), and
the raw-event / event-count bookkeeping needed so that the internal descriptor 1000 is never registered twice.
-/
namespace Ivy.L1.ProofsC02
open Ivy.L1 Ivy.Mon Ivy.Mon.C02
open Ivy.Heap (TS)

/-! ## small helpers -/

def bit (r : Bands) : Nat → Bool
  | 0 => r.e
  | 1 => r.i
  | _ => r.o

def hbit (o : FdObj) : Nat → Bool
  | 0 => o.herr
  | 1 => o.hin
  | _ => o.hout

theorem bandHeld_eq (ev : KEv) (b : Nat) : bandHeld ev b = bit (bandsOfKEv ev) b := by
  match b with
  | 0 => simp [bandHeld, bit, bandsOfKEv]
  | 1 => simp [bandHeld, bit, bandsOfKEv]
  | n + 2 => simp [bandHeld, bit, bandsOfKEv]

@[simp] theorem upd_same {α : Type} (f : Nat → α) (k : Nat) (v : α) : upd f k v k = v := by simp [upd]
theorem upd_ne {α : Type} (f : Nat → α) {k j : Nat} (v : α) (h : j ≠ k) : upd f k v j = f j := by simp [upd, h]
theorem upd_apply {α : Type} (f : Nat → α) (k j : Nat) (v : α) : upd f k v j = if j = k then v else f j := rfl

/-! ## the book -/

structure BInv (regd : List FdView) (fds : FdId → FdObj) : Prop where
  sound : ∀ v ∈ regd, v.f < 1000 ∧ (fds v.f).registered = true ∧ v.hin = (fds v.f).hin ∧
    v.hout = (fds v.f).hout ∧ v.herr = (fds v.f).herr
  complete : ∀ f, f < 1000 → (fds f).registered = true → ∃ v ∈ regd, v.f = f

theorem find_some {bk : FdBook} {f : FdId} {v : FdView} (h : bk.find f = some v) : v ∈ bk.regd ∧ v.f = f := by
  unfold FdBook.find at h
  exact ⟨List.mem_of_find?_eq_some h, by simpa using List.find?_some h⟩

theorem find_none {bk : FdBook} {f : FdId} (h : bk.find f = none) : ∀ v ∈ bk.regd, v.f ≠ f := by
  unfold FdBook.find at h
  intro v hv
  simpa using (List.find?_eq_none.1 h) v hv

theorem find_of_reg {bk : FdBook} {fds : FdId → FdObj} (hb : BInv bk.regd fds) {f : FdId} (hf : f < 1000)
    (hr : (fds f).registered = true) :
    ∃ v, bk.find f = some v ∧ v.f = f ∧ v.hin = (fds f).hin ∧ v.hout = (fds f).hout ∧ v.herr = (fds f).herr := by
  cases h : bk.find f with
  | none =>
    obtain ⟨v, hv, hvf⟩ := hb.complete f hf hr
    exact absurd hvf (find_none h v hv)
  | some v =>
    obtain ⟨hv, hvf⟩ := find_some h
    have := hb.sound v hv
    subst hvf
    exact ⟨v, rfl, rfl, this.2.2⟩

theorem find_of_unreg {bk : FdBook} {fds : FdId → FdObj} (hb : BInv bk.regd fds) {f : FdId}
    (hr : ¬ (f < 1000 ∧ (fds f).registered = true)) : bk.find f = none := by
  cases h : bk.find f with
  | none => rfl
  | some v =>
    obtain ⟨hv, hvf⟩ := find_some h
    have := hb.sound v hv
    subst hvf
    exact absurd ⟨this.1, this.2.1⟩ hr

theorem handler_eq {bk : FdBook} {fds : FdId → FdObj} (hb : BInv bk.regd fds) (f : FdId) (b : Nat) :
    bk.handler f b = (decide (f < 1000) && (fds f).registered && hbit (fds f) b) := by
  unfold FdBook.handler
  by_cases hr : f < 1000 ∧ (fds f).registered = true
  · obtain ⟨v, hv, _, h1, h2, h3⟩ := find_of_reg hb hr.1 hr.2
    rw [hv]
    match b with
    | 0 => simp [hbit, hr.1, hr.2, h3]
    | 1 => simp [hbit, hr.1, hr.2, h1]
    | n + 2 => simp [hbit, hr.1, hr.2, h2]
  · rw [find_of_unreg hb hr]
    have : (decide (f < 1000) && (fds f).registered) = false := by
      cases h2 : (fds f).registered with
      | false => simp
      | true =>
        have : ¬ f < 1000 := fun h => hr ⟨h, h2⟩
        simp [this]
    simp [this]

/-- same view at `g` -/
def viewEq (fds fds' : FdId → FdObj) (g : FdId) : Prop :=
  (fds' g).registered = (fds g).registered ∧ (fds' g).hin = (fds g).hin ∧ (fds' g).hout = (fds g).hout ∧
  (fds' g).herr = (fds g).herr

theorem BInv.same {regd : List FdView} {fds fds' : FdId → FdObj} (hb : BInv regd fds)
    (h : ∀ g, g < 1000 → viewEq fds fds' g) : BInv regd fds' := by
  constructor
  · intro v hv
    have := hb.sound v hv
    have e := h v.f this.1
    unfold viewEq at e
    grind
  · intro f hf hr
    have e := h f hf
    unfold viewEq at e
    exact hb.complete f hf (by grind)

theorem BInv.drop {bk : FdBook} {fds fds' : FdId → FdObj} (hb : BInv bk.regd fds) (f : FdId)
    (h : ∀ g, g ≠ f → viewEq fds fds' g) (hf : (fds' f).registered = false) : BInv (bk.drop f).regd fds' := by
  constructor
  · intro v hv
    simp only [FdBook.drop, List.mem_filter, bne_iff_ne, ne_eq] at hv
    have := hb.sound v hv.1
    have e := h v.f hv.2
    unfold viewEq at e
    grind
  · intro g hg hr
    have hgf : g ≠ f := by intro e; subst e; simp [hf] at hr
    have e := h g hgf
    unfold viewEq at e
    obtain ⟨v, hv, hvf⟩ := hb.complete g hg (by grind)
    exact ⟨v, by simp only [FdBook.drop, List.mem_filter, bne_iff_ne, ne_eq]; grind, hvf⟩

theorem BInv.put {bk : FdBook} {fds fds' : FdId → FdObj} (hb : BInv bk.regd fds) (v : FdView)
    (h : ∀ g, g ≠ v.f → viewEq fds fds' g) (hf : v.f < 1000) (hr : (fds' v.f).registered = true)
    (h1 : v.hin = (fds' v.f).hin) (h2 : v.hout = (fds' v.f).hout) (h3 : v.herr = (fds' v.f).herr) :
    BInv (bk.put v).regd fds' := by
  constructor
  · intro w hw
    simp only [FdBook.put, FdBook.drop, List.mem_append, List.mem_filter, bne_iff_ne, ne_eq, List.mem_singleton] at hw
    rcases hw with hw | hw
    · have := hb.sound w hw.1
      have e := h w.f hw.2
      unfold viewEq at e
      grind
    · subst hw; exact ⟨hf, hr, h1, h2, h3⟩
  · intro g hg hrg
    by_cases hgf : g = v.f
    · exact ⟨v, by simp [FdBook.put], hgf.symm⟩
    · have e := h g hgf
      unfold viewEq at e
      obtain ⟨w, hw, hwf⟩ := hb.complete g hg (by grind)
      exact ⟨w, by simp only [FdBook.put, FdBook.drop, List.mem_append, List.mem_filter, bne_iff_ne, ne_eq]; grind, hwf⟩

/-! ## projections through `if` -/

theorem ite_fds (c : Prop) [Decidable c] (a b : St) : (if c then a else b).fds = if c then a.fds else b.fds := apply_ite _ _ _ _
theorem ite_notify (c : Prop) [Decidable c] (a b : St) : (if c then a else b).notify = if c then a.notify else b.notify := apply_ite _ _ _ _
theorem ite_kint (c : Prop) [Decidable c] (a b : St) : (if c then a else b).kint = if c then a.kint else b.kint := apply_ite _ _ _ _
theorem ite_pfds (c : Prop) [Decidable c] (a b : St) : (if c then a else b).pfds = if c then a.pfds else b.pfds := apply_ite _ _ _ _
theorem ite_method (c : Prop) [Decidable c] (a b : St) : (if c then a else b).method = if c then a.method else b.method := apply_ite _ _ _ _
theorem ite_stack (c : Prop) [Decidable c] (a b : St) : (if c then a else b).stack = if c then a.stack else b.stack := apply_ite _ _ _ _
theorem ite_handled (c : Prop) [Decidable c] (a b : St) : (if c then a else b).handled = if c then a.handled else b.handled := apply_ite _ _ _ _
theorem ite_pc (c : Prop) [Decidable c] (a b : St) : (if c then a else b).pc = if c then a.pc else b.pc := apply_ite _ _ _ _

theorem isZero_iff (b : Bands) : b.isZero = true ↔ b = {} := by
  cases b with | mk i o e => cases i <;> cases o <;> cases e <;> simp [Bands.isZero]

/-- the state after a failed `iv_fd_register_try` -/
def tryFail (s : St) (f : FdId) (hin hout herr : Bool) : St :=
  let o := s.fds f
  let o := { o with hin, hout, herr, registered := false, ready := {}, regBands := {}, index := none,
                    wanted := if (hin || hout || herr) then ⟨hin, hout, herr⟩ else ⟨true, true, false⟩ }
  { s with fds := upd s.fds f o, notify := s.notify.erase f }

/-- the state after a successful `iv_fd_register_try` -/
def trySucc (s : St) (f : FdId) (hin hout herr : Bool) : St :=
      let o := s.fds f
      let o := { o with hin, hout, herr, registered := true, ready := {}, regBands := {}, index := none }
      let orig := wantedOf o
      let w : Bands := if orig.isZero then ⟨true, true, false⟩ else orig
      let s := { s with fds := upd s.fds f { o with wanted := w }, notify := s.notify.erase f }
      let s := if s.method.isEpoll then epollFlushOne s f else pollNotify s f
      let s :=
        if orig.isZero then
          let o := s.fds f
          let s := { s with fds := upd s.fds f { o with wanted := {} } }
          if s.method.isEpoll then epollNotify s f else pollNotify s f
        else s
      { s with numobjs := s.numobjs + 1, numfds := s.numfds + 1 }

theorem api_tryFail (s : St) (f : FdId) (i o e : Bool) (hu : (s.fds f).registered = false) :
    api s (.fdRegisterTry f i o e false) = (tryFail s f i o e, [Out.ret (-1)]) := by
  simp [api, hu, tryFail]

theorem api_trySucc (s : St) (f : FdId) (i o e : Bool) (hu : (s.fds f).registered = false) :
    api s (.fdRegisterTry f i o e true) = (trySucc s f i o e, [Out.ret 0]) := by
  simp [api, hu, trySucc, ok]

/-! ## epoll: kernel mirror, notify list -/

structure EInv (fds : FdId → FdObj) (notify : List FdId) (kint : FdId → Option Bands) : Prop where
  nodup : notify.Nodup
  kint : ∀ f, kint f = if (fds f).regBands.isZero then none else some (epollMask (fds f).regBands)
  mem : ∀ f, (fds f).registered = true → (f ∈ notify ↔ (fds f).regBands ≠ (fds f).wanted)
  unreg : ∀ f, (fds f).registered = false → f ∉ notify ∧ (fds f).regBands = {}
  want : ∀ f, (fds f).registered = true → (fds f).wanted = ⟨(fds f).hin, (fds f).hout, (fds f).herr⟩

theorem fdRegisterCore_E (s : St) (f : FdId) (i o e : Bool) (hE : s.method.isEpoll = true)
    (hI : EInv s.fds s.notify s.kint) (hu : (s.fds f).registered = false) :
    EInv (fdRegisterCore s f i o e).fds (fdRegisterCore s f i o e).notify (fdRegisterCore s f i o e).kint := by
  obtain ⟨h1, h2, h3, h4, h5⟩ := hI
  simp only [fdRegisterCore, notifyFd, epollNotify, hE, wantedOf, upd_same, if_true]
  constructor
  · grind
  · grind [upd_apply]
  · grind [upd_apply]
  · grind [upd_apply]
  · grind [upd_apply]

theorem fdUnregisterCore_E (s : St) (f : FdId) (hE : s.method.isEpoll = true)
    (hI : EInv s.fds s.notify s.kint) :
    EInv (fdUnregisterCore s f).fds (fdUnregisterCore s f).notify (fdUnregisterCore s f).kint := by
  obtain ⟨h1, h2, h3, h4, h5⟩ := hI
  simp only [fdUnregisterCore, notifyFd, epollNotify, epollFlushOne, hE, wantedOf, upd_same, if_true,
    ite_fds, ite_notify, ite_kint]
  constructor
  · grind
  · grind [upd_apply]
  · grind [upd_apply]
  · grind [upd_apply]
  · grind [upd_apply]

theorem setIn_E (s : St) (f : FdId) (v : Bool) (hE : s.method.isEpoll = true)
    (hI : EInv s.fds s.notify s.kint) (hu : (s.fds f).registered = true) :
    let s' := notifyFd { s with fds := upd s.fds f { (s.fds f) with hin := v } } f
    EInv s'.fds s'.notify s'.kint := by
  obtain ⟨h1, h2, h3, h4, h5⟩ := hI
  simp only [notifyFd, epollNotify, hE, wantedOf, upd_same, if_true]
  constructor
  · grind
  · grind [upd_apply]
  · grind [upd_apply]
  · grind [upd_apply]
  · grind [upd_apply]

theorem setOut_E (s : St) (f : FdId) (v : Bool) (hE : s.method.isEpoll = true)
    (hI : EInv s.fds s.notify s.kint) (hu : (s.fds f).registered = true) :
    let s' := notifyFd { s with fds := upd s.fds f { (s.fds f) with hout := v } } f
    EInv s'.fds s'.notify s'.kint := by
  obtain ⟨h1, h2, h3, h4, h5⟩ := hI
  simp only [notifyFd, epollNotify, hE, wantedOf, upd_same, if_true]
  constructor
  · grind
  · grind [upd_apply]
  · grind [upd_apply]
  · grind [upd_apply]
  · grind [upd_apply]

theorem setErr_E (s : St) (f : FdId) (v : Bool) (hE : s.method.isEpoll = true)
    (hI : EInv s.fds s.notify s.kint) (hu : (s.fds f).registered = true) :
    let s' := notifyFd { s with fds := upd s.fds f { (s.fds f) with herr := v } } f
    EInv s'.fds s'.notify s'.kint := by
  obtain ⟨h1, h2, h3, h4, h5⟩ := hI
  simp only [notifyFd, epollNotify, hE, wantedOf, upd_same, if_true]
  constructor
  · grind
  · grind [upd_apply]
  · grind [upd_apply]
  · grind [upd_apply]
  · grind [upd_apply]

theorem tryFail_E (s : St) (f : FdId) (i o e : Bool)
    (hI : EInv s.fds s.notify s.kint) (hu : (s.fds f).registered = false) :
    EInv (tryFail s f i o e).fds (tryFail s f i o e).notify (tryFail s f i o e).kint := by
  obtain ⟨h1, h2, h3, h4, h5⟩ := hI
  simp only [tryFail]
  constructor
  · grind
  · grind [upd_apply]
  · grind [upd_apply]
  · grind [upd_apply]
  · grind [upd_apply]

theorem trySucc_E (s : St) (f : FdId) (i o e : Bool) (hE : s.method.isEpoll = true)
    (hI : EInv s.fds s.notify s.kint) (hu : (s.fds f).registered = false) :
    EInv (trySucc s f i o e).fds (trySucc s f i o e).notify (trySucc s f i o e).kint := by
  obtain ⟨h1, h2, h3, h4, h5⟩ := hI
  simp only [trySucc, epollNotify, epollFlushOne, hE, wantedOf, upd_same, if_true,
    ite_fds, ite_notify, ite_kint, ite_method]
  constructor
  · grind
  · grind [upd_apply, isZero_iff]
  · grind [upd_apply, isZero_iff]
  · grind [upd_apply]
  · grind [upd_apply, isZero_iff]

theorem flushOne_E (s : St) (f : FdId)
    (hI : EInv s.fds s.notify s.kint) (hu : (s.fds f).registered = true) :
    EInv (epollFlushOne s f).fds (epollFlushOne s f).notify (epollFlushOne s f).kint := by
  obtain ⟨h1, h2, h3, h4, h5⟩ := hI
  simp only [epollFlushOne, ite_fds, ite_notify, ite_kint]
  constructor
  · grind
  · grind [upd_apply]
  · grind [upd_apply]
  · grind [upd_apply]
  · grind [upd_apply]

/-- everything but `ready`, `live` agrees -/
def coreEq (o o' : FdObj) : Prop :=
  o'.hin = o.hin ∧ o'.hout = o.hout ∧ o'.herr = o.herr ∧ o'.registered = o.registered ∧
  o'.wanted = o.wanted ∧ o'.regBands = o.regBands ∧ o'.index = o.index

theorem EInv.congr {fds fds' : FdId → FdObj} {notify : List FdId} {kint : FdId → Option Bands}
    (hI : EInv fds notify kint) (h : ∀ g, coreEq (fds g) (fds' g)) : EInv fds' notify kint := by
  obtain ⟨h1, h2, h3, h4, h5⟩ := hI
  unfold coreEq at h
  constructor
  · exact h1
  · intro f; have := h f; have := h2 f; grind
  · intro f; have := h f; have := h3 f; grind
  · intro f; have := h f; have := h4 f; grind
  · intro f; have := h f; have := h5 f; grind

/-- resetting the memory of an unregistered descriptor -/
theorem EInv.reset {fds : FdId → FdObj} {notify : List FdId} {kint : FdId → Option Bands}
    (hI : EInv fds notify kint) (f : FdId) (hu : (fds f).registered = false) (o : FdObj)
    (h1 : o.registered = false) (h2 : o.regBands = {}) : EInv (upd fds f o) notify kint := by
  obtain ⟨h1, h2, h3, h4, h5⟩ := hI
  constructor
  · exact h1
  · grind [upd_apply]
  · grind [upd_apply]
  · grind [upd_apply]
  · grind [upd_apply]


/-! ## view frames: steps that leave registration, handlers, ready bits and control alone -/

structure VFrame (s s' : St) : Prop where
  method : s'.method = s.method
  stack : s'.stack = s.stack
  handled : s'.handled = s.handled
  pc : s'.pc = s.pc
  raws : s'.raws = s.raws
  evs : s'.evs = s.evs
  eventCount : s'.eventCount = s.eventCount
  useRaw : s'.useRaw = s.useRaw
  fds : ∀ g, (s'.fds g).registered = (s.fds g).registered ∧ (s'.fds g).hin = (s.fds g).hin ∧
    (s'.fds g).hout = (s.fds g).hout ∧ (s'.fds g).herr = (s.fds g).herr ∧ (s'.fds g).ready = (s.fds g).ready

theorem VFrame.refl (s : St) : VFrame s s := ⟨rfl, rfl, rfl, rfl, rfl, rfl, rfl, rfl, fun _ => ⟨rfl, rfl, rfl, rfl, rfl⟩⟩

theorem VFrame.trans {s1 s2 s3 : St} (h1 : VFrame s1 s2) (h2 : VFrame s2 s3) : VFrame s1 s3 := by
  obtain ⟨a1, a2, a3, a4, a6, a7, a8, a9, a5⟩ := h1
  obtain ⟨b1, b2, b3, b4, b6, b7, b8, b9, b5⟩ := h2
  refine ⟨by rw [b1, a1], by rw [b2, a2], by rw [b3, a3], by rw [b4, a4], by rw [b6, a6], by rw [b7, a7],
    by rw [b8, a8], by rw [b9, a9], fun g => ?_⟩
  have := a5 g; have := b5 g; grind

theorem epollNotify_V (s : St) (f : FdId) : VFrame s (epollNotify s f) := by
  simp only [epollNotify]
  exact ⟨rfl, rfl, rfl, rfl, rfl, rfl, rfl, rfl, fun _ => ⟨rfl, rfl, rfl, rfl, rfl⟩⟩

theorem epollFlushOne_V (s : St) (f : FdId) : VFrame s (epollFlushOne s f) := by
  simp only [epollFlushOne]
  split
  · exact ⟨rfl, rfl, rfl, rfl, rfl, rfl, rfl, rfl, fun _ => ⟨rfl, rfl, rfl, rfl, rfl⟩⟩
  · refine ⟨rfl, rfl, rfl, rfl, rfl, rfl, rfl, rfl, fun g => ?_⟩
    simp only [upd_apply]
    split <;> simp_all

theorem pollNotify_V (s : St) (f : FdId) : VFrame s (pollNotify s f) := by
  unfold pollNotify
  simp only
  split
  · split
    · refine ⟨rfl, rfl, rfl, rfl, rfl, rfl, rfl, rfl, fun g => ?_⟩
      simp only [upd_apply]
      split <;> simp_all
    · exact VFrame.refl s
  · split
    · split
      · split
        · refine ⟨rfl, rfl, rfl, rfl, rfl, rfl, rfl, rfl, fun g => ?_⟩
          simp only [upd_apply]
          split
          · simp_all
          · split <;> simp_all
        · exact VFrame.refl s
      · refine ⟨rfl, rfl, rfl, rfl, rfl, rfl, rfl, rfl, fun g => ?_⟩
        simp only [upd_apply]
        split <;> simp_all
    · exact ⟨rfl, rfl, rfl, rfl, rfl, rfl, rfl, rfl, fun _ => ⟨rfl, rfl, rfl, rfl, rfl⟩⟩

theorem setWanted_V (s : St) (f : FdId) (w : Bands) :
    VFrame s { s with fds := upd s.fds f { (s.fds f) with wanted := w } } := by
  refine ⟨rfl, rfl, rfl, rfl, rfl, rfl, rfl, rfl, fun g => ?_⟩
  simp only [upd_apply]
  split <;> simp_all

theorem notifyFd_V (s : St) (f : FdId) : VFrame s (notifyFd s f) := by
  unfold notifyFd
  simp only
  split
  · exact (setWanted_V s f _).trans (epollNotify_V _ f)
  · exact (setWanted_V s f _).trans (pollNotify_V _ f)

/-! ## the flush loop -/

theorem flush_fold (l : List FdId) : ∀ (s : St), s.notify = l → EInv s.fds s.notify s.kint →
    EInv (l.foldl epollFlushOne s).fds (l.foldl epollFlushOne s).notify (l.foldl epollFlushOne s).kint ∧
    (l.foldl epollFlushOne s).notify = [] ∧ VFrame s (l.foldl epollFlushOne s) := by
  induction l with
  | nil => intro s hn hI; exact ⟨hI, hn, VFrame.refl s⟩
  | cons f r ih =>
    intro s hn hI
    have hreg : (s.fds f).registered = true := by
      cases h : (s.fds f).registered with
      | true => rfl
      | false => exact absurd (by rw [hn]; simp) (hI.unreg f h).1
    have hI' := flushOne_E s f hI hreg
    have hn' : (epollFlushOne s f).notify = r := by
      simp only [epollFlushOne, ite_notify, hn]
      simp
    obtain ⟨a, b, c⟩ := ih (epollFlushOne s f) hn' hI'
    exact ⟨a, b, (epollFlushOne_V s f).trans c⟩

/-! ## poll: the pollfd array -/

structure PInv (fds : FdId → FdObj) (pfds : List (FdId × Bands)) : Prop where
  idx : ∀ f i, (fds f).index = some i → pfds[i]? = some (f, (fds f).wanted)
  back : ∀ i f b, pfds[i]? = some (f, b) → (fds f).index = some i
  zero : ∀ f, (fds f).registered = true → ((fds f).index = none ↔ (fds f).wanted.isZero = true)
  unreg : ∀ f, (fds f).registered = false → (fds f).index = none
  want : ∀ f, (fds f).registered = true → (fds f).wanted = ⟨(fds f).hin, (fds f).hout, (fds f).herr⟩

/-- weak form: the entry of `f0` may carry stale bands, and nothing is known about `f0` otherwise -/
structure PInvW (f0 : FdId) (fds : FdId → FdObj) (pfds : List (FdId × Bands)) : Prop where
  idx : ∀ f i, (fds f).index = some i → ∃ b, pfds[i]? = some (f, b) ∧ (f ≠ f0 → b = (fds f).wanted)
  back : ∀ i f b, pfds[i]? = some (f, b) → (fds f).index = some i
  zero : ∀ f, f ≠ f0 → (fds f).registered = true → ((fds f).index = none ↔ (fds f).wanted.isZero = true)
  unreg : ∀ f, f ≠ f0 → (fds f).registered = false → (fds f).index = none
  want : ∀ f, f ≠ f0 → (fds f).registered = true → (fds f).wanted = ⟨(fds f).hin, (fds f).hout, (fds f).herr⟩

/-- what `pollNotify` re-establishes -/
structure PInvR (f0 : FdId) (fds : FdId → FdObj) (pfds : List (FdId × Bands)) : Prop where
  idx : ∀ f i, (fds f).index = some i → pfds[i]? = some (f, (fds f).wanted)
  back : ∀ i f b, pfds[i]? = some (f, b) → (fds f).index = some i
  zero : ∀ f, f ≠ f0 → (fds f).registered = true → ((fds f).index = none ↔ (fds f).wanted.isZero = true)
  unreg : ∀ f, f ≠ f0 → (fds f).registered = false → (fds f).index = none
  want : ∀ f, f ≠ f0 → (fds f).registered = true → (fds f).wanted = ⟨(fds f).hin, (fds f).hout, (fds f).herr⟩
  zero0 : (fds f0).index = none ↔ (fds f0).wanted.isZero = true

theorem pollNotify_R (s : St) (f : FdId) (h : PInvW f s.fds s.pfds) :
    PInvR f (pollNotify s f).fds (pollNotify s f).pfds ∧
    (∀ g, (((pollNotify s f).fds g).hin = (s.fds g).hin ∧ ((pollNotify s f).fds g).hout = (s.fds g).hout ∧
      ((pollNotify s f).fds g).herr = (s.fds g).herr ∧ ((pollNotify s f).fds g).registered = (s.fds g).registered ∧
      ((pollNotify s f).fds g).wanted = (s.fds g).wanted)) := by
  obtain ⟨h1, h2, h3, h4, h5⟩ := h
  unfold pollNotify
  simp only
  split
  · next hidx =>
    split
    · refine ⟨⟨?_, ?_, ?_, ?_, ?_, ?_⟩, ?_⟩ <;> grind [upd_apply]
    · refine ⟨⟨?_, ?_, ?_, ?_, ?_, ?_⟩, ?_⟩ <;> grind [upd_apply]
  · next i hidx =>
    obtain ⟨b0, hb0, -⟩ := h1 f i hidx
    have hlt : i < s.pfds.length := by
      rcases Nat.lt_or_ge i s.pfds.length with h | h
      · exact h
      · simp [List.getElem?_eq_none h] at hb0
    split
    · split
      · split
        · next lf lb hl =>
          have hlf := h2 _ _ _ hl
          refine ⟨⟨?_, ?_, ?_, ?_, ?_, ?_⟩, ?_⟩
          · intro g j hg
            simp only [upd_apply] at hg ⊢
            grind
          · intro j g b hg
            simp only [upd_apply]
            grind
          all_goals grind [upd_apply]
        · next hn =>
          exfalso
          have : s.pfds.length - 1 < s.pfds.length := by omega
          simp at hn
          omega
      · refine ⟨⟨?_, ?_, ?_, ?_, ?_, ?_⟩, ?_⟩
        · intro g j hg
          simp only [upd_apply] at hg ⊢
          grind
        · intro j g b hg
          simp only [upd_apply]
          grind
        all_goals grind [upd_apply]
    · refine ⟨⟨?_, ?_, ?_, ?_, ?_, ?_⟩, ?_⟩
      · intro g j hg
        grind
      · intro j g b hg
        grind
      all_goals grind [upd_apply]

theorem PInv.toW {fds : FdId → FdObj} {pfds : List (FdId × Bands)} (h : PInv fds pfds) (f : FdId)
    (fds' : FdId → FdObj) (hne : ∀ g, g ≠ f → fds' g = fds g) (hidx : (fds' f).index = (fds f).index) :
    PInvW f fds' pfds := by
  obtain ⟨h1, h2, h3, h4, h5⟩ := h
  constructor
  · intro g i hg
    by_cases e : g = f
    · subst e; rw [hidx] at hg; exact ⟨_, h1 _ _ hg, fun h => absurd rfl h⟩
    · rw [hne g e] at hg ⊢; exact ⟨_, h1 _ _ hg, fun _ => rfl⟩
  · intro i g b hg
    by_cases e : g = f
    · subst e; rw [hidx]; exact h2 _ _ _ hg
    · rw [hne g e]; exact h2 _ _ _ hg
  · intro g e; rw [hne g e]; exact h3 g
  · intro g e; rw [hne g e]; exact h4 g
  · intro g e; rw [hne g e]; exact h5 g

theorem PInvR.toW {f : FdId} {fds : FdId → FdObj} {pfds : List (FdId × Bands)} (h : PInvR f fds pfds)
    (fds' : FdId → FdObj) (hne : ∀ g, g ≠ f → fds' g = fds g) (hidx : (fds' f).index = (fds f).index) :
    PInvW f fds' pfds := by
  obtain ⟨h1, h2, h3, h4, h5, _⟩ := h
  constructor
  · intro g i hg
    by_cases e : g = f
    · subst e; rw [hidx] at hg; exact ⟨_, h1 _ _ hg, fun h => absurd rfl h⟩
    · rw [hne g e] at hg ⊢; exact ⟨_, h1 _ _ hg, fun _ => rfl⟩
  · intro i g b hg
    by_cases e : g = f
    · subst e; rw [hidx]; exact h2 _ _ _ hg
    · rw [hne g e]; exact h2 _ _ _ hg
  · intro g e; rw [hne g e]; exact h3 g e
  · intro g e; rw [hne g e]; exact h4 g e
  · intro g e; rw [hne g e]; exact h5 g e

theorem PInvR.toInv {f : FdId} {fds : FdId → FdObj} {pfds : List (FdId × Bands)} (h : PInvR f fds pfds)
    (hw : (fds f).registered = true → (fds f).wanted = ⟨(fds f).hin, (fds f).hout, (fds f).herr⟩)
    (hu : (fds f).registered = false → (fds f).wanted = {}) : PInv fds pfds := by
  obtain ⟨h1, h2, h3, h4, h5, h6⟩ := h
  constructor
  · exact h1
  · exact h2
  · intro g hg
    by_cases e : g = f
    · subst e; exact h6
    · exact h3 g e hg
  · intro g hg
    by_cases e : g = f
    · subst e; rw [h6, hu hg]; rfl
    · exact h4 g e hg
  · intro g hg
    by_cases e : g = f
    · subst e; exact hw hg
    · exact h5 g e hg

theorem PInv.congr {fds fds' : FdId → FdObj} {pfds : List (FdId × Bands)}
    (hI : PInv fds pfds) (h : ∀ g, coreEq (fds g) (fds' g)) : PInv fds' pfds := by
  obtain ⟨h1, h2, h3, h4, h5⟩ := hI
  unfold coreEq at h
  constructor
  · intro f i; have := h f; have := h1 f i; grind
  · intro i f b; have := h f; have := h2 i f b; grind
  · intro f; have := h f; have := h3 f; grind
  · intro f; have := h f; have := h4 f; grind
  · intro f; have := h f; have := h5 f; grind

theorem PInv.reset {fds : FdId → FdObj} {pfds : List (FdId × Bands)}
    (hI : PInv fds pfds) (f : FdId) (hu : (fds f).registered = false) (o : FdObj)
    (h1 : o.registered = false) (h2 : o.index = none) : PInv (upd fds f o) pfds := by
  have := hI.unreg f hu
  obtain ⟨h1, h2, h3, h4, h5⟩ := hI
  constructor
  · grind [upd_apply]
  · grind [upd_apply]
  · grind [upd_apply]
  · grind [upd_apply]
  · grind [upd_apply]


theorem PInvW.mod {f : FdId} {fds : FdId → FdObj} {pfds : List (FdId × Bands)} (h : PInvW f fds pfds)
    (fds' : FdId → FdObj) (hne : ∀ g, g ≠ f → fds' g = fds g) (hidx : (fds' f).index = (fds f).index) :
    PInvW f fds' pfds := by
  obtain ⟨h1, h2, h3, h4, h5⟩ := h
  constructor
  · intro g i hg
    by_cases e : g = f
    · subst e; rw [hidx] at hg
      obtain ⟨b, hb, _⟩ := h1 _ _ hg
      exact ⟨b, hb, fun h => absurd rfl h⟩
    · rw [hne g e] at hg ⊢; exact h1 _ _ hg
  · intro i g b hg
    by_cases e : g = f
    · subst e; rw [hidx]; exact h2 _ _ _ hg
    · rw [hne g e]; exact h2 _ _ _ hg
  · intro g e; rw [hne g e]; exact h3 g e
  · intro g e; rw [hne g e]; exact h4 g e
  · intro g e; rw [hne g e]; exact h5 g e

theorem notifyFd_P (s : St) (f : FdId) (hP : s.method.isEpoll = false) (hW : PInvW f s.fds s.pfds) :
    PInv (notifyFd s f).fds (notifyFd s f).pfds := by
  unfold notifyFd
  simp only [hP, Bool.false_eq_true, if_false]
  have hW' := hW.mod (upd s.fds f { (s.fds f) with wanted := wantedOf (s.fds f) })
    (fun g hg => upd_ne _ _ hg) (by simp)
  obtain ⟨hR, hF⟩ := pollNotify_R { s with fds := upd s.fds f { (s.fds f) with wanted := wantedOf (s.fds f) } } f hW'
  have hf := hF f
  simp only [upd_same] at hf
  apply hR.toInv
  · intro hr
    rw [hf.2.2.2.1] at hr
    rw [hf.2.2.2.2, hf.1, hf.2.1, hf.2.2.1]
    simp [wantedOf, hr]
  · intro hr
    rw [hf.2.2.2.1] at hr
    rw [hf.2.2.2.2]
    simp [wantedOf, hr]

theorem fdRegisterCore_P (s : St) (f : FdId) (i o e : Bool) (hP : s.method.isEpoll = false)
    (hI : PInv s.fds s.pfds) (hu : (s.fds f).registered = false) :
    PInv (fdRegisterCore s f i o e).fds (fdRegisterCore s f i o e).pfds := by
  simp only [fdRegisterCore]
  apply notifyFd_P
  · exact hP
  · exact hI.toW f _ (fun g hg => upd_ne _ _ hg) (by simp [hI.unreg f hu])

theorem fdUnregisterCore_P (s : St) (f : FdId) (hP : s.method.isEpoll = false)
    (hI : PInv s.fds s.pfds) :
    PInv (fdUnregisterCore s f).fds (fdUnregisterCore s f).pfds := by
  have hm := (notifyFd_V { s with fds := upd s.fds f { (s.fds f) with registered := false }, stack := s.stack.map (eraseActive · f) } f).method
  simp only at hm
  simp only [fdUnregisterCore, hm, hP, Bool.false_and, Bool.false_eq_true, if_false]
  apply notifyFd_P
  · exact hP
  · exact hI.toW f _ (fun g hg => upd_ne _ _ hg) (by simp)

theorem setIn_P (s : St) (f : FdId) (v : Bool) (hP : s.method.isEpoll = false) (hI : PInv s.fds s.pfds) :
    let s' := notifyFd { s with fds := upd s.fds f { (s.fds f) with hin := v } } f
    PInv s'.fds s'.pfds := by
  apply notifyFd_P
  · exact hP
  · exact hI.toW f _ (fun g hg => upd_ne _ _ hg) (by simp)

theorem setOut_P (s : St) (f : FdId) (v : Bool) (hP : s.method.isEpoll = false) (hI : PInv s.fds s.pfds) :
    let s' := notifyFd { s with fds := upd s.fds f { (s.fds f) with hout := v } } f
    PInv s'.fds s'.pfds := by
  apply notifyFd_P
  · exact hP
  · exact hI.toW f _ (fun g hg => upd_ne _ _ hg) (by simp)

theorem setErr_P (s : St) (f : FdId) (v : Bool) (hP : s.method.isEpoll = false) (hI : PInv s.fds s.pfds) :
    let s' := notifyFd { s with fds := upd s.fds f { (s.fds f) with herr := v } } f
    PInv s'.fds s'.pfds := by
  apply notifyFd_P
  · exact hP
  · exact hI.toW f _ (fun g hg => upd_ne _ _ hg) (by simp)

theorem tryFail_P (s : St) (f : FdId) (i o e : Bool)
    (hI : PInv s.fds s.pfds) (hu : (s.fds f).registered = false) :
    PInv (tryFail s f i o e).fds (tryFail s f i o e).pfds := by
  simp only [tryFail]
  exact hI.reset f hu _ rfl rfl

theorem trySucc_P (s : St) (f : FdId) (i o e : Bool) (hP : s.method.isEpoll = false)
    (hI : PInv s.fds s.pfds) (hu : (s.fds f).registered = false) :
    PInv (trySucc s f i o e).fds (trySucc s f i o e).pfds := by
  have hidx := hI.unreg f hu
  simp only [trySucc, hP, Bool.false_eq_true, if_false]
  generalize hs1 : ({ s with fds := upd s.fds f _, notify := s.notify.erase f } : St) = s1
  have hW1 : PInvW f s1.fds s1.pfds := by
    subst hs1
    exact hI.toW f _ (fun g hg => upd_ne _ _ hg) (by simp [hidx])
  obtain ⟨hR, hF⟩ := pollNotify_R s1 f hW1
  have hm : (pollNotify s1 f).method.isEpoll = false := by
    rw [(pollNotify_V s1 f).method]; subst hs1; exact hP
  have hf := hF f
  have e1 : (s1.fds f).hin = i := by subst hs1; simp
  have e2 : (s1.fds f).hout = o := by subst hs1; simp
  have e3 : (s1.fds f).herr = e := by subst hs1; simp
  have e4 : (s1.fds f).registered = true := by subst hs1; simp
  rw [e1, e2, e3, e4] at hf
  split
  · next hz =>
    have hz' : (i = false ∧ o = false) ∧ e = false := by
      simpa [wantedOf, Bands.isZero] using hz
    simp only [hm, Bool.false_eq_true, if_false]
    have hW2 := hR.toW (upd (pollNotify s1 f).fds f { ((pollNotify s1 f).fds f) with wanted := {} })
      (fun g hg => upd_ne _ _ hg) (by simp)
    obtain ⟨hR2, hF2⟩ := pollNotify_R { pollNotify s1 f with fds := upd (pollNotify s1 f).fds f { ((pollNotify s1 f).fds f) with wanted := {} } } f hW2
    have hf2 := hF2 f
    simp only [upd_same] at hf2
    apply hR2.toInv
    · intro _
      rw [hf2.2.2.2.2, hf2.1, hf2.2.1, hf2.2.2.1, hf.1, hf.2.1, hf.2.2.1]
      simp [hz'.1.1, hz'.1.2, hz'.2]
    · intro hr
      rw [hf2.2.2.2.1, hf.2.2.2.1] at hr
      simp at hr
  · next hz =>
    have e5 : (s1.fds f).wanted = ⟨i, o, e⟩ := by
      subst hs1
      simp only [upd_same]
      rw [if_neg hz]
      simp [wantedOf]
    apply hR.toInv
    · intro _
      rw [hf.2.2.2.2, hf.1, hf.2.1, hf.2.2.1, e5]
    · intro hr
      rw [hf.2.2.2.1] at hr
      simp at hr

/-! ## the frame stack -/

def kind : Frame → Nat
  | .timers _ => 0
  | .tasks _ => 1
  | .poll _ _ => 2
  | .fd _ _ => 3
  | .events _ => 4

def kinds (st : List Frame) : List Nat := st.map kind

def wfk (l : List Nat) : Bool :=
  decide (l ∈ [[], [0], [1], [4, 1], [2], [4, 2], [3, 2], [4, 3, 2]])

def midk (l : List Nat) : Bool := decide (l ∈ [[1], [2], [3, 2]])

def shapeOk (pc : Pc) (st : List Frame) : Bool :=
  match pc with
  | .run (.mainTop _) | .run .collect | .run .startTasks | .run .exitCheck | .run .prepWait
  | .run (.flush _ _) | .run (.wait _ _) | .needTime .forTimers | .needTime (.forWait _ _)
  | .waiting _ _ => decide (kinds st = [])
  | .run .runEvents | .run .resume => midk (kinds st)
  | .needRawRead _ => decide (kinds st = [3, 2])
  | .dead => true
  | _ => wfk (kinds st)

def pcFlushed : Pc → Bool
  | .run (.wait _ _) | .needTime (.forWait _ _) | .waiting _ _ => true
  | _ => false

def activeOf : List Frame → List FdId
  | [] => []
  | fr :: rest => match fr with
    | .poll a _ => a
    | _ => activeOf rest

def curOf : List Frame → Option (FdId × Nat)
  | [] => none
  | fr :: rest => match fr with
    | .fd c st => some (c, st)
    | _ => curOf rest

theorem kinds_map (g : Frame → Frame) (hg : ∀ fr, kind (g fr) = kind fr) (st : List Frame) :
    kinds (st.map g) = kinds st := by
  simp [kinds, List.map_map, Function.comp_def, hg]

theorem activeOf_map (g : Frame → Frame) (hg : ∀ fr, kind (g fr) = kind fr)
    (hp : ∀ a rt, g (.poll a rt) = .poll a rt) (st : List Frame) : activeOf (st.map g) = activeOf st := by
  induction st with
  | nil => rfl
  | cons fr rest ih =>
    cases fr with
    | poll a rt => simp [activeOf, hp]
    | timers x => have := hg (.timers x); cases h : g (.timers x) <;> simp_all [kind, activeOf]
    | tasks x => have := hg (.tasks x); cases h : g (.tasks x) <;> simp_all [kind, activeOf]
    | fd x y => have := hg (.fd x y); cases h : g (.fd x y) <;> simp_all [kind, activeOf]
    | events x => have := hg (.events x); cases h : g (.events x) <;> simp_all [kind, activeOf]

theorem curOf_map (g : Frame → Frame) (hg : ∀ fr, kind (g fr) = kind fr)
    (hp : ∀ c st, g (.fd c st) = .fd c st) (st : List Frame) : curOf (st.map g) = curOf st := by
  induction st with
  | nil => rfl
  | cons fr rest ih =>
    cases fr with
    | fd c st => simp [curOf, hp]
    | timers x => have := hg (.timers x); cases h : g (.timers x) <;> simp_all [kind, curOf]
    | tasks x => have := hg (.tasks x); cases h : g (.tasks x) <;> simp_all [kind, curOf]
    | poll x y => have := hg (.poll x y); cases h : g (.poll x y) <;> simp_all [kind, curOf]
    | events x => have := hg (.events x); cases h : g (.events x) <;> simp_all [kind, curOf]

theorem kind_eraseActive (f : FdId) (fr : Frame) : kind (eraseActive fr f) = kind fr := by cases fr <;> rfl
theorem kind_eraseTask (f : TaskId) (fr : Frame) : kind (eraseTask fr f) = kind fr := by cases fr <;> rfl
theorem kind_appendTaskBatch (f : TaskId) (fr : Frame) : kind (appendTaskBatch fr f) = kind fr := by cases fr <;> rfl
theorem kind_eraseEvent (f : EvId) (fr : Frame) : kind (eraseEvent fr f) = kind fr := by cases fr <;> rfl
theorem kind_setTimerBatch (b : List Nat) (fr : Frame) : kind (setTimerBatch fr b) = kind fr := by cases fr <;> rfl

theorem activeOf_eraseActive (f : FdId) (st : List Frame) :
    activeOf (st.map (eraseActive · f)) = (activeOf st).erase f := by
  induction st with
  | nil => rfl
  | cons fr rest ih => cases fr <;> simp_all [activeOf, eraseActive]

theorem curOf_eraseActive (f : FdId) (st : List Frame) : curOf (st.map (eraseActive · f)) = curOf st :=
  curOf_map _ (kind_eraseActive f) (fun _ _ => rfl) st

/-! ## the invariant -/

/-- the owed entry `p` is still going to be visited by the dispatch loop -/
def Cover (s : St) (p : FdId × Nat) : Prop :=
  p.1 ∈ activeOf s.stack ∨ ∃ st, curOf s.stack = some (p.1, st) ∧ s.handled = some p.1 ∧ st ≤ p.2

structure OwedOk (s : St) (p : FdId × Nat) : Prop where
  lt : p.1 < 1000
  band : p.2 ≤ 2
  reg : (s.fds p.1).registered = true
  hset : hbit (s.fds p.1) p.2 = true
  rdy : bit (s.fds p.1).ready p.2 = true
  cov : Cover s p

structure Good (μ : M) (s : St) : Prop where
  ndead : μ.dead = false
  gt : μ.gt = []
  pend : μ.book.pending = none
  book : BInv μ.book.regd s.fds
  fin : if s.method.isEpoll = true then EInv s.fds s.notify s.kint else PInv s.fds s.pfds
  univ : ∀ f, (s.fds f).registered = true → f < 1000 → f < 64
  flushed : s.method.isEpoll = true → pcFlushed s.pc = true → s.notify = []
  shape : shapeOk s.pc s.stack = true
  owed : ∀ p ∈ μ.owed, OwedOk s p
  rawsync : ∀ r, (s.fds (rawFd r)).registered = (s.raws r).registered
  evcount : ∃ l : List EvId, l.Nodup ∧ (∀ e, (s.evs e).registered = true ↔ e ∈ l) ∧ s.eventCount = (l.length : Int)
  raw0 : (s.raws 0).registered = true → s.eventCount ≥ 1 ∧ s.useRaw = true

def R (μ : M) (s : St) : Prop := μ.dead = true ∨ Good μ s

/-- steps that do not touch descriptors at all -/
theorem Good.frame {μ μ' : M} {s s' : St} (hG : Good μ s)
    (hd : μ'.dead = false) (hgt : μ'.gt = []) (hb : μ'.book = μ.book)
    (h1 : s'.fds = s.fds) (h2 : s'.notify = s.notify) (h3 : s'.pfds = s.pfds) (h4 : s'.kint = s.kint)
    (h5 : s'.method.isEpoll = s.method.isEpoll)
    (h6 : s'.raws = s.raws) (h7 : s'.evs = s.evs) (h8 : s'.eventCount = s.eventCount)
    (h9 : shapeOk s'.pc s'.stack = true) (h10 : pcFlushed s'.pc = true → s.method.isEpoll = true → pcFlushed s.pc = true)
    (hO : ∀ p ∈ μ'.owed, p ∈ μ.owed ∧ (OwedOk s p → Cover s' p))
    (hur : s'.useRaw = s.useRaw := by rfl) : Good μ' s' := by
  obtain ⟨g1, g2, g3, g4, g5, g6, g7, g8, g9, g10, g11, g12⟩ := hG
  refine ⟨hd, hgt, by rw [hb]; exact g3, by rw [hb, h1]; exact g4, ?_, by rw [h1]; exact g6, ?_, h9, ?_,
    by rw [h1, h6]; exact g10, by rw [h7, h8]; exact g11, by rw [h6, h8, hur]; exact g12⟩
  · rw [h5, h1, h2, h3, h4]; exact g5
  · intro a b; rw [h2]; rw [h5] at a; exact g7 a (h10 b a)
  · intro p hp
    obtain ⟨hp1, hp2⟩ := hO p hp
    have hk := g9 p hp1
    obtain ⟨a, b, c, d, e, f⟩ := hk
    exact ⟨a, b, by rw [h1]; exact c, by rw [h1]; exact d, by rw [h1]; exact e, hp2 ⟨a, b, c, d, e, f⟩⟩

/-! ## monitor steps -/

theorem fold_dead (μ : M) (hd : μ.dead = true) (evs : List Ev) : evs.foldlM C02.step μ = .ok μ := by
  induction evs with
  | nil => rfl
  | cons e r ih =>
    rw [List.foldlM_cons]
    have : C02.step μ e = .ok μ := by simp [C02.step, hd]
    rw [this]
    exact ih

theorem fold_one (μ : M) (e : Ev) : [e].foldlM C02.step μ = C02.step μ e := by
  simp [List.foldlM_cons]

/-- result of a step: the monitor continues and the relation holds -/
def Res (μ : M) (evs : List Ev) (s' : St) : Prop := ∃ μ', evs.foldlM C02.step μ = .ok μ' ∧ R μ' s'

theorem Res.nil {μ : M} {s' : St} (h : Good μ s') : Res μ [] s' := ⟨μ, rfl, Or.inr h⟩

theorem Res.fatal {μ : M} {s' : St} (hd : μ.dead = false) (m : String) : Res μ [Ev.out (.fatal m)] s' := by
  refine ⟨{ μ with dead := true }, ?_, Or.inl rfl⟩
  rw [fold_one]; simp [C02.step, hd]

theorem Res.fault {μ : M} {s' : St} (hd : μ.dead = false) (m : String) : Res μ [Ev.out (.fault m)] s' := by
  refine ⟨{ μ with dead := true }, ?_, Or.inl rfl⟩
  rw [fold_one]; simp [C02.step, hd]

theorem step_cb_other (μ : M) (hd : μ.dead = false) (c : Cb) (hc : ∀ f b, c ≠ .fd f b) :
    C02.step μ (.out (.cb c)) = .ok μ := by
  cases c with
  | fd f b => exact absurd rfl (hc f b)
  | _ => cases μ; simp_all [C02.step, FdBook.step]

theorem Res.cb {μ : M} {s' : St} (c : Cb) (hc : ∀ f b, c ≠ .fd f b) (h : Good μ s') :
    Res μ [Ev.out (.cb c)] s' := by
  refine ⟨μ, ?_, Or.inr h⟩
  rw [fold_one, step_cb_other μ h.ndead c hc]

theorem owed_nil {μ : M} {s : St} (hG : Good μ s) (hst : s.stack = []) : μ.owed = [] := by
  apply List.eq_nil_iff_forall_not_mem.2
  intro p hp
  have := (hG.owed p hp).cov
  simp [Cover, hst, activeOf, curOf] at this

theorem kinds_nil {st : List Frame} (h : kinds st = []) : st = [] := by
  simpa [kinds] using h

theorem midk_wfk {l : List Nat} (h : midk l = true) : wfk l = true := by
  simp only [midk, decide_eq_true_eq] at h
  simp only [wfk, decide_eq_true_eq]
  simp only [List.mem_cons, List.not_mem_nil, or_false] at h ⊢
  rcases h with h | h | h <;> simp [h]

theorem midk_wfk4 {l : List Nat} (h : midk l = true) : wfk (4 :: l) = true := by
  simp only [midk, decide_eq_true_eq] at h
  simp only [wfk, decide_eq_true_eq]
  simp only [List.mem_cons, List.not_mem_nil, or_false] at h ⊢
  rcases h with h | h | h <;> simp [h]

theorem wfk4_midk {l : List Nat} (h : wfk (4 :: l) = true) : midk l = true := by
  simp only [wfk, decide_eq_true_eq] at h
  simp only [midk, decide_eq_true_eq]
  simp only [List.mem_cons, List.not_mem_nil, or_false] at h ⊢
  simp at h
  rcases h with h | h | h <;> simp [h]

theorem want_eq (o : FdObj) (stage : Nat) :
    (match stage with
      | 0 => o.ready.e && o.herr
      | 1 => o.ready.i && o.hin
      | _ => o.ready.o && o.hout) = (bit o.ready stage && hbit o stage) := by
  match stage with
  | 0 => rfl
  | 1 => rfl
  | n + 2 => rfl




structure CtlFrame (s s' : St) : Prop where
  fds : s'.fds = s.fds
  notify : s'.notify = s.notify
  pfds : s'.pfds = s.pfds
  kint : s'.kint = s.kint
  stack : s'.stack = s.stack
  handled : s'.handled = s.handled
  pc : s'.pc = s.pc
  raws : s'.raws = s.raws
  evs : s'.evs = s.evs
  eventCount : s'.eventCount = s.eventCount
  useRaw : s'.useRaw = s.useRaw

theorem ite_fst {α β : Type} (c : Prop) [Decidable c] (a b : α × β) : (if c then a else b).1 = if c then a.1 else b.1 := apply_ite _ _ _ _

theorem timeoutCheck_frame (s : St) (abs : Option TS) :
    CtlFrame s (timeoutCheck s abs).1 ∧
    ((timeoutCheck s abs).1.method = s.method ∨ (timeoutCheck s abs).1.method = .epoll) := by
  unfold timeoutCheck
  simp only [ite_fst]
  cases abs with
  | none =>
    simp only
    refine ⟨⟨?_, ?_, ?_, ?_, ?_, ?_, ?_, ?_, ?_, ?_, ?_⟩, ?_⟩
    · simp only [apply_ite St.fds, ite_self]
    · simp only [apply_ite St.notify, ite_self]
    · simp only [apply_ite St.pfds, ite_self]
    · simp only [apply_ite St.kint, ite_self]
    · simp only [apply_ite St.stack, ite_self]
    · simp only [apply_ite St.handled, ite_self]
    · simp only [apply_ite St.pc, ite_self]
    · simp only [apply_ite St.raws, ite_self]
    · simp only [apply_ite St.evs, ite_self]
    · simp only [apply_ite St.eventCount, ite_self]
    · simp only [apply_ite St.useRaw, ite_self]
    · simp only [apply_ite St.method, ite_self]
      repeat' split
      all_goals first | exact Or.inl rfl | exact Or.inr rfl
  | some a =>
    simp only
    refine ⟨⟨?_, ?_, ?_, ?_, ?_, ?_, ?_, ?_, ?_, ?_, ?_⟩, ?_⟩
    · simp only [apply_ite St.fds, ite_self]
    · simp only [apply_ite St.notify, ite_self]
    · simp only [apply_ite St.pfds, ite_self]
    · simp only [apply_ite St.kint, ite_self]
    · simp only [apply_ite St.stack, ite_self]
    · simp only [apply_ite St.handled, ite_self]
    · simp only [apply_ite St.pc, ite_self]
    · simp only [apply_ite St.raws, ite_self]
    · simp only [apply_ite St.evs, ite_self]
    · simp only [apply_ite St.eventCount, ite_self]
    · simp only [apply_ite St.useRaw, ite_self]
    · simp only [apply_ite St.method, ite_self]
      repeat' split
      all_goals first | exact Or.inl rfl | exact Or.inr rfl





theorem eraseDups_of_nodup : ∀ (l : List Nat), l.Nodup → l.eraseDups = l
  | [], _ => by simp
  | a :: as, h => by
    rw [List.eraseDups_cons]
    have h' := List.nodup_cons.1 h
    have : as.filter (fun b => !b == a) = as := by
      apply List.filter_eq_self.2
      intro b hb
      have : b ≠ a := fun e => h'.1 (e ▸ hb)
      simpa using this
    rw [this, eraseDups_of_nodup as h'.2]

theorem checkInterest_none (bk : FdBook) (fds : FdId → FdObj) (interest : List (FdId × Bands))
    (hb : BInv bk.regd fds)
    (I1 : ∀ p ∈ interest, p.1 < 1000 → (fds p.1).registered = true ∧
      ((fds p.1).hin || (fds p.1).hout || (fds p.1).herr) = true ∧ p.2.i = (fds p.1).hin ∧ p.2.o = (fds p.1).hout)
    (I2 : ∀ f, f < 1000 → (fds f).registered = true → ((fds f).hin || (fds f).hout || (fds f).herr) = true →
      ∃ b, (f, b) ∈ interest)
    (I3 : (interest.map (·.1)).Nodup) : checkInterest bk interest = none := by
  unfold checkInterest
  simp only
  split
  · next e he =>
    exfalso
    obtain ⟨v, hv, hfv⟩ := List.exists_of_findSome?_eq_some he
    obtain ⟨hv1, hv2, hv3, hv4, hv5⟩ := hb.sound v hv
    split at hfv
    · next i o f' b hE hF =>
      have hE' : i = v.hin ∧ o = v.hout := by
        simp only [expectInterest] at hE
        split at hE
        · simp at hE; exact ⟨hE.1.symm, hE.2.symm⟩
        · simp at hE
      have hp := List.mem_of_find?_eq_some hF
      have hpf := List.find?_some hF
      simp only [List.mem_filter, decide_eq_true_eq, beq_iff_eq] at hp hpf
      have := I1 _ hp.1 hp.2
      simp only at this hpf
      rw [hpf] at this
      rw [hE'.1, hE'.2, hv3, hv4, this.2.2.1, this.2.2.2] at hfv
      simp at hfv
    · next x hE hF =>
      have hE' : (v.hin || v.hout || v.herr) = true := by
        simp only [expectInterest] at hE
        split at hE
        · assumption
        · simp at hE
      obtain ⟨b, hb'⟩ := I2 v.f hv1 hv2 (by rw [← hv3, ← hv4, ← hv5]; exact hE')
      have := List.find?_eq_none.1 hF (v.f, b) (by simp [hb', hv1])
      simp at this
    · next p hE hF =>
      have hp := List.mem_of_find?_eq_some hF
      have hpf := List.find?_some hF
      simp only [List.mem_filter, decide_eq_true_eq, beq_iff_eq] at hp hpf
      have := (I1 p hp.1 hp.2).2.1
      rw [hpf, ← hv3, ← hv4, ← hv5] at this
      simp [expectInterest, this] at hE
    · simp at hfv
  · split
    · next f b hF =>
      exfalso
      have hp := List.mem_of_find?_eq_some hF
      have hpf := List.find?_some hF
      simp only [List.mem_filter, decide_eq_true_eq] at hp
      obtain ⟨v, hv, _⟩ := find_of_reg hb hp.2 (I1 _ hp.1 hp.2).1
      simp [hv] at hpf
    · have h3 : ((interest.filter (·.1 < 1000)).map (·.1)).Nodup :=
        List.Sublist.nodup (List.Sublist.map _ List.filter_sublist) I3
      rw [eraseDups_of_nodup _ h3]
      simp





theorem univ_nodup : (List.range 64 ++ (List.range 16).map rawFd).Nodup := by decide

theorem keys_filterMap (k : FdId → Option Bands) (U : List FdId) :
    (U.filterMap (fun f => (k f).map fun b => (f, b))).map (·.1) = U.filter (fun f => (k f).isSome) := by
  induction U with
  | nil => rfl
  | cons a r ih =>
    cases h : k a with
    | none => simp [h, ih]
    | some b => simp [h, ih]

theorem isZero_mk (i o e : Bool) : Bands.isZero ⟨i, o, e⟩ = !(i || o || e) := by
  cases i <;> cases o <;> cases e <;> rfl

theorem or_of_not_isZero (i o e : Bool) (h : ¬ Bands.isZero ⟨i, o, e⟩ = true) : (i || o || e) = true := by
  cases i <;> cases o <;> cases e <;> simp_all [Bands.isZero]

theorem interest_E {fds : FdId → FdObj} {kint : FdId → Option Bands}
    (hI : EInv fds [] kint) (hU : ∀ f, (fds f).registered = true → f < 1000 → f < 64) :
    let interest := (((List.range 64) ++ (List.range 16).map rawFd).filter fun f => (kint f).isSome).filterMap
      fun f => (kint f).map fun b => (f, b)
    (∀ p ∈ interest, p.1 < 1000 → (fds p.1).registered = true ∧
      ((fds p.1).hin || (fds p.1).hout || (fds p.1).herr) = true ∧ p.2.i = (fds p.1).hin ∧ p.2.o = (fds p.1).hout) ∧
    (∀ f, f < 1000 → (fds f).registered = true → ((fds f).hin || (fds f).hout || (fds f).herr) = true →
      ∃ b, (f, b) ∈ interest) ∧
    (interest.map (·.1)).Nodup := by
  obtain ⟨h1, h2, h3, h4, h5⟩ := hI
  have hreg : ∀ f, (fds f).registered = true → (fds f).regBands = ⟨(fds f).hin, (fds f).hout, (fds f).herr⟩ := by
    intro f hf
    have := (h3 f hf)
    simp only [List.not_mem_nil, ne_eq, false_iff, Decidable.not_not] at this
    rw [this]; exact h5 f hf
  refine ⟨?_, ?_, ?_⟩
  · intro p hp _
    simp only [List.mem_filterMap, List.mem_filter, Option.map_eq_some_iff] at hp
    obtain ⟨a, _, b, hb, hab⟩ := hp
    subst hab
    simp only
    have hk := h2 a
    rw [hb] at hk
    have hr : (fds a).registered = true := by
      cases h : (fds a).registered with
      | true => rfl
      | false => rw [(h4 a h).2] at hk; simp [Bands.isZero] at hk
    rw [hreg a hr] at hk
    split at hk
    · simp at hk
    · next hz =>
      simp only [Option.some.injEq] at hk
      subst hk
      refine ⟨hr, ?_, rfl, rfl⟩
      exact or_of_not_isZero _ _ _ hz
  · intro f hf hr hh
    have hk := h2 f
    rw [hreg f hr] at hk
    have hz : (Bands.isZero ⟨(fds f).hin, (fds f).hout, (fds f).herr⟩) = false := by
      rw [isZero_mk, hh]; rfl
    rw [hz] at hk
    simp only [Bool.false_eq_true, if_false] at hk
    refine ⟨epollMask ⟨(fds f).hin, (fds f).hout, (fds f).herr⟩, ?_⟩
    simp only [List.mem_filterMap, List.mem_filter, Option.map_eq_some_iff]
    refine ⟨f, ⟨?_, by simp [hk]⟩, _, hk, rfl⟩
    simp only [List.mem_append, List.mem_range]
    left; exact hU f hr hf
  · rw [keys_filterMap]
    exact List.Sublist.nodup (List.filter_sublist.trans List.filter_sublist) univ_nodup

theorem interest_P {fds : FdId → FdObj} {pfds : List (FdId × Bands)} (hI : PInv fds pfds) :
    (∀ p ∈ pfds, p.1 < 1000 → (fds p.1).registered = true ∧
      ((fds p.1).hin || (fds p.1).hout || (fds p.1).herr) = true ∧ p.2.i = (fds p.1).hin ∧ p.2.o = (fds p.1).hout) ∧
    (∀ f, f < 1000 → (fds f).registered = true → ((fds f).hin || (fds f).hout || (fds f).herr) = true →
      ∃ b, (f, b) ∈ pfds) ∧
    (pfds.map (·.1)).Nodup := by
  obtain ⟨h1, h2, h3, h4, h5⟩ := hI
  refine ⟨?_, ?_, ?_⟩
  · intro p hp _
    obtain ⟨i, hi⟩ := List.mem_iff_getElem?.1 hp
    have hidx := h2 i p.1 p.2 hi
    have hw := h1 _ _ hidx
    rw [hi] at hw
    have hr : (fds p.1).registered = true := by
      cases h : (fds p.1).registered with
      | true => rfl
      | false => rw [h4 _ h] at hidx; simp at hidx
    have hz := h3 _ hr
    have hwant := h5 _ hr
    have hp2 : p.2 = (fds p.1).wanted := by
      simp only [Option.some.injEq] at hw
      have := congrArg Prod.snd hw
      simpa using this
    rw [hp2, hwant]
    refine ⟨hr, ?_, rfl, rfl⟩
    rw [hidx, hwant] at hz
    exact or_of_not_isZero _ _ _ (fun h => by simpa using hz.2 h)
  · intro f hf hr hh
    have hz := h3 _ hr
    have hwant := h5 _ hr
    cases hidx : (fds f).index with
    | none =>
      exfalso
      rw [hidx, hwant, isZero_mk, hh] at hz
      simp at hz
    | some i =>
      exact ⟨_, List.mem_iff_getElem?.2 ⟨i, h1 f i hidx⟩⟩
  · rw [List.Nodup, List.pairwise_map, List.pairwise_iff_getElem]
    intro i j hi hj hij heq
    have a := h2 i (pfds[i]).1 (pfds[i]).2 (by simp [List.getElem?_eq_getElem hi])
    have b := h2 j (pfds[j]).1 (pfds[j]).2 (by simp [List.getElem?_eq_getElem hj])
    rw [heq] at a
    rw [a] at b
    simp at b
    omega




/-- a step that only moves control: pc and possibly non-dispatch frames -/
theorem Good.ctl {μ : M} {s s' : St} (hG : Good μ s)
    (h1 : s'.fds = s.fds) (h2 : s'.notify = s.notify) (h3 : s'.pfds = s.pfds) (h4 : s'.kint = s.kint)
    (h5 : s'.method.isEpoll = s.method.isEpoll)
    (h6 : s'.raws = s.raws) (h7 : s'.evs = s.evs) (h8 : s'.eventCount = s.eventCount)
    (h9 : shapeOk s'.pc s'.stack = true) (h10 : pcFlushed s'.pc = true → s.method.isEpoll = true → pcFlushed s.pc = true)
    (hO : ∀ p, OwedOk s p → Cover s' p) (hur : s'.useRaw = s.useRaw := by rfl) : Good μ s' :=
  hG.frame hG.ndead hG.gt rfl h1 h2 h3 h4 h5 h6 h7 h8 h9 h10 (fun p hp => ⟨hp, hO p⟩) hur

theorem BInv.same' {regd : List FdView} {fds fds' : FdId → FdObj} (hb : BInv regd fds)
    (hr : ∀ g, g < 1000 → (fds' g).registered = (fds g).registered)
    (h : ∀ g, g < 1000 → (fds g).registered = true →
      (fds' g).hin = (fds g).hin ∧ (fds' g).hout = (fds g).hout ∧ (fds' g).herr = (fds g).herr) :
    BInv regd fds' := by
  constructor
  · intro v hv
    have := hb.sound v hv
    have e := h v.f this.1 this.2.1
    have e' := hr v.f this.1
    grind
  · intro f hf hr'
    exact hb.complete f hf (by rw [← hr f hf]; exact hr')

/-- a step that changes descriptors only in fields the monitor-side bookkeeping does not see -/
theorem Good.view {μ : M} {s s' : St} (hG : Good μ s)
    (hst : s'.stack = s.stack) (hh : s'.handled = s.handled)
    (hreg : ∀ g, (s'.fds g).registered = (s.fds g).registered)
    (hf : ∀ g, (s.fds g).registered = true → (s'.fds g).hin = (s.fds g).hin ∧
      (s'.fds g).hout = (s.fds g).hout ∧ (s'.fds g).herr = (s.fds g).herr ∧ (s'.fds g).ready = (s.fds g).ready)
    (h6 : ∀ r, (s'.raws r).registered = (s.raws r).registered)
    (h7 : ∀ e, (s'.evs e).registered = (s.evs e).registered) (h8 : s'.eventCount = s.eventCount)
    (hfin : if s'.method.isEpoll = true then EInv s'.fds s'.notify s'.kint else PInv s'.fds s'.pfds)
    (hfl : s'.method.isEpoll = true → pcFlushed s'.pc = true → s'.notify = [])
    (hsh : shapeOk s'.pc s'.stack = true) (hur : s'.useRaw = s.useRaw := by rfl) : Good μ s' := by
  obtain ⟨g1, g2, g3, g4, g5, g6, g7, g8, g9, g10, g11, g12⟩ := hG
  refine ⟨g1, g2, g3, ?_, hfin, ?_, hfl, hsh, ?_, ?_, ?_, by rw [h6, h8, hur]; exact g12⟩
  · exact g4.same' (fun g _ => hreg g) (fun g _ hr => by have := hf g hr; exact ⟨this.1, this.2.1, this.2.2.1⟩)
  · intro f; rw [hreg f]; exact g6 f
  · intro p hp
    obtain ⟨a, b, c, d, e, f⟩ := g9 p hp
    have := hf p.1 c
    refine ⟨a, b, by rw [hreg]; exact c, ?_, by rw [this.2.2.2]; exact e, ?_⟩
    · have e1 : hbit (s'.fds p.1) p.2 = hbit (s.fds p.1) p.2 := by
        unfold hbit; rw [this.1, this.2.1, this.2.2.1]
      rw [e1]; exact d
    · simpa only [Cover, hst, hh] using f
  · intro r; rw [hreg, h6]; exact g10 r
  · obtain ⟨l, hl1, hl2, hl3⟩ := g11
    exact ⟨l, hl1, fun e => by rw [h7]; exact hl2 e, by rw [h8]; exact hl3⟩

theorem wfk3 {l : List Nat} (h : wfk (3 :: l) = true) : l = [2] := by
  simpa [wfk] using h

theorem internal_ok {μ : M} {s : St} (hG : Good μ s) (b : Block) (hpc : s.pc = .run b) :
    Res μ ((internal s b).2.map Ev.out) (internal s b).1 := by
  have hsh := hG.shape
  rw [hpc] at hsh
  cases b with
  | mainTop rt =>
    simp only [shapeOk, decide_eq_true_eq] at hsh
    simp only [internal, goto]
    split
    · split
      · exact Res.nil (hG.ctl rfl rfl rfl rfl rfl rfl rfl rfl (by simpa [shapeOk] using hsh) (by simp [pcFlushed]) (fun p hp => hp.cov))
      · split
        · exact Res.nil (hG.ctl rfl rfl rfl rfl rfl rfl rfl rfl (by simpa [shapeOk] using hsh) (by simp [pcFlushed]) (fun p hp => hp.cov))
        · exact Res.nil (hG.ctl rfl rfl rfl rfl rfl rfl rfl rfl (by simpa [shapeOk] using hsh) (by simp [pcFlushed]) (fun p hp => hp.cov))
    · exact Res.nil (hG.ctl rfl rfl rfl rfl rfl rfl rfl rfl (by simpa [shapeOk] using hsh) (by simp [pcFlushed]) (fun p hp => hp.cov))
  | collect =>
    simp only [shapeOk, decide_eq_true_eq] at hsh
    simp only [internal, goto]
    split
    · refine Res.nil (hG.ctl rfl rfl rfl rfl rfl rfl rfl rfl ?_ (by simp [pcFlushed]) (fun p hp => ?_))
      · simp [shapeOk, kinds, kind, wfk] at hsh ⊢; simp [hsh]
      · simpa [Cover, activeOf, curOf] using hp.cov
    · exact Res.fatal hG.ndead _
    · exact Res.fault hG.ndead _
  | popTimer =>
    simp only [internal, goto]
    split
    · next rest hst =>
      rw [hst] at hsh
      have : rest = [] := by simpa [shapeOk, kinds, kind, wfk] using hsh
      subst this
      refine Res.nil (hG.ctl rfl rfl rfl rfl rfl rfl rfl rfl ?_ (by simp [pcFlushed]) (fun p hp => ?_))
      · simp [shapeOk, kinds]
      · simpa [Cover, hst, activeOf, curOf] using hp.cov
    · next t r rest hst =>
      rw [hst] at hsh
      split
      · exact Res.fault hG.ndead _
      · refine Res.cb _ (by simp) (hG.ctl rfl rfl rfl rfl rfl rfl rfl rfl ?_ (by simp [pcFlushed]) (fun p hp => ?_))
        · simpa [shapeOk, kinds, kind] using hsh
        · simpa [Cover, hst, activeOf, curOf] using hp.cov
    · exact Res.fault hG.ndead _
  | startTasks =>
    simp only [shapeOk, decide_eq_true_eq] at hsh
    simp only [internal, goto]
    refine Res.nil (hG.ctl rfl rfl rfl rfl rfl rfl rfl rfl ?_ (by simp [pcFlushed]) (fun p hp => ?_))
    · simp [shapeOk, kinds, kind, wfk] at hsh ⊢; simp [hsh]
    · simpa [Cover, activeOf, curOf] using hp.cov
  | popTask =>
    simp only [internal, goto]
    split
    · next rest hst =>
      rw [hst] at hsh
      have : rest = [] := by simpa [shapeOk, kinds, kind, wfk] using hsh
      subst this
      refine Res.nil (hG.ctl rfl rfl rfl rfl rfl rfl rfl rfl ?_ (by simp [pcFlushed]) (fun p hp => ?_))
      · simp [shapeOk, kinds]
      · simpa [Cover, hst, activeOf, curOf] using hp.cov
    · next k r rest hst =>
      rw [hst] at hsh
      have : rest = [] := by simpa [shapeOk, kinds, kind, wfk] using hsh
      subst this
      split
      · exact Res.fault hG.ndead _
      · split
        · refine Res.nil (hG.ctl rfl rfl rfl rfl rfl rfl rfl rfl ?_ (by simp [pcFlushed]) (fun p hp => ?_))
          · simp [shapeOk, kinds, kind, midk]
          · simpa [Cover, hst, activeOf, curOf] using hp.cov
        · refine Res.cb _ (by simp) (hG.ctl rfl rfl rfl rfl rfl rfl rfl rfl ?_ (by simp [pcFlushed]) (fun p hp => ?_))
          · simp [shapeOk, kinds, kind, wfk]
          · simpa [Cover, hst, activeOf, curOf] using hp.cov
    · exact Res.fault hG.ndead _
  | runEvents =>
    simp only [shapeOk] at hsh
    simp only [internal, goto]
    split
    · exact Res.nil (hG.ctl rfl rfl rfl rfl rfl rfl rfl rfl (by simpa [shapeOk] using hsh) (by simp [pcFlushed]) (fun p hp => hp.cov))
    · refine Res.nil (hG.ctl rfl rfl rfl rfl rfl rfl rfl rfl ?_ (by simp [pcFlushed]) (fun p hp => ?_))
      · simpa [shapeOk, kinds, kind] using midk_wfk4 hsh
      · simpa [Cover, activeOf, curOf] using hp.cov
  | popEvent =>
    simp only [internal, goto]
    split
    · next rest hst =>
      rw [hst] at hsh
      refine Res.nil (hG.ctl rfl rfl rfl rfl rfl rfl rfl rfl ?_ (by simp [pcFlushed]) (fun p hp => ?_))
      · simp only [shapeOk, kinds, kind, List.map_cons] at hsh ⊢; exact wfk4_midk hsh
      · simpa [Cover, hst, activeOf, curOf] using hp.cov
    · next e r rest hst =>
      rw [hst] at hsh
      split
      · exact Res.fault hG.ndead _
      · refine Res.cb _ (by simp) (hG.ctl rfl rfl rfl rfl rfl rfl rfl rfl ?_ (by simp [pcFlushed]) (fun p hp => ?_))
        · simpa [shapeOk, kinds, kind] using hsh
        · simpa [Cover, hst, activeOf, curOf] using hp.cov
    · exact Res.fault hG.ndead _
  | resume =>
    simp only [shapeOk] at hsh
    have hw := midk_wfk hsh
    simp only [internal, goto]
    split
    · exact Res.nil (hG.ctl rfl rfl rfl rfl rfl rfl rfl rfl (by simpa [shapeOk] using hw) (by simp [pcFlushed]) (fun p hp => hp.cov))
    · exact Res.nil (hG.ctl rfl rfl rfl rfl rfl rfl rfl rfl (by simpa [shapeOk] using hw) (by simp [pcFlushed]) (fun p hp => hp.cov))
    · exact Res.nil (hG.ctl rfl rfl rfl rfl rfl rfl rfl rfl (by simpa [shapeOk] using hw) (by simp [pcFlushed]) (fun p hp => hp.cov))
    · exact Res.nil (hG.ctl rfl rfl rfl rfl rfl rfl rfl rfl (by simpa [shapeOk] using hw) (by simp [pcFlushed]) (fun p hp => hp.cov))
    · exact Res.nil (hG.ctl rfl rfl rfl rfl rfl rfl rfl rfl (by simpa [shapeOk] using hw) (by simp [pcFlushed]) (fun p hp => hp.cov))
    · exact Res.fault hG.ndead _
  | exitCheck =>
    simp only [shapeOk, decide_eq_true_eq] at hsh
    have hst := kinds_nil hsh
    have ho := owed_nil hG hst
    simp only [internal, goto]
    split
    · refine ⟨{ μ with owed := [] }, ?_, Or.inr ?_⟩
      · rw [List.map_cons, List.map_nil, fold_one]
        simp [C02.step, hG.ndead, ho, FdBook.step]
      · exact hG.frame hG.ndead hG.gt rfl rfl rfl rfl rfl rfl rfl rfl rfl (by simp [shapeOk, hst, kinds, wfk]) (by simp [pcFlushed]) (fun p hp => by simp at hp)
    · exact Res.nil (hG.ctl rfl rfl rfl rfl rfl rfl rfl rfl (by simpa [shapeOk] using hsh) (by simp [pcFlushed]) (fun p hp => hp.cov))
  | dispatchNext =>
    simp only [internal, goto]
    split
    · next rt rest hst =>
      rw [hst] at hsh
      have : rest = [] := by simpa [shapeOk, kinds, kind, wfk] using hsh
      subst this
      refine Res.nil (hG.ctl rfl rfl rfl rfl rfl rfl rfl rfl ?_ (by simp [pcFlushed]) (fun p hp => ?_))
      · simp [shapeOk, kinds]
      · simpa [Cover, hst, activeOf, curOf] using hp.cov
    · next f r rt rest hst =>
      rw [hst] at hsh
      have : rest = [] := by simpa [shapeOk, kinds, kind, wfk] using hsh
      subst this
      refine Res.nil (hG.ctl rfl rfl rfl rfl rfl rfl rfl rfl ?_ (by simp [pcFlushed]) (fun p hp => ?_))
      · simp [shapeOk, kinds, kind, wfk]
      · have := hp.cov
        simp only [Cover, hst, activeOf, curOf, List.mem_cons] at this ⊢
        rcases this with (h | h) | h
        · right; exact ⟨0, by rw [h], by rw [h], Nat.zero_le _⟩
        · left; exact h
        · simp at h
    · exact Res.fault hG.ndead _
  | fdStage =>
    simp only [internal, goto, setTop]
    split
    · next cur stage rest hst =>
      rw [hst] at hsh
      have hk : kinds rest = [2] := by
        simp only [shapeOk, kinds, List.map_cons, kind] at hsh
        exact wfk3 hsh
      have hshape : ∀ st', kinds (Frame.fd cur st' :: s.stack.tail) = [3, 2] := by
        intro st'
        simp only [hst, List.tail_cons, kinds, List.map_cons, kind]
        rw [show List.map kind rest = [2] from hk]
      have hcov : ∀ (p : FdId × Nat) (st' : Nat) (s' : St), OwedOk s p →
          (p.1 = cur → s.handled = some cur → stage ≤ p.2 → st' ≤ p.2) →
          s'.stack = Frame.fd cur st' :: rest → s'.handled = s.handled → Cover s' p := by
        intro p st' s' hp hh hs1 hs2
        have := hp.cov
        simp only [Cover, hst, hs1, hs2, activeOf, curOf] at this ⊢
        rcases this with h | ⟨st, h1, h2, h3⟩
        · left; exact h
        · right
          simp only [Option.some.injEq, Prod.mk.injEq] at h1
          obtain ⟨h1a, h1b⟩ := h1
          subst h1b
          exact ⟨st', by rw [h1a], h2, hh h1a.symm (by rw [h2, h1a]) h3⟩
      split
      · next hge =>
        refine Res.nil (hG.ctl rfl rfl rfl rfl rfl rfl rfl rfl ?_ (by simp [pcFlushed]) (fun p hp => ?_))
        · simp [shapeOk, hk, wfk]
        · have := hp.cov
          have hb := hp.band
          simp only [Cover, hst, activeOf, curOf] at this ⊢
          rcases this with h | ⟨st, h1, h2, h3⟩
          · left; exact h
          · simp only [Option.some.injEq, Prod.mk.injEq] at h1
            omega
      · split
        · next hh =>
          refine Res.nil (hG.ctl rfl rfl rfl rfl rfl rfl rfl rfl ?_ (by simp [pcFlushed]) (fun p hp => ?_))
          · simp only [shapeOk, hshape]; decide
          · refine hcov p (stage + 1) _ hp ?_ (by simp [hst]) rfl
            intro _ h2 _
            simp [h2] at hh
        · split
          · exact Res.fault hG.ndead _
          · have key : ∀ (w : Bool), w = (bit (s.fds cur).ready stage && hbit (s.fds cur) stage) →
                Res μ (List.map Ev.out
                  (if w = true then
                    match (if stage = 1 then fdRaw? cur else none) with
                    | some r => ({ s with pc := .needRawRead r, stack := Frame.fd cur (stage + 1) :: s.stack.tail }, [])
                    | none => ({ s with pc := .user, stack := Frame.fd cur (stage + 1) :: s.stack.tail }, [Out.cb (.fd cur stage)])
                  else ({ s with pc := .run .fdStage, stack := Frame.fd cur (stage + 1) :: s.stack.tail }, [])).2)
                  (if w = true then
                    match (if stage = 1 then fdRaw? cur else none) with
                    | some r => ({ s with pc := .needRawRead r, stack := Frame.fd cur (stage + 1) :: s.stack.tail }, [])
                    | none => ({ s with pc := .user, stack := Frame.fd cur (stage + 1) :: s.stack.tail }, [Out.cb (.fd cur stage)])
                  else ({ s with pc := .run .fdStage, stack := Frame.fd cur (stage + 1) :: s.stack.tail }, [])).1 := by
              intro w hw
              split
              · next hwant =>
                split
                · next r hr =>
                  have hcur : cur ≥ 1000 := by
                    split at hr
                    · simp only [fdRaw?] at hr
                      split at hr
                      · assumption
                      · simp at hr
                    · simp at hr
                  refine Res.nil (hG.ctl rfl rfl rfl rfl rfl rfl rfl rfl ?_ (by simp [pcFlushed]) (fun p hp => ?_))
                  · simp only [shapeOk, hshape]; decide
                  · refine hcov p (stage + 1) _ hp ?_ (by simp [hst]) rfl
                    intro h1 _ _
                    have := hp.lt
                    rw [h1] at this
                    exact absurd hcur (Nat.not_le.mpr this)
                · refine ⟨{ μ with owed := μ.owed.filter (· != (cur, stage)) }, ?_, Or.inr ?_⟩
                  · rw [List.map_cons, List.map_nil, fold_one]
                    simp [C02.step, hG.ndead, FdBook.step]
                  · refine hG.frame hG.ndead hG.gt rfl rfl rfl rfl rfl rfl rfl rfl rfl ?_ (by simp [pcFlushed]) (fun p hp => ?_)
                    · simp only [shapeOk, hshape]; decide
                    · simp only [List.mem_filter, bne_iff_ne, ne_eq] at hp
                      refine ⟨hp.1, fun hp' => ?_⟩
                      refine hcov p (stage + 1) _ hp' ?_ (by simp [hst]) rfl
                      intro h1 _ h3
                      have : p.2 ≠ stage := by
                        intro h; apply hp.2; rw [← h1, ← h]
                      omega
              · next hwant =>
                refine Res.nil (hG.ctl rfl rfl rfl rfl rfl rfl rfl rfl ?_ (by simp [pcFlushed]) (fun p hp => ?_))
                · simp only [shapeOk, hshape]; decide
                · refine hcov p (stage + 1) _ hp ?_ (by simp [hst]) rfl
                  intro h1 _ h3
                  have : p.2 ≠ stage := by
                    intro h
                    apply hwant
                    have a := hp.hset
                    have b := hp.rdy
                    rw [h1, h] at a b
                    rw [hw, a, b]; rfl
                  omega
            refine key _ ?_
            rcases stage with _ | _ | n <;> rfl
    · exact Res.fault hG.ndead _
  | prepWait =>
    simp only [shapeOk, decide_eq_true_eq] at hsh
    simp only [internal, goto]
    split
    · next hm =>
      have hm' : s.method = .epollTimerfd := by simpa using hm
      generalize hsoon : (if (!s.tasks.isEmpty) = true then some (⟨0, 0⟩ : TS) else Ivy.Heap.soonest s.heap) = abs
      obtain ⟨hF, hM⟩ := timeoutCheck_frame s abs
      have hE : (timeoutCheck s abs).1.method.isEpoll = s.method.isEpoll := by
        rcases hM with h | h <;> rw [h] <;> simp [hm', Method.isEpoll]
      generalize timeoutCheck s abs = tc at hF hE
      obtain ⟨s1, r⟩ := tc
      simp only at hF hE ⊢
      have hcov : ∀ s2 : St, s2.stack = s1.stack → s2.handled = s1.handled → ∀ p, OwedOk s p → Cover s2 p := by
        intro s2 h1 h2 p hp
        simpa only [Cover, h1, h2, hF.stack, hF.handled] using hp.cov
      split
      · exact Res.nil (hG.ctl hF.fds hF.notify hF.pfds hF.kint hE hF.raws hF.evs hF.eventCount
          (by simp [shapeOk, hF.stack, hsh]) (by simp [pcFlushed]) (hcov _ rfl rfl) hF.useRaw)
      · exact Res.nil (hG.ctl hF.fds hF.notify hF.pfds hF.kint hE hF.raws hF.evs hF.eventCount
          (by simp [shapeOk, hF.stack, hsh]) (by simp [pcFlushed]) (hcov _ rfl rfl) hF.useRaw)
    · exact Res.nil (hG.ctl rfl rfl rfl rfl rfl rfl rfl rfl (by simpa [shapeOk] using hsh) (by simp [pcFlushed]) (fun p hp => hp.cov))
  | flush abs km =>
    simp only [shapeOk, decide_eq_true_eq] at hsh
    simp only [internal, goto]
    by_cases hE : s.method.isEpoll = true
    · simp only [hE, if_true]
      have hfin := hG.fin
      simp only [hE, if_true] at hfin
      obtain ⟨hI, hn, hV⟩ := flush_fold s.notify s rfl hfin
      generalize s.notify.foldl epollFlushOne s = s1 at hI hn hV
      have hE1 : s1.method.isEpoll = true := by rw [hV.method]; exact hE
      split
      · exact Res.nil (hG.view hV.stack hV.handled (fun g => (hV.fds g).1) (fun g _ => (hV.fds g).2) (fun r => by rw [hV.raws]) (fun e => by rw [hV.evs]) hV.eventCount (by simp only [hE1, if_true]; exact hI) (fun _ _ => hn)
          (by simp [shapeOk, hV.stack, hsh]) hV.useRaw)
      · exact Res.nil (hG.view hV.stack hV.handled (fun g => (hV.fds g).1) (fun g _ => (hV.fds g).2) (fun r => by rw [hV.raws]) (fun e => by rw [hV.evs]) hV.eventCount (by simp only [hE1, if_true]; exact hI) (fun _ _ => hn)
          (by simp [shapeOk, hV.stack, hsh]) hV.useRaw)
    · have hE' : s.method.isEpoll = false := by simpa using hE
      simp only [hE', Bool.false_eq_true, if_false]
      split
      · exact Res.nil (hG.ctl rfl rfl rfl rfl rfl rfl rfl rfl (by simpa [shapeOk] using hsh) (fun _ h => absurd h hE) (fun p hp => hp.cov))
      · exact Res.nil (hG.ctl rfl rfl rfl rfl rfl rfl rfl rfl (by simpa [shapeOk] using hsh) (fun _ h => absurd h hE) (fun p hp => hp.cov))
  | wait abs km =>
    simp only [shapeOk, decide_eq_true_eq] at hsh
    have hst := kinds_nil hsh
    have ho := owed_nil hG hst
    simp only [internal]
    have hci : checkInterest μ.book (interestOf s (universeOf s)) = none := by
      by_cases hE : s.method.isEpoll = true
      · have hfin := hG.fin
        simp only [hE, if_true] at hfin
        have hn := hG.flushed hE (by rw [hpc]; rfl)
        rw [hn] at hfin
        obtain ⟨i1, i2, i3⟩ := interest_E hfin hG.univ
        simp only [interestOf, universeOf, hE, if_true]
        exact checkInterest_none _ _ _ hG.book i1 i2 i3
      · have hfin := hG.fin
        simp only [hE] at hfin
        obtain ⟨i1, i2, i3⟩ := interest_P hfin
        have hE' : s.method.isEpoll = false := by simpa using hE
        simp only [interestOf, hE', Bool.false_eq_true, if_false]
        exact checkInterest_none _ _ _ hG.book i1 i2 i3
    refine ⟨{ μ with owed := [], inWait := true, gt := [] }, ?_, Or.inr ?_⟩
    · rw [List.map_cons, List.map_nil, fold_one]
      simp [C02.step, hG.ndead, ho, FdBook.step, hci]
    · exact hG.frame hG.ndead rfl rfl rfl rfl rfl rfl rfl rfl rfl rfl (by simp [shapeOk, hsh]) (fun _ _ => by rw [hpc]; rfl) (fun p hp => by simp at hp)




/-- the loop body of the wait-result scan -/
def wfold (acc : St × List FdId × Bool × Bool) (it : WItem) : St × List FdId × Bool × Bool :=
  let (s, a, rt, re) := acc
  match it with
  | .kick => ({ s with kickArmed := false }, a, rt, true)
  | .ktimer => ({ s with ktimer := none }, a, true, re)
  | .fd f ev => let (s', a') := activate s a f ev; (s', a', rt, re)

theorem afterWait_events (s : St) (abs : Option TS) (km : Bool) (l : List WItem) :
    afterWait s abs km (.events l) =
      (let r := l.foldl wfold ({ s with timeValid := false }, [], (if s.method == .epollTimerfd then abs.isSome else true), false)
       let s1 := if km && r.2.2.1 then { r.1 with lastAbsCount := 0 } else r.1
       let s2 := { s1 with stack := .poll r.2.1 r.2.2.1 :: s1.stack }
       if r.2.2.2 then goto s2 .runEvents else goto s2 .dispatchNext) := by
  rfl


/-- steps that only touch `ready` bits (and unrelated loop state) -/
structure WFrame (s s' : St) : Prop where
  notify : s'.notify = s.notify
  pfds : s'.pfds = s.pfds
  kint : s'.kint = s.kint
  method : s'.method = s.method
  stack : s'.stack = s.stack
  handled : s'.handled = s.handled
  pc : s'.pc = s.pc
  raws : s'.raws = s.raws
  evs : s'.evs = s.evs
  eventCount : s'.eventCount = s.eventCount
  useRaw : s'.useRaw = s.useRaw
  fds : ∀ g, coreEq (s.fds g) (s'.fds g)

theorem WFrame.refl (s : St) : WFrame s s :=
  ⟨rfl, rfl, rfl, rfl, rfl, rfl, rfl, rfl, rfl, rfl, rfl, fun _ => ⟨rfl, rfl, rfl, rfl, rfl, rfl, rfl⟩⟩

theorem WFrame.trans {s1 s2 s3 : St} (h1 : WFrame s1 s2) (h2 : WFrame s2 s3) : WFrame s1 s3 := by
  obtain ⟨a1, a2, a3, a4, a5, a6, a7, a8, a9, a10, a12, a11⟩ := h1
  obtain ⟨b1, b2, b3, b4, b5, b6, b7, b8, b9, b10, b12, b11⟩ := h2
  refine ⟨by rw [b1, a1], by rw [b2, a2], by rw [b3, a3], by rw [b4, a4], by rw [b5, a5], by rw [b6, a6],
    by rw [b7, a7], by rw [b8, a8], by rw [b9, a9], by rw [b10, a10], by rw [b12, a12], fun g => ?_⟩
  have := a11 g; have := b11 g; unfold coreEq at *; grind

/-- `g` is on the active list with band `b` marked ready -/
def Rdy (s : St) (a : List FdId) (g : FdId) (b : Nat) : Prop := g ∈ a ∧ bit (s.fds g).ready b = true

theorem bit_union (r bb : Bands) (b : Nat) : bit (r.union bb) b = (bit r b || bit bb b) := by
  match b with
  | 0 => rfl
  | 1 => rfl
  | n + 2 => rfl

theorem makeReady_props (s : St) (a : List FdId) (f : FdId) (bb : Bands) :
    WFrame s (makeReady s a f bb).1 ∧
    (∀ g b, Rdy s a g b → Rdy (makeReady s a f bb).1 (makeReady s a f bb).2 g b) ∧
    (∀ b, bit bb b = true → Rdy (makeReady s a f bb).1 (makeReady s a f bb).2 f b) := by
  unfold makeReady
  simp only
  split
  · next hc =>
    have hc' : f ∈ a := by simpa using hc
    refine ⟨⟨rfl, rfl, rfl, rfl, rfl, rfl, rfl, rfl, rfl, rfl, rfl, fun g => ?_⟩, ?_, ?_⟩
    · simp only [upd_apply]; split
      · next h => subst h; exact ⟨rfl, rfl, rfl, rfl, rfl, rfl, rfl⟩
      · exact ⟨rfl, rfl, rfl, rfl, rfl, rfl, rfl⟩
    · intro g b ⟨h1, h2⟩
      refine ⟨h1, ?_⟩
      simp only [upd_apply]; split
      · next h => subst h; simp [bit_union, h2]
      · exact h2
    · intro b hb
      refine ⟨hc', ?_⟩
      simp [bit_union, hb]
  · next hc =>
    have hc' : f ∉ a := by simpa using hc
    refine ⟨⟨rfl, rfl, rfl, rfl, rfl, rfl, rfl, rfl, rfl, rfl, rfl, fun g => ?_⟩, ?_, ?_⟩
    · simp only [upd_apply]; split
      · next h => subst h; exact ⟨rfl, rfl, rfl, rfl, rfl, rfl, rfl⟩
      · exact ⟨rfl, rfl, rfl, rfl, rfl, rfl, rfl⟩
    · intro g b ⟨h1, h2⟩
      refine ⟨by simp [h1], ?_⟩
      simp only [upd_apply]; split
      · next h => subst h; exact absurd h1 hc'
      · exact h2
    · intro b hb
      exact ⟨by simp, by simpa using hb⟩

theorem activate_props (s : St) (a : List FdId) (f : FdId) (ev : KEv) :
    WFrame s (activate s a f ev).1 ∧
    (∀ g b, Rdy s a g b → Rdy (activate s a f ev).1 (activate s a f ev).2 g b) ∧
    (∀ b, bit (bandsOfKEv ev) b = true → Rdy (activate s a f ev).1 (activate s a f ev).2 f b) := by
  -- three conditional `makeReady` calls
  have step : ∀ (c : Bool) (bb : Bands) (s : St) (a : List FdId),
      let r := if c then makeReady s a f bb else (s, a)
      WFrame s r.1 ∧ (∀ g b, Rdy s a g b → Rdy r.1 r.2 g b) ∧ (∀ b, c = true → bit bb b = true → Rdy r.1 r.2 f b) := by
    intro c bb s a
    cases c with
    | true =>
      obtain ⟨h1, h2, h3⟩ := makeReady_props s a f bb
      exact ⟨h1, h2, fun b _ hb => h3 b hb⟩
    | false => exact ⟨WFrame.refl s, fun _ _ h => h, fun _ h => by simp at h⟩
  unfold activate
  simp only
  obtain ⟨a1, a2, a3⟩ := step (bandsOfKEv ev).i ⟨true, false, false⟩ s a
  generalize (if (bandsOfKEv ev).i = true then makeReady s a f ⟨true, false, false⟩ else (s, a)) = r1 at a1 a2 a3
  obtain ⟨s1, l1⟩ := r1
  obtain ⟨b1, b2, b3⟩ := step (bandsOfKEv ev).o ⟨false, true, false⟩ s1 l1
  generalize (if (bandsOfKEv ev).o = true then makeReady s1 l1 f ⟨false, true, false⟩ else (s1, l1)) = r2 at b1 b2 b3
  obtain ⟨s2, l2⟩ := r2
  obtain ⟨c1, c2, c3⟩ := step (bandsOfKEv ev).e ⟨false, false, true⟩ s2 l2
  generalize (if (bandsOfKEv ev).e = true then makeReady s2 l2 f ⟨false, false, true⟩ else (s2, l2)) = r3 at c1 c2 c3
  obtain ⟨s3, l3⟩ := r3
  simp only at *
  refine ⟨(a1.trans b1).trans c1, fun g b h => c2 g b (b2 g b (a2 g b h)), ?_⟩
  intro b hb
  match b with
  | 0 => exact c3 0 (by simpa [bit] using hb) rfl
  | 1 => exact c2 f 1 (b2 f 1 (a3 1 (by simpa [bit] using hb) rfl))
  | n + 2 => exact c2 f (n + 2) (b3 (n + 2) (by simpa [bit] using hb) rfl)


theorem wfold_props (l : List WItem) : ∀ (s : St) (a : List FdId) (rt re : Bool),
    WFrame s (l.foldl wfold (s, a, rt, re)).1 ∧
    (∀ g b, Rdy s a g b → Rdy (l.foldl wfold (s, a, rt, re)).1 (l.foldl wfold (s, a, rt, re)).2.1 g b) ∧
    (∀ f ev, WItem.fd f ev ∈ l → ∀ b, bit (bandsOfKEv ev) b = true →
      Rdy (l.foldl wfold (s, a, rt, re)).1 (l.foldl wfold (s, a, rt, re)).2.1 f b) := by
  induction l with
  | nil => intro s a rt re; exact ⟨WFrame.refl s, fun _ _ h => h, fun _ _ h => by simp at h⟩
  | cons it r ih =>
    intro s a rt re
    rw [List.foldl_cons]
    cases it with
    | kick =>
      have hw : wfold (s, a, rt, re) .kick = ({ s with kickArmed := false }, a, rt, true) := rfl
      rw [hw]
      obtain ⟨h1, h2, h3⟩ := ih { s with kickArmed := false } a rt true
      refine ⟨(WFrame.trans (show WFrame s { s with kickArmed := false } from ⟨rfl, rfl, rfl, rfl, rfl, rfl, rfl, rfl, rfl, rfl, rfl, fun _ => ⟨rfl, rfl, rfl, rfl, rfl, rfl, rfl⟩⟩) h1), fun g b h => h2 g b h, ?_⟩
      intro f ev hm b hb
      simp only [List.mem_cons, reduceCtorEq, false_or] at hm
      exact h3 f ev hm b hb
    | ktimer =>
      have hw : wfold (s, a, rt, re) .ktimer = ({ s with ktimer := none }, a, true, re) := rfl
      rw [hw]
      obtain ⟨h1, h2, h3⟩ := ih { s with ktimer := none } a true re
      refine ⟨(WFrame.trans (show WFrame s { s with ktimer := none } from ⟨rfl, rfl, rfl, rfl, rfl, rfl, rfl, rfl, rfl, rfl, rfl, fun _ => ⟨rfl, rfl, rfl, rfl, rfl, rfl, rfl⟩⟩) h1), fun g b h => h2 g b h, ?_⟩
      intro f ev hm b hb
      simp only [List.mem_cons, reduceCtorEq, false_or] at hm
      exact h3 f ev hm b hb
    | fd f0 ev0 =>
      obtain ⟨a1, a2, a3⟩ := activate_props s a f0 ev0
      have hw : wfold (s, a, rt, re) (.fd f0 ev0) = ((activate s a f0 ev0).1, (activate s a f0 ev0).2, rt, re) := rfl
      rw [hw]
      obtain ⟨h1, h2, h3⟩ := ih (activate s a f0 ev0).1 (activate s a f0 ev0).2 rt re
      refine ⟨a1.trans h1, fun g b h => h2 g b (a2 g b h), ?_⟩
      intro f ev hm b hb
      simp only [List.mem_cons, WItem.fd.injEq] at hm
      rcases hm with ⟨rfl, rfl⟩ | hm
      · exact h2 _ _ (a3 b hb)
      · exact h3 f ev hm b hb




theorem Res.inp {μ : M} {s' : St} {i : Input} {evs : List Ev} (h : C02.step μ (.inp i) = .ok μ)
    (hr : Res μ evs s') : Res μ (Ev.inp i :: evs) s' := by
  obtain ⟨μ', h1, h2⟩ := hr
  refine ⟨μ', ?_, h2⟩
  rw [List.foldlM_cons, h]
  exact h1

theorem step_inp_plain (μ : M) (hd : μ.dead = false) (i : Input)
    (hi : (∀ a, i ≠ .api a) ∧ (∀ r, i ≠ .wret r)) : C02.step μ (.inp i) = .ok μ := by
  cases i with
  | api a => exact absurd rfl (hi.1 a)
  | wret r => exact absurd rfl (hi.2 r)
  | _ => cases μ; simp_all [C02.step, FdBook.step]

theorem input_handlerEnd {μ : M} {s s' : St} {outs : List Out} (hG : Good μ s)
    (h : input s .handlerEnd = some (s', outs)) : Res μ (Ev.inp .handlerEnd :: outs.map Ev.out) s' := by
  apply Res.inp (step_inp_plain μ hG.ndead _ (by simp))
  have hsh := hG.shape
  cases hpc : s.pc <;> simp only [input, hpc, reduceCtorEq] at h
  rw [hpc] at hsh
  simp only [shapeOk] at hsh
  split at h <;> simp only [goto, Option.some.injEq, Prod.mk.injEq, reduceCtorEq] at h
  all_goals
    obtain ⟨rfl, rfl⟩ := h
    exact Res.nil (hG.ctl rfl rfl rfl rfl rfl rfl rfl rfl (by simpa [shapeOk] using hsh) (by simp [pcFlushed]) (fun p hp => hp.cov))


/-- a step that changes descriptor objects at most in `ready`/`live`, with the owed list re-justified -/
theorem Good.core {μ μ' : M} {s s' : St} (hG : Good μ s)
    (hd : μ'.dead = false) (hgt : μ'.gt = []) (hb : μ'.book = μ.book)
    (hm : s'.method.isEpoll = s.method.isEpoll) (hn : s'.notify = s.notify) (hp : s'.pfds = s.pfds)
    (hk : s'.kint = s.kint) (hf : ∀ g, coreEq (s.fds g) (s'.fds g))
    (h6 : ∀ r, (s'.raws r).registered = (s.raws r).registered)
    (h7 : ∀ e, (s'.evs e).registered = (s.evs e).registered) (h8 : s'.eventCount = s.eventCount)
    (hfl : s'.method.isEpoll = true → pcFlushed s'.pc = true → s'.notify = [])
    (hsh : shapeOk s'.pc s'.stack = true) (hO : ∀ p ∈ μ'.owed, OwedOk s' p)
    (hur : s'.useRaw = s.useRaw := by rfl) : Good μ' s' := by
  obtain ⟨g1, g2, g3, g4, g5, g6, g7, g8, g9, g10, g11, g12⟩ := hG
  have hreg : ∀ g, (s'.fds g).registered = (s.fds g).registered := fun g => (hf g).2.2.2.1
  refine ⟨hd, hgt, by rw [hb]; exact g3, ?_, ?_, ?_, hfl, hsh, hO, ?_, ?_, by rw [h6, h8, hur]; exact g12⟩
  · rw [hb]
    exact g4.same' (fun g _ => hreg g) (fun g _ _ => ⟨(hf g).1, (hf g).2.1, (hf g).2.2.1⟩)
  · rw [hm, hn, hp, hk]
    split
    · next h => rw [if_pos h] at g5; exact g5.congr hf
    · next h => rw [if_neg h] at g5; exact g5.congr hf
  · intro f; rw [hreg f]; exact g6 f
  · intro r; rw [hreg, h6]; exact g10 r
  · obtain ⟨l, hl1, hl2, hl3⟩ := g11
    exact ⟨l, hl1, fun e => by rw [h7]; exact hl2 e, by rw [h8]; exact hl3⟩

theorem OwedOk.core {s s' : St} {p : FdId × Nat} (h : OwedOk s p)
    (hf : ∀ g, coreEq (s.fds g) (s'.fds g)) (hr : ∀ g, (s'.fds g).ready = (s.fds g).ready)
    (hst : s'.stack = s.stack) (hh : s'.handled = s.handled) : OwedOk s' p := by
  obtain ⟨a, b, c, d, e, f⟩ := h
  have := hf p.1
  unfold coreEq at this
  refine ⟨a, b, by rw [this.2.2.2.1]; exact c, ?_, by rw [hr]; exact e, ?_⟩
  · have e1 : hbit (s'.fds p.1) p.2 = hbit (s.fds p.1) p.2 := by
      unfold hbit; rw [this.1, this.2.1, this.2.2.1]
    rw [e1]; exact d
  · simpa only [Cover, hst, hh] using f

theorem freeObj_props (s : St) (k id : Nat) :
    (freeObj s k id).stack = s.stack ∧ (freeObj s k id).handled = s.handled ∧ (freeObj s k id).pc = s.pc ∧
    (freeObj s k id).method = s.method ∧ (freeObj s k id).notify = s.notify ∧ (freeObj s k id).pfds = s.pfds ∧
    (freeObj s k id).kint = s.kint ∧ (freeObj s k id).eventCount = s.eventCount ∧
    (∀ g, coreEq (s.fds g) ((freeObj s k id).fds g)) ∧ (∀ g, ((freeObj s k id).fds g).ready = (s.fds g).ready) ∧
    (∀ r, ((freeObj s k id).raws r).registered = (s.raws r).registered) ∧
    (∀ e, ((freeObj s k id).evs e).registered = (s.evs e).registered) := by
  unfold freeObj
  split
  · refine ⟨rfl, rfl, rfl, rfl, rfl, rfl, rfl, rfl, fun g => ?_, fun g => ?_, fun _ => rfl, fun _ => rfl⟩
    · simp only [upd_apply]; split
      · next h => subst h; exact ⟨rfl, rfl, rfl, rfl, rfl, rfl, rfl⟩
      · exact ⟨rfl, rfl, rfl, rfl, rfl, rfl, rfl⟩
    · simp only [upd_apply]; split
      · next h => subst h; rfl
      · rfl
  · exact ⟨rfl, rfl, rfl, rfl, rfl, rfl, rfl, rfl, fun g => ⟨rfl, rfl, rfl, rfl, rfl, rfl, rfl⟩, fun _ => rfl, fun _ => rfl, fun _ => rfl⟩
  · exact ⟨rfl, rfl, rfl, rfl, rfl, rfl, rfl, rfl, fun g => ⟨rfl, rfl, rfl, rfl, rfl, rfl, rfl⟩, fun _ => rfl, fun _ => rfl, fun _ => rfl⟩
  · refine ⟨rfl, rfl, rfl, rfl, rfl, rfl, rfl, rfl, fun g => ⟨rfl, rfl, rfl, rfl, rfl, rfl, rfl⟩, fun _ => rfl, fun _ => rfl, fun e => ?_⟩
    simp only [upd_apply]; split
    · next h => subst h; rfl
    · rfl
  · refine ⟨rfl, rfl, rfl, rfl, rfl, rfl, rfl, rfl, fun g => ⟨rfl, rfl, rfl, rfl, rfl, rfl, rfl⟩, fun _ => rfl, fun r => ?_, fun _ => rfl⟩
    simp only [upd_apply]; split
    · next h => subst h; rfl
    · rfl

theorem freeObj_useRaw (s : St) (k id : Nat) : (freeObj s k id).useRaw = s.useRaw := by
  unfold freeObj; split <;> rfl

theorem input_free {μ : M} {s s' : St} {outs : List Out} (hG : Good μ s) (k id : Nat)
    (h : input s (.free k id) = some (s', outs)) : Res μ (Ev.inp (.free k id) :: outs.map Ev.out) s' := by
  apply Res.inp (step_inp_plain μ hG.ndead _ (by simp))
  have hsh := hG.shape
  cases hpc : s.pc <;> simp only [input, hpc, reduceCtorEq, Option.some.injEq, Prod.mk.injEq] at h
  obtain ⟨rfl, rfl⟩ := h
  obtain ⟨a1, a2, a3, a4, a5, a6, a7, a8, a9, a10, a11, a12⟩ := freeObj_props s k id
  refine Res.nil (hG.core hG.ndead hG.gt rfl (by rw [a4]) a5 a6 a7 a9 a11 a12 a8 ?_ (by rw [a3, a1]; exact hsh)
    (fun p hp => (hG.owed p hp).core a9 a10 a1 a2) (freeObj_useRaw s k id))
  rw [a3, hpc]; simp [pcFlushed]


theorem coreEq_refl (o : FdObj) : coreEq o o := ⟨rfl, rfl, rfl, rfl, rfl, rfl, rfl⟩

theorem input_init {μ : M} {s s' : St} {outs : List Out} (hG : Good μ s) (k id : Nat)
    (henv : envOk s (.init k id) = true)
    (h : input s (.init k id) = some (s', outs)) : Res μ (Ev.inp (.init k id) :: outs.map Ev.out) s' := by
  apply Res.inp (step_inp_plain μ hG.ndead _ (by simp))
  have hsh := hG.shape
  cases hpc : s.pc <;> simp only [input, hpc, reduceCtorEq, Option.some.injEq, Prod.mk.injEq] at h
  obtain ⟨rfl, rfl⟩ := h
  have hfl : ∀ s2 : St, s2.pc = s.pc → s2.method.isEpoll = true → pcFlushed s2.pc = true → s2.notify = [] := by
    intro s2 h2; rw [h2, hpc]; simp [pcFlushed]
  simp only [envOk, unregisteredObj] at henv
  unfold initObj
  split
  · -- descriptor memory
    simp only [Bool.and_eq_true, decide_eq_true_eq, Bool.not_eq_eq_eq_not, Bool.not_true] at henv
    refine Res.nil (hG.view rfl rfl (fun g => ?_) (fun g hg => ?_) (fun _ => rfl) (fun _ => rfl) rfl ?_ (hfl _ rfl) hsh)
    · simp only [upd_apply]; split
      · next e => subst e; simp [henv.2]
      · rfl
    · have : g ≠ id := by intro e; subst e; rw [henv.2] at hg; simp at hg
      simp only [upd_ne _ _ this, and_self]
    · have hfin := hG.fin
      simp only
      split
      · next hE => rw [if_pos hE] at hfin; exact hfin.reset id henv.2 _ rfl rfl
      · next hE => rw [if_neg hE] at hfin; exact hfin.reset id henv.2 _ rfl rfl
  · exact Res.nil (hG.core hG.ndead hG.gt rfl rfl rfl rfl rfl (fun _ => coreEq_refl _) (fun _ => rfl) (fun _ => rfl) rfl
      (hfl _ rfl) hsh (fun p hp => (hG.owed p hp).core (fun _ => coreEq_refl _) (fun _ => rfl) rfl rfl))
  · exact Res.nil (hG.core hG.ndead hG.gt rfl rfl rfl rfl rfl (fun _ => coreEq_refl _) (fun _ => rfl) (fun _ => rfl) rfl
      (hfl _ rfl) hsh (fun p hp => (hG.owed p hp).core (fun _ => coreEq_refl _) (fun _ => rfl) rfl rfl))
  · simp only [Bool.not_eq_eq_eq_not, Bool.not_true] at henv
    refine Res.nil (hG.core hG.ndead hG.gt rfl rfl rfl rfl rfl (fun _ => coreEq_refl _) (fun _ => rfl) (fun e => ?_) rfl
      (hfl _ rfl) hsh (fun p hp => (hG.owed p hp).core (fun _ => coreEq_refl _) (fun _ => rfl) rfl rfl))
    simp only [upd_apply]; split
    · next h => subst h; simp [henv]
    · rfl
  · simp only [Bool.and_eq_true, decide_eq_true_eq, Bool.not_eq_eq_eq_not, Bool.not_true] at henv
    refine Res.nil (hG.core hG.ndead hG.gt rfl rfl rfl rfl rfl (fun _ => coreEq_refl _) (fun r => ?_) (fun _ => rfl) rfl
      (hfl _ rfl) hsh (fun p hp => (hG.owed p hp).core (fun _ => coreEq_refl _) (fun _ => rfl) rfl rfl))
    simp only [upd_apply]; split
    · next h => subst h; simp [henv.2]
    · rfl


theorem input_time {μ : M} {s s' : St} {outs : List Out} (hG : Good μ s) (t : TS)
    (h : input s (.time t) = some (s', outs)) : Res μ (Ev.inp (.time t) :: outs.map Ev.out) s' := by
  apply Res.inp (step_inp_plain μ hG.ndead _ (by simp))
  have hsh := hG.shape
  cases hpc : s.pc <;> simp only [input, hpc, reduceCtorEq, Option.some.injEq] at h
  next k =>
  rw [hpc] at hsh
  unfold afterTime at h
  cases k with
  | forTimers =>
    simp only [goto, Prod.mk.injEq] at h
    obtain ⟨rfl, rfl⟩ := h
    exact Res.nil (hG.ctl rfl rfl rfl rfl rfl rfl rfl rfl (by simpa [shapeOk] using hsh) (by simp [pcFlushed]) (fun p hp => hp.cov))
  | forWait abs km =>
    simp only [goto, Prod.mk.injEq] at h
    obtain ⟨rfl, rfl⟩ := h
    exact Res.nil (hG.ctl rfl rfl rfl rfl rfl rfl rfl rfl (by simpa [shapeOk] using hsh) (fun _ _ => by rw [hpc]; rfl) (fun p hp => hp.cov))
  | forValidate =>
    simp only [Prod.mk.injEq] at h
    obtain ⟨rfl, rfl⟩ := h
    exact Res.nil (hG.ctl rfl rfl rfl rfl rfl rfl rfl rfl (by simpa [shapeOk] using hsh) (by simp [pcFlushed]) (fun p hp => hp.cov))

theorem input_xpost {μ : M} {s s' : St} {outs : List Out} (hG : Good μ s) (e : EvId)
    (h : input s (.xpost e) = some (s', outs)) : Res μ (Ev.inp (.xpost e) :: outs.map Ev.out) s' := by
  apply Res.inp (step_inp_plain μ hG.ndead _ (by simp))
  have hsh := hG.shape
  cases hpc : s.pc <;> simp only [input, hpc, reduceCtorEq] at h
  rw [hpc] at hsh
  split at h
  · simp only [Option.some.injEq, Prod.mk.injEq] at h
    obtain ⟨rfl, rfl⟩ := h
    exact Res.nil hG
  · simp only [Option.some.injEq, Prod.mk.injEq] at h
    obtain ⟨rfl, rfl⟩ := h
    split
    · exact Res.nil (hG.ctl rfl rfl rfl rfl rfl rfl rfl rfl (by simpa [hpc] using hsh) (fun _ _ => by rw [hpc]; rfl) (fun p hp => hp.cov))
    · exact Res.nil (hG.ctl rfl rfl rfl rfl rfl rfl rfl rfl (by simpa [hpc] using hsh) (fun _ _ => by rw [hpc]; rfl) (fun p hp => hp.cov))

theorem input_rawRead {μ : M} {s s' : St} {outs : List Out} (hG : Good μ s) (okk : Bool)
    (h : input s (.rawRead okk) = some (s', outs)) : Res μ (Ev.inp (.rawRead okk) :: outs.map Ev.out) s' := by
  apply Res.inp (step_inp_plain μ hG.ndead _ (by simp))
  have hsh := hG.shape
  cases hpc : s.pc <;> simp only [input, hpc, reduceCtorEq] at h
  rw [hpc] at hsh
  simp only [shapeOk, decide_eq_true_eq] at hsh
  split at h
  · simp only [goto, Option.some.injEq, Prod.mk.injEq] at h
    obtain ⟨rfl, rfl⟩ := h
    exact Res.nil (hG.ctl rfl rfl rfl rfl rfl rfl rfl rfl (by simp [shapeOk, hsh, wfk]) (by simp [pcFlushed]) (fun p hp => hp.cov))
  · split at h
    · simp only [goto, Option.some.injEq, Prod.mk.injEq] at h
      obtain ⟨rfl, rfl⟩ := h
      exact Res.nil (hG.ctl rfl rfl rfl rfl rfl rfl rfl rfl (by simp [shapeOk, hsh, midk]) (by simp [pcFlushed]) (fun p hp => hp.cov))
    · split at h
      · simp only [Option.some.injEq, Prod.mk.injEq] at h
        obtain ⟨rfl, rfl⟩ := h
        exact Res.fault hG.ndead _
      · simp only [Option.some.injEq, Prod.mk.injEq] at h
        obtain ⟨rfl, rfl⟩ := h
        exact Res.cb _ (by simp) (hG.ctl rfl rfl rfl rfl rfl rfl rfl rfl (by simp [shapeOk, hsh, wfk]) (by simp [pcFlushed]) (fun p hp => hp.cov))


theorem step_wret_other (μ : M) (hd : μ.dead = false) (r : WRes) (hr : ∀ l, r ≠ .events l) :
    ∃ μ', C02.step μ (.inp (.wret r)) = .ok μ' ∧ μ'.dead = false ∧ μ'.gt = μ.gt ∧ μ'.book = μ.book ∧ μ'.owed = [] := by
  cases r with
  | events l => exact absurd rfl (hr l)
  | eintr =>
    refine ⟨{ μ with owed := [], inWait := false }, ?_, hd, rfl, rfl, rfl⟩
    simp [C02.step, hd, FdBook.step]
  | enosys =>
    refine ⟨{ μ with owed := [], inWait := false }, ?_, hd, rfl, rfl, rfl⟩
    simp [C02.step, hd, FdBook.step]

theorem step_wret_events (μ : M) (hd : μ.dead = false) (hgt : μ.gt = []) (l : List WItem) :
    ∃ μ', C02.step μ (.inp (.wret (.events l))) = .ok μ' ∧ μ'.dead = false ∧ μ'.gt = μ.gt ∧ μ'.book = μ.book ∧
      ∀ p ∈ μ'.owed, ∃ ev, WItem.fd p.1 ev ∈ l ∧ p.1 < 1000 ∧ p.2 ≤ 2 ∧ bandHeld ev p.2 = true ∧
        μ.book.handler p.1 p.2 = true := by
  refine ⟨{ μ with owed := (l.filterMap fun it => match it with | .fd f ev => some (f, ev) | _ => none).flatMap fun (f, ev) =>
          if f ≥ 1000 then [] else
          ([0, 1, 2].filter fun b => bandHeld ev b && μ.book.handler f b).map fun b => (f, b), inWait := false }, ?_, hd, rfl, rfl, ?_⟩
  · simp [C02.step, hd, hgt, FdBook.step]
    rfl
  · intro p hp
    simp only [List.mem_flatMap, List.mem_filterMap] at hp
    obtain ⟨⟨f, ev⟩, ⟨it, hit, hm⟩, hp⟩ := hp
    cases it with
    | fd f' ev' =>
      simp only [Option.some.injEq, Prod.mk.injEq] at hm
      obtain ⟨rfl, rfl⟩ := hm
      simp only at hp
      split at hp
      · simp at hp
      · next hlt =>
        simp only [List.mem_map, List.mem_filter, Bool.and_eq_true] at hp
        obtain ⟨b, ⟨hb1, hb2, hb3⟩, rfl⟩ := hp
        refine ⟨ev', hit, by simpa using hlt, ?_, hb2, hb3⟩
        simp only [List.mem_cons, List.not_mem_nil, or_false] at hb1
        rcases hb1 with rfl | rfl | rfl <;> simp
    | kick => simp at hm
    | ktimer => simp at hm

theorem Res.inp' {μ μ1 : M} {s' : St} {i : Input} {evs : List Ev} (h : C02.step μ (.inp i) = .ok μ1)
    (hr : Res μ1 evs s') : Res μ (Ev.inp i :: evs) s' := by
  obtain ⟨μ', h1, h2⟩ := hr
  refine ⟨μ', ?_, h2⟩
  rw [List.foldlM_cons, h]
  exact h1

theorem input_wret {μ : M} {s s' : St} {outs : List Out} (hG : Good μ s) (r : WRes)
    (h : input s (.wret r) = some (s', outs)) : Res μ (Ev.inp (.wret r) :: outs.map Ev.out) s' := by
  have hsh := hG.shape
  cases hpc : s.pc <;> simp only [input, hpc, reduceCtorEq, Option.some.injEq] at h
  next abs km =>
  rw [hpc] at hsh
  simp only [shapeOk, decide_eq_true_eq] at hsh
  have hst := kinds_nil hsh
  have ho := owed_nil hG hst
  cases r with
  | enosys =>
    obtain ⟨μ1, h1, h2, h3, h4, h5⟩ := step_wret_other μ hG.ndead .enosys (by simp)
    apply Res.inp' h1
    have hfr : ∀ s2 : St, s2.fds = s.fds → s2.notify = s.notify → s2.pfds = s.pfds → s2.kint = s.kint →
        s2.method.isEpoll = s.method.isEpoll → s2.raws = s.raws → s2.evs = s.evs → s2.eventCount = s.eventCount →
        s2.stack = s.stack → (∃ a k, s2.pc = .run (.wait a k) ∨ s2.pc = .needTime (.forWait a k)) →
        s2.useRaw = s.useRaw → Good μ1 s2 := by
      intro s2 a1 a2 a3 a4 a5 a6 a7 a8 a9 a10 a11
      refine hG.frame h2 (by rw [h3]; exact hG.gt) h4 a1 a2 a3 a4 a5 a6 a7 a8 ?_ (fun _ _ => by rw [hpc]; rfl)
        (fun p hp => by rw [h5] at hp; simp at hp) a11
      obtain ⟨a, k, h | h⟩ := a10 <;> simp [h, shapeOk, a9, hsh]
    unfold afterWait at h
    simp only at h
    split at h
    · split at h
      · simp only [goto, Prod.mk.injEq] at h
        obtain ⟨rfl, rfl⟩ := h
        exact Res.nil (hfr _ rfl rfl rfl rfl rfl rfl rfl rfl rfl ⟨_, _, Or.inl rfl⟩ rfl)
      · simp only [fatal, Prod.mk.injEq] at h
        obtain ⟨rfl, rfl⟩ := h
        exact Res.fatal h2 _
    · split at h
      · simp only [goto, Prod.mk.injEq] at h
        obtain ⟨rfl, rfl⟩ := h
        exact Res.nil (hfr _ rfl rfl rfl rfl rfl rfl rfl rfl rfl ⟨_, _, Or.inl rfl⟩ rfl)
      · simp only [fatal, Prod.mk.injEq] at h
        obtain ⟨rfl, rfl⟩ := h
        exact Res.fatal h2 _
    · next hm =>
      have hE : s.method.isEpoll = false := by rw [hm]; rfl
      split at h
      · simp only [Prod.mk.injEq] at h
        obtain ⟨rfl, rfl⟩ := h
        exact Res.nil (hfr _ rfl rfl rfl rfl (by rw [hE]; rfl) rfl rfl rfl rfl ⟨_, _, Or.inr rfl⟩ rfl)
      · simp only [goto, Prod.mk.injEq] at h
        obtain ⟨rfl, rfl⟩ := h
        exact Res.nil (hfr _ rfl rfl rfl rfl (by rw [hE]; rfl) rfl rfl rfl rfl ⟨_, _, Or.inl rfl⟩ rfl)
    · simp only [fatal, Prod.mk.injEq] at h
      obtain ⟨rfl, rfl⟩ := h
      exact Res.fatal h2 _
  | eintr =>
    obtain ⟨μ1, h1, h2, h3, h4, h5⟩ := step_wret_other μ hG.ndead .eintr (by simp)
    apply Res.inp' h1
    unfold afterWait at h
    simp only [goto, Prod.mk.injEq] at h
    obtain ⟨rfl, rfl⟩ := h
    refine Res.nil (hG.frame h2 (by rw [h3]; exact hG.gt) h4 ?_ ?_ ?_ ?_ ?_ ?_ ?_ ?_ ?_ (by simp [pcFlushed])
        (fun p hp => by rw [h5] at hp; simp at hp) ?_)
    all_goals simp only [apply_ite St.fds, apply_ite St.notify, apply_ite St.pfds, apply_ite St.kint,
      apply_ite St.method, apply_ite St.raws, apply_ite St.evs, apply_ite St.eventCount, apply_ite St.stack,
      apply_ite St.useRaw, ite_self]
    simp only [hst, shapeOk, kinds, List.map_cons, kind, List.map_nil, wfk]
    decide
  | events l =>
    obtain ⟨μ1, h1, h2, h3, h4, h5⟩ := step_wret_events μ hG.ndead hG.gt l
    apply Res.inp' h1
    rw [afterWait_events] at h
    simp only at h
    obtain ⟨w1, w2, w3⟩ := wfold_props l { s with timeValid := false } []
      (if s.method == .epollTimerfd then abs.isSome else true) false
    generalize List.foldl wfold ({ s with timeValid := false }, [], (if s.method == .epollTimerfd then abs.isSome else true), false) l = r at h w1 w2 w3
    obtain ⟨s1, active, rt, runEv⟩ := r
    simp only at h w1 w3
    have w0 : WFrame s s1 := WFrame.trans
      (show WFrame s { s with timeValid := false } from ⟨rfl, rfl, rfl, rfl, rfl, rfl, rfl, rfl, rfl, rfl, rfl, fun _ => coreEq_refl _⟩) w1
    have hgood : ∀ s2 : St, s2.fds = s1.fds → s2.notify = s1.notify → s2.pfds = s1.pfds → s2.kint = s1.kint →
        s2.method = s1.method → s2.raws = s1.raws → s2.evs = s1.evs → s2.eventCount = s1.eventCount →
        s2.stack = .poll active rt :: s1.stack → (s2.pc = .run .runEvents ∨ s2.pc = .run .dispatchNext) →
        s2.useRaw = s1.useRaw → Good μ1 s2 := by
      intro s2 a1 a2 a3 a4 a5 a6 a7 a8 a9 a10 a11
      have hf : ∀ g, coreEq (s.fds g) (s2.fds g) := fun g => by rw [a1]; exact w0.fds g
      refine hG.core h2 (by rw [h3]; exact hG.gt) h4 (by rw [a5, w0.method]) (by rw [a2, w0.notify]) (by rw [a3, w0.pfds])
        (by rw [a4, w0.kint]) hf (fun r => by rw [a6, w0.raws]) (fun e => by rw [a7, w0.evs]) (by rw [a8, w0.eventCount]) ?_ ?_ ?_ (by rw [a11, w0.useRaw])
      · intro _ hp; rcases a10 with h | h <;> rw [h] at hp <;> simp [pcFlushed] at hp
      · rw [a9, w0.stack, hst]
        rcases a10 with h | h <;> rw [h] <;> simp [shapeOk, kinds, kind, midk, wfk]
      · intro p hp
        obtain ⟨ev, e1, e2, e3, e4, e5⟩ := h5 p hp
        rw [handler_eq hG.book] at e5
        simp only [Bool.and_eq_true, decide_eq_true_eq] at e5
        rw [bandHeld_eq] at e4
        obtain ⟨r1, r2⟩ := w3 p.1 ev e1 p.2 e4
        have := hf p.1
        unfold coreEq at this
        refine ⟨e2, e3, by rw [this.2.2.2.1]; exact e5.1.2, ?_, by rw [a1]; exact r2, ?_⟩
        · have e1 : hbit (s2.fds p.1) p.2 = hbit (s.fds p.1) p.2 := by
            unfold hbit; rw [this.1, this.2.1, this.2.2.1]
          rw [e1]; exact e5.2
        · left; rw [a9]; simpa [activeOf] using r1
    split at h
    · simp only [goto, Prod.mk.injEq] at h
      obtain ⟨rfl, rfl⟩ := h
      refine Res.nil (hgood _ ?_ ?_ ?_ ?_ ?_ ?_ ?_ ?_ ?_ (Or.inl rfl) ?_)
      all_goals simp only [apply_ite St.fds, apply_ite St.notify, apply_ite St.pfds, apply_ite St.kint,
        apply_ite St.method, apply_ite St.raws, apply_ite St.evs, apply_ite St.eventCount, apply_ite St.stack,
        apply_ite St.useRaw, ite_self]
    · simp only [goto, Prod.mk.injEq] at h
      obtain ⟨rfl, rfl⟩ := h
      refine Res.nil (hgood _ ?_ ?_ ?_ ?_ ?_ ?_ ?_ ?_ ?_ (Or.inr rfl) ?_)
      all_goals simp only [apply_ite St.fds, apply_ite St.notify, apply_ite St.pfds, apply_ite St.kint,
        apply_ite St.method, apply_ite St.raws, apply_ite St.evs, apply_ite St.eventCount, apply_ite St.stack,
        apply_ite St.useRaw, ite_self]




def isFdApi : Api → Bool
  | .fdRegister .. | .fdRegisterTry .. | .fdUnregister _ | .fdSetIn .. | .fdSetOut .. | .fdSetErr .. => true
  | _ => false

theorem step_api_other (μ : M) (hd : μ.dead = false) (hp : μ.book.pending = none) (a : Api)
    (ha : isFdApi a = false) : C02.step μ (.inp (.api a)) = .ok μ := by
  obtain ⟨⟨regd, pending⟩, owed, gt, inWait, dead⟩ := μ
  simp only at hd hp
  subst hd hp
  cases a <;> first | (simp [isFdApi] at ha; done) | simp [C02.step, FdBook.step]

theorem step_ret (μ : M) (hd : μ.dead = false) (hp : μ.book.pending = none) (v : Int) :
    C02.step μ (.out (.ret v)) = .ok μ := by
  obtain ⟨⟨regd, pending⟩, owed, gt, inWait, dead⟩ := μ
  simp only at hd hp
  subst hd hp
  simp [C02.step, FdBook.step]

theorem Res.ret {μ : M} {s' : St} (v : Int) (h : Good μ s') : Res μ [Ev.out (.ret v)] s' := by
  refine ⟨μ, ?_, Or.inr h⟩
  rw [fold_one, step_ret μ h.ndead h.pend]

/-- stack rewrites done by unregister calls keep the dispatch frames -/
theorem Cover.map {s s' : St} {p : FdId × Nat} (g : Frame → Frame) (hg : ∀ fr, kind (g fr) = kind fr)
    (hp : ∀ a rt, g (.poll a rt) = .poll a rt) (hf : ∀ c st, g (.fd c st) = .fd c st)
    (hst : s'.stack = s.stack.map g) (hh : s'.handled = s.handled) (h : Cover s p) : Cover s' p := by
  simpa only [Cover, hst, hh, activeOf_map g hg hp, curOf_map g hg hf] using h

theorem shape_map {pc : Pc} {st : List Frame} (g : Frame → Frame) (hg : ∀ fr, kind (g fr) = kind fr)
    (h : shapeOk pc st = true) : shapeOk pc (st.map g) = true := by
  unfold shapeOk at *
  rw [kinds_map g hg]
  exact h


/-- the simple non-descriptor API calls: only control/task/timer/event-list state moves -/
theorem Good.api_plain {μ : M} {s s' : St} (hG : Good μ s) (hpc : s.pc = .user) (g : Frame → Frame)
    (hg : ∀ fr, kind (g fr) = kind fr)
    (hp : ∀ a rt, g (.poll a rt) = .poll a rt) (hf : ∀ c st, g (.fd c st) = .fd c st)
    (h1 : s'.fds = s.fds) (h2 : s'.notify = s.notify) (h3 : s'.pfds = s.pfds) (h4 : s'.kint = s.kint)
    (h5 : s'.method = s.method) (h6 : s'.raws = s.raws) (h7 : s'.evs = s.evs) (h8 : s'.eventCount = s.eventCount)
    (hst : s'.stack = s.stack.map g) (hh : s'.handled = s.handled)
    (hpc' : s'.pc = .user ∨ s'.pc = .needTime .forValidate) (hur : s'.useRaw = s.useRaw) : Good μ s' := by
  have hsh := hG.shape
  rw [hpc] at hsh
  refine hG.ctl h1 h2 h3 h4 (by rw [h5]) h6 h7 h8 ?_ ?_ (fun p hp' => Cover.map g hg hp hf hst hh hp'.cov) hur
  · rw [hst]
    apply shape_map g hg
    rcases hpc' with h | h <;> rw [h] <;> simpa [shapeOk] using hsh
  · rcases hpc' with h | h <;> rw [h] <;> simp [pcFlushed]

theorem map_id' (st : List Frame) : st = st.map id := by simp


theorem api_other_simple {μ : M} {s : St} (hG : Good μ s) (hpc : s.pc = .user) (a : Api)
    (ha : match a with
      | .timerRegister .. | .timerUnregister _ | .taskRegister _ | .taskUnregister _ | .taskInit _ | .evPost _
      | .quit | .invalidateNow | .validateNow | .main => True
      | _ => False) :
    Res μ (Ev.inp (.api a) :: (api s a).2.map Ev.out) (api s a).1 := by
  have hid : ∀ fr : Frame, kind (id fr) = kind fr := fun _ => rfl
  cases a <;> simp only at ha
  all_goals apply Res.inp (step_api_other μ hG.ndead hG.pend _ rfl)
  all_goals simp only [api]
  · -- timerRegister
    split
    · exact Res.ret _ (hG.api_plain hpc id hid (fun _ _ => rfl) (fun _ _ => rfl) rfl rfl rfl rfl rfl rfl rfl rfl (map_id' _) rfl (Or.inl hpc) rfl)
    · exact Res.fatal hG.ndead _
    · exact Res.fault hG.ndead _
  · -- timerUnregister
    split
    · exact Res.ret _ (hG.api_plain hpc _ (kind_setTimerBatch _) (fun _ _ => rfl) (fun _ _ => rfl) rfl rfl rfl rfl rfl rfl rfl rfl rfl rfl (Or.inl hpc) rfl)
    · exact Res.fatal hG.ndead _
    · exact Res.fault hG.ndead _
  · -- taskRegister
    split
    · exact Res.fatal hG.ndead _
    · simp only [ok, taskRegisterCore]
      split
      · exact Res.ret _ (hG.api_plain hpc id hid (fun _ _ => rfl) (fun _ _ => rfl) rfl rfl rfl rfl rfl rfl rfl rfl (map_id' _) rfl (Or.inl hpc) rfl)
      · exact Res.ret _ (hG.api_plain hpc _ (kind_appendTaskBatch _) (fun _ _ => rfl) (fun _ _ => rfl) rfl rfl rfl rfl rfl rfl rfl rfl rfl rfl (Or.inl hpc) rfl)
  · -- taskUnregister
    split
    · exact Res.fatal hG.ndead _
    · exact Res.ret _ (hG.api_plain hpc _ (kind_eraseTask _) (fun _ _ => rfl) (fun _ _ => rfl) rfl rfl rfl rfl rfl rfl rfl rfl rfl rfl (Or.inl hpc) rfl)
  · -- taskInit
    exact Res.nil (hG.api_plain hpc id hid (fun _ _ => rfl) (fun _ _ => rfl) rfl rfl rfl rfl rfl rfl rfl rfl (map_id' _) rfl (Or.inl hpc) rfl)
  · -- evPost
    split
    · exact Res.nil hG
    · split
      · simp only [taskRegisterCore]
        split
        · exact Res.nil (hG.api_plain hpc id hid (fun _ _ => rfl) (fun _ _ => rfl) rfl rfl rfl rfl rfl rfl rfl rfl (map_id' _) rfl (Or.inl hpc) rfl)
        · exact Res.nil (hG.api_plain hpc _ (kind_appendTaskBatch _) (fun _ _ => rfl) (fun _ _ => rfl) rfl rfl rfl rfl rfl rfl rfl rfl rfl rfl (Or.inl hpc) rfl)
      · exact Res.nil (hG.api_plain hpc id hid (fun _ _ => rfl) (fun _ _ => rfl) rfl rfl rfl rfl rfl rfl rfl rfl (map_id' _) rfl (Or.inl hpc) rfl)
  · -- quit
    exact Res.nil (hG.api_plain hpc id hid (fun _ _ => rfl) (fun _ _ => rfl) rfl rfl rfl rfl rfl rfl rfl rfl (map_id' _) rfl (Or.inl hpc) rfl)
  · -- invalidateNow
    exact Res.nil (hG.api_plain hpc id hid (fun _ _ => rfl) (fun _ _ => rfl) rfl rfl rfl rfl rfl rfl rfl rfl (map_id' _) rfl (Or.inl hpc) rfl)
  · -- validateNow
    split
    · exact Res.nil hG
    · exact Res.nil (hG.api_plain hpc id hid (fun _ _ => rfl) (fun _ _ => rfl) rfl rfl rfl rfl rfl rfl rfl rfl (map_id' _) rfl (Or.inr rfl) rfl)
  · -- main
    split
    · next hst =>
      exact Res.nil (hG.ctl rfl rfl rfl rfl rfl rfl rfl rfl (by simp [shapeOk, hst, kinds]) (by simp [pcFlushed]) (fun p hp => hp.cov))
    · exact Res.fatal hG.ndead _


/-! ## descriptor API calls: what they leave alone -/

theorem fdRegisterCore_V (s : St) (f : FdId) (i o e : Bool) :
    VFrame { s with fds := upd s.fds f { (s.fds f) with hin := i, hout := o, herr := e, registered := true, ready := {}, regBands := {}, index := none } }
      (fdRegisterCore s f i o e) := by
  have h := notifyFd_V { s with fds := upd s.fds f { (s.fds f) with hin := i, hout := o, herr := e, registered := true, ready := {}, regBands := {}, index := none }, notify := s.notify.erase f } f
  exact ⟨h.method, h.stack, h.handled, h.pc, h.raws, h.evs, h.eventCount, h.useRaw, h.fds⟩

theorem fdUnregisterCore_V (s : St) (f : FdId) :
    let s' := fdUnregisterCore s f
    s'.method = s.method ∧ s'.stack = s.stack.map (eraseActive · f) ∧
    s'.handled = (if s.handled == some f then none else s.handled) ∧ s'.pc = s.pc ∧ s'.raws = s.raws ∧
    s'.evs = s.evs ∧ s'.eventCount = s.eventCount ∧ s'.useRaw = s.useRaw ∧
    (∀ g, (s'.fds g).registered = (if g = f then false else (s.fds g).registered) ∧ (s'.fds g).hin = (s.fds g).hin ∧
      (s'.fds g).hout = (s.fds g).hout ∧ (s'.fds g).herr = (s.fds g).herr ∧ (s'.fds g).ready = (s.fds g).ready) := by
  have h := notifyFd_V { s with fds := upd s.fds f { (s.fds f) with registered := false }, stack := s.stack.map (eraseActive · f) } f
  generalize hs2 : notifyFd { s with fds := upd s.fds f { (s.fds f) with registered := false }, stack := s.stack.map (eraseActive · f) } f = s2 at h
  have h3 : VFrame s2 (if s2.method.isEpoll && s2.notify.contains f then epollFlushOne s2 f else s2) := by
    split
    · exact epollFlushOne_V s2 f
    · exact VFrame.refl s2
  have h4 := h.trans h3
  have hfd : fdUnregisterCore s f =
      { (if s2.method.isEpoll && s2.notify.contains f then epollFlushOne s2 f else s2) with
        numobjs := (if s2.method.isEpoll && s2.notify.contains f then epollFlushOne s2 f else s2).numobjs - 1,
        numfds := (if s2.method.isEpoll && s2.notify.contains f then epollFlushOne s2 f else s2).numfds - 1,
        handled := if (if s2.method.isEpoll && s2.notify.contains f then epollFlushOne s2 f else s2).handled == some f then none
          else (if s2.method.isEpoll && s2.notify.contains f then epollFlushOne s2 f else s2).handled } := by
    subst hs2; rfl
  rw [hfd]
  generalize (if s2.method.isEpoll && s2.notify.contains f then epollFlushOne s2 f else s2) = s3 at h4
  simp only
  refine ⟨h4.method, h4.stack, by rw [h4.handled], h4.pc, h4.raws, h4.evs, h4.eventCount, h4.useRaw, fun g => ?_⟩
  have := h4.fds g
  simp only [upd_apply] at this
  split
  · next e => subst e; simpa using this
  · next e => simpa [e] using this

theorem setH_V (s : St) (f : FdId) (o' : FdObj) :
    VFrame { s with fds := upd s.fds f o' } (notifyFd { s with fds := upd s.fds f o' } f) :=
  notifyFd_V _ f

theorem tryFail_V (s : St) (f : FdId) (i o e : Bool) :
    let s' := tryFail s f i o e
    s'.method = s.method ∧ s'.stack = s.stack ∧ s'.handled = s.handled ∧ s'.pc = s.pc ∧ s'.raws = s.raws ∧
    s'.evs = s.evs ∧ s'.eventCount = s.eventCount ∧ s'.useRaw = s.useRaw ∧ (∀ g, g ≠ f → s'.fds g = s.fds g) ∧
    (s'.fds f).registered = false :=
  ⟨rfl, rfl, rfl, rfl, rfl, rfl, rfl, rfl, fun g hg => upd_ne _ _ hg, by simp [tryFail]⟩

def tsB (s1 : St) (f : FdId) : St := if s1.method.isEpoll then epollFlushOne s1 f else pollNotify s1 f

def tsC (s2 : St) (f : FdId) : St :=
  let s3 := { s2 with fds := upd s2.fds f { (s2.fds f) with wanted := {} } }
  if s3.method.isEpoll then epollNotify s3 f else pollNotify s3 f

theorem tsB_V (s1 : St) (f : FdId) : VFrame s1 (tsB s1 f) := by
  unfold tsB; split
  · exact epollFlushOne_V s1 f
  · exact pollNotify_V s1 f

theorem tsC_V (s2 : St) (f : FdId) : VFrame s2 (tsC s2 f) := by
  unfold tsC
  simp only
  split
  · exact (setWanted_V s2 f {}).trans (epollNotify_V _ f)
  · exact (setWanted_V s2 f {}).trans (pollNotify_V _ f)

theorem trySucc_eq (s : St) (f : FdId) (i o e : Bool) :
    trySucc s f i o e =
      (let o1 : FdObj := { (s.fds f) with hin := i, hout := o, herr := e, registered := true, ready := {}, regBands := {}, index := none }
       let w : Bands := if (wantedOf o1).isZero then ⟨true, true, false⟩ else wantedOf o1
       let s2 := tsB { s with fds := upd s.fds f { o1 with wanted := w }, notify := s.notify.erase f } f
       let s4 := if (wantedOf o1).isZero then tsC s2 f else s2
       { s4 with numobjs := s4.numobjs + 1, numfds := s4.numfds + 1 }) := rfl

theorem trySucc_V (s : St) (f : FdId) (i o e : Bool) :
    VFrame { s with fds := upd s.fds f { (s.fds f) with hin := i, hout := o, herr := e, registered := true, ready := {}, regBands := {}, index := none } }
      (trySucc s f i o e) := by
  rw [trySucc_eq]
  simp only
  generalize (if (wantedOf { (s.fds f) with hin := i, hout := o, herr := e, registered := true, ready := {}, regBands := {}, index := none }).isZero = true
    then (⟨true, true, false⟩ : Bands) else wantedOf { (s.fds f) with hin := i, hout := o, herr := e, registered := true, ready := {}, regBands := {}, index := none }) = w
  have h0 : VFrame { s with fds := upd s.fds f { (s.fds f) with hin := i, hout := o, herr := e, registered := true, ready := {}, regBands := {}, index := none } }
      { s with fds := upd s.fds f { (s.fds f) with hin := i, hout := o, herr := e, registered := true, ready := {}, regBands := {}, index := none, wanted := w }, notify := s.notify.erase f } := by
    refine ⟨rfl, rfl, rfl, rfl, rfl, rfl, rfl, rfl, fun g => ?_⟩
    simp only [upd_apply]; split <;> simp
  have h2 := h0.trans (tsB_V _ f)
  split
  · have h5 := h2.trans (tsC_V _ f)
    exact ⟨h5.method, h5.stack, h5.handled, h5.pc, h5.raws, h5.evs, h5.eventCount, h5.useRaw, h5.fds⟩
  · exact ⟨h2.method, h2.stack, h2.handled, h2.pc, h2.raws, h2.evs, h2.eventCount, h2.useRaw, h2.fds⟩




theorem fdRegisterCore_at (s : St) (f : FdId) (i o e : Bool) :
    let s' := fdRegisterCore s f i o e
    s'.method = s.method ∧ s'.stack = s.stack ∧ s'.handled = s.handled ∧ s'.pc = s.pc ∧ s'.raws = s.raws ∧
    s'.evs = s.evs ∧ s'.eventCount = s.eventCount ∧ s'.useRaw = s.useRaw ∧
    (∀ g, g ≠ f → (s'.fds g).registered = (s.fds g).registered ∧ (s'.fds g).hin = (s.fds g).hin ∧
      (s'.fds g).hout = (s.fds g).hout ∧ (s'.fds g).herr = (s.fds g).herr ∧ (s'.fds g).ready = (s.fds g).ready) ∧
    (s'.fds f).registered = true ∧ (s'.fds f).hin = i ∧ (s'.fds f).hout = o ∧ (s'.fds f).herr = e := by
  have h := fdRegisterCore_V s f i o e
  refine ⟨h.method, h.stack, h.handled, h.pc, h.raws, h.evs, h.eventCount, h.useRaw, fun g hg => ?_, ?_⟩
  · have := h.fds g
    simpa only [upd_ne _ _ hg] using this
  · have := h.fds f
    simp only [upd_same] at this
    exact ⟨this.1, this.2.1, this.2.2.1, this.2.2.2.1⟩

theorem trySucc_at (s : St) (f : FdId) (i o e : Bool) :
    let s' := trySucc s f i o e
    s'.method = s.method ∧ s'.stack = s.stack ∧ s'.handled = s.handled ∧ s'.pc = s.pc ∧ s'.raws = s.raws ∧
    s'.evs = s.evs ∧ s'.eventCount = s.eventCount ∧ s'.useRaw = s.useRaw ∧
    (∀ g, g ≠ f → (s'.fds g).registered = (s.fds g).registered ∧ (s'.fds g).hin = (s.fds g).hin ∧
      (s'.fds g).hout = (s.fds g).hout ∧ (s'.fds g).herr = (s.fds g).herr ∧ (s'.fds g).ready = (s.fds g).ready) ∧
    (s'.fds f).registered = true ∧ (s'.fds f).hin = i ∧ (s'.fds f).hout = o ∧ (s'.fds f).herr = e := by
  have h := trySucc_V s f i o e
  refine ⟨h.method, h.stack, h.handled, h.pc, h.raws, h.evs, h.eventCount, h.useRaw, fun g hg => ?_, ?_⟩
  · have := h.fds g
    simpa only [upd_ne _ _ hg] using this
  · have := h.fds f
    simp only [upd_same] at this
    exact ⟨this.1, this.2.1, this.2.2.1, this.2.2.2.1⟩

/-- registering descriptor `f` (user or internal): everything but the book and the event counters -/
theorem Good.fdReg {μ μ' : M} {s s' : St} (hG : Good μ s) (hpc : s.pc = .user) (f : FdId)
    (hu : (s.fds f).registered = false) (hf : f < 64 ∨ f ≥ 1000)
    (hd : μ'.dead = false) (hgt : μ'.gt = []) (hpend : μ'.book.pending = none) (howed : μ'.owed = μ.owed)
    (hbook : BInv μ'.book.regd s'.fds)
    (hfin : if s'.method.isEpoll = true then EInv s'.fds s'.notify s'.kint else PInv s'.fds s'.pfds)
    (hat : s'.stack = s.stack ∧ s'.handled = s.handled ∧ s'.pc = s.pc ∧
      (∀ g, g ≠ f → (s'.fds g).registered = (s.fds g).registered ∧ (s'.fds g).hin = (s.fds g).hin ∧
        (s'.fds g).hout = (s.fds g).hout ∧ (s'.fds g).herr = (s.fds g).herr ∧ (s'.fds g).ready = (s.fds g).ready) ∧
      (s'.fds f).registered = true)
    (hraws : ∀ r, (s'.raws r).registered = (if rawFd r = f then true else (s.raws r).registered))
    (hevc : ∃ l : List EvId, l.Nodup ∧ (∀ e, (s'.evs e).registered = true ↔ e ∈ l) ∧ s'.eventCount = (l.length : Int))
    (hraw0 : (s'.raws 0).registered = true → s'.eventCount ≥ 1 ∧ s'.useRaw = true) :
    Good μ' s' := by
  obtain ⟨a2, a3, a4, a9, a10⟩ := hat
  have hsh := hG.shape
  refine ⟨hd, hgt, hpend, hbook, hfin, ?_, ?_, ?_, ?_, ?_, hevc, hraw0⟩
  · intro g hg hlt
    by_cases e : g = f
    · subst e
      rcases hf with h | h
      · exact h
      · exact absurd hlt (Nat.not_lt.mpr h)
    · rw [(a9 g e).1] at hg; exact hG.univ g hg hlt
  · intro _ h; rw [a4, hpc] at h; simp [pcFlushed] at h
  · rw [a4, a2]; exact hsh
  · intro p hp
    rw [howed] at hp
    obtain ⟨b1, b2, b3, b4, b5, b6⟩ := hG.owed p hp
    have hne : p.1 ≠ f := by intro e; rw [e, hu] at b3; simp at b3
    have := a9 p.1 hne
    refine ⟨b1, b2, by rw [this.1]; exact b3, ?_, by rw [this.2.2.2.2]; exact b5, ?_⟩
    · have e1 : hbit (s'.fds p.1) p.2 = hbit (s.fds p.1) p.2 := by
        unfold hbit; rw [this.2.1, this.2.2.1, this.2.2.2.1]
      rw [e1]; exact b4
    · simpa only [Cover, a2, a3] using b6
  · intro r
    rw [hraws r]
    by_cases e : rawFd r = f
    · rw [if_pos e, e]; exact a10
    · rw [if_neg e, (a9 _ e).1]; exact hG.rawsync r


theorem fold_two (μ : M) (e1 e2 : Ev) :
    [e1, e2].foldlM C02.step μ = (C02.step μ e1 >>= fun m => C02.step m e2) := by
  simp [List.foldlM_cons]

theorem mon_reg_ok (μ : M) (hd : μ.dead = false) (f : FdId) (i o e : Bool) :
    [Ev.inp (.api (.fdRegister f i o e)), Ev.out (.ret 0)].foldlM C02.step μ =
      .ok { μ with book := { regd := (μ.book.put ⟨f, i, o, e⟩).regd, pending := none } } := by
  rw [fold_two]
  simp [C02.step, hd, FdBook.step, FdBook.put, FdBook.drop, bind, Except.bind]

theorem mon_try_ok (μ : M) (hd : μ.dead = false) (f : FdId) (i o e k : Bool) :
    [Ev.inp (.api (.fdRegisterTry f i o e k)), Ev.out (.ret 0)].foldlM C02.step μ =
      .ok { μ with book := { regd := (μ.book.put ⟨f, i, o, e⟩).regd, pending := none } } := by
  rw [fold_two]
  simp [C02.step, hd, FdBook.step, FdBook.put, FdBook.drop, bind, Except.bind]

theorem mon_try_fail (μ : M) (hd : μ.dead = false) (f : FdId) (i o e k : Bool) :
    [Ev.inp (.api (.fdRegisterTry f i o e k)), Ev.out (.ret (-1))].foldlM C02.step μ =
      .ok { μ with book := { regd := μ.book.regd, pending := none } } := by
  rw [fold_two]
  simp [C02.step, hd, FdBook.step, bind, Except.bind]

theorem mon_api_fatal (μ : M) (hd : μ.dead = false) (a : Api) (m : String) :
    ∃ μ', [Ev.inp (.api a), Ev.out (.fatal m)].foldlM C02.step μ = .ok μ' ∧ μ'.dead = true := by
  rw [fold_two]
  have : ∃ μ1, C02.step μ (.inp (.api a)) = .ok μ1 ∧ μ1.dead = false := by
    cases a <;> simp [C02.step, hd]
    all_goals (rename_i f v; cases v <;> simp)
  obtain ⟨μ1, h1, h2⟩ := this
  rw [h1]
  exact ⟨{ μ1 with dead := true }, by simp [C02.step, h2, bind, Except.bind], rfl⟩


theorem Res.api_fatal {μ : M} {s' : St} (hd : μ.dead = false) (a : Api) (m : String) :
    Res μ (Ev.inp (.api a) :: [Out.fatal m].map Ev.out) s' := by
  obtain ⟨μ', h1, h2⟩ := mon_api_fatal μ hd a m
  exact ⟨μ', h1, Or.inl h2⟩

theorem rawFd_ne_of_lt {f : FdId} (hf : f < 64) (r : RawId) : rawFd r ≠ f := by
  unfold rawFd; intro h; have : f ≥ 1000 := by rw [← h]; exact Nat.le_add_right _ _
  exact absurd hf (Nat.not_lt.mpr (Nat.le_trans (by decide) this))

theorem fin_of {s : St} (hE : s.method.isEpoll = true → EInv s.fds s.notify s.kint)
    (hP : s.method.isEpoll = false → PInv s.fds s.pfds) :
    if s.method.isEpoll = true then EInv s.fds s.notify s.kint else PInv s.fds s.pfds := by
  split
  · next h => exact hE h
  · next h => exact hP (by simpa using h)

theorem Good.finE {μ : M} {s : St} (hG : Good μ s) (hE : s.method.isEpoll = true) : EInv s.fds s.notify s.kint := by
  have := hG.fin; rwa [if_pos hE] at this

theorem Good.finP {μ : M} {s : St} (hG : Good μ s) (hE : s.method.isEpoll = false) : PInv s.fds s.pfds := by
  have := hG.fin; rwa [if_neg (by simp [hE])] at this

theorem api_fdRegister {μ : M} {s : St} (hG : Good μ s) (hpc : s.pc = .user) (f : FdId) (i o e : Bool)
    (hf : f < 64) :
    Res μ (Ev.inp (.api (.fdRegister f i o e)) :: (api s (.fdRegister f i o e)).2.map Ev.out)
      (api s (.fdRegister f i o e)).1 := by
  simp only [api]
  split
  · exact Res.api_fatal hG.ndead _ _
  · next hu =>
    have hu : (s.fds f).registered = false := by simpa using hu
    simp only [ok, List.map_cons, List.map_nil]
    refine ⟨_, mon_reg_ok μ hG.ndead f i o e, Or.inr ?_⟩
    obtain ⟨a1, a2, a3, a4, a5, a6, a7, a8, a9, a10, a11, a12, a13⟩ := fdRegisterCore_at s f i o e
    have hlt : f < 1000 := Nat.lt_trans hf (by decide)
    refine hG.fdReg hpc f hu (Or.inl hf) hG.ndead hG.gt rfl rfl ?_ ?_ ⟨a2, a3, a4, a9, a10⟩ ?_ ?_ ?_
    · exact hG.book.put ⟨f, i, o, e⟩ (fun g hg => by have := a9 g hg; exact ⟨this.1, this.2.1, this.2.2.1, this.2.2.2.1⟩)
        hlt a10 a11.symm a12.symm a13.symm
    · apply fin_of
      · intro hE; rw [a1] at hE; exact fdRegisterCore_E s f i o e hE (hG.finE hE) hu
      · intro hE; rw [a1] at hE; exact fdRegisterCore_P s f i o e hE (hG.finP hE) hu
    · intro r; rw [a5, if_neg (rawFd_ne_of_lt hf r)]
    · rw [a6, a7]; exact hG.evcount
    · rw [a5, a7, a8]; exact hG.raw0


theorem book_eta (μ : M) (hp : μ.book.pending = none) :
    ({ μ with book := { regd := μ.book.regd, pending := none } } : M) = μ := by
  obtain ⟨⟨regd, pending⟩, owed, gt, inWait, dead⟩ := μ
  simp only at hp
  subst hp
  rfl

theorem api_fdRegisterTry {μ : M} {s : St} (hG : Good μ s) (hpc : s.pc = .user) (f : FdId) (i o e k : Bool)
    (hf : f < 64) :
    Res μ (Ev.inp (.api (.fdRegisterTry f i o e k)) :: (api s (.fdRegisterTry f i o e k)).2.map Ev.out)
      (api s (.fdRegisterTry f i o e k)).1 := by
  cases hu : (s.fds f).registered with
  | true =>
    simp only [api, hu, if_true]
    exact Res.api_fatal hG.ndead _ _
  | false =>
    have hlt : f < 1000 := Nat.lt_trans hf (by decide)
    cases k with
    | false =>
      rw [api_tryFail s f i o e hu]
      simp only [List.map_cons, List.map_nil]
      refine ⟨_, mon_try_fail μ hG.ndead f i o e false, Or.inr ?_⟩
      rw [book_eta μ hG.pend]
      obtain ⟨a1, a2, a3, a4, a5, a6, a7, a8, a9, a10⟩ := tryFail_V s f i o e
      refine hG.view a2 a3 (fun g => ?_) (fun g hg => ?_) (fun r => by rw [a5]) (fun e => by rw [a6]) a7 ?_ ?_ ?_ a8
      · by_cases e : g = f
        · subst e; rw [a10, hu]
        · rw [a9 g e]
      · have : g ≠ f := by intro e; subst e; rw [hu] at hg; simp at hg
        rw [a9 g this]; exact ⟨rfl, rfl, rfl, rfl⟩
      · apply fin_of
        · intro hE; rw [a1] at hE; exact tryFail_E s f i o e (hG.finE hE) hu
        · intro hE; rw [a1] at hE; exact tryFail_P s f i o e (hG.finP hE) hu
      · intro _ h; rw [a4, hpc] at h; simp [pcFlushed] at h
      · rw [a4, a2]; exact hG.shape
    | true =>
      rw [api_trySucc s f i o e hu]
      simp only [List.map_cons, List.map_nil]
      refine ⟨_, mon_try_ok μ hG.ndead f i o e true, Or.inr ?_⟩
      obtain ⟨a1, a2, a3, a4, a5, a6, a7, a8, a9, a10, a11, a12, a13⟩ := trySucc_at s f i o e
      refine hG.fdReg hpc f hu (Or.inl hf) hG.ndead hG.gt rfl rfl ?_ ?_ ⟨a2, a3, a4, a9, a10⟩ ?_ ?_ ?_
      · exact hG.book.put ⟨f, i, o, e⟩ (fun g hg => by have := a9 g hg; exact ⟨this.1, this.2.1, this.2.2.1, this.2.2.2.1⟩)
          hlt a10 a11.symm a12.symm a13.symm
      · apply fin_of
        · intro hE; rw [a1] at hE; exact trySucc_E s f i o e hE (hG.finE hE) hu
        · intro hE; rw [a1] at hE; exact trySucc_P s f i o e hE (hG.finP hE) hu
      · intro r; rw [a5, if_neg (rawFd_ne_of_lt hf r)]
      · rw [a6, a7]; exact hG.evcount
      · rw [a5, a7, a8]; exact hG.raw0


theorem mon_unreg (μ : M) (hd : μ.dead = false) (f : FdId) :
    [Ev.inp (.api (.fdUnregister f)), Ev.out (.ret 0)].foldlM C02.step μ =
      .ok { μ with book := { regd := (μ.book.drop f).regd, pending := none }, owed := μ.owed.filter (·.1 != f) } := by
  rw [fold_two]
  simp [C02.step, hd, FdBook.step, FdBook.drop, bind, Except.bind]

/-- unregistering descriptor `f` (user or internal) -/
theorem Good.fdUnreg {μ μ' : M} {s s' : St} (hG : Good μ s) (hpc : s.pc = .user) (f : FdId)
    (g : Frame → Frame) (hg : ∀ fr, kind (g fr) = kind fr)
    (hgp : ∀ a rt, g (.poll a rt) = .poll a rt) (hgf : ∀ c st, g (.fd c st) = .fd c st)
    (hd : μ'.dead = false) (hgt : μ'.gt = []) (hpend : μ'.book.pending = none)
    (howed : ∀ p ∈ μ'.owed, p ∈ μ.owed ∧ p.1 ≠ f)
    (hbook : BInv μ'.book.regd s'.fds)
    (hfin : if s'.method.isEpoll = true then EInv s'.fds s'.notify s'.kint else PInv s'.fds s'.pfds)
    (hat : s'.stack = (s.stack.map g).map (eraseActive · f) ∧
      s'.handled = (if s.handled == some f then none else s.handled) ∧ s'.pc = s.pc ∧
      (∀ g, (s'.fds g).registered = (if g = f then false else (s.fds g).registered) ∧ (s'.fds g).hin = (s.fds g).hin ∧
        (s'.fds g).hout = (s.fds g).hout ∧ (s'.fds g).herr = (s.fds g).herr ∧ (s'.fds g).ready = (s.fds g).ready))
    (hraws : ∀ r, (s'.raws r).registered = (if rawFd r = f then false else (s.raws r).registered))
    (hevc : ∃ l : List EvId, l.Nodup ∧ (∀ e, (s'.evs e).registered = true ↔ e ∈ l) ∧ s'.eventCount = (l.length : Int))
    (hraw0 : (s'.raws 0).registered = true → s'.eventCount ≥ 1 ∧ s'.useRaw = true) :
    Good μ' s' := by
  obtain ⟨a2, a3, a4, a9⟩ := hat
  have hsh := hG.shape
  refine ⟨hd, hgt, hpend, hbook, hfin, ?_, ?_, ?_, ?_, ?_, hevc, hraw0⟩
  · intro g hg hlt
    rw [(a9 g).1] at hg
    split at hg
    · simp at hg
    · exact hG.univ g hg hlt
  · intro _ h; rw [a4, hpc] at h; simp [pcFlushed] at h
  · rw [a4, a2]; exact shape_map _ (kind_eraseActive f) (shape_map g hg hsh)
  · intro p hp
    obtain ⟨hp1, hne⟩ := howed p hp
    obtain ⟨b1, b2, b3, b4, b5, b6⟩ := hG.owed p hp1
    have := a9 p.1
    rw [if_neg hne] at this
    refine ⟨b1, b2, by rw [this.1]; exact b3, ?_, by rw [this.2.2.2.2]; exact b5, ?_⟩
    · have e1 : hbit (s'.fds p.1) p.2 = hbit (s.fds p.1) p.2 := by
        unfold hbit; rw [this.2.1, this.2.2.1, this.2.2.2.1]
      rw [e1]; exact b4
    · simp only [Cover, a2, a3, activeOf_eraseActive, curOf_eraseActive, activeOf_map g hg hgp, curOf_map g hg hgf] at b6 ⊢
      rcases b6 with h | ⟨st, h1, h2, h3⟩
      · left; exact (List.mem_erase_of_ne hne).2 h
      · right
        refine ⟨st, h1, ?_, h3⟩
        rw [h2]
        have : (some p.1 == some f) = false := by simpa using hne
        simp [this]
  · intro r
    rw [hraws r, (a9 _).1]
    by_cases e : rawFd r = f
    · rw [if_pos e, if_pos e]
    · rw [if_neg e, if_neg e]; exact hG.rawsync r


theorem api_fdUnregister {μ : M} {s : St} (hG : Good μ s) (hpc : s.pc = .user) (f : FdId) (hf : f < 64) :
    Res μ (Ev.inp (.api (.fdUnregister f)) :: (api s (.fdUnregister f)).2.map Ev.out)
      (api s (.fdUnregister f)).1 := by
  simp only [api]
  split
  · exact Res.api_fatal hG.ndead _ _
  · simp only [ok, List.map_cons, List.map_nil]
    refine ⟨_, mon_unreg μ hG.ndead f, Or.inr ?_⟩
    obtain ⟨a1, a2, a3, a4, a5, a6, a7, a8, a9⟩ := fdUnregisterCore_V s f
    refine hG.fdUnreg hpc f id (fun _ => rfl) (fun _ _ => rfl) (fun _ _ => rfl) hG.ndead hG.gt rfl ?_ ?_ ?_ ⟨by rw [a2, List.map_id], a3, a4, a9⟩ ?_ ?_ ?_
    · intro p hp
      simp only [List.mem_filter, bne_iff_ne, ne_eq] at hp
      exact hp
    · refine hG.book.drop f (fun g hg => ?_) ?_
      · have := a9 g; rw [if_neg hg] at this; exact ⟨this.1, this.2.1, this.2.2.1, this.2.2.2.1⟩
      · have := (a9 f).1; simpa using this
    · apply fin_of
      · intro hE; rw [a1] at hE; exact fdUnregisterCore_E s f hE (hG.finE hE)
      · intro hE; rw [a1] at hE; exact fdUnregisterCore_P s f hE (hG.finP hE)
    · intro r; rw [a5, if_neg (rawFd_ne_of_lt hf r)]
    · rw [a6, a7]; exact hG.evcount
    · rw [a5, a7, a8]; exact hG.raw0

/-- changing one handler of the registered descriptor `f` -/
theorem Good.fdSet {μ μ' : M} {s s' : St} (hG : Good μ s) (hpc : s.pc = .user) (f : FdId) (o' : FdObj)
    (ho : o'.registered = true ∧ o'.ready = (s.fds f).ready) (hf : f < 64)
    (hV : VFrame { s with fds := upd s.fds f o' } s')
    (hd : μ'.dead = false) (hgt : μ'.gt = []) (hpend : μ'.book.pending = none)
    (howed : ∀ p ∈ μ'.owed, p ∈ μ.owed ∧ (p.1 = f → hbit o' p.2 = true))
    (hbook : BInv μ'.book.regd s'.fds)
    (hfin : if s'.method.isEpoll = true then EInv s'.fds s'.notify s'.kint else PInv s'.fds s'.pfds) :
    Good μ' s' := by
  have hsh := hG.shape
  have hfd : ∀ g, g ≠ f → (s'.fds g).registered = (s.fds g).registered ∧ (s'.fds g).hin = (s.fds g).hin ∧
      (s'.fds g).hout = (s.fds g).hout ∧ (s'.fds g).herr = (s.fds g).herr ∧ (s'.fds g).ready = (s.fds g).ready := by
    intro g hg; have := hV.fds g; simpa only [upd_ne _ _ hg] using this
  have hff := hV.fds f
  simp only [upd_same] at hff
  refine ⟨hd, hgt, hpend, hbook, hfin, ?_, ?_, ?_, ?_, ?_, ?_, ?_⟩
  · intro g hg hlt
    by_cases e : g = f
    · subst e; exact hf
    · rw [(hfd g e).1] at hg; exact hG.univ g hg hlt
  · intro _ h; rw [hV.pc] at h; simp only [hpc] at h; simp [pcFlushed] at h
  · rw [hV.pc, hV.stack]; exact hsh
  · intro p hp
    obtain ⟨hp1, hp2⟩ := howed p hp
    obtain ⟨b1, b2, b3, b4, b5, b6⟩ := hG.owed p hp1
    by_cases e : p.1 = f
    · refine ⟨b1, b2, by rw [e, hff.1]; exact ho.1, ?_, ?_, ?_⟩
      · have e1 : hbit (s'.fds p.1) p.2 = hbit o' p.2 := by
          rw [e]; unfold hbit; rw [hff.2.1, hff.2.2.1, hff.2.2.2.1]
        rw [e1]; exact hp2 e
      · rw [e, hff.2.2.2.2, ho.2, ← e]; exact b5
      · simpa only [Cover, hV.stack, hV.handled] using b6
    · have := hfd p.1 e
      refine ⟨b1, b2, by rw [this.1]; exact b3, ?_, by rw [this.2.2.2.2]; exact b5, ?_⟩
      · have e1 : hbit (s'.fds p.1) p.2 = hbit (s.fds p.1) p.2 := by
          unfold hbit; rw [this.2.1, this.2.2.1, this.2.2.2.1]
        rw [e1]; exact b4
      · simpa only [Cover, hV.stack, hV.handled] using b6
  · intro r
    have hne := rawFd_ne_of_lt hf r
    rw [(hfd _ hne).1, hV.raws]; exact hG.rawsync r
  · rw [hV.evs, hV.eventCount]; exact hG.evcount
  · rw [hV.raws, hV.eventCount, hV.useRaw]; exact hG.raw0


theorem mon_setIn (μ : M) (hd : μ.dead = false) (f : FdId) (v : Bool) (w : FdView) (hw : μ.book.find f = some w) :
    [Ev.inp (.api (.fdSetIn f v)), Ev.out (.ret 0)].foldlM C02.step μ =
      .ok { μ with book := { regd := (μ.book.put { w with hin := v }).regd, pending := none },
                   owed := if v then μ.owed else μ.owed.filter (· != (f, 1)) } := by
  rw [fold_two]
  cases v <;> simp [C02.step, hd, FdBook.step, hw, FdBook.put, FdBook.drop, bind, Except.bind]

theorem mon_setOut (μ : M) (hd : μ.dead = false) (f : FdId) (v : Bool) (w : FdView) (hw : μ.book.find f = some w) :
    [Ev.inp (.api (.fdSetOut f v)), Ev.out (.ret 0)].foldlM C02.step μ =
      .ok { μ with book := { regd := (μ.book.put { w with hout := v }).regd, pending := none },
                   owed := if v then μ.owed else μ.owed.filter (· != (f, 2)) } := by
  rw [fold_two]
  cases v <;> simp [C02.step, hd, FdBook.step, hw, FdBook.put, FdBook.drop, bind, Except.bind]

theorem mon_setErr (μ : M) (hd : μ.dead = false) (f : FdId) (v : Bool) (w : FdView) (hw : μ.book.find f = some w) :
    [Ev.inp (.api (.fdSetErr f v)), Ev.out (.ret 0)].foldlM C02.step μ =
      .ok { μ with book := { regd := (μ.book.put { w with herr := v }).regd, pending := none },
                   owed := if v then μ.owed else μ.owed.filter (· != (f, 0)) } := by
  rw [fold_two]
  cases v <;> simp [C02.step, hd, FdBook.step, hw, FdBook.put, FdBook.drop, bind, Except.bind]

theorem api_fdSetIn {μ : M} {s : St} (hG : Good μ s) (hpc : s.pc = .user) (f : FdId) (v : Bool) (hf : f < 64) :
    Res μ (Ev.inp (.api (.fdSetIn f v)) :: (api s (.fdSetIn f v)).2.map Ev.out) (api s (.fdSetIn f v)).1 := by
  simp only [api]
  split
  · exact Res.api_fatal hG.ndead _ _
  · next hr =>
    have hr : (s.fds f).registered = true := by simpa using hr
    have hlt : f < 1000 := Nat.lt_trans hf (by decide)
    obtain ⟨w, hw, hwf, hw1, hw2, hw3⟩ := find_of_reg hG.book hlt hr
    simp only [ok, List.map_cons, List.map_nil]
    refine ⟨_, mon_setIn μ hG.ndead f v w hw, Or.inr ?_⟩
    have hV := setH_V s f { (s.fds f) with hin := v }
    have hff := hV.fds f
    simp only [upd_same] at hff
    refine hG.fdSet hpc f { (s.fds f) with hin := v } ⟨hr, rfl⟩ hf hV hG.ndead hG.gt rfl ?_ ?_ ?_
    · intro p hp
      simp only at hp
      have hp' : p ∈ μ.owed ∧ (v = false → p ≠ (f, 1)) := by
        cases v with
        | true => exact ⟨by simpa using hp, fun h => by simp at h⟩
        | false => simp only [Bool.false_eq_true, if_false, List.mem_filter, bne_iff_ne, ne_eq] at hp; exact ⟨hp.1, fun _ => hp.2⟩
      refine ⟨hp'.1, fun e => ?_⟩
      have b4 := (hG.owed p hp'.1).hset
      rw [e] at b4
      obtain ⟨p1, p2⟩ := p
      simp only at e b4 ⊢
      subst e
      match p2, b4, hp'.2 with
      | 0, b4, _ => exact b4
      | 1, b4, h => cases v with
        | true => rfl
        | false => exact absurd rfl (h rfl)
      | n + 2, b4, _ => exact b4
    · refine hG.book.put { w with hin := v } (fun g hg => ?_) (by rw [hwf]; exact hlt) ?_ ?_ ?_ ?_
      · simp only [hwf] at hg
        have := hV.fds g
        simp only [upd_ne _ _ hg] at this
        exact ⟨this.1, this.2.1, this.2.2.1, this.2.2.2.1⟩
      · simp only [hwf]; rw [hff.1]; exact hr
      · simp only [hwf]; rw [hff.2.1]
      · simp only [hwf]; rw [hff.2.2.1]; exact hw2
      · simp only [hwf]; rw [hff.2.2.2.1]; exact hw3
    · apply fin_of
      · intro hE; rw [hV.method] at hE; exact setIn_E s f v hE (hG.finE hE) hr
      · intro hE; rw [hV.method] at hE; exact setIn_P s f v hE (hG.finP hE)

theorem api_fdSetOut {μ : M} {s : St} (hG : Good μ s) (hpc : s.pc = .user) (f : FdId) (v : Bool) (hf : f < 64) :
    Res μ (Ev.inp (.api (.fdSetOut f v)) :: (api s (.fdSetOut f v)).2.map Ev.out) (api s (.fdSetOut f v)).1 := by
  simp only [api]
  split
  · exact Res.api_fatal hG.ndead _ _
  · next hr =>
    have hr : (s.fds f).registered = true := by simpa using hr
    have hlt : f < 1000 := Nat.lt_trans hf (by decide)
    obtain ⟨w, hw, hwf, hw1, hw2, hw3⟩ := find_of_reg hG.book hlt hr
    simp only [ok, List.map_cons, List.map_nil]
    refine ⟨_, mon_setOut μ hG.ndead f v w hw, Or.inr ?_⟩
    have hV := setH_V s f { (s.fds f) with hout := v }
    have hff := hV.fds f
    simp only [upd_same] at hff
    refine hG.fdSet hpc f { (s.fds f) with hout := v } ⟨hr, rfl⟩ hf hV hG.ndead hG.gt rfl ?_ ?_ ?_
    · intro p hp
      simp only at hp
      have hp' : p ∈ μ.owed ∧ (v = false → p ≠ (f, 2)) := by
        cases v with
        | true => exact ⟨by simpa using hp, fun h => by simp at h⟩
        | false => simp only [Bool.false_eq_true, if_false, List.mem_filter, bne_iff_ne, ne_eq] at hp; exact ⟨hp.1, fun _ => hp.2⟩
      refine ⟨hp'.1, fun e => ?_⟩
      have b4 := (hG.owed p hp'.1).hset
      have b2 := (hG.owed p hp'.1).band
      rw [e] at b4
      obtain ⟨p1, p2⟩ := p
      simp only at e b4 b2 ⊢
      subst e
      match p2, b4, b2, hp'.2 with
      | 0, b4, _, _ => exact b4
      | 1, b4, _, _ => exact b4
      | 2, b4, _, h => cases v with
        | true => rfl
        | false => exact absurd rfl (h rfl)
      | n + 3, _, b2, _ => omega
    · refine hG.book.put { w with hout := v } (fun g hg => ?_) (by rw [hwf]; exact hlt) ?_ ?_ ?_ ?_
      · simp only [hwf] at hg
        have := hV.fds g
        simp only [upd_ne _ _ hg] at this
        exact ⟨this.1, this.2.1, this.2.2.1, this.2.2.2.1⟩
      · simp only [hwf]; rw [hff.1]; exact hr
      · simp only [hwf]; rw [hff.2.1]; exact hw1
      · simp only [hwf]; rw [hff.2.2.1]
      · simp only [hwf]; rw [hff.2.2.2.1]; exact hw3
    · apply fin_of
      · intro hE; rw [hV.method] at hE; exact setOut_E s f v hE (hG.finE hE) hr
      · intro hE; rw [hV.method] at hE; exact setOut_P s f v hE (hG.finP hE)


theorem api_fdSetErr {μ : M} {s : St} (hG : Good μ s) (hpc : s.pc = .user) (f : FdId) (v : Bool) (hf : f < 64) :
    Res μ (Ev.inp (.api (.fdSetErr f v)) :: (api s (.fdSetErr f v)).2.map Ev.out) (api s (.fdSetErr f v)).1 := by
  simp only [api]
  split
  · exact Res.api_fatal hG.ndead _ _
  · next hr =>
    have hr : (s.fds f).registered = true := by simpa using hr
    have hlt : f < 1000 := Nat.lt_trans hf (by decide)
    obtain ⟨w, hw, hwf, hw1, hw2, hw3⟩ := find_of_reg hG.book hlt hr
    simp only [ok, List.map_cons, List.map_nil]
    refine ⟨_, mon_setErr μ hG.ndead f v w hw, Or.inr ?_⟩
    have hV := setH_V s f { (s.fds f) with herr := v }
    have hff := hV.fds f
    simp only [upd_same] at hff
    refine hG.fdSet hpc f { (s.fds f) with herr := v } ⟨hr, rfl⟩ hf hV hG.ndead hG.gt rfl ?_ ?_ ?_
    · intro p hp
      simp only at hp
      have hp' : p ∈ μ.owed ∧ (v = false → p ≠ (f, 0)) := by
        cases v with
        | true => exact ⟨by simpa using hp, fun h => by simp at h⟩
        | false => simp only [Bool.false_eq_true, if_false, List.mem_filter, bne_iff_ne, ne_eq] at hp; exact ⟨hp.1, fun _ => hp.2⟩
      refine ⟨hp'.1, fun e => ?_⟩
      have b4 := (hG.owed p hp'.1).hset
      rw [e] at b4
      obtain ⟨p1, p2⟩ := p
      simp only at e b4 ⊢
      subst e
      match p2, b4, hp'.2 with
      | 0, b4, h => cases v with
        | true => rfl
        | false => exact absurd rfl (h rfl)
      | 1, b4, _ => exact b4
      | n + 2, b4, _ => exact b4
    · refine hG.book.put { w with herr := v } (fun g hg => ?_) (by rw [hwf]; exact hlt) ?_ ?_ ?_ ?_
      · simp only [hwf] at hg
        have := hV.fds g
        simp only [upd_ne _ _ hg] at this
        exact ⟨this.1, this.2.1, this.2.2.1, this.2.2.2.1⟩
      · simp only [hwf]; rw [hff.1]; exact hr
      · simp only [hwf]; rw [hff.2.1]; exact hw1
      · simp only [hwf]; rw [hff.2.2.1]; exact hw2
      · simp only [hwf]; rw [hff.2.2.2.1]
    · apply fin_of
      · intro hE; rw [hV.method] at hE; exact setErr_E s f v hE (hG.finE hE) hr
      · intro hE; rw [hV.method] at hE; exact setErr_P s f v hE (hG.finP hE)





theorem rawFd_inj {r r' : RawId} : rawFd r' = rawFd r ↔ r' = r := by
  unfold rawFd
  exact Nat.add_left_cancel_iff

theorem rawFd_ge (r : RawId) : rawFd r ≥ 1000 := by
  unfold rawFd
  exact Nat.le_add_right _ _

theorem Res.api_ret {μ : M} {s' : St} (a : Api) (ha : isFdApi a = false) (v : Int) (h : Good μ s') :
    Res μ (Ev.inp (.api a) :: [Out.ret v].map Ev.out) s' :=
  Res.inp (step_api_other μ h.ndead h.pend a ha) (Res.ret v h)

theorem Res.api_nil {μ : M} {s' : St} (a : Api) (ha : isFdApi a = false) (h : Good μ s') :
    Res μ (Ev.inp (.api a) :: [].map Ev.out) s' :=
  Res.inp (step_api_other μ h.ndead h.pend a ha) (Res.nil h)

/-- registering raw event `r` (its embedded descriptor) from a Good state whose counters may have moved -/
theorem Good.rawReg {μ : M} {s s2 : St} (hG : Good μ s) (hpc : s.pc = .user) (r : RawId)
    (hu : (s.raws r).registered = false)
    (h2 : s2.fds = s.fds ∧ s2.notify = s.notify ∧ s2.pfds = s.pfds ∧ s2.kint = s.kint ∧ s2.method = s.method ∧
      s2.stack = s.stack ∧ s2.handled = s.handled ∧ s2.pc = s.pc ∧ s2.raws = s.raws)
    (s' : St) (hs' : s'.fds = (rawRegisterCore s2 r).fds ∧ s'.notify = (rawRegisterCore s2 r).notify ∧
      s'.pfds = (rawRegisterCore s2 r).pfds ∧ s'.kint = (rawRegisterCore s2 r).kint ∧
      s'.method = (rawRegisterCore s2 r).method ∧ s'.stack = (rawRegisterCore s2 r).stack ∧
      s'.handled = (rawRegisterCore s2 r).handled ∧ s'.pc = (rawRegisterCore s2 r).pc ∧
      s'.raws = (rawRegisterCore s2 r).raws)
    (hevc : ∃ l : List EvId, l.Nodup ∧ (∀ e, (s'.evs e).registered = true ↔ e ∈ l) ∧ s'.eventCount = (l.length : Int))
    (hraw0 : (s'.raws 0).registered = true → s'.eventCount ≥ 1 ∧ s'.useRaw = true) : Good μ s' := by
  obtain ⟨b1, b2, b3, b4, b5, b6, b7, b8, b9⟩ := h2
  obtain ⟨c1, c2, c3, c4, c5, c6, c7, c8, c9⟩ := hs'
  have hfu : (s2.fds (rawFd r)).registered = false := by rw [b1, hG.rawsync r]; exact hu
  obtain ⟨a1, a2, a3, a4, a5, a6, a7, a8, a9, a10, a11, a12, a13⟩ := fdRegisterCore_at s2 (rawFd r) true false false
  have hfds : s'.fds = (fdRegisterCore s2 (rawFd r) true false false).fds := c1
  have hfd9 : ∀ g, g ≠ rawFd r → (s'.fds g).registered = (s.fds g).registered ∧ (s'.fds g).hin = (s.fds g).hin ∧
      (s'.fds g).hout = (s.fds g).hout ∧ (s'.fds g).herr = (s.fds g).herr ∧ (s'.fds g).ready = (s.fds g).ready := by
    intro g hg; rw [hfds, ← b1]; exact a9 g hg
  refine hG.fdReg hpc (rawFd r) (by rw [← b1]; exact hfu) (Or.inr (rawFd_ge r)) hG.ndead hG.gt hG.pend rfl ?_ ?_
    ⟨?_, ?_, ?_, hfd9, by rw [hfds]; exact a10⟩ ?_ hevc hraw0
  · refine hG.book.same' (fun g hg => ?_) (fun g hg _ => ?_)
    · have : g ≠ rawFd r := fun e => absurd hg (by rw [e]; exact Nat.not_lt.mpr (rawFd_ge r))
      exact (hfd9 g this).1
    · have : g ≠ rawFd r := fun e => absurd hg (by rw [e]; exact Nat.not_lt.mpr (rawFd_ge r))
      have := hfd9 g this
      exact ⟨this.2.1, this.2.2.1, this.2.2.2.1⟩
  · have hm : s'.method = s.method := by rw [c5]; show (fdRegisterCore s2 (rawFd r) true false false).method = _; rw [a1, b5]
    apply fin_of
    · intro hE
      have hE2 : s2.method.isEpoll = true := by rw [b5, ← hm]; exact hE
      rw [c1, c2, c4]
      exact fdRegisterCore_E s2 (rawFd r) true false false hE2 (by rw [b1, b2, b4]; exact hG.finE (by rw [← b5]; exact hE2)) hfu
    · intro hE
      have hE2 : s2.method.isEpoll = false := by rw [b5, ← hm]; exact hE
      rw [c1, c3]
      exact fdRegisterCore_P s2 (rawFd r) true false false hE2 (by rw [b1, b3]; exact hG.finP (by rw [← b5]; exact hE2)) hfu
  · rw [c6]; show (fdRegisterCore s2 (rawFd r) true false false).stack = _; rw [a2, b6]
  · rw [c7]; show (fdRegisterCore s2 (rawFd r) true false false).handled = _; rw [a3, b7]
  · rw [c8]; show (fdRegisterCore s2 (rawFd r) true false false).pc = _; rw [a4, b8]
  · intro r'
    rw [c9]
    show ((upd (fdRegisterCore s2 (rawFd r) true false false).raws r _) r').registered = _
    rw [a5, b9]
    simp only [upd_apply, rawFd_inj]
    split <;> simp_all


theorem Good.rawUnreg {μ : M} {s s2 : St} (hG : Good μ s) (hpc : s.pc = .user) (r : RawId)
    (g : Frame → Frame) (hg : ∀ fr, kind (g fr) = kind fr)
    (hgp : ∀ a rt, g (.poll a rt) = .poll a rt) (hgf : ∀ c st, g (.fd c st) = .fd c st)
    (h2 : s2.fds = s.fds ∧ s2.notify = s.notify ∧ s2.pfds = s.pfds ∧ s2.kint = s.kint ∧ s2.method = s.method ∧
      s2.stack = s.stack.map g ∧ s2.handled = s.handled ∧ s2.pc = s.pc ∧ s2.raws = s.raws)
    (s' : St) (hs' : s'.fds = (rawUnregisterCore s2 r).fds ∧ s'.notify = (rawUnregisterCore s2 r).notify ∧
      s'.pfds = (rawUnregisterCore s2 r).pfds ∧ s'.kint = (rawUnregisterCore s2 r).kint ∧
      s'.method = (rawUnregisterCore s2 r).method ∧ s'.stack = (rawUnregisterCore s2 r).stack ∧
      s'.handled = (rawUnregisterCore s2 r).handled ∧ s'.pc = (rawUnregisterCore s2 r).pc ∧
      s'.raws = (rawUnregisterCore s2 r).raws)
    (hevc : ∃ l : List EvId, l.Nodup ∧ (∀ e, (s'.evs e).registered = true ↔ e ∈ l) ∧ s'.eventCount = (l.length : Int))
    (hraw0 : (s'.raws 0).registered = true → s'.eventCount ≥ 1 ∧ s'.useRaw = true) : Good μ s' := by
  obtain ⟨b1, b2, b3, b4, b5, b6, b7, b8, b9⟩ := h2
  obtain ⟨c1, c2, c3, c4, c5, c6, c7, c8, c9⟩ := hs'
  obtain ⟨a1, a2, a3, a4, a5, a6, a7, a8, a9⟩ := fdUnregisterCore_V s2 (rawFd r)
  have hfds : s'.fds = (fdUnregisterCore s2 (rawFd r)).fds := c1
  have hm : s'.method = s.method := by rw [c5]; show (fdUnregisterCore s2 (rawFd r)).method = _; rw [a1, b5]
  have hfd9 : ∀ g, (s'.fds g).registered = (if g = rawFd r then false else (s.fds g).registered) ∧
      (s'.fds g).hin = (s.fds g).hin ∧ (s'.fds g).hout = (s.fds g).hout ∧ (s'.fds g).herr = (s.fds g).herr ∧
      (s'.fds g).ready = (s.fds g).ready := by
    intro g; rw [hfds, ← b1]; exact a9 g
  refine hG.fdUnreg hpc (rawFd r) g hg hgp hgf hG.ndead hG.gt hG.pend (fun p hp => ⟨hp, ?_⟩) ?_ ?_
    ⟨?_, ?_, ?_, hfd9⟩ ?_ hevc hraw0
  · have := (hG.owed p hp).lt
    exact fun e => absurd this (by rw [e]; exact Nat.not_lt.mpr (rawFd_ge r))
  · refine hG.book.same' (fun g hg => ?_) (fun g hg _ => ?_)
    · have : g ≠ rawFd r := fun e => absurd hg (by rw [e]; exact Nat.not_lt.mpr (rawFd_ge r))
      have h := (hfd9 g).1; rw [if_neg this] at h; exact h
    · have := hfd9 g
      exact ⟨this.2.1, this.2.2.1, this.2.2.2.1⟩
  · apply fin_of
    · intro hE
      have hE2 : s2.method.isEpoll = true := by rw [b5, ← hm]; exact hE
      rw [c1, c2, c4]
      exact fdUnregisterCore_E s2 (rawFd r) hE2 (by rw [b1, b2, b4]; exact hG.finE (by rw [← b5]; exact hE2))
    · intro hE
      have hE2 : s2.method.isEpoll = false := by rw [b5, ← hm]; exact hE
      rw [c1, c3]
      exact fdUnregisterCore_P s2 (rawFd r) hE2 (by rw [b1, b3]; exact hG.finP (by rw [← b5]; exact hE2))
  · rw [c6]; show (fdUnregisterCore s2 (rawFd r)).stack = _; rw [a2, b6]
  · rw [c7]; show (fdUnregisterCore s2 (rawFd r)).handled = _; rw [a3, b7]
  · rw [c8]; show (fdUnregisterCore s2 (rawFd r)).pc = _; rw [a4, b8]
  · intro r'
    rw [c9]
    show ((upd (fdUnregisterCore s2 (rawFd r)).raws r _) r').registered = _
    rw [a5, b9]
    simp only [upd_apply, rawFd_inj]
    split <;> simp_all

theorem rawRegisterCore_at (s : St) (r : RawId) :
    (rawRegisterCore s r).evs = s.evs ∧ (rawRegisterCore s r).eventCount = s.eventCount ∧
    (rawRegisterCore s r).useRaw = s.useRaw ∧
    ∀ r', ((rawRegisterCore s r).raws r').registered = (if r' = r then true else (s.raws r').registered) := by
  obtain ⟨a1, a2, a3, a4, a5, a6, a7, a8, -⟩ := fdRegisterCore_at s (rawFd r) true false false
  refine ⟨a6, a7, a8, fun r' => ?_⟩
  show ((upd (fdRegisterCore s (rawFd r) true false false).raws r _) r').registered = _
  rw [a5]
  simp only [upd_apply]
  split <;> rfl

theorem rawUnregisterCore_at (s : St) (r : RawId) :
    (rawUnregisterCore s r).evs = s.evs ∧ (rawUnregisterCore s r).eventCount = s.eventCount ∧
    (rawUnregisterCore s r).useRaw = s.useRaw ∧
    ∀ r', ((rawUnregisterCore s r).raws r').registered = (if r' = r then false else (s.raws r').registered) := by
  obtain ⟨a1, a2, a3, a4, a5, a6, a7, a8, -⟩ := fdUnregisterCore_V s (rawFd r)
  refine ⟨a6, a7, a8, fun r' => ?_⟩
  show ((upd (fdUnregisterCore s (rawFd r)).raws r _) r').registered = _
  rw [a5]
  simp only [upd_apply]
  split <;> rfl

theorem api_rawRegister {μ : M} {s : St} (hG : Good μ s) (hpc : s.pc = .user) (r : RawId) (okk : Bool)
    (henv : apiOk s (.rawRegister r okk) = true) :
    Res μ (Ev.inp (.api (.rawRegister r okk)) :: (api s (.rawRegister r okk)).2.map Ev.out)
      (api s (.rawRegister r okk)).1 := by
  simp only [apiOk, Bool.and_eq_true, decide_eq_true_eq, Bool.not_eq_eq_eq_not, Bool.not_true] at henv
  simp only [api]
  split
  · exact Res.api_ret _ rfl _ hG
  · simp only [ok]
    obtain ⟨e1, e2, e3, e4⟩ := rawRegisterCore_at s r
    refine Res.api_ret _ rfl _ (hG.rawReg hpc r henv.2 ⟨rfl, rfl, rfl, rfl, rfl, rfl, rfl, rfl, rfl⟩ _
      ⟨rfl, rfl, rfl, rfl, rfl, rfl, rfl, rfl, rfl⟩ ?_ ?_)
    · rw [e1, e2]; exact hG.evcount
    · intro h0
      have hne : (0 : Nat) ≠ r := fun e => absurd henv.1.1 (by rw [← e]; decide)
      rw [e4 0, if_neg hne] at h0
      rw [e2, e3]
      exact hG.raw0 h0

theorem api_rawUnregister {μ : M} {s : St} (hG : Good μ s) (hpc : s.pc = .user) (r : RawId)
    (henv : apiOk s (.rawUnregister r) = true) :
    Res μ (Ev.inp (.api (.rawUnregister r)) :: (api s (.rawUnregister r)).2.map Ev.out)
      (api s (.rawUnregister r)).1 := by
  simp only [apiOk, Bool.and_eq_true, decide_eq_true_eq] at henv
  simp only [api]
  obtain ⟨e1, e2, e3, e4⟩ := rawUnregisterCore_at s r
  refine Res.api_nil _ rfl (hG.rawUnreg hpc r id (fun _ => rfl) (fun _ _ => rfl) (fun _ _ => rfl)
    ⟨rfl, rfl, rfl, rfl, rfl, by rw [List.map_id], rfl, rfl, rfl⟩ _
    ⟨rfl, rfl, rfl, rfl, rfl, rfl, rfl, rfl, rfl⟩ ?_ ?_)
  · rw [e1, e2]; exact hG.evcount
  · intro h0
    have hne : (0 : Nat) ≠ r := fun e => absurd henv.1.1 (by rw [← e]; decide)
    rw [e4 0, if_neg hne] at h0
    rw [e2, e3]
    exact hG.raw0 h0


theorem evc_reg {evs : EvId → EvObj} {n : Int}
    (h : ∃ l : List EvId, l.Nodup ∧ (∀ e, (evs e).registered = true ↔ e ∈ l) ∧ n = (l.length : Int))
    (e : EvId) (he : (evs e).registered = false) (o : EvObj) (ho : o.registered = true) :
    ∃ l : List EvId, l.Nodup ∧ (∀ e', ((upd evs e o) e').registered = true ↔ e' ∈ l) ∧ n + 1 = (l.length : Int) := by
  obtain ⟨l, h1, h2, h3⟩ := h
  have hnot : e ∉ l := by intro hm; rw [← h2 e, he] at hm; simp at hm
  refine ⟨e :: l, List.nodup_cons.2 ⟨hnot, h1⟩, fun e' => ?_, by rw [h3]; simp⟩
  simp only [upd_apply, List.mem_cons]
  split
  · next h => simp [h, ho]
  · next h => rw [h2 e']; simp [h]

theorem evc_unreg {evs : EvId → EvObj} {n : Int}
    (h : ∃ l : List EvId, l.Nodup ∧ (∀ e, (evs e).registered = true ↔ e ∈ l) ∧ n = (l.length : Int))
    (e : EvId) (he : (evs e).registered = true) (o : EvObj) (ho : o.registered = false) :
    ∃ l : List EvId, l.Nodup ∧ (∀ e', ((upd evs e o) e').registered = true ↔ e' ∈ l) ∧ n - 1 = (l.length : Int) := by
  obtain ⟨l, h1, h2, h3⟩ := h
  have hin : e ∈ l := (h2 e).1 he
  refine ⟨l.erase e, h1.erase e, fun e' => ?_, ?_⟩
  · simp only [upd_apply]
    rw [h1.mem_erase_iff]
    split
    · next h => simp [h, ho]
    · next h => rw [h2 e']; simp [h]
  · rw [h3, List.length_erase_of_mem hin]
    have : l.length ≥ 1 := List.length_pos_of_mem hin
    omega

theorem evc_nonneg {evs : EvId → EvObj} {n : Int}
    (h : ∃ l : List EvId, l.Nodup ∧ (∀ e, (evs e).registered = true ↔ e ∈ l) ∧ n = (l.length : Int)) : 0 ≤ n := by
  obtain ⟨l, _, _, h3⟩ := h
  rw [h3]; exact Int.natCast_nonneg _

/-- event-list bookkeeping only -/
theorem Good.misc {μ : M} {s s' : St} (hG : Good μ s) (hpc : s.pc = .user) (g : Frame → Frame)
    (hg : ∀ fr, kind (g fr) = kind fr)
    (hp : ∀ a rt, g (.poll a rt) = .poll a rt) (hf : ∀ c st, g (.fd c st) = .fd c st)
    (h1 : s'.fds = s.fds) (h2 : s'.notify = s.notify) (h3 : s'.pfds = s.pfds) (h4 : s'.kint = s.kint)
    (h5 : s'.method = s.method) (h6 : s'.raws = s.raws)
    (hst : s'.stack = s.stack.map g) (hh : s'.handled = s.handled) (hpc' : s'.pc = .user)
    (hevc : ∃ l : List EvId, l.Nodup ∧ (∀ e, (s'.evs e).registered = true ↔ e ∈ l) ∧ s'.eventCount = (l.length : Int))
    (hraw0 : (s'.raws 0).registered = true → s'.eventCount ≥ 1 ∧ s'.useRaw = true) : Good μ s' := by
  obtain ⟨g1, g2, g3, g4, g5, g6, g7, g8, g9, g10, g11, g12⟩ := hG
  rw [hpc] at g8
  refine ⟨g1, g2, g3, by rw [h1]; exact g4, by rw [h5, h1, h2, h3, h4]; exact g5, by rw [h1]; exact g6, ?_, ?_, ?_,
    by rw [h1, h6]; exact g10, hevc, hraw0⟩
  · intro _ h; rw [hpc'] at h; simp [pcFlushed] at h
  · rw [hpc', hst]; exact shape_map g hg g8
  · intro p hp'
    obtain ⟨a, b, c, d, e, f⟩ := g9 p hp'
    exact ⟨a, b, by rw [h1]; exact c, by rw [h1]; exact d, by rw [h1]; exact e, Cover.map g hg hp hf hst hh f⟩


theorem api_evRegister {μ : M} {s : St} (hG : Good μ s) (hpc : s.pc = .user) (e : EvId) (rawOk : Bool)
    (henv : apiOk s (.evRegister e rawOk) = true) :
    Res μ (Ev.inp (.api (.evRegister e rawOk)) :: (api s (.evRegister e rawOk)).2.map Ev.out)
      (api s (.evRegister e rawOk)).1 := by
  have he : (s.evs e).registered = false := by simpa [apiOk] using henv
  have hid : ∀ fr : Frame, kind (id fr) = kind fr := fun _ => rfl
  have hevc := evc_reg hG.evcount e he { (s.evs e) with registered := true } rfl
  have hnn := evc_nonneg hG.evcount
  -- the plain outcome: only the event object and counters move
  have plain : ∀ s' : St, s'.fds = s.fds → s'.notify = s.notify → s'.pfds = s.pfds → s'.kint = s.kint →
      s'.method = s.method → s'.raws = s.raws → s'.stack = s.stack → s'.handled = s.handled → s'.pc = .user →
      s'.evs = upd s.evs e { (s.evs e) with registered := true } → s'.eventCount = s.eventCount + 1 →
      (s'.useRaw = s.useRaw ∨ (s.raws 0).registered = false) → Good μ s' := by
    intro s' a1 a2 a3 a4 a5 a6 a7 a8 a9 a10 a11 a12
    refine hG.misc hpc id hid (fun _ _ => rfl) (fun _ _ => rfl) a1 a2 a3 a4 a5 a6 (by rw [a7, List.map_id]) a8 a9 ?_ ?_
    · rw [a10, a11]; exact hevc
    · intro h0
      rw [a6] at h0
      rcases a12 with h | h
      · have := hG.raw0 h0
        rw [a11, h]; exact ⟨by omega, this.2⟩
      · rw [h] at h0; simp at h0
  -- failure of the raw registration: counters restored
  have failc : ∀ s' : St, s'.fds = s.fds → s'.notify = s.notify → s'.pfds = s.pfds → s'.kint = s.kint →
      s'.method = s.method → s'.raws = s.raws → s'.stack = s.stack → s'.handled = s.handled → s'.pc = .user →
      s'.evs = s.evs → s'.eventCount = s.eventCount + 1 - 1 → (s.raws 0).registered = false → Good μ s' := by
    intro s' a1 a2 a3 a4 a5 a6 a7 a8 a9 a10 a11 a12
    refine hG.misc hpc id hid (fun _ _ => rfl) (fun _ _ => rfl) a1 a2 a3 a4 a5 a6 (by rw [a7, List.map_id]) a8 a9 ?_ ?_
    · rw [a10, a11, Int.add_sub_cancel]; exact hG.evcount
    · intro h0; rw [a6, a12] at h0; simp at h0
  -- success of the raw registration
  have succ : ∀ s2 : St, s2.fds = s.fds → s2.notify = s.notify → s2.pfds = s.pfds → s2.kint = s.kint →
      s2.method = s.method → s2.stack = s.stack → s2.handled = s.handled → s2.pc = s.pc → s2.raws = s.raws →
      s2.evs = s.evs → s2.eventCount = s.eventCount + 1 → s2.useRaw = true → (s.raws 0).registered = false →
      Good μ { rawRegisterCore s2 0 with evs := upd (rawRegisterCore s2 0).evs e { ((rawRegisterCore s2 0).evs e) with registered := true } } := by
    intro s2 a1 a2 a3 a4 a5 a6 a7 a8 a9 a10 a11 a12 a13
    obtain ⟨e1, e2, e3, e4⟩ := rawRegisterCore_at s2 0
    refine hG.rawReg hpc 0 a13 ⟨a1, a2, a3, a4, a5, a6, a7, a8, a9⟩ _ ⟨rfl, rfl, rfl, rfl, rfl, rfl, rfl, rfl, rfl⟩ ?_ ?_
    · simp only [e1, e2, a10, a11]; exact hevc
    · intro _
      simp only [e2, e3, a11, a12, and_true]
      omega
  simp only [api]
  cases hfirst : (s.eventCount == (0 : Int)) with
  | false =>
    simp only [Bool.false_and, Bool.false_eq_true, if_false, ok]
    exact Res.api_ret _ rfl _ (plain _ rfl rfl rfl rfl rfl rfl rfl rfl hpc rfl rfl (Or.inl rfl))
  | true =>
    have hc0 : s.eventCount = 0 := by simpa using hfirst
    have hr0 : (s.raws 0).registered = false := by
      cases h : (s.raws 0).registered with
      | false => rfl
      | true => have := (hG.raw0 h).1; omega
    simp only [Bool.true_and]
    cases hur : s.useRaw with
    | true =>
      simp only [Bool.not_true, Bool.false_eq_true, if_false, if_true]
      cases rawOk with
      | true =>
        simp only [if_true, ok]
        exact Res.api_ret _ rfl _ (succ _ rfl rfl rfl rfl rfl rfl rfl rfl rfl rfl rfl rfl hr0)
      | false =>
        simp only [Bool.false_eq_true, if_false]
        exact Res.api_ret _ rfl _ (failc _ rfl rfl rfl rfl rfl rfl rfl rfl hpc rfl rfl hr0)
    | false =>
      simp only [Bool.not_false, if_true]
      cases hE : s.method.isEpoll with
      | true =>
        simp only [if_true, Bool.false_eq_true, if_false, ok]
        exact Res.api_ret _ rfl _ (plain _ rfl rfl rfl rfl rfl rfl rfl rfl hpc rfl rfl (Or.inr hr0))
      | false =>
        simp only [Bool.false_eq_true, if_false, if_true]
        cases rawOk with
        | true =>
          simp only [if_true, ok]
          exact Res.api_ret _ rfl _ (succ _ rfl rfl rfl rfl rfl rfl rfl rfl rfl rfl rfl rfl hr0)
        | false =>
          simp only [Bool.false_eq_true, if_false]
          exact Res.api_ret _ rfl _ (failc _ rfl rfl rfl rfl rfl rfl rfl rfl hpc rfl rfl hr0)


theorem api_evUnregister {μ : M} {s : St} (hG : Good μ s) (hpc : s.pc = .user) (e : EvId)
    (henv : apiOk s (.evUnregister e) = true) :
    Res μ (Ev.inp (.api (.evUnregister e)) :: (api s (.evUnregister e)).2.map Ev.out)
      (api s (.evUnregister e)).1 := by
  have he : (s.evs e).registered = true := by simpa [apiOk] using henv
  have hevc := evc_unreg hG.evcount e he { (s.evs e) with registered := false } rfl
  have hnn := evc_nonneg hevc
  simp only [api, ok]
  cases hlast : (s.eventCount - 1 == (0 : Int)) with
  | false =>
    have hne : s.eventCount - 1 ≠ 0 := by simpa using hlast
    simp only [Bool.false_eq_true, if_false]
    refine Res.api_ret _ rfl _ (hG.misc hpc _ (kind_eraseEvent e) (fun _ _ => rfl) (fun _ _ => rfl)
      rfl rfl rfl rfl rfl rfl rfl rfl hpc hevc ?_)
    intro h0
    have := hG.raw0 h0
    exact ⟨by show s.eventCount - 1 ≥ 1; omega, this.2⟩
  | true =>
    simp only [if_true]
    split
    · obtain ⟨e1, e2, e3, e4⟩ := rawUnregisterCore_at
        { s with pending := s.pending.erase e, stack := s.stack.map (eraseEvent · e), evs := upd s.evs e { (s.evs e) with registered := false }, eventCount := s.eventCount - 1 } 0
      refine Res.api_ret _ rfl _ (hG.rawUnreg
        (s2 := { s with pending := s.pending.erase e, stack := s.stack.map (eraseEvent · e), evs := upd s.evs e { (s.evs e) with registered := false }, eventCount := s.eventCount - 1 })
        hpc 0 _ (kind_eraseEvent e) (fun _ _ => rfl) (fun _ _ => rfl)
        ⟨rfl, rfl, rfl, rfl, rfl, rfl, rfl, rfl, rfl⟩ _ ⟨rfl, rfl, rfl, rfl, rfl, rfl, rfl, rfl, rfl⟩ ?_ ?_)
      · simp only [e1, e2]; exact hevc
      · intro h0
        simp only [e4 0, if_true] at h0
        simp at h0
    · next hur =>
      refine Res.api_ret _ rfl _ (hG.misc hpc _ (kind_eraseEvent e) (fun _ _ => rfl) (fun _ _ => rfl)
        rfl rfl rfl rfl rfl rfl rfl rfl hpc hevc ?_)
      intro h0
      have := (hG.raw0 h0).2
      exact absurd this hur




theorem api_ok {μ : M} {s : St} (hG : Good μ s) (hpc : s.pc = .user) (a : Api)
    (henv : envOk s (.api a) = true) :
    Res μ (Ev.inp (.api a) :: (api s a).2.map Ev.out) (api s a).1 := by
  simp only [envOk, Bool.and_eq_true] at henv
  obtain ⟨hok, -⟩ := henv
  cases a with
  | fdRegister f i o e => exact api_fdRegister hG hpc f i o e (by simpa [apiOk] using hok)
  | fdRegisterTry f i o e k => exact api_fdRegisterTry hG hpc f i o e k (by simpa [apiOk] using hok)
  | fdUnregister f => exact api_fdUnregister hG hpc f (by simpa [apiOk] using hok)
  | fdSetIn f v => exact api_fdSetIn hG hpc f v (by simpa [apiOk] using hok)
  | fdSetOut f v => exact api_fdSetOut hG hpc f v (by simpa [apiOk] using hok)
  | fdSetErr f v => exact api_fdSetErr hG hpc f v (by simpa [apiOk] using hok)
  | evRegister e k => exact api_evRegister hG hpc e k hok
  | evUnregister e => exact api_evUnregister hG hpc e hok
  | rawRegister r k => exact api_rawRegister hG hpc r k hok
  | rawUnregister r => exact api_rawUnregister hG hpc r hok
  | _ => exact api_other_simple hG hpc _ trivial

theorem input_ok {μ : M} {s s' : St} {outs : List Out} (hG : Good μ s) (i : Input)
    (henv : envOk s i = true) (h : input s i = some (s', outs)) :
    Res μ (Ev.inp i :: outs.map Ev.out) s' := by
  cases i with
  | api a =>
    cases hpc : s.pc <;> simp only [input, hpc, reduceCtorEq, Option.some.injEq] at h
    have := api_ok hG hpc a henv
    rw [h] at this
    exact this
  | handlerEnd => exact input_handlerEnd hG h
  | time t => exact input_time hG t h
  | wret r => exact input_wret hG r h
  | rawRead k => exact input_rawRead hG k h
  | xpost e => exact input_xpost hG e h
  | free k id => exact input_free hG k id h
  | init k id => exact input_init hG k id henv h

theorem exec_ok {s s' : St} {evs : List Ev} (h : Exec s evs s') :
    ∀ μ, R μ s → ∃ μ', evs.foldlM C02.step μ = .ok μ' := by
  induction h with
  | nil s => intro μ _; exact ⟨μ, rfl⟩
  | @internal s s1 s2 b outs evs hpc hi _ ih =>
    intro μ hR
    rcases hR with hd | hG
    · exact ⟨μ, fold_dead μ hd _⟩
    · have := internal_ok hG b hpc
      rw [hi] at this
      obtain ⟨μ1, h1, h2⟩ := this
      obtain ⟨μ2, h3⟩ := ih μ1 h2
      exact ⟨μ2, by rw [List.foldlM_append, h1]; exact h3⟩
  | @input s s1 s2 i outs evs henv hi _ ih =>
    intro μ hR
    rcases hR with hd | hG
    · exact ⟨μ, fold_dead μ hd _⟩
    · obtain ⟨μ1, h1, h2⟩ := input_ok hG i henv hi
      obtain ⟨μ2, h3⟩ := ih μ1 h2
      refine ⟨μ2, ?_⟩
      have : Ev.inp i :: (outs.map Ev.out ++ evs) = (Ev.inp i :: outs.map Ev.out) ++ evs := rfl
      rw [this, List.foldlM_append, h1]; exact h3

theorem good_init (m : Method) (ntimers : Nat) (timerfdAvail pwait2 : Bool) :
    Good {} (St.init m ntimers timerfdAvail pwait2) := by
  refine ⟨rfl, rfl, rfl, ⟨by simp, by simp [St.init]⟩, ?_, by simp [St.init], by simp [St.init, pcFlushed],
    by simp [St.init, shapeOk, kinds, wfk], by simp, by simp [St.init], ⟨[], by simp, by simp [St.init], by simp [St.init]⟩,
    by simp [St.init]⟩
  split
  · exact ⟨by simp [St.init], by simp [St.init, Bands.isZero], by simp [St.init], by simp [St.init], by simp [St.init]⟩
  · exact ⟨by simp [St.init], by simp [St.init], by simp [St.init], by simp [St.init], by simp [St.init]⟩

theorem monitor_accepts (m : Method) (ntimers : Nat) (timerfdAvail pwait2 : Bool)
    (evs : List Ev) (s' : St) (h : Exec (St.init m ntimers timerfdAvail pwait2) evs s') :
    Ivy.Mon.C02.verdict evs = none := by
  obtain ⟨μ', h'⟩ := exec_ok h {} (Or.inr (good_init m ntimers timerfdAvail pwait2))
  simp [verdict, runMon, h']



/-! ## non-vacuity: a concrete run that registers a descriptor, waits, gets readiness reported,
dispatches the callback, unregisters from inside the handler and returns from `iv_main` -/

def demoInputs : List Input :=
  [.api (.fdRegister 3 true false true), .api .main,
   .wret (.events [.fd 3 ⟨true, false, false, false⟩]),
   .api (.fdUnregister 3), .handlerEnd]

def isFdCb : Ev → Bool
  | .out (.cb (.fd 3 1)) => true
  | _ => false

def isWaitOn3 : Ev → Bool
  | .out (.wait _ _ [(3, ⟨true, false, false⟩)] _ _) => true
  | _ => false

def isMainRet : Ev → Bool
  | .out .mainRet => true
  | _ => false

example :
    let tr := (runTrace 40 (St.init .epoll 0 true true) demoInputs).1
    tr.any isFdCb = true ∧ tr.any isWaitOn3 = true ∧ tr.any isMainRet = true ∧ Ivy.Mon.C02.verdict tr = none := by
  refine ⟨by decide, by decide, by decide, ?_⟩
  exact monitor_accepts .epoll 0 true true _ _ (runTrace_exec 40 _ demoInputs)

example :
    let tr := (runTrace 40 (St.init .poll 0 true true) demoInputs).1
    tr.any isFdCb = true ∧ tr.any isMainRet = true ∧ Ivy.Mon.C02.verdict tr = none := by
  refine ⟨by decide, by decide, ?_⟩
  exact monitor_accepts .poll 0 true true _ _ (runTrace_exec 40 _ demoInputs)

end Ivy.L1.ProofsC02
