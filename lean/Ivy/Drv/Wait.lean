import Ivy.L3.Wait
import Ivy.Drv.Util
/-! T-sched replay driver for iv_wait.c (C11): reads the log written by /verif/harness/mt_h.c + mt_proc.c + mt_wait.c,
maps its records to actions of the LTS `Ivy.Wait` (the mapping lives here, not in the Python plugin), checks that
every action is enabled in the model, that the model predicts every handler call / kill() / return value, and
that the white-box snapshots (`SNAPW`: events_pending, flags, pid of every interest, printed under iv_wait_lock;
`SNAP evmu:T<k>`: which wait events are posted) agree with the model state.  Prints DIVERGE…/SUMMARY/COV.

Record → action:
  STRANGER / FORK outside waitSpawn      fork pid                 CHILD pid= status=        childChange pid st
  LOCK waitmu (no wait API in progress, completion not started)   reapBegin t
  REAP pid= status=                      reapOne t pid st         WAIT4 none                reapDone t
  SNAP evmu:T<j> by the draining thread while a post is due       reapPost t
  FORK failed inside waitSpawn           spawnFail t w
  API waitRegister … LOCK waitmu         register t w pid         API waitSpawn … FORK      registerSpawn t w pid
  API waitUnregister … LOCK waitmu       unregister t w           API waitKill … LOCK waitmu  kill t w sig (+ KILL / RET compared)
  thread pops w<i> from its iv_event batch (reconstructed from the SNAP evmu records)       complStart t w
  LOCK waitmu by a thread whose completion has started            steal t
  CB w<i> … status=                      deliver t (prediction compared)
  silent steps (dropping the rest after an unregister, end of the loop) are applied when the handler returns.
-/
namespace Ivy.Drv.Wait
open Ivy.Wait

inductive ApiKind where
  | register (w : Nat) (pid : Nat)
  | spawn (w : Nat)
  | unregister (w : Nat)
  | kill (w : Nat) (sig : Nat)
  | other
deriving Repr, DecidableEq

structure Api where
  kind : ApiKind
  done : Bool := false               -- the model action was applied
  killExp : Option Nat := none       -- pid the model says kill() is called with
  killSeen : Bool := false
  killRet : Int := 0
  pid : Nat := 0                     -- spawn: pid seen at FORK
  failed : Bool := false             -- spawn: fork() failed

structure TI where
  api : Option Api := none
  cbs : List String := []            -- handlers in progress (innermost first)
  batch : List String := []          -- local list of __iv_event_run_pending_events
  more : Bool := false               -- that function will re-take the mutex after the current handler
  evq : List String := []            -- events_pending of this thread at the last SNAP
  inPost : Bool := false

inductive Cs | none | api | spawn | reaper | steal
deriving DecidableEq

structure S where
  st : State := State.init
  ti : Array TI := Array.replicate 24 {}
  holder : Option Nat := none
  cs : Cs := .none
  skipSnap : Option Nat := none
  started : Bool := false
  line : Nat := 0
  acts : Nat := 0
  diverged : Nat := 0
  seenPids : List Nat := []
  cov : List (String × Nat) := []

def bump (c : List (String × Nat)) (k : String) : List (String × Nat) :=
  match c.find? (·.1 == k) with
  | some _ => c.map fun (a, n) => if a == k then (a, n + 1) else (a, n)
  | none => c ++ [(k, 1)]

def hexVal (c : Char) : Option Nat :=
  if '0' ≤ c ∧ c ≤ '9' then some (c.toNat - '0'.toNat)
  else if 'a' ≤ c ∧ c ≤ 'f' then some (c.toNat - 'a'.toNat + 10)
  else if 'A' ≤ c ∧ c ≤ 'F' then some (c.toNat - 'A'.toNat + 10)
  else none

def parseHex (s : String) : Option Nat :=
  let body := if s.startsWith "0x" then (s.drop 2).toString else s
  if body.isEmpty then none else
  body.toList.foldl (fun acc c => match acc, hexVal c with
    | some a, some v => some (a * 16 + v)
    | _, _ => none) (some 0)

/-- decode a raw Linux wait status -/
def statusOf (raw : Nat) : Status :=
  let low := raw % 128
  if low == 0 then .exited ((raw / 256) % 256)
  else if low == 127 then (if raw == 0xffff then .continued else .stopped ((raw / 256) % 256))
  else .killed low

def statusWord : Status → String
  | .exited _ => "exited" | .killed _ => "killed" | .stopped _ => "stopped" | .continued => "continued"

def showSt : Status → String
  | .exited c => s!"exited({c})" | .killed g => s!"killed({g})" | .stopped g => s!"stopped({g})" | .continued => "continued"

def showSts (l : List Status) : String := "[" ++ ", ".intercalate (l.map showSt) ++ "]"

/-- value of `key=value` among the words -/
def kv (ws : List String) (key : String) : Option String :=
  (ws.find? (·.startsWith (key ++ "="))).map (fun w => (w.drop (key.length + 1)).toString)

def kvNat (ws : List String) (key : String) : Option Nat := (kv ws key).bind (·.toNat?)
def kvHex (ws : List String) (key : String) : Option Nat := (kv ws key).bind parseHex

def objNum (pfx : Char) (w : String) : Option Nat :=
  match w.toList with
  | c :: r => if c == pfx then (String.ofList r).toNat? else none
  | [] => none

def tidOf (w : String) : Option Nat := objNum 'T' w

def splitList (s : String) : List String := (s.splitOn ",").filter (· ≠ "")

def getTI (s : S) (k : Nat) : TI := s.ti.getD k {}
def setTI (s : S) (k : Nat) (t : TI) : S := if k < s.ti.size then { s with ti := s.ti.set! k t } else s

def div (s : S) (msg : String) : S × List String :=
  ({ s with diverged := s.diverged + 1 }, if s.diverged < 6 then [s!"DIVERGE line {s.line}: {msg}"] else [])

/-- apply a model action; not enabled = divergence -/
def act (s : S) (a : Action) (what : String) : S × List String :=
  match step s.st a with
  | some st' => ({ s with st := st', acts := s.acts + 1 }, [])
  | none => div s s!"{what}: action {repr a} is not enabled in the model"

def compOf (s : S) (k : Nat) : Comp := (s.st.thr k).comp

/-- thread-local steps nobody can observe: dropping the rest after an unregister, leaving the loop -/
def settle (s : S) (k : Nat) : Nat → S × List String
  | 0 => (s, [])
  | fuel + 1 =>
    match compOf s k with
    | .draining _ [] =>
      let (s, o) := act s (.complEnd k) "end of iv_wait_completion"
      (s, o)
    | .draining _ (_ :: _) =>
      if (s.st.thr k).handled.isNone then
        let (s, o) := act { s with cov := bump s.cov "deliver-dropped-after-unregister" } (.deliver k) "drop after unregister"
        let (s, o2) := settle s k fuel
        (s, o ++ o2)
      else (s, [])
    | _ => (s, [])

def owedNames (s : S) (j : Nat) (skip : Option Nat) : List String :=
  ((List.range 64).filter (fun i => let x := s.st.ints i; x.reg && x.owed && x.owner == j && skip != some i)).map (fun i => s!"w{i}")

def isWaitName (n : String) : Bool := (objNum 'w' n).isSome

def unregInProgress (s : S) (j : Nat) : Option Nat :=
  match (getTI s j).api with
  | some { kind := .unregister w, .. } => some w
  | _ => none

def sortStr (l : List String) : List String := (l.toArray.qsort (· < ·)).toList

/-- white-box: the wait events posted to thread j (pending list + unprocessed part of the batch) = the model's owed bits -/
def checkOwed (s : S) (j : Nat) : S × List String :=
  let skip := unregInProgress s j
  let t := getTI s j
  let impl := sortStr (((t.evq ++ t.batch).filter isWaitName).filter (fun n => some n != skip.map (fun i => s!"w{i}")))
  -- an interest whose status was just appended by the drain loop but not yet posted is not "owed" yet
  let model := sortStr (owedNames s j skip)
  if impl == model then (s, []) else
    div s s!"posted wait events of T{j}: implementation {impl}, model owed {model}"

def startHandler (s : S) (k : Nat) (name : String) : S × List String :=
  match objNum 'w' name with
  | some i => act { s with cov := bump s.cov "complStart" } (.complStart k i) "iv_event handler of a wait interest starts"
  | none => (s, [])

def unreapedOf (st : State) : Nat := st.procs.foldl (fun a pc => a + ((st.hist pc.2).length - st.nreaped pc.2)) 0
def zombiesOf (st : State) : Nat := (st.procs.filter (fun pc => (st.hist pc.2).any Status.dead)).length

/-- the model appended the reaped status to interest w and owes it a post; the implementation went on without one
(it did not find the interest in its set) -/
def missingPost (s : S) (k : Nat) (w : Nat) : S × List String :=
  let (s, o) := div s s!"the drain loop did not queue/post the status it just reaped, the model routed it to w{w} (pid {(s.st.ints w).pid}): the interest is not in the implementation's set"
  let (s, _) := act s (.reapPost k) "post"
  (s, o)

def stepRec (s : S) (k : Nat) (ws : List String) : S × List String :=
  let t := getTI s k
  match ws with
  | "API" :: "waitRegister" :: w :: rest =>
    match objNum 'w' w, kvNat rest "pid" with
    | some i, some p => (setTI s k { t with api := some { kind := .register i p } }, [])
    | _, _ => (s, [s!"bad-log line {s.line}"])
  | ["API", "waitSpawn", w] =>
    match objNum 'w' w with
    | some i => (setTI s k { t with api := some { kind := .spawn i } }, [])
    | none => (s, [s!"bad-log line {s.line}"])
  | ["API", "waitUnregister", w] =>
    match objNum 'w' w with
    | some i => (setTI s k { t with api := some { kind := .unregister i }, batch := t.batch.filter (· != s!"w{i}") }, [])
    | none => (s, [s!"bad-log line {s.line}"])
  | "API" :: "waitKill" :: w :: rest =>
    match objNum 'w' w, kvNat rest "sig" with
    | some i, some g => (setTI s k { t with api := some { kind := .kill i g } }, [])
    | _, _ => (s, [s!"bad-log line {s.line}"])
  | "API" :: "main" :: _ => (s, [])
  | "API" :: "quit" :: _ => (s, [])
  | "API" :: _ => (setTI s k { t with api := some { kind := .other, done := true } }, [])
  | "RET" :: rest =>
    match t.api with
    | none => (s, [])
    | some a =>
      let s := setTI s k { t with api := none }
      if !a.done then div s s!"wait API call returned without its critical section under iv_wait_lock" else
      match a.kind with
      | .kill _ _ =>
        let r := (rest.head?.bind (·.toInt?)).getD 99
        if a.killExp.isSome != a.killSeen then
          div s s!"iv_wait_interest_kill: model says kill() {if a.killExp.isSome then "is" else "is not"} called, implementation {if a.killSeen then "called it" else "did not"}"
        else if r != a.killRet then div s s!"iv_wait_interest_kill returned {r}, model {a.killRet}"
        else ({ s with cov := bump s.cov (if a.killSeen then "kill-live" else "kill-dead-ESRCH") }, [])
      | .spawn _ =>
        if a.failed then
          (if rest.head? == some "-1" then ({ s with cov := bump s.cov "spawn-fork-failed" }, []) else div s s!"fork() failed but register_spawn returned {rest}")
        else if kvNat rest "pid" != some a.pid || rest.head? != some "0" then div s s!"register_spawn returned {rest}, FORK gave pid {a.pid}" else (s, [])
      | _ => (s, [])
  | ["LOCK", "waitmu"] =>
    if s.holder.isSome then div s "iv_wait_lock taken while held" else
    let s := { s with holder := some k }
    match t.api with
    | some a =>
      if a.done then div s "second critical section inside one wait API call" else
      match a.kind with
      | .register i p =>
        let (s, o) := act { s with cov := bump s.cov "register" } (.register k i p) "iv_wait_interest_register"
        (setTI { s with cs := .api } k { t with api := some { a with done := true } }, o)
      | .spawn _ => ({ s with cs := .spawn }, [])
      | .unregister i =>
        let wasDead := (s.st.ints i).dead
        let hadPending := !(s.st.ints i).pending.isEmpty
        let inHandler := (s.st.thr k).handled == some i
        let c := bump s.cov (if wasDead then "unregister-dead" else "unregister-live")
        let c := if hadPending then bump c "unregister-drops-pending" else c
        let c := if inHandler then bump c "unregister-from-own-handler" else c
        let (s, o) := act { s with cov := c } (.unregister k i) "iv_wait_interest_unregister"
        (setTI { s with cs := .api, skipSnap := some i } k { t with api := some { a with done := true } }, o)
      | .kill i g =>
        let tgt := killTarget s.st i
        let r := killRet s.st i
        let (s, o) := act s (.kill k i g) "iv_wait_interest_kill"
        (setTI { s with cs := .api } k { t with api := some { a with done := true, killExp := tgt, killRet := r } }, o)
      | .other => div s "iv_wait_lock taken inside a non-wait API call"
    | none =>
      match compOf s k with
      | .started w =>
        let c := bump s.cov (if (s.st.ints w).pending.isEmpty then "steal-empty" else "steal")
        let (s, o) := act { s with cov := c } (.steal k) "iv_wait_completion steals the queue"
        ({ s with cs := .steal }, o)
      | _ =>
        let (s, o) := act { s with cov := bump s.cov "reapBegin" } (.reapBegin k) "SIGCHLD drain loop"
        ({ s with cs := .reaper }, o)
  | ["UNLOCK", "waitmu"] =>
    if s.holder != some k then div s "iv_wait_lock released by a thread that does not hold it" else
    let cs := s.cs
    let s := { s with holder := none, cs := .none, skipSnap := none }
    if cs == .reaper then
      if s.st.lock.isSome then div s "drain loop left without wait4() reporting that nothing is left" else (s, [])
    else if cs == .spawn then
      match t.api with
      | some a => if a.done then (s, []) else div s "register_spawn left its critical section without fork()"
      | none => (s, [])
    else if cs == .steal then settle s k 4096
    else (s, [])
  | ["FORK", "failed"] =>
    match t.api with
    | some a =>
      match a.kind with
      | .spawn i =>
        if s.holder != some k then div s "fork() of register_spawn outside iv_wait_lock" else
        let (s, o) := act s (.spawnFail k i) "iv_wait_interest_register_spawn (fork failed)"
        (setTI s k { t with api := some { a with done := true, failed := true } }, o)
      | _ => div s "fork() inside another wait API call"
    | none => (s, [])
  | "FORK" :: rest =>
    match kvNat rest "pid" with
    | none => (s, [s!"bad-log line {s.line}"])
    | some p =>
      let c := if s.seenPids.contains p then bump s.cov "pid-reused" else s.cov
      let s := { s with seenPids := p :: s.seenPids, cov := c }
      match t.api with
      | some a =>
        match a.kind with
        | .spawn i =>
          if s.holder != some k then div s "fork() of register_spawn outside iv_wait_lock" else
          let (s, o) := act { s with cov := bump s.cov "registerSpawn" } (.registerSpawn k i p) "iv_wait_interest_register_spawn"
          (setTI s k { t with api := some { a with done := true, pid := p } }, o)
        | _ => div s "fork() inside another wait API call"
      | none => act s (.fork p) "fork"
  | "STRANGER" :: _ :: rest =>
    match kvNat rest "pid" with
    | none => (s, [s!"bad-log line {s.line}"])
    | some p =>
      let c := if s.seenPids.contains p then bump s.cov "pid-reused" else s.cov
      act { s with seenPids := p :: s.seenPids, cov := bump c "fork-stranger" } (.fork p) "fork (stranger)"
  | "CHILD" :: rest =>
    match kvNat rest "pid", kvHex rest "status" with
    | some p, some raw =>
      let stt := statusOf raw
      if rest.getLast? != some (statusWord stt) then div s s!"status 0x{raw} decoded as {statusWord stt}, harness says {rest.getLast?}" else
      act { s with cov := bump s.cov ("child-" ++ statusWord stt) } (.childChange p stt) "child state change"
    | _, _ => (s, [s!"bad-log line {s.line}"])
  | "REAP" :: rest =>
    match s.st.posting with
    | some w => missingPost s k w
    | none =>
    match kvNat rest "pid", kvHex rest "status" with
    | some p, some raw =>
      let stt := statusOf raw
      let tag := match alookup s.st.set p with
        | some _ => if stt.dead then "reap-interest-terminal" else "reap-interest-nonterminal"
        | none => if stt.dead then "reap-stranger-terminal" else "reap-stranger-nonterminal"
      act { s with cov := bump s.cov tag } (.reapOne k p stt) "wait4 result"
    | _, _ => (s, [s!"bad-log line {s.line}"])
  | ["WAIT4", "none"] =>
    match s.st.posting with
    | some w => missingPost s k w
    | none => act s (.reapDone k) "wait4 returned nothing"
  | "KILL" :: rest =>
    match t.api, kvNat rest "pid", kvNat rest "sig" with
    | some a, some p, some g =>
      match a.kind with
      | .kill _ g' =>
        if a.killExp == some p && g == g' && s.holder == some k then (setTI s k { t with api := some { a with killSeen := true } }, [])
        else div s s!"kill({p},{g}) but the model predicts target {a.killExp} signal {g'} under the lock"
      | _ => div s "kill() outside iv_wait_interest_kill"
    | _, _, _ => div s "kill() outside iv_wait_interest_kill"
  | "KILL-AFTER-REAP" :: rest => div s s!"kill() on a pid whose termination was already reaped: {rest}"
  | "CB" :: name :: rest =>
    let s := setTI s k { t with cbs := name :: t.cbs }
    match objNum 'w' name with
    | none => (s, [])
    | some i =>
      match kvHex rest "status", (kv rest "owner").bind tidOf, kvNat rest "pid" with
      | some raw, some o, some p =>
        let stt := statusOf raw
        match deliverCall s.st k with
        | some (w, st') =>
          if w == i && st' == stt && o == k && (s.st.ints i).owner == k && (s.st.ints i).pid == p then
            act { s with cov := bump s.cov ("deliver-" ++ statusWord stt) } (.deliver k) "handler call"
          else div s s!"handler of w{i} called in T{k} (owner T{o}) with {showSt stt} pid {p}; model predicts w{w} {showSt st'} owner T{(s.st.ints w).owner} pid {(s.st.ints w).pid}"
        | none => div s s!"handler of w{i} called with {showSt stt}; the model predicts no handler call in T{k}"
      | _, _, _ => (s, [s!"bad-log line {s.line}"])
  | ["END"] =>
    match t.cbs with
    | [] => (s, [])
    | name :: r =>
      let s := setTI s k { t with cbs := r }
      if isWaitName name then settle s k 4096 else (s, [])
  | "POST" :: _ => (setTI s k { t with inPost := true }, [])
  | "POSTED" :: _ => (setTI s k { t with inPost := false }, [])
  | "SNAP" :: mu :: rest =>
    match tidOf ((mu.drop 5).toString), kv rest "pending" with
    | some j, some pl =>
      let newq := splitList pl
      let tj := getTI s j
      if j == k && s.holder != some k && t.api.isNone && !t.inPost then
        -- __iv_event_run_pending_events in thread k
        if compOf s k != .idle then div (setTI s k { t with evq := newq }) "event loop runs the next event in the middle of a wait completion" else
        if t.more then
          match t.batch with
          | [] => checkOwed (setTI s k { t with evq := newq, more := false }) j
          | n :: r =>
            let s := setTI s k { t with evq := newq, batch := r, more := !r.isEmpty }
            let (s, o) := startHandler s k n
            let (s, o2) := checkOwed s j
            (s, o ++ o2)
        else
          match t.evq with
          | [] => checkOwed (setTI s k { t with evq := newq }) j
          | n :: r =>
            let s := setTI s k { t with evq := newq, batch := r, more := !r.isEmpty }
            let (s, o) := startHandler s k n
            let (s, o2) := checkOwed s j
            (s, o ++ o2)
      else
        -- a post (or an unregister) on thread j's list; inside the drain loop it is the post of the current iteration
        let s := setTI s j { tj with evq := newq }
        if s.holder == some k && s.cs == .reaper && s.st.posting.isSome then
          let (s, o) := act s (.reapPost k) "iv_event_post of the drain loop"
          let (s, o2) := checkOwed s j
          (s, o ++ o2)
        else checkOwed s j
    | _, _ => (s, [])
  | "SNAPW" :: w :: rest =>
    match objNum 'w' w, kvNat rest "pid", kvNat rest "flags", kv rest "pending" with
    | some i, some p, some f, some pl =>
      let x := s.st.ints i
      if !x.reg || s.skipSnap == some i then (s, []) else
      let impl := (splitList pl).filterMap (fun h => (parseHex h).map statusOf)
      if s.holder != some k then div s "snapshot outside the lock" else
      if impl == x.pending && (f % 2 == 1) == x.dead && p == x.pid then ({ s with cov := bump s.cov "snapshots-compared" }, [])
      else div s s!"w{i} under the lock: implementation pid={p} flags={f} pending={showSts impl}; model pid={x.pid} dead={x.dead} pending={showSts x.pending}"
    | _, _, _, _ => (s, [s!"bad-log line {s.line}"])
  | "PROC-END" :: rest =>
    match kvNat rest "zombies", kvNat rest "unreaped_statuses" with
    | some z, some u =>
      if z == zombiesOf s.st && u == unreapedOf s.st then (s, [])
      else div s s!"process table at the end: zombies={z} unreaped={u}; model zombies={zombiesOf s.st} unreaped={unreapedOf s.st}"
    | _, _ => (s, [s!"bad-log line {s.line}"])
  | "QUIESCENT" :: _ =>
    let stuck := (List.range 64).filter (fun i => let x := s.st.ints i; x.reg && (x.owed || !x.pending.isEmpty))
    let busyT := (List.range 24).filter (fun j => compOf s j != .idle)
    if stuck.isEmpty && busyT.isEmpty then (s, [])
    else div s s!"run went quiescent while the model still owes deliveries to interests {stuck} / completions in threads {busyT}"
  | "WAIT" :: _ =>
    if compOf s k != .idle then div s "thread goes back to waiting in the middle of a wait completion" else (s, [])
  | "SELF-DEADLOCK" :: _ => div s "self-deadlock"
  | "FATAL" :: _ => div s "iv_fatal"
  | _ => (s, [])

def step (s : S) (ws : List String) : S × List String :=
  let s := { s with line := s.line + 1 }
  match ws with
  | tk :: rest =>
    match tidOf tk with
    | none => (s, [])
    | some k =>
      if !s.started then
        -- everything before the first INIT is the lock-naming probe of mt_wait.c
        if rest.head? == some "INIT" then ({ s with started := true }, []) else (s, [])
      else stepRec s k rest
  | [] => (s, [])

def run : IO Unit := do
  let out ← IO.getStdout
  let s ← loopLines (← IO.getStdin) out ({} : S) step
  out.putStrLn s!"SUMMARY actions {s.acts} diverged {s.diverged}"
  for (k, n) in s.cov do
    out.putStrLn s!"COV {k} {n}"

end Ivy.Drv.Wait
