import Ivy.L3.Pump
import Ivy.Drv.Util
/-! T-replay driver for iv_fd_pump.c: reads the log written by /verif/harness/pump_h.c,
feeds the `EV` records to the model and compares the `OUT`/`RET` records with its predictions. -/
namespace Ivy.Drv.Pump
open Ivy.Pump

inductive Mode | idle | inNew | inPump | inDestroy
deriving DecidableEq

structure S where
  st : St := St.init false false
  mode : Mode := .idle
  relay : Bool := false
  evs : Array Ev := #[]
  outs : Array Out := #[]
  line : Nat := 0
  calls : Nat := 0
  diverged : Nat := 0
  -- branch coverage of the model (for the evidence)
  cov : List (String × Nat) := []

def bump (c : List (String × Nat)) (k : String) : List (String × Nat) :=
  match c.find? (·.1 == k) with
  | some _ => c.map fun (a, n) => if a == k then (a, n + 1) else (a, n)
  | none => c ++ [(k, 1)]

def parseOut : List String → Option Out
  | ["read", c] => c.toNat?.map Out.read
  | ["fionread"] => some Out.fionread
  | ["write", c] => c.toNat?.map Out.write
  | ["shutdown"] => some Out.shutdown
  | ["setBands", a, b] => some (Out.setBands (a == "1") (b == "1"))
  | _ => none

def parseEv (s : S) : List String → Option Ev
  | ["rd", "data", n] =>
    n.toNat?.map fun n =>
      -- bytes are identified by their position in the source stream
      let pos := s.st.src.length + (s.evs.foldl (fun a e => match e with | Ev.rdData bs => a + bs.length | _ => a) 0)
      Ev.rdData ((List.range n).map (· + pos))
  | ["rd", "eof"] => some Ev.rdEof
  | ["rd", "eagain"] => some Ev.rdEagain
  | ["rd", "eintr"] => some Ev.rdEintr
  | ["rd", "err"] => some Ev.rdErr
  | ["fion", v] => v.toInt?.map Ev.fion
  | ["wr", "n", n] => n.toNat?.map Ev.wrN
  | ["wr", "zero"] => some Ev.wrZero
  | ["wr", "eagain"] => some Ev.wrEagain
  | ["wr", "eintr"] => some Ev.wrEintr
  | ["wr", "err"] => some Ev.wrErr
  | _ => none

def evKind : Ev → String
  | .rdData _ => "rdData" | .rdEof => "rdEof" | .rdEagain => "rdEagain" | .rdEintr => "rdEintr" | .rdErr => "rdErr"
  | .fion _ => "fion" | .wrN _ => "wrN" | .wrZero => "wrZero" | .wrEagain => "wrEagain" | .wrEintr => "wrEintr" | .wrErr => "wrErr"

def step (s : S) (ws : List String) : S × List String :=
  let s := { s with line := s.line + 1 }
  match ws with
  | ["NEW", "relay", r] => ({ s with mode := .inNew, relay := r == "1", outs := #[], evs := #[] }, [])
  | ["ENDNEW", "splice", m] =>
    let st := St.init (m == "1") s.relay
    let ok := s.outs.toList == initOuts
    ({ s with st := st, mode := .idle, diverged := if ok then s.diverged else s.diverged + 1 },
     if ok then [] else [s!"DIVERGE line {s.line}: init outputs {repr s.outs.toList} predicted {repr initOuts}"])
  | ["PUMP"] => ({ s with mode := .inPump, outs := #[], evs := #[] }, [])
  | "OUT" :: rest =>
    match parseOut rest with
    | some o => ({ s with outs := s.outs.push o }, [])
    | none => ({ s with diverged := s.diverged + 1 }, [s!"DIVERGE line {s.line}: unparsable/unexpected output record {rest}"])
  | "EV" :: rest =>
    match parseEv s rest with
    | some e => ({ s with evs := s.evs.push e, cov := bump s.cov (evKind e) }, [])
    | none => (s, [s!"bad-log line {s.line}"])
  | ["CONTENT", _] => (s, [])
  | ["RET", r, "BUF", b, "DONE", d] =>
    match r.toInt? with
    | none => (s, [s!"bad-log line {s.line}"])
    | some r =>
      let s := { s with calls := s.calls + 1, mode := .idle }
      match pump s.st s.evs.toList with
      | some (st', outs, r', rest) =>
        let okOuts := outs == s.outs.toList
        let ok := okOuts && r == r' && rest.isEmpty && (b == "1") == st'.hasBuf && (d == "1") == (st'.sawFin == 2)
        let cov := bump s.cov s!"ret{r'}-fin{st'.sawFin}-full{st'.full}-splice{st'.splice}"
        if ok then ({ s with st := st', cov := cov }, [])
        else ({ s with st := st', cov := cov, diverged := s.diverged + 1 },
              [s!"DIVERGE line {s.line}: pump call #{s.calls}: implementation outs={repr s.outs.toList} ret={r} buf={b} done={d}; model outs={repr outs} ret={r'} buf={st'.hasBuf} fin={st'.sawFin} unconsumed={rest.length}"])
      | none =>
        ({ s with diverged := s.diverged + 1 },
         [s!"DIVERGE line {s.line}: pump call #{s.calls}: the model has no execution for events {repr s.evs.toList} from state bytes={s.st.bytes} full={s.st.full} fin={s.st.sawFin} (implementation made different calls)"])
  | ["DESTROY"] => ({ s with mode := .inDestroy, outs := #[] }, [])
  | ["ENDDESTROY", "BUF", b] =>
    let (st', outs) := destroy s.st
    let ok := outs == s.outs.toList && b == "0"
    ({ s with st := st', mode := .idle, diverged := if ok then s.diverged else s.diverged + 1 },
     if ok then [] else [s!"DIVERGE line {s.line}: destroy outputs {repr s.outs.toList} predicted {repr outs}"])
  | ["CACHED", _] => (s, [])
  | ["SKIP"] => (s, [])
  | _ => (s, [s!"bad-log line {s.line}: {ws}"])

def run : IO Unit := do
  let out ← IO.getStdout
  let s ← loopLines (← IO.getStdin) out ({} : S) step
  out.putStrLn s!"SUMMARY calls {s.calls} diverged {s.diverged}"
  for (k, n) in s.cov do
    out.putStrLn s!"COV {k} {n}"

end Ivy.Drv.Pump
