import Ivy.L3.PumpCache
import Ivy.Drv.Util
/-! T-replay driver for iv_fd_pump.c: reads the log written by /verif/harness/pump_h.c, feeds the
`EV` records to the thread machine of `Ivy/L3/PumpCache.lean` (several live pumps + the per-thread
buffer cache) and compares the `OUT`/`RET`/`BUF`/`DONE` records of every call and the
`CACHED`/`ALIVE`/`ALLOCS`/`FREES` record after every operation with its predictions. -/
namespace Ivy.Drv.Pump
open Ivy.Pump

structure S where
  thr : Thr := Thr.init none
  slot : Nat := 0
  relay : Bool := false
  probe : Bool := false
  evs : Array Ev := #[]
  outs : Array Out := #[]
  contentBad : Bool := false
  uid : Nat := 0                       -- serial number of the pump being created / last created
  uids : List (Nat × Nat) := []        -- slot ↦ serial number of its pump
  line : Nat := 0
  calls : Nat := 0
  diverged : Nat := 0
  -- branch coverage of the model (for the evidence)
  cov : List (String × Nat) := []

def bump (c : List (String × Nat)) (k : String) : List (String × Nat) :=
  match c.find? (·.1 == k) with
  | some _ => c.map fun (a, n) => if a == k then (a, n + 1) else (a, n)
  | none => c ++ [(k, 1)]

def parseOut : List String → Option Out
  | ["read", c] => c.toNat?.map Out.read
  | ["fionread"] => some Out.fionread
  | ["write", c] => c.toNat?.map Out.write
  | ["shutdown"] => some Out.shutdown
  | ["setBands", a, b] => some (Out.setBands (a == "1") (b == "1"))
  | _ => none

def slotSt (s : S) : Option St := (getSlot s.thr.slots s.slot).map (·.st)

def parseEv (s : S) : List String → Option Ev
  | ["rd", "data", n] =>
    n.toNat?.map fun n =>
      -- bytes are identified by (serial number of the pump, position in its source stream)
      let have_ := match slotSt s with | some st => st.src.length | none => 0
      let pos := have_ + (s.evs.foldl (fun a e => match e with | Ev.rdData bs => a + bs.length | _ => a) 0)
      let base := ((s.uids.lookup s.slot).getD 0) * 1099511627776
      Ev.rdData ((List.range n).map (· + pos + base))
  | ["rd", "eof"] => some Ev.rdEof
  | ["rd", "eagain"] => some Ev.rdEagain
  | ["rd", "eintr"] => some Ev.rdEintr
  | ["rd", "err"] => some Ev.rdErr
  | ["fion", v] => v.toInt?.map Ev.fion
  | ["wr", "n", n] => n.toNat?.map Ev.wrN
  | ["wr", "zero"] => some Ev.wrZero
  | ["wr", "eagain"] => some Ev.wrEagain
  | ["wr", "eintr"] => some Ev.wrEintr
  | ["wr", "err"] => some Ev.wrErr
  | _ => none

def evKind : Ev → String
  | .rdData _ => "rdData" | .rdEof => "rdEof" | .rdEagain => "rdEagain" | .rdEintr => "rdEintr" | .rdErr => "rdErr"
  | .fion _ => "fion" | .wrN _ => "wrN" | .wrZero => "wrZero" | .wrEagain => "wrEagain" | .wrEintr => "wrEintr" | .wrErr => "wrErr"

def diverge (s : S) (msg : String) : S × List String :=
  ({ s with diverged := s.diverged + 1 }, [s!"DIVERGE line {s.line}: {msg}"])

def parseMode : String → Option (Option Bool)
  | "-1" => some none
  | "0" => some (some false)
  | "1" => some (some true)
  | _ => none

/-- descriptors the model says are open: two per existing buffer while buffers are pipes -/
def fdsAlive (t : Thr) : Nat := if t.splice == some false then 0 else 2 * (t.allocs - t.frees)

/-- were the bytes this call delivered the next bytes of the pump's own source? -/
def deliveredOwn (s s' : St) : Bool :=
  let n := s'.sink.length - s.sink.length
  s'.sink.drop s.sink.length == (s'.src.drop s.sink.length).take n

def step (s : S) (ws : List String) : S × List String :=
  let s := { s with line := s.line + 1 }
  match ws with
  | ["MODE", m] =>
    match parseMode m with
    | none => (s, [s!"bad-log line {s.line}"])
    | some m =>
      match Ivy.Pump.step s.thr (Op.setMode m) with
      | some (t', _, _) => ({ s with thr := t' }, [])
      | none => diverge s s!"transfer mode forced while the model has {s.thr.slots.length} live pumps and {s.thr.cache.length} cached buffers"
  | ["PURGE"] =>
    match Ivy.Pump.step s.thr Op.purge with
    | some (t', _, _) => ({ s with thr := t', cov := bump s.cov "purge" }, [])
    | none => diverge s "purge: no execution in the model"
  | ["NEW", k, "relay", r, "probe", p] =>
    match k.toNat? with
    | none => (s, [s!"bad-log line {s.line}"])
    | some k =>
      let uid := s.uid + 1
      ({ s with slot := k, relay := r == "1", probe := p == "1", outs := #[], evs := #[], uid := uid,
                uids := (k, uid) :: s.uids.filter (·.1 != k) }, [])
  | ["ENDNEW", "splice", m] =>
    match Ivy.Pump.step s.thr (Op.new s.slot s.relay s.probe) with
    | some (t', outs, _) =>
      let probed := s.thr.splice.isNone
      let ok := s.outs.toList == outs && (m == "1") == (t'.splice == some true)
      let s := { s with thr := t', cov := if probed then bump s.cov s!"probe-{s.probe}" else s.cov }
      if ok then (s, [])
      else diverge s s!"init of slot {s.slot}: outputs {repr s.outs.toList} splice={m}; model outputs {repr outs} splice={repr t'.splice}"
    | none => diverge s s!"init of slot {s.slot}: the model already has a live pump there"
  | ["PUMP", k] =>
    match k.toNat? with
    | none => (s, [s!"bad-log line {s.line}"])
    | some k => ({ s with slot := k, outs := #[], evs := #[], contentBad := false }, [])
  | "OUT" :: rest =>
    match parseOut rest with
    | some o => ({ s with outs := s.outs.push o }, [])
    | none => diverge s s!"unparsable/unexpected output record {rest}"
  | "EV" :: rest =>
    match parseEv s rest with
    | some e => ({ s with evs := s.evs.push e, cov := bump s.cov (evKind e) }, [])
    | none => (s, [s!"bad-log line {s.line}"])
  | "CONTENT" :: c :: _ => ({ s with contentBad := s.contentBad || c != "ok" }, [])
  | "HANG" :: _ => diverge s "the implementation issued a blocking splice on an empty pipe"
  | "BADFD" :: rest => diverge s s!"the implementation used a descriptor it does not own: {rest}"
  | ["RET", r, "BUF", b, "DONE", d] =>
    match r.toInt? with
    | none => (s, [s!"bad-log line {s.line}"])
    | some r =>
      let s := { s with calls := s.calls + 1 }
      let before := slotSt s
      match Ivy.Pump.step s.thr (Op.pump s.slot s.evs.toList) with
      | some (t', outs, r') =>
        let r' := r'.getD 0
        match before, (getSlot t'.slots s.slot).map (·.st) with
        | some st, some st' =>
          let okOuts := outs == s.outs.toList
          let own := deliveredOwn st st'
          let ok := okOuts && r == r' && (b == "1") == st'.hasBuf && (d == "1") == (st'.sawFin == 2)
                    && own == !s.contentBad && !t'.fault
          let cov := bump s.cov s!"ret{r'}-fin{st'.sawFin}-full{st'.full}-splice{st'.splice}"
          let cov := if acquires st then bump cov (if s.thr.cache.isEmpty then "acquire-fresh" else "acquire-cached") else cov
          let cov := if (st.hasBuf || acquires st) && !st'.hasBuf then
              bump cov (if t'.frees == s.thr.frees then "release-cached"
                        else if t'.spl && st'.bytes != 0 then "release-closed-nonempty-pipe" else "release-freed-cache-full")
            else cov
          let cov := if r' == -1 && st'.bytes != 0 then bump cov "error-with-data-buffered" else cov
          let s := { s with thr := t', cov := cov }
          if ok then (s, [])
          else diverge s s!"pump call #{s.calls} slot {s.slot}: implementation outs={repr s.outs.toList} ret={r} buf={b} done={d} content-bad={s.contentBad}; model outs={repr outs} ret={r'} buf={st'.hasBuf} fin={st'.sawFin} delivered-own={own} null-buffer={t'.fault}"
        | _, _ => diverge { s with thr := t' } s!"pump call #{s.calls} slot {s.slot}: no such pump in the model"
      | none =>
        match before with
        | some st =>
          diverge s s!"pump call #{s.calls} slot {s.slot}: the model has no execution for events {repr s.evs.toList} from state bytes={st.bytes} full={st.full} fin={st.sawFin} (implementation made different calls)"
        | none => diverge s s!"pump call #{s.calls} slot {s.slot}: no such pump in the model"
  | ["DESTROY", k] =>
    match k.toNat? with
    | none => (s, [s!"bad-log line {s.line}"])
    | some k => ({ s with slot := k, outs := #[] }, [])
  | ["ENDDESTROY", "BUF", b] =>
    match Ivy.Pump.step s.thr (Op.destroy s.slot) with
    | some (t', outs, _) =>
      let ok := outs == s.outs.toList && b == "0"
      let s := { s with thr := t', cov := bump s.cov "destroy" }
      if ok then (s, [])
      else diverge s s!"destroy of slot {s.slot}: outputs {repr s.outs.toList} buf={b}, model {repr outs}"
    | none => diverge s s!"destroy of slot {s.slot}: no such pump in the model"
  | ["CACHED", n, "ALIVE", a, f, "ALLOCS", al, "FREES", fr, "DIRTY", d] =>
    let t := s.thr
    let ok := n.toNat? == some t.cache.length && a.toNat? == some (t.allocs - t.frees) && f.toNat? == some (fdsAlive t)
              && al.toNat? == some t.allocs && fr.toNat? == some t.frees
              && d.toNat? == some (t.cache.filter (· != [])).length
    let s := { s with cov := bump s.cov s!"cache-depth-{t.cache.length}" }
    if ok then (s, [])
    else diverge s s!"buffer cache: implementation cached={n} alive={a} fds={f} allocs={al} frees={fr} non-empty-cached={d}; model cached={t.cache.length} alive={t.allocs - t.frees} fds={fdsAlive t} allocs={t.allocs} frees={t.frees}"
  | ["FINAL", "ALIVE", a, f] =>
    -- iv_deinit ran the thread-deinit hook (buf_purge) after the harness destroyed every pump
    match Ivy.Pump.step s.thr Op.purge with
    | some (t', _, _) =>
      let ok := a.toNat? == some (t'.allocs - t'.frees) && f.toNat? == some (fdsAlive t') && t'.slots.isEmpty
      let s := { s with thr := t' }
      if ok then (s, [])
      else diverge s s!"after thread deinit: implementation alive={a} fds={f}; model alive={t'.allocs - t'.frees} fds={fdsAlive t'} live-pumps={t'.slots.length}"
    | none => diverge s "final purge: no execution in the model"
  | ["SKIP"] => (s, [])
  | _ => (s, [s!"bad-log line {s.line}: {ws}"])

def run : IO Unit := do
  let out ← IO.getStdout
  let s ← loopLines (← IO.getStdin) out ({} : S) step
  out.putStrLn s!"SUMMARY calls {s.calls} diverged {s.diverged}"
  for (k, n) in s.cov do
    out.putStrLn s!"COV {k} {n}"

end Ivy.Drv.Pump
