/-! Line-protocol helpers shared by the drivers (no proofs depend on this file). -/
namespace Ivy.Drv

def words (line : String) : List String :=
  (line.trimAscii.toString.splitOn " ").filter (· ≠ "")

/-- Run `step` over every line of stdin, threading a state; prints what `step` returns. -/
partial def loopLines {σ : Type} (h : IO.FS.Stream) (out : IO.FS.Stream) (s : σ)
    (step : σ → List String → σ × List String) : IO σ := do
  let line ← h.getLine
  if line.isEmpty then return s
  let ws := words line
  if ws.isEmpty then loopLines h out s step else
  let (s', outs) := step s ws
  for o in outs do out.putStrLn o
  loopLines h out s' step

def intsToString (l : List Int) : String := " ".intercalate (l.map toString)
def natsToString (l : List Nat) : String := " ".intercalate (l.map toString)

end Ivy.Drv
