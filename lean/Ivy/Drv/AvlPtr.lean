import Ivy.L0.AvlPtr
import Ivy.Drv.Avl
import Ivy.Drv.Util
/-!
Driver for the T-diff of iv_avl.c against the *pointer-level* model (`Ivy/L0/AvlPtr.lean`).
Same op lines and result lines as `Ivy/Drv/Avl.lean` / `/verif/harness/avl_h.c`
(reset / load / ins / del / trav); `TRAV`/`RTRAV` are produced by actually iterating
`iv_avl_tree_min`+`next` and `iv_avl_tree_max`+`prev` through the parent pointers.
`run` additionally prints `PARENTS ok|bad` after every ins/del/load (the check the C
harness performs with `check_parents`); `runQuiet` prints only what the harness prints
(`PARENT-MISMATCH` if the check fails).  No proofs depend on this file.
-/
namespace Ivy.Drv.AvlPtr
open Ivy.AvlPtr
open Ivy.Avl (Tree)

structure S where
  h : Heap := empty
  next : Nat := 0              -- addresses < next have been handed out
  free : List Nat := []        -- released addresses
  dead : Bool := false

/-- squash the closure chain of `mem` into an array lookup (keeps long runs linear) -/
def compact (h : Heap) (n : Nat) : Heap :=
  let arr : Array (Option Node) := Array.ofFn (n := n) (fun i => h.mem i.val)
  { h with mem := fun i => (arr[i]?).join }

/-- lookup of the node holding key `k` (what the harness does with its `bykey` table) -/
def findKey : Nat → Heap → Int → Option Nat → Option Nat
  | 0, _, _, _ => none
  | _, _, _, none => none
  | f + 1, h, k, some i =>
    match h.mem i with
    | none => none
    | some n => if k < n.key then findKey f h k n.left
                else if n.key < k then findKey f h k n.right else some i

def dumpP : Nat → Heap → Option Nat → String
  | 0, _, _ => "?"
  | _, _, none => "."
  | f + 1, h, some i =>
    match h.mem i with
    | none => "?"
    | some n => "( " ++ dumpP f h n.left ++ " " ++ toString n.key ++ ":" ++ toString n.height
                  ++ " " ++ dumpP f h n.right ++ " )"

/-- `check_parents` of the harness -/
def parentsOk : Nat → Heap → Option Nat → Option Nat → Bool
  | 0, _, _, _ => false
  | _, _, none, _ => true
  | f + 1, h, some i, par =>
    match h.mem i with
    | none => false
    | some n => n.parent == par && parentsOk f h n.left (some i) && parentsOk f h n.right (some i)

/-- materialise a functional tree (as parsed from a `load` line) in a fresh heap -/
def build : Tree → Option Nat → Nat → Mem → Option Nat × Nat × Mem
  | .nil, _, nx, m => (none, nx, m)
  | .node l k h r, par, nx, m =>
    let i := nx
    let (lp, nx1, m1) := build l (some i) (nx + 1) m
    let (rp, nx2, m2) := build r (some i) nx1 m1
    (some i, nx2, upd m2 i ⟨k, lp, rp, par, h⟩)

def fuelOf (s : S) : Nat := s.next + 2

def parentsLines (verbose : Bool) (s : S) : List String :=
  let ok := parentsOk (fuelOf s) s.h s.h.root none
  if verbose then [if ok then "PARENTS ok" else "PARENTS bad"]
  else if ok then [] else ["PARENT-MISMATCH"]

def keysLine (tag : String) (h : Heap) (l : Option (List Nat)) : String :=
  match l with
  | none => tag ++ " FAULT"
  | some ids =>
    let ks := ids.filterMap (fun i => (h.mem i).map (·.key))
    if ks.isEmpty then tag else tag ++ " " ++ intsToString ks

def step (verbose : Bool) (s : S) (ws : List String) : S × List String :=
  if s.dead then (s, ["DEAD"]) else
  match ws with
  | ["reset"] => ({}, ["OK"])
  | "load" :: toks =>
    match Ivy.Drv.Avl.parseTree toks with
    | some (t, []) =>
      let (root, nx, m) := build t none 0 (fun _ => none)
      let s' : S := { h := compact ⟨m, root⟩ nx, next := nx }
      (s', ["OK"] ++ parentsLines verbose s')
    | _ => (s, ["bad-op"])
  | ["ins", k] =>
    match k.toInt? with
    | some k =>
      let (a, next', free') := match s.free with
        | a :: fr => (a, s.next, fr)
        | [] => (s.next, s.next + 1, [])
      let h0 := alloc s.h a k
      match insert (s.next + 3) h0 a with
      | some (h', rc) =>
        let s' : S := if rc == 0 then { h := compact h' next', next := next', free := free' }
                      else { h := compact h' next', next := next', free := a :: free' }
        (s', [s!"RES {rc} DUMP {dumpP (fuelOf s') s'.h s'.h.root}"] ++ parentsLines verbose s')
      | none => ({ s with dead := true }, ["FAULT"])
    | none => (s, ["bad-op"])
  | ["del", k] =>
    match k.toInt? with
    | some k =>
      match findKey (fuelOf s) s.h k s.h.root with
      | none => ({ s with dead := true }, ["FAULT"])
      | some a =>
        match delete (fuelOf s) s.h a with
        | some h' =>
          let s' : S := { h := compact h' s.next, next := s.next, free := a :: s.free }
          (s', [s!"RES ok DUMP {dumpP (fuelOf s') s'.h s'.h.root}"] ++ parentsLines verbose s')
        | none => ({ s with dead := true }, ["FAULT"])
    | none => (s, ["bad-op"])
  | ["trav"] =>
    (s, [keysLine "TRAV" s.h (forEach (fuelOf s) s.h),
         keysLine "RTRAV" s.h (forEachRev (fuelOf s) s.h)])
  | _ => (s, ["bad-op"])

/-- with a `PARENTS ok|bad` line after every load/ins/del -/
def run : IO Unit := do
  let _ ← loopLines (← IO.getStdin) (← IO.getStdout) ({} : S) (step true)

/-- exactly the harness's lines (`PARENT-MISMATCH` only when the check fails) -/
def runQuiet : IO Unit := do
  let _ ← loopLines (← IO.getStdin) (← IO.getStdout) ({} : S) (step false)

end Ivy.Drv.AvlPtr
