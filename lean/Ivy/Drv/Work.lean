import Ivy.L3.Work
import Ivy.Drv.Util
/-! T-sched replay driver for C12/C13: reads the log written by /verif/harness/mt_h.c + mt_work.c, maps its records to
actions of the LTS `Ivy.Work` (one `St` per pool instance, one `LSt` per thread using the NULL pool, one `TSt` per
thread created with `spawn`), checks that every action is enabled when the implementation performs it, and compares
the white-box pool snapshot printed before every release of the pool lock with the model state.

Mapping (T = thread prefix of the record):
  API submit/submitc/put … SNAP poolmu      submit / submitc k / submitf / put   (the SNAP closes the critical section;
                                             submitc by worker k of that pool = submitc k, by any other non-owner thread,
                                             e.g. a worker of another pool inside its work function = submitf)
  IREG kick:P:T            wStart            IPOST kick:P:T by T outside a section        wSelfKick
  IH kick:P:T begin        wKick             SNAP poolmu:P by worker T     wEnter | wAfter | wTimeoutRun (by its pc)
  IH idle:P:T begin        wTimeout          IPOST dead:n by a worker      wExit        IH dead:n begin   oJoin / died
  IH ev:P begin            oEv               SNAP poolmu:P by the owner    oSteal | oFinish | oTnRun (by its pc)
  CB x.done                oComplete         IH ev:P end                   oFinish when no shutdown section was needed
  IH tn:P begin            oTn
`IPOST` records inside a section must be reflected by owed flags of the model after the action; flags newly set by the
model must have their `IPOST`.  At the end of a conclusive run every model must be quiescent too. -/
namespace Ivy.Drv.Work
open Ivy.Work

structure PoolRep where
  name   : String
  st     : St
  owner  : Nat
  tw     : List (Nat × Nat) := []       -- thread → worker number
  dw     : List (Nat × Nat) := []       -- dead event number → worker number
  items  : List (String × Nat) := []    -- item object → model item number of its latest submission
  hstart : List (Nat × Nat) := []       -- HOOK start records per worker
  hstop  : List (Nat × Nat) := []
  hooks  : Bool := false
  hookStart : Bool := false     -- thread_start is set (HOOK start records are expected)
  hookStop : Bool := false      -- thread_stop is set

structure Ctx where
  api     : Option (String × String × String) := none   -- (op, pool instance, item)
  sect    : Option String := none                       -- pool instance whose lock is held
  posts   : List (String × Bool) := []                  -- IPOSTs of the current section; true once the post's own critical section on the target's event list is over
  created : Option Nat := none                          -- THREAD-CREATE inside the section
  cdead   : Option Nat := none                          -- IREG dead:n inside the section / spawn
  deferred : List (List String) := []                   -- records of other threads that logically follow this section (replayed when it closes)

structure LocalRep where
  st    : LSt := {}
  items : List (String × Nat) := []

structure ThrRep where
  st      : TSt
  creator : Nat
  thread  : Option Nat := none

structure S where
  pools   : List PoolRep := []
  ctx     : List (Nat × Ctx) := []
  locals  : List (Nat × LocalRep) := []
  thrs    : List (Nat × ThrRep) := []          -- spawned threads by dead number
  dbind   : List (Nat × Nat) := []             -- dead number → thread (TSTART)
  where_  : List (String × String) := []       -- item object → "pool instance" | "null:<thread>"
  quit    : List Nat := []
  inconclusive : Bool := false
  line    : Nat := 0
  actions : Nat := 0
  snaps   : Nat := 0
  diverged : Nat := 0
  cov     : List (String × Nat) := []

def bump (c : List (String × Nat)) (k : String) : List (String × Nat) :=
  match c.find? (·.1 == k) with
  | some _ => c.map fun (a, n) => if a == k then (a, n + 1) else (a, n)
  | none => c ++ [(k, 1)]

def bumpN (c : List (Nat × Nat)) (k : Nat) : List (Nat × Nat) :=
  match c.find? (·.1 == k) with
  | some _ => c.map fun (a, n) => if a == k then (a, n + 1) else (a, n)
  | none => c ++ [(k, 1)]

def tnum (s : String) : Option Nat := if s.startsWith "T" then (s.drop 1).toString.toNat? else none
def setAssoc {α β : Type} [BEq α] (l : List (α × β)) (k : α) (v : β) : List (α × β) :=
  if l.any (·.1 == k) then l.map fun (a, b) => if a == k then (a, v) else (a, b) else l ++ [(k, v)]
def revLookup (l : List (Nat × Nat)) (v : Nat) : Option Nat := (l.find? (·.2 == v)).map (·.1)
def kvs (ws : List String) : List (String × String) :=
  ws.filterMap fun w => match w.splitOn "=" with
    | [a, b] => some (a, b)
    | _ => none
def csv (s : String) : List String := (s.splitOn ",").filter (· ≠ "")

/-- flatten the closure chains the model builds for `w` and `it` (keeps lookups cheap on long logs) -/
def norm (s : St) : St :=
  let ws := ((List.range s.nw).map s.w).toArray
  let is := ((List.range s.ni).map s.it).toArray
  { s with w := fun j => ws.getD j {}, it := fun j => is.getD j {} }

def actName : Act → String
  | .submit => "submit" | .submitc _ => "submitc" | .submitf => "submitf" | .put => "put" | .wStart _ => "wStart" | .wSelfKick _ => "wSelfKick"
  | .wKick _ => "wKick" | .wEnter _ => "wEnter" | .wAfter _ => "wAfter" | .wTimeout _ => "wTimeout"
  | .wTimeoutRun _ => "wTimeoutRun" | .wExit _ => "wExit" | .oEv => "oEv" | .oSteal => "oSteal" | .oComplete => "oComplete"
  | .oFinish => "oFinish" | .oTn => "oTn" | .oTnRun => "oTnRun" | .oJoin _ => "oJoin"

def pcName : WPc → String
  | .starting => "starting" | .selfkick => "selfkick" | .parked => "parked" | .gotPre => "gotPre" | .running i => s!"running({i})"
  | .toPre => "toPre" | .dying => "dying" | .exited => "exited" | .joined => "joined"

def opcName : OPc → String
  | .idle => "idle" | .evPre => "evPre" | .compl b => s!"compl{b}" | .tnPre => "tnPre"

/-- a finer label for coverage: which way the worker left its critical section -/
def outcome (before after : St) (k : Nat) : String :=
  match (after.w k).pc with
  | .running _ => "take"
  | .parked => if k ∈ after.idle then (if (before.w k).pc == .toPre then "rearm" else "idle") else "rekick"
  | .dying => "die"
  | _ => "other"

def internalActs (s : St) : List Act :=
  [.oEv, .oSteal, .oComplete, .oFinish, .oTn, .oTnRun] ++
  (List.range s.nw).flatMap fun k => [.wStart k, .wSelfKick k, .wKick k, .wEnter k, .wAfter k, .wTimeoutRun k, .wExit k, .oJoin k]

def enabledInternal (s : St) : List Act := (internalActs s).filter fun a => (Ivy.Work.step s a).isSome

def getCtx (s : S) (t : Nat) : Ctx := (s.ctx.lookup t).getD {}
def putCtx (s : S) (t : Nat) (c : Ctx) : S := { s with ctx := setAssoc s.ctx t c }
def getPool (s : S) (n : String) : Option PoolRep := s.pools.find? (·.name == n)
def putPool (s : S) (p : PoolRep) : S := { s with pools := s.pools.map fun q => if q.name == p.name then p else q }
def getLocal (s : S) (t : Nat) : LocalRep := (s.locals.lookup t).getD {}

def diverge (s : S) (msg : String) : S × List String :=
  ({ s with diverged := s.diverged + 1 }, [s!"DIVERGE line {s.line}: {msg}"])

/-- perform a model action on a pool; `Except` carries the divergence text -/
def act (s : S) (p : PoolRep) (a : Act) : Except String (S × PoolRep) :=
  match Ivy.Work.step p.st a with
  | some st' =>
    if st'.fatal then .error s!"model reaches iv_fatal on {actName a} in pool {p.name}" else
    let lab := match a with
      | .wEnter k | .wAfter k | .wTimeoutRun k => s!"{actName a}-{outcome p.st st' k}"
      | .oFinish => if st'.freed then "oFinish-free"
                    else if p.st.shut && p.st.started == 0 && p.st.done.isEmpty then "oFinish-keep-queued" else "oFinish"
      | .oTnRun => if st'.nw > p.st.nw then "oTnRun-start" else "oTnRun-nothing"
      | .submit | .submitc _ | .submitf => s!"{actName a}-" ++ (if st'.nw > p.st.nw then "start" else if st'.tnOwed && !p.st.tnOwed then "threadneeded"
                                  else if p.st.idle != [] then "kick" else "nokick")
      | _ => actName a
    let p' := { p with st := norm st' }
    .ok ({ (putPool s p') with actions := s.actions + 1, cov := bump s.cov lab }, p')
  | none =>
    .error s!"action {actName a} is not enabled in the model of pool {p.name} (owner pc {opcName p.st.owner}, started {p.st.started}, queue {p.st.queue}, done {p.st.done}, evOwed {p.st.evOwed}, tnOwed {p.st.tnOwed}, shut {p.st.shut}, freed {p.st.freed}, workers {(List.range p.st.nw).map fun k => pcName (p.st.w k).pc})"

def itemName (p : PoolRep) (i : Nat) : String := ((p.items.find? (·.2 == i)).map (·.1)).getD s!"#{i}"
def thrName (p : PoolRep) (k : Nat) : String := match revLookup p.tw k with | some t => s!"T{t}" | none => s!"w{k}"

/-- compare the white-box snapshot with the model state of the pool -/
def compareSnap (p : PoolRep) (kv : List (String × String)) : List String :=
  let st := p.st
  let get (k : String) := (kv.lookup k).getD ""
  let num (k : String) (v : Nat) : List String := if (get k).toNat? == some v then [] else [s!"{k}: implementation {get k}, model {v}"]
  let lst (k : String) (v : List String) : List String := if csv (get k) == v then [] else [s!"{k}: implementation [{get k}], model {v}"]
  let live := (List.range st.nw).filter fun k => (st.w k).kickReg
  let wk := live.map fun k => s!"{thrName p k}:k{if (st.w k).kicked then 1 else 0}:t{if (st.w k).timerReg then 1 else 0}"
  let sortS (l : List String) := l.toArray.qsort (· < ·) |>.toList
  num "started" st.started ++ num "max" st.max ++ num "shut" (if st.shut then 1 else 0) ++
  num "head" st.seqHead ++ num "tail" st.seqTail ++
  lst "queued" (st.queue.map (itemName p)) ++ lst "done" (st.done.map (itemName p)) ++
  lst "idle" (st.idle.map (thrName p)) ++
  -- a thread created in the section that is being closed may already have registered its kick (it runs ahead of the
  -- creator's snapshot; its records are replayed after this action): tolerated when the model has it `starting`
  let early := ((List.range st.nw).filter fun k => (st.w k).pc == .starting).map fun k => s!"{thrName p k}:k0:t0"
  let impl := (csv (get "workers")).filter fun e => !(early.contains e)
  (if sortS impl == sortS wk then [] else [s!"workers: implementation [{get "workers"}], model {wk}"])

/-- owed flags by event name, for the IPOST checks -/
def owedFlag (p : PoolRep) (ev : String) : Option Bool :=
  match ev.splitOn ":" with
  | ["ev", _] => some p.st.evOwed
  | ["tn", _] => some p.st.tnOwed
  | ["kick", _, t] => (tnum t).bind fun t => (p.tw.lookup t).map fun k => (p.st.w k).kickOwed
  | _ => none

def owedNames (p : PoolRep) : List String :=
  (if p.st.evOwed then [s!"ev:{p.name}"] else []) ++ (if p.st.tnOwed then [s!"tn:{p.name}"] else []) ++
  ((List.range p.st.nw).filter fun k => (p.st.w k).kickOwed).map fun k => s!"kick:{p.name}:{thrName p k}"

def poolOfEvent (s : S) (ev : String) : Option PoolRep :=
  match ev.splitOn ":" with
  | _ :: pn :: _ => getPool s pn
  | _ => none

def simple (s : S) (p : PoolRep) (a : Act) : S × List String :=
  match act s p a with
  | .ok (s, _) => (s, [])
  | .error e => diverge s e

def tact (s : S) (n : Nat) (r : ThrRep) (a : TAct) (what : String) : S × List String :=
  match tstep r.st a with
  | some st' =>
    let s := { s with thrs := setAssoc s.thrs n { r with st := st' }, actions := s.actions + 1, cov := bump s.cov ("thread-" ++ what) }
    if st'.fault then diverge s s!"iv_thread dead:{n}: the model uses freed memory at {what}" else (s, [])
  | none => diverge s s!"iv_thread dead:{n}: {what} is not enabled in the model"

def deadNum (w : String) : Option Nat :=
  match w.splitOn ":" with
  | ["dead", n] => n.toNat?
  | _ => none

/-- the loop of thread t invokes the handler of the library-internal event `ev` -/
def deliver (s : S) (t : Nat) (ev : String) : S × List String :=
  match ev.splitOn ":" with
  | ["dead", n] =>
    match n.toNat? with
    | none => (s, [])
    | some n =>
      match s.thrs.lookup n with
      | some r => if r.creator == t then tact s n r .died "died" else diverge s s!"IH {ev} ran in T{t}, the creator is T{r.creator}"
      | none =>
        match s.pools.find? (fun p => (p.dw.lookup n).isSome) with
        | some p =>
          match p.dw.lookup n with
          | some k => if t == p.owner then simple s p (.oJoin k) else diverge s s!"IH {ev} ran in T{t}, not in the pool owner"
          | none => (s, [])
        | none => diverge s s!"IH {ev}: unknown thread"
  | ["kick", pn, tn] =>
    match getPool s pn with
    | some p =>
      match p.tw.lookup t with
      | some k => if tnum tn == some t then simple s p (.wKick k) else diverge s s!"IH {ev} ran in T{t}"
      | none => diverge s s!"IH {ev} ran in T{t}, which is not a worker"
    | none => diverge s s!"IH {ev}: unknown pool"
  | ["idle", pn, tn] =>
    match getPool s pn with
    | some p =>
      match p.tw.lookup t with
      | some k => if tnum tn == some t then simple s p (.wTimeout k) else diverge s s!"IH {ev} ran in T{t}"
      | none => diverge s s!"IH {ev} ran in T{t}, which is not a worker"
    | none => diverge s s!"IH {ev}: unknown pool"
  | ["ev", pn] =>
    match getPool s pn with
    | some p => if t == p.owner then simple s p .oEv else diverge s s!"IH {ev} ran in T{t}, not in the owner"
    | none => diverge s s!"IH {ev}: unknown pool"
  | ["tn", pn] =>
    match getPool s pn with
    | some p => if t == p.owner then simple s p .oTn else diverge s s!"IH {ev} ran in T{t}, not in the owner"
    | none => diverge s s!"IH {ev}: unknown pool"
  | _ => (s, [])


/-- the critical section of thread t on pool p ends with this snapshot -/
def closeSection (s : S) (t : Nat) (p : PoolRep) (kv : List (String × String)) : S × List String :=
  let c := getCtx s t
  let owedBefore := owedNames p
  -- which action?
  let choice : Except String (Act × Bool) :=     -- (action, may create a thread)
    match c.api with
    | some ("put", pn, _) => if pn == p.name then .ok (.put, false) else .error "put on another pool inside this section"
    | some (op, pn, _) =>
      if pn != p.name then .error s!"{op} on another pool inside this section" else
      if t == p.owner then .ok (.submit, true) else
      match p.tw.lookup t with
      | some k => .ok (.submitc k, false)
      | none =>
        -- a thread that is neither the owner nor a worker of this pool (a worker of another pool, ...): only a continuation is valid use
        if op == "submitc" then .ok (.submitf, false) else .error s!"{op} by T{t}, which is not the owner"
    | none =>
      match p.tw.lookup t with
      | some k =>
        match (p.st.w k).pc with
        | .gotPre => .ok (.wEnter k, false)
        | .running _ => .ok (.wAfter k, false)
        | .toPre => .ok (.wTimeoutRun k, false)
        | pc => .error s!"worker T{t} took the pool lock while the model has it {pcName pc}"
      | none =>
        if t == p.owner then
          match p.st.owner with
          | .evPre => .ok (.oSteal, false)
          | .compl [] => .ok (.oFinish, false)
          | .tnPre => .ok (.oTnRun, true)
          | pc => .error s!"owner took the pool lock while the model has it {opcName pc}"
        else .error s!"T{t} took the lock of pool {p.name} but is neither its owner nor one of its workers"
  match choice with
  | .error e => diverge (putCtx s t { c with sect := none, posts := [], created := none, cdead := none, deferred := [] }) e
  | .ok (a, _) =>
    -- a submission numbers its item
    let p := match c.api with
      | some (op, _, x) => if op != "put" then { p with items := setAssoc p.items x p.st.ni } else p
      | none => p
    let s := match c.api with
      | some (op, _, x) => if op != "put" then { s with where_ := setAssoc s.where_ x p.name } else s
      | none => s
    match act s p a with
    | .error e => diverge (putCtx s t { c with sect := none, posts := [], created := none, cdead := none, deferred := [] }) e
    | .ok (s, p') =>
      -- a thread created in this section is the model's new worker
      let (p', msgs0) :=
        if p'.st.nw > p.st.nw then
          match c.created, c.cdead with
          | some tn, some dn => ({ p' with tw := p'.tw ++ [(tn, p.st.nw)], dw := p'.dw ++ [(dn, p.st.nw)] }, [])
          | _, _ => (p', ["the model starts a worker thread here, the implementation created none"])
        else if c.created.isSome then (p', ["the implementation created a thread here, the model starts none"]) else (p', [])
      let s := putPool s p'
      let msgs1 := compareSnap p' kv
      -- posts: every IPOST must be owed now (unless it was cancelled by unregistering in the same section: die);
      -- every flag newly set must have been posted (put on a pool without threads posts after the unlock)
      let msgs2 := (c.posts.map (·.1)).filterMap fun ev =>
        match owedFlag p' ev with
        | some true => none
        | some false =>
          if ev.startsWith "kick" then none else some s!"IPOST {ev} in this section, but the model does not have it owed afterwards"
        | none => if ev.startsWith "kick" then none else some s!"IPOST {ev}: unknown event"
      let newly := (owedNames p').filter fun n => !(owedBefore.contains n)
      let msgs3 := newly.filterMap fun n =>
        if (c.posts.map (·.1)).contains n then none
        else if a == .put && n.startsWith "ev:" then none
        else some s!"the model posts {n} in this action, the implementation did not"
      let s := putCtx s t { c with sect := none, posts := [], created := none, cdead := none, deferred := [] }
      let s := { s with snaps := s.snaps + 1 }
      let msgs := msgs0 ++ msgs1 ++ msgs2 ++ msgs3
      let (s, out) : S × List String :=
        if msgs.isEmpty then (s, [])
        else ({ s with diverged := s.diverged + 1 },
              [s!"DIVERGE line {s.line}: after {actName a} by T{t} on pool {p.name}: " ++ "; ".intercalate msgs])
      (s, out)

def lact (s : S) (t : Nat) (l : LocalRep) (a : LAct) (what : String) : Except String (S × LocalRep) :=
  match lstep l.st a with
  | some st' =>
    if st'.fatal then .error s!"NULL pool of T{t}: model reaches iv_fatal at {what}" else
    let l' := { l with st := st' }
    .ok ({ s with locals := setAssoc s.locals t l', actions := s.actions + 1, cov := bump s.cov ("local-" ++ what) }, l')
  | none => .error s!"NULL pool of T{t}: {what} is not enabled in the model (pending {l.st.pending}, batch {l.st.batch}, taskReg {l.st.taskReg}, inWork {l.st.inWork})"

def modeOf : String → ExitMode
  | "mode=pexit" => .pexit | "mode=nodeinit" => .retNoDeinit | "mode=pexit-nodeinit" => .pexitNoDeinit
  | "mode=noinit" => .noInit | _ => .ret

def finalChecks (s : S) : S × List String :=
  if s.inconclusive then (s, []) else
  let m1 := s.pools.filterMap fun p =>
    let en := enabledInternal p.st
    let tm := (List.range p.st.nw).filter fun k => (p.st.w k).timerReg
    if !en.isEmpty then some s!"pool {p.name}: the run is over but the model can still do {en.map actName}"
    else if !tm.isEmpty then some s!"pool {p.name}: the run is over but the model has idle timers registered for {tm.map (thrName p)}"
    else none
  let m2 := s.locals.filterMap fun (t, l) =>
    if l.st.taskReg || l.st.batch != [] then some s!"NULL pool of T{t}: the run is over but the model still has work (pending {l.st.pending}, batch {l.st.batch})" else none
  let m3 := s.thrs.filterMap fun (n, r) =>
    if r.st.pc != .joined && !(r.st.creatorGone && r.st.pc == .exited) then
      some s!"iv_thread dead:{n}: the run is over but the model has the thread neither joined nor (exited with its creator's loop gone)"
    else if r.st.frees != 1 then some s!"iv_thread dead:{n}: the run is over, the model has freed the record {r.st.frees} times"
    else none
  let msgs := m1 ++ m2 ++ m3
  ({ s with diverged := s.diverged + msgs.length }, msgs.map fun m => s!"DIVERGE line {s.line}: {m}")

partial def stepRec (s : S) (ws : List String) : S × List String :=
  match ws with
  | [] => (s, [])
  | tw :: rest =>
    match tnum tw with
    | none => (s, [])      -- HARNESS-ERROR etc.
    | some t =>
    let c := getCtx s t
    -- a thread created inside a critical section that is still open runs ahead of the creator's snapshot: the
    -- model learns about it when the section closes, so its records are replayed then
    match s.ctx.find? (fun (_, cx) => cx.sect.isSome && cx.created == some t) with
    | some (tp, cx) => (putCtx s tp { cx with deferred := cx.deferred ++ [ws] }, [])
    | none =>
    match rest with
    | "API" :: "poolcreate" :: pn :: mx :: hk :: _ =>
      let max := ((mx.splitOn "=").getD 1 "1").toNat?.getD 1
      ({ s with pools := s.pools ++ [{ name := pn, st := St.init max, owner := t, hooks := hk == "hooks=1" || hk == "hooks=start" || hk == "hooks=stop",
                                                  hookStart := hk == "hooks=1" || hk == "hooks=start", hookStop := hk == "hooks=1" || hk == "hooks=stop" }],
                actions := s.actions + 1, cov := bump s.cov "poolcreate" }, [])
    | ["API", "submit", "null", x] | ["API", "submitc", "null", x] =>
      let l := getLocal s t
      let l := { l with items := setAssoc l.items x l.st.n }
      let s := { s with where_ := setAssoc s.where_ x s!"null:{t}" }
      match lact s t l .submit "submit" with
      | .ok (s, _) => (s, [])
      | .error e => diverge s e
    | ["API", op, pn, x] =>
      if op == "submit" || op == "submitc" then (putCtx s t { c with api := some (op, pn, x) }, [])
      else (s, [])
    | ["API", "spawn", _, md, d] =>
      match deadNum d with
      | some n => (putCtx { s with thrs := s.thrs ++ [(n, { st := { mode := modeOf md }, creator := t })], actions := s.actions + 1,
                                   cov := bump s.cov ("spawn-" ++ md) } t { c with cdead := some n }, [])
      | none => (s, [s!"bad-log line {s.line}"])
    | ["API", "put", pn] => (putCtx s t { c with api := some ("put", pn, "") }, [])
    | ["API", "quit"] => ({ s with quit := s.quit ++ [t] }, [])
    | ["RET"] => (putCtx s t { c with api := none }, [])
    | ["RET", h] =>
      if h.startsWith "handle=" then
        let s := putCtx s t { c with api := none }
        match c.api with
        | some ("put", pn, _) =>
          match getPool s pn with
          | some p =>
            let ok := (h == "handle=0") == (p.st.handle == false) && p.st.handle == false
            let evok := p.st.started != 0 || p.st.evOwed || p.st.owner != .idle || p.st.freed
            if ok && evok then (s, []) else diverge s s!"after put on {pn}: implementation {h}, model handle={p.st.handle} evOwed={p.st.evOwed}"
          | none => (s, [])
        | _ => (s, [])
      else (putCtx s t { c with api := none }, [])
    | ["UNLOCK", m] =>
      if m.startsWith "evmu:" && c.sect.isSome then
        match c.posts.reverse with
        | (ev, false) :: more => (putCtx s t { c with posts := (( ev, true) :: more).reverse }, [])
        | _ => (s, [])
      else (s, [])
    | ["LOCK", m] =>
      if m.startsWith "poolmu:" then (putCtx s t { c with sect := some (m.drop 7).toString, posts := [], created := none, cdead := none }, [])
      else (s, [])
    | "SNAP" :: m :: fields =>
      if m.startsWith "poolmu:" then
        match getPool s (m.drop 7).toString with
        | some p =>
          let later := c.deferred
          let r := closeSection s t p (kvs fields)
          later.foldl (fun (acc : S × List String) (rec : List String) =>
            let (s', o) := stepRec acc.1 rec
            (s', acc.2 ++ o)) r
        | none => diverge s s!"snapshot of an unknown pool {m}"
      else (s, [])
    | ["THREAD-CREATE", tn] =>
      match tnum tn with
      | some n =>
        -- outside a pool section this is a `spawn`: the new thread belongs to the dead event just registered
        match c.sect, c.cdead with
        | none, some d =>
          match s.thrs.lookup d with
          | some r => (putCtx { s with thrs := setAssoc s.thrs d { r with thread := some n }, dbind := setAssoc s.dbind d n } t
                         { c with cdead := none }, [])
          | none => (putCtx s t { c with created := some n }, [])
        | _, _ => (putCtx s t { c with created := some n }, [])
      | none => (s, [])
    | ["THREAD-CREATE-FAILED", _] => ({ s with inconclusive := true }, ["NOTE thread creation failed: outside the model's assumptions"])
    | ["IREG", ev] =>
      match ev.splitOn ":" with
      | ["dead", n] => (putCtx s t { c with cdead := n.toNat? }, [])
      | ["kick", pn, _] =>
        match getPool s pn with
        | some p =>
          match p.tw.lookup t with
          | some k => simple s p (.wStart k)
          | none => diverge s s!"IREG {ev}: T{t} is not a worker the model knows"
        | none => diverge s s!"IREG {ev}: unknown pool"
      | _ => (s, [])
    | ["IPOST", ev] =>
      match ev.splitOn ":" with
      | ["dead", n] =>
        match n.toNat? with
        | none => (s, [])
        | some n =>
          match s.thrs.lookup n with
          | some r =>
            let (s', o) := tact s n r .destruct "destruct-post"
            match s'.thrs.lookup n with
            | some r' =>
              if r'.st.posts == r.st.posts + 1 then (s', o)
              else diverge s' s!"IPOST {ev}: the implementation posts `dead`, the model does not (the creator's loop is gone: orphaned={r.st.orphaned})"
            | none => (s', o)
          | none =>
            match s.pools.find? (fun p => (p.dw.lookup n).isSome) with
            | some p =>
              match p.dw.lookup n with
              | some k => if p.tw.lookup t == some k then simple s p (.wExit k) else diverge s s!"IPOST {ev} by T{t}, not the thread of that worker"
              | none => (s, [])
            | none => diverge s s!"IPOST {ev}: unknown thread"
      | _ =>
        if c.sect.isSome then (putCtx s t { c with posts := c.posts ++ [(ev, false)] }, [])
        else
          match poolOfEvent s ev with
          | none => diverge s s!"IPOST {ev}: unknown pool"
          | some p =>
            match ev.splitOn ":" with
            | ["kick", _, tn] =>
              match p.tw.lookup t with
              | some k =>
                if tnum tn == some t && (p.st.w k).pc == .selfkick then simple s p (.wSelfKick k)
                else diverge s s!"IPOST {ev} by T{t} outside a critical section"
              | none => diverge s s!"IPOST {ev} by T{t} outside a critical section"
            | ["ev", _] =>
              match c.api with
              | some ("put", _, _) => if p.st.evOwed || p.st.owner != .idle then (s, []) else diverge s s!"IPOST {ev} after put, model does not have it owed"
              | _ => diverge s s!"IPOST {ev} by T{t} outside a critical section"
            | _ => diverge s s!"IPOST {ev} by T{t} outside a critical section"
    | ["IUNREG", ev] =>
      -- the pool's events are unregistered when iv_work_event frees the pool: the model must have freed it in the
      -- critical section that just closed (oFinish)
      match ev.splitOn ":" with
      | ["tn", pn] =>
        match getPool s pn with
        | some p =>
          if p.st.freed then (s, [])
          else diverge s s!"IUNREG {ev}: the implementation frees pool {pn}, the model has not freed it (shut {p.st.shut}, started {p.st.started}, queue {p.st.queue.map (itemName p)}, done {p.st.done.map (itemName p)}, tnOwed {p.st.tnOwed})"
        | none => (s, [])
      | _ => (s, [])
    | ["ITREG", _, e, n] =>
      -- the idle timer must be 10 s from the worker's notion of now (which is not later than the clock)
      match (e.splitOn "=").getD 1 "" |>.toNat?, (n.splitOn "=").getD 1 "" |>.toNat? with
      | some ex, some now => if ex ≤ now + 10000000000 && now ≤ ex then (s, []) else diverge s s!"idle timer armed for {ex} at {now}: not a 10 s timeout"
      | _, _ => (s, [])
    | ["TSTART", d] =>
      match deadNum d with
      | some n =>
        let s := { s with dbind := setAssoc s.dbind n t }
        match s.thrs.lookup n with
        | some r => tact s n { r with thread := some t } .run "run"
        | none => (s, [])
      | none => (s, [])
    | ["DEINIT"] =>
      match s.thrs.find? (fun (_, r) => r.thread == some t) with
      | some (n, r) => tact s n r .deinit "deinit"
      | none => (s, [])
    | ["BODY", _, "end"] =>
      match s.thrs.find? (fun (_, r) => r.thread == some t) with
      | some (n, r) => tact s n r .leave "leave"
      | none => (s, [])
    | ["IH", ev, "begin"] =>
      -- (the record stands at the point where the event was taken off the pending list, see `relocate`.)  A post made
      -- inside a critical section that is still open and that landed before this point belongs to an action the model
      -- performs when that section closes: the invocation is replayed right after it (the handler cannot touch the
      -- pool before).  A post that lands after this point is a new delivery.
      let poster := s.ctx.find? fun (tp, cx) => tp != t && cx.sect.isSome && cx.posts.contains (ev, true)
      match poster with
      | some (tp, cx) => (putCtx s tp { cx with deferred := cx.deferred ++ [ws] }, [])
      | none => deliver s t ev
    | "IH" :: ev :: "end" :: _ =>
      match ev.splitOn ":" with
      | ["ev", pn] =>
        match getPool s pn with
        | some p =>
          match p.st.owner with
          | .compl [] =>
            if p.st.shut then diverge s s!"IH {ev} end: the model is shutting down, so the shutdown test must take the lock, the implementation did not"
            else simple s p .oFinish
          | .idle => (s, [])
          | pc => diverge s s!"IH {ev} end while the model has the owner {opcName pc}"
        | none => (s, [])
      | ["tn", pn] =>
        match getPool s pn with
        | some p => if p.st.owner == .idle then (s, []) else diverge s s!"IH {ev} end while the model has the owner {opcName p.st.owner}"
        | none => (s, [])
      | ["kick", pn, _] | ["idle", pn, _] =>
        match getPool s pn with
        | some p =>
          match p.tw.lookup t with
          | some k =>
            match (p.st.w k).pc with
            | .parked | .dying => (s, [])
            | pc => diverge s s!"IH {ev} end while the model has the worker {pcName pc}"
          | none => (s, [])
        | none => (s, [])
      | _ => (s, [])
    | ["HOOK", "start", pn] =>
      match getPool s pn with
      | some p =>
        match p.tw.lookup t with
        | some k =>
          let p' := { p with hstart := bumpN p.hstart k }
          if (p.st.w k).pc == .selfkick && (p.st.w k).starts == 1 then (putPool s p', [])
          else diverge (putPool s p') s!"HOOK start in T{t} while the model has the worker {pcName (p.st.w k).pc}"
        | none => diverge s s!"HOOK start in T{t}, not a worker"
      | none => (s, [])
    | ["HOOK", "stop", pn] =>
      match getPool s pn with
      | some p =>
        match p.tw.lookup t with
        | some k => (putPool s { p with hstop := bumpN p.hstop k }, [])
        | none => diverge s s!"HOOK stop in T{t}, not a worker"
      | none => (s, [])
    | "WORK" :: x :: "begin" :: pl :: _ =>
      if pl == "pool=null" then
        let l := getLocal s t
        match l.items.lookup x with
        | none => diverge s s!"WORK {x} in T{t}: not submitted to the NULL pool of this thread"
        | some i =>
          let r := if l.st.batch == [] then lact s t l .task "task" else .ok (s, l)
          match r with
          | .error e => diverge s e
          | .ok (s, l) =>
            if l.st.batch.head? != some i then diverge s s!"WORK {x} in T{t}: the model's next local item is {l.st.batch.head?}"
            else match lact s t l .work "work" with
              | .ok (s, _) => (s, [])
              | .error e => diverge s e
      else
        match getPool s (pl.drop 5).toString with
        | some p =>
          match p.tw.lookup t, p.items.lookup x with
          | some k, some i =>
            if (p.st.w k).pc == .running i then ({ s with cov := bump s.cov "work-begin" }, [])
            else diverge s s!"WORK {x} begins in T{t} while the model has that worker {pcName (p.st.w k).pc} (item {x} is #{i})"
          | _, _ => diverge s s!"WORK {x} begins in T{t}: not a worker of {p.name} / unknown item"
        | none => diverge s s!"WORK {x}: unknown pool {pl}"
    | ["CB", xd, ow] =>
      match xd.splitOn "." with
      | [x, "done"] =>
        match s.where_.lookup x with
        | none => diverge s s!"completion of {x}, which the model never saw submitted"
        | some wh =>
          if wh.startsWith "null:" then
            let l := getLocal s t
            if wh != s!"null:{t}" then diverge s s!"completion of {x} ran in T{t}, it was submitted to the NULL pool in {wh}" else
            match l.items.lookup x with
            | some i =>
              if l.st.batch.head? != some i then diverge s s!"completion of {x} in T{t}: the model's current local item is {l.st.batch.head?}"
              else match lact s t l .complete "complete" with
                | .ok (s, _) => (s, [])
                | .error e => diverge s e
            | none => diverge s s!"completion of {x}: unknown local item"
          else
            match getPool s wh with
            | some p =>
              if t != p.owner || ow != s!"owner=T{p.owner}" then diverge s s!"completion of {x} ran in T{t} ({ow}), the pool owner is T{p.owner}" else
              match p.st.owner, p.items.lookup x with
              | .compl (i :: _), some j =>
                if i == j then simple s p .oComplete else diverge s s!"completion of {x} (#{j}) but the model's next completion is #{i}"
              | pc, _ => diverge s s!"completion of {x} while the model has the owner {opcName pc}"
            | none => diverge s s!"completion of {x}: unknown pool {wh}"
      | _ => (s, [])
    | ["THREAD-DETACH", tn] =>
      -- iv_thread_tls_deinit_thread of the creator handles this child (under iv_thread_lock)
      match tnum tn with
      | some k =>
        match s.thrs.find? (fun (_, r) => r.thread == some k && r.creator == t) with
        | some (n, r) => tact s n r .creatorDeinit "creatorDeinit"
        | none => (s, [])
      | none => (s, [])
    | ["THREAD-EXIT"] =>
      -- a spawned thread that ends without having posted `dead`: the orphaned branch of its destructor
      match s.thrs.find? (fun (_, r) => r.thread == some t) with
      | some (n, r) =>
        if r.st.pc == .exiting then
          let (s', o) := tact s n r .destruct "destruct-orphan"
          match s'.thrs.lookup n with
          | some r' =>
            if r'.st.posts == r.st.posts then (s', o)
            else diverge s' s!"thread T{t} (dead:{n}) exited without posting `dead`, the model posts it (creator's loop alive)"
          | none => (s', o)
        else (s, [])
      | none => (s, [])
    | ["THREAD-JOIN", tn] =>
      -- must be the thread bound to the dead event whose handler is running: checked through dbind by the oracle; here only count
      match tnum tn with
      | some _ => ({ s with cov := bump s.cov "join" }, [])
      | none => (s, [])
    | ["MAINRET"] =>
      if s.quit.contains t then (s, []) else
      let bad := s.pools.filter fun p => p.owner == t && poolObjs p.st != 0
      let badt := s.thrs.filter fun (_, r) => r.creator == t && r.st.deadReg
      if bad.isEmpty && badt.isEmpty then ({ s with cov := bump s.cov "mainret" }, [])
      else diverge s s!"iv_main returned in T{t} while the model still has loop objects registered there: pools {bad.map (·.name)} threads {badt.map (·.1)}"
    | "FATAL" :: _ => ({ s with inconclusive := true }, [])
    | ["WAITLIMIT"] | ["CBLIMIT"] | ["STEPLIMIT"] => ({ s with inconclusive := true }, [])
    | "HARNESS-ERROR" :: _ => ({ s with inconclusive := true }, [])
    | ["FIN"] => finalChecks s
    | _ => (s, [])
where
  poolObjs (st : St) : Nat := (if st.freed then 0 else 2) + ((List.range st.nw).filter fun k => (st.w k).deadReg).length

def step (s : S) (ws : List String) : S × List String :=
  stepRec { s with line := s.line + 1 } ws

partial def readAll (h : IO.FS.Stream) (acc : Array (List String)) : IO (Array (List String)) := do
  let line ← h.getLine
  if line.isEmpty then return acc
  let ws := words line
  readAll h (if ws.isEmpty then acc else acc.push ws)

/-- `IH <event> begin` is printed when the handler starts; the event left the pending list (so that a new post is a
new delivery) in the owner's preceding critical section on its own event list, and the owner does nothing in
between.  Move each such record up to just after that `UNLOCK evmu:T<self>` of the same thread. -/
def relocate (ls : Array (List String)) : Array (List String) := Id.run do
  let mut lastOwn : List (String × Nat) := []       -- thread → index of its last own-evmu unlock, still "fresh"
  let mut target : Array (Option Nat) := Array.replicate ls.size none   -- for IH-begin lines: where to put them
  for i in [0:ls.size] do
    match ls[i]! with
    | [t, "UNLOCK", m] => if m == s!"evmu:{t}" then lastOwn := setAssoc lastOwn t i else lastOwn := lastOwn.filter (·.1 != t)
    | [t, "IH", _, "begin"] =>
      match lastOwn.lookup t with
      | some j => target := target.set! i (some j); lastOwn := lastOwn.filter (·.1 != t)
      | none => pure ()
    | t :: _ => lastOwn := lastOwn.filter (·.1 != t)       -- any other record of the thread: no longer adjacent
    | [] => pure ()
  let mut after : Array (List (List String)) := Array.replicate ls.size []
  for i in [0:ls.size] do
    match target[i]! with
    | some j => after := after.set! j (after[j]! ++ [ls[i]!])
    | none => pure ()
  let mut out : Array (List String) := #[]
  for i in [0:ls.size] do
    if target[i]!.isNone then
      out := out.push ls[i]!
      for l in after[i]! do out := out.push l
  return out

def run : IO Unit := do
  let out ← IO.getStdout
  let ls := relocate (← readAll (← IO.getStdin) #[])
  let mut s : S := {}
  for ws in ls do
    let (s', outs) := step s ws
    for o in outs do out.putStrLn o
    s := s'
  -- hook pairing per worker against the model's ghost counters
  for p in s.pools do
    if p.hooks && !s.inconclusive then
      for k in List.range p.st.nw do
        let a := (p.hstart.lookup k).getD 0
        let b := (p.hstop.lookup k).getD 0
        if (p.hookStart && a != (p.st.w k).starts) || (!p.hookStart && a != 0) || (p.hookStop && b != (p.st.w k).stops) || (!p.hookStop && b != 0) then
          out.putStrLn s!"DIVERGE end: pool {p.name} worker {thrName p k}: HOOK start/stop {a}/{b}, model {(p.st.w k).starts}/{(p.st.w k).stops}"
  out.putStrLn s!"SUMMARY actions {s.actions} snapshots {s.snaps} diverged {s.diverged} pools {s.pools.length} conclusive {!s.inconclusive}"
  for (k, n) in s.cov do
    out.putStrLn s!"COV {k} {n}"

end Ivy.Drv.Work
