import Ivy.L3.Inotify
import Ivy.Drv.Util
/-! T-replay driver for iv_inotify.c: reads the log written by /verif/harness/inotify_h.c, turns the
API calls, read results and handler returns into model inputs and compares every call the code
made (`OUT`), every return value, every handler invocation (`CB`: watch, byte offset, record,
membership of the watch in the tree at handler entry) and every end of walk (`END`) with the
model's prediction. -/
namespace Ivy.Drv.Inotify
open Ivy.Inotify

structure S where
  st : St := St.init
  pend : List String := []          -- the opening line of the API call being logged
  outs : Array Out := #[]           -- calls made by the code since then
  expect : List Out := []           -- predicted, not yet seen in the log (handler call / end of walk)
  evInst : Nat := 0
  eintr : Nat := 0
  needRecs : Nat := 0
  dataLen : Nat := 0
  recs : Array Rec := #[]
  offs : Array Nat := #[]
  inWalk : Bool := false
  dead : Bool := false              -- after the first divergence nothing more is compared
  line : Nat := 0
  steps : Nat := 0
  diverged : Nat := 0
  cov : List (String × Nat) := []

def bump (c : List (String × Nat)) (k : String) : List (String × Nat) :=
  match c.find? (·.1 == k) with
  | some _ => c.map fun (a, n) => if a == k then (a, n + 1) else (a, n)
  | none => c ++ [(k, 1)]

def showOut : Out → String
  | .init => "init"
  | .addWatch fd m => s!"addwatch({fd},{m})"
  | .rmWatch fd wd => s!"rmwatch({fd},{wd})"
  | .close fd => s!"close({fd})"
  | .read fd => s!"read({fd})"
  | .ret r => s!"ret({r})"
  | .call w off r b => s!"call(w={w},off={off},wd={r.wd},mask={r.mask},cookie={r.cookie},len={r.len},intree={b})"
  | .walkEnd => "end-of-walk"

def showOuts (l : List Out) : String := "[" ++ ", ".intercalate (l.map showOut) ++ "]"

def diverge (s : S) (msg : String) : S × List String :=
  ({ s with diverged := s.diverged + 1, dead := true }, [s!"DIVERGE line {s.line}: {msg}"])

def inKind : In → String
  | .instRegister .. => "instRegister" | .instUnregister .. => "instUnregister" | .watchRegister .. => "watchRegister"
  | .watchUnregister .. => "watchUnregister" | .watchFree .. => "watchFree" | .gotEvent .. => "gotEvent" | .handlerEnd => "handlerEnd"

/-- feed one input; `seen` = what the code was observed to do, compared with the model's outputs up to
the trailing handler call / end of walk, which is kept in `expect` for the next `CB`/`END` line -/
def feed (s : S) (a : In) (seen : List Out) (walkStep : Bool) : S × List String :=
  let ctx := if s.st.walk.isSome then "in-handler" else "top"
  let s := { s with steps := s.steps + 1, cov := bump s.cov s!"{inKind a}@{ctx}" }
  match step s.st a with
  | .ok st' o =>
    let (now, later) := if walkStep then (o.dropLast, o.drop (o.length - 1)) else (o, [])
    let cov := match later with
      | [.call _ _ r b] => bump (bump s.cov "call") (if b then "call-kept" else if r.mask &&& IN_IGNORED != 0 then "call-dropped-ignored" else "call-dropped-oneshot")
      | [.walkEnd] => bump s.cov (if (match s.st.walk with | some wk => wk.this.isNone | none => false) then "end-after-instance-unregister" else "end")
      | _ => s.cov
    let cov := match a, o with
      | .watchRegister .., [_, .ret r] => bump cov (if r == 0 then "watchRegister-ok" else "watchRegister-fail")
      | _, _ => cov
    let s := { s with st := st', expect := later, cov := cov, pend := [], outs := #[] }
    if now == seen then (s, [])
    else diverge s s!"{inKind a}: implementation did {showOuts seen}, model predicts {showOuts now}"
  | .fault why => diverge s s!"{inKind a}: model reports FAULT ({why}) where the implementation went on"
  | .fatal => diverge s s!"{inKind a}: model reports iv_fatal"
  | .reject => diverge s s!"{inKind a}: not an execution of the model in this state (harness made an impossible call)"

def nat? (x : String) : Option Nat := x.toNat?
def int? (x : String) : Option Int := x.toInt?

def step' (s : S) (ws : List String) : S × List String :=
  let s := { s with line := s.line + 1 }
  if s.dead then (s, []) else
  let bad : S × List String := (s, [s!"bad-log line {s.line}: {ws}"])
  match ws with
  | ["CONST", a, b, c] =>
    if nat? a == some EVSZ && nat? b == some IN_IGNORED && nat? c == some IN_ONESHOT then (s, [])
    else diverge s s!"constants of the build ({a},{b},{c}) differ from the model's ({EVSZ},{IN_IGNORED},{IN_ONESHOT})"
  | "SKIP" :: _ => (s, [])
  | "FS" :: _ => (s, [])
  | "KERNEL" :: "ok" :: _ => ({ s with cov := bump s.cov "real-kernel-read" }, [])
  | "KERNEL" :: "skip" :: _ => (s, [])
  | "KERNEL" :: _ => diverge s "the kernel's buffer does not have the layout the model assumes" 
  | ["FIN"] => (s, [])
  | "BADFD" :: _ => diverge s "read on a descriptor that is not the instance's"
  | ["IREG", _, _] | ["WREG", _, _, _] | ["WUNREG", _] | ["IUNREG", _] =>
    if !s.expect.isEmpty then diverge s s!"model predicts {showOuts s.expect} first" else
    ({ s with pend := ws, outs := #[] }, [])
  | ["EVENT", i] =>
    if !s.expect.isEmpty then diverge s s!"model predicts {showOuts s.expect} first" else
    match nat? i with
    | some i => ({ s with pend := ws, outs := #[], evInst := i, eintr := 0, recs := #[], offs := #[] }, [])
    | none => bad
  | ["OUT", "init"] => ({ s with outs := s.outs.push .init }, [])
  | ["OUT", "addwatch", fd, m] =>
    match int? fd, nat? m with
    | some fd, some m => ({ s with outs := s.outs.push (.addWatch fd m) }, [])
    | _, _ => bad
  | ["OUT", "rmwatch", fd, wd] =>
    match int? fd, int? wd with
    | some fd, some wd => ({ s with outs := s.outs.push (.rmWatch fd wd) }, [])
    | _, _ => bad
  | ["OUT", "close", fd] =>
    match int? fd with
    | some fd => ({ s with outs := s.outs.push (.close fd) }, [])
    | none => bad
  | ["OUT", "read", fd, _] =>
    match int? fd with
    | some fd => ({ s with outs := s.outs.push (.read fd) }, [])
    | none => bad
  | ["IRET", fd, r] =>
    match s.pend, int? fd, int? r with
    | ["IREG", i, _], some fd, some r =>
      match nat? i with
      | some i => feed s (.instRegister i fd) (s.outs.toList ++ [.ret r]) false
      | none => bad
    | _, _, _ => bad
  | ["WRET", wd, r] =>
    match s.pend, int? wd, int? r with
    | ["WREG", w, i, m], some wd, some r =>
      match nat? w, nat? i, nat? m with
      | some w, some i, some m => feed s (.watchRegister w i m wd) (s.outs.toList ++ [.ret r]) false
      | _, _, _ => bad
    | _, _, _ => bad
  | ["WURET"] =>
    match s.pend with
    | ["WUNREG", w] =>
      match nat? w with
      | some w => feed s (.watchUnregister w) s.outs.toList false
      | none => bad
    | _ => bad
  | ["IURET"] =>
    match s.pend with
    | ["IUNREG", i] =>
      match nat? i with
      | some i => feed s (.instUnregister i) s.outs.toList false
      | none => bad
    | _ => bad
  | ["WFREE", w] =>
    if !s.expect.isEmpty then diverge s s!"model predicts {showOuts s.expect} first" else
    match nat? w with
    | some w => feed s (.watchFree w) [] false
    | none => bad
  | ["READ", "eintr"] => ({ s with eintr := s.eintr + 1 }, [])
  | ["READ", "eagain"] => feed s (.gotEvent s.evInst s.eintr .eagain) s.outs.toList true
  | ["READ", "data", n, k] =>
    match nat? n, nat? k with
    | some n, some k =>
      if k == 0 then diverge s "a read with data but no record" else
      ({ s with dataLen := n, needRecs := k, recs := #[], offs := #[] }, [])
    | _, _ => bad
  | ["REC", off, wd, m, c, l] =>
    match nat? off, int? wd, nat? m, nat? c, nat? l with
    | some off, some wd, some m, some c, some l =>
      let s := { s with recs := s.recs.push { wd, mask := m, cookie := c, len := l }, offs := s.offs.push off, needRecs := s.needRecs - 1 }
      if s.needRecs != 0 then (s, []) else
      let recs := s.recs.toList
      -- the kernel layout the model assumes must be the layout the harness built
      if (layout 0 recs).map (·.1) != s.offs.toList || size recs != s.dataLen then
        diverge s s!"record offsets {s.offs.toList} / length {s.dataLen} differ from the model's layout {(layout 0 recs).map (·.1)} / {size recs}"
      else
        let s := { s with cov := bump (bump s.cov s!"records-{min recs.length 13}") (if recs.any (·.len != 0) then "read-with-names" else "read-without-names") }
        feed s (.gotEvent s.evInst s.eintr (.data recs)) s.outs.toList true
    | _, _, _, _, _ => bad
  | "CB" :: w :: off :: rest =>
    match s.expect, nat? w, nat? off, rest with
    | [.call w' off' r b], some w, some off, [wd, m, c, l, it, nameok] =>
      match int? wd, nat? m, nat? c, nat? l with
      | some wd, some m, some c, some l =>
        let r' : Rec := { wd, mask := m, cookie := c, len := l }
        if w == w' && off == off' && r == r' && it == (if b then "1" else "0") && nameok == "ok" then ({ s with expect := [] }, [])
        else diverge s s!"handler invocation w={w} off={off} wd={wd} mask={m} cookie={c} len={l} intree={it} name={nameok}; model predicts {showOut (.call w' off' r b)}"
      | _, _, _, _ => bad
    | e, _, _, _ => diverge s s!"handler invocation {ws}; model predicts {showOuts e}"
  | ["HEND"] =>
    if !s.expect.isEmpty then diverge s s!"handler returned; model still predicts {showOuts s.expect}" else
    feed s .handlerEnd [] true
  | ["END"] =>
    match s.expect with
    | [.walkEnd] => ({ s with expect := [] }, [])
    | e => diverge s s!"iv_inotify_got_event returned; model predicts {showOuts e}"
  | _ => bad

def run : IO Unit := do
  let out ← IO.getStdout
  let s ← loopLines (← IO.getStdin) out ({} : S) step'
  out.putStrLn s!"SUMMARY steps {s.steps} diverged {s.diverged}"
  for (k, n) in s.cov do
    out.putStrLn s!"COV {k} {n}"

end Ivy.Drv.Inotify
