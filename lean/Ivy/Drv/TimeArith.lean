import Ivy.L0.TimeArith
import Ivy.Drv.Util
/-!
Driver for the T-diff of the loop's time arithmetic (`timespec_gt`, `to_relative`, `to_msec` of
`/repo/src/iv_private.h`, the clock cache and the expiry test of `/repo/src/iv_timer.c`, the timerfd
value of `/repo/src/iv_fd_epoll.c`) against the model `Ivy/L0/TimeArith.lean`.  Same op lines and
result lines as `/verif/harness/timearith_h.c` (see there for the protocol).

Numbers: an optional `-` and 1..19 decimal digits; a seconds field must satisfy `|v| < 2^62`, a
nanoseconds field `|v| ≤ 2·10^9` (non-normalised values are allowed: the model is the C statements,
not their specification); anything else is `bad-op`.
No proofs depend on this file.
-/
namespace Ivy.Drv.TimeArith
open Ivy.TimeArith

def parseInt (s : String) : Option Int :=
  let (neg, ds) := match s.toList with
    | '-' :: r => (true, r)
    | r => (false, r)
  if ds.isEmpty || ds.length > 19 || !ds.all Char.isDigit then none else
  let n : Nat := ds.foldl (fun a c => a * 10 + (c.toNat - '0'.toNat)) 0
  some (if neg then -(n : Int) else (n : Int))

def parseSec (s : String) : Option Int :=
  match parseInt s with
  | some v => if -4611686018427387904 < v ∧ v < 4611686018427387904 then some v else none
  | none => none

def parseNsec (s : String) : Option Int :=
  match parseInt s with
  | some v => if -2000000000 ≤ v ∧ v ≤ 2000000000 then some v else none
  | none => none

def parseTs (s ns : String) : Option Ts :=
  match parseSec s, parseNsec ns with
  | some a, some b => some ⟨a, b⟩
  | _, _ => none

/-- `s ns` or `none` -/
def parseOptTs : List String → Option (Option Ts)
  | ["none"] => some none
  | [s, ns] => (parseTs s ns).map some
  | _ => none

structure S where
  clock : Clock := {}
  next : Ts := ⟨0, 0⟩

def b01 (b : Bool) : String := if b then "1" else "0"

def cacheTail (c : Clock) : String := s!"valid={b01 c.timeValid} t={c.time.sec} {c.time.nsec}"

def step (s : S) (ws : List String) : S × List String :=
  let src : Nat → Ts := fun _ => s.next
  let rd (c' : Clock) : String := s!"read={c'.reads - s.clock.reads}"
  match ws with
  | ["gt", as, ans, bs, bns] =>
    match parseTs as ans, parseTs bs bns with
    | some a, some b => (s, [s!"GT {b01 (tsGt a b)}"])
    | _, _ => (s, ["bad-op"])
  | ["due", ns, nns, es, ens] =>
    match parseTs ns nns, parseTs es ens with
    | some n, some e => (s, [s!"DUE {b01 (due n e)}"])
    | _, _ => (s, ["bad-op"])
  | ["rel", ns, nns, as, ans] =>
    match parseTs ns nns, parseTs as ans with
    | some n, some a => let r := toRelative n a; (s, [s!"REL {r.sec} {r.nsec}"])
    | _, _ => (s, ["bad-op"])
  | "msec" :: ns :: nns :: rest =>
    match parseTs ns nns, parseOptTs rest with
    | some n, some a => (s, [s!"MSEC {toMsec n a}"])
    | _, _ => (s, ["bad-op"])
  | ["arm", as, ans] =>
    match parseTs as ans with
    | some a => let r := armValue a; (s, [s!"ARM {r.sec} {r.nsec}"])
    | none => (s, ["bad-op"])
  | ["clear"] => (s, [s!"CLEAR {clearValue.sec} {clearValue.nsec}"])
  | ["clock", cs, cns] =>
    match parseTs cs cns with
    | some t => ({ s with next := t }, ["CLOCK"])
    | none => (s, ["bad-op"])
  | ["inval"] =>
    let c := invalidate s.clock
    ({ s with clock := c }, [s!"INVAL {cacheTail c}"])
  | ["valid"] =>
    let c := validate src s.clock
    ({ s with clock := c }, [s!"VALID {rd c} {cacheTail c}"])
  | ["now"] =>
    let c := validate src s.clock
    ({ s with clock := c }, [s!"NOW {rd c} {cacheTail c}"])
  | "relc" :: rest =>
    match parseOptTs rest with
    | some a =>
      let (c, r) := toRelativeC src s.clock a
      let v := match r with
        | none => "null"
        | some t => s!"{t.sec} {t.nsec}"
      ({ s with clock := c }, [s!"RELC {rd c} {cacheTail c} rel={v}"])
    | none => (s, ["bad-op"])
  | "msecc" :: rest =>
    match parseOptTs rest with
    | some a =>
      let (c, m) := toMsecC src s.clock (match a with | none => getSoonest 0 ⟨0, 0⟩ | some t => getSoonest 1 t)
      ({ s with clock := c }, [s!"MSECC {rd c} {cacheTail c} ms={m}"])
    | none => (s, ["bad-op"])
  | "runc" :: rest =>
    match parseOptTs rest with
    | some h =>
      let (c, d) := runTimersC src s.clock h
      ({ s with clock := c }, [s!"RUNC {rd c} {cacheTail c} due={b01 d}"])
    | none => (s, ["bad-op"])
  | _ => (s, ["bad-op"])

def run : IO Unit := do
  let _ ← loopLines (← IO.getStdin) (← IO.getStdout) ({} : S) step

end Ivy.Drv.TimeArith
