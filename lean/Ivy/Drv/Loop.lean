import Ivy.L1.Exec
import Ivy.Mon.C01
import Ivy.Mon.C02
import Ivy.Mon.C03
import Ivy.Mon.C04
import Ivy.Mon.C06
import Ivy.Mon.C07
import Ivy.Mon.C08
import Ivy.L1.Progress
import Ivy.Drv.Util
import Ivy.Mon.TmoContract
/-! T-replay driver for the loop: reads the log of /verif/harness/loop_h.c, feeds the environment
records to the L1 machine and compares the library records with the machine's outputs. -/
namespace Ivy.Drv.Loop
open Ivy.L1
open Ivy.Heap (TS)

structure S where
  m : Option St := none
  expected : List Out := []      -- outputs the model has produced and the log has not shown yet
  pendingApi : Option (List String) := none
  line : Nat := 0
  agree : Nat := 0
  diverged : Nat := 0
  cov : List (String × Nat) := []
  stop : Bool := false
  evs : Array Ev := #[]          -- the implementation's records of the current execution, for the monitors
  monBad : List (String × String) := []   -- monitor rejections of earlier executions in the same log (before a `cycle`)
  evPending : Option (List String) := none
  evStop : Bool := false

def bump (c : List (String × Nat)) (k : String) : List (String × Nat) :=
  match c.find? (·.1 == k) with
  | some _ => c.map fun (a, n) => if a == k then (a, n + 1) else (a, n)
  | none => c ++ [(k, 1)]

def objNum (s : String) : Option Nat := (s.drop 1).toString.toNat?

def nameOfFd (f : FdId) : String :=
  match fdRaw? f with
  | some r => s!"r{r}"
  | none => s!"f{f}"

def fdOfName (s : String) : Option FdId :=
  if s.startsWith "f" then objNum s
  else if s.startsWith "r" then (objNum s).map rawFd
  else none

def blockName : Block → String
  | .mainTop _ => "mainTop" | .collect => "collect" | .popTimer => "popTimer" | .startTasks => "startTasks"
  | .popTask => "popTask" | .runEvents => "runEvents" | .popEvent => "popEvent" | .resume => "resume"
  | .exitCheck => "exitCheck" | .prepWait => "prepWait" | .flush _ _ => "flush" | .wait _ _ => "wait"
  | .dispatchNext => "dispatchNext" | .fdStage => "fdStage"

/-- run internal steps until the machine needs an input (bounded, as a runaway guard) -/
def settle (m : St) (outs : List Out) (cov : List (String × Nat)) (fuel : Nat) : St × List Out × List (String × Nat) :=
  match fuel with
  | 0 => (m, outs, cov)
  | fuel + 1 =>
    match m.pc with
    | .run b =>
      let (m', o) := internal m b
      settle m' (outs ++ o) (bump cov (blockName b)) fuel
    | _ => (m, outs, cov)

def fmtBandsEpoll (b : Bands) : String := (if b.i then "i" else "") ++ (if b.o then "o" else "")
def fmtBandsPoll (b : Bands) : String :=
  (if b.i then "i" else "") ++ (if b.o then "o" else "") ++ (if b.i || b.o || b.e then "h" else "")

def fmtOut (m : St) : Out → String
  | .cb (.timer t) => s!"CB t{t}"
  | .cb (.task k) => s!"CB k{k}"
  | .cb (.fd f b) => s!"CB {nameOfFd f} " ++ (match b with | 0 => "err" | 1 => "in" | _ => "out")
  | .cb (.event e) => s!"CB e{e}"
  | .cb (.raw r) => s!"CB r{r}"
  | .ret v => s!"RET {v}"
  | .wait prim to interest ktimer kick =>
    let tos := match to with | .inf => "inf" | .ns v => s!"{v}ns" | .ms v => s!"{v}ms"
    let isEpoll := prim.startsWith "epoll"
    let ints := ",".intercalate (interest.map fun (f, b) => nameOfFd f ++ ":" ++ (if isEpoll then fmtBandsEpoll b else fmtBandsPoll b))
    let kt := match ktimer with
      | none => "none"
      | some none => "off"
      | some (some v) => toString (TS.toNs v)
    let kk := match kick with | none => "none" | some true => "armed" | some false => "idle"
    let _ := m
    s!"WAIT prim={prim} to={tos} int={ints} ktimer={kt} kick={kk}"
  | .mainRet => "MAINRET"
  | .fatal _ => "FATAL"
  | .fault msg => s!"FAULT {msg}"

def parseBool (s : String) : Bool := s == "1"

def parseApi (ws : List String) (okFlag : Bool) : Option Api :=
  match ws with
  | ["fdRegister", f, a, b, c] => (objNum f).map fun f => Api.fdRegister f (parseBool a) (parseBool b) (parseBool c)
  | ["fdRegisterTry", f, a, b, c] => (objNum f).map fun f => Api.fdRegisterTry f (parseBool a) (parseBool b) (parseBool c) okFlag
  | ["fdUnregister", f] => (objNum f).map Api.fdUnregister
  | ["fdSetIn", f, v] => (objNum f).map fun f => Api.fdSetIn f (parseBool v)
  | ["fdSetOut", f, v] => (objNum f).map fun f => Api.fdSetOut f (parseBool v)
  | ["fdSetErr", f, v] => (objNum f).map fun f => Api.fdSetErr f (parseBool v)
  | ["timerRegister", t, sec, nsec] =>
    match objNum t, sec.toInt?, nsec.toInt? with
    | some t, some sec, some nsec => some (Api.timerRegister t ⟨sec, nsec⟩)
    | _, _, _ => none
  | ["timerUnregister", t] => (objNum t).map Api.timerUnregister
  | ["taskRegister", k] => (objNum k).map Api.taskRegister
  | ["taskUnregister", k] => (objNum k).map Api.taskUnregister
  | ["evRegister", e] => (objNum e).map fun e => Api.evRegister e okFlag
  | ["evUnregister", e] => (objNum e).map Api.evUnregister
  | ["evPost", e] => (objNum e).map Api.evPost
  | ["rawRegister", r] => (objNum r).map fun r => Api.rawRegister r okFlag
  | ["rawUnregister", r] => (objNum r).map Api.rawUnregister
  | ["quit"] => some Api.quit
  | ["invalidateNow"] => some Api.invalidateNow
  | ["validateNow"] => some Api.validateNow
  | ["main"] => some Api.main
  | _ => none

def deferred (name : String) : Bool :=
  ["fdRegister", "fdRegisterTry", "fdUnregister", "fdSetIn", "fdSetOut", "fdSetErr", "timerRegister", "timerUnregister",
   "taskRegister", "taskUnregister", "evRegister", "evUnregister", "rawRegister"].contains name

def parseKEv (s : String) : KEv :=
  { kin := s.contains 'i', kout := s.contains 'o', kerr := s.contains 'e', khup := s.contains 'h' }

def parseWItem (s : String) : Option WItem :=
  if s == "KICK" then some .kick
  else if s == "KTIMER" then some .ktimer
  else
    match s.splitOn ":" with
    | [nm, ev] => (fdOfName nm).map fun f => WItem.fd f (parseKEv ev)
    | _ => none

def kindOf (s : String) : Option (Nat × Nat) :=
  let k := if s.startsWith "f" then some 0 else if s.startsWith "t" then some 1 else if s.startsWith "k" then some 2
           else if s.startsWith "e" then some 3 else if s.startsWith "r" then some 4 else none
  match k, objNum s with
  | some k, some n => some (k, n)
  | _, _ => none

def diverge (s : S) (msg : String) : S × List String :=
  ({ s with diverged := s.diverged + 1, stop := true }, [s!"DIVERGE line {s.line}: {msg}"])

/-- feed an input to the machine, then settle -/
def feed (s : S) (m : St) (i : Input) (what : String) : S × List String :=
  let envMsg := if envOk m i then [] else [s!"ENVBAD line {s.line}: input '{what}' is outside the assumed environment contract (envOk)"]
  let (s', o) := feedCore s m i what
  (s', envMsg ++ o)
where feedCore (s : S) (m : St) (i : Input) (what : String) : S × List String :=
  match input m i with
  | none => diverge s s!"the model does not accept input '{what}' in its current state (pc={repr m.pc})"
  | some (m', outs) =>
    let (m'', outs', cov) := settle m' outs s.cov 10000
    ({ s with m := some m'', expected := s.expected ++ outs', cov := cov }, [])

/-- a library record appeared in the log: it must be the next predicted output -/
def expect (s : S) (m : St) (rec : String) : S × List String :=
  match s.expected with
  | [] => diverge s s!"implementation did '{rec}' but the model predicts no output here (pc={repr m.pc})"
  | o :: rest =>
    let p := fmtOut m o
    if p == rec then ({ s with expected := rest, agree := s.agree + 1 }, [])
    else diverge s s!"implementation did '{rec}' but the model predicts '{p}'"

def stripGt (ws : List String) : String :=
  " ".intercalate (ws.filter fun w => !(w.startsWith "gt="))

def initFromCfg (rest : List String) : Option St :=
  let get (k : String) : String := (rest.find? (·.startsWith (k ++ "="))).map (fun w => (w.drop (k.length + 1)).toString) |>.getD ""
  let meth := match get "method" with
    | "epoll-timerfd" => some Method.epollTimerfd | "epoll" => some Method.epoll
    | "ppoll" => some Method.ppoll | "poll" => some Method.poll | _ => none
  meth.map fun meth => St.init meth 1024 (get "timerfd" == "1") true

def step (s : S) (ws : List String) : S × List String :=
  let s := { s with line := s.line + 1 }
  if s.stop then (s, []) else
  match s.m, ws with
  | none, "CFG" :: rest =>
    match initFromCfg rest with
    | some m => ({ s with m := some m }, [])
    | none => diverge s "unknown poll method"
  | none, _ => diverge s "log does not start with CFG"
  | some m, "API" :: name :: args =>
    if deferred name then ({ s with pendingApi := some (name :: args) }, [])
    else
      match parseApi (name :: args) true with
      | some a => feed s m (.api a) (" ".intercalate ws)
      | none => diverge s s!"unparsable API record {ws}"
  | some m, ["RET", v] =>
    match s.pendingApi with
    | some aw =>
      match parseApi aw (v == "0") with
      | some a =>
        let (s', o) := feed { s with pendingApi := none } m (.api a) (" ".intercalate aw)
        if s'.stop then (s', o) else
        match s'.m with
        | some m' => expect s' m' s!"RET {v}"
        | none => (s', o)
      | none => diverge s s!"unparsable API record {aw}"
    | none => (s, [])       -- RET of validateNow
  | some m, "FATAL" :: _ =>
    match s.pendingApi with
    | some aw =>
      match parseApi aw true with
      | some a =>
        let (s', o) := feed { s with pendingApi := none } m (.api a) (" ".intercalate aw)
        if s'.stop then (s', o) else
        match s'.m with
        | some m' => let (s'', o') := expect s' m' "FATAL"; ({ s'' with stop := true }, o')
        | none => (s', o)
      | none => diverge s s!"unparsable API record {aw}"
    | none => let (s', o) := expect s m "FATAL"; ({ s' with stop := true }, o)
  | some m, "CB" :: nm :: rest =>
    let rec_ := match rest with
      | [b] => if b.startsWith "reg=" then s!"CB {nm}" else s!"CB {nm} {b}"
      | _ => s!"CB {nm}"
    expect s m rec_
  | some m, ["END"] => feed s m .handlerEnd "END"
  | some m, ["TIME", v] =>
    match v.toInt? with
    | some ns => feed s m (.time ⟨ns / 1000000000, ns % 1000000000⟩) "TIME"
    | none => diverge s "bad TIME"
  | some m, "WAIT" :: rest => expect s m (stripGt ("WAIT" :: rest))
  | some m, ["WRET", "EINTR"] => feed s m (.wret .eintr) "WRET EINTR"
  | some m, ["WRET", "ENOSYS"] => feed s m (.wret .enosys) "WRET ENOSYS"
  | some m, ["WRET", ev] =>
    let body := (ev.drop 3).toString
    let items := if body == "" then [] else body.splitOn ","
    if items.contains "STALE" then diverge s "kernel reported a pointer to an unregistered descriptor (stale epoll registration)" else
    match items.mapM parseWItem with
    | some l => feed s m (.wret (.events l)) (" ".intercalate ws)
    | none => diverge s s!"unparsable WRET {ev}"
  | some m, ["RAWREAD", _, r] => feed s m (.rawRead (r == "ok")) "RAWREAD"
  | some m, ["XPOST", e] =>
    match objNum e with
    | some e => feed s m (.xpost e) "XPOST"
    | none => diverge s "bad XPOST"
  | some m, ["FREE", o] =>
    match kindOf o with
    | some (k, n) => feed s m (.free k n) "FREE"
    | none => diverge s "bad FREE"
  | some m, ["INIT", o] =>
    match kindOf o with
    | some (k, n) => feed s m (.init k n) "INIT"
    | none => diverge s "bad INIT"
  | some m, ["MAINRET"] => expect s m "MAINRET"
  | some _, "CLK" :: _ => (s, [])
  | some _, "GT" :: _ => (s, [])
  | some _, "FDFLAGS" :: _ => (s, [])
  | some _, "LEDGER" :: _ => (s, [])
  | some _, "LEDGER-LIVE" :: _ => (s, [])
  | some _, "CYCLE-SKIPPED" :: _ => (s, [])
  | some m, "CFG" :: _ =>
    -- the loop was torn down and re-initialised (`cycle`): a fresh machine; only legal outside iv_main with nothing pending
    if !s.expected.isEmpty then diverge s "loop re-initialised while the model still predicts output"
    else
      -- latched process-wide flags survive re-initialisation
      match initFromCfg (ws.drop 1) with
      | some m' => ({ s with m := some { m' with useRaw := m.useRaw, pwait2 := m.pwait2 } }, [])
      | none => diverge s "unknown poll method"
  | some _, "RAWPOST" :: _ => (s, [])
  -- records of the harness about itself / for the implementation-side oracles only (not library behaviour)
  | some _, "PROBE-EINTR" :: _ => (s, [])
  | some _, "EARLY" :: _ => (s, [])
  | some _, "TRY-FAILED-ON-OPEN-FD" :: _ => (s, [])
  | some m, [e] =>
    if e == "BLOCKED" || e == "WAITLIMIT" || e == "CBLIMIT" || e == "EOF" then
      if !s.expected.isEmpty then
        diverge s s!"run ended ({e}) but the model still predicts '{fmtOut m (s.expected.headD .mainRet)}'"
      else
        match e, m.pc with
        | "BLOCKED", .waiting _ _ => ({ s with stop := true }, [])
        | "BLOCKED", _ => diverge s "implementation blocked in the kernel but the model is not in a wait"
        | _, _ => ({ s with stop := true }, [])
    else diverge s s!"unknown record {e}"
  | some _, _ => diverge s s!"unknown record {ws}"

/-! ### the implementation's own records as `Ev`s (independent of the model's predictions) -/

def parseInterest (s : String) : List (FdId × Bands) :=
  if s == "" then [] else
  (s.splitOn ",").filterMap fun it =>
    match it.splitOn ":" with
    | [nm, b] => (fdOfName nm).map fun f => (f, ({ i := b.contains 'i', o := b.contains 'o', e := false } : Bands))
    | _ => none

def parseWait (ws : List String) : Option Out :=
  let get (k : String) : String := (ws.find? (·.startsWith (k ++ "="))).map (fun w => (w.drop (k.length + 1)).toString) |>.getD ""
  let to := get "to"
  let tmo : Option Timeout :=
    if to == "inf" then some .inf
    else if to.endsWith "ns" then (to.dropEnd 2).toString.toInt?.map Timeout.ns
    else if to.endsWith "ms" then (to.dropEnd 2).toString.toInt?.map Timeout.ms
    else none
  let kt := get "ktimer"
  let ktv : Option (Option TS) :=
    if kt == "none" then none else if kt == "off" then some none
    else match kt.toInt? with
      | some ns => some (some ⟨ns / 1000000000, ns % 1000000000⟩)
      | none => none
  let kk := get "kick"
  let kkv : Option Bool := if kk == "armed" then some true else if kk == "idle" then some false else none
  tmo.map fun t => Out.wait (get "prim") t (parseInterest (get "int")) ktv kkv

def parseCb (nm : String) (rest : List String) : Option Cb :=
  match kindOf nm, rest with
  | some (0, f), [b] => some (.fd f (if b == "err" then 0 else if b == "in" then 1 else 2))
  | some (1, t), _ => some (.timer t)
  | some (2, k), _ => some (.task k)
  | some (3, e), _ => some (.event e)
  | some (4, r), [] => some (.raw r)
  | some (4, r), [b] => some (.fd (rawFd r) (if b == "err" then 0 else if b == "in" then 1 else 2))
  | _, _ => none

def parseGt (s : String) : List (FdId × KEv) :=
  if s == "" then [] else
  (s.splitOn ",").filterMap fun it =>
    match it.splitOn ":" with
    | [nm, b] => (fdOfName nm).map fun f => (f, parseKEv b)
    | _ => none

/-- translate one log line into monitor events -/
def toEvs (s : S) (ws : List String) : S × List Ev :=
  match ws with
  | "API" :: name :: args =>
    if deferred name then ({ s with evPending := some (name :: args) }, [])
    else match parseApi (name :: args) true with
      | some a => (s, [Ev.inp (.api a)])
      | none => (s, [])
  | ["RET", v] =>
    match s.evPending with
    | some aw =>
      let s := { s with evPending := none }
      match parseApi aw (v == "0"), v.toInt? with
      | some a, some v => (s, [Ev.inp (.api a), Ev.out (.ret v)])
      | _, _ => (s, [])
    | none => (s, [])
  | "FATAL" :: _ =>
    match s.evPending with
    | some aw =>
      match parseApi aw true with
      | some a => ({ s with evPending := none }, [Ev.inp (.api a), Ev.out (.fatal "")])
      | none => (s, [Ev.out (.fatal "")])
    | none => (s, [Ev.out (.fatal "")])
  | "CB" :: nm :: rest =>
    let rest := rest.filter (fun w => !(w.startsWith "reg="))
    match parseCb nm rest with
    | some c => (s, [Ev.out (.cb c)])
    | none => (s, [])
  | ["END"] => (s, [Ev.inp .handlerEnd])
  | ["TIME", v] => match v.toInt? with
    | some ns => (s, [Ev.inp (.time ⟨ns / 1000000000, ns % 1000000000⟩)])
    | none => (s, [])
  | "WAIT" :: rest => match parseWait rest with
    | some o => (s, [Ev.out o])
    | none => (s, [])
  | ["GT"] => (s, [Ev.gt []])
  | ["GT", g] => (s, [Ev.gt (parseGt g)])
  | ["WRET", "EINTR"] => (s, [Ev.inp (.wret .eintr)])
  | ["WRET", "ENOSYS"] => (s, [Ev.inp (.wret .enosys)])
  | ["WRET", ev] =>
    let body := (ev.drop 3).toString
    let items := if body == "" then [] else body.splitOn ","
    (s, [Ev.inp (.wret (.events (items.filterMap parseWItem)))])
  | ["RAWREAD", _, r] => (s, [Ev.inp (.rawRead (r == "ok"))])
  | ["XPOST", e] => match objNum e with
    | some e => (s, [Ev.inp (.xpost e)])
    | none => (s, [])
  | ["FREE", o] => match kindOf o with
    | some (k, n) => (s, [Ev.inp (.free k n)])
    | none => (s, [])
  | ["INIT", o] => match kindOf o with
    | some (k, n) => (s, [Ev.inp (.init k n)])
    | none => (s, [])
  | ["MAINRET"] => (s, [Ev.out .mainRet])
  | _ => (s, [])

/-- the verdicts of all monitors on one execution (from `iv_init` to `iv_deinit`) -/
def verdicts (evs : List Ev) : List (String × Option String) :=
  [("C01", Ivy.Mon.C01.verdict evs), ("C02", Ivy.Mon.C02.verdict evs), ("C03", Ivy.Mon.C03.verdict evs),
   ("C04", Ivy.Mon.C04.verdict evs), ("C06", Ivy.Mon.C06.verdict evs), ("C07", Ivy.Mon.C07.verdict evs),
   ("C07spin", Ivy.Mon.C07.spin4Verdict evs), ("C07tmo", Ivy.Mon.C07.tmoCapVerdict evs), ("C07idle", Ivy.L1.Progress.idleVerdict evs), ("C08", Ivy.Mon.C08.verdict evs),
   -- not a property monitor: the hypothesis of `Ivy.Props.C07tmo.tmo_cap_sound` evaluated on the log (the harness' kernel must keep it)
   ("ENVtmo", if Ivy.L1.ProofsC07tmo.tmoContract evs then none else some "the clock did not advance by the timeout of a wait that timed out (timeout contract of Ivy.Props.C07tmo)")]

def stepAll (s : S) (ws : List String) : S × List String :=
  -- `cycle` tore the loop down and initialised it again: the theorems (and so the monitors) are about ONE execution from the
  -- initial state, so the records so far are judged now and a new execution starts
  let s := match s.m, ws with
    | some _, "CFG" :: _ =>
      let bad := (verdicts s.evs.toList).filterMap fun (nm, v) => v.map fun e => (nm, e)
      { s with evs := #[], monBad := s.monBad ++ bad.filter fun (nm, _) => !(s.monBad.any (·.1 == nm)) }
    | _, _ => s
  let (s, evs) := toEvs s ws
  let s := { s with evs := evs.foldl Array.push s.evs }
  step s ws

def run : IO Unit := do
  let out ← IO.getStdout
  let s ← loopLines (← IO.getStdin) out ({} : S) stepAll
  for (nm, v) in verdicts s.evs.toList do
    -- an earlier execution of this log (before a `cycle`) may already have been rejected
    match (s.monBad.find? (·.1 == nm)).map (·.2) <|> v with
    | none => out.putStrLn s!"MON {nm} ok"
    | some e => out.putStrLn s!"MON {nm} VIOLATION {e}"
  out.putStrLn s!"SUMMARY lines {s.line} agree {s.agree} diverged {s.diverged}"
  for (k, n) in s.cov do
    out.putStrLn s!"COV {k} {n}"

end Ivy.Drv.Loop
