import Ivy.L0.Avl
import Ivy.Drv.Util
/-! Driver for the T-diff of iv_avl.c: same op lines as /verif/harness/avl_h.c. -/
namespace Ivy.Drv.Avl
open Ivy.Avl Ivy.Avl.Tree

/-- parse the canonical dump: `.` or `( L k:h R )` given as tokens -/
partial def parseTree : List String → Option (Tree × List String)
  | "." :: rest => some (nil, rest)
  | "(" :: rest =>
    match parseTree rest with
    | some (l, kh :: rest') =>
      match kh.splitOn ":" with
      | [ks, hs] =>
        match ks.toInt?, hs.toNat?, parseTree rest' with
        | some k, some h, some (r, ")" :: rest'') => some (node l k h r, rest'')
        | _, _, _ => none
      | _ => none
    | _ => none
  | _ => none

def dumpT : Tree → String
  | nil => "."
  | node l k h r => "( " ++ dumpT l ++ " " ++ toString k ++ ":" ++ toString h ++ " " ++ dumpT r ++ " )"

structure S where
  t : Tree := nil
  dead : Bool := false     -- after a fault nothing more is predicted

def step (s : S) (ws : List String) : S × List String :=
  if s.dead then (s, ["DEAD"]) else
  match ws with
  | ["reset"] => ({ t := nil }, ["OK"])
  | "load" :: toks =>
    match parseTree toks with
    | some (t, []) => ({ t := t }, ["OK"])
    | _ => (s, ["bad-op"])
  | ["ins", k] =>
    match k.toInt? with
    | some k =>
      match insert k s.t with
      | some (t', rc) => ({ t := t' }, [s!"RES {rc} DUMP {dumpT t'}"])
      | none => ({ s with dead := true }, ["FAULT"])
    | none => (s, ["bad-op"])
  | ["del", k] =>
    match k.toInt? with
    | some k =>
      match delete k s.t with
      | some t' => ({ t := t' }, [s!"RES ok DUMP {dumpT t'}"])
      | none => ({ s with dead := true }, ["FAULT"])
    | none => (s, ["bad-op"])
  | ["trav"] => (s, [s!"TRAV {intsToString (toList s.t)}", s!"RTRAV {intsToString (toList s.t).reverse}"])
  | _ => (s, ["bad-op"])

def run : IO Unit := do
  let _ ← loopLines (← IO.getStdin) (← IO.getStdout) ({} : S) step

end Ivy.Drv.Avl
