import Ivy.L0.FdEpoll
import Ivy.Drv.Util
/-!
Driver for the T-diff of the epoll registration bookkeeping (`/repo/src/iv_fd_epoll.c` driven by
`/repo/src/iv_fd.c`) against the model `Ivy/L0/FdEpoll.lean`.  Same op lines and result lines as
`/verif/harness/fdepoll_h.c`.

Universe: objects `0..7` (`struct iv_fd`), descriptor slots `0..7` (socketpairs in the harness).
Ops (one per line):

  reg o d | regtry o d | unreg o | setin o 0|1 | setout o 0|1 | seterr o 0|1 |
  flush [d:events ...] | closefd d | openfd d | wr d | drain d | closepeer d | dump

`flush` carries the events the harness saw in its wrapped epoll_wait (vlib/c15epoll.py copies them
from the harness output into the model's input).  `wr / drain / closepeer` only change the
environment's readiness; the model keeps the same trivial bookkeeping as the harness to refuse them
(`skip`) on a closed slot.  An op outside the model's hypothesis `pre` prints `skip`.
No proofs depend on this file.
-/
namespace Ivy.Drv.FdEpoll
open Ivy.L0.FdEpoll

def NOBJ : Nat := 8
def ND : Nat := 8

structure S where
  st : State := init
  ever : Array Bool := Array.replicate NOBJ false
  peer : Array Bool := Array.replicate ND true      -- peer end of the slot still open

/-- re-tabulate the function-valued components (a chain of closures would make every lookup re-run
the history) -/
def normalize (s : State) : State :=
  let oa := Array.ofFn (n := NOBJ) fun i => s.objs i.val
  let ka := Array.ofFn (n := ND) fun i => s.kernel i.val
  let ca := Array.ofFn (n := ND) fun i => s.closed i.val
  { s with objs := fun i => oa.getD i {}, kernel := fun i => (ka[i]?).join, closed := fun i => ca.getD i false }

def opName : CtlOp → String
  | .add => "ADD" | .mod => "MOD" | .del => "DEL"

def ctlStr (c : Ctl) : String :=
  s!"{opName c.op}:{c.data}:{c.fd}:{c.mask}:{c.err}"

def pairs (l : List (Nat × Nat)) : String := ",".intercalate (l.map fun p => s!"{p.1}:{p.2}")

def b2s (b : Bool) : String := if b then "1" else "0"

def stateStr (s : S) : String :=
  let objs := (List.range NOBJ).map fun o =>
    if s.ever.getD o false then
      let f := s.st.objs o
      s!"{o}={f.fd}/{b2s f.reg}/{f.wanted}/{f.registered}/{b2s f.queued}"
    else s!"{o}=-"
  " ".intercalate objs ++ " | q=" ++ ",".intercalate (s.st.notify.map toString)

def outLine (name : String) (s : S) (o : Out) (ev : List (Nat × Nat)) : String :=
  s!"{name} ctl={",".intercalate (o.ctls.map ctlStr)} ret={o.ret} ev={pairs ev} rdy={pairs o.ready} calls={pairs o.calls} | " ++ stateStr s

def doOp (s : S) (name : String) (op : Op) (ev : List (Nat × Nat)) (mark : Option Nat) : S × List String :=
  let r := exec s.st op
  if r.2.skipped then (s, ["skip"]) else
  let s' : S := { s with st := normalize r.1, ever := match mark with | some o => s.ever.set! o true | none => s.ever }
  (s', [outLine name s' r.2 ev])

/-- decimal digits only (`String.toNat?` also accepts `_` separators; the harness does not) -/
def nat? (w : String) : Option Nat :=
  if !w.isEmpty && w.all Char.isDigit then w.toNat? else none

def parseEv (w : String) : Option (Nat × Nat) :=
  match w.splitOn ":" with
  | [a, b] => do let x ← nat? a; let y ← nat? b; pure (x, y)
  | _ => none

def step (s : S) (ws : List String) : S × List String :=
  match ws with
  | ["dump"] => (s, ["dump | " ++ stateStr s])
  | "flush" :: evs =>
    let pe := evs.map parseEv
    if pe.any (·.isNone) then (s, ["bad-op"]) else
    let kev := pe.filterMap id
    if s.st.fatal then (s, ["skip"]) else
    doOp s "flush" (.flush kev) kev none
  | [op, a] =>
    match nat? a with
    | none => (s, ["bad-op"])
    | some x =>
      if op == "unreg" then
        if x < NOBJ then doOp s "unreg" (.unreg x) [] none else (s, ["bad-op"])
      else if x ≥ ND then (s, ["bad-op"])
      else if op == "closefd" then
        let (s', o) := doOp s "closefd" (.closefd x) [] none
        (if o == ["skip"] then s' else { s' with peer := s'.peer.set! x false }, o)
      else if op == "openfd" then
        let (s', o) := doOp s "openfd" (.openfd x) [] none
        (if o == ["skip"] then s' else { s' with peer := s'.peer.set! x true }, o)
      else if op == "wr" then
        if !s.st.closed x && s.peer.getD x false then (s, ["wr | " ++ stateStr s]) else (s, ["skip"])
      else if op == "drain" then
        if !s.st.closed x then (s, ["drain | " ++ stateStr s]) else (s, ["skip"])
      else if op == "closepeer" then
        if !s.st.closed x && s.peer.getD x false then
          let s' := { s with peer := s.peer.set! x false }
          (s', ["closepeer | " ++ stateStr s'])
        else (s, ["skip"])
      else (s, ["bad-op"])
  | [op, a, b] =>
    match nat? a, nat? b with
    | some o, some y =>
      if o ≥ NOBJ then (s, ["bad-op"])
      else if op == "reg" then
        if y < ND then doOp s "reg" (.reg o y) [] (some o) else (s, ["bad-op"])
      else if op == "regtry" then
        if y < ND then doOp s "regtry" (.regtry o y) [] (some o) else (s, ["bad-op"])
      else if y > 1 then (s, ["bad-op"])
      else if op == "setin" then doOp s "setin" (.set o MASKIN (y == 1)) [] none
      else if op == "setout" then doOp s "setout" (.set o MASKOUT (y == 1)) [] none
      else if op == "seterr" then doOp s "seterr" (.set o MASKERR (y == 1)) [] none
      else (s, ["bad-op"])
    | _, _ => (s, ["bad-op"])
  | _ => (s, ["bad-op"])

def run : IO Unit := do
  let stdin ← IO.getStdin
  let stdout ← IO.getStdout
  let _ ← Ivy.Drv.loopLines stdin stdout ({} : S) step
  stdout.flush

end Ivy.Drv.FdEpoll
