import Ivy.L0.Heap
import Ivy.Drv.Util
/-! Driver for the T-diff of the timer store: same op lines as /verif/harness/heap_h.c. -/
namespace Ivy.Drv.Heap
open Ivy.Heap

structure S where
  st : Store := Store.init 0
  react : Array (List (List String)) := #[]   -- per timer: pending reaction ops (oldest first)
  numobjs : Int := 0
  dead : Bool := false

def regOp (s : S) (id : Nat) (e : TS) : S × String :=
  match register s.st id e with
  | .ok st => ({ s with st := st, numobjs := s.numobjs + 1 }, "RES ok")
  | .fatal _ _ => (s, "RES fatal")
  | .fault => ({ s with dead := true }, "FAULT")

def unregOp (s : S) (batch : List Tid) (id : Nat) : S × List Tid × String :=
  let onHeap := decide (s.st.idx.getD id (-1) ≥ 1)
  match unregister s.st batch id with
  | (.ok st, b) => ({ s with st := st, numobjs := if onHeap then s.numobjs - 1 else s.numobjs }, b, "RES ok")
  | (.fatal _ _, b) => (s, b, "RES fatal")
  | (.fault, b) => ({ s with dead := true }, b, "FAULT")

/-- ops allowed at top level and inside handlers; `batch` is the running expired list -/
def simpleOp (s : S) (batch : List Tid) (ws : List String) : S × List Tid × List String :=
  match ws with
  | ["reg", id, sec, nsec] =>
    match id.toNat?, sec.toInt?, nsec.toInt? with
    | some id, some sec, some nsec =>
      let (s, o) := regOp s id ⟨sec, nsec⟩; (s, batch, [o])
    | _, _, _ => (s, batch, ["bad-op"])
  | ["unreg", id] =>
    match id.toNat? with
    | some id => let (s, b, o) := unregOp s batch id; (s, b, [o])
    | none => (s, batch, ["bad-op"])
  | ["tog", id, sec, nsec] =>
    match id.toNat?, sec.toInt?, nsec.toInt? with
    | some id, some sec, some nsec =>
      if s.st.idx.getD id (-1) != -1 then
        let (s, b, o) := unregOp s batch id; (s, b, [o])
      else
        let (s, o) := regOp s id ⟨sec, nsec⟩; (s, batch, [o])
    | _, _, _ => (s, batch, ["bad-op"])
  | _ => (s, batch, ["bad-op"])

/-- second loop of iv_run_timers, with the scripted handler bodies -/
partial def runBatch (s : S) (batch : List Tid) (acc : Array String) : S × Array String :=
  if s.dead then (s, acc) else
  match popExpired s.st batch with
  | none => (s, acc.push "ENDRUN")
  | some (st, t, rest) =>
    let s := { s with st := st }
    let acc := acc.push s!"CB {t}"
    let ops := s.react.getD t []
    let s := { s with react := s.react.setIfInBounds t [] }
    let (s, rest, acc) := ops.foldl (fun (s, b, acc) ws =>
        let (s', b', outs) := simpleOp s b ws
        (s', b', outs.foldl Array.push acc)) (s, rest, acc)
    runBatch s rest acc

def slotStr (s : Store) (i : Nat) : String :=
  match getSlot s i with
  | some (some t) => s!"{t}:{s.idx.getD t (-1)}"
  | _ => "null"

def statStr (s : S) (withSlots : Bool) : String := Id.run do
  let st := s.st
  let soon := match soonest st with
    | some e => s!"{e.sec} {e.nsec}"
    | none => "none"
  let mut r := s!"NUM {st.num} DEPTH {st.depth} NUMOBJS {s.numobjs} SOON {soon}"
  if withSlots then
    r := r ++ " SLOTS"
    for i in [1:st.num+1] do
      r := r ++ " " ++ slotStr st i
    let mut bad := 0
    for i in [st.num+1:st.num+301] do
      match getSlot st i with
      | some (some _) => bad := bad + 1
      | _ => pure ()
    r := r ++ s!" TAILBAD {bad}"
  return r

def step (s : S) (ws : List String) : S × List String :=
  if s.dead then (s, ["DEAD"]) else
  match ws with
  | ["init", n] =>
    match n.toNat? with
    | some n => ({ st := Store.init n, react := Array.replicate n [] }, ["OK"])
    | none => (s, ["bad-op"])
  | "on" :: id :: rest =>
    match id.toNat? with
    | some id => ({ s with react := s.react.modify id (· ++ [rest]) }, ["OK"])
    | none => (s, ["bad-op"])
  | ["run", sec, nsec] =>
    match sec.toInt?, nsec.toInt? with
    | some sec, some nsec =>
      if s.st.num = 0 then (s, ["ENDRUN"]) else
      let n0 := s.st.num
      match runCollect s.st ⟨sec, nsec⟩ with
      | (.ok st, batch) =>
        let s := { s with st := st, numobjs := s.numobjs - ((n0 - st.num : Nat) : Int) }
        let (s, outs) := runBatch s batch #[]
        (s, outs.toList)
      | (.fatal _ _, _) => (s, ["RES fatal"])
      | (.fault, _) => ({ s with dead := true }, ["FAULT"])
    | _, _ => (s, ["bad-op"])
  | ["stat"] => (s, [statStr s false])
  | ["dump"] => (s, [statStr s true])
  | _ => let (s, _, o) := simpleOp s [] ws; (s, o)

def run : IO Unit := do
  let _ ← loopLines (← IO.getStdin) (← IO.getStdout) ({} : S) step

end Ivy.Drv.Heap
