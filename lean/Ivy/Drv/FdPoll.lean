import Ivy.L0.FdPoll
import Ivy.Drv.Util
/-!
Driver for the T-diff of the poll/ppoll back end (`/repo/src/iv_fd_poll.c` through the API of
`/repo/src/iv_fd.c`) against the model `Ivy/L0/FdPoll.lean`.  Same op lines and result lines as
`/verif/harness/fdpoll_h.c` (see there for the protocol), except that `poll` takes the `revents`
the harness observed as arguments: `pollrev r0 r1 .. r(n-1)` (vlib/c15poll.py rewrites the
`poll` lines; a `poll` line itself is `bad-op` here).

Universe: objects 0..7 with descriptor numbers 100..107 (the harness has real descriptors; only
`pfds[i].fd == fd->fd` is compared).  Between ops the state is kept in arrays (a `State` holds
functions: storing the closure chain would make every lookup re-run the whole history).
No proofs depend on this file.
-/
namespace Ivy.Drv.FdPoll
open Ivy.FdPoll

def NOBJ : Nat := 8
def CAP : Nat := 32

structure S where
  pfds : Array PollFd := Array.replicate CAP ⟨0, 0⟩
  fds : Array Nat := Array.replicate CAP 0
  num : Nat := 0
  objs : Array Obj := Array.ofFn (n := NOBJ) fun i => { fdnum := 100 + i.val }

def S.st (s : S) : State :=
  { pfds := fun i => s.pfds.getD i ⟨0, 0⟩, fds := fun i => s.fds.getD i 0, num := s.num,
    objs := fun o => s.objs.getD o {} }

def ofState (t : State) : S :=
  { pfds := Array.ofFn (n := CAP) fun i => t.pfds i.val,
    fds := Array.ofFn (n := CAP) fun i => t.fds i.val,
    num := t.num,
    objs := Array.ofFn (n := NOBJ) fun i => t.objs i.val }

def idx : Option Nat → String
  | none => "-1"
  | some i => toString i

def stateLine (t : State) : String :=
  let slots := (List.range (min t.num CAP)).map fun i =>
    let o := t.fds i
    let fd := t.objs o
    s!"{o}:{idx fd.index}:{(t.pfds i).events}:{if (t.pfds i).fd == fd.fdnum then 1 else 0}"
  let objs := (List.range NOBJ).filterMap fun o =>
    let fd := t.objs o
    if fd.registered then some s!"{o}:{idx fd.index}:{fd.wanted}" else none
  " ".intercalate ([s!"NUM {t.num}", "SLOTS"] ++ slots ++ ["OBJS"] ++ objs)

def pairs (l : List (Nat × Nat)) : List String := l.map fun p => s!"{p.1}:{p.2}"

def apply (s : S) (op : Op) : S × List String :=
  let t := step s.st op
  let s' := ofState t
  (s', [stateLine s'.st])

def step (s : S) (ws : List String) : S × List String :=
  match ws with
  | ["consts"] =>
    (s, [s!"CONST MASKIN={MASKIN} MASKOUT={MASKOUT} MASKERR={MASKERR} POLLIN={POLLIN} POLLOUT={POLLOUT} POLLERR={POLLERR} POLLHUP={POLLHUP} MAXFD={MAXFD}"])
  | ["dump"] => (s, [stateLine s.st])
  | "pollrev" :: rs =>
    let revs := rs.map String.toNat?
    if revs.any (·.isNone) then (s, ["bad-op"]) else
    let revs := revs.filterMap id
    if revs.length != s.num then (s, [s!"POLL BADLEN model-num={s.num} given={revs.length}"]) else
    let t := s.st
    let calls := activate t (fun i => revs.getD i 0)
    let ran := dispatch t calls
    (s, [" ".intercalate (["POLL", "REV"] ++ revs.map toString ++ ["READY"] ++ pairs calls ++ ["RAN"] ++ pairs ran)])
  | op :: a :: rest =>
    match a.toNat? with
    | none => (s, ["bad-op"])
    | some o =>
      if a.length > 6 || o ≥ NOBJ then (s, ["bad-op"]) else
      let regd := (s.objs.getD o {}).registered
      match op, rest with
      | "reg", [] => if regd then (s, ["skip"]) else apply s (.register o)
      | "regtry", [] => if regd then (s, ["skip"]) else apply s (.registerTry o true)
      | "regtrybad", [] => if regd then (s, ["skip"]) else apply s (.registerTry o false)
      | "unreg", [] => if regd then apply s (.unregister o) else (s, ["skip"])
      | "setin", ["0"] => apply s (.setHandler o .inn false)
      | "setin", ["1"] => apply s (.setHandler o .inn true)
      | "setout", ["0"] => apply s (.setHandler o .out false)
      | "setout", ["1"] => apply s (.setHandler o .out true)
      | "seterr", ["0"] => apply s (.setHandler o .err false)
      | "seterr", ["1"] => apply s (.setHandler o .err true)
      | "wr", [] => (s, ["io"])
      | "closepeer", [] => (s, ["io"])
      | _, _ => (s, ["bad-op"])
  | _ => (s, ["bad-op"])

def run : IO Unit := do
  let _ ← loopLines (← IO.getStdin) (← IO.getStdout) ({} : S) step

end Ivy.Drv.FdPoll
