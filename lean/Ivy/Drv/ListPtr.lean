import Ivy.L0.ListPtr
import Ivy.Drv.Util
/-!
Driver for the T-diff of iv_list.h / `__iv_list_steal_elements` against the pointer-level
model `Ivy/L0/ListPtr.lean`.  Same op lines and result lines as `/verif/harness/list_h.c`.

Universe: 64 records with ids 0..63, all allocated and zeroed (NULL fields) at start; ids 0..3
play the role of list heads, the rest of elements.  Ops (one per line):

  init a | add x h | addtail x h | del x | delinit x | empty a | splice a b | spliceinit a b |
  splicetail a b | splicetailinit a b | steal a b | walk h | walksafe h <mask> | dump a

Both sides keep the same trivial bookkeeping `st` (a function of the op history only) to refuse
(`skip`) uses that the list API does not allow (adding an element that is linked, deleting one
that is not, operating on an uninitialised or stale head, ...):
  heads:    0 = uninitialised / stale, 1 = live
  elements: 0 = unlinked with NULL fields, 1 = self-linked, 2+h = linked in the list of head h.
No proofs depend on this file.
-/
namespace Ivy.Drv.ListPtr
open Ivy.ListPtr

def N : Nat := 64
def NH : Nat := 4

/-- the heap is kept as an array between operations (a `Heap` is a function: storing the
closure chain would make every lookup re-run the whole history) -/
structure S where
  arr : Array (Option Node) := Array.replicate N (some ⟨none, none⟩)
  st : Array Nat := Array.replicate N 0
  dead : Bool := false

def ofArr (arr : Array (Option Node)) : Heap := fun i => (arr[i]?).join

def toArr (h : Heap) : Array (Option Node) := Array.ofFn (n := N) (fun i => h i.val)

def S.h (s : S) : Heap := ofArr s.arr

def ptr : Option Nat → String
  | none => "N"
  | some a => toString a

/-- follow one field from `cur` until back at `a` (`.`), NULL (`N`) or `N` ids printed (`!`) -/
def follow (h : Heap) (fld : Node → Option Nat) (a : Nat) : Nat → Option Nat → List String
  | fuel, cur =>
    match cur with
    | none => ["N"]
    | some c =>
      if c = a then ["."] else
      match fuel with
      | 0 => ["!"]
      | f + 1 =>
        match h c with
        | none => ["?"]
        | some n => toString c :: follow h fld a f (fld n)

def ring (h : Heap) (a : Nat) : String :=
  match h a with
  | none => "?"
  | some n =>
    "F " ++ " ".intercalate (follow h (·.next) a N n.next) ++
    " B " ++ " ".intercalate (follow h (·.prev) a N n.prev)

def fields (h : Heap) (a : Nat) : String :=
  match h a with
  | none => "?"
  | some n => "n=" ++ ptr n.next ++ " p=" ++ ptr n.prev

def cnt (s : S) (hd : Nat) : Nat := (s.st.toList.filter (· == 2 + hd)).length

def stOf (s : S) (a : Nat) : Nat := s.st.getD a 0

/-- all elements linked in `a` now belong to `b` -/
def moveAll (st : Array Nat) (a b : Nat) : Array Nat := st.map fun v => if v == 2 + a then 2 + b else v

def fault (s : S) : S × List String := ({ s with dead := true }, ["FAULT"])

/-- run a heap operation; `k` builds the new bookkeeping and the output from the new heap -/
def exec (s : S) (r : Option Heap) (k : Heap → Array Nat × String) : S × List String :=
  match r with
  | none => fault s
  | some h' =>
    let arr' := toArr h'
    let (st', out) := k (ofArr arr')
    ({ s with arr := arr', st := st' }, [out])

def spliceOp (s : S) (name : String) (f : Heap → Nat → Nat → Option Heap) (reinit : Bool)
    (a b : Nat) : S × List String :=
  if a < NH && b < NH && a != b && stOf s a == 1 && stOf s b == 1 then
    let nonempty := cnt s a > 0
    exec s (f s.h a b) fun h' =>
      let st := moveAll s.st a b
      let st := if nonempty && !reinit then st.set! a 0 else st
      (st, name ++ " " ++ fields h' a ++ " " ++ ring h' b ++ (if reinit then " | " ++ ring h' a else ""))
  else (s, ["skip"])

def step (s : S) (ws : List String) : S × List String :=
  if s.dead then (s, ["DEAD"]) else
  let ids := ws.drop 1 |>.map String.toNat?
  if ids.any (·.isNone) then (s, ["bad-op"]) else
  let ids := ids.filterMap id
  let idArgs := if ws.head? == some "walksafe" then ids.take 1 else ids
  if !(idArgs.all (· < N)) then (s, ["bad-op"]) else
  match ws.head?, ids with
  | some "init", [a] =>
    let ok := if a < NH then stOf s a == 0 || cnt s a == 0 else stOf s a ≤ 1
    if ok then exec s (init s.h a) fun h' => (s.st.set! a 1, "init " ++ ring h' a)
    else (s, ["skip"])
  | some "add", [x, hd] =>
    if x ≥ NH && hd < NH && stOf s hd == 1 && stOf s x ≤ 1 then
      exec s (add s.h x hd) fun h' => (s.st.set! x (2 + hd), "add " ++ ring h' hd)
    else (s, ["skip"])
  | some "addtail", [x, hd] =>
    if x ≥ NH && hd < NH && stOf s hd == 1 && stOf s x ≤ 1 then
      exec s (addTail s.h x hd) fun h' => (s.st.set! x (2 + hd), "addtail " ++ ring h' hd)
    else (s, ["skip"])
  | some "del", [x] =>
    if x ≥ NH && stOf s x ≥ 1 then
      let o := stOf s x
      exec s (del s.h x) fun h' =>
        (s.st.set! x 0, "del " ++ fields h' x ++ (if o ≥ 2 then " " ++ ring h' (o - 2) else ""))
    else (s, ["skip"])
  | some "delinit", [x] =>
    if x ≥ NH && stOf s x ≥ 1 then
      let o := stOf s x
      exec s (delInit s.h x) fun h' =>
        (s.st.set! x 1, "delinit " ++ fields h' x ++ (if o ≥ 2 then " " ++ ring h' (o - 2) else ""))
    else (s, ["skip"])
  | some "empty", [a] =>
    match empty s.h a with
    | none => fault s
    | some b => (s, ["empty " ++ (if b then "1" else "0")])
  | some "splice", [a, b] => spliceOp s "splice" splice false a b
  | some "spliceinit", [a, b] => spliceOp s "spliceinit" spliceInit true a b
  | some "splicetail", [a, b] => spliceOp s "splicetail" spliceTail false a b
  | some "splicetailinit", [a, b] => spliceOp s "splicetailinit" spliceTailInit true a b
  | some "steal", [a, b] =>
    if a < NH && b < NH && a != b && stOf s a == 1 && (stOf s b == 0 || cnt s b == 0) then
      exec s (steal s.h a b) fun h' =>
        ((moveAll s.st a b).set! b 1, "steal " ++ ring h' a ++ " | " ++ ring h' b)
    else (s, ["skip"])
  | some "walk", [hd] =>
    if hd < NH && stOf s hd == 1 then
      match forEach (N + 1) s.h hd with
      | none => fault s
      | some l => (s, [" ".intercalate ("walk" :: l.map toString ++ ["."])])
    else (s, ["skip"])
  | some "walksafe", [hd, mask] =>
    if hd < NH && stOf s hd == 1 then
      match forEachSafe (N + 1) s.h hd (fun i => mask.testBit i) with
      | none => fault s
      | some (h', l) =>
        let arr' := toArr h'
        let h' := ofArr arr'
        let st := (l.zipIdx).foldl (fun st (x, i) => if mask.testBit i then st.set! x 0 else st) s.st
        ({ s with arr := arr', st := st },
          [" ".intercalate ("walksafe" :: l.map toString ++ ["."]) ++ " | " ++ ring h' hd])
    else (s, ["skip"])
  | some "dump", [a] => (s, ["dump " ++ ring s.h a])
  | _, _ => (s, ["bad-op"])

def run : IO Unit := do
  let _ ← loopLines (← IO.getStdin) (← IO.getStdout) ({} : S) step

end Ivy.Drv.ListPtr
