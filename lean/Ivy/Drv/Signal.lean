import Ivy.L2.Signal
import Ivy.Drv.Util
/-! T-sched replay driver for iv_signal.c: reads the log written by /verif/harness/mt_h.c + mt_sig.c,
maps the records of every thread to actions of the LTS `Ivy.Signal.step`, checks that each action is
enabled and that everything the model says is posted / installed is exactly what the code did, in order,
and compares the white-box `active` snapshots taken under `sig_lock`.

Mapping (per thread T<k>; records of different threads interleave freely):
  API sigRegister s<i> …; SPINLOCK      → reg      (applied at the lock; SIGACTION records until SPINUNLOCK must match)
  API sigUnregister s<i>; SPINLOCK      → unreg    (SIGACTION / SIGPOST records until SPINUNLOCK must match)
  SIGNAL-DELIVER n                      → sigThread (SIGPOST records before the lock / the return must match)
  SIGPOSTED s<i>                        → posted    (must be the head of the thread's pending writes)
  SPINLOCK inside a handler             → sigProc   (model must be at `pc = some n`; SIGPOSTs until SPINUNLOCK must match)
  SIGEVENT s<i>                         → evRead    (+ evClear at once for a this-thread interest)
  SPINLOCK after SIGEVENT               → evClear
  CB s<i> / END                         → user handler start (model stage must be 2, thread must be the owner) / evEnd
  PID n                                 → fork n
  CHILD-SIGNAL n … CHILD-SIGNAL-RETURN  → sigThread in `fork` of the current state: must post nothing, take no lock
  SIGSNAP active=…                      → compared with the model's `active` of the process-wide interests and of
                                          the snapshotting thread's own this-thread interests
  SIGNAL-DEFAULT n                      → model disposition must be SIG_DFL -/
namespace Ivy.Drv.Signal
open Ivy.Signal

inductive Api where
  | reg (i n : Nat) (e t : Bool)
  | unreg (i : Nat)
deriving Repr

structure Th where
  api : Option Api := none
  stepped : Bool := false
  exp : List Out := []
  pre : List Out := []          -- outputs seen inside sigRegister before the SIGADDR record (post-fork reset)
  hnd : Option Nat := none
  child : Bool := false
  ev : Option Nat := none
  cbs : List (Option Nat) := []
  locked : Bool := false

structure S where
  st : State := State.init 1
  th : Nat → Th := fun _ => {}
  known : List Nat := []          -- model ids (= struct addresses) ever registered
  addr : Nat → Nat := fun i => i   -- harness object s<i> → address of its current struct (the model id)
  names : List (Nat × Nat) := []   -- address → harness object number, for messages
  line : Nat := 0
  steps : Nat := 0
  diverged : Nat := 0
  cov : List (String × Nat) := []

def bump (c : List (String × Nat)) (k : String) : List (String × Nat) :=
  match c.find? (·.1 == k) with
  | some _ => c.map fun (a, n) => if a == k then (a, n + 1) else (a, n)
  | none => c ++ [(k, 1)]

def objNum (w : String) : Option Nat := (w.drop 1).toNat?
def kv (w : String) : Option Nat := match w.splitOn "=" with | [_, v] => v.toNat? | _ => none

def showOutN (names : List (Nat × Nat)) : Out → String
  | .post a => match names.find? (·.1 == a) with
    | some (_, i) => s!"SIGPOST s{i}"
    | none => s!"SIGPOST @{a}"
  | .disp n h => s!"SIGACTION {n} " ++ (if h then "HANDLER" else "DFL")
  | .err => "RET -1"

def showOuts (names : List (Nat × Nat)) (l : List Out) : String := "[" ++ ", ".intercalate (l.map (showOutN names)) ++ "]"

def div (s : S) (msg : String) : S × List String :=
  ({ s with diverged := s.diverged + 1 }, [s!"DIVERGE line {s.line}: {msg}"])

def setTh (s : S) (k : Nat) (t : Th) : S := { s with th := upd s.th k t }

/-- apply a model action for thread k; on success the outputs become the thread's expectation -/
def act (s : S) (k : Nat) (a : Action) (what cov : String) (f : Th → Th) : S × List String :=
  match step s.st a with
  | none => div (setTh s k (f (s.th k))) s!"{what}: not enabled in the model ({repr a})"
  | some (st', o) =>
    let t := f (s.th k)
    ({ s with st := st', steps := s.steps + 1, cov := bump s.cov cov, th := upd s.th k { t with exp := t.exp ++ o } }, [])

def expectOut (s : S) (k : Nat) (o : Out) : S × List String :=
  let t := s.th k
  match t.exp with
  | e :: rest =>
    if e == o then (setTh s k { t with exp := rest }, [])
    else div (setTh s k { t with exp := rest }) s!"T{k} did {showOutN s.names o}, the model predicts {showOutN s.names e} next (remaining {showOuts s.names t.exp})"
  | [] => div s s!"T{k} did {showOutN s.names o}, the model predicts nothing here"

def needEmpty (s : S) (k : Nat) (whr : String) : S × List String :=
  let t := s.th k
  if !(s.st.pend k).isEmpty then
    div { (setTh s k { t with exp := [] }) with st := { s.st with pend := upd s.st.pend k [] } }
      s!"T{k} {whr}: the model still has writes pending for {showOuts s.names ((s.st.pend k).map Out.post)}"
  else
  if t.exp.isEmpty then (s, [])
  else div (setTh s k { t with exp := [] }) s!"T{k} {whr}: the model predicted {showOuts s.names t.exp} which the code did not do"

def parseIds (w : String) : List Nat :=
  match w.splitOn "=" with
  | [_, v] => (v.splitOn ",").filterMap objNum
  | _ => []

def covReg (st : State) (n : Nat) (t : Bool) : String :=
  (if st.ownerPid ≠ 0 ∧ st.ownerPid ≠ st.pid then "reg-in-child-reset" else if st.count n = 0 then "reg-first" else "reg-more")
    ++ (if t then "-this" else "-proc")

def covUnreg (st : State) (i : Nat) : String :=
  if st.count (st.sig i) = 1 then "unreg-last"
  else if st.excl i ∧ st.active i then
    (if st.this i then
       (let r := remSt st (st.owner i) i
        if (wake r (r.thr (st.owner i)) (st.sig i)).isEmpty then "unreg-handoff-this-to-process" else "unreg-handoff-this")
     else "unreg-handoff-proc")
  else if st.excl i then "unreg-excl-inactive" else if st.active i then "unreg-shared-active" else "unreg-shared-inactive"

def covPosts (pre : String) (o : List Out) (st : State) : String :=
  let ps := o.filterMap (fun x => match x with | .post i => some i | _ => none)
  let re := ps.any (fun i => st.stage i ≠ 0)
  pre ++ (if ps.isEmpty then "-none" else if ps.length = 1 then (if st.excl (ps.headD 0) then "-excl" else "-one") else "-many")
      ++ (if re then "-during-handler" else "")

def step1 (s : S) (k : Nat) (ws : List String) : S × List String :=
  let t := s.th k
  match ws with
  | ["API", "sigRegister", si, sn, se, sh] =>
    match objNum si, kv sn, kv se, kv sh with
    | some i, some n, some e, some h =>
      (setTh s k { t with api := some (.reg i n (e == 1) (h == 1)), stepped := false }, [])
    | _, _, _, _ => (s, [s!"bad-log line {s.line}"])
  | ["API", "sigUnregister", si] =>
    match objNum si with
    | some i => (setTh s k { t with api := some (.unreg (s.addr i)), stepped := false }, [])
    | none => (s, [s!"bad-log line {s.line}"])
  | "SPINLOCK" :: _ =>
    if t.child then div s s!"T{k}: the handler running in a forked child took sig_lock (it must return at the owner-pid check)"
    else
    let f := fun (t : Th) => { t with locked := true, stepped := true }
    match t.hnd with
    | some _ =>
      match s.st.pc k with
      | some n =>
        let c := match step s.st (.sigProc k) with
          | some (_, o) => covPosts "sigProc" o s.st
          | none => "sigProc"
        let _ := n
        act s k (.sigProc k) s!"T{k} signal handler walks the process-wide set" c f
      | none => div (setTh s k (f t)) s!"T{k}: the signal handler took sig_lock although its own set woke an interest (model pc = none)"
    | none =>
      match t.api, t.ev with
      | some (.reg _ _ _ _), _ => (setTh s k { t with locked := true }, [])   -- applied at the SIGADDR record (address = model id)
      | some (.unreg i), _ => act s k (.unreg k i) s!"T{k} sigUnregister @{i}" (covUnreg s.st i) f
      | none, some i => act s k (.evClear i) s!"T{k} iv_signal_event @{i} clears active" "evClear-proc" (fun t => { f t with ev := none })
      | none, none => div (setTh s k (f t)) s!"T{k} took a spinlock outside any iv_signal operation"
  | ["SIGADDR", si, sa] =>
    match objNum si, sa.toNat?, t.api with
    | some i, some a, some (.reg i' n e h) =>
      if i ≠ i' then div s s!"T{k}: raw event of s{i} registered inside sigRegister s{i'}" else
      let s := { s with addr := upd s.addr i a, names := (a, i) :: s.names.filter (·.2 != i),
                        known := if s.known.contains a then s.known else a :: s.known }
      let (s, m) := act s k (.reg k a n e h) s!"T{k} sigRegister s{i}" (covReg s.st n h) (fun t => { t with stepped := true, pre := [] })
      t.pre.foldl (fun (acc : S × List String) o => let (s', m') := expectOut acc.1 k o; (s', acc.2 ++ m')) (s, m)
    | _, _, _ => div s s!"T{k}: raw event of an interest registered outside sigRegister"
  | ["SIGACTION", sn, sh] =>
    match sn.toNat? with
    | some n =>
      match t.api, t.stepped with
      | some (.reg _ _ _ _), false => (setTh s k { t with pre := t.pre ++ [.disp n (sh == "HANDLER")] }, [])
      | _, _ => expectOut s k (.disp n (sh == "HANDLER"))
    | none => (s, [s!"bad-log line {s.line}"])
  | ["SIGPOST", si] =>
    match objNum si with
    | some i =>
      if t.child then div s s!"T{k}: a signal delivered in a forked child posted interest s{i} of the parent"
      else expectOut s k (.post (s.addr i))
    | none => (s, [s!"bad-log line {s.line}"])
  | ["SIGPOSTED", si] =>
    match objNum si with
    | some i =>
      if t.child then (s, []) else
      match s.st.pend k with
      | h :: _ =>
        if h == s.addr i then act s k (.posted k) s!"T{k} wrote the post of s{i}" "posted" id
        else div s s!"T{k} wrote the post of s{i}, the model's next pending write is {showOutN s.names (.post h)}"
      | [] => div s s!"T{k} wrote the post of s{i}, the model has no write pending"
    | none => (s, [s!"bad-log line {s.line}"])
  | ["SIGSNAP", sa] =>
    let snap := (parseIds sa).map s.addr
    let bad := s.known.filter fun j =>
      s.st.reg j && (!s.st.this j || s.st.owner j == k) && (s.st.active j != snap.contains j)
    if bad.isEmpty then ({ s with cov := bump s.cov "snapshots" }, [])
    else div s s!"T{k} snapshot under sig_lock: `active` differs from the model for interests {bad} (code: active={snap})"
  | "SPINUNLOCK" :: _ =>
    let (s, m) := needEmpty s k "released sig_lock"
    (setTh s k { (s.th k) with locked := false }, m)
  | "RET" :: v :: _ =>
    match t.api with
    | some (.reg i n e h) =>
      if t.stepped then
        let (s, m) := needEmpty s k "returned from sigRegister"
        (setTh s k { (s.th k) with api := none }, m ++ (if v == "0" then [] else [s!"DIVERGE line {s.line}: sigRegister returned {v}"]))
      else
        -- no critical section: must be the range error
        let (s, m) := act s k (.reg k (s.addr i) n e h) s!"T{k} sigRegister s{i}" "reg-range-error" id
        let (s, m2) := if v == "-1" then expectOut s k .err else div s s!"sigRegister took no lock but returned {v}"
        (setTh s k { (s.th k) with api := none }, m ++ m2)
    | some (.unreg _) =>
      let (s, m) := needEmpty s k "returned from sigUnregister"
      let (s, m2) := if t.stepped then (s, []) else div s s!"T{k} sigUnregister took no lock"
      (setTh s k { (s.th k) with api := none }, m ++ m2)
    | none => (s, [])
  | ["SIGNAL-DELIVER", sn] =>
    match sn.toNat? with
    | some n =>
      let c := match step s.st (.sigThread k n) with
        | some (st', o) => if s.st.ownerPid = 0 ∨ s.st.ownerPid ≠ s.st.pid then "sigThread-silent-foreign-pid"
                           else if st'.pc k = some n then "sigThread-to-process-set" else covPosts "sigThread" o s.st
        | none => "sigThread"
      act s k (.sigThread k n) s!"T{k} signal handler for {n}" c (fun t => { t with hnd := some n })
    | none => (s, [s!"bad-log line {s.line}"])
  | ["SIGNAL-RETURN", _] =>
    let (s, m) := needEmpty s k "signal handler returned"
    let (s, m2) := match s.st.pc k with
      | some n => div { s with st := { s.st with pc := upd s.st.pc k none } } s!"T{k}: handler for {n} returned without walking the process-wide set although its own set woke nothing"
      | none => (s, [])
    (setTh s k { (s.th k) with hnd := none }, m ++ m2)
  | ["SIGNAL-DEFAULT", sn] =>
    match sn.toNat? with
    | some n => if s.st.disp n then div s s!"signal {n} took the default action while the model has the handler installed" else ({ s with cov := bump s.cov "default-action" }, [])
    | none => (s, [])
  | ["SIGEVENT", si] =>
    match (objNum si).map s.addr with
    | some i =>
      let (s, m) := act s k (.evRead i) s!"T{k} iv_signal_event {si} (raw event readable)" "evRead" id
      if s.st.this i then
        let (s, m2) := act s k (.evClear i) s!"T{k} iv_signal_event {si} clears active" "evClear-this" id
        (s, m ++ m2)
      else (setTh s k { (s.th k) with ev := some i }, m)
    | none => (s, [s!"bad-log line {s.line}"])
  | "CB" :: so :: sowner :: _ =>
    if so.startsWith "s" then
      match (objNum so).map s.addr with
      | some i =>
        let s := setTh s k { t with cbs := some i :: t.cbs }
        if s.st.stage i ≠ 2 then div s s!"T{k} user handler of {so} started but the model is not at the handler stage (stage {s.st.stage i})"
        else if s.st.owner i ≠ k ∨ sowner ≠ s!"owner=T{k}" then div s s!"user handler of {so} ran in T{k}, not in the registering thread T{s.st.owner i}"
        else ({ s with cov := bump s.cov "user-handler" }, [])
      | none => (s, [s!"bad-log line {s.line}"])
    else (setTh s k { t with cbs := none :: t.cbs }, [])
  | ["END"] =>
    match t.cbs with
    | some i :: rest => act (setTh s k { t with cbs := rest }) k (.evEnd i) s!"T{k} user handler of @{i} returns" "evEnd" id
    | none :: rest => (setTh s k { t with cbs := rest }, [])
    | [] => (s, [])
  | ["PID", sp] =>
    match sp.toNat? with
    | some p => act s k (.fork p) s!"fork: continue as pid {p}" "fork" id
    | none => (s, [s!"bad-log line {s.line}"])
  | ["CHILD-SIGNAL", sn] =>
    -- the child's memory is a copy taken at some earlier moment when sig_lock was free (the atfork handlers hold it
    -- across fork()); what it contains is irrelevant for the owner-pid check
    match sn.toNat?, step { s.st with lock := none, pend := fun _ => [] } (.fork (s.st.pid + 1)) with
    | some n, some (c, _) =>
      match step c (.sigThread k n) with
      | some (c', o) =>
        let s := setTh { s with cov := bump s.cov "child-signal", steps := s.steps + 1 } k { t with child := true }
        if o.isEmpty ∧ c'.pc k = none then (s, []) else div s s!"model: a delivery in the forked child would post {showOuts s.names o}"
      | none => div s "model: delivery in the child not enabled"
    | _, _ => (s, [s!"bad-log line {s.line}"])
  | ["CHILD-SIGNAL-RETURN", _] => (setTh s k { t with child := false }, [])
  | _ => (s, [])

def stepLine (s : S) (ws : List String) : S × List String :=
  let s := { s with line := s.line + 1 }
  match ws with
  | tk :: rest =>
    if tk.startsWith "T" then
      match objNum tk with
      | some k => step1 s k rest
      | none => (s, [])
    else (s, [])
  | [] => (s, [])

def run : IO Unit := do
  let out ← IO.getStdout
  let s ← loopLines (← IO.getStdin) out ({} : S) stepLine
  out.putStrLn s!"SUMMARY steps {s.steps} diverged {s.diverged}"
  for (k, n) in s.cov do
    out.putStrLn s!"COV {k} {n}"

end Ivy.Drv.Signal
