import Ivy.L2.RawSpec
import Ivy.Drv.Util
/-! T-sched replay driver for C09: reads the log written by the T-sched engine with the extension
/verif/harness/mt_raw.c, maps the records to actions of the LTS `Ivy.Raw` (one model instance per
`obj raw`), checks that every action is enabled and that the white-box observations (descriptor flags at
creation and after registration, content of the kernel object immediately before every drain and at the
end, O_NONBLOCK of the descriptor at every write, which thread runs the handler) agree with the model's
state.  Prints `DIVERGE …` (model and implementation disagree), `ENVBAD …` (the kernel answered outside
the kernel contract), `SUMMARY …`, `COV …`.

Poster identities: `pid = 1000*ctx + thread`, ctx 0 = thread code, 1 = signal handler running in that
thread, 2 = forked-child stand-in started from that thread, 3 = child started from a signal handler. -/
namespace Ivy.Drv.Raw
open Ivy.Raw

structure Obj where
  id : Nat
  st : St := St.init
  owner : Nat := 0
deriving Repr

structure Burst where
  obj : Nat
  pid : Nat
  remaining : Nat
  inflight : Bool
  epoch : Nat      -- registration whose descriptor the poster holds (a child keeps the one it was forked with)
deriving Repr

structure Th where
  id : Nat
  inSig : Bool := false
  cbs : List (Option Nat) := []
  bursts : List Burst := []
deriving Repr

structure D where
  cfg : Option Cfg := none
  objs : List Obj := []
  ths : List Th := []
  line : Nat := 0
  steps : Nat := 0
  diverged : Nat := 0
  envbad : Nat := 0
  cov : List (String × Nat) := []

def bump (c : List (String × Nat)) (k : String) : List (String × Nat) :=
  match c.find? (·.1 == k) with
  | some _ => c.map fun (a, n) => if a == k then (a, n + 1) else (a, n)
  | none => c ++ [(k, 1)]

def kv (ws : List String) (k : String) : Option String :=
  (ws.find? (·.startsWith (k ++ "="))).map fun w => (w.drop (k.length + 1)).toString

def kvNat (ws : List String) (k : String) : Option Nat := (kv ws k).bind (·.toNat?)
def kvInt (ws : List String) (k : String) : Option Int := (kv ws k).bind (·.toInt?)

def num1 (s : String) : Option Nat := (s.drop 1).toString.toNat?

def getObj (d : D) (i : Nat) : Obj := (d.objs.find? (·.id == i)).getD { id := i }
def setObj (d : D) (o : Obj) : D :=
  if d.objs.any (·.id == o.id) then { d with objs := d.objs.map fun x => if x.id == o.id then o else x }
  else { d with objs := d.objs ++ [o] }
def getTh (d : D) (t : Nat) : Th := (d.ths.find? (·.id == t)).getD { id := t }
def setTh (d : D) (t : Th) : D :=
  if d.ths.any (·.id == t.id) then { d with ths := d.ths.map fun x => if x.id == t.id then t else x }
  else { d with ths := d.ths ++ [t] }

def theCfg (d : D) : Cfg := d.cfg.getD { has2 := true, has1 := true, cap := 65536 }

def diverge (d : D) (msg : String) : D × List String :=
  ({ d with diverged := d.diverged + 1 }, [s!"DIVERGE line {d.line}: {msg}"])

def envbad (d : D) (msg : String) : D × List String :=
  ({ d with envbad := d.envbad + 1 }, [s!"ENVBAD line {d.line}: {msg}"])

def wresName : WRes → String
  | .ok => "ok" | .eagain => "eagain" | .eintr => "eintr" | .einval => "einval"
def pcName : Pc → String
  | .idle => "idle" | .drained => "drained" | .inHandler => "inHandler"

def showSt (s : St) : String :=
  s!"registered={s.registered} pc={pcName s.pc} content={s.k.content} pipe={s.k.isPipe} nbR={s.k.nbR} nbW={s.k.nbW} inUse={s.inUse} epoch={s.epoch} inflight={s.flights.map (·.pid)}"

/-- perform one model action on object `i`; `none` from the model = divergence -/
def act (d : D) (i : Nat) (a : Action) (what : String) : D × List String :=
  let o := getObj d i
  match step (theCfg d) o.st a with
  | some st' => (setObj { d with steps := d.steps + 1 } { o with st := st' }, [])
  | none => diverge d s!"{what} on r{i}: not an enabled action of the model in state [{showSt o.st}]"

def ctxName (pid : Nat) : String :=
  match pid / 1000 with | 0 => "thread" | 1 => "signal" | 2 => "child" | _ => "child-in-signal"

def andThen (r : D × List String) (f : D → D × List String) : D × List String :=
  let (d', o') := f r.1
  (d', r.2 ++ o')

def onRawFd (d : D) (t : Nat) (i : Nat) (ws : List String) : D × List String :=
  let isPipe := kv ws "kind" == some "pipe"
  let pre := kvNat ws "pre_nonblock" == some 1
  let cap := (kvNat ws "cap").getD 0
  let seen : Cfg := if isPipe then { has2 := false, has1 := false, cap := cap }
                    else if pre then { has2 := true, has1 := true, cap := 65536 } else { has2 := false, has1 := true, cap := 65536 }
  let r : D × List String :=
    match d.cfg with
    | none => ({ d with cfg := some seen }, [])
    | some c =>
      if c.has2 == seen.has2 && c.has1 == seen.has1 then
        (if isPipe then ({ d with cfg := some { c with cap := cap } }, []) else (d, []))
      else envbad d s!"r{i} is backed by {kv ws "kind"} (pre_nonblock={pre}) but an earlier registration saw has2={c.has2} has1={c.has1}: kernel availability changed"
  andThen r fun d =>
  let o := getObj d i
  let c := registerCreate (theCfg d) o.st.inUse
  -- every other object's model sees the shared latch being exercised
  let d := { d with objs := d.objs.map fun x => if x.id == i then x else
              match step (theCfg d) x.st .grabElsewhere with | some s' => { x with st := s' } | none => x }
  let chk : D × List String :=
    if c.1.isPipe != isPipe then diverge d s!"r{i} created as {kv ws "kind"} but the model selects pipe={c.1.isPipe} (latch {o.st.inUse})"
    else if c.1.nbR != pre then diverge d s!"r{i} created with O_NONBLOCK={pre} but the model says {c.1.nbR}"
    else (d, [])
  andThen chk fun d =>
  let d := setObj d { (getObj d i) with owner := t }
  let d := { d with cov := bump d.cov (if isPipe then "register-pipe" else if pre then "register-eventfd2" else "register-eventfd-old") }
  act d i .register "iv_event_raw_register"

def onRawFlags (d : D) (i : Nat) (ws : List String) : D × List String :=
  let o := getObj d i
  let rn := kvNat ws "r_nonblock" == some 1
  let wn := kvNat ws "w_nonblock" == some 1
  if !o.st.registered then diverge d s!"RAWFLAGS for r{i}, which the model has as unregistered"
  else if o.st.k.nbR != rn || o.st.k.nbW != wn then
    diverge d s!"r{i} descriptor flags after registration: read end O_NONBLOCK={rn} write end O_NONBLOCK={wn}; model read={o.st.k.nbR} write={o.st.k.nbW}"
  else if kvNat ws "obj_wfd_ok" != some 1 then diverge d s!"r{i}: the descriptors stored in the object are not the ones that were registered"
  else ({ d with cov := bump d.cov "flags-checked" }, [])

def beginNext (d : D) (t : Nat) : D × List String :=
  let th := getTh d t
  match th.bursts with
  | [] => (d, [])
  | b :: rest =>
    if b.remaining == 0 then (d, []) else
    let o := getObj d b.obj
    if !o.st.registered || o.st.epoch != b.epoch then (setTh d { th with bursts := { b with inflight := false } :: rest }, [])
    else
      let d := setTh d { th with bursts := { b with inflight := true } :: rest }
      act d b.obj (.postBegin b.pid) s!"iv_event_raw_post entered ({ctxName b.pid} context, T{t})"

def onRawPost (d : D) (t : Nat) (i : Nat) (ws : List String) : D × List String :=
  let n := (kvNat ws "n").getD 1
  let child := ws.contains "ctx=child"
  let th := getTh d t
  let ctx := (if th.inSig then 1 else 0) + (if child then 2 else 0)
  let pid := 1000 * ctx + t
  let o := getObj d i
  let label := if child then "child" else if th.inSig then "signal" else if o.owner == t then "owner" else "thread"
  let d := { d with cov := bump (bump d.cov s!"post-from-{label}") (if n ≥ 1000 then "burst-1000+" else if n > 1 then "burst" else "single") }
  let d := setTh d { th with bursts := { obj := i, pid := pid, remaining := n, inflight := false, epoch := o.st.epoch } :: th.bursts }
  beginNext d t

def onWrite (d : D) (t : Nat) (i : Nat) (ws : List String) : D × List String :=
  let th := getTh d t
  match th.bursts with
  | [] => diverge d s!"write on r{i}'s descriptor by T{t} outside any post"
  | b :: _ =>
    if b.obj != i then diverge d s!"T{t} is posting r{b.obj} but wrote to the descriptor of r{i}" else
    let o := getObj d i
    let errno := (kv ws "errno").getD "?"
    let ret := (kvInt ws "ret").getD (-1)
    let nb := kvNat ws "nonblock" == some 1
    let staleTag := ws.contains "stale"
    if errno == "EINTR" then
      let d := { d with cov := bump d.cov "write-eintr" }
      if b.inflight then act d i (.postWrite b.pid .eintr) "write → EINTR" else (d, [])
    else if b.remaining == 0 then diverge d s!"T{t}: more completed writes than posts on r{i}" else
    let modelStale := match findFlight o.st.flights b.pid with
      | some f => stale o.st f
      | none => true
    let fin (d : D) : D × List String :=
      let th := getTh d t
      match th.bursts with
      | b :: rest => beginNext (setTh d { th with bursts := { b with remaining := b.remaining - 1, inflight := false } :: rest }) t
      | [] => (d, [])
    if !b.inflight || modelStale then
      -- a descriptor of an earlier registration (child copy): nothing to predict except that it is one
      if !staleTag && o.st.registered && b.inflight then diverge d s!"write on r{i} by T{t}: model says the poster holds a stale descriptor, harness says live"
      else
        let d := { d with cov := bump d.cov "write-stale" }
        let r := if b.inflight then act d i (.postWrite b.pid .ok) "write on a stale descriptor" else (d, [])
        andThen r fin
    else if staleTag then diverge d s!"write on r{i} by T{t} tagged stale but the model has the poster on the current registration"
    else if nb != o.st.k.nbW then diverge d s!"write on r{i}: descriptor O_NONBLOCK={nb}, model says {o.st.k.nbW}"
    else
      let size := wsize o.st.inUse
      let during := match o.st.pc with | .inHandler => "write-during-handler" | .drained => "write-between-drain-and-handler" | .idle => "write-owner-idle"
      let res : Option WRes :=
        if errno == "0" then (if ret == (size : Int) then some .ok else none)
        else if errno == "EAGAIN" then some .eagain
        else if errno == "EINVAL" then some .einval
        else none
      match res with
      | none => diverge d s!"write on r{i} by T{t} returned ret={ret} errno={errno}; the model writes {size} byte(s) and expects {size}, EAGAIN or EINTR"
      | some res =>
        let d := { d with cov := bump (bump d.cov s!"write-{wresName res}") during }
        match step (theCfg d) o.st (.postWrite b.pid res) with
        | some st' => andThen (setObj { d with steps := d.steps + 1 } { o with st := st' }, []) fin
        | none =>
          if res == .eagain && o.st.k.content == 0 then
            andThen (envbad d s!"write on r{i} failed with EAGAIN although the object is empty (content 0)") fin
          else diverge d s!"write on r{i} by T{t} answered {wresName res}: not an enabled action of the model in state [{showSt o.st}]"

def onRawPosted (d : D) (t : Nat) (i : Nat) : D × List String :=
  let th := getTh d t
  match th.bursts with
  | [] => diverge d s!"RAWPOSTED r{i} by T{t} without RAWPOST"
  | b :: rest =>
    let d := setTh d { th with bursts := rest }
    if b.obj != i then diverge d s!"RAWPOSTED r{i} closes a post on r{b.obj}"
    else if b.remaining != 0 then
      diverge d s!"iv_event_raw_post on r{i} returned to T{t} with {b.remaining} post(s) that never completed a write (model: the write loop ends only on a result other than EINTR)"
    else (d, [])

def onDisp (d : D) (t : Nat) (i : Nat) (ws : List String) : D × List String :=
  let o := getObj d i
  let av := (kvInt ws "avail").getD (-1)
  if o.owner != t then diverge d s!"r{i} dispatched in T{t}, registered by T{o.owner}"
  else if av ≥ 0 && av != (o.st.k.content : Int) then
    diverge d s!"r{i}: kernel object holds {av} at the drain, model says {o.st.k.content}"
  else
    let d := { d with cov := bump d.cov (if av == 0 then "drain-eagain" else if o.st.k.isPipe && av > 1024 then "drain-partial" else "drain-data") }
    act d i (.ownerRead false) "iv_event_raw_got_event: read"

def onCb (d : D) (t : Nat) (name : String) : D × List String :=
  let th := getTh d t
  if name.startsWith "r" then
    match num1 name with
    | none => (d, [s!"bad-log line {d.line}"])
    | some i =>
      let o := getObj d i
      let d := setTh d { th with cbs := some i :: th.cbs }
      if o.owner != t then diverge d s!"handler of r{i} runs in T{t}; it was registered by T{o.owner}"
      else act { d with cov := bump d.cov "handler" } i .handlerStart "handler called"
  else (setTh d { th with cbs := none :: th.cbs }, [])

def onEnd (d : D) (t : Nat) : D × List String :=
  let th := getTh d t
  match th.cbs with
  | [] => (d, [s!"bad-log line {d.line}: END without CB"])
  | c :: rest =>
    let d := setTh d { th with cbs := rest }
    match c with
    | some i => act d i .handlerEnd "handler returned"
    | none => (d, [])

def onDispEnd (d : D) (i : Nat) : D × List String :=
  let o := getObj d i
  match o.st.pc with
  | .drained => diverge d s!"r{i}: the drain returned data but iv_event_raw_got_event returned without calling the handler"
  | .inHandler => diverge d s!"r{i}: dispatch ended while the model is still inside the handler"
  | .idle => (d, [])

def parseWaiters (ws : List String) : List Nat :=
  ws.filterMap fun w => match w.splitOn ":" with
    | [a, "wait"] => num1 a
    | _ => none

def onQuiescent (d : D) (ws : List String) : D × List String :=
  let waiters := parseWaiters ws
  d.objs.foldl (fun (r : D × List String) o =>
    if o.st.registered && waiters.contains o.owner then
      andThen r fun d =>
        let d := { d with cov := bump d.cov "blocked-check" }
        if o.st.pc != .idle then diverge d s!"quiescent: owner T{o.owner} is blocked but the model has r{o.id} at pc={pcName o.st.pc}"
        else if o.st.k.readable then
          diverge d s!"LOOPSPEC quiescent: owner T{o.owner} is blocked although r{o.id} is readable (content {o.st.k.content}) — level-triggered dispatch (C02/C03) did not hold"
        else if !(o.st.posts.all (coveredB o.st)) then
          diverge d s!"quiescent: r{o.id} has a completed post not followed by a handler entry although the descriptor is empty (contradicts C09_no_lost_post: the log is not a run of the model)"
        else (d, [])
    else r) (d, [])

def stepLine (d : D) (ws : List String) : D × List String :=
  let d := { d with line := d.line + 1 }
  match ws with
  | tw :: rec :: rest =>
    match num1 tw with
    | none => (d, [])
    | some t =>
      let objArg : Option Nat := rest.head?.bind fun w => if w.startsWith "r" then num1 w else none
      match rec, objArg with
      | "RAWFD", some i => onRawFd d t i rest
      | "RAWFLAGS", some i => onRawFlags d i rest
      | "RAWUNREG", some i => act { d with cov := bump d.cov "unregister" } i .unregister "iv_event_raw_unregister"
      | "RAWPOST", some i => onRawPost d t i rest
      | "WRITE", some i => onWrite d t i rest
      | "RAWPOSTED", some i => onRawPosted d t i
      | "DISP", some i => onDisp d t i rest
      | "DISPEND", some i => onDispEnd d i
      | "SPUR", some _ => ({ d with cov := bump d.cov "spurious-wakeup" }, [])
      | "CB", _ => (match rest.head? with | some nm => onCb d t nm | none => (d, []))
      | "END", _ => onEnd d t
      | "SIGNAL-DELIVER", _ => (setTh d { (getTh d t) with inSig := true }, [])
      | "SIGNAL-RETURN", _ => (setTh d { (getTh d t) with inSig := false }, [])
      | "QUIESCENT", _ => onQuiescent d rest
      | "RAW-END", some i =>
        let o := getObj d i
        let av := (kvInt rest "avail").getD (-1)
        if o.st.registered && av ≥ 0 && av != (o.st.k.content : Int) then
          diverge d s!"end of run: r{i} holds {av}, model says {o.st.k.content}"
        else (d, [])
      | "FATAL", _ => diverge d s!"iv_fatal reached ({" ".intercalate rest}); the model never reaches it (never_fatal)"
      | "BLOCKED-READ", _ => diverge d "the owner's drain would block: read on an empty blocking descriptor (owner_read_enabled)"
      | "BLOCKED-WRITE", _ => diverge d "a post would block: write on a blocking descriptor that is full (post_never_blocks)"
      | _, _ => (d, [])
  | _ => (d, [])

def run : IO Unit := do
  let out ← IO.getStdout
  let d ← loopLines (← IO.getStdin) out ({} : D) stepLine
  let open_ := d.ths.foldl (fun n t => n + t.bursts.length) 0
  out.putStrLn s!"SUMMARY objects {d.objs.length} steps {d.steps} diverged {d.diverged} envbad {d.envbad} posts_open_at_end {open_}"
  for (k, n) in d.cov do
    out.putStrLn s!"COV {k} {n}"

end Ivy.Drv.Raw
