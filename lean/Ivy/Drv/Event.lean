import Ivy.L2.Event
import Ivy.L2.EventSpec
import Ivy.Drv.Util
/-! T-sched replay driver for C08 (iv_event): reads the log of /verif/harness/mt_h.c (+ the mt_c08.c extension),
maps the records to actions of the LTS `Ivy.Event` — one LTS instance per owner thread — checks that each action
is enabled, and compares the white-box snapshots (`SNAP … pending=`, `XSNAP … task= armed= raw=`) with the model
state at the end of every critical section.  Prints `DIVERGE …` / `ARTEFACT …` / `bad-log …`, then
`SUMMARY …` and `COV <key> <n>`.

Mapping (thread k's record → action on the LTS of owner j):
  POST e owner=Tj            → postBegin k e
  UNLOCK evmu:Tj  in a post  → postCs k e                      (snapshot compared)
  POSTED e                   → postKick k e                    (KICK-SEND / KICK-WRITE must be present iff the model's post flag
                                                                 is set and k ≠ j)
  WRET n≥1, kick transport, model armed → kickWake, placed at the WRET once the owner's next record shows that the
                                kick was among the reported entries (a run directly after the wait); see `M.win`
  XSNAP/KICK-WRITE showing a consumed source (task flag dropped / raw counter below the model's) → taskWake / rawWake
                                                                 (the unlink / the read are not scheduling points; they are
                                                                 observed at the next snapshot)
  UNLOCK evmu:Tk by k, first critical section of a run → stealEmpty | stealRun head (then `CB e` must follow)
  END of an event handler    → handlerDone when emptyNow, else at the following UNLOCK: handlerDone | handlerNext head
  API evUnregister e … UNLOCK evmu → unregister e (one critical section: membership test + unlink under the lock)
  API evRegister e … RET 0   → register e
  QUIESCENT … Tk:wait        → block, then the quiescence test of the theorems (`quiescentB`)
-/
namespace Ivy.Drv.Event
open Ivy.Event

def NT : Nat := 24

structure Th where
  post : Option (Nat × Nat × Nat) := none     -- event, owner, phase (0 begun, 1 critical section done)
  kick : Bool := false
  unreg : Option (Nat × Bool) := none
  reg : Option Nat := none
  cbs : List (Option Nat) := []
  recheck : Bool := false
  expectCb : Option Nat := none
  snap : Option (Nat × List Nat) := none
  xsnap : Option (Nat × Bool × Option Bool × Option Nat) := none
  inWait : Bool := false

structure M where
  cfg : Cfg
  st : State
  alive : Bool := true
  /-- kick window: the owner's epoll_wait returned ≥ 1 entries while the kick was armed.  Whether the kick was among
  them (the batch holds numfds+1 entries; the timerfd may have taken the slot) is known only at the owner's next
  record: a run of the pending events directly after WRET = consumed.  `win` = model state at that WRET, `winActs` =
  the actions applied since; when the kick turns out consumed the state is rebuilt as win → kickWake → winActs, which
  is the true order (the consumption happened at WRET). -/
  win : Option State := none
  winActs : Array Action := #[]

structure S where
  raw : Bool := false
  ms : Array (Option M) := Array.replicate NT none
  ths : Array Th := Array.replicate NT {}
  line : Nat := 0
  diverged : Nat := 0
  artefact : Nat := 0
  actions : Nat := 0
  snaps : Nat := 0
  xsnaps : Nat := 0
  haveX : Bool := false
  quiesced : Nat := 0
  out : Array String := #[]
  cov : List (String × Nat) := []

def bump (c : List (String × Nat)) (k : String) : List (String × Nat) :=
  match c.find? (·.1 == k) with
  | some _ => c.map fun (a, n) => if a == k then (a, n + 1) else (a, n)
  | none => c ++ [(k, 1)]

def S.cv (s : S) (k : String) : S := { s with cov := bump s.cov k }
def S.div (s : S) (msg : String) : S :=
  { s with diverged := s.diverged + 1, out := s.out.push s!"DIVERGE line {s.line}: {msg}" }
def S.th (s : S) (k : Nat) : Th := s.ths[k]?.getD {}
def S.setTh (s : S) (k : Nat) (t : Th) : S := { s with ths := s.ths.set! k t }
def S.m (s : S) (k : Nat) : Option M := (s.ms[k]?.getD none).bind fun m => if m.alive then some m else none

def pcStr : Pc → String
  | .idle => "idle" | .blocked => "blocked" | .woken => "woken"
  | .inHandler e b => s!"inHandler(e{e},emptyNow={b})"

def pstStr : PSt → String
  | .outside => "-" | .inCs e => s!"inCs(e{e})" | .afterCs e b => s!"afterCs(e{e},post={b})"

def evs (l : List Nat) : String := ",".intercalate (l.map fun e => s!"e{e}")

def stStr (st : State) : String :=
  let ps := (st.posters.zipIdx.filter (fun (p, _) => p != .outside)).map fun (p, i) => s!"T{i}:{pstStr p}"
  s!"[registered={evs st.registered} pending={evs st.pending} batch={evs st.batch} pc={pcStr st.pc} armed={st.armed} raw={st.rawCount} task={st.localTask} posters={ps}]"

def actStr : Action → String
  | .postBegin t e => s!"postBegin(T{t},e{e})" | .postCs t e => s!"postCs(T{t},e{e})" | .postKick t e => s!"postKick(T{t},e{e})"
  | .kickWake => "kickWake" | .rawWake => "rawWake" | .taskWake => "taskWake" | .stealEmpty => "stealEmpty"
  | .stealRun e => s!"stealRun(e{e})" | .handlerDone => "handlerDone" | .handlerNext e => s!"handlerNext(e{e})"
  | .unregister e => s!"unregister(e{e})" | .register e => s!"register(e{e})" | .block => "block" | .unblock => "unblock"

def actKind : Action → String
  | .postBegin _ _ => "postBegin" | .postCs _ _ => "postCs" | .postKick _ _ => "postKick"
  | .kickWake => "kickWake" | .rawWake => "rawWake" | .taskWake => "taskWake" | .stealEmpty => "stealEmpty"
  | .stealRun _ => "stealRun" | .handlerDone => "handlerDone" | .handlerNext _ => "handlerNext"
  | .unregister _ => "unregister" | .register _ => "register" | .block => "block" | .unblock => "unblock"

/-- apply an LTS action on owner j's instance; not enabled = divergence -/
def S.act (s : S) (j : Nat) (a : Action) : S :=
  match s.m j with
  | none => s
  | some m =>
    match step m.cfg m.st a with
    | some st' =>
      let m := if m.win.isSome then { m with winActs := m.winActs.push a } else m
      { s with ms := s.ms.set! j (some { m with st := st' }), actions := s.actions + 1, cov := bump s.cov (actKind a) }
    | none => s.div s!"owner T{j}: action {actStr a} is not enabled in the model state {stStr m.st}"

/-- resolve an open kick window of owner j -/
def S.closeWin (s : S) (j : Nat) (consumed : Bool) : S :=
  match s.m j with
  | none => s
  | some m =>
    match m.win with
    | none => s
    | some st0 =>
      let acts := m.winActs
      let m := { m with win := none, winActs := #[] }
      if !consumed then { s with ms := s.ms.set! j (some m), cov := bump s.cov "kick-window-not-consumed" } else
      -- rebuild: state at WRET → kickWake → the actions of the window, each checked again
      let s := { s with ms := s.ms.set! j (some { m with st := st0 }) }
      let s := (s.act j .kickWake).cv (if acts.isEmpty then "kick-window-consumed" else "kick-window-consumed-reordered")
      acts.foldl (fun s a =>
        match s.m j with
        | some m' =>
          match Ivy.Event.step m'.cfg m'.st a with
          | some st' => { s with ms := s.ms.set! j (some { m' with st := st' }) }
          | none => s.div s!"owner T{j}: action {actStr a} is not enabled after placing the kick consumption at the WRET {stStr m'.st}"
        | none => s) s

def tid? (w : String) : Option Nat := if w.startsWith "T" then (w.drop 1).toNat? else none
def ev? (w : String) : Option Nat := if w.startsWith "e" then (w.drop 1).toNat? else none
def after (pre : String) (w : String) : Option String := if w.startsWith pre then some (w.drop pre.length).toString else none

def parsePending (w : String) : Option (List Nat) :=
  match after "pending=" w with
  | none => none
  | some "" => some []
  | some r => (r.splitOn ",").mapM ev?

/-- consumed wake sources observed through a white-box snapshot: apply the owner's wake action now -/
def S.syncTask (s : S) (j : Nat) (task : Bool) : S :=
  match s.m j with
  | some m => if m.st.localTask && !task then (s.act j .taskWake).cv "lazy-taskWake" else s
  | none => s

def S.syncRaw (s : S) (j : Nat) (raw : Option Nat) : S :=
  match s.m j, raw with
  | some m, some r => if m.cfg.raw && r < m.st.rawCount then (s.act j .rawWake).cv "lazy-rawWake" else s
  | _, _ => s

/-- compare the snapshots taken at the end of a critical section with the model -/
def S.compare (s : S) (k j : Nat) (skipWake : Bool) : S :=
  let t := s.th k
  match s.m j with
  | none => s
  | some m =>
    let s := match t.snap with
      | some (j', l) =>
        let s := { s with snaps := s.snaps + 1 }
        if j' != j then s.div s!"snapshot of evmu:T{j'} inside a critical section on evmu:T{j}"
        else if l != m.st.pending then
          s.div s!"pending list after the critical section of T{k} on evmu:T{j}: implementation {evs l}, model {evs m.st.pending} {stStr m.st}"
        else s
      | none => s.div s!"critical section on evmu:T{j} without a SNAP record"
    match t.xsnap with
    | some (_, task, armed, raw) =>
      let s := { s with xsnaps := s.xsnaps + 1 }
      let s := if task != m.st.localTask then
          s.div s!"events_local registered={task} in the implementation, {m.st.localTask} in the model (owner T{j}) {stStr m.st}" else s
      if skipWake then s else
      let s := match armed with
        | _ => if m.win.isSome then s else
        match armed with
        | some a => if !m.cfg.raw && a != m.st.armed then
            s.div s!"one-shot kick armed={a} in the kernel, {m.st.armed} in the model (owner T{j}) {stStr m.st}" else s
        | none => if !m.cfg.raw && m.st.armed then s.div s!"model has the kick armed but the owner T{j} has no kick registration" else s
      match raw with
        | some r => if m.cfg.raw && r != m.st.rawCount then
            s.div s!"raw event counter {r} in the kernel, {m.st.rawCount} in the model (owner T{j}) {stStr m.st}" else s
        | none => s
    | none => s

def S.clearSnap (s : S) (k : Nat) : S := s.setTh k { s.th k with snap := none, xsnap := none }

/-- the end of a critical section of thread k on owner j's mutex -/
def S.unlock (s : S) (k j : Nat) : S :=
  let t := s.th k
  -- consumed wake sources first
  let s := match t.xsnap with
    | some (_, task, _, raw) => (s.syncTask j task).syncRaw j raw
    | none => s
  match t.post with
  | some (e, j', 0) =>
    if j' != j then (s.div s!"T{k} posts e{e} of owner T{j'} but locked evmu:T{j}").clearSnap k else
    let queued := match s.m j with
      | some m => m.st.pending.contains e || m.st.batch.contains e
      | none => false
    let wasEmpty := match s.m j with
      | some m => m.st.pending.isEmpty
      | none => false
    let s := s.act j (.postCs k e)
    let s := s.cv (if queued then "post-coalesced" else if wasEmpty then (if k == j then "post-first-self" else "post-first-kick") else "post-appended-nokick")
    let s := s.setTh k { s.th k with post := some (e, j, 1) }
    (s.compare k j false).clearSnap k
  | _ =>
    if k != j then (s.div s!"T{k} runs a critical section on evmu:T{j} outside iv_event_post").clearSnap k else
    match t.unreg with
    | some (e, false) =>
      let queued := match s.m j with
        | some m => m.st.pending.contains e || m.st.batch.contains e
        | none => false
      let s := s.act j (.unregister e)
      let s := s.setTh k { s.th k with unreg := some (e, true) }
      let last := match s.m j with
        | some m => m.st.registered.isEmpty
        | none => false
      ((s.compare k j last).cv (if queued then "unregister-queued" else "unregister-idle")).clearSnap k
    | _ =>
      if t.recheck then
        let s := s.setTh k { s.th k with recheck := false }
        let s := match s.m j with
          | some m =>
            match m.st.batch with
            | [] => (s.act j .handlerDone).cv "recheck-batch-emptied"
            | e :: _ => (s.act j (.handlerNext e)).setTh k { s.th k with expectCb := some e, recheck := false }
          | none => s
        (s.compare k j false).clearSnap k
      else
        -- first critical section of __iv_event_run_pending_events
        let s := match s.m j with
          | some m => if m.win.isSome then s.closeWin j (m.st.pc != Pc.woken) else s
          | none => s
        let s := match s.m j with
          | some m =>
            if m.st.pc != Pc.woken then
              s.div s!"owner T{j} runs pending events but no wake source was consumed {stStr m.st}"
            else
              match m.st.pending with
              | [] => s.act j .stealEmpty
              | e :: rest => ((s.act j (.stealRun e)).setTh k { s.th k with expectCb := some e }).cv (if rest.isEmpty then "steal-1" else "steal-many")
          | none => s
        (s.compare k j false).clearSnap k

def S.ownerChecks (s : S) (k : Nat) (what : String) : S :=
  let s := s.closeWin k false
  let t := s.th k
  let s := match t.expectCb with
    | some e => (s.div s!"owner T{k}: model started the handler of e{e} but the implementation went on with {what}").setTh k { t with expectCb := none }
    | none => s
  match s.m k with
  | some m => if m.st.pc == Pc.woken then s.div s!"owner T{k}: wake source consumed but pending events not run before {what}" else s
  | none => s

def step (s : S) (ws : List String) : S :=
  let s := { s with line := s.line + 1 }
  match ws with
  | tk :: rest =>
    match tid? tk with
    | none => if tk == "HARNESS-ERROR" then { s with out := s.out.push s!"bad-log line {s.line}: {ws}" } else s
    | some k =>
      if k ≥ NT then { s with out := s.out.push s!"bad-log line {s.line}: thread id" } else
      let t := s.th k
      match rest with
      | ["INIT", meth] =>
        let raw := !(meth == "method=epoll" || meth == "method=epoll-timerfd")
        { s with raw := raw, ms := s.ms.set! k (some { cfg := ⟨k, raw⟩, st := State.init NT }) }
      | ["DEINIT"] =>
        match s.ms[k]?.getD none with
        | some m => { s with ms := s.ms.set! k (some { m with alive := false }) }
        | none => s
      | ["API", "evRegister", e] =>
        match ev? e with
        | some e => (s.ownerChecks k "evRegister").setTh k { t with reg := some e }
        | none => s
      | ["API", "evUnregister", e] =>
        match ev? e with
        | some e => (s.ownerChecks k "evUnregister").setTh k { t with unreg := some (e, false) }
        | none => s
      | "API" :: _ => s
      | ["RET", v] =>
        match t.reg, t.unreg with
        | some e, _ =>
          let s := s.setTh k { t with reg := none }
          if v == "0" then s.act k (.register e) else s.cv "register-failed"
        | none, some (e, applied) =>
          let s := s.setTh k { t with unreg := none }
          if applied then s else
          -- iv_event_unregister always runs one critical section on the owner's mutex (test + unlink under the lock)
          (s.div s!"iv_event_unregister(e{e}) returned without a critical section on evmu:T{k}").act k (.unregister e)
        | none, none => s
      | ["POST", e, ow] =>
        match ev? e, (after "owner=" ow).bind tid? with
        | some e, some j =>
          if j == k && t.inWait then
            { s with artefact := s.artefact + 1, out := s.out.push s!"ARTEFACT line {s.line}: stimulus posts e{e} from its owner thread T{k} while that thread is inside the kernel wait" }
          else
            let s := if j == k then s.ownerChecks k "a post" else s
            (s.act j (.postBegin k e)).setTh k { (s.th k) with post := some (e, j, 0), kick := false }
        | _, _ => { s with out := s.out.push s!"bad-log line {s.line}: {ws}" }
      | ["POSTED", _] =>
        match t.post with
        | some (e, j, 1) =>
          let s := s.setTh k { t with post := none, kick := false }
          let s := match s.m j with
            | some m =>
              let post := (m.st.posters[k]?.getD .outside) == PSt.afterCs e true
              let want := post && k != j
              let s := if post && k == j then s.cv "self-post-task" else s
              if (m.cfg.raw && !s.haveX) then s
              else if want && !t.kick then s.div s!"T{k} made the pending list of T{j} non-empty (post flag set) but sent no kick"
              else if !want && t.kick then s.div s!"T{k} sent a kick to T{j} although the model's post flag is {post}"
              else s
            | none => s
          s.act j (.postKick k e)
        | some (e, j, _) => (s.div s!"T{k} returned from iv_event_post(e{e}) of T{j} without a critical section").setTh k { t with post := none }
        | none => if t.inWait then s else s.div s!"POSTED without POST in T{k}"
      | ["LOCK", _] => s
      | ["SNAP", mu, pend] =>
        match (after "evmu:" mu).bind tid?, parsePending pend with
        | some j, some l => s.setTh k { t with snap := some (j, l) }
        | _, _ => { s with out := s.out.push s!"bad-log line {s.line}: {ws}" }
      | ["XSNAP", mu, task, armed, raw] =>
        match (after "evmu:" mu).bind tid? with
        | some j =>
          let tk := task == "task=1"
          let a := (after "armed=" armed).bind fun x => if x == "1" then some true else if x == "0" then some false else none
          let r := (after "raw=" raw).bind (·.toNat?)
          { s with haveX := true }.setTh k { t with xsnap := some (j, tk, a, r) }
        | none => { s with out := s.out.push s!"bad-log line {s.line}: {ws}" }
      | ["UNLOCK", mu] =>
        match (after "evmu:" mu).bind tid? with
        | some j => if (s.m j).isSome then s.unlock k j else s.clearSnap k
        | none => s
      | ["KICK-SEND"] =>
        match t.post with
        | some (_, _, 1) => s.setTh k { t with kick := true }
        | _ => s.div s!"T{k} armed a one-shot kick outside iv_event_post"
      | ["KICK-WRITE", ow, before] =>
        match tid? ow, (after "before=" before).bind (·.toNat?) with
        | some j, some b =>
          match t.post with
          | some (_, j', 1) =>
            let s := if j' != j then s.div s!"T{k} wrote to the raw event of T{j} while posting to T{j'}" else s
            let n0 := s.actions
            let s := s.syncRaw j (some b)
            let s := if s.actions != n0 then s.cv "raw-read-raced-write" else s
            let s := match s.m j with
              | some m => if m.cfg.raw && b != m.st.rawCount then
                  s.div s!"raw event counter before the kick write is {b} in the kernel, {m.st.rawCount} in the model (owner T{j})" else s
              | none => s
            s.setTh k { (s.th k) with kick := true }
          | _ => s.div s!"T{k} wrote to the raw event of T{j} outside iv_event_post"
        | _, _ => s
      | "WAIT" :: _ => (s.ownerChecks k "the kernel wait").setTh k { (s.th k) with inWait := true }
      | ["WRET", n] =>
        let s := s.setTh k { t with inWait := false }
        match s.m k, (after "n=" n).bind (·.toNat?) with
        | some m, some c =>
          if !m.cfg.raw && c ≥ 1 && m.st.armed then
            { s with ms := s.ms.set! k (some { m with win := some m.st, winActs := #[] }) }
          else s
        | _, _ => s
      | "CB" :: obj :: ow :: _ =>
        match ev? obj, (after "owner=" ow).bind tid? with
        | some e, some j =>
          let s := if j != k then s.div s!"handler of e{e} (owner T{j}) invoked in thread T{k}" else s
          let s := match t.expectCb with
            | some e' => if e' == e then s else s.div s!"handler of e{e} started but the model delivers e{e'} next"
            | none => if (s.m k).isSome then s.div s!"handler of e{e} started but the model is not at a handler start" else s
          s.setTh k { (s.th k) with expectCb := none, cbs := some e :: t.cbs }
        | _, _ => (s.ownerChecks k s!"callback {obj}").setTh k { (s.th k) with cbs := none :: t.cbs }
      | ["END"] =>
        match t.cbs with
        | some e :: tl =>
          let s := s.setTh k { t with cbs := tl }
          match s.m k with
          | some m =>
            match m.st.pc with
            | .inHandler e' en =>
              let s := if e' != e then s.div s!"handler of e{e} returned but the model is in the handler of e{e'}" else s
              if en then (s.act k .handlerDone).cv "break-emptyNow" else s.setTh k { (s.th k) with recheck := true }
            | _ => s.div s!"handler of e{e} returned but the model is not inside a handler {stStr m.st}"
          | none => s
        | none :: tl => s.setTh k { t with cbs := tl }
        | [] => s
      | "QUIESCENT" :: who =>
        who.foldl (fun s w =>
          match w.splitOn ":" with
          | [tw, how] =>
            match tid? tw with
            | some j =>
              match s.m j with
              | some m =>
                if how == "wait" then
                  let s := s.act j .block
                  match s.m j with
                  | some m =>
                    let s := { s with quiesced := s.quiesced + 1 }
                    if !quiescentB m.cfg m.st then
                      s.div s!"owner T{j} sleeps for ever at global quiescence although the model says a wake-up is due {stStr m.st}"
                    else if !(m.st.pending.isEmpty && m.st.batch.isEmpty) then
                      s.div s!"LOST: owner T{j} quiescent with undelivered posts {stStr m.st}"
                    else s.cv "quiescent-ok"
                  | none => s
                else if how == "mutex" && !m.st.registered.isEmpty then s.div s!"owner T{j} is blocked on a mutex at global quiescence"
                else s
              | none => s
            | none => s
          | _ => s) s
      | "FATAL" :: msg => s.div s!"library called iv_fatal: {msg}"
      | _ => s
  | [] => s

partial def loop (h : IO.FS.Stream) (out : IO.FS.Stream) (s : S) : IO S := do
  let line ← h.getLine
  if line.isEmpty then return s
  let ws := words line
  let s := step s ws
  for o in s.out do out.putStrLn o
  loop h out { s with out := #[] }

def run : IO Unit := do
  let out ← IO.getStdout
  let s ← loop (← IO.getStdin) out {}
  out.putStrLn s!"SUMMARY lines {s.line} actions {s.actions} snaps {s.snaps} xsnaps {s.xsnaps} quiesced {s.quiesced} artefact {s.artefact} diverged {s.diverged}"
  for (k, n) in s.cov do
    out.putStrLn s!"COV {k} {n}"

end Ivy.Drv.Event
