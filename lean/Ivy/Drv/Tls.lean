import Ivy.L0.Tls
import Ivy.Drv.Util
/-! T-diff driver for iv_tls.c (`/verif/harness/tls_h.c`): same op lines, same result lines.
  base <sizeof(struct iv_state)> | reg <size> <hasInit> <hasDeinit> | total | tinit | tdeinit | ptr <i> | ptr-unreg -/
namespace Ivy.Drv.Tls
open Ivy.Tls

def step (s : St) (ws : List String) : St × List String :=
  match ws with
  | ["base", b] => (St.init b.toNat!, [s!"BASE {b}"])
  | ["reg", sz, hi, hd] =>
    match sz.toNat? with
    | none => (s, ["bad-op"])
    | some n =>
      match register s ⟨n, hi == "1", hd == "1"⟩ with
      | some s' => (s', [s!"REG {s.last}"])
      | none => (s, ["FATAL"])
  | ["total"] => (s, [s!"TOTAL {total s}"])
  | ["tinit"] => let (s', l) := threadInit s; (s', ["INIT " ++ natsToString l])
  | ["tdeinit"] => (s, ["DEINIT " ++ natsToString (threadDeinit s)])
  | ["ptr", i] =>
    match s.users[i.toNat!]? with
    | some (_, off) => (s, [match userPtr off with | some o => s!"PTR {o}" | none => "FATAL"])
    | none => (s, ["bad-op"])
  | ["ptr-unreg"] => (s, [match userPtr 0 with | some o => s!"PTR {o}" | none => "FATAL"])
  | _ => (s, ["bad-op"])

def run : IO Unit := do
  let out ← IO.getStdout
  let _ ← loopLines (← IO.getStdin) out (St.init 0) step
  pure ()

end Ivy.Drv.Tls
