import Ivy.L3.Popen
import Ivy.Drv.Util
/-! T-sched replay driver for iv_popen.c: reads the log written by /verif/harness/mt_popen.c (on top of
mt_h.c / mt_proc.c), maps the records to actions of the model `Ivy.Popen` (one model instance per
running-child record), checks that every action is enabled and fault-free in the model and that the model
predicts the calls the real code made (allocation, spawn, timer (un)registration with its expiry, kill
requests and kill() system calls, interest unregistration, free, the descriptor returned, the parent's
and the child's descriptor tables).  Prints DIVERGE… / SUMMARY / COV lines. -/
namespace Ivy.Drv.Popen
open Ivy.Popen

/-- observation window of one thread -/
inductive Win where
  | idle
  | submit (q : Nat) (ty : Option Bool) (t : Nat)
  | close (q : Nat) (rec : Int) (t : Nat)
  | timer (rec : Nat) (t : Nat)
  | wait (rec : Nat) (status : Nat) (t : Nat)
deriving Repr

structure SubmitObs where
  before   : List (Nat × File) := []
  haveBefore : Bool := false
  pipe     : Option (Nat × Nat × Nat) := none    -- r, w, id
  pipeFail : Bool := false
  forkRet  : Option Bool := none
  dn       : Option Nat := none
  inChild  : Bool := false
  childTab : Option (List (Nat × String)) := none
  exec     : Bool := false
  recId    : Option Nat := none
  retFd    : Int := -1
  retEnd   : String := ""
  pid      : Nat := 0
deriving Repr

structure Th where
  win   : Win := .idle
  outs  : Array Out := #[]
  sub   : SubmitObs := {}
  killSys : Bool := false        -- a kill() system call was seen in this timer window
  killRet : Int := 0
  killDies : Bool := false       -- the CHILD record caused by that kill() was seen
  afterKill : Bool := false      -- PKILLRET seen
  later : Array Nat := #[]       -- spontaneous status changes seen later in the window (applied after the atomic step)
  laterPid : Array Nat := #[]
  laterReap : Array Nat := #[]   -- records whose status ANOTHER thread reaped after this window's kill() (under the library's lock the
                                 -- kill came first; the model's timer step is taken at the window's END, so the reap is applied after it)
deriving Repr

structure S where
  line : Nat := 0
  recs : List (Nat × St) := []         -- record id → model state
  pidOf : List (Nat × Nat) := []       -- record id → pid
  qRec : List (Nat × Nat) := []        -- request → its latest record
  ths : List (Nat × Th) := []
  steps : Nat := 0
  diverged : Nat := 0
  cov : List (String × Nat) := []
deriving Repr

def bump (c : List (String × Nat)) (k : String) : List (String × Nat) :=
  match c.find? (·.1 == k) with
  | some _ => c.map fun (a, n) => if a == k then (a, n + 1) else (a, n)
  | none => c ++ [(k, 1)]

def setKV {β : Type} (l : List (Nat × β)) (k : Nat) (v : β) : List (Nat × β) :=
  if l.any (·.1 == k) then l.map fun (a, b) => if a == k then (a, v) else (a, b) else l ++ [(k, v)]

def hexVal (c : Char) : Option Nat :=
  if '0' ≤ c ∧ c ≤ '9' then some (c.toNat - '0'.toNat)
  else if 'a' ≤ c ∧ c ≤ 'f' then some (c.toNat - 'a'.toNat + 10)
  else none

def parseHex (s : String) : Option Nat :=
  let s := if s.startsWith "0x" then (s.drop 2).toString else s
  if s.isEmpty then none else
  s.toList.foldl (fun acc c => match acc, hexVal c with
    | some a, some v => some (a * 16 + v)
    | _, _ => none) (some 0)

/-- value of `key=value` -/
def kv (key : String) (ws : List String) : Option String :=
  (ws.find? (fun w => w.startsWith (key ++ "="))).map (fun w => (w.drop (key.length + 1)).toString)

def kvNat (key : String) (ws : List String) : Option Nat := (kv key ws).bind String.toNat?
def kvInt (key : String) (ws : List String) : Option Int := (kv key ws).bind String.toInt?

def recNum (w : String) : Option Nat :=
  if w.startsWith "rec" then (w.drop 3).toString.toNat? else none

def qNum (w : String) : Option Nat :=
  if w.startsWith "q" then (w.drop 1).toString.toNat? else none

/-- `0=other 3=pipeR0 …` -/
def parseTab (ws : List String) : List (Nat × String) :=
  ws.filterMap fun w =>
    match w.splitOn "=" with
    | [a, b] => a.toNat?.map (fun n => (n, b))
    | _ => none

def fileOf (pipeId : Option Nat) (k : String) : File :=
  if k == "null" then .null
  else match pipeId with
    | some id => if k == s!"pipeR{id}" then .pipeR else if k == s!"pipeW{id}" then .pipeW else .other
    | none => .other

def tabFn (l : List (Nat × File)) : FdTab := fun x => l.lookup x

def fileName : Option File → String
  | none => "-"
  | some .null => "null"
  | some .pipeR => "pipeR"
  | some .pipeW => "pipeW"
  | some .other => "other"

def showTab (t : FdTab) : String :=
  " ".intercalate ((List.range 48).filterMap fun x => (t x).map fun f => s!"{x}={fileName (some f)}")

def sameTab (t : FdTab) (l : List (Nat × File)) : Bool :=
  (List.range 48).all fun x => t x == l.lookup x

def lowestFree (t : FdTab) : Nat := ((List.range 48).find? fun x => (t x).isNone).getD 48

def getTh (s : S) (k : Nat) : Th := (s.ths.lookup k).getD {}
def setTh (s : S) (k : Nat) (t : Th) : S := { s with ths := setKV s.ths k t }
def getRec (s : S) (r : Nat) : Option St := s.recs.lookup r
def setRec (s : S) (r : Nat) (m : St) : S := { s with recs := setKV s.recs r m }

def div (s : S) (msg : String) : S × List String :=
  ({ s with diverged := s.diverged + 1 }, [s!"DIVERGE line {s.line}: {msg}"])

/-- advance the instance's loop time to `t` -/
def tickTo (m : St) (t : Nat) : St := if m.now < t then { m with now := t } else m

/-- apply one model action to record `r`; compare the outputs when `expect` is given -/
def act (s : S) (r : Nat) (t : Option Nat) (a : Act) (expect : Option (List Out)) (what : String) : S × List String :=
  match getRec s r with
  | none => div s s!"{what}: unknown record rec{r}"
  | some m =>
    let m := match t with | some t => tickTo m t | none => m
    match step m a with
    | .ok m' o =>
      let s := { setRec s r m' with steps := s.steps + 1 }
      match expect with
      | some e =>
        if e == o then (s, [])
        else div s s!"{what} rec{r}: implementation did {repr e}, model predicts {repr o}"
      | none => (s, [])
    | .fault f => div (setRec s r m) s!"{what} rec{r}: the model faults ({repr f}) — the code touches freed memory / double (un)registration"
    | .disabled => div (setRec s r m) s!"{what} rec{r}: not possible in the model state recSt={repr m.recSt} attached={m.attached} timerReg={m.timerReg} timerAt={m.timerAt} now={m.now} waitReg={m.waitReg} dead={m.dead} pending={m.pending} kq={m.kq} alive={m.alive} isOpen={m.isOpen}"

/-- the record whose child has this pid and has not been reaped in the model -/
def recOfPid (s : S) (pid : Nat) : Option Nat :=
  ((s.pidOf.reverse.find? fun (r, p) => p == pid && ((getRec s r).map (fun m => !m.reaped)).getD false).map (·.1))

def procEvent (s : S) (pid status : Nat) : S × List String :=
  match recOfPid s pid with
  | none => (s, [])
  | some r =>
    let s := { s with cov := bump s.cov (if isTerminal status then "proc-terminal" else "proc-stopcont") }
    act s r none (.procEvent status) none "CHILD status change"

/-- finish a submit window: run the model, compare outputs and descriptor tables -/
def finishSubmit (s : S) (tid q : Nat) (ty : Option Bool) (t : Nat) (th : Th) (after : List (Nat × String)) : S × List String :=
  let o := th.sub
  match o.recId with
  | none => div (setTh s tid {}) "submit without an allocation record"
  | some r =>
    -- the request structure is reused: the previous record of this request no longer is what request->child points at
    let (s, m0) := match s.qRec.lookup q with
      | some old =>
        match getRec s old with
        | some mo =>
          match step mo .reqReset with
          | .ok mo' _ => (setRec s old mo', [])
          | _ => ({ s with diverged := s.diverged + 1 }, [s!"DIVERGE line {s.line}: request q{q} submitted again while the model still has it open"])
        | none => (s, [])
      | none => (s, [])
    let s := setRec s r (St.init t)
    let s := { s with qRec := setKV s.qRec q r, pidOf := if o.forkRet == some true then setKV s.pidOf r o.pid else s.pidOf }
    let pipeOk := o.pipe.isSome
    let forkOk := o.forkRet == some true
    let observed := th.outs.toList
    let (s, m1) := match getRec s r with
      | none => (s, [])
      | some m =>
        match step m (.submit ty pipeOk forkOk) with
        | .ok m' mo =>
          let s := { setRec s r m' with steps := s.steps + 1 }
          let mo' := mo.filter (· != Out.closeBoth)
          if mo' == observed then (s, [])
          else ({ s with diverged := s.diverged + 1 }, [s!"DIVERGE line {s.line}: submit rec{r}: implementation did {repr observed}, model predicts {repr mo'}"])
        | _ => ({ s with diverged := s.diverged + 1 }, [s!"DIVERGE line {s.line}: submit rec{r}: not possible in the model"])
    -- descriptors
    let before : FdTab := tabFn o.before
    let (s, m2) : S × List String :=
      match ty, o.pipe with
      | some fr, some (p0, p1, id) =>
        if (before p0).isSome || (before p1).isSome || p0 == p1 then
          ({ s with diverged := s.diverged + 1 }, [s!"bad-log line {s.line}: pipe() returned descriptors in use"])
        else
          let (pt, ret) := parentSide fr before p0 p1 forkOk
          let afterL := after.map fun (n, k) => (n, fileOf (some id) k)
          let okTab := sameTab pt afterL
          let okRet := (match ret with | some fd => o.retFd == (fd : Int) | none => o.retFd < 0)
          let okEnd := (match ret with
            | some _ => o.retEnd == (if fr then "pipeR" else "pipeW")
            | none => o.retEnd == "none")
          let msgs1 := if okTab && okRet && okEnd then [] else
            [s!"DIVERGE line {s.line}: submit rec{r} parent side: implementation returned fd={o.retFd} end={o.retEnd} table [{" ".intercalate (after.map fun (n, k) => s!"{n}={k}")}], model returns {repr ret} table [{showTab pt}]"]
          let msgs2 :=
            if forkOk then
              match o.dn, o.childTab with
              | some dn, some ct =>
                let ct0 := afterPipe before p0 p1
                if (ct0 dn).isSome then [s!"bad-log line {s.line}: open() in the child returned a descriptor in use"] else
                let cm := childSide fr ct0 p0 p1 dn
                let ctl := ct.map fun (n, k) => (n, fileOf (some id) k)
                if sameTab cm ctl && o.exec then [] else
                  [s!"DIVERGE line {s.line}: submit rec{r} child side: implementation ends with [{" ".intercalate (ct.map fun (n, k) => s!"{n}={k}")}] exec={o.exec}, model [{showTab cm}]"]
              | _, _ => [s!"DIVERGE line {s.line}: submit rec{r}: the child-side function did not run to the end"]
            else if o.childTab.isSome then [s!"DIVERGE line {s.line}: child side ran although fork failed"] else []
          ({ s with diverged := s.diverged + msgs1.length + msgs2.length }, msgs1 ++ msgs2)
      | _, _ =>
        -- no pipe was made: the table must be unchanged
        let afterL := after.map fun (n, k) => (n, fileOf none k)
        if sameTab before afterL && o.retFd < 0 then (s, [])
        else ({ s with diverged := s.diverged + 1 }, [s!"DIVERGE line {s.line}: failed submit changed the descriptor table or returned a descriptor"])
    let key := match ty, pipeOk, forkOk with
      | none, _, _ => "submit-badtype"
      | some _, false, _ => "submit-pipefail"
      | some _, true, false => "submit-forkfail"
      | some true, true, true => "submit-r"
      | some false, true, true => "submit-w"
    let s := { setTh s tid {} with cov := bump s.cov key }
    -- status changes of the new child that happened before fork() had even returned to the parent (seen inside the submit window, when the
    -- model did not know the pid yet) are applied now
    let (s, m3) := (th.later.toList.zip th.laterPid.toList).foldl
      (fun (acc : S × List String) (p : Nat × Nat) => let (s', m) := procEvent acc.1 p.2 p.1; (s', acc.2 ++ m)) (s, [])
    (s, m0 ++ m1 ++ m2 ++ m3)

def handle (s : S) (ws : List String) : S × List String :=
  let s := { s with line := s.line + 1 }
  match ws with
  | [] => (s, [])
  | tw :: rest =>
    if !tw.startsWith "T" then (s, []) else
    match (tw.drop 1).toString.toNat? with
    | none => (s, [])
    | some tid =>
    let th := getTh s tid
    match th.win, rest with
    -- ---------------------------------------------------------------- submit
    | .idle, "API" :: "psubmit" :: qw :: more =>
      match qNum qw, kvNat "t" more, kv "type" more with
      | some q, some t, some ty =>
        let ty' := if ty == "r" then some true else if ty == "w" then some false else none
        (setTh s tid { win := .submit q ty' t }, [])
      | _, _, _ => (s, [s!"bad-log line {s.line}"])
    | .submit .., "VFDS" :: tab =>
      (setTh s tid { th with sub := { th.sub with before := (parseTab tab).map fun (n, k) => (n, fileOf none k), haveBefore := true } }, [])
    | .submit .., ["PALLOC", rw] =>
      (setTh s tid { th with outs := th.outs.push .alloc, sub := { th.sub with recId := recNum rw } }, [])
    | .submit .., ["VPIPE", "fail"] => (setTh s tid { th with sub := { th.sub with pipeFail := true } }, [])
    | .submit .., "VPIPE" :: more =>
      match kvNat "r" more, kvNat "w" more, kvNat "id" more with
      | some a, some b, some c => (setTh s tid { th with sub := { th.sub with pipe := some (a, b, c) } }, [])
      | _, _, _ => (s, [s!"bad-log line {s.line}"])
    | .submit .., "PSPAWNRET" :: r :: more =>
      let ok := r == "0"
      (setTh s tid { th with outs := th.outs.push (.spawn ok), sub := { th.sub with forkRet := some ok, pid := (kvNat "pid" more).getD 0 } }, [])
    | .submit .., "CHILD-BEGIN" :: _ => (setTh s tid { th with sub := { th.sub with inChild := true } }, [])
    | .submit .., "VOPEN" :: _ :: more =>
      if th.sub.inChild then (setTh s tid { th with sub := { th.sub with dn := kvNat "fd" more } }, []) else div s "open() in the parent"
    | .submit .., "EXEC" :: more =>
      (setTh s tid { th with sub := { th.sub with exec := th.sub.inChild && more.contains "in-child" } }, [])
    | .submit .., "CHILD-WIRING" :: tab => (setTh s tid { th with sub := { th.sub with childTab := some (parseTab tab) } }, [])
    | .submit .., ["CHILD-END"] => (setTh s tid { th with sub := { th.sub with inChild := false } }, [])
    | .submit .., "CHILD" :: more =>
      match kvNat "pid" more, (kv "status" more).bind parseHex with
      | some pid, some st => (setTh s tid { th with later := th.later.push st, laterPid := th.laterPid.push pid }, [])
      | _, _ => (s, [s!"bad-log line {s.line}"])
    | .submit .., ["PFREE", _] => (setTh s tid { th with outs := th.outs.push .free }, [])
    | .submit .., "RET" :: more =>
      match kvInt "fd" more, kv "end" more with
      | some fd, some e =>
        let e' := if e == "pipeR" then some true else if e == "pipeW" then some false else none
        (setTh s tid { th with outs := th.outs.push (.ret (if fd < 0 then none else e')), sub := { th.sub with retFd := fd, retEnd := e } }, [])
      | _, _ => (s, [s!"bad-log line {s.line}"])
    | .submit .., _ => (s, [])
    -- ---------------------------------------------------------------- close
    | .idle, "API" :: "pclose" :: qw :: more =>
      match qNum qw, kvInt "rec" more, kvNat "t" more with
      | some q, some r, some t => (setTh s tid { win := .close q r t }, [])
      | _, _, _ => (s, [s!"bad-log line {s.line}"])
    | .close .., "PTREG" :: _ :: more =>
      match kvNat "at" more with
      | some a => (setTh s tid { th with outs := th.outs.push (.tReg a) }, [])
      | none => (s, [s!"bad-log line {s.line}"])
    | .close _ r t, "RET" :: _ =>
      let s := setTh s tid {}
      if r < 0 then div s "close of a request that never had a record"
      else
        let s := { s with cov := bump s.cov (if th.outs.isEmpty then "close-child-gone" else "close-start-signalling") }
        act s r.toNat (some t) .close (some th.outs.toList) "close"
    | .close .., "PFREE" :: _ => div s "free inside iv_popen_request_close"
    | .close .., _ => (s, [])
    -- ---------------------------------------------------------------- the signalling timer
    | .idle, "CB" :: "qtimer" :: rw :: more =>
      match recNum rw, kvNat "t" more with
      | some r, some t => (setTh s tid { win := .timer r t }, [])
      | _, _ => div s "timer handler ran on a record the harness does not know (freed?)"
    | .timer .., "PKILL" :: _ :: more =>
      match kvNat "sig" more with
      | some 15 => (setTh s tid { th with outs := th.outs.push (.killReq .term) }, [])
      | some 9 => (setTh s tid { th with outs := th.outs.push (.killReq .kill) }, [])
      | _ => div s "kill request with a signal that is neither SIGTERM nor SIGKILL"
    | .timer .., "KILL" :: more =>
      match kvNat "sig" more with
      | some 15 => (setTh s tid { th with outs := th.outs.push (.sysKill .term), killSys := true }, [])
      | some 9 => (setTh s tid { th with outs := th.outs.push (.sysKill .kill), killSys := true }, [])
      | _ => div s "kill() with an unexpected signal"
    | .timer .., "KILL-AFTER-REAP" :: more =>
      let sg := if kvNat "sig" more == some 9 then Sig.kill else Sig.term
      (setTh s tid { th with outs := th.outs.push (.sysKill sg), killSys := true }, [])
    | .timer .., "CHILD" :: more =>
      match kvNat "pid" more, (kv "status" more).bind parseHex with
      | some pid, some st =>
        if th.killSys && !th.afterKill then (setTh s tid { th with killDies := true }, [])
        else (setTh s tid { th with later := th.later.push st, laterPid := th.laterPid.push pid }, [])
      | _, _ => (s, [s!"bad-log line {s.line}"])
    | .timer .., ["PKILLRET", r] =>
      (setTh s tid { th with afterKill := true, killRet := r.toInt?.getD 0 }, [])
    | .timer .., ["PWUNREG", _] => (setTh s tid { th with outs := th.outs.push .wUnreg }, [])
    | .timer .., ["PFREE", _] => (setTh s tid { th with outs := th.outs.push .free }, [])
    | .timer .., "PTREG" :: _ :: more =>
      match kvNat "at" more with
      | some a => (setTh s tid { th with outs := th.outs.push (.tReg a) }, [])
      | none => (s, [s!"bad-log line {s.line}"])
    | .timer r t, ["END"] =>
      let s := setTh s tid {}
      let killOk := !(th.killSys && th.killRet < 0)
      let key := if !th.killSys then "timer-refused-esrch" else if th.killRet < 0 then "timer-kill-failed"
                 else if th.outs.contains (.sysKill .kill) then "timer-sigkill" else if th.killDies then "timer-sigterm-dies" else "timer-sigterm-ignored"
      let s := { s with cov := bump s.cov key }
      let (s, m1) := act s r (some t) (.timerFire killOk th.killDies) (some th.outs.toList) "timer"
      -- status changes that happened while the handler was running (after the kill) are applied now
      let (s, m2) := (th.later.toList.zip th.laterPid.toList).foldl
        (fun (acc : S × List String) (p : Nat × Nat) => let (s', m) := procEvent acc.1 p.2 p.1; (s', acc.2 ++ m)) (s, [])
      let (s, m3) := th.laterReap.toList.foldl
        (fun (acc : S × List String) (r' : Nat) =>
          let s0 := acc.1
          let s0 := { s0 with cov := bump s0.cov "reap-during-kill-window" }
          let (s', m) := act s0 r' none .reap none "REAP"; (s', acc.2 ++ m)) (s, [])
      (s, m1 ++ m2 ++ m3)
    | .timer .., _ => (s, [])
    -- ---------------------------------------------------------------- status delivery
    | .idle, "CB" :: "qwait" :: rw :: more =>
      match recNum rw, (kv "status" more).bind parseHex, kvNat "t" more with
      | some r, some st, some t => (setTh s tid { win := .wait r st t }, [])
      | _, _, _ => div s "status handler ran on a record the harness does not know (freed?)"
    | .wait .., ["PWUNREG", _] => (setTh s tid { th with outs := th.outs.push .wUnreg }, [])
    | .wait .., ["PTUNREG", _] => (setTh s tid { th with outs := th.outs.push .tUnreg }, [])
    | .wait .., ["PFREE", _] => (setTh s tid { th with outs := th.outs.push .free }, [])
    | .wait r st t, ["REQCHILD", _, how] =>
      let s := setTh s tid {}
      match getRec s r with
      | none => div s s!"status delivered to unknown record rec{r}"
      | some m =>
        if m.pending.head? != some st then
          div s s!"status 0x{st} delivered to rec{r} but the model's queue is {m.pending}"
        else
          let key := if !isTerminal st then "status-nonterminal" else if m.attached then "status-terminal-attached" else "status-terminal-detached"
          let s := { s with cov := bump s.cov key }
          let wasThis := m.reqChild
          let (s, m1) := match step (tickTo m t) .childStatus with
            | .ok m' o =>
              let s := { setRec s r m' with steps := s.steps + 1 }
              let o' := o.filter (· != Out.detach)
              let nowThis := how == "this"
              let msgs := (if o' == th.outs.toList then [] else [s!"DIVERGE line {s.line}: status rec{r}: implementation did {repr th.outs.toList}, model predicts {repr o'}"]) ++
                (if nowThis == m'.reqChild then [] else [s!"DIVERGE line {s.line}: status rec{r}: request->child is '{how}' but the model says points-here={m'.reqChild} (was {wasThis})"])
              ({ s with diverged := s.diverged + msgs.length }, msgs)
            | .fault f => div s s!"status rec{r}: the model faults ({repr f})"
            | .disabled => div s s!"status rec{r}: delivery not possible in the model (waitReg={m.waitReg} recSt={repr m.recSt})"
          (s, m1)
    | .wait .., _ => (s, [])
    -- ---------------------------------------------------------------- outside any window
    | .idle, "CHILD" :: more =>
      match kvNat "pid" more, (kv "status" more).bind parseHex with
      | some pid, some st => procEvent s pid st
      | _, _ => (s, [s!"bad-log line {s.line}"])
    | .idle, "REAP" :: more =>
      match kvNat "pid" more, (kv "status" more).bind parseHex with
      | some pid, some st =>
        match recOfPid s pid with
        | none => (s, [])
        | some r =>
          match getRec s r with
          | some m =>
            -- another thread is inside the signalling-timer handler of this very record and its kill() was already made: that kill
            -- was linearised (iv_wait_lock) BEFORE this reap; the model takes the timer step at that window's END, so defer the reap
            match s.ths.find? (fun (t', th') => t' != tid && th'.killSys && (match th'.win with | .timer r' _ => r' == r | _ => false)) with
            | some (t', th') => (setTh s t' { th' with laterReap := th'.laterReap.push r }, [])
            | none =>
            if m.kq.head? != some st then div s s!"wait4 returned 0x{st} for rec{r} but the model's kernel queue is {m.kq}"
            else
              let s := { s with cov := bump s.cov (if m.waitReg && !m.dead then "reap-queued" else "reap-dropped") }
              act s r none .reap none "REAP"
          | none => (s, [])
      | _, _ => (s, [s!"bad-log line {s.line}"])
    | .idle, "KILL" :: more =>
      match kvNat "pid" more with
      | some pid => if (recOfPid s pid).isSome || s.pidOf.any (·.2 == pid) then div s "kill() for a popen child outside the signalling timer" else (s, [])
      | none => (s, [])
    | .idle, ["PFREE", _] => div s "record freed outside submit / timer / status handler"
    | .idle, "PTREG" :: _ => div s "timer registered outside close / timer handler"
    | .idle, ["PTUNREG", _] => div s "timer unregistered outside the status handler"
    | .idle, ["PWUNREG", _] => div s "interest unregistered outside timer / status handler"
    | .idle, "POPEN-END" :: more =>
      let live := (s.recs.filter fun (_, m) => m.recSt == .live).length
      if kvNat "live_records" more == some live then (s, [])
      else div s s!"at the end the implementation has {(kvNat "live_records" more).getD 0} live records, the model {live}"
    | .idle, _ => (s, [])

/-- the window of a submit ends at the VFDS line that follows RET -/
def stepLine (s : S) (ws : List String) : S × List String :=
  match ws with
  | tw :: "VFDS" :: tab =>
    match (tw.drop 1).toString.toNat? with
    | some tid =>
      let th := getTh s tid
      match th.win with
      | .submit q ty t =>
        if th.sub.haveBefore && th.sub.retEnd != "" then
          finishSubmit { s with line := s.line + 1 } tid q ty t th (parseTab tab)
        else handle s ws
      | _ => handle s ws
    | none => handle s ws
  | _ => handle s ws

def run : IO Unit := do
  let out ← IO.getStdout
  let s ← loopLines (← IO.getStdin) out ({} : S) stepLine
  let open_ := (s.ths.filter fun (_, t) => match t.win with | .idle => false | _ => true).length
  if open_ != 0 then out.putStrLn s!"DIVERGE end: the log ends inside {open_} unfinished call(s)/handler(s)"
  out.putStrLn s!"SUMMARY steps {s.steps} diverged {s.diverged + open_} records {s.recs.length}"
  for (k, n) in s.cov do
    out.putStrLn s!"COV {k} {n}"

end Ivy.Drv.Popen
