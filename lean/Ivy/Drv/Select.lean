import Ivy.L1.Select
import Ivy.Drv.Util
/-! driver for the method-selection T-diff: `SEL <epoll-available 0|1> unset` or `SEL <0|1> hex <hex bytes of the string>` -/
namespace Ivy.Drv.Select
open Ivy.L1 Ivy.L1.Select

def hexVal (c : Char) : Nat :=
  if c.isDigit then c.toNat - '0'.toNat else if 'a' ≤ c ∧ c ≤ 'f' then c.toNat - 'a'.toNat + 10 else 0

def unhex (s : String) : String :=
  let rec go (cs : List Char) (acc : List Char) : List Char :=
    match cs with
    | a :: b :: rest => go rest (Char.ofNat (hexVal a * 16 + hexVal b) :: acc)
    | _ => acc.reverse
  String.ofList (go s.toList [])

def step (_ : Unit) (ws : List String) : Unit × List String :=
  match ws with
  | "SEL" :: ep :: rest =>
    let avail : Method → Bool := fun m => if m.isEpoll then ep == "1" else true
    let ex : Option String := match rest with
      | ["hex", h] => some (unhex h)
      | ["hex"] => some ""
      | _ => none
    match select ex avail with
    | some m => ((), [s!"METHOD {methodName m}"])
    | none => ((), ["METHOD none"])
  | _ => ((), ["bad-op"])

def run : IO Unit := do
  let _ ← loopLines (← IO.getStdin) (← IO.getStdout) () step

end Ivy.Drv.Select
